(* C11 — the statement of Props_C11.v about one funding source, about the definitions REGENERATED
   FROM THE SOURCE.  Statements only; every proof is [exact lemma].

   gen/DistGen.v is written at the start of every check run by tools/go2coq (dist.go, imp.go): the
   head of the loop bodies of persist/sqlite/accounts.go distributeRHP3AccountUsage /
   distributeRHP4AccountUsage — the distributeFunds closure (pointer parameters followed, checked
   Currency arithmetic) and its calls, in the order the source makes them — executed symbolically
   for one funding row.  The statements on the transaction that follow in the loop body (the row's
   DELETE/UPDATE, the contract's read-modify-write in other functions) remain the hand model's
   [distribute]; the translator checks that they do not assign what the head computes.
   GenEquiv.v proves the generated row functions equal to the hand model's [dist] for all inputs. *)
From HostdBase Require Import Base.
From HostdFunding Require Import Model Lib Proofs DistGen GenEquiv.
Local Open Scope N_scope.

(* the per-row arithmetic translated from the source is the hand model's, for every usage and amount *)
Theorem c11_gen_rhp3_row_is_model : forall (u : usage6) (amount : N),
  distributeRHP3AccountUsage_row u amount = dist u amount.
Proof. exact rhp3_row_eq. Qed.
Print Assumptions c11_gen_rhp3_row_is_model.

(* RHP4: the same loop without the two registry calls, i.e. the hand model's [dist] on a usage whose
   registry categories are zero — as [step] applies it ([q_of_usage4]) *)
Theorem c11_gen_rhp4_row_is_model : forall (u : usage6) (amount : N), qRegR u = 0 -> qRegW u = 0 ->
  distributeRHP4AccountUsage_row u amount = dist u amount.
Proof. exact rhp4_row_eq. Qed.
Print Assumptions c11_gen_rhp4_row_is_model.

(* twin of c11_one_source_exact: nothing is lost per category, the source is used up before the next
   one is touched — about the translated RHP3 arithmetic ... *)
Theorem c11_gen_one_source_exact : forall u amt, wfq u ->
  exists u' add rem, distributeRHP3AccountUsage_row u amt = Ok (u', add, rem) /\
    qStorage u' + qStorage add = qStorage u /\ qIngress u' + qIngress add = qIngress u /\
    qEgress u' + qEgress add = qEgress u /\ qRegR u' + qRegR add = qRegR u /\
    qRegW u' + qRegW add = qRegW u /\ qRpc u' + qRpc add = qRpc u /\
    tot6 add + rem = amt /\ tot6 add = N.min (tot6 u) amt /\ wfq u'.
Proof. exact rhp3_row_spec. Qed.
Print Assumptions c11_gen_one_source_exact.

(* ... and about the translated RHP4 arithmetic (no registry usage is ever attributed) *)
Theorem c11_gen_one_source_exact_v2 : forall (u : usage4) amt, wfq (q_of_usage4 u) ->
  exists u' add rem, distributeRHP4AccountUsage_row (q_of_usage4 u) amt = Ok (u', add, rem) /\
    qStorage u' + qStorage add = rStorage u /\ qIngress u' + qIngress add = rIngress u /\
    qEgress u' + qEgress add = rEgress u /\ qRpc u' + qRpc add = rRpc u /\
    qRegR add = 0 /\ qRegW add = 0 /\
    tot6 add + rem = amt /\ tot6 add = N.min (tot6 (q_of_usage4 u)) amt /\ wfq u'.
Proof. exact rhp4_row_spec. Qed.
Print Assumptions c11_gen_one_source_exact_v2.

Example c11_gen_nonvacuous :
  distributeRHP3AccountUsage_row gen_demo_u 9
    = Ok ({| qStorage := 0; qIngress := 0; qEgress := 0; qRegR := 0; qRegW := 3; qRpc := 3 |},
          {| qStorage := 5; qIngress := 2; qEgress := 0; qRegR := 1; qRegW := 1; qRpc := 0 |}, 0) /\
  distributeRHP4AccountUsage_row (q_of_usage4 {| rRpc := 3; rStorage := 5; rEgress := 1; rIngress := 2; rFunding := 0; rRisked := 0 |}) 20
    = Ok ({| qStorage := 0; qIngress := 0; qEgress := 0; qRegR := 0; qRegW := 0; qRpc := 0 |},
          {| qStorage := 5; qIngress := 2; qEgress := 1; qRegR := 0; qRegW := 0; qRpc := 3 |}, 9) /\
  wfq gen_demo_u.
Proof. exact gen_demo_ok. Qed.
