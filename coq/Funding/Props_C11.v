(* C11 — Account spending is attributed to funding contracts without loss.
   Statements only; every proof is [exact lemma].  Model: Funding/Model.v (one [op] = one store
   transaction).  [con1]/[fund1] are the v1 tables (contracts, contract_account_funding),
   [con2]/[fund2] the v2 ones; [fsum c f] is the sum of contract c's per-account funding records
   in table f; [rev x] the sum of a contract's six revenue columns; [crev t] the total revenue of
   a contract table.

   Hypotheses, on the INPUT history only:
   - [Forall wf_op l]: contracts are inserted without account funding; RHP4CreditAccounts gets
     usage.AccountFunding = sum of its deposits (rhp4.ReviseForFundAccounts); usage fields are
     Currency values (< 2^128);
   - [atts l < two128]: everything ever put into contract rows (initial usage, deposits, fund-RPC
     cost) stays below 2^128 H, so no Currency.Add can overflow (coin supply < 2^116 H). *)
From HostdBase Require Import Base.
From HostdFunding Require Import Model Lib Proofs Proofs2 Proofs3.

(* every reachable state satisfies the invariant [Inv] used as a hypothesis below *)
Theorem c11_reachable_invariant : forall l,
  Forall wf_op l -> (atts l < two128)%N -> Inv (atts l) (runs init l).
Proof. exact reachable_inv. Qed.
Print Assumptions c11_reachable_invariant.

(* "the contract's unspent funding always equals the sum of its per-account funding records"
   — for every contract of either version after every history; records never reference a
   contract that does not exist *)
Theorem c11_unspent_is_sum_of_records : forall l, Forall wf_op l -> (atts l < two128)%N ->
  (forall c x, alookup c (con1 (runs init l)) = Some x -> cFunding x = fsum c (fund1 (runs init l))) /\
  (forall c x, alookup c (con2 (runs init l)) = Some x -> cFunding x = fsum c (fund2 (runs init l))) /\
  (forall c, alookup c (con1 (runs init l)) = None -> fsum c (fund1 (runs init l)) = 0%N) /\
  (forall c, alookup c (con2 (runs init l)) = None -> fsum c (fund2 (runs init l)) = 0%N).
Proof. exact unspent_is_sum_of_records. Qed.
Print Assumptions c11_unspent_is_sum_of_records.

(* "for each contract unspent account funding plus total revenue is unchanged by the debit":
   [moved_into x x'] says  cFunding x' + rev x' = cFunding x + rev x,  cFunding x' <= cFunding x,
   every revenue column (incl. registry read/write for v1) only grows, risked collateral is
   untouched; contracts are neither created nor dropped, the other version's tables are
   untouched.  Holds for successful and refused debits alike. *)
Theorem c11_debit_v1_conserves_per_contract : forall B s a u,
  Inv B s -> (B < two128)%N -> wfq u ->
  (forall c, match alookup c (con1 s), alookup c (con1 (fst (step s (Debit1 a u)))) with
             | Some x, Some x' => moved_into x x' | None, None => True | _, _ => False end) /\
  con2 (fst (step s (Debit1 a u))) = con2 s /\ fund2 (fst (step s (Debit1 a u))) = fund2 s.
Proof. exact debit1_conserves. Qed.
Print Assumptions c11_debit_v1_conserves_per_contract.

Theorem c11_debit_v2_conserves_per_contract : forall B s a u,
  Inv B s -> (B < two128)%N -> wfq (q_of_usage4 u) ->
  (forall c, match alookup c (con2 s), alookup c (con2 (fst (step s (Debit2 a u)))) with
             | Some x, Some x' => moved_into x x' | None, None => True | _, _ => False end) /\
  con1 (fst (step s (Debit2 a u))) = con1 s /\ fund1 (fst (step s (Debit2 a u))) = fund1 s.
Proof. exact debit2_conserves. Qed.
Print Assumptions c11_debit_v2_conserves_per_contract.

(* "no funding record or contract total ever goes negative": in a reachable state no
   Currency.Sub (or Add) inside a debit panics, whatever the category mix *)
Theorem c11_debit_never_panics : forall B s a, Inv B s -> (B < two128)%N ->
  (forall u, wfq u -> (tot6 u < two128)%N -> snd (step s (Debit1 a u)) <> OPanic) /\
  (forall u, wfq (q_of_usage4 u) -> (cost_of u < two128)%N -> snd (step s (Debit2 a u)) <> OPanic).
Proof. exact debit_never_panics. Qed.
Print Assumptions c11_debit_never_panics.

(* how much a successful debit moves: the debit, capped by the account's funding records of that
   version; the records of the account shrink by exactly that, the balance by the debit *)
Theorem c11_debit_v1_moved_amount : forall B s a u s',
  Inv B s -> (B < two128)%N -> wfq u -> step s (Debit1 a u) = (s', ODone) ->
  (crev (con1 s') = crev (con1 s) + N.min (tot6 u) (asum (inner a (fund1 s))))%N /\
  (asum (inner a (fund1 s')) + N.min (tot6 u) (asum (inner a (fund1 s))) = asum (inner a (fund1 s)))%N /\
  (getv a (accts s') + tot6 u = getv a (accts s))%N.
Proof. exact debit1_moved. Qed.
Print Assumptions c11_debit_v1_moved_amount.

Theorem c11_debit_v2_moved_amount : forall B s a u s',
  Inv B s -> (B < two128)%N -> wfq (q_of_usage4 u) -> step s (Debit2 a u) = (s', ODone) ->
  (crev (con2 s') = crev (con2 s) + N.min (tot6 (q_of_usage4 u)) (asum (inner a (fund2 s))))%N /\
  (asum (inner a (fund2 s')) + N.min (tot6 (q_of_usage4 u)) (asum (inner a (fund2 s))) = asum (inner a (fund2 s)))%N /\
  (getv a (accts s') + cost_of u = getv a (accts s))%N.
Proof. exact debit2_moved. Qed.
Print Assumptions c11_debit_v2_moved_amount.

(* "The total moved equals the debit whenever the account's balance came entirely from contracts
   of that protocol version": in every history without a (non-zero) deposit into the account
   through the other version, a successful debit adds exactly its total to the revenue of the
   contracts of its version.  (For RHP4 the debit's usage has no AccountFunding component — no
   RHP4 handler debits with one.) *)
Theorem c11_moved_equals_debit_v1 : forall l a u s',
  Forall wf_op l -> (atts l < two128)%N -> wfq u -> Forall (no_v2_deposit a) l ->
  step (runs init l) (Debit1 a u) = (s', ODone) ->
  crev (con1 s') = (crev (con1 (runs init l)) + tot6 u)%N.
Proof. exact moved_equals_debit_v1. Qed.
Print Assumptions c11_moved_equals_debit_v1.

Theorem c11_moved_equals_debit_v2 : forall l a u s',
  Forall wf_op l -> (atts l < two128)%N -> wfq (q_of_usage4 u) -> Forall (no_v1_deposit a) l ->
  rFunding u = 0%N ->
  step (runs init l) (Debit2 a u) = (s', ODone) ->
  crev (con2 s') = (crev (con2 (runs init l)) + cost_of u)%N.
Proof. exact moved_equals_debit_v2. Qed.
Print Assumptions c11_moved_equals_debit_v2.

(* a refused debit changes nothing *)
Theorem c11_refused_debit_changes_nothing : forall s a s' e,
  (forall u, step s (Debit1 a u) = (s', OErr e) -> s' = s) /\
  (forall u, step s (Debit2 a u) = (s', OErr e) -> s' = s).
Proof. exact failed_debit_unchanged. Qed.
Print Assumptions c11_refused_debit_changes_nothing.

(* recalc.go: on a consistent table RecalcContractAccountFunding is the identity, i.e. the
   equality checkContractAccountFunding logs about never fails *)
Theorem c11_recalc_is_identity : forall s, TInv (fund1 s) (con1 s) -> fst (step s Recalc) = s.
Proof. exact recalc_identity. Qed.
Print Assumptions c11_recalc_is_identity.

(* the pure distribution of one funding source: nothing lost per category, the source is used up
   before the next one is touched *)
Theorem c11_one_source_exact : forall u amt, wfq u ->
  exists u' add rem, dist u amt = Ok (u', add, rem) /\
    (qStorage u' + qStorage add = qStorage u)%N /\ (qIngress u' + qIngress add = qIngress u)%N /\
    (qEgress u' + qEgress add = qEgress u)%N /\ (qRegR u' + qRegR add = qRegR u)%N /\
    (qRegW u' + qRegW add = qRegW u)%N /\ (qRpc u' + qRpc add = qRpc u)%N /\
    (tot6 add + rem = amt)%N /\ tot6 add = N.min (tot6 u) amt /\ wfq u'.
Proof. exact @dist_spec. Qed.
Print Assumptions c11_one_source_exact.

(* non-vacuity (c11_demo in Proofs3.v): two v1 contracts and one v2 contract fund accounts; a v1
   debit with registry categories spans both v1 contracts and exhausts the first exactly *)
Example c11_nonvacuous :
  Forall wf_op c11_demo /\ (atts c11_demo < two128)%N /\ Forall (no_v2_deposit 0) c11_demo /\
  crev (con1 (runs init c11_demo)) = 9%N /\
  option_map cFunding (alookup 1%N (con1 (runs init c11_demo))) = Some 0%N /\
  option_map cFunding (alookup 2%N (con1 (runs init c11_demo))) = Some 3%N /\
  option_map cRegW (alookup 2%N (con1 (runs init c11_demo))) = Some 2%N /\
  inner 0 (fund1 (runs init c11_demo)) = [(2, 3)]%N /\ getv 0 (accts (runs init c11_demo)) = 3%N.
Proof. exact c11_demo_ok. Qed.
