(* C15 — Contract locks are exclusive, hand off to one waiter, and never leak.
   Statements only; every proof is [exact lemma].

   Model: coq/Lock/Model.v — host/contracts/lock.go (locker.Lock, locker.Unlock, Manager.Lock,
   Manager.Unlock, Manager.LockV2Contract) and host/contracts/integrity.go (Manager.CheckIntegrity,
   Manager.V2CheckIntegrity), i.e. every user of the contract lock inside the manager, as a
   transition system with one transition per critical section.  [reachable k s]: s is reached
   from the empty locker with k caller sessions by ANY finite sequence of actions (any k, any
   contract ids, any interleaving of Lock / Manager.Lock / LockV2Contract calls, integrity checks,
   context cancellations and the internal steps of calls in progress).

   Assumptions, stated once:
   * protocol: a caller of Manager.Lock / LockV2Contract calls Manager.Unlock(id) / the returned
     closure only while it holds id, once per hold (AUnlock is enabled in pc Holding only).  This is
     NOT assumed but proved
     - for the users of the lock INSIDE the manager — the error paths of Manager.Lock /
       LockV2Contract, the deferred releases of CheckIntegrity / V2CheckIntegrity:
       [c15_unlock_only_by_holder], [c15_session_releases_what_it_acquired], [c15_wrapper_paths];
     - for the users OUTSIDE it that hostd contains — RHP2 sessions (rhp/v2: rpcLock, rpcUnlock, the
       deferred release of upgrade, every RPC error in between, renew-and-clear) and the RHP3
       handlers (rhp/v3: processContractPayment, processFundAccountPayment, handleRPCRenew,
       handleRPCExecute), modelled in Users.v as programs over the manager's API whose Unlock calls
       run lock.go:33-46 whatever the caller holds: [c15_users_unlock_only_held] and the theorems
       after it, for any number of such users interleaved with the callers above.
     - for coreutils' RHP4 server at the pinned version (rhp/v4/server.go: lockContractForRevision
       146-154 with its release of a non-revisable contract WITHOUT a defer, handleRPCLatestRevision
       524-528, the `defer unlock()` of the seven revising handlers and every return before and
       after it), modelled in Users.v as the [UR4] programs — the same theorems, since [ureachable]
       ranges over them too, and [c15_rhp4_*] at the end of this file.
     It remains an assumption for any other future caller;
   * atomicity: code under lr.mu, a channel send/receive and the choice made by a select are
     atomic steps; what lies below (Go memory model, runtime channels/select/sync.Mutex) is
     trusted, not modelled;
   * scheduling (only for the "eventually" reading of progress): weak fairness — an internal
     step that stays enabled is eventually taken.  The theorems below give the model-level
     content (the step IS enabled, stays enabled whatever other sessions do, and internal steps
     terminate); the eventuality itself on the Go scheduler is the part the model cannot carry,
     hence [c15_waiter_progress_partial]. *)
From HostdBase Require Import Base.
From HostdLock Require Import Model Proofs Proofs2 Proofs3 Proofs4 Users ProofsUsers ProofsUsers4.
Local Open Scope Z_scope.

(** At most one caller holds the lock of a given contract at any time.  ([holds i th]: th is in
    pc Holding i, or — Manager level — in the error path after locks.Lock returned nil and before
    its cm.locks.Unlock(i), or inside CheckIntegrity / V2CheckIntegrity between the successful
    lock call and the deferred release.) *)
Theorem c15_mutual_exclusion : forall k s,
  reachable k s ->
  forall i t1 t2 th1 th2,
    nth_error (ths s) t1 = Some th1 -> nth_error (ths s) t2 = Some th2 ->
    holds i th1 -> holds i th2 -> t1 = t2.
Proof. exact mutual_exclusion. Qed.
Print Assumptions c15_mutual_exclusion.

(** locks[id].n = holders + waiting + cancelling sessions of id, the entry exists iff there is
    at least one of them. *)
Theorem c15_count_inv : forall k s,
  reachable k s ->
  forall i,
    match tlookup i (tbl s) with
    | Some a => exists o, hget a (heap s) = Some o
                          /\ ln o = count (is_holder i) s + count (is_waiter i) s + count (is_canceller i) s
                          /\ 1 <= ln o
    | None => count (is_holder i) s = 0 /\ count (is_waiter i) s = 0 /\ count (is_canceller i) s = 0
    end.
Proof. exact count_inv. Qed.
Print Assumptions c15_count_inv.

(** The *lock a waiter captured under the mutex is still the table's entry when it later
    decrements l.n / receives from l.ch (no stale pointer, delete(lr.locks,id) removes its own
    entry). *)
Theorem c15_waiter_pointer_current : forall k s,
  reachable k s ->
  forall t th i a, nth_error (ths s) t = Some th ->
    tpc th = Waiting i a \/ tpc th = Cancelling i a -> tlookup i (tbl s) = Some a.
Proof. exact waiter_pointer_current. Qed.
Print Assumptions c15_waiter_pointer_current.

(** The channel holds a token exactly when the (existing) entry has no holder; never two. *)
Theorem c15_token_xor_holder : forall k s,
  reachable k s ->
  forall i a o, tlookup i (tbl s) = Some a -> hget a (heap s) = Some o ->
    (ltok o = 0 /\ count (is_holder i) s = 1) \/ (ltok o = 1 /\ count (is_holder i) s = 0).
Proof. exact token_xor_holder. Qed.
Print Assumptions c15_token_xor_holder.

(** One unlock admits at most one waiter: over any execution the number of waiters admitted to
    contract i (receive steps) never exceeds the number of unlocks of i ... *)
Theorem c15_admitted_le_released : forall k l s' i,
  run (init k) l = Some s' ->
  tally (recv_on i) (init k) l <= tally (release_on i) (init k) l.
Proof. exact admitted_le_released. Qed.
Print Assumptions c15_admitted_le_released.

(** ... and in any execution segment without an unlock of i at most one waiter is admitted,
    namely the one that takes the token pending at its start (none if i is held). *)
Theorem c15_one_unlock_one_waiter : forall k s l s' i,
  reachable k s -> run s l = Some s' ->
  tally (release_on i) s l = 0 -> tally (recv_on i) s l <= tokc i s /\ tokc i s <= 1.
Proof. exact one_unlock_one_waiter. Qed.
Print Assumptions c15_one_unlock_one_waiter.

(** Unlock by the holder never blocks on the channel and never panics: it completes in its one
    critical section. *)
Theorem c15_unlock_never_blocks : forall k s t th i,
  reachable k s -> nth_error (ths s) t = Some th -> tpc th = Holding i ->
  exists s' th', step s (AUnlock t) = Some s' /\ nth_error (ths s') t = Some th'
                 /\ tpc th' = Idle /\ tret th' = RNone.
Proof. exact unlock_never_blocks. Qed.
Print Assumptions c15_unlock_never_blocks.

(** No session is ever stuck in a send or panicked, and lr.mu is never held across steps. *)
Theorem c15_never_blocked_or_panicked : forall k s,
  reachable k s -> forall t th, nth_error (ths s) t = Some th -> ok_pc (tpc th).
Proof. exact never_blocked_or_panicked. Qed.
Print Assumptions c15_never_blocked_or_panicked.

(** Progress (model-level content; see the header for the fairness assumption):
    a waiter of a lock without holder can take the token now; a waiter whose context ended can
    leave now and then returns the context's error (its count is given back) ... *)
Theorem c15_waiter_progress_partial : forall k s t th i a,
  reachable k s -> nth_error (ths s) t = Some th ->
  (tpc th = Waiting i a -> count (is_holder i) s = 0 ->
     exists s' th', step s (ARecv t) = Some s' /\ nth_error (ths s') t = Some th' /\ holds i th')
  /\ (tpc th = Waiting i a -> tdone th = true ->
     exists s' th', step s (ACancelChosen t) = Some s' /\ nth_error (ths s') t = Some th'
                    /\ tpc th' = Cancelling i a)
  /\ (tpc th = Cancelling i a ->
     exists s' th', step s (ACancelCommit t) = Some s' /\ nth_error (ths s') t = Some th'
                    /\ tpc th' = Idle /\ tret th' = RCtxErr).
Proof. exact waiter_progress. Qed.
Print Assumptions c15_waiter_progress_partial.

(** ... steps of other sessions never change a session's pc (so with the theorem above, which
    holds in every reachable state, an enabled leave/commit/release stays enabled) ... *)
Theorem c15_other_steps_do_not_disturb : forall s a s' t,
  step s a = Some s' -> act_tid a <> t -> nth_error (ths s') t = nth_error (ths s) t.
Proof. exact step_other_thread. Qed.
Print Assumptions c15_other_steps_do_not_disturb.

(** ... internal steps terminate ... *)
Theorem c15_internal_steps_terminate : forall s a s',
  internal a = true -> step s a = Some s' -> 0 <= measure s' < measure s.
Proof. exact internal_step_decreases. Qed.
Print Assumptions c15_internal_steps_terminate.

(** ... and when they have run out, nobody is inside a call except waiters with a live context
    parked behind an actual holder: no lost wake-up, no waiter parked on a free lock, every
    cancelled waiter has returned. *)
Theorem c15_quiescent_shape : forall k s,
  reachable k s -> quiescent s = true ->
  forall t th, nth_error (ths s) t = Some th ->
    match tpc th with
    | Idle | Holding _ => True
    | Waiting i _ => tdone th = false /\ count (is_holder i) s = 1
    | _ => False
    end.
Proof. exact quiescent_shape. Qed.
Print Assumptions c15_quiescent_shape.

(** No leak: a contract nobody is attached to has no table entry; when all callers have returned
    and released the table is empty and the next Lock of any contract succeeds at once (fast
    path; [b] = the Manager-level contract check fails, then the call is on its error path). *)
Theorem c15_unused_contract_has_no_entry : forall k s i,
  reachable k s ->
  (forall t th, nth_error (ths s) t = Some th -> ~ attached i (tpc th)) ->
  tlookup i (tbl s) = None.
Proof. exact unused_contract_has_no_entry. Qed.
Print Assumptions c15_unused_contract_has_no_entry.

Theorem c15_no_leak : forall k s t th i d b,
  reachable k s -> (forall t th, nth_error (ths s) t = Some th -> tpc th = Idle) ->
  nth_error (ths s) t = Some th ->
  tbl s = [] /\
  exists s' th', step s (ALock t i d b) = Some s' /\ nth_error (ths s') t = Some th'
                 /\ tpc th' = (if b then Releasing i else Holding i).
Proof. exact no_leak. Qed.
Print Assumptions c15_no_leak.

(** Manager.Lock / LockV2Contract: once locks.Lock has succeeded, a failing contract lookup /
    isGoodForModification always gives the lock back (the release step is enabled, completes,
    and the call returns an error). *)
Theorem c15_manager_error_path_releases : forall k s t th i,
  reachable k s -> nth_error (ths s) t = Some th -> tpc th = Releasing i ->
  exists s' th', step s (AErrUnlock t) = Some s' /\ nth_error (ths s') t = Some th'
                 /\ tpc th' = Idle /\ tret th' = RMgrErr.
Proof. exact manager_error_path_releases. Qed.
Print Assumptions c15_manager_error_path_releases.

(** * The users of the lock inside the manager (lock.go, integrity.go) as wrappers *)

(** Every execution of locker.Unlock's code (Manager.Unlock / the LockV2Contract closure by a
    holder, the error paths of Manager.Lock / LockV2Contract, the deferred release of an integrity
    check) is made by the session that holds the contract: the entry is found (the panic branch
    "unlocking unheld lock" is not taken), no token is pending (the send cannot block), there was
    exactly one holder and afterwards there is none until a waiter takes the token. *)
Theorem c15_unlock_only_by_holder : forall k s a s',
  reachable k s -> step s a = Some s' -> is_release a = true ->
  exists th i a0 o th',
    nth_error (ths s) (act_tid a) = Some th /\ holds i th
    /\ tlookup i (tbl s) = Some a0 /\ hget a0 (heap s) = Some o /\ ltok o = 0 /\ 1 <= ln o
    /\ count (is_holder i) s = 1
    /\ nth_error (ths s') (act_tid a) = Some th' /\ tpc th' = Idle
    /\ count (is_holder i) s' = 0.
Proof. exact unlock_only_by_holder. Qed.
Print Assumptions c15_unlock_only_by_holder.

(** Every wrapper releases exactly what it acquired: over any execution, session t has run
    Unlock(i) exactly as often as it was handed i (fast path of its call, or the token), not
    counting the one hold it may have right now. *)
Theorem c15_session_releases_what_it_acquired : forall k l s' t i,
  run (init k) l = Some s' ->
  tally (acquire_by t i) (init k) l = tally (release_by t i) (init k) l + holding_now t i s'
  /\ 0 <= holding_now t i s' <= 1.
Proof. exact session_balance. Qed.
Print Assumptions c15_session_releases_what_it_acquired.

(** On every path: a session inside a wrapper that was handed the lock (Manager-level error path,
    body of a check, its return) can only take the next piece of that wrapper ... *)
Theorem c15_wrapper_paths : forall s a s' t th i,
  step s a = Some s' -> act_tid a = t -> nth_error (ths s) t = Some th ->
  (tpc th = Releasing i -> a = AErrUnlock t \/ (a = ACtxDone t /\ s' = s))
  /\ (forall v, tpc th = Checking i v -> a = ABody t \/ (a = ACtxDone t /\ s' = s))
  /\ (forall r, tpc th = Deferred i r -> a = ADeferUnlock t \/ (a = ACtxDone t /\ s' = s)).
Proof. exact wrapper_paths. Qed.
Print Assumptions c15_wrapper_paths.

(** ... the body of CheckIntegrity / V2CheckIntegrity leaves the lock alone and ends in the return
    its root checks select (error returns and the normal return alike) ... *)
Theorem c15_check_body_runs : forall k s t th i v,
  reachable k s -> nth_error (ths s) t = Some th -> tpc th = Checking i v ->
  exists s' th', step s (ABody t) = Some s' /\ nth_error (ths s') t = Some th'
                 /\ tpc th' = Deferred i (if v then RNil else RMgrErr)
                 /\ tbl s' = tbl s /\ heap s' = heap s.
Proof. exact check_body_runs. Qed.
Print Assumptions c15_check_body_runs.

(** ... and the deferred release then runs once, completes in its one critical section and the
    check returns. *)
Theorem c15_check_deferred_release_completes : forall k s t th i r,
  reachable k s -> nth_error (ths s) t = Some th -> tpc th = Deferred i r ->
  exists s' th', step s (ADeferUnlock t) = Some s' /\ nth_error (ths s') t = Some th'
                 /\ tpc th' = Idle /\ tret th' = r.
Proof. exact check_deferred_release_completes. Qed.
Print Assumptions c15_check_deferred_release_completes.

(** An integrity check of a free contract: in, body, out, and the contract is free again. *)
Theorem c15_check_round_trip : forall k s t th i d v,
  reachable k s -> nth_error (ths s) t = Some th -> tpc th = Idle -> tlookup i (tbl s) = None ->
  exists s3 th3, run s [ACheck t i d false v; ABody t; ADeferUnlock t] = Some s3
                 /\ nth_error (ths s3) t = Some th3 /\ tpc th3 = Idle
                 /\ tret th3 = (if v then RNil else RMgrErr)
                 /\ tlookup i (tbl s3) = None.
Proof. exact check_round_trip. Qed.
Print Assumptions c15_check_round_trip.

(** No leak, integrity checks included ([reachable] covers them): when everybody has returned the
    table is empty and a check of any contract is inside its body at once. *)
Theorem c15_no_leak_check : forall k s t th i d b v,
  reachable k s -> (forall t th, nth_error (ths s) t = Some th -> tpc th = Idle) ->
  nth_error (ths s) t = Some th ->
  tbl s = [] /\
  exists s' th', step s (ACheck t i d b v) = Some s' /\ nth_error (ths s') t = Some th'
                 /\ tpc th' = (if b then Releasing i else Checking i v).
Proof. exact no_leak_check. Qed.
Print Assumptions c15_no_leak_check.

(** Unlock by a session that does not hold the lock ([stray_unlock]: the same code, lock.go:33-46,
    run by anybody).  On a contract nobody is attached to it panics ... *)
Theorem c15_stray_unlock_unheld_panics : forall k s t th i,
  reachable k s -> nth_error (ths s) t = Some th ->
  (forall u thu, nth_error (ths s) u = Some thu -> ~ attached i (tpc thu)) ->
  exists s' th', stray_unlock s t i = Some s' /\ nth_error (ths s') t = Some th' /\ tpc th' = Panicked.
Proof. exact stray_unlock_unheld_panics. Qed.
Print Assumptions c15_stray_unlock_unheld_panics.

(** ... and on a contract somebody else holds it silently gives up that hold: a second run of an
    integrity check's release, with a waiter admitted in between, ends in two holders.  This is
    what [c15_unlock_only_by_holder] and [c15_session_releases_what_it_acquired] exclude for
    the code as it is. *)
Theorem c15_second_release_breaks_exclusion :
  exists s s1 s2,
    run (init 4) [ALock 0 5%N false false; ACheck 1 5%N false false true; ALock 2 5%N false false;
                  AUnlock 0; ARecv 1; ABody 1; ADeferUnlock 1; ARecv 2] = Some s
    /\ obs_of s = ([SIdle; SIdle; SHold 5%N; SIdle], [(5%N, 1, 0)])
    /\ stray_unlock s 1 5%N = Some s1
    /\ obs_of s1 = ([SIdle; SIdle; SHold 5%N; SIdle], [])
    /\ step s1 (ALock 3 5%N false false) = Some s2
    /\ obs_of s2 = ([SIdle; SIdle; SHold 5%N; SHold 5%N], [(5%N, 1, 0)]).
Proof. exact second_release_breaks_exclusion. Qed.
Print Assumptions c15_second_release_breaks_exclusion.

(** The tie: what the correspondence checker accepts.  [successors] is exactly the set of
    quiescent states reachable by interleaving the recorded external actions (each once) with
    internal steps; an accepted case is a model execution showing the recorded observations. *)
Theorem c15_successors_spec : forall cand acts s',
  external_only acts = true ->
  (In s' (successors cand (Par acts)) <->
   exists s l, In s cand /\ sched l acts /\ run s l = Some s' /\ quiescent s' = true).
Proof. exact successors_spec. Qed.
Print Assumptions c15_successors_spec.

Theorem c15_accepted_case_is_model_execution : forall l cand idx,
  run_case cand idx l = None -> cand <> [] -> exists s, In s cand /\ chain s l.
Proof. exact run_case_sound. Qed.
Print Assumptions c15_accepted_case_is_model_execution.

(* non-vacuity: a schedule with the cancellation racing the hand-off (the waiter has chosen
   ctx.Done, the holder unlocks and sends the token, the waiter commits its cancellation, the
   other waiter takes the token), ending with an empty table; and both outcomes of the race are
   successors of the same state. *)
Example c15_nonvacuous :
  (exists s, run (init 3) [ALock 0 5%N false false; ALock 1 5%N false false; ALock 2 5%N false false;
                           ACtxDone 1; ACancelChosen 1; AUnlock 0; ACancelCommit 1; ARecv 2; AUnlock 2]
             = Some s /\ tbl s = [] /\ map stat_of (ths s) = [SIdle; SCtxErr; SIdle])
  /\ map obs_of (successors (successors (successors (successors [init 3]
        (Par [ALock 0 5%N false false])) (Par [ALock 1 5%N false false])) (Par [ALock 2 5%N false false]))
        (Par [ACtxDone 1; AUnlock 0]))
     = [([SIdle; SHold 5%N; SWait 5%N], [(5%N, 2, 0)]); ([SIdle; SCtxErr; SHold 5%N], [(5%N, 1, 0)])].
Proof. vm_compute; split; [eexists; repeat split|reflexivity]. Qed.

(* non-vacuity of the wrapper theorems: a holder, a queued integrity check whose root checks fail,
   a queued Lock; the holder unlocks: either the Lock takes the token and the check stays parked
   behind it, or the check is admitted, returns its error and its deferred release admits the
   Lock — in both quiescent successors the contract has one holder and is counted right. *)
Example c15_check_nonvacuous :
  map obs_of (successors (successors (successors (successors [init 3]
        (Par [ALock 0 5%N false false])) (Par [ACheck 1 5%N false false false])) (Par [ALock 2 5%N false false]))
        (Par [AUnlock 0]))
  = [([SIdle; SWait 5%N; SHold 5%N], [(5%N, 2, 0)]); ([SIdle; SMgrErr; SHold 5%N], [(5%N, 1, 0)])].
Proof. vm_compute; reflexivity. Qed.

(** * The users of the lock outside host/contracts: RHP2 sessions, RHP3 handlers, RHP4 handlers

    Users.v composes the locker model with programs: an RHP2 session per connection (state
    machine over s.contract: Lock RPC accepted / refused at each check, Unlock RPC, any other RPC
    succeeding or failing, renew-and-clear, connection close, the deferred release at session end),
    bracketed RHP3 handlers (`Lock; if err return; defer Unlock`), the RHP4 handlers of coreutils'
    server ([UR4], see the end of this file), and free callers (everything of Model.v) — users of all
    three protocols in any mix and on the same contract ids: hostd has ONE lock table keyed by contract id
    and a renter may name any id in any protocol.  [ureachable us]: us is reached from a system of ANY number of such users, all at
    their start, by ANY finite interleaving of their steps, on any contract ids.  A user's
    Manager.Unlock(i) is [raw_unlock]: the code of locker.Unlock looking up i whoever calls it. *)

(** Protocol discharge: whenever a step of a session or handler calls Manager.Unlock(i), the
    calling goroutine is the current holder of i ... *)
Theorem c15_users_unlock_only_held : forall us a t i,
  ureachable us -> call_of false us a = Some (t, CUnlock i) ->
  exists th, nth_error (ths (ubase us)) t = Some th /\ tpc th = Holding i.
Proof. exact users_unlock_only_held. Qed.
Print Assumptions c15_users_unlock_only_held.

(** ... the call is enabled, it is exactly the holder's Unlock of Model.v (so
    [c15_unlock_only_by_holder] and [c15_unlock_never_blocks] apply to it: entry found, no token
    pending, one holder before and none after, no panic, no blocked send), and the goroutine holds
    nothing afterwards. *)
Theorem c15_users_unlock_is_holder_unlock : forall us a t i,
  ureachable us -> call_of false us a = Some (t, CUnlock i) ->
  exists us' th', ustep us a = Some us' /\ step (ubase us) (AUnlock t) = Some (ubase us')
                  /\ nth_error (ths (ubase us')) t = Some th' /\ tpc th' = Idle.
Proof. exact users_unlock_is_holder_unlock. Qed.
Print Assumptions c15_users_unlock_is_holder_unlock.

(** Hence every execution of the whole system is an execution of the locker model in which only
    holders unlock: every theorem above about [reachable] — mutual exclusion, the count, the token,
    one unlock / one waiter, no blocked or panicked Unlock, progress, no leak — holds for the
    locker driven by RHP2 sessions, RHP3 handlers and the callers inside host/contracts together. *)
Theorem c15_users_executions_are_locker_executions : forall us,
  ureachable us -> reachable (length (uusers us)) (ubase us).
Proof. exact ureachable_base. Qed.
Print Assumptions c15_users_executions_are_locker_executions.

(** What a user records is what its goroutine holds: a session between RPCs that records
    contract i (or is past the manager call of its Lock RPC), a handler in its body or at a return
    — its goroutine is the holder of i; a session that records nothing, an ended session, a handler
    that has not locked or has returned — its goroutine is attached to no lock. *)
Theorem c15_user_holds_is_holder : forall us t u th i,
  ureachable us -> nth_error (uusers us) t = Some u -> nth_error (ths (ubase us)) t = Some th ->
  (user_holds i u -> tpc th = Holding i) /\ (user_rest u -> tpc th = Idle).
Proof. exact user_holds_is_holder. Qed.
Print Assumptions c15_user_holds_is_holder.

(** Mutual exclusion on the users: two of them that have contract i (sessions, handlers, free
    callers in any mix) are one and the same. *)
Theorem c15_users_mutual_exclusion : forall us i t1 t2 u1 u2 th1 th2,
  ureachable us ->
  nth_error (uusers us) t1 = Some u1 -> nth_error (ths (ubase us)) t1 = Some th1 ->
  nth_error (uusers us) t2 = Some u2 -> nth_error (ths (ubase us)) t2 = Some th2 ->
  sys_holds i u1 th1 -> sys_holds i u2 th2 -> t1 = t2.
Proof. exact users_mutual_exclusion. Qed.
Print Assumptions c15_users_mutual_exclusion.

(** Session end: whenever a session is ending (an RPC returned an error, the peer closed, a Lock
    RPC was refused at any of its checks) the deferred release of upgrade is enabled and completes
    without panic ... *)
Theorem c15_session_end_completes : forall us t sc,
  ureachable us -> nth_error (uusers us) t = Some (USess sc SEnding) ->
  exists us' th', ustep us (UAct t SEnd) = Some us'
                  /\ nth_error (uusers us') t = Some (USess sc SEnded)
                  /\ nth_error (ths (ubase us')) t = Some th' /\ tpc th' = Idle.
Proof. exact session_end_completes. Qed.
Print Assumptions c15_session_end_completes.

(** ... and after it the session holds nothing and the table has no entry caused by it: a
    contract no OTHER goroutine is attached to has no entry. *)
Theorem c15_session_end_releases : forall us t sc th,
  ureachable us -> nth_error (uusers us) t = Some (USess sc SEnded) ->
  nth_error (ths (ubase us)) t = Some th ->
  tpc th = Idle /\
  forall i, (forall u thu, u <> t -> nth_error (ths (ubase us)) u = Some thu -> ~ attached i (tpc thu)) ->
            tlookup i (tbl (ubase us)) = None.
Proof. exact session_end_releases. Qed.
Print Assumptions c15_session_end_releases.

(** Handlers: at every return after the Lock the deferred release is enabled and completes; a
    handler that has returned (also: that returned before or from its Lock call) holds nothing. *)
Theorem c15_handler_deferred_release_completes : forall us t i,
  ureachable us -> nth_error (uusers us) t = Some (UBr (BRet i)) ->
  exists us' th', ustep us (UAct t BDefer) = Some us'
                  /\ nth_error (uusers us') t = Some (UBr BIdle)
                  /\ nth_error (ths (ubase us')) t = Some th' /\ tpc th' = Idle.
Proof. exact handler_deferred_release_completes. Qed.
Print Assumptions c15_handler_deferred_release_completes.

Theorem c15_handler_return_releases : forall us t th,
  ureachable us -> nth_error (uusers us) t = Some (UBr BIdle) ->
  nth_error (ths (ubase us)) t = Some th -> tpc th = Idle.
Proof. exact handler_return_releases. Qed.
Print Assumptions c15_handler_return_releases.

(** No leak, whole system: when every session records nothing or has ended, every handler has
    returned and every free caller is idle, the lock table is empty. *)
Theorem c15_users_no_leak : forall us,
  ureachable us ->
  (forall t u th, nth_error (uusers us) t = Some u -> nth_error (ths (ubase us)) t = Some th ->
                  match u with UFree => tpc th = Idle | _ => user_rest u end) ->
  tbl (ubase us) = [].
Proof. exact users_no_leak. Qed.
Print Assumptions c15_users_no_leak.

(** The changed rpcLock of seeded change C15-mut6 ([urun_gen true]: s.contract recorded before the
    challenge is verified).  Full statement it violates: [c15_users_unlock_only_held] /
    [c15_users_mutual_exclusion] for that program.  A stranger's Lock RPC on contract 5 is refused,
    a manager caller takes the free contract, the session ends and releases the caller's hold, a
    third caller is admitted: two holders; the unchanged program on the same schedule keeps the
    third caller waiting; without the interposed caller the second release panics. *)
Theorem c15_legacy_lock_order_refuted :
  (exists us, urun_gen true (uinit [USess 0%N SLoop; UFree; UFree]) mut6_schedule = Some us
              /\ uobs_of us = ([OSEnded; OF (SHold 5%N); OF (SHold 5%N)], [(5%N, 1, 0)]))
  /\ (exists us, urun (uinit [USess 0%N SLoop; UFree; UFree]) mut6_schedule = Some us
                 /\ uobs_of us = ([OSEnded; OF (SHold 5%N); OF (SWait 5%N)], [(5%N, 2, 0)]))
  /\ (exists us, urun_gen true (uinit [USess 0%N SLoop; UFree; UFree])
                   [UAct 0 (SRpcLock 5%N false false false); UAct 0 SLockReturn; UAct 0 SChallenge; UAct 0 SEnd] = Some us
                 /\ uobs_of us = ([OF SPanicked; OF SIdle; OF SIdle], [])).
Proof. exact legacy_lock_order_refuted. Qed.
Print Assumptions c15_legacy_lock_order_refuted.

(** The tie for the users: whatever the checker offers as next observation is shown by the
    composed model after an interleaving of the recorded external actions (each once) with
    internal steps, at quiescence; an accepted case is an execution of the composed model. *)
Theorem c15_users_successors_sound : forall cand acts s',
  In s' (usuccessors cand (UPar acts)) ->
  exists s l, In s cand /\ usched l acts /\ urun s l = Some s' /\ uquiescent s' = true.
Proof. exact usuccessors_sound. Qed.
Print Assumptions c15_users_successors_sound.

(** ... and nothing else is missing (no false alarm from the exploration's fuel): for candidate
    states in which every goroutine slot has a user the checker's successors are EXACTLY those
    states (every internal step decreases a measure bounded by 14 per user). *)
Theorem c15_users_successors_spec : forall cand acts s',
  uexternal_only acts = true ->
  (forall s, In s cand -> length (uusers s) = length (ths (ubase s))) ->
  (In s' (usuccessors cand (UPar acts)) <->
   exists s l, In s cand /\ usched l acts /\ urun s l = Some s' /\ uquiescent s' = true).
Proof. exact usuccessors_spec. Qed.
Print Assumptions c15_users_successors_spec.

Theorem c15_users_internal_steps_terminate : forall us a us',
  ustep us a = Some us' ->
  if uinternal a then umeasure us' < umeasure us else umeasure us' <= umeasure us + 14.
Proof. exact umeasure_step. Qed.
Print Assumptions c15_users_internal_steps_terminate.

Theorem c15_users_accepted_case_is_model_execution : forall l cand idx,
  urun_case cand idx l = None -> cand <> [] -> exists s, In s cand /\ uchain s l.
Proof. exact urun_case_sound. Qed.
Print Assumptions c15_users_accepted_case_is_model_execution.

(* non-vacuity of the user theorems: a manager caller holds contract 5, an RHP2 session's Lock RPC
   (good signature) and an RHP3 handler queue up behind it; the caller unlocks: either the session
   is admitted (and may lose its connection while answering) and the handler stays parked, or the
   handler is admitted, runs its body, releases at its return and the session is admitted. *)
Example c15_users_nonvacuous :
  map uobs_of (usuccessors (usuccessors (usuccessors (usuccessors (usuccessors [uinit []]
        (UInit [UFree; USess 0%N SLoop; UBr BIdle]))
        (UPar [UBase (ALock 0 5%N false false)])) (UPar [UAct 1 (SRpcLock 5%N true false false)]))
        (UPar [UAct 2 (BEnter 5%N false false false)])) (UPar [UBase (AUnlock 0)]))
  = [([OF SIdle; OSLoop 5%N; OBWait 5%N], [(5%N, 2, 0)]);
     ([OF SIdle; OSLoop 5%N; OBIdle], [(5%N, 1, 0)]);
     ([OF SIdle; OSEnded; OBIdle], [])].
Proof. vm_compute; reflexivity. Qed.

(** * coreutils' RHP4 server as a lock user (WP-H)

    Users.v [UR4]: one program per RHP4 stream, for the eight handlers that call
    Contractor.LockV2Contract (free / append sectors, fund / replenish accounts, sector roots,
    refresh, renew through lockContractForRevision; latest revision directly): returns before the
    lock, the Lock call (context.Background(): not cancellable), the manager's error return, the
    Revisable check with its direct unlock(), `defer unlock()`, the body up to the read of the
    renter's second message (the handler then holds the lock until the renter answers, hangs up
    or the stream's deadline passes) or to an early return, the rest, the deferred unlock().
    All [c15_users_*] theorems above hold for systems containing such handlers: [ureachable]
    ranges over lists of users that mix them with RHP2 sessions, RHP3 handlers and free callers.
    What is particular to RHP4: *)

(** From the return of LockV2Contract to its release an RHP4 handler's goroutine IS the holder of
    the contract it named (so [c15_users_mutual_exclusion] makes it the only user of any protocol that
    has that contract); a handler that has not locked or has returned is attached to no lock. *)
Theorem c15_rhp4_past_lock_is_holder : forall us t p th,
  ureachable us -> nth_error (uusers us) t = Some (UR4 p) -> nth_error (ths (ubase us)) t = Some th ->
  (r4_past_lock p = true -> tpc th = Holding (r4_id p)) /\ (p = R4Idle -> tpc th = Idle).
Proof. exact r4_past_lock_is_holder. Qed.
Print Assumptions c15_rhp4_past_lock_is_holder.

(** An RHP4 handler calls unlock() at three places only — the Revisable check failing
    (server.go:150), latest revision (528), the deferred call at a return — each time for the id
    it locked, and its program is finished with the lock afterwards ... *)
Theorem c15_rhp4_unlock_sites : forall lg p x th u' i,
  user_step lg (UR4 p) x th = Some (u', CUnlock i) ->
  u' = UR4 R4Idle /\
  ((exists k rv, p = R4Got k i rv /\ x = R4Check /\ (k = K4Latest \/ rv = false))
   \/ (exists k, p = R4Ret k i /\ x = R4Defer)).
Proof. exact r4_unlock_sites. Qed.
Print Assumptions c15_rhp4_unlock_sites.

(** ... where the only things it can do are return before the lock or take a new request: no
    second unlock() of a hold. *)
Theorem c15_rhp4_no_second_unlock : forall lg x th u' c,
  user_step lg (UR4 R4Idle) x th = Some (u', c) ->
  (exists k, x = R4Pre k /\ u' = UR4 R4Idle /\ c = CNone)
  \/ (exists k i b rv, x = R4Enter k i b rv /\ u' = UR4 (R4Call k i rv) /\ c = CLock i false b).
Proof. exact r4_idle_steps. Qed.
Print Assumptions c15_rhp4_no_second_unlock.

(** Each of the three releases is enabled whenever the handler stands before it, IS the holder's
    Unlock of the locker model (no panic, no blocked send, one holder before and none after:
    [c15_unlock_only_by_holder]), and leaves the handler returned and its goroutine idle. *)
Theorem c15_rhp4_release_completes : forall us t p i x,
  ureachable us -> nth_error (uusers us) t = Some (UR4 p) -> r4_releasing i p = Some x ->
  exists us' th', ustep us (UAct t x) = Some us'
                  /\ step (ubase us) (AUnlock t) = Some (ubase us')
                  /\ nth_error (uusers us') t = Some (UR4 R4Idle)
                  /\ nth_error (ths (ubase us')) t = Some th' /\ tpc th' = Idle.
Proof. exact r4_release_completes. Qed.
Print Assumptions c15_rhp4_release_completes.

(** No return path keeps the lock: from every point of an RHP4 handler after LockV2Contract has
    returned nil — whatever the other users do meanwhile having led to this state — the handler's own
    steps [r4_exit p] (for a handler blocked reading from the renter: the end of that read, which
    the stream deadline forces) are enabled one after the other and end with the handler
    returned, its goroutine attached to no lock. *)
Theorem c15_rhp4_every_path_releases : forall us t p,
  ureachable us -> nth_error (uusers us) t = Some (UR4 p) -> r4_has_lock p = true ->
  exists us' th', urun us (map (UAct t) (r4_exit p)) = Some us'
                  /\ nth_error (uusers us') t = Some (UR4 R4Idle)
                  /\ nth_error (ths (ubase us')) t = Some th' /\ tpc th' = Idle.
Proof. exact r4_every_path_releases. Qed.
Print Assumptions c15_rhp4_every_path_releases.

(** A queued RHP4 handler is neither cancelled nor lost: whatever step the system takes, it is
    still the same request, and its goroutine is still in the queue of the same lock object or
    has been handed the lock ([acquired]: holding, or on the manager's error path when the id is
    no v2 contract).  (That a waiter of a free lock can always take it is [c15_waiter_progress_partial] through
    [c15_users_executions_are_locker_executions].) *)
Theorem c15_rhp4_waiter_only_served : forall us a us' t k i rv th j ad,
  ureachable us -> nth_error (uusers us) t = Some (UR4 (R4Call k i rv)) ->
  nth_error (ths (ubase us)) t = Some th -> tpc th = Waiting j ad ->
  ustep us a = Some us' ->
  j = i /\ nth_error (uusers us') t = Some (UR4 (R4Call k i rv)) /\
  exists th', nth_error (ths (ubase us')) t = Some th' /\ (th' = th \/ th' = acquired th i).
Proof. exact r4_waiter_only_served. Qed.
Print Assumptions c15_rhp4_waiter_only_served.

(* non-vacuity: users of all three protocols and a free caller on ONE contract id — an RHP2 session
   holds 5; an RHP3 handler, an RHP4 append and an RHP4 latest-revision request for the same id
   (no v2 contract: the manager's error path) queue up; the session's connection drops. *)
Example c15_rhp4_nonvacuous :
  mixed_obs =
  [([OSEnded; OBWait 5%N; OBHeld 5%N; OBWait 5%N; OF SIdle], [(5%N, 3, 0)]);
   ([OSEnded; OBWait 5%N; OBHeld 5%N; OBIdle; OF SIdle], [(5%N, 2, 0)]);
   ([OSEnded; OBIdle; OBHeld 5%N; OBWait 5%N; OF SIdle], [(5%N, 2, 0)]);
   ([OSEnded; OBIdle; OBHeld 5%N; OBIdle; OF SIdle], [(5%N, 1, 0)]);
   ([OSEnded; OBIdle; OBIdle; OBIdle; OF SIdle], [])].
Proof. vm_compute; reflexivity. Qed.
