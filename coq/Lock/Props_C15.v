(* C15 — Contract locks are exclusive, hand off to one waiter, and never leak.
   Statements only; every proof is [exact lemma].

   Model: coq/Lock/Model.v — host/contracts/lock.go (locker.Lock, locker.Unlock, Manager.Lock,
   Manager.Unlock, Manager.LockV2Contract) and host/contracts/integrity.go (Manager.CheckIntegrity,
   Manager.V2CheckIntegrity), i.e. every user of the contract lock inside the manager, as a
   transition system with one transition per critical section.  [reachable k s]: s is reached
   from the empty locker with k caller sessions by ANY finite sequence of actions (any k, any
   contract ids, any interleaving of Lock / Manager.Lock / LockV2Contract calls, integrity checks,
   context cancellations and the internal steps of calls in progress).

   Assumptions, stated once:
   * protocol: a client of the manager (rhp/v2, rhp/v3, rhp/v4, api: outside host/contracts) calls
     Manager.Unlock(id) / the closure returned by LockV2Contract only while it holds id, once per
     hold (AUnlock is enabled in pc Holding only).  For the users of the lock INSIDE the manager
     — the error paths of Manager.Lock / LockV2Contract, the deferred releases of CheckIntegrity /
     V2CheckIntegrity — this is not assumed but proved: [c15_unlock_only_by_holder],
     [c15_session_releases_what_it_acquired], [c15_wrapper_paths];
   * atomicity: code under lr.mu, a channel send/receive and the choice made by a select are
     atomic steps; what lies below (Go memory model, runtime channels/select/sync.Mutex) is
     trusted, not modelled;
   * scheduling (only for the "eventually" reading of progress): weak fairness — an internal
     step that stays enabled is eventually taken.  The theorems below give the model-level
     content (the step IS enabled, stays enabled whatever other sessions do, and internal steps
     terminate); the eventuality itself on the Go scheduler is the part the model cannot carry,
     hence [c15_waiter_progress_partial]. *)
From HostdBase Require Import Base.
From HostdLock Require Import Model Proofs Proofs2 Proofs3 Proofs4.
Local Open Scope Z_scope.

(** At most one caller holds the lock of a given contract at any time.  ([holds i th]: th is in
    pc Holding i, or — Manager level — in the error path after locks.Lock returned nil and before
    its cm.locks.Unlock(i), or inside CheckIntegrity / V2CheckIntegrity between the successful
    lock call and the deferred release.) *)
Theorem c15_mutual_exclusion : forall k s,
  reachable k s ->
  forall i t1 t2 th1 th2,
    nth_error (ths s) t1 = Some th1 -> nth_error (ths s) t2 = Some th2 ->
    holds i th1 -> holds i th2 -> t1 = t2.
Proof. exact mutual_exclusion. Qed.
Print Assumptions c15_mutual_exclusion.

(** locks[id].n = holders + waiting + cancelling sessions of id, the entry exists iff there is
    at least one of them. *)
Theorem c15_count_inv : forall k s,
  reachable k s ->
  forall i,
    match tlookup i (tbl s) with
    | Some a => exists o, hget a (heap s) = Some o
                          /\ ln o = count (is_holder i) s + count (is_waiter i) s + count (is_canceller i) s
                          /\ 1 <= ln o
    | None => count (is_holder i) s = 0 /\ count (is_waiter i) s = 0 /\ count (is_canceller i) s = 0
    end.
Proof. exact count_inv. Qed.
Print Assumptions c15_count_inv.

(** The *lock a waiter captured under the mutex is still the table's entry when it later
    decrements l.n / receives from l.ch (no stale pointer, delete(lr.locks,id) removes its own
    entry). *)
Theorem c15_waiter_pointer_current : forall k s,
  reachable k s ->
  forall t th i a, nth_error (ths s) t = Some th ->
    tpc th = Waiting i a \/ tpc th = Cancelling i a -> tlookup i (tbl s) = Some a.
Proof. exact waiter_pointer_current. Qed.
Print Assumptions c15_waiter_pointer_current.

(** The channel holds a token exactly when the (existing) entry has no holder; never two. *)
Theorem c15_token_xor_holder : forall k s,
  reachable k s ->
  forall i a o, tlookup i (tbl s) = Some a -> hget a (heap s) = Some o ->
    (ltok o = 0 /\ count (is_holder i) s = 1) \/ (ltok o = 1 /\ count (is_holder i) s = 0).
Proof. exact token_xor_holder. Qed.
Print Assumptions c15_token_xor_holder.

(** One unlock admits at most one waiter: over any execution the number of waiters admitted to
    contract i (receive steps) never exceeds the number of unlocks of i ... *)
Theorem c15_admitted_le_released : forall k l s' i,
  run (init k) l = Some s' ->
  tally (recv_on i) (init k) l <= tally (release_on i) (init k) l.
Proof. exact admitted_le_released. Qed.
Print Assumptions c15_admitted_le_released.

(** ... and in any execution segment without an unlock of i at most one waiter is admitted,
    namely the one that takes the token pending at its start (none if i is held). *)
Theorem c15_one_unlock_one_waiter : forall k s l s' i,
  reachable k s -> run s l = Some s' ->
  tally (release_on i) s l = 0 -> tally (recv_on i) s l <= tokc i s /\ tokc i s <= 1.
Proof. exact one_unlock_one_waiter. Qed.
Print Assumptions c15_one_unlock_one_waiter.

(** Unlock by the holder never blocks on the channel and never panics: it completes in its one
    critical section. *)
Theorem c15_unlock_never_blocks : forall k s t th i,
  reachable k s -> nth_error (ths s) t = Some th -> tpc th = Holding i ->
  exists s' th', step s (AUnlock t) = Some s' /\ nth_error (ths s') t = Some th'
                 /\ tpc th' = Idle /\ tret th' = RNone.
Proof. exact unlock_never_blocks. Qed.
Print Assumptions c15_unlock_never_blocks.

(** No session is ever stuck in a send or panicked, and lr.mu is never held across steps. *)
Theorem c15_never_blocked_or_panicked : forall k s,
  reachable k s -> forall t th, nth_error (ths s) t = Some th -> ok_pc (tpc th).
Proof. exact never_blocked_or_panicked. Qed.
Print Assumptions c15_never_blocked_or_panicked.

(** Progress (model-level content; see the header for the fairness assumption):
    a waiter of a lock without holder can take the token now; a waiter whose context ended can
    leave now and then returns the context's error (its count is given back) ... *)
Theorem c15_waiter_progress_partial : forall k s t th i a,
  reachable k s -> nth_error (ths s) t = Some th ->
  (tpc th = Waiting i a -> count (is_holder i) s = 0 ->
     exists s' th', step s (ARecv t) = Some s' /\ nth_error (ths s') t = Some th' /\ holds i th')
  /\ (tpc th = Waiting i a -> tdone th = true ->
     exists s' th', step s (ACancelChosen t) = Some s' /\ nth_error (ths s') t = Some th'
                    /\ tpc th' = Cancelling i a)
  /\ (tpc th = Cancelling i a ->
     exists s' th', step s (ACancelCommit t) = Some s' /\ nth_error (ths s') t = Some th'
                    /\ tpc th' = Idle /\ tret th' = RCtxErr).
Proof. exact waiter_progress. Qed.
Print Assumptions c15_waiter_progress_partial.

(** ... steps of other sessions never change a session's pc (so with the theorem above, which
    holds in every reachable state, an enabled leave/commit/release stays enabled) ... *)
Theorem c15_other_steps_do_not_disturb : forall s a s' t,
  step s a = Some s' -> act_tid a <> t -> nth_error (ths s') t = nth_error (ths s) t.
Proof. exact step_other_thread. Qed.
Print Assumptions c15_other_steps_do_not_disturb.

(** ... internal steps terminate ... *)
Theorem c15_internal_steps_terminate : forall s a s',
  internal a = true -> step s a = Some s' -> 0 <= measure s' < measure s.
Proof. exact internal_step_decreases. Qed.
Print Assumptions c15_internal_steps_terminate.

(** ... and when they have run out, nobody is inside a call except waiters with a live context
    parked behind an actual holder: no lost wake-up, no waiter parked on a free lock, every
    cancelled waiter has returned. *)
Theorem c15_quiescent_shape : forall k s,
  reachable k s -> quiescent s = true ->
  forall t th, nth_error (ths s) t = Some th ->
    match tpc th with
    | Idle | Holding _ => True
    | Waiting i _ => tdone th = false /\ count (is_holder i) s = 1
    | _ => False
    end.
Proof. exact quiescent_shape. Qed.
Print Assumptions c15_quiescent_shape.

(** No leak: a contract nobody is attached to has no table entry; when all callers have returned
    and released the table is empty and the next Lock of any contract succeeds at once (fast
    path; [b] = the Manager-level contract check fails, then the call is on its error path). *)
Theorem c15_unused_contract_has_no_entry : forall k s i,
  reachable k s ->
  (forall t th, nth_error (ths s) t = Some th -> ~ attached i (tpc th)) ->
  tlookup i (tbl s) = None.
Proof. exact unused_contract_has_no_entry. Qed.
Print Assumptions c15_unused_contract_has_no_entry.

Theorem c15_no_leak : forall k s t th i d b,
  reachable k s -> (forall t th, nth_error (ths s) t = Some th -> tpc th = Idle) ->
  nth_error (ths s) t = Some th ->
  tbl s = [] /\
  exists s' th', step s (ALock t i d b) = Some s' /\ nth_error (ths s') t = Some th'
                 /\ tpc th' = (if b then Releasing i else Holding i).
Proof. exact no_leak. Qed.
Print Assumptions c15_no_leak.

(** Manager.Lock / LockV2Contract: once locks.Lock has succeeded, a failing contract lookup /
    isGoodForModification always gives the lock back (the release step is enabled, completes,
    and the call returns an error). *)
Theorem c15_manager_error_path_releases : forall k s t th i,
  reachable k s -> nth_error (ths s) t = Some th -> tpc th = Releasing i ->
  exists s' th', step s (AErrUnlock t) = Some s' /\ nth_error (ths s') t = Some th'
                 /\ tpc th' = Idle /\ tret th' = RMgrErr.
Proof. exact manager_error_path_releases. Qed.
Print Assumptions c15_manager_error_path_releases.

(** * The users of the lock inside the manager (lock.go, integrity.go) as wrappers *)

(** Every execution of locker.Unlock's code (Manager.Unlock / the LockV2Contract closure by a
    holder, the error paths of Manager.Lock / LockV2Contract, the deferred release of an integrity
    check) is made by the session that holds the contract: the entry is found (the panic branch
    "unlocking unheld lock" is not taken), no token is pending (the send cannot block), there was
    exactly one holder and afterwards there is none until a waiter takes the token. *)
Theorem c15_unlock_only_by_holder : forall k s a s',
  reachable k s -> step s a = Some s' -> is_release a = true ->
  exists th i a0 o th',
    nth_error (ths s) (act_tid a) = Some th /\ holds i th
    /\ tlookup i (tbl s) = Some a0 /\ hget a0 (heap s) = Some o /\ ltok o = 0 /\ 1 <= ln o
    /\ count (is_holder i) s = 1
    /\ nth_error (ths s') (act_tid a) = Some th' /\ tpc th' = Idle
    /\ count (is_holder i) s' = 0.
Proof. exact unlock_only_by_holder. Qed.
Print Assumptions c15_unlock_only_by_holder.

(** Every wrapper releases exactly what it acquired: over any execution, session t has run
    Unlock(i) exactly as often as it was handed i (fast path of its call, or the token), not
    counting the one hold it may have right now. *)
Theorem c15_session_releases_what_it_acquired : forall k l s' t i,
  run (init k) l = Some s' ->
  tally (acquire_by t i) (init k) l = tally (release_by t i) (init k) l + holding_now t i s'
  /\ 0 <= holding_now t i s' <= 1.
Proof. exact session_balance. Qed.
Print Assumptions c15_session_releases_what_it_acquired.

(** On every path: a session inside a wrapper that was handed the lock (Manager-level error path,
    body of a check, its return) can only take the next piece of that wrapper ... *)
Theorem c15_wrapper_paths : forall s a s' t th i,
  step s a = Some s' -> act_tid a = t -> nth_error (ths s) t = Some th ->
  (tpc th = Releasing i -> a = AErrUnlock t \/ (a = ACtxDone t /\ s' = s))
  /\ (forall v, tpc th = Checking i v -> a = ABody t \/ (a = ACtxDone t /\ s' = s))
  /\ (forall r, tpc th = Deferred i r -> a = ADeferUnlock t \/ (a = ACtxDone t /\ s' = s)).
Proof. exact wrapper_paths. Qed.
Print Assumptions c15_wrapper_paths.

(** ... the body of CheckIntegrity / V2CheckIntegrity leaves the lock alone and ends in the return
    its root checks select (error returns and the normal return alike) ... *)
Theorem c15_check_body_runs : forall k s t th i v,
  reachable k s -> nth_error (ths s) t = Some th -> tpc th = Checking i v ->
  exists s' th', step s (ABody t) = Some s' /\ nth_error (ths s') t = Some th'
                 /\ tpc th' = Deferred i (if v then RNil else RMgrErr)
                 /\ tbl s' = tbl s /\ heap s' = heap s.
Proof. exact check_body_runs. Qed.
Print Assumptions c15_check_body_runs.

(** ... and the deferred release then runs once, completes in its one critical section and the
    check returns. *)
Theorem c15_check_deferred_release_completes : forall k s t th i r,
  reachable k s -> nth_error (ths s) t = Some th -> tpc th = Deferred i r ->
  exists s' th', step s (ADeferUnlock t) = Some s' /\ nth_error (ths s') t = Some th'
                 /\ tpc th' = Idle /\ tret th' = r.
Proof. exact check_deferred_release_completes. Qed.
Print Assumptions c15_check_deferred_release_completes.

(** An integrity check of a free contract: in, body, out, and the contract is free again. *)
Theorem c15_check_round_trip : forall k s t th i d v,
  reachable k s -> nth_error (ths s) t = Some th -> tpc th = Idle -> tlookup i (tbl s) = None ->
  exists s3 th3, run s [ACheck t i d false v; ABody t; ADeferUnlock t] = Some s3
                 /\ nth_error (ths s3) t = Some th3 /\ tpc th3 = Idle
                 /\ tret th3 = (if v then RNil else RMgrErr)
                 /\ tlookup i (tbl s3) = None.
Proof. exact check_round_trip. Qed.
Print Assumptions c15_check_round_trip.

(** No leak, integrity checks included ([reachable] covers them): when everybody has returned the
    table is empty and a check of any contract is inside its body at once. *)
Theorem c15_no_leak_check : forall k s t th i d b v,
  reachable k s -> (forall t th, nth_error (ths s) t = Some th -> tpc th = Idle) ->
  nth_error (ths s) t = Some th ->
  tbl s = [] /\
  exists s' th', step s (ACheck t i d b v) = Some s' /\ nth_error (ths s') t = Some th'
                 /\ tpc th' = (if b then Releasing i else Checking i v).
Proof. exact no_leak_check. Qed.
Print Assumptions c15_no_leak_check.

(** Unlock by a session that does not hold the lock ([stray_unlock]: the same code, lock.go:33-46,
    run by anybody).  On a contract nobody is attached to it panics ... *)
Theorem c15_stray_unlock_unheld_panics : forall k s t th i,
  reachable k s -> nth_error (ths s) t = Some th ->
  (forall u thu, nth_error (ths s) u = Some thu -> ~ attached i (tpc thu)) ->
  exists s' th', stray_unlock s t i = Some s' /\ nth_error (ths s') t = Some th' /\ tpc th' = Panicked.
Proof. exact stray_unlock_unheld_panics. Qed.
Print Assumptions c15_stray_unlock_unheld_panics.

(** ... and on a contract somebody else holds it silently gives up that hold: a second run of an
    integrity check's release, with a waiter admitted in between, ends in two holders.  This is
    what [c15_unlock_only_by_holder] and [c15_session_releases_what_it_acquired] exclude for
    the code as it is. *)
Theorem c15_second_release_breaks_exclusion :
  exists s s1 s2,
    run (init 4) [ALock 0 5%N false false; ACheck 1 5%N false false true; ALock 2 5%N false false;
                  AUnlock 0; ARecv 1; ABody 1; ADeferUnlock 1; ARecv 2] = Some s
    /\ obs_of s = ([SIdle; SIdle; SHold 5%N; SIdle], [(5%N, 1, 0)])
    /\ stray_unlock s 1 5%N = Some s1
    /\ obs_of s1 = ([SIdle; SIdle; SHold 5%N; SIdle], [])
    /\ step s1 (ALock 3 5%N false false) = Some s2
    /\ obs_of s2 = ([SIdle; SIdle; SHold 5%N; SHold 5%N], [(5%N, 1, 0)]).
Proof. exact second_release_breaks_exclusion. Qed.
Print Assumptions c15_second_release_breaks_exclusion.

(** The tie: what the correspondence checker accepts.  [successors] is exactly the set of
    quiescent states reachable by interleaving the recorded external actions (each once) with
    internal steps; an accepted case is a model execution showing the recorded observations. *)
Theorem c15_successors_spec : forall cand acts s',
  external_only acts = true ->
  (In s' (successors cand (Par acts)) <->
   exists s l, In s cand /\ sched l acts /\ run s l = Some s' /\ quiescent s' = true).
Proof. exact successors_spec. Qed.
Print Assumptions c15_successors_spec.

Theorem c15_accepted_case_is_model_execution : forall l cand idx,
  run_case cand idx l = None -> cand <> [] -> exists s, In s cand /\ chain s l.
Proof. exact run_case_sound. Qed.
Print Assumptions c15_accepted_case_is_model_execution.

(* non-vacuity: a schedule with the cancellation racing the hand-off (the waiter has chosen
   ctx.Done, the holder unlocks and sends the token, the waiter commits its cancellation, the
   other waiter takes the token), ending with an empty table; and both outcomes of the race are
   successors of the same state. *)
Example c15_nonvacuous :
  (exists s, run (init 3) [ALock 0 5%N false false; ALock 1 5%N false false; ALock 2 5%N false false;
                           ACtxDone 1; ACancelChosen 1; AUnlock 0; ACancelCommit 1; ARecv 2; AUnlock 2]
             = Some s /\ tbl s = [] /\ map stat_of (ths s) = [SIdle; SCtxErr; SIdle])
  /\ map obs_of (successors (successors (successors (successors [init 3]
        (Par [ALock 0 5%N false false])) (Par [ALock 1 5%N false false])) (Par [ALock 2 5%N false false]))
        (Par [ACtxDone 1; AUnlock 0]))
     = [([SIdle; SHold 5%N; SWait 5%N], [(5%N, 2, 0)]); ([SIdle; SCtxErr; SHold 5%N], [(5%N, 1, 0)])].
Proof. vm_compute; split; [eexists; repeat split|reflexivity]. Qed.

(* non-vacuity of the wrapper theorems: a holder, a queued integrity check whose root checks fail,
   a queued Lock; the holder unlocks: either the Lock takes the token and the check stays parked
   behind it, or the check is admitted, returns its error and its deferred release admits the
   Lock — in both quiescent successors the contract has one holder and is counted right. *)
Example c15_check_nonvacuous :
  map obs_of (successors (successors (successors (successors [init 3]
        (Par [ALock 0 5%N false false])) (Par [ACheck 1 5%N false false false])) (Par [ALock 2 5%N false false]))
        (Par [AUnlock 0]))
  = [([SIdle; SWait 5%N; SHold 5%N], [(5%N, 2, 0)]); ([SIdle; SMgrErr; SHold 5%N], [(5%N, 1, 0)])].
Proof. vm_compute; reflexivity. Qed.
