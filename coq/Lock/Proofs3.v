(* Lock/Proofs3.v — the exploration used by the correspondence check computes exactly the
   quiescent states reachable by interleaving the given external actions (each once) with
   internal steps: sound, and complete for the fuel the checker uses. *)
From HostdBase Require Import Base.
From HostdLock Require Import Model Proofs Proofs2.
From Coq Require Import Lia ZifyBool ZifyN ZifyNat.
Local Open Scope Z_scope.

(* schedules: an interleaving of internal actions with the pending actions, each taken once *)
Inductive sched : list action -> list action -> Prop :=
| sched_nil : sched [] []
| sched_int a l pend : internal a = true -> sched l pend -> sched (a :: l) pend
| sched_ext a l pend rest : In (a, rest) (picks pend) -> sched l rest -> sched (a :: l) pend.

Lemma picks_length {A} (l : list A) x r : In (x, r) (picks l) -> length l = S (length r).
Proof.
  revert x r; induction l as [|y l IH]; cbn; intros x r Hin; [contradiction|].
  destruct Hin as [E|Hin].
  - inversion E; subst. auto.
  - apply in_map_iff in Hin. destruct Hin as ([z r'] & E & Hin). inversion E; subst.
    cbn. f_equal. eapply IH; eauto.
Qed.

(** ** equality tests used for merging are sound *)
Lemma list_eqb_eq {A} (eqb : A -> A -> bool) :
  (forall a b, eqb a b = true -> a = b) -> forall l r, list_eqb eqb l r = true -> l = r.
Proof.
  intros He. induction l as [|x l IH]; destruct r as [|y r]; cbn; intros H; try discriminate; auto.
  apply andb_prop in H. destruct H as [H1 H2]. f_equal; auto.
Qed.

Lemma addr_eqb_true a b : addr_eqb a b = true -> a = b.
Proof. intros H. destruct (addr_eqb_spec a b); auto; discriminate. Qed.

Lemma ret_eqb_eq r q : ret_eqb r q = true -> r = q.
Proof. destruct r, q; cbn; intros H; try discriminate; auto. Qed.

Lemma pc_eqb_eq p q : pc_eqb p q = true -> p = q.
Proof.
  destruct p, q; cbn; intros H; try discriminate; auto;
    repeat match goal with
           | H : (_ && _)%bool = true |- _ => apply andb_prop in H; destruct H
           | H : (_ =? _)%N = true |- _ => apply N.eqb_eq in H; subst
           | H : addr_eqb _ _ = true |- _ => apply addr_eqb_true in H; subst
           | H : Nat.eqb _ _ = true |- _ => apply Nat.eqb_eq in H; subst
           | H : Bool.eqb _ _ = true |- _ => apply Bool.eqb_prop in H; subst
           | H : ret_eqb _ _ = true |- _ => apply ret_eqb_eq in H; subst
           end; auto.
Qed.

Lemma thread_eqb_eq a b : thread_eqb a b = true -> a = b.
Proof.
  destruct a as [p1 d1 b1 c1 r1], b as [p2 d2 b2 c2 r2]; unfold thread_eqb; cbn. intros H.
  apply andb_prop in H. destruct H as [H Hr].
  apply andb_prop in H. destruct H as [H Hc].
  apply andb_prop in H. destruct H as [H Hb].
  apply andb_prop in H. destruct H as [Hp Hd].
  apply pc_eqb_eq in Hp. apply Bool.eqb_prop in Hd. apply Bool.eqb_prop in Hb.
  apply ret_eqb_eq in Hr.
  assert (c1 = c2).
  { destruct c1 as [v|], c2 as [w|]; try discriminate; auto. apply Bool.eqb_prop in Hc. subst; auto. }
  subst. reflexivity.
Qed.

Lemma state_eqb_eq a b : state_eqb a b = true -> a = b.
Proof.
  destruct a as [t1 b1 h1], b as [t2 b2 h2]; unfold state_eqb; cbn. intros H.
  apply andb_prop in H. destruct H as [H Hh].
  apply andb_prop in H. destruct H as [Ht Hb].
  apply (list_eqb_eq _ thread_eqb_eq) in Ht.
  apply list_eqb_eq in Hb.
  2:{ intros [i x] [j y]; cbn. intros E. apply andb_prop in E. destruct E as [E1 E2].
      apply N.eqb_eq in E1. apply addr_eqb_true in E2. subst; auto. }
  apply list_eqb_eq in Hh.
  2:{ intros [x [n1 k1]] [y [n2 k2]]; cbn. intros E. apply andb_prop in E. destruct E as [E E3].
      apply andb_prop in E. destruct E as [E1 E2].
      apply addr_eqb_true in E1. apply Z.eqb_eq in E2. apply Z.eqb_eq in E3. subst; auto. }
  subst. reflexivity.
Qed.

Lemma action_eqb_eq a b : action_eqb a b = true -> a = b.
Proof.
  destruct a, b; cbn; intros H; try discriminate;
    repeat match goal with
           | H : (_ && _)%bool = true |- _ => apply andb_prop in H; destruct H
           | H : (_ =? _)%N = true |- _ => apply N.eqb_eq in H; subst
           | H : Nat.eqb _ _ = true |- _ => apply Nat.eqb_eq in H; subst
           | H : Bool.eqb _ _ = true |- _ => apply Bool.eqb_prop in H; subst
           end; auto.
Qed.

Lemma node_eqb_eq a b : node_eqb a b = true -> a = b.
Proof.
  destruct a as [s1 p1], b as [s2 p2]; unfold node_eqb; cbn. intros H.
  apply andb_prop in H. destruct H as [H1 H2].
  apply state_eqb_eq in H1. apply (list_eqb_eq _ action_eqb_eq) in H2. subst; auto.
Qed.

Lemma dedup_in l x : In x (dedup l) <-> In x l.
Proof.
  induction l as [|y l IH]; cbn; [tauto|].
  destruct (existsb (state_eqb y) l) eqn:E.
  - rewrite IH. split; auto. intros [<-|H]; auto.
    apply existsb_exists in E. destruct E as (z & Hz & Ez). apply state_eqb_eq in Ez. subst. auto.
  - cbn. rewrite IH. tauto.
Qed.

Lemma dedupn_in l x : In x (dedupn l) <-> In x l.
Proof.
  induction l as [|y l IH]; cbn; [tauto|].
  destruct (existsb (node_eqb y) l) eqn:E.
  - rewrite IH. split; auto. intros [<-|H]; auto.
    apply existsb_exists in E. destruct E as (z & Hz & Ez). apply node_eqb_eq in Ez. subst. auto.
  - cbn. rewrite IH. tauto.
Qed.

(** ** the breadth-first exploration *)
Definition reaches (nd : node) (l : list action) (s' : state) : Prop :=
  sched l (snd nd) /\ run (fst nd) l = Some s' /\ quiescent s' = true.

Lemma bfs_unfold f front :
  bfs (S f) front =
  match front with
  | [] => []
  | _ => map fst (filter terminal front) ++ bfs f (dedupn (flat_map expand_node front))
  end.
Proof. reflexivity. Qed.

Lemma expand_node_inv nd nd1 :
  In nd1 (expand_node nd) ->
  exists a, step (fst nd) a = Some (fst nd1) /\
            ((internal a = true /\ snd nd1 = snd nd) \/ In (a, snd nd1) (picks (snd nd))).
Proof.
  destruct nd as [s pend], nd1 as [s1 p1]. unfold expand_node. intros Hin.
  apply in_app_or in Hin. destruct Hin as [Hin|Hin].
  - apply in_map_iff in Hin. destruct Hin as (x & E & Hin). inversion E; subst.
    apply enabled_internal_inv in Hin. destruct Hin as (a & Hi & Hs). exists a. cbn. auto.
  - apply in_flat_map in Hin. destruct Hin as ([a rest] & Hp & Hin).
    destruct (step s a) as [s2|] eqn:Hs; [|contradiction]. destruct Hin as [E|[]].
    inversion E; subst. exists a. cbn. auto.
Qed.

Theorem bfs_sound fuel : forall front s',
  In s' (bfs fuel front) -> exists nd l, In nd front /\ reaches nd l s'.
Proof.
  induction fuel as [|f IH]; intros front s' Hin; [contradiction|].
  rewrite bfs_unfold in Hin. destruct front as [|n0 fr] eqn:Ef; [contradiction|]. rewrite <- Ef in *.
  apply in_app_or in Hin. destruct Hin as [Hin|Hin].
  - apply in_map_iff in Hin. destruct Hin as (nd & E & Hin). apply filter_In in Hin.
    destruct Hin as [Hin Ht]. subst s'. exists nd, []. split; auto.
    unfold terminal in Ht. unfold reaches, quiescent.
    destruct (enabled_internal (fst nd)); [|discriminate]. destruct (snd nd); [|discriminate].
    repeat split; constructor.
  - destruct (IH _ _ Hin) as (nd1 & l & Hin1 & Hsch & Hrun & Hq).
    rewrite dedupn_in in Hin1. apply in_flat_map in Hin1. destruct Hin1 as (nd & Hnd & Hexp).
    destruct (expand_node_inv _ _ Hexp) as (a & Hs & Hcase).
    exists nd, (a :: l). split; auto. unfold reaches. split; [|split; auto].
    + destruct Hcase as [[Hi E]|Hp]; [rewrite <- E; constructor; auto|eapply sched_ext; eauto].
    + cbn. rewrite Hs. auto.
Qed.

Theorem bfs_complete l : forall fuel front nd s',
  In nd front -> reaches nd l s' -> (length l < fuel)%nat -> In s' (bfs fuel front).
Proof.
  induction l as [|a l IH]; intros fuel front nd s' Hin (Hsch & Hrun & Hq) Hlen;
    (destruct fuel as [|f]; [cbn in Hlen; lia|]); rewrite bfs_unfold;
    (destruct front as [|n0 fr] eqn:Ef; [contradiction|]); rewrite <- Ef in *; apply in_or_app.
  - left. inversion Hsch as [E1 E2| |]; subst. cbn in Hrun. inversion Hrun; subst.
    apply in_map_iff. exists nd. split; auto. apply filter_In. split; auto.
    unfold terminal. rewrite <- E2. unfold quiescent in Hq.
    destruct (enabled_internal (fst nd)); [auto|discriminate].
  - right. cbn in Hrun. destruct (step (fst nd) a) as [s1|] eqn:Hs; try discriminate.
    destruct nd as [s pend]. cbn [fst snd] in *.
    inversion Hsch as [|a' l' p' Hi Hsch'|a' l' p' rest Hp Hsch']; subst.
    + apply (IH f _ (s1, pend)); [|repeat split; auto|cbn in Hlen; lia].
      rewrite dedupn_in. apply in_flat_map. exists (s, pend). split; auto.
      unfold expand_node. apply in_or_app. left. apply in_map_iff. exists s1. split; auto.
      eapply enabled_internal_in; eauto.
    + apply (IH f _ (s1, rest)); [|repeat split; auto|cbn in Hlen; lia].
      rewrite dedupn_in. apply in_flat_map. exists (s, pend). split; auto.
      unfold expand_node. apply in_or_app. right. apply in_flat_map. exists (a, rest). split; auto.
      rewrite Hs. left; auto.
Qed.

Theorem explore_sound fuel s pend s' :
  In s' (explore fuel s pend) ->
  exists l, sched l pend /\ run s l = Some s' /\ quiescent s' = true.
Proof.
  unfold explore. intros Hin. destruct (bfs_sound _ _ _ Hin) as (nd & l & [<-|[]] & Hr).
  exists l. exact Hr.
Qed.

Theorem explore_complete l fuel s pend s' :
  sched l pend -> run s l = Some s' -> quiescent s' = true ->
  (length l < fuel)%nat -> In s' (explore fuel s pend).
Proof.
  intros Hsch Hrun Hq Hlen. unfold explore.
  apply (bfs_complete l fuel _ (s, pend)); [left; auto|repeat split; auto|auto].
Qed.

(* the fuel of the checker is enough *)
Lemma sched_length l : forall s pend s',
  sched l pend -> run s l = Some s' ->
  Z.of_nat (length l) <= measure s + 5 * Z.of_nat (length pend).
Proof.
  induction l as [|a l IH]; intros s pend s' Hsch Hrun.
  - inversion Hsch; subst. cbn. pose proof (measure_nonneg s). lia.
  - cbn in Hrun. destruct (step s a) as [s1|] eqn:Hs; try discriminate.
    pose proof (measure_step _ _ _ Hs) as Hm.
    inversion Hsch; subst.
    + rewrite H1 in Hm. specialize (IH _ _ _ H3 Hrun). cbn [length]. lia.
    + specialize (IH _ _ _ H3 Hrun). apply picks_length in H1. cbn [length].
      destruct (internal a); lia.
Qed.

Lemma sumz_le_len f c l : (forall p, f p <= c) -> sumz f l <= c * Z.of_nat (length l).
Proof. intros Hf. induction l as [|x l IH]; cbn [sumz length]; [lia|]. specialize (Hf (tpc x)). lia. Qed.

Lemma measure_le s : measure s <= 4 * Z.of_nat (length (ths s)).
Proof. apply sumz_le_len. intro p; destruct p; cbn; lia. Qed.

Theorem explore_complete_fuel s acts l s' :
  sched l acts -> run s l = Some s' -> quiescent s' = true ->
  In s' (explore (fuel_for s acts) s acts).
Proof.
  intros Hsch Hrun Hq. eapply explore_complete; eauto.
  pose proof (sched_length _ _ _ _ Hsch Hrun). pose proof (measure_le s). unfold fuel_for. lia.
Qed.

(* what the checker accepts as the next observation is exactly what the model can show after
   the recorded actions *)
Theorem successors_spec cand acts s' :
  external_only acts = true ->
  (In s' (successors cand (Par acts)) <->
   exists s l, In s cand /\ sched l acts /\ run s l = Some s' /\ quiescent s' = true).
Proof.
  intros Hext. unfold successors. rewrite Hext, dedup_in, in_flat_map. split.
  - intros (s & Hs & Hin). destruct (explore_sound _ _ _ _ Hin) as (l & H1 & H2 & H3).
    exists s, l. auto.
  - intros (s & l & Hs & H1 & H2 & H3). exists s. split; auto.
    eapply explore_complete_fuel; eauto.
Qed.

(* every state the checker tracks is a reachable state of the transition system *)
Lemma successors_reachable k cand o :
  (forall s, In s cand -> reachable k s) ->
  match o with Init k' => k' = k | Par _ => True end ->
  forall s', In s' (successors cand o) -> reachable k s'.
Proof.
  intros Hc Ho s' Hin. destruct o as [k'|acts].
  - cbn in Hin. subst. destruct Hin as [<-|[]]. constructor.
  - destruct (external_only acts) eqn:E.
    + apply (successors_spec cand acts s' E) in Hin. destruct Hin as (s & l & Hs & _ & Hrun & _).
      eapply run_reachable; eauto.
    + unfold successors in Hin. rewrite E in Hin. contradiction.
Qed.

(** * What an accepted case means: trace inclusion *)
Fixpoint chain (s : state) (l : list (op * obs)) : Prop :=
  match l with
  | [] => True
  | (o, seen) :: rest =>
      exists s', In s' (successors [s] o) /\ obs_eqb (obs_of s') seen = true /\ chain s' rest
  end.

Lemma successors_single cand o s1 :
  In s1 (successors cand o) -> cand <> [] -> exists s, In s cand /\ In s1 (successors [s] o).
Proof.
  intros Hin Hne. destruct o as [k|acts].
  - destruct cand as [|s c]; [congruence|]. exists s. split; [left; auto|exact Hin].
  - unfold successors in *. destruct (external_only acts); [|contradiction].
    rewrite dedup_in in Hin. apply in_flat_map in Hin. destruct Hin as (s & Hs & Hin).
    exists s. split; auto. rewrite dedup_in. apply in_flat_map. exists s. split; [left; auto|auto].
Qed.

(* if the checker accepts a recorded case, the model has an execution that shows, at every
   quiescent point, exactly the recorded observation *)
Theorem run_case_sound l : forall cand idx,
  run_case cand idx l = None -> cand <> [] -> exists s, In s cand /\ chain s l.
Proof.
  induction l as [|[o seen] rest IH]; intros cand idx Hrun Hne.
  - destruct cand as [|s c]; [congruence|]. exists s. split; [left; auto|exact I].
  - cbn [run_case] in Hrun.
    destruct (filter (fun s => obs_eqb (obs_of s) seen) (successors cand o)) as [|x ok] eqn:Ef;
      [discriminate|].
    destruct (IH _ _ Hrun) as (s1 & Hs1 & Hch); [discriminate|].
    rewrite <- Ef in Hs1. apply filter_In in Hs1. destruct Hs1 as [Hin Hobs].
    destruct (successors_single _ _ _ Hin Hne) as (s & Hs & Hin').
    exists s. split; auto. cbn [chain]. exists s1. auto.
Qed.
