(* Lock/Users.v — the users of the contract lock OUTSIDE host/contracts, as programs over the
   Manager's API, composed with the locker model of Model.v.

   What is modelled (/repo HEAD ce5ac33):

   RHP2 session (rhp/v2/rhp.go SessionHandler.upgrade / rpcLoop, rhp/v2/rpc.go rpcLock, rpcUnlock,
   and the other RPCs as far as they touch s.contract) — a state machine per connection:
     sc : cid        s.contract.Revision.ParentID; 0 = types.FileContractID{} = "no contract locked"
     SLoop           rhp.go:176-180  rpcLoop is about to read the next RPC id
     SLockCall i g   rpc.go:75       inside sh.contracts.Lock(ctx, i)  (g: the challenge signature of
                                     the request verifies under the contract's renter key)
     SLockGot i g    rpc.go:75       Lock returned nil, rpc.go:83 VerifyChallenge is next
     SLockStored i   rpc.go:91       s.contract = contract done, rpc.go:98 writeResponse is next
     SEnding         rhp.go:177-178  rpcLoop returned an error; upgrade returns; its deferred func
                                     (rhp.go:168-172) is next
     SEnded          rhp.go:166      transport closed (deferred t.Close, registered first, runs last)
   Steps (the Go path each one mirrors):
     SRpcLock i g d b   rpc.go:59-75    request read; s.contract set -> ErrContractAlreadyLocked, RPC
                                        error (l.66-70, no manager call); else Manager.Lock(ctx, i)
     SLockReturn        rpc.go:75-80    Lock returned: nil -> SLockGot; error (context / contract
                                        check; the manager has released) -> RPC error
     SChallenge         rpc.go:83-91    bad signature: Unlock(contract.Revision.ParentID) (l.85), RPC
                                        error, s.contract NOT recorded; good: s.contract = contract
     SWriteResp ok      rpc.go:98-103   response written; or write failed: Unlock (l.99),
                                        s.contract = {} (l.100), RPC error
     SRpcUnlock         rpc.go:107-115  nothing locked -> ErrNoContractLocked, RPC error; else
                                        Unlock(s.contract.Revision.ParentID), s.contract = {}
     SRpcOther ok       every other RPC (settings, form, renew-and-clear, sector roots, read, write):
                        no call of Lock/Unlock; where s.contract is assigned (rpc.go:431 the cleared
                        revision in rpcRenewAndClearContract, 539, 744, 837 the signed revision) the new
                        value is a revision of the same contract: rhp.ClearingRevision / rhp.Revise
                        copy the current revision and leave ParentID alone, so sc does not change
                        (the harness checks this on the real code: renew-and-clear mid-session, then
                        the session's release must free the OLD id); ok = false: the RPC returned an
                        error (any `return ..., err`; also an unknown RPC id, tg.Add failing, the v2
                        hardfork check: rhp.go:110-143)
     SClose             rhp.go:116-119    ReadID fails: the peer closed / the connection broke
     SEnd               rhp.go:168-172  if s.contract is set: Unlock(s.contract.Revision.ParentID)
     SNew               rhp.go:163      a new connection reuses the slot: sess := &session{t: t}
   contract.Revision.ParentID of the value returned by Manager.Lock(ctx, i) is i: scanContract
   (persist/sqlite/contracts.go:1457) panics otherwise.  No stored contract has the zero id (ids are
   hashes): a Lock RPC for id 0 fails in the manager (the step requires b = true for i = 0).

   RHP3 handlers — bracketed critical sections `Lock(ctx, i); if err return; defer Unlock(i)`:
     rhp/v3/payments.go:26/31   processContractPayment   (inside processPayment: handleRPCPriceTable,
                                handleRPCAccountBalance, handleRPCLatestRevision, and handleRPCExecute —
                                there it has returned, lock released, before the handler's own bracket)
     rhp/v3/payments.go:170/175 processFundAccountPayment (handleRPCFundAccount)
     rhp/v3/rpc.go:333/339      handleRPCRenew  (Lock / defer Unlock of clearingRevision.ParentID; the
                                argument of a deferred call is evaluated at the defer statement)
     rhp/v3/rpc.go:535/541      handleRPCExecute (programs that need a contract; defer
                                Unlock(contract.Revision.ParentID) = the locked id, see above)
     (coreutils' RHP4 server was read as a bracket user here until WP-H; it now has its own
      programs, [UR4] below: lockContractForRevision releases WITHOUT a defer when the contract is
      not revisable, handleRPCLatestRevision releases before it answers, and no RHP4 Lock call
      can be cancelled)
     BIdle            the handler has not called Lock (every `return` before it: payments.go:18-21,
                      156-165; rpc.go:279-330, 485-532) or has returned
     BCall i h        inside Lock(ctx, i); an error return (payments.go:27-30, 171-174; rpc.go:334-338,
                      536-540) holds nothing: the manager released on its error path
     BHeld i h        Lock returned nil and the release is deferred; the body runs (h: it waits for
                      the renter: handleRPCRenew reads the price table, payment and signatures,
                      handleRPCExecute reads program data while holding the lock)
     BRet i           a `return` of the function was reached — any of payments.go:34-96, 178-250;
                      rpc.go:342-476, 543-566 — the deferred Unlock(i) is next
   No RHP3 handler takes a second lock while it holds one (handleRPCRenew reads no payment; the two
   brackets of handleRPCExecute follow each other: two rounds of the bracket user).  A goroutine that
   did hold two contracts at once would be two users, as in Model.v.

   RHP4 handlers (coreutils v0.12.2-0.20250409194146-7bb9065821f5, rhp/v4/server.go — the server hostd
   starts in cmd/hostd with contracts.Manager as its Contractor) — one program per stream, [UR4]:
     R4Idle           handleHostStream has not reached LockV2Contract, or the handler has returned.
                      Every `return` BEFORE the lock (R4Pre): the request cannot be decoded
                      (server.go:261-263, 334-336, 406-408, 446-447, 520-522, 539-541, 745-747, 921-923), it is
                      invalid (append 338-340, replenish 448-450, refresh/renew price table 751-753 / 927-929),
                      or LockV2Contract refuses before it touches the locker (thread group closed,
                      lock.go:115-118).
     R4Call k i rv    inside s.contractor.LockV2Contract(i) (server.go:146, or 524 for latest revision):
                      lock.go:122 cm.locks.Lock(context.Background(), i) — NO request context: a queued
                      handler cannot be cancelled, not by the renter hanging up and not by the stream
                      deadline (allowed_base: only ARecv / AErrUnlock).  An error return (store.V2Contract
                      fails, lock.go:126-129: the manager has released) holds nothing; the handler
                      returns (147-148 -> 266-268, 345-347, 411-413, 454-456, 544-546, 757-759, 933-935; 525-527).
                      rv = rs.Revisable as the manager will compute it (lock.go:132-137).
     R4Got k i rv     LockV2Contract returned nil.  k = K4Latest: server.go:528 `unlock()` at once, then
                      the response is written without the lock.  Other kinds, lockContractForRevision:
                      !rs.Revisable -> server.go:150 `unlock()` and an error (NO defer registered: the
                      handler returns at 266-268 etc.); else 153 returns the closure and the handler
                      registers `defer unlock()` (269, 348, 414, 457, 547, 760, 936).
     R4Body k i       the body up to the point where it reads the renter's second message, or to a
                      `return`: free 271-304 (returns 272, 277, 284, 303), append 350-377 (351, 360, 376),
                      fund 416-441 (423, 428, 435, 438: no second message), replenish 460-489 (462, 467,
                      486, 488), sector roots 550-586 (551, 558, 565, 575, 582: no second message), refresh
                      763-854 (765, 771, 791, 802, 808, 810, 826, 840, 853), renew 938-1032 (943, 949, 969, 980,
                      986, 988, 1004, 1018, 1031).  None of these touches the locker.
     R4Wait k i       blocked in rhp4.ReadResponse HOLDING the lock (306, 386, 497, 858, 1036) until the
                      renter's message arrives, the renter closes the stream, or the stream's 30 s
                      deadline (server.go:1126) passes: R4Renter.  The rest of the body (free 307-329,
                      append 387-401, replenish 498-515, refresh 859-916, renew 1037-1094: signature
                      checks, ReviseV2Contract / CreditAccountsWithContract / RenewV2Contract, the last
                      response) reaches a `return` without touching the locker.
     R4Ret k i        a `return` was reached after the defer was registered; the deferred unlock() — the
                      closure of lock.go:144-146, cm.locks.Unlock(i) — is next (R4Defer).
   The ids RHP4 handlers lock and the ids RHP2/RHP3 users lock live in ONE table (cm.locks,
   manager.go: a single locker keyed by types.FileContractID) and nothing keeps a renter from
   naming a v1 contract's id in an RHP4 request (LockV2Contract then queues behind the v1 holder,
   acquires, fails in store.V2Contract and releases: b = true) or a v2 id in an RHP2/RHP3 Lock.
   The model therefore lets users of all three protocols contend for the same ids.

   The callers of Manager.Lock / Unlock / LockV2Contract / the integrity checks themselves (api,
   tests, Model.v's sessions) are the UFree users: any action of Model.v.

   Every call of Manager.Unlock(i) by a session or a handler runs [raw_unlock]: the code of
   locker.Unlock (lock.go:33-46) looking up i — whatever the calling goroutine holds.  That the
   caller does hold i is the theorem (ProofsUsers.v), not an assumption.

   [legacy = true] is the rpcLock of seeded change C15-mut6 (s.contract recorded BEFORE the
   challenge is verified, the refusal path unlocks and leaves it recorded); kept for the refuted
   witness.  No proofs in this file. *)
From HostdBase Require Import Base.
From HostdLock Require Import Model.

(** * Users *)
Inductive spc :=
| SLoop
| SLockCall (i : cid) (g : bool)
| SLockGot (i : cid) (g : bool)
| SLockStored (i : cid)
| SEnding
| SEnded.

Inductive bpc :=
| BIdle
| BCall (i : cid) (h : bool)
| BHeld (i : cid) (h : bool)
| BRet (i : cid).

(* the RHP4 handlers that take the contract lock *)
Inductive r4k := K4Free | K4Append | K4Fund | K4Replenish | K4Roots | K4Refresh | K4Renew | K4Latest.

(* the handler reads a second message from the renter while it holds the lock *)
Definition r4_reads (k : r4k) : bool :=
  match k with
  | K4Free | K4Append | K4Replenish | K4Refresh | K4Renew => true
  | K4Fund | K4Roots | K4Latest => false
  end.

Inductive r4pc :=
| R4Idle
| R4Call (k : r4k) (i : cid) (rv : bool)
| R4Got (k : r4k) (i : cid) (rv : bool)
| R4Body (k : r4k) (i : cid)
| R4Wait (k : r4k) (i : cid)
| R4Ret (k : r4k) (i : cid).

Inductive user :=
| UFree
| USess (sc : cid) (p : spc)
| UBr (p : bpc)
| UR4 (p : r4pc).

(* what a step of a user asks of the manager *)
Inductive call :=
| CNone
| CLock (i : cid) (d b : bool)   (* Manager.Lock(ctx, i) / LockV2Contract(i) *)
| CUnlock (i : cid).             (* Manager.Unlock(i) / the closure of LockV2Contract *)

Inductive uact :=
| SRpcLock (i : cid) (g d b : bool)
| SLockReturn
| SChallenge
| SWriteResp (ok : bool)
| SRpcUnlock
| SRpcOther (ok : bool)
| SClose
| SEnd
| SNew
| BEnter (i : cid) (d b h : bool)
| BLockReturn
| BBodyAuto          (* the body of a handler that does not wait for the renter reaches its return *)
| BRelease           (* the renter (or a timeout) lets a waiting body reach its return *)
| BDefer
| R4Pre (k : r4k)                       (* a return before LockV2Contract touches the locker *)
| R4Enter (k : r4k) (i : cid) (b rv : bool)
| R4LockReturn
| R4Check            (* server.go:149-153 (the Revisable check) / 528 (latest revision) *)
| R4Run (w : bool)   (* the body up to its read of the renter's second message (w) or to a return *)
| R4Renter           (* the renter's message, the end of the stream, or the stream deadline *)
| R4Defer.

(* one step of the user's program; [th] is the user's own goroutine as the locker model sees it
   (only consulted to see whether its Lock call has returned, and with what) *)
Definition user_step (legacy : bool) (u : user) (x : uact) (th : thread) : option (user * call) :=
  match u, x with
  | USess sc SLoop, SRpcLock i g d b =>
      if (sc =? 0)%N
      then if ((i =? 0)%N && negb b)%bool then None
           else Some (USess sc (SLockCall i g), CLock i d b)
      else Some (USess sc SEnding, CNone)
  | USess sc (SLockCall i g), SLockReturn =>
      match tpc th with
      | Holding _ => Some (USess (if legacy then i else sc) (SLockGot i g), CNone)
      | Idle => Some (USess sc SEnding, CNone)
      | _ => None
      end
  | USess sc (SLockGot i g), SChallenge =>
      if g then Some (USess i (SLockStored i), CNone)
      else Some (USess sc SEnding, CUnlock i)
  | USess sc (SLockStored i), SWriteResp ok =>
      if ok then Some (USess sc SLoop, CNone)
      else Some (USess 0%N SEnding, CUnlock i)
  | USess sc SLoop, SRpcUnlock =>
      if (sc =? 0)%N then Some (USess sc SEnding, CNone)
      else Some (USess 0%N SLoop, CUnlock sc)
  | USess sc SLoop, SRpcOther ok => Some (USess sc (if ok then SLoop else SEnding), CNone)
  | USess sc SLoop, SClose => Some (USess sc SEnding, CNone)
  | USess sc SEnding, SEnd =>
      if (sc =? 0)%N then Some (USess sc SEnded, CNone)
      else Some (USess sc SEnded, CUnlock sc)
  | USess sc SEnded, SNew => Some (USess 0%N SLoop, CNone)
  | UBr BIdle, BEnter i d b h => Some (UBr (BCall i h), CLock i d b)
  | UBr (BCall i h), BLockReturn =>
      match tpc th with
      | Holding _ => Some (UBr (BHeld i h), CNone)
      | Idle => Some (UBr BIdle, CNone)
      | _ => None
      end
  | UBr (BHeld i false), BBodyAuto => Some (UBr (BRet i), CNone)
  | UBr (BHeld i true), BRelease => Some (UBr (BRet i), CNone)
  | UBr (BRet i), BDefer => Some (UBr BIdle, CUnlock i)
  | UR4 R4Idle, R4Pre _ => Some (UR4 R4Idle, CNone)
  | UR4 R4Idle, R4Enter k i b rv => Some (UR4 (R4Call k i rv), CLock i false b)
  | UR4 (R4Call k i rv), R4LockReturn =>
      match tpc th with
      | Holding _ => Some (UR4 (R4Got k i rv), CNone)
      | Idle => Some (UR4 R4Idle, CNone)
      | _ => None
      end
  | UR4 (R4Got k i rv), R4Check =>
      match k with
      | K4Latest => Some (UR4 R4Idle, CUnlock i)
      | _ => if rv then Some (UR4 (R4Body k i), CNone) else Some (UR4 R4Idle, CUnlock i)
      end
  | UR4 (R4Body k i), R4Run w =>
      Some (UR4 (if (r4_reads k && w)%bool then R4Wait k i else R4Ret k i), CNone)
  | UR4 (R4Wait k i), R4Renter => Some (UR4 (R4Ret k i), CNone)
  | UR4 (R4Ret k i), R4Defer => Some (UR4 R4Idle, CUnlock i)
  | _, _ => None
  end.

(** * The composed system *)
Record usys := { ubase : state; uusers : list user }.

Inductive uaction :=
| UBase (a : action)           (* a step of the locker model: a free caller's action, or the part of a
                                  user's pending Manager.Lock call that runs inside the manager *)
| UAct (t : nat) (x : uact).   (* a step of user t's own program *)

(* Manager.Unlock(i) called by goroutine t: lock.go:108 -> lock.go:33-46, whatever t holds *)
Definition raw_unlock (s : state) (t : nat) (i : cid) : option state :=
  match nth_error (ths s) t with
  | Some th => if mutex_free s then unlock_cs s t th i RNone else None
  | None => None
  end.

Definition apply_call (s : state) (t : nat) (c : call) : option state :=
  match c with
  | CNone => Some s
  | CLock i d b => step s (ALock t i d b)
  | CUnlock i => raw_unlock s t i
  end.

(* the goroutine of a session / handler only moves inside the manager while its Lock call is
   pending (the rest of Lock, the manager's own error path) or when its context ends *)
Definition allowed_base (u : user) (a : action) : bool :=
  match u with
  | UFree => true
  | UR4 _ => match a with     (* lock.go:122: context.Background() — the call cannot be cancelled *)
             | ARecv _ | AErrUnlock _ => true
             | _ => false
             end
  | _ => match a with
         | ARecv _ | ACancelChosen _ | ACancelCommit _ | AErrUnlock _ | ACtxDone _ => true
         | _ => false
         end
  end.

Definition ustep_gen (legacy : bool) (us : usys) (a : uaction) : option usys :=
  match a with
  | UBase b =>
      match nth_error (uusers us) (act_tid b) with
      | Some u =>
          if allowed_base u b
          then match step (ubase us) b with
               | Some s' => Some {| ubase := s'; uusers := uusers us |}
               | None => None
               end
          else None
      | None => None
      end
  | UAct t x =>
      match nth_error (uusers us) t, nth_error (ths (ubase us)) t with
      | Some u, Some th =>
          match user_step legacy u x th with
          | Some (u', c) =>
              match apply_call (ubase us) t c with
              | Some s' => Some {| ubase := s'; uusers := upd (uusers us) t u' |}
              | None => None
              end
          | None => None
          end
      | _, _ => None
      end
  end.

Definition ustep := ustep_gen false.

(* the call a step of a user's program makes (what the theorems about Unlock quantify over) *)
Definition call_of (legacy : bool) (us : usys) (a : uaction) : option (nat * call) :=
  match a with
  | UBase _ => None
  | UAct t x =>
      match nth_error (uusers us) t, nth_error (ths (ubase us)) t with
      | Some u, Some th => match user_step legacy u x th with Some (_, c) => Some (t, c) | None => None end
      | _, _ => None
      end
  end.

Definition user_init (u : user) : bool :=
  match u with
  | UFree | UBr BIdle | UR4 R4Idle => true
  | USess sc SLoop => (sc =? 0)%N
  | _ => false
  end.

Definition uinit (l : list user) : usys := {| ubase := init (length l); uusers := l |}.

Fixpoint urun_gen (legacy : bool) (us : usys) (l : list uaction) : option usys :=
  match l with
  | [] => Some us
  | a :: r => match ustep_gen legacy us a with Some us' => urun_gen legacy us' r | None => None end
  end.
Definition urun := urun_gen false.

(** * Exploration used by the correspondence check (as in Model.v, one level up) *)
Definition uinternal (a : uaction) : bool :=
  match a with
  | UBase b => internal b
  | UAct _ x => match x with
                | SLockReturn | SChallenge | SWriteResp _ | SEnd | BLockReturn | BBodyAuto | BDefer
                | R4LockReturn | R4Check | R4Run _ | R4Defer => true
                | _ => false
                end
  end.

Definition uinternal_actions (t : nat) : list uaction :=
  map UBase (internal_actions t) ++
  [UAct t SLockReturn; UAct t SChallenge; UAct t (SWriteResp true); UAct t (SWriteResp false);
   UAct t SEnd; UAct t BLockReturn; UAct t BBodyAuto; UAct t BDefer;
   UAct t R4LockReturn; UAct t R4Check; UAct t (R4Run true); UAct t (R4Run false); UAct t R4Defer].

Definition uenabled_internal (us : usys) : list usys :=
  flat_map (fun t => flat_map (fun a => match ustep us a with Some s' => [s'] | None => [] end)
                              (uinternal_actions t))
           (seq 0 (length (uusers us))).

Definition uquiescent (us : usys) : bool := match uenabled_internal us with [] => true | _ => false end.

Definition unode := (usys * list uaction)%type.

Definition uexpand (nd : unode) : list unode :=
  let '(s, pend) := nd in
  map (fun s' => (s', pend)) (uenabled_internal s) ++
  flat_map (fun '(a, rest) => match ustep s a with Some s' => [(s', rest)] | None => [] end)
           (picks pend).

Definition uterminal (nd : unode) : bool :=
  match uenabled_internal (fst nd), snd nd with
  | [], [] => true
  | _, _ => false
  end.

(** * Observations *)
Inductive ustat :=
| OF (s : tstat)       (* a free caller, as in Model.v *)
| OSLoop (sc : cid)    (* session alive between RPCs; the contract it records (0: none) *)
| OSWait (i : cid)     (* session parked in its Lock RPC *)
| OSEnded
| OBIdle               (* handler not started / returned *)
| OBWait (i : cid)     (* handler parked in its Lock call *)
| OBHeld (i : cid)     (* handler holds i, its body waits for the renter *)
| OTransient.

Definition ustat_of (u : user) (th : thread) : ustat :=
  match u, tpc th with
  | UFree, _ => OF (stat_of th)
  | _, Panicked => OF SPanicked    (* the goroutine of a session / handler panicked in Unlock *)
  | _, Blocked _ _ => OF SBlocked
  | _, _ =>
  match u with
  | UFree => OF (stat_of th)
  | USess sc SLoop => OSLoop sc
  | USess _ (SLockCall i _) => match tpc th with Waiting _ _ => OSWait i | _ => OTransient end
  | USess _ SEnded => OSEnded
  | USess _ _ => OTransient
  | UBr BIdle => OBIdle
  | UBr (BCall i _) => match tpc th with Waiting _ _ => OBWait i | _ => OTransient end
  | UBr (BHeld i true) => OBHeld i
  | UBr _ => OTransient
  | UR4 R4Idle => OBIdle
  | UR4 (R4Call _ i _) => match tpc th with Waiting _ _ => OBWait i | _ => OTransient end
  | UR4 (R4Wait _ i) => OBHeld i
  | UR4 _ => OTransient
  end
  end.

Fixpoint ustats (l : list user) (ts : list thread) : list ustat :=
  match l, ts with
  | u :: l', th :: ts' => ustat_of u th :: ustats l' ts'
  | _, _ => []
  end.

Definition uobs := (list ustat * list (cid * Z * Z))%type.
Definition uobs_of (us : usys) : uobs := (ustats (uusers us) (ths (ubase us)), table_of (ubase us)).

Definition ustat_eqb (a b : ustat) : bool :=
  match a, b with
  | OF x, OF y => tstat_eqb x y
  | OSLoop i, OSLoop j | OSWait i, OSWait j | OBWait i, OBWait j | OBHeld i, OBHeld j => (i =? j)%N
  | OSEnded, OSEnded | OBIdle, OBIdle | OTransient, OTransient => true
  | _, _ => false
  end.
Definition uobs_eqb (a b : uobs) : bool :=
  list_eqb ustat_eqb (fst a) (fst b) && list_eqb row_eqb (snd a) (snd b).

(** * Structural equality, to merge nodes *)
Definition spc_eqb (p q : spc) : bool :=
  match p, q with
  | SLoop, SLoop | SEnding, SEnding | SEnded, SEnded => true
  | SLockCall i g, SLockCall j h | SLockGot i g, SLockGot j h => ((i =? j)%N && Bool.eqb g h)%bool
  | SLockStored i, SLockStored j => (i =? j)%N
  | _, _ => false
  end.
Definition bpc_eqb (p q : bpc) : bool :=
  match p, q with
  | BIdle, BIdle => true
  | BCall i g, BCall j h | BHeld i g, BHeld j h => ((i =? j)%N && Bool.eqb g h)%bool
  | BRet i, BRet j => (i =? j)%N
  | _, _ => false
  end.
Definition r4k_eqb (a b : r4k) : bool :=
  match a, b with
  | K4Free, K4Free | K4Append, K4Append | K4Fund, K4Fund | K4Replenish, K4Replenish | K4Roots, K4Roots
  | K4Refresh, K4Refresh | K4Renew, K4Renew | K4Latest, K4Latest => true
  | _, _ => false
  end.
Definition r4pc_eqb (p q : r4pc) : bool :=
  match p, q with
  | R4Idle, R4Idle => true
  | R4Call k i g, R4Call l j h | R4Got k i g, R4Got l j h => (r4k_eqb k l && (i =? j)%N && Bool.eqb g h)%bool
  | R4Body k i, R4Body l j | R4Wait k i, R4Wait l j | R4Ret k i, R4Ret l j => (r4k_eqb k l && (i =? j)%N)%bool
  | _, _ => false
  end.
Definition user_eqb (u v : user) : bool :=
  match u, v with
  | UFree, UFree => true
  | USess a p, USess b q => ((a =? b)%N && spc_eqb p q)%bool
  | UBr p, UBr q => bpc_eqb p q
  | UR4 p, UR4 q => r4pc_eqb p q
  | _, _ => false
  end.
Definition usys_eqb (a b : usys) : bool :=
  state_eqb (ubase a) (ubase b) && list_eqb user_eqb (uusers a) (uusers b).

Definition uact_eqb (x y : uact) : bool :=
  match x, y with
  | SRpcLock i g d b, SRpcLock j h e c =>
      ((i =? j)%N && Bool.eqb g h && Bool.eqb d e && Bool.eqb b c)%bool
  | SWriteResp a, SWriteResp b | SRpcOther a, SRpcOther b => Bool.eqb a b
  | SLockReturn, SLockReturn | SChallenge, SChallenge | SRpcUnlock, SRpcUnlock | SClose, SClose
  | SEnd, SEnd | SNew, SNew | BLockReturn, BLockReturn | BBodyAuto, BBodyAuto | BRelease, BRelease
  | BDefer, BDefer | R4LockReturn, R4LockReturn | R4Check, R4Check | R4Renter, R4Renter
  | R4Defer, R4Defer => true
  | R4Pre k, R4Pre l => r4k_eqb k l
  | R4Run a, R4Run b => Bool.eqb a b
  | R4Enter k i b r, R4Enter l j c q =>
      (r4k_eqb k l && (i =? j)%N && Bool.eqb b c && Bool.eqb r q)%bool
  | BEnter i d b h, BEnter j e c k =>
      ((i =? j)%N && Bool.eqb d e && Bool.eqb b c && Bool.eqb h k)%bool
  | _, _ => false
  end.
Definition uaction_eqb (a b : uaction) : bool :=
  match a, b with
  | UBase x, UBase y => action_eqb x y
  | UAct t x, UAct u y => (Nat.eqb t u && uact_eqb x y)%bool
  | _, _ => false
  end.
Definition unode_eqb (a b : unode) : bool :=
  usys_eqb (fst a) (fst b) && list_eqb uaction_eqb (snd a) (snd b).

Fixpoint udedup (l : list usys) : list usys :=
  match l with
  | [] => []
  | x :: r => if existsb (usys_eqb x) r then udedup r else x :: udedup r
  end.
Fixpoint udedupn (l : list unode) : list unode :=
  match l with
  | [] => []
  | x :: r => if existsb (unode_eqb x) r then udedupn r else x :: udedupn r
  end.

Fixpoint ubfs (fuel : nat) (front : list unode) : list usys :=
  match fuel with
  | O => []
  | S f =>
      match front with
      | [] => []
      | _ => map fst (filter uterminal front) ++ ubfs f (udedupn (flat_map uexpand front))
      end
  end.

Definition uexplore (fuel : nat) (s : usys) (pend : list uaction) : list usys := ubfs fuel [(s, pend)].

(** * Correspondence entry point (trace inclusion) *)
Inductive uop :=
| UInit (l : list user)          (* fresh manager; one user per goroutine slot *)
| UPar (acts : list uaction).    (* external actions performed concurrently, then quiescence *)

Definition uexternal_only (acts : list uaction) : bool := forallb (fun a => negb (uinternal a)) acts.

(* every internal step moves one user / one pending call forward; ProofsUsers.v bounds the length
   of a schedule by 14 per user plus 15 per external action *)
Definition ufuel_for (s : usys) (acts : list uaction) : nat := 15 * (length (uusers s) + length acts) + 15.

Definition usuccessors (cand : list usys) (o : uop) : list usys :=
  match o with
  | UInit l => if forallb user_init l then [uinit l] else []
  | UPar acts =>
      if uexternal_only acts
      then udedup (flat_map (fun s => uexplore (ufuel_for s acts) s acts) cand)
      else []
  end.

Fixpoint urun_case (cand : list usys) (idx : nat) (l : list (uop * uobs)) : option (nat * list uobs) :=
  match l with
  | [] => None
  | (o, seen) :: rest =>
      let succ := usuccessors cand o in
      match filter (fun s => uobs_eqb (uobs_of s) seen) succ with
      | [] => Some (idx, map uobs_of succ)
      | ok => urun_case ok (S idx) rest
      end
  end.

Definition ucase := (N * list (uop * uobs))%type.

(* (case id, index of the first observation the model cannot produce, what it allows there) *)
Fixpoint ucheck (cs : list ucase) : list (N * nat * list uobs) :=
  match cs with
  | [] => []
  | (id, l) :: t =>
      match urun_case [uinit []] 0 l with
      | None => ucheck t
      | Some (i, allowed) => (id, i, allowed) :: ucheck t
      end
  end.
