(* Lock/Users.v — the users of the contract lock OUTSIDE host/contracts, as programs over the
   Manager's API, composed with the locker model of Model.v.

   What is modelled (/repo HEAD ce5ac33):

   RHP2 session (rhp/v2/rhp.go SessionHandler.upgrade / rpcLoop, rhp/v2/rpc.go rpcLock, rpcUnlock,
   and the other RPCs as far as they touch s.contract) — a state machine per connection:
     sc : cid        s.contract.Revision.ParentID; 0 = types.FileContractID{} = "no contract locked"
     SLoop           rhp.go:176-180  rpcLoop is about to read the next RPC id
     SLockCall i g   rpc.go:75       inside sh.contracts.Lock(ctx, i)  (g: the challenge signature of
                                     the request verifies under the contract's renter key)
     SLockGot i g    rpc.go:75       Lock returned nil, rpc.go:83 VerifyChallenge is next
     SLockStored i   rpc.go:91       s.contract = contract done, rpc.go:98 writeResponse is next
     SEnding         rhp.go:177-178  rpcLoop returned an error; upgrade returns; its deferred func
                                     (rhp.go:168-172) is next
     SEnded          rhp.go:166      transport closed (deferred t.Close, registered first, runs last)
   Steps (the Go path each one mirrors):
     SRpcLock i g d b   rpc.go:59-75    request read; s.contract set -> ErrContractAlreadyLocked, RPC
                                        error (l.66-70, no manager call); else Manager.Lock(ctx, i)
     SLockReturn        rpc.go:75-80    Lock returned: nil -> SLockGot; error (context / contract
                                        check; the manager has released) -> RPC error
     SChallenge         rpc.go:83-91    bad signature: Unlock(contract.Revision.ParentID) (l.85), RPC
                                        error, s.contract NOT recorded; good: s.contract = contract
     SWriteResp ok      rpc.go:98-103   response written; or write failed: Unlock (l.99),
                                        s.contract = {} (l.100), RPC error
     SRpcUnlock         rpc.go:107-115  nothing locked -> ErrNoContractLocked, RPC error; else
                                        Unlock(s.contract.Revision.ParentID), s.contract = {}
     SRpcOther ok       every other RPC (settings, form, renew-and-clear, sector roots, read, write):
                        no call of Lock/Unlock; where s.contract is assigned (rpc.go:431 the cleared
                        revision in rpcRenewAndClearContract, 539, 744, 837 the signed revision) the new
                        value is a revision of the same contract: rhp.ClearingRevision / rhp.Revise
                        copy the current revision and leave ParentID alone, so sc does not change
                        (the harness checks this on the real code: renew-and-clear mid-session, then
                        the session's release must free the OLD id); ok = false: the RPC returned an
                        error (any `return ..., err`; also an unknown RPC id, tg.Add failing, the v2
                        hardfork check: rhp.go:110-143)
     SClose             rhp.go:116-119    ReadID fails: the peer closed / the connection broke
     SEnd               rhp.go:168-172  if s.contract is set: Unlock(s.contract.Revision.ParentID)
     SNew               rhp.go:163      a new connection reuses the slot: sess := &session{t: t}
   contract.Revision.ParentID of the value returned by Manager.Lock(ctx, i) is i: scanContract
   (persist/sqlite/contracts.go:1457) panics otherwise.  No stored contract has the zero id (ids are
   hashes): a Lock RPC for id 0 fails in the manager (the step requires b = true for i = 0).

   RHP3 / RHP4 handlers — bracketed critical sections `Lock(ctx, i); if err return; defer Unlock(i)`:
     rhp/v3/payments.go:26/31   processContractPayment   (inside processPayment: handleRPCPriceTable,
                                handleRPCAccountBalance, handleRPCLatestRevision, and handleRPCExecute —
                                there it has returned, lock released, before the handler's own bracket)
     rhp/v3/payments.go:170/175 processFundAccountPayment (handleRPCFundAccount)
     rhp/v3/rpc.go:333/339      handleRPCRenew  (Lock / defer Unlock of clearingRevision.ParentID; the
                                argument of a deferred call is evaluated at the defer statement)
     rhp/v3/rpc.go:535/541      handleRPCExecute (programs that need a contract; defer
                                Unlock(contract.Revision.ParentID) = the locked id, see above)
     coreutils rhp/v4/server.go:146-150 lockContractForRevision (+ `defer unlock()` at 269, 348, 414,
                                457, 547, 760, 936) and 524/528 handleRPCLatestRevision: LockV2Contract /
                                the returned closure; coreutils' code, hostd's side of it is
                                Manager.LockV2Contract (Model.v)
     BIdle            the handler has not called Lock (every `return` before it: payments.go:18-21,
                      156-165; rpc.go:279-330, 485-532) or has returned
     BCall i h        inside Lock(ctx, i); an error return (payments.go:27-30, 171-174; rpc.go:334-338,
                      536-540) holds nothing: the manager released on its error path
     BHeld i h        Lock returned nil and the release is deferred; the body runs (h: it waits for
                      the renter: handleRPCRenew reads the price table, payment and signatures,
                      handleRPCExecute reads program data while holding the lock)
     BRet i           a `return` of the function was reached — any of payments.go:34-96, 178-250;
                      rpc.go:342-476, 543-566 — the deferred Unlock(i) is next
   No RHP3 handler takes a second lock while it holds one (handleRPCRenew reads no payment; the two
   brackets of handleRPCExecute follow each other: two rounds of the bracket user).  A goroutine that
   did hold two contracts at once would be two users, as in Model.v.

   The callers of Manager.Lock / Unlock / LockV2Contract / the integrity checks themselves (api,
   tests, Model.v's sessions) are the UFree users: any action of Model.v.

   Every call of Manager.Unlock(i) by a session or a handler runs [raw_unlock]: the code of
   locker.Unlock (lock.go:33-46) looking up i — whatever the calling goroutine holds.  That the
   caller does hold i is the theorem (ProofsUsers.v), not an assumption.

   [legacy = true] is the rpcLock of seeded change C15-mut6 (s.contract recorded BEFORE the
   challenge is verified, the refusal path unlocks and leaves it recorded); kept for the refuted
   witness.  No proofs in this file. *)
From HostdBase Require Import Base.
From HostdLock Require Import Model.

(** * Users *)
Inductive spc :=
| SLoop
| SLockCall (i : cid) (g : bool)
| SLockGot (i : cid) (g : bool)
| SLockStored (i : cid)
| SEnding
| SEnded.

Inductive bpc :=
| BIdle
| BCall (i : cid) (h : bool)
| BHeld (i : cid) (h : bool)
| BRet (i : cid).

Inductive user :=
| UFree
| USess (sc : cid) (p : spc)
| UBr (p : bpc).

(* what a step of a user asks of the manager *)
Inductive call :=
| CNone
| CLock (i : cid) (d b : bool)   (* Manager.Lock(ctx, i) / LockV2Contract(i) *)
| CUnlock (i : cid).             (* Manager.Unlock(i) / the closure of LockV2Contract *)

Inductive uact :=
| SRpcLock (i : cid) (g d b : bool)
| SLockReturn
| SChallenge
| SWriteResp (ok : bool)
| SRpcUnlock
| SRpcOther (ok : bool)
| SClose
| SEnd
| SNew
| BEnter (i : cid) (d b h : bool)
| BLockReturn
| BBodyAuto          (* the body of a handler that does not wait for the renter reaches its return *)
| BRelease           (* the renter (or a timeout) lets a waiting body reach its return *)
| BDefer.

(* one step of the user's program; [th] is the user's own goroutine as the locker model sees it
   (only consulted to see whether its Lock call has returned, and with what) *)
Definition user_step (legacy : bool) (u : user) (x : uact) (th : thread) : option (user * call) :=
  match u, x with
  | USess sc SLoop, SRpcLock i g d b =>
      if (sc =? 0)%N
      then if ((i =? 0)%N && negb b)%bool then None
           else Some (USess sc (SLockCall i g), CLock i d b)
      else Some (USess sc SEnding, CNone)
  | USess sc (SLockCall i g), SLockReturn =>
      match tpc th with
      | Holding _ => Some (USess (if legacy then i else sc) (SLockGot i g), CNone)
      | Idle => Some (USess sc SEnding, CNone)
      | _ => None
      end
  | USess sc (SLockGot i g), SChallenge =>
      if g then Some (USess i (SLockStored i), CNone)
      else Some (USess sc SEnding, CUnlock i)
  | USess sc (SLockStored i), SWriteResp ok =>
      if ok then Some (USess sc SLoop, CNone)
      else Some (USess 0%N SEnding, CUnlock i)
  | USess sc SLoop, SRpcUnlock =>
      if (sc =? 0)%N then Some (USess sc SEnding, CNone)
      else Some (USess 0%N SLoop, CUnlock sc)
  | USess sc SLoop, SRpcOther ok => Some (USess sc (if ok then SLoop else SEnding), CNone)
  | USess sc SLoop, SClose => Some (USess sc SEnding, CNone)
  | USess sc SEnding, SEnd =>
      if (sc =? 0)%N then Some (USess sc SEnded, CNone)
      else Some (USess sc SEnded, CUnlock sc)
  | USess sc SEnded, SNew => Some (USess 0%N SLoop, CNone)
  | UBr BIdle, BEnter i d b h => Some (UBr (BCall i h), CLock i d b)
  | UBr (BCall i h), BLockReturn =>
      match tpc th with
      | Holding _ => Some (UBr (BHeld i h), CNone)
      | Idle => Some (UBr BIdle, CNone)
      | _ => None
      end
  | UBr (BHeld i false), BBodyAuto => Some (UBr (BRet i), CNone)
  | UBr (BHeld i true), BRelease => Some (UBr (BRet i), CNone)
  | UBr (BRet i), BDefer => Some (UBr BIdle, CUnlock i)
  | _, _ => None
  end.

(** * The composed system *)
Record usys := { ubase : state; uusers : list user }.

Inductive uaction :=
| UBase (a : action)           (* a step of the locker model: a free caller's action, or the part of a
                                  user's pending Manager.Lock call that runs inside the manager *)
| UAct (t : nat) (x : uact).   (* a step of user t's own program *)

(* Manager.Unlock(i) called by goroutine t: lock.go:108 -> lock.go:33-46, whatever t holds *)
Definition raw_unlock (s : state) (t : nat) (i : cid) : option state :=
  match nth_error (ths s) t with
  | Some th => if mutex_free s then unlock_cs s t th i RNone else None
  | None => None
  end.

Definition apply_call (s : state) (t : nat) (c : call) : option state :=
  match c with
  | CNone => Some s
  | CLock i d b => step s (ALock t i d b)
  | CUnlock i => raw_unlock s t i
  end.

(* the goroutine of a session / handler only moves inside the manager while its Lock call is
   pending (the rest of Lock, the manager's own error path) or when its context ends *)
Definition allowed_base (u : user) (a : action) : bool :=
  match u with
  | UFree => true
  | _ => match a with
         | ARecv _ | ACancelChosen _ | ACancelCommit _ | AErrUnlock _ | ACtxDone _ => true
         | _ => false
         end
  end.

Definition ustep_gen (legacy : bool) (us : usys) (a : uaction) : option usys :=
  match a with
  | UBase b =>
      match nth_error (uusers us) (act_tid b) with
      | Some u =>
          if allowed_base u b
          then match step (ubase us) b with
               | Some s' => Some {| ubase := s'; uusers := uusers us |}
               | None => None
               end
          else None
      | None => None
      end
  | UAct t x =>
      match nth_error (uusers us) t, nth_error (ths (ubase us)) t with
      | Some u, Some th =>
          match user_step legacy u x th with
          | Some (u', c) =>
              match apply_call (ubase us) t c with
              | Some s' => Some {| ubase := s'; uusers := upd (uusers us) t u' |}
              | None => None
              end
          | None => None
          end
      | _, _ => None
      end
  end.

Definition ustep := ustep_gen false.

(* the call a step of a user's program makes (what the theorems about Unlock quantify over) *)
Definition call_of (legacy : bool) (us : usys) (a : uaction) : option (nat * call) :=
  match a with
  | UBase _ => None
  | UAct t x =>
      match nth_error (uusers us) t, nth_error (ths (ubase us)) t with
      | Some u, Some th => match user_step legacy u x th with Some (_, c) => Some (t, c) | None => None end
      | _, _ => None
      end
  end.

Definition user_init (u : user) : bool :=
  match u with
  | UFree | UBr BIdle => true
  | USess sc SLoop => (sc =? 0)%N
  | _ => false
  end.

Definition uinit (l : list user) : usys := {| ubase := init (length l); uusers := l |}.

Fixpoint urun_gen (legacy : bool) (us : usys) (l : list uaction) : option usys :=
  match l with
  | [] => Some us
  | a :: r => match ustep_gen legacy us a with Some us' => urun_gen legacy us' r | None => None end
  end.
Definition urun := urun_gen false.

(** * Exploration used by the correspondence check (as in Model.v, one level up) *)
Definition uinternal (a : uaction) : bool :=
  match a with
  | UBase b => internal b
  | UAct _ x => match x with
                | SLockReturn | SChallenge | SWriteResp _ | SEnd | BLockReturn | BBodyAuto | BDefer => true
                | _ => false
                end
  end.

Definition uinternal_actions (t : nat) : list uaction :=
  map UBase (internal_actions t) ++
  [UAct t SLockReturn; UAct t SChallenge; UAct t (SWriteResp true); UAct t (SWriteResp false);
   UAct t SEnd; UAct t BLockReturn; UAct t BBodyAuto; UAct t BDefer].

Definition uenabled_internal (us : usys) : list usys :=
  flat_map (fun t => flat_map (fun a => match ustep us a with Some s' => [s'] | None => [] end)
                              (uinternal_actions t))
           (seq 0 (length (uusers us))).

Definition uquiescent (us : usys) : bool := match uenabled_internal us with [] => true | _ => false end.

Definition unode := (usys * list uaction)%type.

Definition uexpand (nd : unode) : list unode :=
  let '(s, pend) := nd in
  map (fun s' => (s', pend)) (uenabled_internal s) ++
  flat_map (fun '(a, rest) => match ustep s a with Some s' => [(s', rest)] | None => [] end)
           (picks pend).

Definition uterminal (nd : unode) : bool :=
  match uenabled_internal (fst nd), snd nd with
  | [], [] => true
  | _, _ => false
  end.

(** * Observations *)
Inductive ustat :=
| OF (s : tstat)       (* a free caller, as in Model.v *)
| OSLoop (sc : cid)    (* session alive between RPCs; the contract it records (0: none) *)
| OSWait (i : cid)     (* session parked in its Lock RPC *)
| OSEnded
| OBIdle               (* handler not started / returned *)
| OBWait (i : cid)     (* handler parked in its Lock call *)
| OBHeld (i : cid)     (* handler holds i, its body waits for the renter *)
| OTransient.

Definition ustat_of (u : user) (th : thread) : ustat :=
  match u, tpc th with
  | UFree, _ => OF (stat_of th)
  | _, Panicked => OF SPanicked    (* the goroutine of a session / handler panicked in Unlock *)
  | _, Blocked _ _ => OF SBlocked
  | _, _ =>
  match u with
  | UFree => OF (stat_of th)
  | USess sc SLoop => OSLoop sc
  | USess _ (SLockCall i _) => match tpc th with Waiting _ _ => OSWait i | _ => OTransient end
  | USess _ SEnded => OSEnded
  | USess _ _ => OTransient
  | UBr BIdle => OBIdle
  | UBr (BCall i _) => match tpc th with Waiting _ _ => OBWait i | _ => OTransient end
  | UBr (BHeld i true) => OBHeld i
  | UBr _ => OTransient
  end
  end.

Fixpoint ustats (l : list user) (ts : list thread) : list ustat :=
  match l, ts with
  | u :: l', th :: ts' => ustat_of u th :: ustats l' ts'
  | _, _ => []
  end.

Definition uobs := (list ustat * list (cid * Z * Z))%type.
Definition uobs_of (us : usys) : uobs := (ustats (uusers us) (ths (ubase us)), table_of (ubase us)).

Definition ustat_eqb (a b : ustat) : bool :=
  match a, b with
  | OF x, OF y => tstat_eqb x y
  | OSLoop i, OSLoop j | OSWait i, OSWait j | OBWait i, OBWait j | OBHeld i, OBHeld j => (i =? j)%N
  | OSEnded, OSEnded | OBIdle, OBIdle | OTransient, OTransient => true
  | _, _ => false
  end.
Definition uobs_eqb (a b : uobs) : bool :=
  list_eqb ustat_eqb (fst a) (fst b) && list_eqb row_eqb (snd a) (snd b).

(** * Structural equality, to merge nodes *)
Definition spc_eqb (p q : spc) : bool :=
  match p, q with
  | SLoop, SLoop | SEnding, SEnding | SEnded, SEnded => true
  | SLockCall i g, SLockCall j h | SLockGot i g, SLockGot j h => ((i =? j)%N && Bool.eqb g h)%bool
  | SLockStored i, SLockStored j => (i =? j)%N
  | _, _ => false
  end.
Definition bpc_eqb (p q : bpc) : bool :=
  match p, q with
  | BIdle, BIdle => true
  | BCall i g, BCall j h | BHeld i g, BHeld j h => ((i =? j)%N && Bool.eqb g h)%bool
  | BRet i, BRet j => (i =? j)%N
  | _, _ => false
  end.
Definition user_eqb (u v : user) : bool :=
  match u, v with
  | UFree, UFree => true
  | USess a p, USess b q => ((a =? b)%N && spc_eqb p q)%bool
  | UBr p, UBr q => bpc_eqb p q
  | _, _ => false
  end.
Definition usys_eqb (a b : usys) : bool :=
  state_eqb (ubase a) (ubase b) && list_eqb user_eqb (uusers a) (uusers b).

Definition uact_eqb (x y : uact) : bool :=
  match x, y with
  | SRpcLock i g d b, SRpcLock j h e c =>
      ((i =? j)%N && Bool.eqb g h && Bool.eqb d e && Bool.eqb b c)%bool
  | SWriteResp a, SWriteResp b | SRpcOther a, SRpcOther b => Bool.eqb a b
  | SLockReturn, SLockReturn | SChallenge, SChallenge | SRpcUnlock, SRpcUnlock | SClose, SClose
  | SEnd, SEnd | SNew, SNew | BLockReturn, BLockReturn | BBodyAuto, BBodyAuto | BRelease, BRelease
  | BDefer, BDefer => true
  | BEnter i d b h, BEnter j e c k =>
      ((i =? j)%N && Bool.eqb d e && Bool.eqb b c && Bool.eqb h k)%bool
  | _, _ => false
  end.
Definition uaction_eqb (a b : uaction) : bool :=
  match a, b with
  | UBase x, UBase y => action_eqb x y
  | UAct t x, UAct u y => (Nat.eqb t u && uact_eqb x y)%bool
  | _, _ => false
  end.
Definition unode_eqb (a b : unode) : bool :=
  usys_eqb (fst a) (fst b) && list_eqb uaction_eqb (snd a) (snd b).

Fixpoint udedup (l : list usys) : list usys :=
  match l with
  | [] => []
  | x :: r => if existsb (usys_eqb x) r then udedup r else x :: udedup r
  end.
Fixpoint udedupn (l : list unode) : list unode :=
  match l with
  | [] => []
  | x :: r => if existsb (unode_eqb x) r then udedupn r else x :: udedupn r
  end.

Fixpoint ubfs (fuel : nat) (front : list unode) : list usys :=
  match fuel with
  | O => []
  | S f =>
      match front with
      | [] => []
      | _ => map fst (filter uterminal front) ++ ubfs f (udedupn (flat_map uexpand front))
      end
  end.

Definition uexplore (fuel : nat) (s : usys) (pend : list uaction) : list usys := ubfs fuel [(s, pend)].

(** * Correspondence entry point (trace inclusion) *)
Inductive uop :=
| UInit (l : list user)          (* fresh manager; one user per goroutine slot *)
| UPar (acts : list uaction).    (* external actions performed concurrently, then quiescence *)

Definition uexternal_only (acts : list uaction) : bool := forallb (fun a => negb (uinternal a)) acts.

(* every internal step moves one user / one pending call forward; ProofsUsers.v bounds the length
   of a schedule by 14 per user plus 15 per external action *)
Definition ufuel_for (s : usys) (acts : list uaction) : nat := 15 * (length (uusers s) + length acts) + 15.

Definition usuccessors (cand : list usys) (o : uop) : list usys :=
  match o with
  | UInit l => if forallb user_init l then [uinit l] else []
  | UPar acts =>
      if uexternal_only acts
      then udedup (flat_map (fun s => uexplore (ufuel_for s acts) s acts) cand)
      else []
  end.

Fixpoint urun_case (cand : list usys) (idx : nat) (l : list (uop * uobs)) : option (nat * list uobs) :=
  match l with
  | [] => None
  | (o, seen) :: rest =>
      let succ := usuccessors cand o in
      match filter (fun s => uobs_eqb (uobs_of s) seen) succ with
      | [] => Some (idx, map uobs_of succ)
      | ok => urun_case ok (S idx) rest
      end
  end.

Definition ucase := (N * list (uop * uobs))%type.

(* (case id, index of the first observation the model cannot produce, what it allows there) *)
Fixpoint ucheck (cs : list ucase) : list (N * nat * list uobs) :=
  match cs with
  | [] => []
  | (id, l) :: t =>
      match urun_case [uinit []] 0 l with
      | None => ucheck t
      | Some (i, allowed) => (id, i, allowed) :: ucheck t
      end
  end.
