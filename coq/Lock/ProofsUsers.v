(* Lock/ProofsUsers.v — the users of the contract lock outside host/contracts (Users.v: RHP2
   sessions, RHP3/RHP4 bracketed handlers) composed with the locker model: an invariant linking
   each user's program state to what its goroutine holds in the locker, proved for every
   interleaving; from it the protocol assumption of Props_C15.v ("only the holder unlocks, once")
   is discharged for these users, and every execution of the composed system is an execution of
   the locker model — so all theorems about [reachable] hold for the whole system. *)
From HostdBase Require Import Base.
From HostdLock Require Import Model Proofs Proofs2 Proofs3 Proofs4 Users.
From Coq Require Import Lia ZifyBool ZifyN ZifyNat.
Local Open Scope Z_scope.

(** * The link between a user's program state and its goroutine in the locker *)

(* the user's Manager.Lock(ctx, i) call is pending or has just returned.  [nz]: the user tells
   "nothing locked" from "locked i" by i <> 0 (RHP2 session) *)
Definition call_pc (nz : bool) (i : cid) (th : thread) : Prop :=
  match tpc th with
  | Waiting j _ | Cancelling j _ =>
      j = i /\ tchk th = None /\ (nz = true -> i = 0%N -> tbad th = true)
  | Releasing j => j = i
  | Holding j => j = i /\ (nz = true -> i <> 0%N)
  | Idle => True
  | _ => False
  end.

Definition pending (u : user) : option (bool * cid) :=
  match u with
  | USess _ (SLockCall i _) => Some (true, i)
  | UBr (BCall i _) => Some (false, i)
  | UR4 (R4Call _ i _) => Some (false, i)
  | _ => None
  end.

(* what the goroutine holds while no Lock call of the user is pending *)
Definition rest_pc (u : user) : pc :=
  match u with
  | USess sc SLoop | USess sc SEnding => if (sc =? 0)%N then Idle else Holding sc
  | USess _ (SLockGot i _) | USess _ (SLockStored i) => Holding i
  | UBr (BHeld i _) | UBr (BRet i) => Holding i
  | UR4 (R4Got _ i _) | UR4 (R4Body _ i) | UR4 (R4Wait _ i) | UR4 (R4Ret _ i) => Holding i
  | _ => Idle
  end.

Definition wf_user (u : user) : Prop :=
  match u with
  | USess sc (SLockCall _ _) => sc = 0%N
  | USess sc (SLockGot i _) => sc = 0%N /\ i <> 0%N
  | USess sc (SLockStored i) => sc = i /\ i <> 0%N
  | _ => True
  end.

Definition link (th : thread) (u : user) : Prop :=
  match u with
  | UFree => True
  | _ => wf_user u /\
         match pending u with
         | Some (nz, i) => call_pc nz i th
         | None => tpc th = rest_pc u
         end
  end.

Record UInv (us : usys) : Prop := {
  ui_base : Inv (ubase us);
  ui_len : length (uusers us) = length (ths (ubase us));
  ui_link : forall t u th, nth_error (uusers us) t = Some u ->
                           nth_error (ths (ubase us)) t = Some th -> link th u }.

Ltac dmu H := match type of H with context [match ?x with _ => _ end] => destruct x eqn:? end.

(** * One step of a user's program *)
Lemma user_step_free lg x th : user_step lg UFree x th = None.
Proof. destruct x; reflexivity. Qed.

(* what each step of the (unchanged) programs needs and establishes *)
Lemma user_step_cases u x th u' c :
  link th u -> user_step false u x th = Some (u', c) ->
  u' <> UFree /\ wf_user u' /\
  match c with
  | CNone => link th u'
  | CLock i d b => tpc th = Idle /\ exists nz, pending u' = Some (nz, i) /\ (nz = true -> i = 0%N -> b = true)
  | CUnlock i => tpc th = Holding i /\ pending u' = None /\ rest_pc u' = Idle
  end.
Proof.
  intros Hl Hs.
  destruct u as [|sc p|p|p]; [rewrite user_step_free in Hs; discriminate| | |].
  - (* RHP2 session *)
    destruct p as [|i g|i g|i| |]; destruct x; cbn [user_step] in Hs; try discriminate;
      cbn [link wf_user pending rest_pc] in Hl.
    + (* SLoop, SRpcLock *)
      destruct Hl as [_ Hpc].
      destruct (N.eqb_spec sc 0).
      * destruct ((i =? 0)%N && negb b)%bool eqn:Eg; [discriminate|].
        inversion Hs; subst; clear Hs. cbn. repeat split; try discriminate; auto.
        exists true. split; auto. intros _ Ei. subst i. cbn in Eg. destruct b; auto; discriminate.
      * inversion Hs; subst; clear Hs. cbn. repeat split; try discriminate; auto.
        destruct (N.eqb_spec sc 0); [contradiction|auto].
    + (* SLoop, SRpcUnlock *)
      destruct Hl as [_ Hpc].
      destruct (N.eqb_spec sc 0); inversion Hs; subst; clear Hs; cbn; repeat split; try discriminate; auto.
    + (* SLoop, SRpcOther *)
      destruct Hl as [_ Hpc]. inversion Hs; subst; clear Hs.
      destruct ok; cbn; repeat split; try discriminate; auto.
    + (* SLoop, SClose *)
      destruct Hl as [_ Hpc]. inversion Hs; subst; clear Hs. cbn; repeat split; try discriminate; auto.
    + (* SLockCall, SLockReturn *)
      destruct Hl as [Hsc Hcp]. unfold call_pc in Hcp.
      destruct (tpc th) eqn:Hpc; try discriminate; inversion Hs; subst; clear Hs; cbn.
      * repeat split; try discriminate; auto.
      * destruct Hcp as [-> Hnz]. repeat split; try discriminate; auto.
    + (* SLockGot, SChallenge *)
      destruct Hl as [[Hsc Hnz] Hpc].
      destruct g; inversion Hs; subst; clear Hs; cbn; repeat split; try discriminate; auto.
    + (* SLockStored, SWriteResp *)
      destruct Hl as [[Hsc Hnz] Hpc]. subst sc.
      destruct ok; inversion Hs; subst; clear Hs; cbn; repeat split; try discriminate; auto.
      destruct (N.eqb_spec i 0); [contradiction|auto].
    + (* SEnding, SEnd *)
      destruct Hl as [_ Hpc].
      destruct (N.eqb_spec sc 0); inversion Hs; subst; clear Hs; cbn; repeat split; try discriminate; auto.
    + (* SEnded, SNew *)
      destruct Hl as [_ Hpc]. inversion Hs; subst; clear Hs. cbn; repeat split; try discriminate; auto.
  - (* bracketed handler *)
    destruct p as [|i h|i [|]|i]; destruct x; cbn [user_step] in Hs; try discriminate;
      cbn [link wf_user pending rest_pc] in Hl; destruct Hl as [_ Hl].
    + inversion Hs; subst; clear Hs. cbn. repeat split; try discriminate; auto.
      exists false. split; auto. discriminate.
    + unfold call_pc in Hl.
      destruct (tpc th) eqn:Hpc; try discriminate; inversion Hs; subst; clear Hs; cbn.
      * repeat split; try discriminate; auto.
      * destruct Hl as [-> _]. repeat split; try discriminate; auto.
    + inversion Hs; subst; clear Hs. cbn. repeat split; try discriminate; auto.
    + inversion Hs; subst; clear Hs. cbn. repeat split; try discriminate; auto.
    + inversion Hs; subst; clear Hs. cbn. repeat split; try discriminate; auto.
  - (* RHP4 handler *)
    destruct p as [|k i rv|k i rv|k i|k i|k i]; destruct x; cbn [user_step] in Hs; try discriminate;
      cbn [link wf_user pending rest_pc] in Hl; destruct Hl as [_ Hl].
    + (* R4Idle, R4Pre *)
      inversion Hs; subst; clear Hs. cbn. repeat split; try discriminate; auto.
    + (* R4Idle, R4Enter *)
      inversion Hs; subst; clear Hs. cbn. repeat split; try discriminate; auto.
      exists false. split; auto. discriminate.
    + (* R4Call, R4LockReturn *)
      unfold call_pc in Hl.
      destruct (tpc th) eqn:Hpc; try discriminate; inversion Hs; subst; clear Hs; cbn.
      * repeat split; try discriminate; auto.
      * destruct Hl as [-> _]. repeat split; try discriminate; auto.
    + (* R4Got, R4Check *)
      destruct k, rv; inversion Hs; subst; clear Hs; cbn; repeat split; try discriminate; auto.
    + (* R4Body, R4Run *)
      inversion Hs; subst; clear Hs. destruct (r4_reads k && w)%bool; cbn; repeat split; try discriminate; auto.
    + (* R4Wait, R4Renter *)
      inversion Hs; subst; clear Hs. cbn. repeat split; try discriminate; auto.
    + (* R4Ret, R4Defer *)
      inversion Hs; subst; clear Hs. cbn. repeat split; try discriminate; auto.
Qed.

(** * The manager side of a pending Lock call *)
(* the steps of the locker model a session's / handler's goroutine can take *)
Definition owned_action (b : action) : Prop :=
  match b with
  | ARecv _ | ACancelChosen _ | ACancelCommit _ | AErrUnlock _ | ACtxDone _ => True
  | _ => False
  end.

Lemma allowed_owned u b : u <> UFree -> allowed_base u b = true -> owned_action b.
Proof. destruct u; [congruence| | |]; intros _; destruct b; cbn; intros; try discriminate; exact I. Qed.

Lemma owned_base_step s b s' th :
  Inv s' -> step s b = Some s' -> nth_error (ths s) (act_tid b) = Some th -> owned_action b ->
  exists th', nth_error (ths s') (act_tid b) = Some th' /\
    match b with
    | ACtxDone _ => tpc th' = tpc th /\ tbad th' = tbad th /\ tchk th' = tchk th
    | ARecv _ => exists i a, tpc th = Waiting i a /\ th' = acquired th i
    | ACancelChosen _ => exists i a, tpc th = Waiting i a /\ tpc th' = Cancelling i a
                                     /\ tbad th' = tbad th /\ tchk th' = tchk th
    | ACancelCommit _ => exists i a, tpc th = Cancelling i a /\ tpc th' = Idle
    | AErrUnlock _ => exists i, tpc th = Releasing i /\ tpc th' = Idle
    | _ => True
    end.
Proof.
  intros HI' Hs Hn Ho.
  destruct (step_shape _ _ _ Hs) as (th0 & th' & Hn0 & Hths & Htr).
  rewrite Hn in Hn0. inversion Hn0; subst th0; clear Hn0.
  assert (Hn' : nth_error (ths s') (act_tid b) = Some th') by (rewrite Hths; eapply nth_error_upd_eq; eauto).
  pose proof (inv_sane HI' _ _ Hn') as Hok.
  destruct b as [t i d b|t i d b v|t|t|t|t|t|t|t|t|t|t]; cbn in Ho; try contradiction; clear Ho;
    cbn [act_tid] in *; cbn [step] in Hs; rewrite Hn in Hs.
  - (* ACtxDone *)
    destruct (tpc th) eqn:Hpc; inversion Hs; subst s'; clear Hs;
      try (exists th; rewrite Hn; auto).
    unfold set_th in Hn'. cbn [ths] in Hn'. rewrite (nth_error_upd_eq _ _ _ _ Hn) in Hn'.
    inversion Hn'; subst th'. eexists. split; [unfold set_th; cbn [ths]; eapply nth_error_upd_eq; eauto|].
    cbn. auto.
  - (* ARecv *)
    destruct (tpc th) eqn:Hpc; try discriminate.
    destruct (hget a (heap s)) as [o|]; try discriminate.
    destruct (0 <? ltok o); try discriminate. inversion Hs; subst s'; clear Hs.
    cbn [ths] in *. eexists. split; [eapply nth_error_upd_eq; eauto|]. eauto.
  - (* ACancelChosen *)
    destruct (tpc th) eqn:Hpc; try discriminate.
    destruct (tdone th); try discriminate. inversion Hs; subst s'; clear Hs.
    unfold set_th; cbn [ths]. eexists. split; [eapply nth_error_upd_eq; eauto|].
    exists i, a. cbn. auto.
  - (* ACancelCommit *)
    exists th'. split; auto. cbn [trans_ok] in Htr. destruct Htr as (i & a & Hp & [E|E]).
    + eauto.
    + rewrite E in Hok. contradiction.
  - (* AErrUnlock *)
    exists th'. split; auto. cbn [trans_ok] in Htr. destruct Htr as (i & Hp & [E|[(a & E)|E]]).
    + eauto.
    + rewrite E in Hok. contradiction.
    + rewrite E in Hok. contradiction.
Qed.

Lemma call_pc_acquired nz i th :
  tchk th = None -> (nz = true -> i = 0%N -> tbad th = true) -> call_pc nz i (acquired th i).
Proof.
  intros Hc Hnz. unfold acquired, call_pc. destruct (tbad th) eqn:Hb; cbn; auto.
  rewrite Hc. cbn. split; auto. intros E1 E2. specialize (Hnz E1 E2). discriminate.
Qed.

Lemma link_after_base s b s' u th th' :
  Inv s' -> step s b = Some s' -> allowed_base u b = true ->
  nth_error (ths s) (act_tid b) = Some th -> nth_error (ths s') (act_tid b) = Some th' ->
  link th u -> link th' u.
Proof.
  intros HI' Hs Hal Hn Hn' Hl.
  destruct u as [|sc p|p|p] eqn:Eu; [exact I| | |];
    (assert (Hnf : u <> UFree) by (rewrite Eu; discriminate); rewrite <- Eu in *;
     pose proof (allowed_owned u b Hnf Hal) as Ho;
     destruct (owned_base_step _ _ _ _ HI' Hs Hn Ho) as (th1 & Hn1 & Hrel);
     rewrite Hn' in Hn1; inversion Hn1; subst th1; clear Hn1;
     assert (Hl' : wf_user u /\ match pending u with Some (nz, i) => call_pc nz i th | None => tpc th = rest_pc u end)
       by (rewrite Eu in *; exact Hl);
     assert (Hgoal : wf_user u /\ match pending u with Some (nz, i) => call_pc nz i th' | None => tpc th' = rest_pc u end);
     [|rewrite Eu in *; exact Hgoal]);
    (destruct Hl' as [Hwf Hl']; split; [exact Hwf|];
     destruct (pending u) as [[nz i]|] eqn:Ep;
     [ (* a Lock call is pending *)
       unfold call_pc in *;
       destruct b; cbn in Ho; try contradiction;
       [ destruct Hrel as (E1 & E2 & E3); rewrite E1, E2, E3; exact Hl'
       | destruct Hrel as (j & a & Hp & ->); rewrite Hp in Hl'; destruct Hl' as (-> & Hc & Hz);
         apply (call_pc_acquired nz i th Hc Hz)
       | destruct Hrel as (j & a & Hp & E1 & E2 & E3); rewrite Hp in Hl'; rewrite E1, E2, E3; exact Hl'
       | destruct Hrel as (j & a & Hp & E1); rewrite E1; exact I
       | destruct Hrel as (j & Hp & E1); rewrite E1; exact I ]
     | (* the goroutine is outside the manager: Idle or Holding *)
       assert (Hrest : rest_pc u = Idle \/ exists j, rest_pc u = Holding j)
         by (rewrite Eu; cbn; repeat match goal with
                                     | |- context [match ?x with _ => _ end] => destruct x
                                     | |- context [if ?x then _ else _] => destruct x
                                     end; eauto);
       destruct b; cbn in Ho; try contradiction;
       [ destruct Hrel as (E1 & _); congruence
       | destruct Hrel as (j & a & Hp & _); rewrite Hp in Hl'; destruct Hrest as [E|[k E]]; congruence
       | destruct Hrel as (j & a & Hp & _); rewrite Hp in Hl'; destruct Hrest as [E|[k E]]; congruence
       | destruct Hrel as (j & a & Hp & _); rewrite Hp in Hl'; destruct Hrest as [E|[k E]]; congruence
       | destruct Hrel as (j & Hp & _); rewrite Hp in Hl'; destruct Hrest as [E|[k E]]; congruence ] ]).
Qed.

(** * The calls a user makes *)
Lemma raw_unlock_held s t th i :
  nth_error (ths s) t = Some th -> tpc th = Holding i -> raw_unlock s t i = step s (AUnlock t).
Proof. intros Hn Hp. unfold raw_unlock. cbn [step]. rewrite Hn, Hp. reflexivity. Qed.

Lemma unlock_step_idle s t s' th :
  Inv s' -> step s (AUnlock t) = Some s' -> nth_error (ths s) t = Some th ->
  exists th', nth_error (ths s') t = Some th' /\ tpc th' = Idle.
Proof.
  intros HI' Hs Hn. destruct (step_shape _ _ _ Hs) as (th0 & th' & Hn0 & Hths & Htr).
  cbn [act_tid] in *. rewrite Hn in Hn0. inversion Hn0; subst th0.
  assert (Hn' : nth_error (ths s') t = Some th') by (rewrite Hths; eapply nth_error_upd_eq; eauto).
  pose proof (inv_sane HI' _ _ Hn') as Hok. exists th'. split; auto.
  cbn [trans_ok] in Htr. destruct Htr as (i & _ & [E|[(a & E)|E]]); auto; rewrite E in Hok; contradiction.
Qed.

Lemma lock_step_call_pc s t i d b s' th nz :
  Inv s' -> step s (ALock t i d b) = Some s' -> nth_error (ths s) t = Some th -> tpc th = Idle ->
  (nz = true -> i = 0%N -> b = true) ->
  exists th', nth_error (ths s') t = Some th' /\ call_pc nz i th'.
Proof.
  intros HI' Hs Hn Hp Hz. cbn [step] in Hs. rewrite Hn, Hp in Hs. unfold lock_call in Hs.
  destruct (mutex_free s); try discriminate.
  destruct (tlookup i (tbl s)) as [a|].
  - destruct (hget a (heap s)) as [o|].
    + inversion Hs; subst s'; clear Hs. cbn [ths]. eexists. split; [eapply nth_error_upd_eq; eauto|].
      unfold call_pc; cbn. auto.
    + exfalso. inversion Hs; subst s'; clear Hs.
      assert (Hn' : nth_error (ths (set_th s t (with_pc {| tpc := Idle; tdone := d; tbad := b; tchk := None; tret := RNone |} Panicked))) t
                    = Some (with_pc {| tpc := Idle; tdone := d; tbad := b; tchk := None; tret := RNone |} Panicked))
        by (unfold set_th; cbn [ths]; eapply nth_error_upd_eq; eauto).
      pose proof (inv_sane HI' _ _ Hn') as Hok. exact Hok.
  - inversion Hs; subst s'; clear Hs. cbn [ths]. eexists. split; [eapply nth_error_upd_eq; eauto|].
    apply call_pc_acquired; cbn; auto.
Qed.

(** * Every step preserves the invariant, and is a step of the locker model (or leaves it alone) *)
Definition base_move (s s' : state) : Prop := s' = s \/ exists b, step s b = Some s'.

Theorem ustep_preserves_uinv us a us' :
  UInv us -> ustep us a = Some us' -> UInv us' /\ base_move (ubase us) (ubase us').
Proof.
  intros [HI Hlen Hlk] Hs. unfold ustep, ustep_gen in Hs.
  destruct a as [b|t x].
  - (* a step of the locker model *)
    destruct (nth_error (uusers us) (act_tid b)) as [u|] eqn:Hu; try discriminate.
    destruct (allowed_base u b) eqn:Hal; try discriminate.
    destruct (step (ubase us) b) as [s'|] eqn:Hst; try discriminate.
    inversion Hs; subst us'; clear Hs. cbn [ubase uusers].
    pose proof (step_preserves_inv _ _ _ HI Hst) as HI'.
    split; [|right; eauto].
    split; cbn [ubase uusers]; auto.
    + rewrite (step_length _ _ _ Hst). auto.
    + intros t u0 th' Hu0 Hth'.
      destruct (Nat.eq_dec (act_tid b) t) as [<-|Hne].
      * rewrite Hu in Hu0. inversion Hu0; subst u0.
        destruct (step_shape _ _ _ Hst) as (th & _ & Hn & _ & _).
        eapply link_after_base; eauto.
      * rewrite (step_other_thread _ _ _ t Hst Hne) in Hth'. eauto.
  - (* a step of a user's program *)
    destruct (nth_error (uusers us) t) as [u|] eqn:Hu; try discriminate.
    destruct (nth_error (ths (ubase us)) t) as [th|] eqn:Hth; try discriminate.
    destruct (user_step false u x th) as [[u' c]|] eqn:Hus; try discriminate.
    destruct (apply_call (ubase us) t c) as [s'|] eqn:Hc; try discriminate.
    inversion Hs; subst us'; clear Hs. cbn [ubase uusers].
    destruct (user_step_cases _ _ _ _ _ (Hlk _ _ _ Hu Hth) Hus) as (Hnf & Hwf & Hcase).
    assert (Hlink' : forall th', link th' u' <->
              match pending u' with Some (nz, i) => call_pc nz i th' | None => tpc th' = rest_pc u' end).
    { intro th'. destruct u'; [congruence| | |]; cbn [link]; tauto. }
    destruct c as [|i d b|i]; cbn [apply_call] in Hc.
    + (* no call *)
      inversion Hc; subst s'; clear Hc. split; [|left; auto].
      split; cbn [ubase uusers]; auto.
      * rewrite length_upd. auto.
      * intros t0 u0 th0 Hu0 Hth0. apply nth_upd_cases in Hu0. destruct Hu0 as [[-> ->]|[Hne Hu0]].
        -- rewrite Hth in Hth0. inversion Hth0; subst th0. exact Hcase.
        -- eauto.
    + (* Manager.Lock *)
      destruct Hcase as (Hidle & nz & Hp & Hz).
      pose proof (step_preserves_inv _ _ _ HI Hc) as HI'.
      split; [|right; eauto].
      split; cbn [ubase uusers]; auto.
      * rewrite length_upd, (step_length _ _ _ Hc). auto.
      * intros t0 u0 th0 Hu0 Hth0. apply nth_upd_cases in Hu0. destruct Hu0 as [[-> ->]|[Hne Hu0]].
        -- destruct (lock_step_call_pc _ _ _ _ _ _ _ nz HI' Hc Hth Hidle Hz) as (th' & Hn' & Hcp).
           rewrite Hth0 in Hn'. inversion Hn'; subst th'. apply Hlink'. rewrite Hp. exact Hcp.
        -- rewrite (step_other_thread _ _ _ t0 Hc) in Hth0 by (cbn; auto). eauto.
    + (* Manager.Unlock *)
      destruct Hcase as (Hhold & Hp & Hr).
      rewrite (raw_unlock_held _ _ _ _ Hth Hhold) in Hc.
      pose proof (step_preserves_inv _ _ _ HI Hc) as HI'.
      split; [|right; eauto].
      split; cbn [ubase uusers]; auto.
      * rewrite length_upd, (step_length _ _ _ Hc). auto.
      * intros t0 u0 th0 Hu0 Hth0. apply nth_upd_cases in Hu0. destruct Hu0 as [[-> ->]|[Hne Hu0]].
        -- destruct (unlock_step_idle _ _ _ _ HI' Hc Hth) as (th' & Hn' & Hidle).
           rewrite Hth0 in Hn'. inversion Hn'; subst th'. apply Hlink'. rewrite Hp, Hr. exact Hidle.
        -- rewrite (step_other_thread _ _ _ t0 Hc) in Hth0 by (cbn; auto). eauto.
Qed.

(** * Reachable states of the composed system *)
Inductive ureachable : usys -> Prop :=
| ur_init l : forallb user_init l = true -> ureachable (uinit l)
| ur_step us a us' : ureachable us -> ustep us a = Some us' -> ureachable us'.

Lemma uinv_init l : forallb user_init l = true -> UInv (uinit l).
Proof.
  intros Hall. split; cbn [uinit ubase uusers].
  - apply inv_init.
  - cbn. rewrite repeat_length. auto.
  - intros t u th Hu Hth. cbn in Hth. apply nth_repeat_idle in Hth. subst th.
    apply nth_error_In in Hu. rewrite forallb_forall in Hall. specialize (Hall _ Hu).
    destruct u as [|sc p|p|p]; [exact I| | |].
    + destruct p; try discriminate. cbn in Hall. apply N.eqb_eq in Hall. subst sc. cbn. auto.
    + destruct p; try discriminate. cbn. auto.
    + destruct p; try discriminate. cbn. auto.
Qed.

Theorem ureachable_uinv us : ureachable us -> UInv us.
Proof.
  induction 1; [apply uinv_init; auto|].
  eapply ustep_preserves_uinv; eauto.
Qed.

Lemma ustep_users_length us a us' : ustep us a = Some us' -> length (uusers us') = length (uusers us).
Proof.
  unfold ustep, ustep_gen. intros Hs. destruct a as [b|t x]; repeat (dmu Hs; try discriminate);
    inversion Hs; subst; cbn [uusers]; auto; apply length_upd.
Qed.

(* every execution of the composed system is an execution of the locker model of Model.v, in
   which Unlock is only ever called by the holder: everything proved about [reachable] holds for
   the locker driven by RHP2 sessions, RHP3/RHP4 handlers and the callers inside host/contracts *)
Theorem ureachable_base us : ureachable us -> reachable (length (uusers us)) (ubase us).
Proof.
  induction 1 as [l Hl|us a us' Hr IH Hs].
  - cbn. constructor.
  - rewrite (ustep_users_length _ _ _ Hs).
    destruct (ustep_preserves_uinv _ _ _ (ureachable_uinv _ Hr) Hs) as [_ [E|(b & Hb)]].
    + rewrite E. exact IH.
    + econstructor; eauto.
Qed.

(** * 1. Protocol discharge: every Unlock of a session / handler is by the holder *)
Theorem users_unlock_only_held us a t i :
  ureachable us -> call_of false us a = Some (t, CUnlock i) ->
  exists th, nth_error (ths (ubase us)) t = Some th /\ tpc th = Holding i.
Proof.
  intros Hr Hc. pose proof (ureachable_uinv _ Hr) as [HI Hlen Hlk].
  destruct a as [b|t0 x]; cbn [call_of] in Hc; try discriminate.
  destruct (nth_error (uusers us) t0) as [u|] eqn:Hu; try discriminate.
  destruct (nth_error (ths (ubase us)) t0) as [th|] eqn:Hth; try discriminate.
  destruct (user_step false u x th) as [[u' c]|] eqn:Hus; try discriminate.
  inversion Hc; subst t0 c; clear Hc.
  destruct (user_step_cases _ _ _ _ _ (Hlk _ _ _ Hu Hth) Hus) as (_ & _ & Hhold & _).
  exists th. auto.
Qed.

(* ... it is enabled, it IS the holder's Unlock of the locker model (so c15_unlock_only_by_holder
   applies: the entry is found, no token is pending, one holder before, none after, no panic, no
   blocked send), and the goroutine is idle afterwards *)
Theorem users_unlock_is_holder_unlock us a t i :
  ureachable us -> call_of false us a = Some (t, CUnlock i) ->
  exists us' th', ustep us a = Some us' /\ step (ubase us) (AUnlock t) = Some (ubase us')
                  /\ nth_error (ths (ubase us')) t = Some th' /\ tpc th' = Idle.
Proof.
  intros Hr Hc. pose proof (ureachable_uinv _ Hr) as HU. pose proof HU as [HI Hlen Hlk].
  pose proof (ureachable_base _ Hr) as Hrb.
  destruct a as [b|t0 x]; cbn [call_of] in Hc; try discriminate.
  destruct (nth_error (uusers us) t0) as [u|] eqn:Hu; try discriminate.
  destruct (nth_error (ths (ubase us)) t0) as [th|] eqn:Hth; try discriminate.
  destruct (user_step false u x th) as [[u' c]|] eqn:Hus; try discriminate.
  inversion Hc; subst t0 c; clear Hc.
  destruct (user_step_cases _ _ _ _ _ (Hlk _ _ _ Hu Hth) Hus) as (_ & _ & Hhold & _).
  destruct (unlock_never_blocks _ _ _ _ _ Hrb Hth Hhold) as (s' & th' & Hst & Hn' & Hidle & _).
  exists {| ubase := s'; uusers := upd (uusers us) t u' |}, th'.
  unfold ustep, ustep_gen. rewrite Hu, Hth, Hus. cbn [apply_call].
  rewrite (raw_unlock_held _ _ _ _ Hth Hhold), Hst. cbn [ubase]. auto.
Qed.

(** * 2. What a user records is what its goroutine holds *)
(* the user is at a point of its program where it has contract i: an RHP2 session between RPCs
   (or ending) that records i, a Lock RPC past the manager call, a handler in its body or at a
   return *)
Definition user_holds (i : cid) (u : user) : Prop :=
  match u with
  | USess sc SLoop | USess sc SEnding => sc = i /\ i <> 0%N
  | USess _ (SLockGot j _) | USess _ (SLockStored j) => j = i
  | UBr (BHeld j _) | UBr (BRet j) => j = i
  | UR4 (R4Got _ j _) | UR4 (R4Body _ j) | UR4 (R4Wait _ j) | UR4 (R4Ret _ j) => j = i
  | _ => False
  end.

(* ... at a point where it has nothing: between RPCs with no contract recorded, ended, a handler
   that has not locked or has returned *)
Definition user_rest (u : user) : Prop :=
  match u with
  | USess sc SLoop | USess sc SEnding => sc = 0%N
  | USess _ SEnded | UBr BIdle | UR4 R4Idle => True
  | _ => False
  end.

Theorem user_holds_is_holder us t u th i :
  ureachable us -> nth_error (uusers us) t = Some u -> nth_error (ths (ubase us)) t = Some th ->
  (user_holds i u -> tpc th = Holding i) /\ (user_rest u -> tpc th = Idle).
Proof.
  intros Hr Hu Hth. pose proof (ui_link _ (ureachable_uinv _ Hr) _ _ _ Hu Hth) as Hl.
  split; intros Hh.
  - destruct u as [|sc p|p|p]; [contradiction| | |]; destruct p; cbn in Hh; try contradiction;
      cbn [link pending rest_pc wf_user] in Hl; destruct Hl as [Hwf Hl]; try (subst; exact Hl).
    + destruct Hh as [-> Hnz]. destruct (N.eqb_spec i 0); [contradiction|exact Hl].
    + destruct Hh as [-> Hnz]. destruct (N.eqb_spec i 0); [contradiction|exact Hl].
  - destruct u as [|sc p|p|p]; [contradiction| | |]; destruct p; cbn in Hh; try contradiction;
      cbn [link pending rest_pc wf_user] in Hl; destruct Hl as [Hwf Hl]; try exact Hl;
      subst sc; exact Hl.
Qed.

(* mutual exclusion for the whole system, stated on the users: two users that have contract i —
   or a user and a free caller that holds i in the sense of Model.v — are the same goroutine *)
Definition sys_holds (i : cid) (u : user) (th : thread) : Prop :=
  match u with UFree => holds i th | _ => user_holds i u end.

Theorem users_mutual_exclusion us i t1 t2 u1 u2 th1 th2 :
  ureachable us ->
  nth_error (uusers us) t1 = Some u1 -> nth_error (ths (ubase us)) t1 = Some th1 ->
  nth_error (uusers us) t2 = Some u2 -> nth_error (ths (ubase us)) t2 = Some th2 ->
  sys_holds i u1 th1 -> sys_holds i u2 th2 -> t1 = t2.
Proof.
  intros Hr Hu1 Hth1 Hu2 Hth2 H1 H2.
  assert (Hh : forall t u th, nth_error (uusers us) t = Some u -> nth_error (ths (ubase us)) t = Some th ->
                              sys_holds i u th -> holds i th).
  { intros t u th Hu Hth Hs. destruct u as [|sc p|p|p]; [exact Hs| | |];
      left; apply (proj1 (user_holds_is_holder us t _ th i Hr Hu Hth)); exact Hs. }
  eapply (mutual_exclusion _ _ (ureachable_base _ Hr)); eauto.
Qed.

(** * 3. The end of a session *)
(* the deferred release of upgrade (rhp.go:168-172) is enabled whenever a session is ending, it
   completes (no panic, no blocked send), and afterwards the session's goroutine is attached to
   no contract *)
Theorem session_end_completes us t sc :
  ureachable us -> nth_error (uusers us) t = Some (USess sc SEnding) ->
  exists us' th', ustep us (UAct t SEnd) = Some us'
                  /\ nth_error (uusers us') t = Some (USess sc SEnded)
                  /\ nth_error (ths (ubase us')) t = Some th' /\ tpc th' = Idle.
Proof.
  intros Hr Hu. pose proof (ureachable_uinv _ Hr) as HU. pose proof HU as [HI Hlen Hlk].
  assert (Hlt : (t < length (ths (ubase us)))%nat) by (rewrite <- Hlen; apply nth_error_Some; congruence).
  destruct (nth_error (ths (ubase us)) t) as [th|] eqn:Hth; [|apply nth_error_None in Hth; lia].
  pose proof (Hlk _ _ _ Hu Hth) as Hl. cbn [link pending rest_pc wf_user] in Hl. destruct Hl as [_ Hl].
  destruct (N.eqb_spec sc 0) as [E0|Hnz].
  - exists {| ubase := ubase us; uusers := upd (uusers us) t (USess sc SEnded) |}, th.
    unfold ustep, ustep_gen. rewrite Hu, Hth. cbn [user_step].
    destruct (N.eqb_spec sc 0); [|contradiction]. cbn [apply_call ubase uusers].
    repeat split; auto. eapply nth_error_upd_eq; eauto.
  - assert (Hc : call_of false us (UAct t SEnd) = Some (t, CUnlock sc)).
    { cbn [call_of]. rewrite Hu, Hth. cbn [user_step]. destruct (N.eqb_spec sc 0); [contradiction|auto]. }
    destruct (users_unlock_is_holder_unlock _ _ _ _ Hr Hc) as (us' & th' & Hs & _ & Hn' & Hidle).
    exists us', th'. repeat split; auto.
    unfold ustep, ustep_gen in Hs. rewrite Hu, Hth in Hs. cbn [user_step] in Hs.
    destruct (N.eqb_spec sc 0); [contradiction|].
    destruct (apply_call (ubase us) t (CUnlock sc)); try discriminate.
    inversion Hs; subst us'. cbn [uusers]. eapply nth_error_upd_eq; eauto.
Qed.

(* after SessionEnd the session holds nothing, and no table entry is caused by it: a contract no
   OTHER goroutine is attached to has no entry *)
Theorem session_end_releases us t sc th :
  ureachable us -> nth_error (uusers us) t = Some (USess sc SEnded) ->
  nth_error (ths (ubase us)) t = Some th ->
  tpc th = Idle /\
  forall i, (forall u thu, u <> t -> nth_error (ths (ubase us)) u = Some thu -> ~ attached i (tpc thu)) ->
            tlookup i (tbl (ubase us)) = None.
Proof.
  intros Hr Hu Hth.
  pose proof (proj2 (user_holds_is_holder us t _ th 0%N Hr Hu Hth) I) as Hidle.
  split; auto. intros i Hoth.
  apply (unused_contract_has_no_entry _ _ i (ureachable_base _ Hr)).
  intros u thu Hn. destruct (Nat.eq_dec u t) as [->|Hne]; [|eauto].
  rewrite Hth in Hn. inversion Hn; subst thu. rewrite Hidle. cbn. auto.
Qed.

(* a handler that has returned holds nothing either *)
Theorem handler_return_releases us t th :
  ureachable us -> nth_error (uusers us) t = Some (UBr BIdle) ->
  nth_error (ths (ubase us)) t = Some th -> tpc th = Idle.
Proof. intros Hr Hu Hth. exact (proj2 (user_holds_is_holder us t _ th 0%N Hr Hu Hth) I). Qed.

(* the deferred release of a handler is enabled at every return and completes *)
Theorem handler_deferred_release_completes us t i :
  ureachable us -> nth_error (uusers us) t = Some (UBr (BRet i)) ->
  exists us' th', ustep us (UAct t BDefer) = Some us'
                  /\ nth_error (uusers us') t = Some (UBr BIdle)
                  /\ nth_error (ths (ubase us')) t = Some th' /\ tpc th' = Idle.
Proof.
  intros Hr Hu. pose proof (ureachable_uinv _ Hr) as [HI Hlen Hlk].
  assert (Hlt : (t < length (ths (ubase us)))%nat) by (rewrite <- Hlen; apply nth_error_Some; congruence).
  destruct (nth_error (ths (ubase us)) t) as [th|] eqn:Hth; [|apply nth_error_None in Hth; lia].
  assert (Hc : call_of false us (UAct t BDefer) = Some (t, CUnlock i)).
  { cbn [call_of]. rewrite Hu, Hth. reflexivity. }
  destruct (users_unlock_is_holder_unlock _ _ _ _ Hr Hc) as (us' & th' & Hs & _ & Hn' & Hidle).
  exists us', th'. repeat split; auto.
  unfold ustep, ustep_gen in Hs. rewrite Hu, Hth in Hs. cbn [user_step] in Hs.
  destruct (apply_call (ubase us) t (CUnlock i)); try discriminate.
  inversion Hs; subst us'. cbn [uusers]. eapply nth_error_upd_eq; eauto.
Qed.

(** * 4. No leak, for the whole system *)
Theorem users_no_leak us :
  ureachable us ->
  (forall t u th, nth_error (uusers us) t = Some u -> nth_error (ths (ubase us)) t = Some th ->
                  match u with UFree => tpc th = Idle | _ => user_rest u end) ->
  tbl (ubase us) = [].
Proof.
  intros Hr Hall. apply (all_idle_table_empty _ _ (ureachable_base _ Hr)).
  intros t th Hth. pose proof (ureachable_uinv _ Hr) as [HI Hlen Hlk].
  assert (Hlt : (t < length (uusers us))%nat) by (rewrite Hlen; apply nth_error_Some; congruence).
  destruct (nth_error (uusers us) t) as [u|] eqn:Hu; [|apply nth_error_None in Hu; lia].
  specialize (Hall _ _ _ Hu Hth). destruct u as [|sc p|p|p]; auto;
    apply (proj2 (user_holds_is_holder us t _ th 0%N Hr Hu Hth)); exact Hall.
Qed.

(** * 5. The changed rpcLock (C15-mut6): s.contract recorded before the challenge is verified *)
(* a stranger's Lock RPC (bad challenge signature) on contract 5 is refused — the handler
   unlocks, s.contract stays recorded; a caller of the manager takes the free contract; the
   session ends and its deferred release gives up the OTHER caller's hold; a third caller gets
   the contract: two holders.  The unchanged program, same schedule: the third caller waits. *)
Definition mut6_schedule : list uaction :=
  [UAct 0 (SRpcLock 5%N false false false); UAct 0 SLockReturn; UAct 0 SChallenge;
   UBase (ALock 1 5%N false false); UAct 0 SEnd; UBase (ALock 2 5%N false false)].

Theorem legacy_lock_order_refuted :
  (exists us, urun_gen true (uinit [USess 0%N SLoop; UFree; UFree]) mut6_schedule = Some us
              /\ uobs_of us = ([OSEnded; OF (SHold 5%N); OF (SHold 5%N)], [(5%N, 1, 0)]))
  /\ (exists us, urun (uinit [USess 0%N SLoop; UFree; UFree]) mut6_schedule = Some us
                 /\ uobs_of us = ([OSEnded; OF (SHold 5%N); OF (SWait 5%N)], [(5%N, 2, 0)]))
  (* without the interposed caller the second release panics: "unlocking unheld lock" *)
  /\ (exists us, urun_gen true (uinit [USess 0%N SLoop; UFree; UFree])
                   [UAct 0 (SRpcLock 5%N false false false); UAct 0 SLockReturn; UAct 0 SChallenge; UAct 0 SEnd] = Some us
                 /\ uobs_of us = ([OF SPanicked; OF SIdle; OF SIdle], [])).
Proof.
  split; [|split]; eexists; (split; [vm_compute; reflexivity|vm_compute; reflexivity]).
Qed.

(** * 6. The tie: soundness of the checker's exploration, and what an accepted case means *)
Inductive usched : list uaction -> list uaction -> Prop :=
| usched_nil : usched [] []
| usched_int a l pend : uinternal a = true -> usched l pend -> usched (a :: l) pend
| usched_ext a l pend rest : In (a, rest) (picks pend) -> usched l rest -> usched (a :: l) pend.

Lemma spc_eqb_eq p q : spc_eqb p q = true -> p = q.
Proof.
  destruct p, q; cbn; intros H; try discriminate; auto;
    repeat match goal with
           | H : (_ && _)%bool = true |- _ => apply andb_prop in H; destruct H
           | H : (_ =? _)%N = true |- _ => apply N.eqb_eq in H; subst
           | H : Bool.eqb _ _ = true |- _ => apply Bool.eqb_prop in H; subst
           end; auto.
Qed.
Lemma bpc_eqb_eq p q : bpc_eqb p q = true -> p = q.
Proof.
  destruct p, q; cbn; intros H; try discriminate; auto;
    repeat match goal with
           | H : (_ && _)%bool = true |- _ => apply andb_prop in H; destruct H
           | H : (_ =? _)%N = true |- _ => apply N.eqb_eq in H; subst
           | H : Bool.eqb _ _ = true |- _ => apply Bool.eqb_prop in H; subst
           end; auto.
Qed.
Lemma r4k_eqb_eq a b : r4k_eqb a b = true -> a = b.
Proof. destruct a, b; cbn; intros H; try discriminate; auto. Qed.
Lemma r4pc_eqb_eq p q : r4pc_eqb p q = true -> p = q.
Proof.
  destruct p, q; cbn; intros H; try discriminate; auto;
    repeat match goal with
           | H : (_ && _)%bool = true |- _ => apply andb_prop in H; destruct H
           | H : (_ =? _)%N = true |- _ => apply N.eqb_eq in H; subst
           | H : Bool.eqb _ _ = true |- _ => apply Bool.eqb_prop in H; subst
           | H : r4k_eqb _ _ = true |- _ => apply r4k_eqb_eq in H; subst
           end; auto.
Qed.
Lemma user_eqb_eq u v : user_eqb u v = true -> u = v.
Proof.
  destruct u, v; cbn; intros H; try discriminate; auto.
  - apply andb_prop in H. destruct H as [H1 H2]. apply N.eqb_eq in H1. apply spc_eqb_eq in H2. subst; auto.
  - apply bpc_eqb_eq in H. subst; auto.
  - apply r4pc_eqb_eq in H. subst; auto.
Qed.
Lemma usys_eqb_eq a b : usys_eqb a b = true -> a = b.
Proof.
  destruct a as [s1 u1], b as [s2 u2]; unfold usys_eqb; cbn. intros H.
  apply andb_prop in H. destruct H as [H1 H2].
  apply state_eqb_eq in H1. apply (list_eqb_eq _ user_eqb_eq) in H2. subst; auto.
Qed.
Lemma uact_eqb_eq x y : uact_eqb x y = true -> x = y.
Proof.
  destruct x, y; cbn; intros H; try discriminate; auto;
    repeat match goal with
           | H : (_ && _)%bool = true |- _ => apply andb_prop in H; destruct H
           | H : (_ =? _)%N = true |- _ => apply N.eqb_eq in H; subst
           | H : Bool.eqb _ _ = true |- _ => apply Bool.eqb_prop in H; subst
           | H : r4k_eqb _ _ = true |- _ => apply r4k_eqb_eq in H; subst
           end; auto.
Qed.
Lemma uaction_eqb_eq a b : uaction_eqb a b = true -> a = b.
Proof.
  destruct a, b; cbn; intros H; try discriminate.
  - apply action_eqb_eq in H. subst; auto.
  - apply andb_prop in H. destruct H as [H1 H2]. apply Nat.eqb_eq in H1. apply uact_eqb_eq in H2. subst; auto.
Qed.
Lemma unode_eqb_eq a b : unode_eqb a b = true -> a = b.
Proof.
  destruct a as [s1 p1], b as [s2 p2]; unfold unode_eqb; cbn. intros H.
  apply andb_prop in H. destruct H as [H1 H2].
  apply usys_eqb_eq in H1. apply (list_eqb_eq _ uaction_eqb_eq) in H2. subst; auto.
Qed.

Lemma udedup_in l x : In x (udedup l) <-> In x l.
Proof.
  induction l as [|y l IH]; cbn; [tauto|].
  destruct (existsb (usys_eqb y) l) eqn:E.
  - rewrite IH. split; auto. intros [<-|H]; auto.
    apply existsb_exists in E. destruct E as (z & Hz & Ez). apply usys_eqb_eq in Ez. subst. auto.
  - cbn. rewrite IH. tauto.
Qed.
Lemma udedupn_in l x : In x (udedupn l) <-> In x l.
Proof.
  induction l as [|y l IH]; cbn; [tauto|].
  destruct (existsb (unode_eqb y) l) eqn:E.
  - rewrite IH. split; auto. intros [<-|H]; auto.
    apply existsb_exists in E. destruct E as (z & Hz & Ez). apply unode_eqb_eq in Ez. subst. auto.
  - cbn. rewrite IH. tauto.
Qed.

Lemma uinternal_actions_internal t a : In a (uinternal_actions t) -> uinternal a = true.
Proof.
  unfold uinternal_actions. intros Hin. apply in_app_or in Hin. destruct Hin as [Hin|Hin].
  - apply in_map_iff in Hin. destruct Hin as (b & <- & Hb). cbn in Hb.
    repeat (destruct Hb as [<-|Hb]; [reflexivity|]). contradiction.
  - cbn in Hin. repeat (destruct Hin as [<-|Hin]; [reflexivity|]). contradiction.
Qed.

Lemma uenabled_internal_inv s s' :
  In s' (uenabled_internal s) -> exists a, uinternal a = true /\ ustep s a = Some s'.
Proof.
  unfold uenabled_internal. intros Hin. apply in_flat_map in Hin. destruct Hin as (t & _ & Hin).
  apply in_flat_map in Hin. destruct Hin as (a & Ha & Hin).
  destruct (ustep s a) as [s1|] eqn:Hs; [|contradiction]. destruct Hin as [<-|[]].
  exists a. split; auto. eapply uinternal_actions_internal; eauto.
Qed.

Definition ureaches (nd : unode) (l : list uaction) (s' : usys) : Prop :=
  usched l (snd nd) /\ urun (fst nd) l = Some s' /\ uquiescent s' = true.

Lemma uexpand_inv nd nd1 :
  In nd1 (uexpand nd) ->
  exists a, ustep (fst nd) a = Some (fst nd1) /\
            ((uinternal a = true /\ snd nd1 = snd nd) \/ In (a, snd nd1) (picks (snd nd))).
Proof.
  destruct nd as [s pend], nd1 as [s1 p1]. unfold uexpand. intros Hin.
  apply in_app_or in Hin. destruct Hin as [Hin|Hin].
  - apply in_map_iff in Hin. destruct Hin as (x & E & Hin). inversion E; subst.
    apply uenabled_internal_inv in Hin. destruct Hin as (a & Hi & Hs). exists a. cbn. auto.
  - apply in_flat_map in Hin. destruct Hin as ([a rest] & Hp & Hin).
    destruct (ustep s a) as [s2|] eqn:Hs; [|contradiction]. destruct Hin as [E|[]].
    inversion E; subst. exists a. cbn. auto.
Qed.

Theorem ubfs_sound fuel : forall front s',
  In s' (ubfs fuel front) -> exists nd l, In nd front /\ ureaches nd l s'.
Proof.
  induction fuel as [|f IH]; intros front s' Hin; [contradiction|].
  cbn [ubfs] in Hin. destruct front as [|n0 fr] eqn:Ef; [contradiction|]. rewrite <- Ef in *.
  apply in_app_or in Hin. destruct Hin as [Hin|Hin].
  - apply in_map_iff in Hin. destruct Hin as (nd & E & Hin). apply filter_In in Hin.
    destruct Hin as [Hin Ht]. subst s'. exists nd, []. split; auto.
    unfold uterminal in Ht. unfold ureaches, uquiescent.
    destruct (uenabled_internal (fst nd)); [|discriminate]. destruct (snd nd); [|discriminate].
    repeat split; constructor.
  - destruct (IH _ _ Hin) as (nd1 & l & Hin1 & Hsch & Hrun & Hq).
    rewrite udedupn_in in Hin1. apply in_flat_map in Hin1. destruct Hin1 as (nd & Hnd & Hexp).
    destruct (uexpand_inv _ _ Hexp) as (a & Hs & Hcase).
    exists nd, (a :: l). split; auto. unfold ureaches. split; [|split; auto].
    + destruct Hcase as [[Hi E]|Hp]; [rewrite <- E; constructor; auto|eapply usched_ext; eauto].
    + unfold urun in *. cbn [urun_gen]. fold ustep. rewrite Hs. auto.
Qed.

(* whatever the checker offers as the next observation is shown by the model after some
   interleaving of the recorded external actions (each once) with internal steps, at quiescence *)
Theorem usuccessors_sound cand acts s' :
  In s' (usuccessors cand (UPar acts)) ->
  exists s l, In s cand /\ usched l acts /\ urun s l = Some s' /\ uquiescent s' = true.
Proof.
  unfold usuccessors. destruct (uexternal_only acts); [|contradiction].
  rewrite udedup_in, in_flat_map. intros (s & Hs & Hin).
  unfold uexplore in Hin. destruct (ubfs_sound _ _ _ Hin) as (nd & l & [<-|[]] & H1 & H2 & H3).
  exists s, l. auto.
Qed.

Lemma urun_reachable l : forall us us', ureachable us -> urun us l = Some us' -> ureachable us'.
Proof.
  induction l as [|a l IH]; intros us us' Hr Hrun; unfold urun in *; cbn [urun_gen] in Hrun.
  - inversion Hrun; subst; auto.
  - fold ustep in Hrun. destruct (ustep us a) as [us1|] eqn:E; try discriminate.
    apply (IH us1); auto. econstructor; eauto.
Qed.

Fixpoint uchain (s : usys) (l : list (uop * uobs)) : Prop :=
  match l with
  | [] => True
  | (o, seen) :: rest =>
      exists s', In s' (usuccessors [s] o) /\ uobs_eqb (uobs_of s') seen = true /\ uchain s' rest
  end.

Lemma usuccessors_single cand o s1 :
  In s1 (usuccessors cand o) -> cand <> [] -> exists s, In s cand /\ In s1 (usuccessors [s] o).
Proof.
  intros Hin Hne. destruct o as [k|acts].
  - destruct cand as [|s c]; [congruence|]. exists s. split; [left; auto|exact Hin].
  - unfold usuccessors in *. destruct (uexternal_only acts); [|contradiction].
    rewrite udedup_in in Hin. apply in_flat_map in Hin. destruct Hin as (s & Hs & Hin).
    exists s. split; auto. rewrite udedup_in. apply in_flat_map. exists s. split; [left; auto|auto].
Qed.

(* if the checker accepts a recorded case, the composed model has an execution that shows, at
   every quiescent point, exactly the recorded observation *)
Theorem urun_case_sound l : forall cand idx,
  urun_case cand idx l = None -> cand <> [] -> exists s, In s cand /\ uchain s l.
Proof.
  induction l as [|[o seen] rest IH]; intros cand idx Hrun Hne.
  - destruct cand as [|s c]; [congruence|]. exists s. split; [left; auto|exact I].
  - cbn [urun_case] in Hrun.
    destruct (filter (fun s => uobs_eqb (uobs_of s) seen) (usuccessors cand o)) as [|x ok] eqn:Ef;
      [discriminate|].
    destruct (IH _ _ Hrun) as (s1 & Hs1 & Hch); [discriminate|].
    rewrite <- Ef in Hs1. apply filter_In in Hs1. destruct Hs1 as [Hin Hobs].
    destruct (usuccessors_single _ _ _ Hin Hne) as (s & Hs & Hin').
    exists s. split; auto. cbn [uchain]. exists s1. auto.
Qed.

(** * 7. Completeness of the exploration for the fuel the checker uses *)
(* a measure that every internal step of the composed system decreases *)
Definition user_weight (u : user) : Z :=
  match u with
  | USess _ (SLockCall _ _) => 10
  | USess _ (SLockGot _ _) => 8
  | USess _ (SLockStored _) => 6
  | USess _ SEnding => 2
  | UBr (BCall _ _) => 8
  | UBr (BHeld _ _) => 6
  | UBr (BRet _) => 2
  | UR4 (R4Call _ _ _) => 10
  | UR4 (R4Got _ _ _) => 8
  | UR4 (R4Body _ _) => 6
  | UR4 (R4Wait _ _) => 4
  | UR4 (R4Ret _ _) => 2
  | _ => 0
  end.

Fixpoint usum (l : list user) : Z :=
  match l with [] => 0 | u :: r => user_weight u + usum r end.

Definition umeasure (us : usys) : Z := measure (ubase us) + usum (uusers us).

Lemma user_weight_range u : 0 <= user_weight u <= 10.
Proof. destruct u as [|sc p|p|p]; [cbn; lia| | |]; destruct p; cbn; lia. Qed.

Lemma usum_nonneg l : 0 <= usum l.
Proof. induction l as [|u l IH]; cbn [usum]; [lia|]. pose proof (user_weight_range u). lia. Qed.

Lemma usum_le l : usum l <= 10 * Z.of_nat (length l).
Proof. induction l as [|u l IH]; cbn [usum length]; [lia|]. pose proof (user_weight_range u). lia. Qed.

Lemma usum_upd l t u u0 :
  nth_error l t = Some u0 -> usum (upd l t u) = usum l - user_weight u0 + user_weight u.
Proof.
  revert t; induction l as [|x l IH]; destruct t; cbn; intros Hn; try discriminate.
  - inversion Hn; subst. lia.
  - rewrite (IH _ Hn). lia.
Qed.

Lemma umeasure_nonneg us : 0 <= umeasure us.
Proof. unfold umeasure. pose proof (measure_nonneg (ubase us)). pose proof (usum_nonneg (uusers us)). lia. Qed.

(* Unlock run by anybody: the caller ends up idle (or blocked in the send, or panicked) *)
Lemma raw_unlock_measure s t i s' : raw_unlock s t i = Some s' -> measure s' <= measure s + 1.
Proof.
  unfold raw_unlock, unlock_cs. intros H.
  destruct (nth_error (ths s) t) as [th|] eqn:Hn; try discriminate.
  destruct (mutex_free s); try discriminate.
  pose proof (pc_weight_nonneg (tpc th)) as Hw.
  unfold measure.
  repeat (dmu H; try discriminate); inversion H; subst; clear H; unfold set_th; cbn [ths];
    rewrite (sumz_upd _ _ _ _ _ Hn); cbn [tpc with_pc mk_idle pc_weight]; lia.
Qed.

Lemma apply_call_measure s t c s' :
  apply_call s t c = Some s' ->
  measure s' <= measure s + match c with CNone => 0 | CLock _ _ _ => 4 | CUnlock _ => 1 end.
Proof.
  destruct c as [|i d b|i]; cbn [apply_call]; intros H.
  - inversion H; subst. lia.
  - pose proof (measure_step _ _ _ H) as Hm. cbn [internal] in Hm. lia.
  - apply raw_unlock_measure in H. lia.
Qed.

(* a step of a user's program: weight of the user and call made *)
Lemma user_step_weight u x th u' c :
  user_step false u x th = Some (u', c) ->
  let dc := match c with CNone => 0 | CLock _ _ _ => 4 | CUnlock _ => 1 end in
  if uinternal (UAct 0 x) then user_weight u' + dc < user_weight u
  else user_weight u' + dc <= user_weight u + 14.
Proof.
  intros Hs.
  destruct u as [|sc p|p|p]; [rewrite user_step_free in Hs; discriminate| | |].
  - destruct p as [|i g|i g|i| |]; destruct x; cbn [user_step] in Hs; try discriminate;
      repeat (dmu Hs; try discriminate); inversion Hs; subst; clear Hs; cbn; try lia;
      try (destruct ok; cbn; lia).
  - destruct p as [|i h|i [|]|i]; destruct x; cbn [user_step] in Hs; try discriminate;
      repeat (dmu Hs; try discriminate); inversion Hs; subst; clear Hs; cbn; lia.
  - destruct p as [|k i rv|k i rv|k i|k i|k i]; destruct x; cbn [user_step] in Hs; try discriminate;
      repeat (dmu Hs; try discriminate); inversion Hs; subst; clear Hs; cbn; try lia;
      destruct (r4_reads k && w)%bool; cbn; lia.
Qed.

Lemma umeasure_step us a us' :
  ustep us a = Some us' ->
  if uinternal a then umeasure us' < umeasure us else umeasure us' <= umeasure us + 14.
Proof.
  unfold ustep, ustep_gen, umeasure. intros Hs. destruct a as [b|t x].
  - destruct (nth_error (uusers us) (act_tid b)); try discriminate.
    destruct (allowed_base _ b); try discriminate.
    destruct (step (ubase us) b) as [s'|] eqn:Hst; try discriminate.
    inversion Hs; subst; clear Hs. cbn [ubase uusers uinternal].
    pose proof (measure_step _ _ _ Hst) as Hm. destruct (internal b); lia.
  - destruct (nth_error (uusers us) t) as [u|] eqn:Hu; try discriminate.
    destruct (nth_error (ths (ubase us)) t) as [th|]; try discriminate.
    destruct (user_step false u x th) as [[u' c]|] eqn:Hus; try discriminate.
    destruct (apply_call (ubase us) t c) as [s'|] eqn:Hc; try discriminate.
    inversion Hs; subst; clear Hs. cbn [ubase uusers].
    rewrite (usum_upd _ _ u' _ Hu).
    pose proof (apply_call_measure _ _ _ _ Hc) as Hm.
    pose proof (user_step_weight _ _ _ _ _ Hus) as Hw. cbn zeta in Hw.
    assert (Ei : uinternal (UAct t x) = uinternal (UAct 0 x)) by reflexivity. rewrite Ei.
    destruct (uinternal (UAct 0 x)); lia.
Qed.

Lemma uenabled_internal_in s a s' :
  uinternal a = true -> ustep s a = Some s' -> In s' (uenabled_internal s).
Proof.
  intros Hi Hs. unfold uenabled_internal.
  assert (Ht : exists t, (t < length (uusers s))%nat /\ In a (uinternal_actions t)).
  { unfold ustep, ustep_gen in Hs. destruct a as [b|t x].
    - exists (act_tid b). split.
      + destruct (nth_error (uusers s) (act_tid b)) eqn:E; try discriminate.
        apply nth_error_Some. congruence.
      + unfold uinternal_actions. apply in_or_app. left. apply in_map.
        destruct b; cbn in Hi; try discriminate; cbn; auto 10.
    - exists t. split.
      + destruct (nth_error (uusers s) t) eqn:E; try discriminate. apply nth_error_Some. congruence.
      + unfold uinternal_actions. apply in_or_app. right.
        destruct x; cbn in Hi; try discriminate; try destruct ok; try destruct w; cbn;
          repeat (first [left; reflexivity | right]). }
  destruct Ht as (t & Hlt & Hin).
  apply in_flat_map. exists t. split; [apply in_seq; lia|].
  apply in_flat_map. exists a. split; auto. rewrite Hs. left; auto.
Qed.

Theorem ubfs_complete l : forall fuel front nd s',
  In nd front -> ureaches nd l s' -> (length l < fuel)%nat -> In s' (ubfs fuel front).
Proof.
  induction l as [|a l IH]; intros fuel front nd s' Hin (Hsch & Hrun & Hq) Hlen;
    (destruct fuel as [|f]; [cbn in Hlen; lia|]); cbn [ubfs];
    (destruct front as [|n0 fr] eqn:Ef; [contradiction|]); rewrite <- Ef in *; apply in_or_app.
  - left. inversion Hsch as [E1 E2| |]; subst. unfold urun in Hrun. cbn in Hrun. inversion Hrun; subst.
    apply in_map_iff. exists nd. split; auto. apply filter_In. split; auto.
    unfold uterminal. rewrite <- E2. unfold uquiescent in Hq.
    destruct (uenabled_internal (fst nd)); [auto|discriminate].
  - right. unfold urun in Hrun. cbn [urun_gen] in Hrun. fold ustep in Hrun.
    destruct (ustep (fst nd) a) as [s1|] eqn:Hs; try discriminate.
    destruct nd as [s pend]. cbn [fst snd] in *.
    inversion Hsch as [|a' l' p' Hi Hsch'|a' l' p' rest Hp Hsch']; subst.
    + apply (IH f _ (s1, pend)); [|repeat split; auto|cbn in Hlen; lia].
      rewrite udedupn_in. apply in_flat_map. exists (s, pend). split; auto.
      unfold uexpand. apply in_or_app. left. apply in_map_iff. exists s1. split; auto.
      eapply uenabled_internal_in; eauto.
    + apply (IH f _ (s1, rest)); [|repeat split; auto|cbn in Hlen; lia].
      rewrite udedupn_in. apply in_flat_map. exists (s, pend). split; auto.
      unfold uexpand. apply in_or_app. right. apply in_flat_map. exists (a, rest). split; auto.
      rewrite Hs. left; auto.
Qed.

Lemma usched_length l : forall s pend s',
  usched l pend -> urun s l = Some s' ->
  Z.of_nat (length l) <= umeasure s + 15 * Z.of_nat (length pend).
Proof.
  induction l as [|a l IH]; intros s pend s' Hsch Hrun.
  - inversion Hsch; subst. cbn. pose proof (umeasure_nonneg s). lia.
  - unfold urun in Hrun. cbn [urun_gen] in Hrun. fold ustep in Hrun.
    destruct (ustep s a) as [s1|] eqn:Hs; try discriminate.
    pose proof (umeasure_step _ _ _ Hs) as Hm.
    inversion Hsch; subst.
    + rewrite H1 in Hm. specialize (IH _ _ _ H3 Hrun). cbn [length]. lia.
    + specialize (IH _ _ _ H3 Hrun). apply picks_length in H1. cbn [length].
      destruct (uinternal a); lia.
Qed.

Lemma umeasure_le us : length (uusers us) = length (ths (ubase us)) -> umeasure us <= 14 * Z.of_nat (length (uusers us)).
Proof.
  intros Hlen. unfold umeasure. pose proof (measure_le (ubase us)). pose proof (usum_le (uusers us)). lia.
Qed.

(* what the checker offers as the next observation is exactly what the composed model can show
   after the recorded actions (for candidate states in which every goroutine slot has a user) *)
Theorem usuccessors_spec cand acts s' :
  uexternal_only acts = true ->
  (forall s, In s cand -> length (uusers s) = length (ths (ubase s))) ->
  (In s' (usuccessors cand (UPar acts)) <->
   exists s l, In s cand /\ usched l acts /\ urun s l = Some s' /\ uquiescent s' = true).
Proof.
  intros Hext Hlen. split; [apply usuccessors_sound|].
  intros (s & l & Hs & H1 & H2 & H3). unfold usuccessors. rewrite Hext, udedup_in, in_flat_map.
  exists s. split; auto. unfold uexplore.
  apply (ubfs_complete l _ _ (s, acts)); [left; auto|repeat split; auto|].
  pose proof (usched_length _ _ _ _ H1 H2). pose proof (umeasure_le s (Hlen _ Hs)).
  unfold ufuel_for. lia.
Qed.
