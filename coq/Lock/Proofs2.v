(* Lock/Proofs2.v — the statements of C15 derived from the invariant. *)
From HostdBase Require Import Base.
From HostdLock Require Import Model Proofs.
From Coq Require Import Lia ZifyBool ZifyN ZifyNat.
Local Open Scope Z_scope.

(* the session has the lock of contract i: it returned from Lock with it (Holding), or it is
   inside a wrapper that was handed the lock and has not yet run its release (the Manager-level
   error path, the body and the deferred release of an integrity check) *)
Definition holds (i : cid) (th : thread) : Prop :=
  tpc th = Holding i \/ tpc th = Releasing i
  \/ (exists v, tpc th = Checking i v) \/ (exists r, tpc th = Deferred i r).

Lemma holds_hz i th : holds i th -> hz i (tpc th) = 1.
Proof. intros [E|[E|[[v E]|[r E]]]]; rewrite E; cbn; rewrite N.eqb_refl; auto. Qed.

Lemma hz_holds i th : hz i (tpc th) = 1 -> holds i th.
Proof.
  unfold holds. destruct (tpc th); cbn; try lia; destruct (N.eqb_spec i i0); try lia; subst; eauto.
Qed.

Lemma acq_pc_holds i th : acq_pc i (tpc th) -> holds i th.
Proof. unfold holds. intros [E|[E|[v E]]]; eauto. Qed.

(** * The shape of a step: only the acting session changes, and its pc moves along the code *)
Definition trans_ok (s : state) (a : action) (p p' : pc) : Prop :=
  match a with
  | ALock _ i _ _ =>
      p = Idle /\ (((p' = Holding i \/ p' = Releasing i) /\ tlookup i (tbl s) = None)
                   \/ (exists a0, p' = Waiting i a0 /\ tlookup i (tbl s) = Some a0)
                   \/ p' = Panicked)
  | ACheck _ i _ _ _ =>
      p = Idle /\ (((p' = Releasing i \/ exists v, p' = Checking i v) /\ tlookup i (tbl s) = None)
                   \/ (exists a0, p' = Waiting i a0 /\ tlookup i (tbl s) = Some a0)
                   \/ p' = Panicked)
  | ALockRefused _ => p = Idle /\ p' = Idle
  | ACtxDone _ => p' = p
  | ARecv _ => exists i a0, p = Waiting i a0 /\ (p' = Holding i \/ p' = Releasing i \/ exists v, p' = Checking i v)
  | ACancelChosen _ => exists i a0, p = Waiting i a0 /\ p' = Cancelling i a0
  | ACancelCommit _ => exists i a0, p = Cancelling i a0 /\ (p' = Idle \/ p' = Panicked)
  | AUnlock _ => exists i, p = Holding i /\ (p' = Idle \/ (exists a0, p' = Blocked i a0) \/ p' = Panicked)
  | AErrUnlock _ => exists i, p = Releasing i /\ (p' = Idle \/ (exists a0, p' = Blocked i a0) \/ p' = Panicked)
  | ABody _ => exists i v, p = Checking i v /\ exists r, p' = Deferred i r
  | ADeferUnlock _ => exists i r, p = Deferred i r /\ (p' = Idle \/ (exists a0, p' = Blocked i a0) \/ p' = Panicked)
  | ASendDone _ => exists i a0, p = Blocked i a0 /\ p' = Idle
  end.

Ltac dm H := match type of H with context [match ?x with _ => _ end] => destruct x eqn:? end.

Lemma step_shape s a s' :
  step s a = Some s' ->
  exists th th', nth_error (ths s) (act_tid a) = Some th
                 /\ ths s' = upd (ths s) (act_tid a) th'
                 /\ trans_ok s a (tpc th) (tpc th').
Proof.
  intros Hs.
  destruct a; cbn [step act_tid] in *; unfold lock_call, unlock_cs, set_th, acquired in *;
    repeat (dm Hs; try discriminate); inversion Hs; subst; clear Hs; cbn [ths];
    eexists; eexists; (split; [reflexivity|]);
    (split; [first [reflexivity | symmetry; apply upd_same; eassumption]|]);
    cbn [trans_ok tpc with_pc mk_idle]; eauto 12.
Qed.

Lemma step_other_thread s a s' t :
  step s a = Some s' -> act_tid a <> t -> nth_error (ths s') t = nth_error (ths s) t.
Proof.
  intros Hs Hne. destruct (step_shape _ _ _ Hs) as (th & th' & _ & E & _).
  rewrite E. apply nth_error_upd_neq; auto.
Qed.

Lemma step_length s a s' : step s a = Some s' -> length (ths s') = length (ths s).
Proof.
  intros Hs. destruct (step_shape _ _ _ Hs) as (th & th' & _ & E & _). rewrite E. apply length_upd.
Qed.

(** * 1. Mutual exclusion *)
Lemma holders_le_1 s i : Inv s -> holders i s <= 1.
Proof.
  intros HI. pose proof (inv_entry HI i) as He. unfold entry_inv in He.
  pose proof (waiters_nonneg i s). pose proof (cancellers_nonneg i s).
  destruct (tlookup i (tbl s)); [destruct He as (o & _ & _ & R2 & R3 & _)|]; lia.
Qed.

Theorem mutual_exclusion k s :
  reachable k s ->
  forall i t1 t2 th1 th2,
    nth_error (ths s) t1 = Some th1 -> nth_error (ths s) t2 = Some th2 ->
    holds i th1 -> holds i th2 -> t1 = t2.
Proof.
  intros Hr i t1 t2 th1 th2 H1 H2 Hh1 Hh2.
  destruct (Nat.eq_dec t1 t2) as [|Hne]; auto. exfalso.
  pose proof (holders_le_1 s i (reachable_inv _ _ Hr)) as Hle.
  pose proof (sumz_two (hz i) (fun p => proj1 (hz_range i p)) _ _ _ _ _ Hne H1 H2) as Hge.
  fold (holders i s) in Hge. rewrite (holds_hz _ _ Hh1), (holds_hz _ _ Hh2) in Hge. lia.
Qed.

(** * 2. The reference count *)
Definition is_holder (i : cid) (p : pc) : bool :=
  match p with Holding j | Releasing j | Checking j _ | Deferred j _ => (i =? j)%N | _ => false end.
Definition is_waiter (i : cid) (p : pc) : bool :=
  match p with Waiting j _ => (i =? j)%N | _ => false end.
Definition is_canceller (i : cid) (p : pc) : bool :=
  match p with Cancelling j _ => (i =? j)%N | _ => false end.
Definition count (b : pc -> bool) (s : state) : Z :=
  Z.of_nat (length (filter (fun th => b (tpc th)) (ths s))).

Lemma sumz_ext f g l : (forall p, f p = g p) -> sumz f l = sumz g l.
Proof. intros E. induction l; cbn; auto. rewrite E, IHl. auto. Qed.

Lemma holders_count i s : holders i s = count (is_holder i) s.
Proof.
  unfold holders, count. rewrite <- sumz_filter. apply sumz_ext. intro p; destruct p; reflexivity.
Qed.
Lemma waiters_count i s : waiters i s = count (is_waiter i) s.
Proof.
  unfold waiters, count. rewrite <- sumz_filter. apply sumz_ext. intro p; destruct p; reflexivity.
Qed.
Lemma cancellers_count i s : cancellers i s = count (is_canceller i) s.
Proof.
  unfold cancellers, count. rewrite <- sumz_filter. apply sumz_ext. intro p; destruct p; reflexivity.
Qed.

Theorem count_inv k s :
  reachable k s ->
  forall i,
    match tlookup i (tbl s) with
    | Some a => exists o, hget a (heap s) = Some o
                          /\ ln o = count (is_holder i) s + count (is_waiter i) s + count (is_canceller i) s
                          /\ 1 <= ln o
    | None => count (is_holder i) s = 0 /\ count (is_waiter i) s = 0 /\ count (is_canceller i) s = 0
    end.
Proof.
  intros Hr i. pose proof (inv_entry (reachable_inv _ _ Hr) i) as He. unfold entry_inv in He.
  rewrite <- holders_count, <- waiters_count, <- cancellers_count.
  pose proof (holders_nonneg i s). pose proof (waiters_nonneg i s). pose proof (cancellers_nonneg i s).
  destruct (tlookup i (tbl s)).
  - destruct He as (o & Ho & R1 & _ & _ & R4). exists o. auto.
  - lia.
Qed.

(** * 3. A waiter's captured *lock is the table's current entry *)
Theorem waiter_pointer_current k s : reachable k s -> ptr_inv s.
Proof. intros Hr. exact (inv_ptr (reachable_inv _ _ Hr)). Qed.

(** * 4. The hand-off token *)
Theorem token_xor_holder k s :
  reachable k s ->
  forall i a o, tlookup i (tbl s) = Some a -> hget a (heap s) = Some o ->
    (ltok o = 0 /\ count (is_holder i) s = 1) \/ (ltok o = 1 /\ count (is_holder i) s = 0).
Proof.
  intros Hr i a o Hl Hh. pose proof (inv_entry (reachable_inv _ _ Hr) i) as He. unfold entry_inv in He.
  rewrite Hl in He. destruct He as (o' & Ho' & _ & R2 & R3 & _).
  rewrite Hh in Ho'. inversion Ho'; subst o'. rewrite <- holders_count.
  pose proof (holders_nonneg i s). lia.
Qed.

(* tokens available to the waiters of i *)
Definition tokc (i : cid) (s : state) : Z :=
  match tlookup i (tbl s) with
  | Some a => match hget a (heap s) with Some o => ltok o | None => 0 end
  | None => 0
  end.

Lemma tokc_char s i :
  Inv s ->
  tokc i s = if 1 <=? holders i s + waiters i s + cancellers i s then 1 - holders i s else 0.
Proof.
  intros HI. pose proof (inv_entry HI i) as He. unfold entry_inv, tokc in *.
  destruct (tlookup i (tbl s)).
  - destruct He as (o & Ho & R1 & R2 & R3 & R4). rewrite Ho.
    destruct (Z.leb_spec 1 (holders i s + waiters i s + cancellers i s)); lia.
  - destruct (Z.leb_spec 1 (holders i s + waiters i s + cancellers i s)); lia.
Qed.

Lemma present_sum s i a : Inv s -> tlookup i (tbl s) = Some a -> 1 <= holders i s + waiters i s + cancellers i s.
Proof.
  intros HI Hl. pose proof (inv_entry HI i) as He. unfold entry_inv in He. rewrite Hl in He.
  destruct He as (o & _ & R1 & _ & _ & R4). lia.
Qed.
Lemma absent_sum s i : Inv s -> tlookup i (tbl s) = None -> holders i s + waiters i s + cancellers i s = 0.
Proof. intros HI Hl. pose proof (inv_entry HI i) as He. unfold entry_inv in He. rewrite Hl in He. auto. Qed.

(* a step by which a waiter of i is admitted / by which a holder of i releases *)
Definition recv_on (i : cid) (s : state) (a : action) : Z :=
  match a with
  | ARecv t => match nth_error (ths s) t with Some th => wz i (tpc th) | None => 0 end
  | _ => 0
  end.
Definition release_on (i : cid) (s : state) (a : action) : Z :=
  match a with
  | AUnlock t | AErrUnlock t | ADeferUnlock t =>
      match nth_error (ths s) t with Some th => hz i (tpc th) | None => 0 end
  | _ => 0
  end.

Lemma token_step s a s' i :
  Inv s -> step s a = Some s' ->
  recv_on i s a + tokc i s' <= release_on i s a + tokc i s.
Proof.
  intros HI Hs. pose proof (step_preserves_inv _ _ _ HI Hs) as HI'.
  destruct (step_shape _ _ _ Hs) as (th & th' & Hn & Hths & Htr).
  destruct (counters_upd s s' _ th th' i Hn Hths) as (E1 & E2 & E3).
  rewrite (tokc_char _ _ HI), (tokc_char _ _ HI').
  pose proof (holders_le_1 s i HI). pose proof (holders_le_1 s' i HI').
  pose proof (holders_nonneg i s). pose proof (waiters_nonneg i s). pose proof (cancellers_nonneg i s).
  pose proof (holders_nonneg i s'). pose proof (waiters_nonneg i s'). pose proof (cancellers_nonneg i s').
  assert (Hok' : ok_pc (tpc th')).
  { apply (inv_sane HI' (act_tid a)). rewrite Hths. eapply nth_error_upd_eq; eauto. }
  assert (Hok : ok_pc (tpc th)) by (eapply (inv_sane HI); eauto).
  destruct (Z.leb_spec 1 (holders i s + waiters i s + cancellers i s));
  destruct (Z.leb_spec 1 (holders i s' + waiters i s' + cancellers i s'));
  destruct a as [t j d b|t j d b v|t|t|t|t|t|t|t|t|t|t]; cbn [trans_ok recv_on release_on act_tid] in *; rewrite ?Hn;
  repeat match goal with
         | H : _ /\ _ |- _ => destruct H
         | H : exists _, _ |- _ => destruct H
         | H : _ \/ _ |- _ => destruct H
         end; subst;
  repeat match goal with
         | H : tpc _ = _ |- _ => rewrite H in *
         end;
  cbn [hz wz cz ok_pc] in *; try contradiction;
  try (match goal with
       | H : tlookup ?j (tbl s) = Some _ |- _ => pose proof (present_sum _ _ _ HI H)
       | H : tlookup ?j (tbl s) = None |- _ => pose proof (absent_sum _ _ HI H)
       end);
  try match goal with |- context [(i =? ?j)%N] => destruct (N.eqb_spec i j); subst end;
  try match goal with H : context [(i =? ?j)%N] |- _ => destruct (N.eqb_spec i j); subst end;
  try lia.
Qed.

Fixpoint tally (f : state -> action -> Z) (s : state) (l : list action) : Z :=
  match l with
  | [] => 0
  | a :: r => match step s a with Some s' => f s a + tally f s' r | None => 0 end
  end.

Lemma tokc_nonneg s i : Inv s -> 0 <= tokc i s.
Proof.
  intros HI. rewrite (tokc_char _ _ HI). pose proof (holders_le_1 s i HI).
  destruct (Z.leb_spec 1 (holders i s + waiters i s + cancellers i s)); lia.
Qed.

Lemma admitted_le_released_gen s l s' i :
  Inv s -> run s l = Some s' ->
  tally (recv_on i) s l + tokc i s' <= tally (release_on i) s l + tokc i s.
Proof.
  revert s; induction l as [|a l IH]; cbn; intros s HI Hrun.
  - inversion Hrun; subst. lia.
  - destruct (step s a) as [s1|] eqn:E; try discriminate.
    pose proof (token_step _ _ _ i HI E). pose proof (IH s1 (step_preserves_inv _ _ _ HI E) Hrun). lia.
Qed.

(* over any execution, waiters admitted to i never outnumber the unlocks of i *)
Theorem admitted_le_released k l s' i :
  run (init k) l = Some s' ->
  tally (recv_on i) (init k) l <= tally (release_on i) (init k) l.
Proof.
  intros Hrun. pose proof (admitted_le_released_gen _ _ _ i (inv_init k) Hrun) as H.
  assert (tokc i (init k) = 0) by reflexivity.
  pose proof (tokc_nonneg s' i (reachable_inv k _ (run_reachable k _ _ _ (reach_init k) Hrun))). lia.
Qed.

(* between two admissions there is an unlock: from a state in which i is held (or free),
   an execution segment without an unlock of i admits nobody / at most the pending token *)
Theorem one_unlock_one_waiter k s l s' i :
  reachable k s -> run s l = Some s' ->
  tally (release_on i) s l = 0 -> tally (recv_on i) s l <= tokc i s /\ tokc i s <= 1.
Proof.
  intros Hr Hrun H0. pose proof (reachable_inv _ _ Hr) as HI.
  pose proof (admitted_le_released_gen _ _ _ i HI Hrun) as H.
  pose proof (tokc_nonneg s' i (reachable_inv k _ (run_reachable k _ _ _ Hr Hrun))).
  split; [lia|]. rewrite (tokc_char _ _ HI). pose proof (holders_nonneg i s).
  destruct (Z.leb_spec 1 (holders i s + waiters i s + cancellers i s)); lia.
Qed.

(** * 5. Unlock by the holder neither blocks nor panics *)
Lemma unlock_cs_total s t th i r : exists s', unlock_cs s t th i r = Some s'.
Proof. unfold unlock_cs. repeat match goal with |- context [match ?x with _ => _ end] => destruct x end; eauto. Qed.

Lemma unlock_cs_ret s t th i r s' th' :
  unlock_cs s t th i r = Some s' -> nth_error (ths s) t = Some th ->
  nth_error (ths s') t = Some th' -> tpc th' = Idle -> tret th' = r.
Proof.
  intros Hu Hn Hn' Hidle. unfold unlock_cs, set_th in Hu.
  repeat (dm Hu; try discriminate); inversion Hu; subst; clear Hu; cbn [ths] in Hn';
    rewrite (nth_error_upd_eq _ _ _ _ Hn) in Hn'; inversion Hn'; subst; cbn in *; auto; discriminate.
Qed.

Lemma release_completes k s t th i r (a : action) :
  reachable k s -> nth_error (ths s) t = Some th ->
  (a = AUnlock t /\ tpc th = Holding i /\ r = RNone) \/ (a = AErrUnlock t /\ tpc th = Releasing i /\ r = RMgrErr)
  \/ (a = ADeferUnlock t /\ tpc th = Deferred i r) ->
  exists s' th', step s a = Some s' /\ nth_error (ths s') t = Some th' /\ tpc th' = Idle /\ tret th' = r.
Proof.
  intros Hr Hn Hcase. pose proof (reachable_inv _ _ Hr) as HI.
  pose proof (sane_mutex_free _ (inv_sane HI)) as Hmf.
  destruct (unlock_cs_total s t th i r) as (s' & Hu).
  assert (Hs : step s a = Some s').
  { destruct Hcase as [(-> & Hpc & ->)|[(-> & Hpc & ->)|(-> & Hpc)]]; cbn [step]; rewrite Hn, Hpc, Hmf; auto. }
  pose proof (step_preserves_inv _ _ _ HI Hs) as HI'.
  destruct (step_shape _ _ _ Hs) as (th0 & th' & Hn0 & Hths & Htr).
  assert (act_tid a = t) by (destruct Hcase as [(-> & _)|[(-> & _)|(-> & _)]]; reflexivity).
  rewrite H in *. rewrite Hn in Hn0. inversion Hn0; subst th0.
  assert (Hn' : nth_error (ths s') t = Some th') by (rewrite Hths; eapply nth_error_upd_eq; eauto).
  pose proof (inv_sane HI' _ _ Hn') as Hok.
  assert (Hidle : tpc th' = Idle).
  { destruct Hcase as [(-> & Hpc & _)|[(-> & Hpc & _)|(-> & Hpc)]]; cbn [trans_ok] in Htr.
    - destruct Htr as (j & _ & [E|[(a0 & E)|E]]); auto; rewrite E in Hok; contradiction.
    - destruct Htr as (j & _ & [E|[(a0 & E)|E]]); auto; rewrite E in Hok; contradiction.
    - destruct Htr as (j & q & _ & [E|[(a0 & E)|E]]); auto; rewrite E in Hok; contradiction. }
  exists s', th'. repeat split; auto. eapply unlock_cs_ret; eauto.
Qed.

Theorem unlock_never_blocks k s t th i :
  reachable k s -> nth_error (ths s) t = Some th -> tpc th = Holding i ->
  exists s' th', step s (AUnlock t) = Some s' /\ nth_error (ths s') t = Some th' /\ tpc th' = Idle /\ tret th' = RNone.
Proof. intros. eapply release_completes; eauto. Qed.

(* Manager.Lock / LockV2Contract: the error path after a successful locks.Lock always releases *)
Theorem manager_error_path_releases k s t th i :
  reachable k s -> nth_error (ths s) t = Some th -> tpc th = Releasing i ->
  exists s' th', step s (AErrUnlock t) = Some s' /\ nth_error (ths s') t = Some th' /\ tpc th' = Idle /\ tret th' = RMgrErr.
Proof. intros. eapply release_completes; eauto. Qed.

(* CheckIntegrity / V2CheckIntegrity: the body does not touch the lock and ends in the return
   statement its root checks select ... *)
Theorem check_body_runs k s t th i v :
  reachable k s -> nth_error (ths s) t = Some th -> tpc th = Checking i v ->
  exists s' th', step s (ABody t) = Some s' /\ nth_error (ths s') t = Some th'
                 /\ tpc th' = Deferred i (if v then RNil else RMgrErr)
                 /\ tbl s' = tbl s /\ heap s' = heap s.
Proof.
  intros Hr Hn Hpc. eexists; eexists. cbn [step]. rewrite Hn, Hpc. split; [reflexivity|].
  unfold set_th; cbn [ths tbl heap]. split; [eapply nth_error_upd_eq; eauto|]. auto.
Qed.

(* ... and whichever it is, the deferred release runs, finds the lock held by this very session,
   neither blocks nor panics, and the check returns what the body selected *)
Theorem check_deferred_release_completes k s t th i r :
  reachable k s -> nth_error (ths s) t = Some th -> tpc th = Deferred i r ->
  exists s' th', step s (ADeferUnlock t) = Some s' /\ nth_error (ths s') t = Some th' /\ tpc th' = Idle /\ tret th' = r.
Proof. intros. eapply release_completes; eauto. Qed.

(** * 6. Progress *)
(* no holder and a waiter: the token is there, so the waiter's receive is enabled *)
Theorem waiter_enabled_when_free k s t th i a :
  reachable k s -> nth_error (ths s) t = Some th -> tpc th = Waiting i a ->
  count (is_holder i) s = 0 ->
  exists s' th', step s (ARecv t) = Some s' /\ nth_error (ths s') t = Some th' /\ holds i th'.
Proof.
  intros Hr Hn Hpc H0. rewrite <- holders_count in H0. pose proof (reachable_inv _ _ Hr) as HI.
  destruct (entry_of_member s t th i HI Hn) as (a1 & o & Hl & Hh & R1 & R2 & R3 & _);
    [rewrite Hpc; cbn; rewrite N.eqb_refl; lia|].
  assert (a1 = a) by (pose proof (inv_ptr HI _ _ _ _ Hn (or_introl Hpc)); congruence). subst a1.
  assert (Et : (0 <? ltok o) = true) by lia.
  eexists; exists (acquired th i). cbn [step]. rewrite Hn, Hpc, Hh, Et. split; [reflexivity|].
  cbn [ths]. split; [eapply nth_error_upd_eq; eauto|]. apply acq_pc_holds, acquired_pc.
Qed.

(* a waiter whose context has ended can always leave, and returns the context's error *)
Theorem cancelled_waiter_can_choose k s t th i a :
  reachable k s -> nth_error (ths s) t = Some th -> tpc th = Waiting i a -> tdone th = true ->
  exists s' th', step s (ACancelChosen t) = Some s' /\ nth_error (ths s') t = Some th' /\ tpc th' = Cancelling i a.
Proof.
  intros Hr Hn Hpc Hd. eexists; exists (with_pc th (Cancelling i a)). cbn [step]. rewrite Hn, Hpc, Hd.
  split; [reflexivity|]. unfold set_th; cbn [ths]. split; [eapply nth_error_upd_eq; eauto|reflexivity].
Qed.

Theorem cancelling_waiter_returns_error k s t th i a :
  reachable k s -> nth_error (ths s) t = Some th -> tpc th = Cancelling i a ->
  exists s' th', step s (ACancelCommit t) = Some s' /\ nth_error (ths s') t = Some th'
                 /\ tpc th' = Idle /\ tret th' = RCtxErr.
Proof.
  intros Hr Hn Hpc. pose proof (reachable_inv _ _ Hr) as HI.
  pose proof (sane_mutex_free _ (inv_sane HI)) as Hmf.
  destruct (entry_of_member s t th i HI Hn) as (a1 & o & Hl & Hh & _);
    [rewrite Hpc; cbn; rewrite N.eqb_refl; lia|].
  assert (a1 = a) by (pose proof (inv_ptr HI _ _ _ _ Hn (or_intror Hpc)); congruence). subst a1.
  eexists; exists (mk_idle th RCtxErr). cbn [step]. rewrite Hn, Hpc, Hmf, Hh.
  split; [reflexivity|]. cbn [ths]. split; [eapply nth_error_upd_eq; eauto|]. split; reflexivity.
Qed.

(* the internal steps terminate: every one of them decreases this measure *)
Definition pc_weight (p : pc) : Z :=
  match p with
  | Waiting _ _ => 4 | Releasing _ | Checking _ _ => 3 | Cancelling _ _ | Deferred _ _ => 2
  | Blocked _ _ => 1 | _ => 0
  end.
Definition measure (s : state) : Z := sumz pc_weight (ths s).

Lemma pc_weight_nonneg p : 0 <= pc_weight p.
Proof. destruct p; cbn; lia. Qed.

Lemma measure_nonneg s : 0 <= measure s.
Proof. apply sumz_nonneg. apply pc_weight_nonneg. Qed.

Lemma measure_step s a s' :
  step s a = Some s' ->
  if internal a then measure s' < measure s else measure s' <= measure s + 4.
Proof.
  intros Hs. destruct (step_shape _ _ _ Hs) as (th & th' & Hn & Hths & Htr).
  unfold measure. rewrite Hths, (sumz_upd _ _ _ th' _ Hn).
  destruct a; cbn [trans_ok internal] in *;
  repeat match goal with
         | H : _ /\ _ |- _ => destruct H
         | H : exists _, _ |- _ => destruct H
         | H : _ \/ _ |- _ => destruct H
         end;
  repeat match goal with H : tpc _ = _ |- _ => rewrite H in * end; cbn [pc_weight]; lia.
Qed.

Theorem internal_step_decreases s a s' :
  internal a = true -> step s a = Some s' -> 0 <= measure s' < measure s.
Proof.
  intros Hi Hs. pose proof (measure_step _ _ _ Hs) as H. rewrite Hi in H.
  pose proof (measure_nonneg s'). lia.
Qed.

(* enabled_internal lists exactly the successors by internal steps *)
Lemma enabled_internal_in s a s' :
  internal a = true -> step s a = Some s' -> In s' (enabled_internal s).
Proof.
  intros Hi Hs. destruct (step_shape _ _ _ Hs) as (th & _ & Hn & _).
  assert (Hlt : (act_tid a < length (ths s))%nat) by (apply nth_error_Some; congruence).
  unfold enabled_internal. apply in_flat_map. exists (act_tid a). split; [apply in_seq; lia|].
  apply in_flat_map. exists a. split.
  - destruct a; cbn in *; try discriminate; auto 9.
  - rewrite Hs. left; auto.
Qed.

Lemma enabled_internal_inv s s' :
  In s' (enabled_internal s) -> exists a, internal a = true /\ step s a = Some s'.
Proof.
  unfold enabled_internal. intros Hin. apply in_flat_map in Hin. destruct Hin as (t & _ & Hin).
  apply in_flat_map in Hin. destruct Hin as (a & Ha & Hin).
  destruct (step s a) eqn:E; [|contradiction]. destruct Hin as [->|[]].
  exists a. split; auto. cbn in Ha. intuition (subst; reflexivity).
Qed.

Lemma quiescent_no_internal s a :
  quiescent s = true -> internal a = true -> step s a = None.
Proof.
  intros Hq Hi. destruct (step s a) eqn:E; auto. exfalso.
  pose proof (enabled_internal_in _ _ _ Hi E) as Hin. unfold quiescent in Hq.
  destruct (enabled_internal s); [contradiction|discriminate].
Qed.

(* at quiescence nobody is in the middle of a call except waiters with a live context that are
   parked behind a holder: a free lock never has a parked waiter *)
Theorem quiescent_shape k s :
  reachable k s -> quiescent s = true ->
  forall t th, nth_error (ths s) t = Some th ->
    match tpc th with
    | Idle | Holding _ => True
    | Waiting i _ => tdone th = false /\ count (is_holder i) s = 1
    | _ => False
    end.
Proof.
  intros Hr Hq t th Hn. pose proof (reachable_inv _ _ Hr) as HI.
  destruct (tpc th) as [|i a|i a|i|i|i v|i r|i a|] eqn:Hpc; auto.
  - split.
    + destruct (tdone th) eqn:Hd; auto. exfalso.
      destruct (cancelled_waiter_can_choose k s t th i a Hr Hn Hpc Hd) as (s' & _ & Hs & _).
      rewrite (quiescent_no_internal _ (ACancelChosen t) Hq eq_refl) in Hs. discriminate.
    + rewrite <- holders_count. pose proof (holders_le_1 s i HI). pose proof (holders_nonneg i s).
      destruct (Z.eq_dec (holders i s) 0) as [E|]; [|lia]. exfalso.
      rewrite holders_count in E.
      destruct (waiter_enabled_when_free k s t th i a Hr Hn Hpc E) as (s' & _ & Hs & _).
      rewrite (quiescent_no_internal _ (ARecv t) Hq eq_refl) in Hs. discriminate.
  - destruct (cancelling_waiter_returns_error k s t th i a Hr Hn Hpc) as (s' & _ & Hs & _).
    rewrite (quiescent_no_internal _ (ACancelCommit t) Hq eq_refl) in Hs. discriminate.
  - destruct (manager_error_path_releases k s t th i Hr Hn Hpc) as (s' & _ & Hs & _).
    rewrite (quiescent_no_internal _ (AErrUnlock t) Hq eq_refl) in Hs. discriminate.
  - destruct (check_body_runs k s t th i v Hr Hn Hpc) as (s' & _ & Hs & _).
    rewrite (quiescent_no_internal _ (ABody t) Hq eq_refl) in Hs. discriminate.
  - destruct (check_deferred_release_completes k s t th i r Hr Hn Hpc) as (s' & _ & Hs & _).
    rewrite (quiescent_no_internal _ (ADeferUnlock t) Hq eq_refl) in Hs. discriminate.
  - pose proof (inv_sane HI _ _ Hn) as Hok. rewrite Hpc in Hok. exact Hok.
  - pose proof (inv_sane HI _ _ Hn) as Hok. rewrite Hpc in Hok. exact Hok.
Qed.

(** * 7. No leak *)
(* session is in a call on contract i or holds it *)
Definition attached (i : cid) (p : pc) : Prop :=
  match p with
  | Waiting j _ | Cancelling j _ | Holding j | Releasing j | Checking j _ | Deferred j _ => j = i
  | _ => False
  end.

Lemma not_attached_zero i p : ~ attached i p -> hz i p = 0 /\ wz i p = 0 /\ cz i p = 0.
Proof.
  intros Hna. destruct p; cbn in *; repeat split; auto;
    destruct (N.eqb_spec i i0); auto; subst; exfalso; apply Hna; auto.
Qed.

Theorem unused_contract_has_no_entry k s i :
  reachable k s ->
  (forall t th, nth_error (ths s) t = Some th -> ~ attached i (tpc th)) ->
  tlookup i (tbl s) = None.
Proof.
  intros Hr Hall. pose proof (reachable_inv _ _ Hr) as HI.
  destruct (tlookup i (tbl s)) as [a|] eqn:Hl; auto. exfalso.
  pose proof (present_sum _ _ _ HI Hl) as Hp.
  assert (holders i s = 0).
  { apply sumz_zero_all. intros n y Hn. apply (not_attached_zero i (tpc y)). eapply Hall; eauto. }
  assert (waiters i s = 0).
  { apply sumz_zero_all. intros n y Hn. apply (not_attached_zero i (tpc y)). eapply Hall; eauto. }
  assert (cancellers i s = 0).
  { apply sumz_zero_all. intros n y Hn. apply (not_attached_zero i (tpc y)). eapply Hall; eauto. }
  lia.
Qed.

Theorem all_idle_table_empty k s :
  reachable k s -> (forall t th, nth_error (ths s) t = Some th -> tpc th = Idle) -> tbl s = [].
Proof.
  intros Hr Hall. apply tlookup_all_none. intro i.
  eapply unused_contract_has_no_entry; eauto.
  intros t th Hn. rewrite (Hall _ _ Hn). cbn. auto.
Qed.

(* a Lock on a contract without entry returns at once with the lock (fast path), whatever the
   state of its context; a Manager-level call with a failing contract check goes straight to its
   error path *)
Theorem lock_immediate_when_no_entry k s t th i d b :
  reachable k s -> nth_error (ths s) t = Some th -> tpc th = Idle -> tlookup i (tbl s) = None ->
  exists s' th', step s (ALock t i d b) = Some s' /\ nth_error (ths s') t = Some th'
                 /\ tpc th' = (if b then Releasing i else Holding i).
Proof.
  intros Hr Hn Hpc Hl. pose proof (reachable_inv _ _ Hr) as HI.
  pose proof (sane_mutex_free _ (inv_sane HI)) as Hmf.
  eexists; eexists. cbn [step]. unfold lock_call. rewrite Hn, Hpc, Hmf, Hl. split; [reflexivity|].
  cbn [ths]. split; [eapply nth_error_upd_eq; eauto|]. unfold acquired; cbn. destruct b; reflexivity.
Qed.

(* the same for an integrity check: it is inside its body at once (or, when the Manager-level
   lock call fails, on that call's error path) *)
Theorem check_immediate_when_no_entry k s t th i d b v :
  reachable k s -> nth_error (ths s) t = Some th -> tpc th = Idle -> tlookup i (tbl s) = None ->
  exists s' th', step s (ACheck t i d b v) = Some s' /\ nth_error (ths s') t = Some th'
                 /\ tpc th' = (if b then Releasing i else Checking i v).
Proof.
  intros Hr Hn Hpc Hl. pose proof (reachable_inv _ _ Hr) as HI.
  pose proof (sane_mutex_free _ (inv_sane HI)) as Hmf.
  eexists; eexists. cbn [step]. unfold lock_call. rewrite Hn, Hpc, Hmf, Hl. split; [reflexivity|].
  cbn [ths]. split; [eapply nth_error_upd_eq; eauto|]. unfold acquired; cbn. destruct b; reflexivity.
Qed.

Theorem no_leak k s t th i d b :
  reachable k s -> (forall t th, nth_error (ths s) t = Some th -> tpc th = Idle) ->
  nth_error (ths s) t = Some th ->
  tbl s = [] /\
  exists s' th', step s (ALock t i d b) = Some s' /\ nth_error (ths s') t = Some th'
                 /\ tpc th' = (if b then Releasing i else Holding i).
Proof.
  intros Hr Hall Hn. pose proof (all_idle_table_empty k s Hr Hall) as Ht. split; auto.
  eapply lock_immediate_when_no_entry; eauto. rewrite Ht. reflexivity.
Qed.

Theorem never_blocked_or_panicked k s :
  reachable k s -> forall t th, nth_error (ths s) t = Some th -> ok_pc (tpc th).
Proof. intros Hr. exact (inv_sane (reachable_inv k s Hr)). Qed.

Theorem waiter_progress k s t th i a :
  reachable k s -> nth_error (ths s) t = Some th ->
  (tpc th = Waiting i a -> count (is_holder i) s = 0 ->
     exists s' th', step s (ARecv t) = Some s' /\ nth_error (ths s') t = Some th' /\ holds i th')
  /\ (tpc th = Waiting i a -> tdone th = true ->
     exists s' th', step s (ACancelChosen t) = Some s' /\ nth_error (ths s') t = Some th'
                    /\ tpc th' = Cancelling i a)
  /\ (tpc th = Cancelling i a ->
     exists s' th', step s (ACancelCommit t) = Some s' /\ nth_error (ths s') t = Some th'
                    /\ tpc th' = Idle /\ tret th' = RCtxErr).
Proof.
  intros Hr Hn. repeat split; intros.
  - eapply waiter_enabled_when_free; eauto.
  - eapply cancelled_waiter_can_choose; eauto.
  - eapply cancelling_waiter_returns_error; eauto.
Qed.
