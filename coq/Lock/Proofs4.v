(* Lock/Proofs4.v — the users of the contract lock inside the manager as wrappers around
   locker.Lock / locker.Unlock: every release step is the code of locker.Unlock run by the session
   that holds the lock; every session releases exactly what it acquired; the integrity checks
   (integrity.go) release once on every path; and what the same code does when it is run by a
   session that does not hold the lock. *)
From HostdBase Require Import Base.
From HostdLock Require Import Model Proofs Proofs2.
From Coq Require Import Lia ZifyBool ZifyN ZifyNat.
Local Open Scope Z_scope.

(** * 1. Unlock's code is only ever run by the holder *)
(* the steps that run lock.go:33-46 *)
Definition is_release (a : action) : bool :=
  match a with AUnlock _ | AErrUnlock _ | ADeferUnlock _ => true | _ => false end.

Lemma release_step_pc s a s' :
  step s a = Some s' -> is_release a = true ->
  exists th i r, nth_error (ths s) (act_tid a) = Some th /\ hz i (tpc th) = 1
                 /\ on_id i (tpc th) /\ unlock_cs s (act_tid a) th i r = Some s'.
Proof.
  intros Hs Hr.
  destruct a as [t i d b|t i d b v|t|t|t|t|t|t|t|t|t|t]; try discriminate; cbn [step act_tid] in *;
    destruct (nth_error (ths s) t) as [th|] eqn:Hn; try discriminate;
    destruct (tpc th) as [|i0 a0|i0 a0|i0|i0|i0 v0|i0 r0|i0 a0|] eqn:Hpc; try discriminate;
    destruct (mutex_free s); try discriminate.
  - exists th, i0, RNone. rewrite Hpc. cbn [hz on_id]. rewrite N.eqb_refl. auto.
  - exists th, i0, RMgrErr. rewrite Hpc. cbn [hz on_id]. rewrite N.eqb_refl. auto.
  - exists th, i0, r0. rewrite Hpc. cbn [hz on_id]. rewrite N.eqb_refl. auto.
Qed.

Theorem unlock_only_by_holder k s a s' :
  reachable k s -> step s a = Some s' -> is_release a = true ->
  exists th i a0 o th',
    nth_error (ths s) (act_tid a) = Some th /\ holds i th
    /\ tlookup i (tbl s) = Some a0 /\ hget a0 (heap s) = Some o /\ ltok o = 0 /\ 1 <= ln o
    /\ count (is_holder i) s = 1
    /\ nth_error (ths s') (act_tid a) = Some th' /\ tpc th' = Idle
    /\ count (is_holder i) s' = 0.
Proof.
  intros Hr Hs Hrel. pose proof (reachable_inv _ _ Hr) as HI.
  pose proof (step_preserves_inv _ _ _ HI Hs) as HI'.
  destruct (release_step_pc _ _ _ Hs Hrel) as (th & i & r & Hn & Hh1 & On & Hu).
  destruct (hz_one _ _ Hh1) as (Hw0 & Hc0 & _).
  destruct (entry_of_member s _ th i HI Hn) as (a0 & o & Hl & Hh & R1 & R2 & R3 & R4 & R5 & _); [lia|].
  pose proof (holders_le_1 s i HI) as Hle.
  destruct (step_shape _ _ _ Hs) as (th0 & th' & Hn0 & Hths & Htr).
  rewrite Hn in Hn0. inversion Hn0; subst th0.
  assert (Hn' : nth_error (ths s') (act_tid a) = Some th') by (rewrite Hths; eapply nth_error_upd_eq; eauto).
  pose proof (inv_sane HI' _ _ Hn') as Hok.
  assert (Hidle : tpc th' = Idle).
  { destruct a; try discriminate; cbn [trans_ok] in Htr.
    - destruct Htr as (j & _ & [E|[(b0 & E)|E]]); auto; rewrite E in Hok; contradiction.
    - destruct Htr as (j & _ & [E|[(b0 & E)|E]]); auto; rewrite E in Hok; contradiction.
    - destruct Htr as (j & q & _ & [E|[(b0 & E)|E]]); auto; rewrite E in Hok; contradiction. }
  destruct (counters_upd s s' _ th th' i Hn Hths) as (E1 & _ & _).
  rewrite Hidle in E1. cbn [hz] in E1.
  exists th, i, a0, o, th'. rewrite <- !holders_count.
  repeat split; auto; try lia. apply hz_holds; auto.
Qed.

(** * 2. Every session releases exactly what it acquired *)
(* session t is handed contract i by this step: the fast path of its Lock / check call, or its
   receive of the token *)
Definition acquire_by (t : nat) (i : cid) (s : state) (a : action) : Z :=
  match a with
  | ALock u j _ _ | ACheck u j _ _ _ =>
      if (Nat.eqb u t && (i =? j)%N)%bool
      then match tlookup j (tbl s) with None => 1 | Some _ => 0 end
      else 0
  | ARecv u =>
      if Nat.eqb u t
      then match nth_error (ths s) u with Some th => wz i (tpc th) | None => 0 end
      else 0
  | _ => 0
  end.
(* session t runs Unlock(i) *)
Definition release_by (t : nat) (i : cid) (s : state) (a : action) : Z :=
  match a with
  | AUnlock u | AErrUnlock u | ADeferUnlock u =>
      if Nat.eqb u t
      then match nth_error (ths s) u with Some th => hz i (tpc th) | None => 0 end
      else 0
  | _ => 0
  end.
Definition holding_now (t : nat) (i : cid) (s : state) : Z :=
  match nth_error (ths s) t with Some th => hz i (tpc th) | None => 0 end.

Lemma balance_step s a s' t i :
  Inv s -> step s a = Some s' ->
  acquire_by t i s a + holding_now t i s = release_by t i s a + holding_now t i s'.
Proof.
  intros HI Hs. pose proof (step_preserves_inv _ _ _ HI Hs) as HI'.
  destruct (step_shape _ _ _ Hs) as (th & th' & Hn & Hths & Htr).
  unfold holding_now.
  destruct (Nat.eq_dec (act_tid a) t) as [Et|Hne].
  - assert (Hn' : nth_error (ths s') t = Some th') by (rewrite Hths, Et; eapply nth_error_upd_eq; rewrite <- Et; eauto).
    pose proof (inv_sane HI' _ _ Hn') as Hok'.
    rewrite Hn'. rewrite Et in Hn. rewrite Hn.
    destruct a as [u j d b|u j d b v|u|u|u|u|u|u|u|u|u|u]; cbn [act_tid] in Et; subst u;
      cbn [trans_ok acquire_by release_by] in *; rewrite ?Nat.eqb_refl, ?Hn; cbn [andb];
      repeat match goal with
             | H : _ /\ _ |- _ => destruct H
             | H : exists _, _ |- _ => destruct H
             | H : _ \/ _ |- _ => destruct H
             end; subst;
      repeat match goal with H : tpc _ = _ |- _ => rewrite H in * end;
      cbn [hz wz ok_pc] in *; try contradiction;
      repeat match goal with H : tlookup _ _ = _ |- _ => rewrite H end;
      try match goal with |- context [(i =? ?j)%N] => destruct (N.eqb_spec i j); subst end;
      try lia.
  - rewrite (step_other_thread _ _ _ t Hs Hne).
    assert (A0 : acquire_by t i s a = 0).
    { destruct a; cbn [acquire_by act_tid] in *; auto;
        match goal with |- context [Nat.eqb ?u t] => destruct (Nat.eqb_spec u t); [congruence|reflexivity] end. }
    assert (R0 : release_by t i s a = 0).
    { destruct a; cbn [release_by act_tid] in *; auto;
        match goal with |- context [Nat.eqb ?u t] => destruct (Nat.eqb_spec u t); [congruence|reflexivity] end. }
    lia.
Qed.

Lemma balance_gen s l s' t i :
  Inv s -> run s l = Some s' ->
  tally (acquire_by t i) s l + holding_now t i s = tally (release_by t i) s l + holding_now t i s'.
Proof.
  revert s; induction l as [|a l IH]; cbn; intros s HI Hrun.
  - inversion Hrun; subst. lia.
  - destruct (step s a) as [s1|] eqn:E; try discriminate.
    pose proof (balance_step _ _ _ t i HI E). pose proof (IH s1 (step_preserves_inv _ _ _ HI E) Hrun). lia.
Qed.

(* over any execution, whatever mix of Lock/Unlock, Manager calls and integrity checks the
   sessions run: a session has run Unlock(i) exactly as often as it was handed i, not counting the
   hold it has right now — never a second release of the same hold, never a hold left behind by a
   call that has returned *)
Theorem session_balance k l s' t i :
  run (init k) l = Some s' ->
  tally (acquire_by t i) (init k) l = tally (release_by t i) (init k) l + holding_now t i s'
  /\ 0 <= holding_now t i s' <= 1.
Proof.
  intros Hrun. pose proof (balance_gen _ _ _ t i (inv_init k) Hrun) as H.
  assert (H0 : holding_now t i (init k) = 0).
  { unfold holding_now. destruct (nth_error (ths (init k)) t) as [th|] eqn:E; auto.
    cbn in E. apply nth_repeat_idle in E. subst. reflexivity. }
  split; [lia|]. unfold holding_now. destruct (nth_error (ths s') t); [apply hz_range|lia].
Qed.

(** * 3. The integrity checks: one release on every path *)
(* while a session is inside a wrapper that has the lock (the Manager-level error path, the body of
   a check, its return) the only thing it can do next is the next piece of that wrapper; a context
   that ends meanwhile changes nothing *)
Theorem wrapper_paths s a s' t th i :
  step s a = Some s' -> act_tid a = t -> nth_error (ths s) t = Some th ->
  (tpc th = Releasing i -> a = AErrUnlock t \/ (a = ACtxDone t /\ s' = s))
  /\ (forall v, tpc th = Checking i v -> a = ABody t \/ (a = ACtxDone t /\ s' = s))
  /\ (forall r, tpc th = Deferred i r -> a = ADeferUnlock t \/ (a = ACtxDone t /\ s' = s)).
Proof.
  intros Hs Et Hn.
  repeat split; intros; destruct a; cbn [act_tid] in Et; subst; cbn [step] in Hs;
    rewrite Hn in Hs; match goal with H : tpc th = _ |- _ => rewrite H in Hs end;
    try discriminate; auto; inversion Hs; auto.
Qed.

(* an integrity check that found the contract free: body, deferred release, and the contract is
   free again, whether the body's root checks pass or not *)
Theorem check_round_trip k s t th i d v :
  reachable k s -> nth_error (ths s) t = Some th -> tpc th = Idle -> tlookup i (tbl s) = None ->
  exists s3 th3, run s [ACheck t i d false v; ABody t; ADeferUnlock t] = Some s3
                 /\ nth_error (ths s3) t = Some th3 /\ tpc th3 = Idle
                 /\ tret th3 = (if v then RNil else RMgrErr)
                 /\ tlookup i (tbl s3) = None.
Proof.
  intros Hr Hn Hpc Hl.
  destruct (check_immediate_when_no_entry k s t th i d false v Hr Hn Hpc Hl) as (s1 & th1 & S1 & N1 & P1).
  assert (Hr1 : reachable k s1) by (econstructor; eauto).
  destruct (check_body_runs k s1 t th1 i v Hr1 N1 P1) as (s2 & th2 & S2 & N2 & P2 & _).
  assert (Hr2 : reachable k s2) by (econstructor; eauto).
  destruct (check_deferred_release_completes k s2 t th2 i _ Hr2 N2 P2) as (s3 & th3 & S3 & N3 & P3 & T3).
  assert (Hr3 : reachable k s3) by (econstructor; eauto).
  exists s3, th3. cbn [run]. rewrite S1, S2, S3. repeat split; auto.
  apply (unused_contract_has_no_entry k); auto.
  intros u thu Hu. destruct (Nat.eq_dec u t) as [->|Hne].
  - rewrite N3 in Hu. inversion Hu; subst. rewrite P3. cbn. auto.
  - rewrite (step_other_thread _ _ _ u S3), (step_other_thread _ _ _ u S2), (step_other_thread _ _ _ u S1) in Hu
      by (cbn; auto).
    intro Hat.
    pose proof (inv_entry (reachable_inv _ _ Hr) i) as He. unfold entry_inv in He. rewrite Hl in He.
    pose proof (holders_nonneg i s). pose proof (waiters_nonneg i s). pose proof (cancellers_nonneg i s).
    pose proof (sumz_nth_le (hz i) (fun p => proj1 (hz_range i p)) _ _ _ Hu) as L1.
    pose proof (sumz_nth_le (wz i) (fun p => proj1 (wz_range i p)) _ _ _ Hu) as L2.
    pose proof (sumz_nth_le (cz i) (fun p => proj1 (cz_range i p)) _ _ _ Hu) as L3.
    fold (holders i s) in L1. fold (waiters i s) in L2. fold (cancellers i s) in L3.
    destruct (tpc thu); cbn in Hat; try contradiction; subst; cbn in L1, L2, L3;
      rewrite N.eqb_refl in *; lia.
Qed.

(** * 4. Unlock by a session that does not hold the lock *)
(* nobody is attached to the contract: lock.go:37-39, panic("unlocking unheld lock") *)
Theorem stray_unlock_unheld_panics k s t th i :
  reachable k s -> nth_error (ths s) t = Some th ->
  (forall u thu, nth_error (ths s) u = Some thu -> ~ attached i (tpc thu)) ->
  exists s' th', stray_unlock s t i = Some s' /\ nth_error (ths s') t = Some th' /\ tpc th' = Panicked.
Proof.
  intros Hr Hn Hall. pose proof (reachable_inv _ _ Hr) as HI.
  pose proof (sane_mutex_free _ (inv_sane HI)) as Hmf.
  pose proof (unused_contract_has_no_entry k s i Hr Hall) as Hl.
  unfold stray_unlock, unlock_cs. rewrite Hn, Hmf, Hl.
  eexists; eexists. split; [reflexivity|]. unfold set_th; cbn [ths].
  split; [eapply nth_error_upd_eq; eauto|reflexivity].
Qed.

(* the step relation never produces that panic (nor any other): restated here next to it *)
Theorem no_wrapper_panics k s :
  reachable k s -> forall t th, nth_error (ths s) t = Some th -> tpc th <> Panicked.
Proof.
  intros Hr t th Hn E. pose proof (never_blocked_or_panicked k s Hr t th Hn) as Hok.
  rewrite E in Hok. exact Hok.
Qed.

(* somebody else holds the contract: no panic — the code cannot tell whose hold it gives up.  The
   schedule is the one of a wrapper that would release twice: session 0 holds contract 5, an
   integrity check (1) and a Lock (2) queue up, 0 unlocks, the check runs and releases, 2 is
   admitted; then the check's release is run a second time (stray): the entry of the lock that 2
   holds disappears, and the next Lock (3) takes the fast path — two holders. *)
Theorem second_release_breaks_exclusion :
  exists s s1 s2,
    run (init 4) [ALock 0 5%N false false; ACheck 1 5%N false false true; ALock 2 5%N false false;
                  AUnlock 0; ARecv 1; ABody 1; ADeferUnlock 1; ARecv 2] = Some s
    /\ obs_of s = ([SIdle; SIdle; SHold 5%N; SIdle], [(5%N, 1, 0)])
    /\ stray_unlock s 1 5%N = Some s1
    /\ obs_of s1 = ([SIdle; SIdle; SHold 5%N; SIdle], [])
    /\ step s1 (ALock 3 5%N false false) = Some s2
    /\ obs_of s2 = ([SIdle; SIdle; SHold 5%N; SHold 5%N], [(5%N, 1, 0)]).
Proof.
  eexists; eexists; eexists.
  split; [vm_compute; reflexivity|].
  split; [vm_compute; reflexivity|].
  split; [vm_compute; reflexivity|].
  split; [vm_compute; reflexivity|].
  split; [vm_compute; reflexivity|].
  vm_compute; reflexivity.
Qed.

(** * 5. No leak, for the integrity checks *)
Theorem no_leak_check k s t th i d b v :
  reachable k s -> (forall t th, nth_error (ths s) t = Some th -> tpc th = Idle) ->
  nth_error (ths s) t = Some th ->
  tbl s = [] /\
  exists s' th', step s (ACheck t i d b v) = Some s' /\ nth_error (ths s') t = Some th'
                 /\ tpc th' = (if b then Releasing i else Checking i v).
Proof.
  intros Hr Hall Hn. pose proof (all_idle_table_empty k s Hr Hall) as Ht. split; auto.
  eapply check_immediate_when_no_entry; eauto. rewrite Ht. reflexivity.
Qed.
