(* Lock/Model.v — host/contracts/lock.go (the `locker`, Manager.Lock, Manager.Unlock,
   Manager.LockV2Contract) and host/contracts/integrity.go (Manager.CheckIntegrity,
   Manager.V2CheckIntegrity: the two other users of the contract lock inside the manager) as an
   executable transition system over caller sessions.

   Every user of the lock in host/contracts (non-test) is a wrapper around locker.Lock /
   locker.Unlock and appears here as a path through the pcs of a session:
     locker.Lock / locker.Unlock   ALock .. (Waiting ..) Holding; AUnlock
     Manager.Lock (lock.go:83)     the same, or Releasing + AErrUnlock when the contract check fails
     Manager.LockV2Contract (114)  the same (no context: never cancelled); the returned closure is AUnlock
     Manager.Unlock (108)          AUnlock
     Manager.CheckIntegrity (integrity.go:65), Manager.V2CheckIntegrity (154)
                                   ACheck .. (Waiting ..) then either Releasing + AErrUnlock (the
                                   Manager-level lock call fails and has given the lock back; the check
                                   returns before its defer is registered) or Checking (body) ->
                                   Deferred r (returning r) -> ADeferUnlock (the deferred
                                   cm.Unlock(id) / unlock()), once, on the error returns and on the
                                   normal return alike.
   The goroutine a successful check starts (integrity.go:101 / 190) reads sectors and registers
   alerts; it never touches cm.locks and is not modelled.
   Every release step runs [unlock_cs], the code of locker.Unlock as it is: it looks the id up in
   the table whoever calls it and panics when there is no entry.  That a wrapper only ever runs it
   while it holds the lock is a theorem (Proofs2.v, unlock_only_by_holder), and [stray_unlock]
   below is the same code run by a session that does not hold the lock.

   Granularity: one transition per critical section of the Go code, i.e. per maximal piece of
   code that runs either under `lr.mu` or is a single channel operation / select outcome.
   What lies below that (Go memory model, runtime implementation of channels, select and
   sync.Mutex) is trusted, not modelled.

   A "thread" of the model is one caller session  Lock(id) ... Unlock(id)  (a goroutine that
   holds two contracts at once is two sessions).  Lock objects live in a heap and the table
   maps contract ids to heap addresses, exactly like `map[FileContractID]*lock`: a waiter keeps
   the pointer `l` it read under the mutex and later decrements `l.n` through that pointer
   while `delete(lr.locks, id)` removes whatever the table holds for `id` at that time.  That
   the two always coincide is a theorem (Proofs.v), not a modelling assumption.

   No proofs in this file. *)
From HostdBase Require Import Base.

Definition cid := N.        (* contract id *)
(* address of a *lock object.  Go only guarantees that a fresh object does not alias a live one;
   the model allocates the object of contract i at (i, k) with k the least slot number above
   every slot of i still referenced by the table or by a waiter (k = 0 unless a stale pointer
   exists), overwriting garbage.  Only identity of addresses matters. *)
Definition addr := (cid * nat)%type.
Definition addr_eqb (a b : addr) : bool := ((fst a =? fst b)%N && Nat.eqb (snd a) (snd b))%bool.
Definition addr_leb (a b : addr) : bool :=
  ((fst a <? fst b)%N || ((fst a =? fst b)%N && Nat.leb (snd a) (snd b)))%bool.

(* lock.go:13  type lock struct { ch chan struct{} (cap 1); n int } — ltok = len(ch) *)
Record lockobj := { ln : Z; ltok : Z }.
Definition chan_cap : Z := 1.   (* lock.go:58  make(chan struct{}, 1) *)

(* what the last call of the session returned *)
Inductive ret := RNone | RNil | RCtxErr | RMgrErr.

Inductive pc :=
| Idle
| Waiting (i : cid) (a : addr)     (* lock.go:66-67 done (n++, mu released); in the select *)
| Cancelling (i : cid) (a : addr)  (* select took <-ctx.Done(); before lr.mu.Lock() (l.70) *)
| Holding (i : cid)                (* Lock returned nil *)
| Releasing (i : cid)              (* Manager.Lock / LockV2Contract: locks.Lock returned nil, the
                                      contract lookup / isGoodForModification failed, about to
                                      call cm.locks.Unlock(id) on the error path (l.96,99,128) *)
| Checking (i : cid) (v : bool)    (* CheckIntegrity / V2CheckIntegrity: cm.Lock / LockV2Contract returned
                                      nil, `defer cm.Unlock(id)` / `defer unlock()` is registered
                                      (integrity.go:72,161); the body runs: getSectorRoots, the root
                                      count and Merkle root checks (v: both will pass), then alert
                                      and `go func` *)
| Deferred (i : cid) (r : ret)     (* the check is returning r (integrity.go:78,80,148 / 167,169,237); its
                                      deferred release of the lock is about to run *)
| Blocked (i : cid) (a : addr)     (* Unlock: `l.ch <- struct{}{}` on a full channel, lr.mu held *)
| Panicked.                        (* Unlock: panic("unlocking unheld lock") *)

Record thread := {
  tpc   : pc;
  tdone : bool;   (* the ctx of the pending Lock call is cancelled *)
  tbad  : bool;   (* Manager-level call whose contract check will fail (missing contract,
                     not good for modification); false for a raw locker call *)
  tchk  : option bool;  (* the pending call is CheckIntegrity / V2CheckIntegrity; Some v: the
                           root checks of its body will pass (v) or make it return an error *)
  tret  : ret }.

Record state := {
  ths  : list thread;
  tbl  : list (cid * addr);       (* lr.locks *)
  heap : list (addr * lockobj) }. (* the lock objects, live or garbage *)

(** * Small library: update at an index, table operations *)
Fixpoint upd {A} (l : list A) (n : nat) (x : A) : list A :=
  match l, n with
  | [], _ => []
  | _ :: r, O => x :: r
  | y :: r, S m => y :: upd r m x
  end.

Fixpoint tlookup (i : cid) (l : list (cid * addr)) : option addr :=
  match l with
  | [] => None
  | (j, a) :: r => if (i =? j)%N then Some a else tlookup i r
  end.
Fixpoint tremove (i : cid) (l : list (cid * addr)) : list (cid * addr) :=
  match l with
  | [] => []
  | (j, a) :: r => if (i =? j)%N then tremove i r else (j, a) :: tremove i r
  end.
(* both association lists are kept in key order so that equal maps are equal lists (the order of
   a Go map is not observable) *)
Fixpoint tinsert (i : cid) (a : addr) (l : list (cid * addr)) : list (cid * addr) :=
  match l with
  | [] => [(i, a)]
  | (j, b) :: r => if (i <=? j)%N then (i, a) :: l else (j, b) :: tinsert i a r
  end.
Definition tset (i : cid) (a : addr) (l : list (cid * addr)) := tinsert i a (tremove i l).

Fixpoint hget (a : addr) (h : list (addr * lockobj)) : option lockobj :=
  match h with
  | [] => None
  | (b, o) :: r => if addr_eqb a b then Some o else hget a r
  end.
Fixpoint hset (a : addr) (o : lockobj) (h : list (addr * lockobj)) : list (addr * lockobj) :=
  match h with
  | [] => [(a, o)]
  | (b, p) :: r =>
      if addr_eqb a b then (a, o) :: r
      else if addr_leb a b then (a, o) :: h
      else (b, p) :: hset a o r
  end.

(** * Thread helpers *)
Definition with_pc (th : thread) (p : pc) : thread :=
  {| tpc := p; tdone := tdone th; tbad := tbad th; tchk := tchk th; tret := tret th |}.
(* the flags only matter while the call is waiting; they are cleared when it ends *)
Definition mk_idle (th : thread) (r : ret) : thread :=
  {| tpc := Idle; tdone := false; tbad := false; tchk := None; tret := r |}.
(* locks.Lock returned nil: a raw call / a Manager call on a good contract now holds the lock
   and returns; a Manager call on a bad contract goes to its error path (also when it was made
   by an integrity check, which then returns the error without having deferred anything); an
   integrity check on a good contract registers its deferred release and runs its body *)
Definition acquired (th : thread) (i : cid) : thread :=
  if tbad th then {| tpc := Releasing i; tdone := false; tbad := false; tchk := None; tret := tret th |}
  else match tchk th with
       | None => {| tpc := Holding i; tdone := false; tbad := false; tchk := None; tret := RNil |}
       | Some v => {| tpc := Checking i v; tdone := false; tbad := false; tchk := None; tret := tret th |}
       end.

Definition is_blocked (p : pc) : bool := match p with Blocked _ _ => true | _ => false end.
(* lr.mu is free unless some Unlock is stuck in its send while holding it *)
Definition mutex_free (s : state) : bool := forallb (fun th => negb (is_blocked (tpc th))) (ths s).

Definition set_th (s : state) (t : nat) (th : thread) : state :=
  {| ths := upd (ths s) t th; tbl := tbl s; heap := heap s |}.

(** * Actions.  External ones are calls made by clients of the locker (and the environment
   cancelling a context); internal ones are the remaining critical sections of a call in
   progress, taken by the Go scheduler on its own. *)
Inductive action :=
| ALock (t : nat) (i : cid) (done bad : bool)  (* call Lock / Manager.Lock / LockV2Contract *)
| ACheck (t : nat) (i : cid) (done bad ok : bool) (* call CheckIntegrity / V2CheckIntegrity *)
| ALockRefused (t : nat)                       (* Manager call refused by the closed thread group *)
| ACtxDone (t : nat)                           (* the waiter's context ends *)
| AUnlock (t : nat)                            (* the holder calls Unlock *)
| ARecv (t : nat)                              (* select: case <-l.ch *)
| ACancelChosen (t : nat)                      (* select: case <-ctx.Done() *)
| ACancelCommit (t : nat)                      (* l.70-75 *)
| AErrUnlock (t : nat)                         (* Manager error path: cm.locks.Unlock(id) *)
| ABody (t : nat)                              (* integrity check: the body up to its return statement *)
| ADeferUnlock (t : nat)                       (* integrity check: the deferred cm.Unlock(id) / unlock() *)
| ASendDone (t : nat).                         (* a blocked send completes *)

Definition act_tid (a : action) : nat :=
  match a with
  | ALock t _ _ _ | ACheck t _ _ _ _ | ALockRefused t | ACtxDone t | AUnlock t | ARecv t | ACancelChosen t
  | ACancelCommit t | AErrUnlock t | ABody t | ADeferUnlock t | ASendDone t => t
  end.

Definition internal (a : action) : bool :=
  match a with
  | ARecv _ | ACancelChosen _ | ACancelCommit _ | AErrUnlock _ | ABody _ | ADeferUnlock _
  | ASendDone _ => true
  | _ => false
  end.

(* slot for a new lock object of contract i: above every slot of i still referenced *)
Definition pc_slot (i : cid) (p : pc) : nat :=
  match p with
  | Waiting _ (j, k) | Cancelling _ (j, k) | Blocked _ (j, k) => if (i =? j)%N then S k else O
  | _ => O
  end.
Definition fresh_slot (i : cid) (s : state) : nat :=
  fold_left (fun m th => Nat.max m (pc_slot i (tpc th))) (ths s)
    (fold_left (fun m e => let '(_, (j, k)) := e in if (i =? j)%N then Nat.max m (S k) else m) (tbl s) O).

(* lock.go:33-46, the body of Unlock under lr.mu; [r] is what the enclosing call returns *)
Definition unlock_cs (s : state) (t : nat) (th : thread) (i : cid) (r : ret) : option state :=
  match tlookup i (tbl s) with
  | None => Some (set_th s t (with_pc th Panicked))               (* l.37-39 *)
  | Some a =>
      match hget a (heap s) with
      | None => Some (set_th s t (with_pc th Panicked))           (* no such Go state: pointers are valid *)
      | Some o =>
          let n' := (ln o - 1)%Z in                                (* l.40 *)
          if (n' =? 0)%Z then                                      (* l.41-42 *)
            Some {| ths := upd (ths s) t (mk_idle th r);
                    tbl := tremove i (tbl s);
                    heap := hset a {| ln := n'; ltok := ltok o |} (heap s) |}
          else if (ltok o <? chan_cap)%Z then                      (* l.44, buffer has room *)
            Some {| ths := upd (ths s) t (mk_idle th r);
                    tbl := tbl s;
                    heap := hset a {| ln := n'; ltok := (ltok o + 1)%Z |} (heap s) |}
          else                                                     (* l.44, buffer full: blocks with lr.mu held *)
            Some {| ths := upd (ths s) t {| tpc := Blocked i a; tdone := false; tbad := false; tchk := None; tret := r |};
                    tbl := tbl s;
                    heap := hset a {| ln := n'; ltok := ltok o |} (heap s) |}
      end
  end.

(* lock.go:51-66, the part of Lock under lr.mu, for a call described by [th0] (pc Idle, the
   flags of the call) *)
Definition lock_call (s : state) (t : nat) (th0 : thread) (i : cid) : option state :=
  if mutex_free s then
    match tlookup i (tbl s) with
    | None =>                                          (* l.53-63: fast path; ctx is not consulted *)
        let a := (i, fresh_slot i s) in
        Some {| ths := upd (ths s) t (acquired th0 i);
                tbl := tset i a (tbl s);
                heap := hset a {| ln := 1; ltok := 0 |} (heap s) |}
    | Some a =>                                        (* l.65-66: enqueue *)
        match hget a (heap s) with
        | None => Some (set_th s t (with_pc th0 Panicked))
        | Some o =>
            Some {| ths := upd (ths s) t (with_pc th0 (Waiting i a));
                    tbl := tbl s;
                    heap := hset a {| ln := (ln o + 1)%Z; ltok := ltok o |} (heap s) |}
        end
    end
  else None.

Definition step (s : state) (a : action) : option state :=
  match a with
  | ALock t i d b =>
      match nth_error (ths s) t with
      | Some th =>
          match tpc th with
          | Idle => lock_call s t {| tpc := Idle; tdone := d; tbad := b; tchk := None; tret := RNone |} i
          | _ => None
          end
      | None => None
      end
  | ACheck t i d b v =>                                            (* integrity.go:68 / 157 *)
      match nth_error (ths s) t with
      | Some th =>
          match tpc th with
          | Idle => lock_call s t {| tpc := Idle; tdone := d; tbad := b; tchk := Some v; tret := RNone |} i
          | _ => None
          end
      | None => None
      end
  | ALockRefused t =>                                              (* l.84-87 / l.115-118 *)
      match nth_error (ths s) t with
      | Some th => match tpc th with
                   | Idle => Some (set_th s t {| tpc := Idle; tdone := false; tbad := false; tchk := None; tret := RMgrErr |})
                   | _ => None
                   end
      | None => None
      end
  | ACtxDone t =>
      match nth_error (ths s) t with
      | Some th => match tpc th with
                   | Waiting _ _ => Some (set_th s t {| tpc := tpc th; tdone := true; tbad := tbad th; tchk := tchk th; tret := tret th |})
                   | _ => Some s     (* the call already returned (or is past its select): no effect *)
                   end
      | None => None
      end
  | ARecv t =>                                                     (* l.76-77; no mutex involved *)
      match nth_error (ths s) t with
      | Some th =>
          match tpc th with
          | Waiting i a =>
              match hget a (heap s) with
              | Some o =>
                  if (0 <? ltok o)%Z then
                    Some {| ths := upd (ths s) t (acquired th i);
                            tbl := tbl s;
                            heap := hset a {| ln := ln o; ltok := (ltok o - 1)%Z |} (heap s) |}
                  else None
              | None => None
              end
          | _ => None
          end
      | None => None
      end
  | ACancelChosen t =>                                             (* l.68-69; no mutex involved *)
      match nth_error (ths s) t with
      | Some th =>
          match tpc th with
          | Waiting i a => if tdone th then Some (set_th s t (with_pc th (Cancelling i a))) else None
          | _ => None
          end
      | None => None
      end
  | ACancelCommit t =>                                             (* l.70-75 *)
      match nth_error (ths s) t with
      | Some th =>
          match tpc th with
          | Cancelling i a =>
              if mutex_free s then
                match hget a (heap s) with
                | None => Some (set_th s t (with_pc th Panicked))
                | Some o =>
                    let n' := (ln o - 1)%Z in
                    Some {| ths := upd (ths s) t (mk_idle th RCtxErr);
                            tbl := if (n' =? 0)%Z then tremove i (tbl s) else tbl s;
                            heap := hset a {| ln := n'; ltok := ltok o |} (heap s) |}
                end
              else None
          | _ => None
          end
      | None => None
      end
  | AUnlock t =>
      match nth_error (ths s) t with
      | Some th =>
          match tpc th with
          | Holding i => if mutex_free s then unlock_cs s t th i RNone else None
          | _ => None
          end
      | None => None
      end
  | AErrUnlock t =>
      match nth_error (ths s) t with
      | Some th =>
          match tpc th with
          | Releasing i => if mutex_free s then unlock_cs s t th i RMgrErr else None
          | _ => None
          end
      | None => None
      end
  | ABody t =>                                                     (* integrity.go:74-148 / 163-237; no lock operation *)
      match nth_error (ths s) t with
      | Some th =>
          match tpc th with
          | Checking i v => Some (set_th s t (with_pc th (Deferred i (if v then RNil else RMgrErr))))
          | _ => None
          end
      | None => None
      end
  | ADeferUnlock t =>                                              (* integrity.go:72 / 161, run at return *)
      match nth_error (ths s) t with
      | Some th =>
          match tpc th with
          | Deferred i r => if mutex_free s then unlock_cs s t th i r else None
          | _ => None
          end
      | None => None
      end
  | ASendDone t =>
      match nth_error (ths s) t with
      | Some th =>
          match tpc th with
          | Blocked i a =>
              match hget a (heap s) with
              | Some o =>
                  if (ltok o <? chan_cap)%Z then
                    Some {| ths := upd (ths s) t (mk_idle th (tret th));
                            tbl := tbl s;
                            heap := hset a {| ln := ln o; ltok := (ltok o + 1)%Z |} (heap s) |}
                  else None
              | None => None
              end
          | _ => None
          end
      | None => None
      end
  end.

(* Unlock(i) called by session t whatever it is doing (a caller that does not hold i: developer
   error, e.g. a second release of the same hold).  Not a step of the system: no code in
   host/contracts does it (Proofs2.v); this is what lock.go:33-46 would do. *)
Definition stray_unlock (s : state) (t : nat) (i : cid) : option state :=
  match nth_error (ths s) t with
  | Some th => if mutex_free s then unlock_cs s t th i (tret th) else None
  | None => None
  end.

Definition idle_thread : thread := {| tpc := Idle; tdone := false; tbad := false; tchk := None; tret := RNone |}.
Definition init (k : nat) : state := {| ths := repeat idle_thread k; tbl := []; heap := [] |}.

(* runs of the transition system *)
Fixpoint run (s : state) (l : list action) : option state :=
  match l with
  | [] => Some s
  | a :: r => match step s a with Some s' => run s' r | None => None end
  end.

(** * Exploration used by the correspondence check.

   The harness performs a set of external actions concurrently (one for a plain call, two for
   a racing pair), waits until the real locker is quiescent and records what it sees.  The
   model computes every quiescent state that some interleaving of those external actions
   (each exactly once) with any number of internal steps can end in. *)
Definition internal_actions (t : nat) : list action :=
  [ARecv t; ACancelChosen t; ACancelCommit t; AErrUnlock t; ABody t; ADeferUnlock t; ASendDone t].

Definition enabled_internal (s : state) : list state :=
  flat_map (fun t => flat_map (fun a => match step s a with Some s' => [s'] | None => [] end)
                              (internal_actions t))
           (seq 0 (length (ths s))).

Definition quiescent (s : state) : bool := match enabled_internal s with [] => true | _ => false end.

(* all ways of taking one element out of a list *)
Fixpoint picks {A} (l : list A) : list (A * list A) :=
  match l with
  | [] => []
  | x :: r => (x, r) :: map (fun '(y, r') => (y, x :: r')) (picks r)
  end.

(* breadth-first, level by level, merging equal nodes: a node is a state together with the
   external actions not yet performed; a node without enabled internal step and without pending
   action is terminal (quiescent) and contributes its state *)
Definition node := (state * list action)%type.

Definition expand_node (nd : node) : list node :=
  let '(s, pend) := nd in
  map (fun s' => (s', pend)) (enabled_internal s) ++
  flat_map (fun '(a, rest) => match step s a with Some s' => [(s', rest)] | None => [] end)
           (picks pend).

Definition terminal (nd : node) : bool :=
  match enabled_internal (fst nd), snd nd with
  | [], [] => true
  | _, _ => false
  end.

(** * Observations *)
Inductive tstat := SIdle | SCtxErr | SMgrErr | SHold (i : cid) | SWait (i : cid) | STransient | SBlocked | SPanicked.

Definition stat_of (th : thread) : tstat :=
  match tpc th with
  | Idle => match tret th with RCtxErr => SCtxErr | RMgrErr => SMgrErr | _ => SIdle end
  | Holding i => SHold i
  | Waiting i _ => SWait i
  | Cancelling _ _ | Releasing _ | Checking _ _ | Deferred _ _ => STransient
  | Blocked _ _ => SBlocked
  | Panicked => SPanicked
  end.

Fixpoint insert_row (r : cid * Z * Z) (l : list (cid * Z * Z)) : list (cid * Z * Z) :=
  match l with
  | [] => [r]
  | x :: t => if (fst (fst r) <=? fst (fst x))%N then r :: l else x :: insert_row r t
  end.

(* the lock table as the harness reads it under lr.mu: (id, n, len(ch)) sorted by id *)
Definition table_of (s : state) : list (cid * Z * Z) :=
  fold_right (fun '(i, a) acc =>
                match hget a (heap s) with
                | Some o => insert_row (i, ln o, ltok o) acc
                | None => insert_row (i, (-1)%Z, (-1)%Z) acc
                end) [] (tbl s).

Definition obs := (list tstat * list (cid * Z * Z))%type.
Definition obs_of (s : state) : obs := (map stat_of (ths s), table_of s).

Definition tstat_eqb (a b : tstat) : bool :=
  match a, b with
  | SIdle, SIdle | SCtxErr, SCtxErr | SMgrErr, SMgrErr | STransient, STransient
  | SBlocked, SBlocked | SPanicked, SPanicked => true
  | SHold i, SHold j | SWait i, SWait j => (i =? j)%N
  | _, _ => false
  end.
Definition row_eqb (a b : cid * Z * Z) : bool :=
  let '(i, n, k) := a in let '(j, m, l) := b in ((i =? j)%N && (n =? m)%Z && (k =? l)%Z)%bool.
Definition obs_eqb (a b : obs) : bool :=
  list_eqb tstat_eqb (fst a) (fst b) && list_eqb row_eqb (snd a) (snd b).

(* structural equality of states, to keep the candidate set small *)
Definition ret_eqb (a b : ret) : bool :=
  match a, b with
  | RNone, RNone | RNil, RNil | RCtxErr, RCtxErr | RMgrErr, RMgrErr => true
  | _, _ => false
  end.
Definition pc_eqb (p q : pc) : bool :=
  match p, q with
  | Idle, Idle | Panicked, Panicked => true
  | Waiting i a, Waiting j b | Cancelling i a, Cancelling j b | Blocked i a, Blocked j b =>
      ((i =? j)%N && addr_eqb a b)%bool
  | Holding i, Holding j | Releasing i, Releasing j => (i =? j)%N
  | Checking i v, Checking j w => ((i =? j)%N && Bool.eqb v w)%bool
  | Deferred i r, Deferred j q =>
      ((i =? j)%N && ret_eqb r q)%bool
  | _, _ => false
  end.
Definition thread_eqb (a b : thread) : bool :=
  pc_eqb (tpc a) (tpc b) && Bool.eqb (tdone a) (tdone b) && Bool.eqb (tbad a) (tbad b)
  && match tchk a, tchk b with
     | None, None => true
     | Some v, Some w => Bool.eqb v w
     | _, _ => false
     end
  && ret_eqb (tret a) (tret b).
Definition state_eqb (a b : state) : bool :=
  list_eqb thread_eqb (ths a) (ths b)
  && list_eqb (fun x y => ((fst x =? fst y)%N && addr_eqb (snd x) (snd y))%bool) (tbl a) (tbl b)
  && list_eqb (fun x y => (addr_eqb (fst x) (fst y) && (ln (snd x) =? ln (snd y))%Z && (ltok (snd x) =? ltok (snd y))%Z)%bool) (heap a) (heap b).

Fixpoint dedup (l : list state) : list state :=
  match l with
  | [] => []
  | x :: r => if existsb (state_eqb x) r then dedup r else x :: dedup r
  end.

Definition action_eqb (a b : action) : bool :=
  match a, b with
  | ALock t i d x, ALock u j e y => (Nat.eqb t u && (i =? j)%N && Bool.eqb d e && Bool.eqb x y)%bool
  | ACheck t i d x v, ACheck u j e y w =>
      (Nat.eqb t u && (i =? j)%N && Bool.eqb d e && Bool.eqb x y && Bool.eqb v w)%bool
  | ALockRefused t, ALockRefused u | ACtxDone t, ACtxDone u | AUnlock t, AUnlock u
  | ARecv t, ARecv u | ACancelChosen t, ACancelChosen u | ACancelCommit t, ACancelCommit u
  | AErrUnlock t, AErrUnlock u | ABody t, ABody u | ADeferUnlock t, ADeferUnlock u
  | ASendDone t, ASendDone u => Nat.eqb t u
  | _, _ => false
  end.
Definition node_eqb (a b : node) : bool :=
  state_eqb (fst a) (fst b) && list_eqb action_eqb (snd a) (snd b).

Fixpoint dedupn (l : list node) : list node :=
  match l with
  | [] => []
  | x :: r => if existsb (node_eqb x) r then dedupn r else x :: dedupn r
  end.

Fixpoint bfs (fuel : nat) (front : list node) : list state :=
  match fuel with
  | O => []
  | S f =>
      match front with
      | [] => []
      | _ => map fst (filter terminal front) ++ bfs f (dedupn (flat_map expand_node front))
      end
  end.

Definition explore (fuel : nat) (s : state) (pend : list action) : list state := bfs fuel [(s, pend)].

(** * Correspondence entry point (trace inclusion).
   A recorded case is a list of (operation, observation at quiescence).  The checker keeps the
   set of model states compatible with everything observed so far; a step fails when no
   quiescent successor of any of them shows the recorded observation. *)
Inductive op :=
| Init (k : nat)              (* fresh locker, k caller sessions *)
| Par (acts : list action).   (* external actions performed concurrently, then quiescence *)

Definition external_only (acts : list action) : bool := forallb (fun a => negb (internal a)) acts.

Definition fuel_for (s : state) (acts : list action) : nat := 6 * (length (ths s) + length acts) + 6.

Definition successors (cand : list state) (o : op) : list state :=
  match o with
  | Init k => [init k]
  | Par acts =>
      if external_only acts
      then dedup (flat_map (fun s => explore (fuel_for s acts) s acts) cand)
      else []
  end.

Fixpoint run_case (cand : list state) (idx : nat) (l : list (op * obs)) : option (nat * list obs) :=
  match l with
  | [] => None
  | (o, seen) :: rest =>
      let succ := successors cand o in
      match filter (fun s => obs_eqb (obs_of s) seen) succ with
      | [] => Some (idx, map obs_of succ)     (* what the model allows at this point *)
      | ok => run_case ok (S idx) rest
      end
  end.

Definition case := (N * list (op * obs))%type.

(* (case id, index of the first observation the model cannot produce, what it allows there) *)
Fixpoint check (cs : list case) : list (N * nat * list obs) :=
  match cs with
  | [] => []
  | (id, l) :: t =>
      match run_case [init 0] 0 l with
      | None => check t
      | Some (i, allowed) => (id, i, allowed) :: check t
      end
  end.
