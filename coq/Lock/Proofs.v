(* Lock/Proofs.v — the invariant of the locker and its preservation by every step.

   Counter abstraction: for a contract id i the state is abstracted to
     holders i s, waiters i s, cancellers i s  (numbers of sessions at each pc, as Z)
   and the invariant relates them to the table entry by linear arithmetic (closed by lia).
   The thread-indexed model is never left: the counters are functions of the thread list and
   [sumz_upd] is the simulation step (changing one thread changes each counter by the
   difference of that thread's contributions). *)
From HostdBase Require Import Base.
From HostdLock Require Import Model.
From Coq Require Import Lia ZifyBool ZifyN ZifyNat.
Local Open Scope Z_scope.

(** * Lists: update at an index *)
Lemma length_upd {A} (l : list A) n x : length (upd l n x) = length l.
Proof. revert n; induction l; destruct n; cbn; auto. Qed.

Lemma nth_error_upd_eq {A} (l : list A) n x y :
  nth_error l n = Some y -> nth_error (upd l n x) n = Some x.
Proof. revert n; induction l; destruct n; cbn; intros; try discriminate; auto. Qed.

Lemma nth_error_upd_neq {A} (l : list A) n m x :
  n <> m -> nth_error (upd l n x) m = nth_error l m.
Proof.
  revert n m; induction l; destruct n, m; cbn; intros; auto; try congruence.
Qed.

Lemma nth_upd_cases {A} (l : list A) t x m y :
  nth_error (upd l t x) m = Some y ->
  (m = t /\ y = x) \/ (m <> t /\ nth_error l m = Some y).
Proof.
  intros Hn. destruct (Nat.eq_dec m t) as [->|Hne].
  - left. split; auto.
    destruct (nth_error l t) eqn:E.
    + rewrite (nth_error_upd_eq _ _ x _ E) in Hn. congruence.
    + exfalso. apply nth_error_None in E.
      assert (Hl : nth_error (upd l t x) t = None) by (apply nth_error_None; rewrite length_upd; auto).
      congruence.
  - right. split; auto. rewrite nth_error_upd_neq in Hn; auto.
Qed.

Lemma upd_same {A} (l : list A) n x : nth_error l n = Some x -> upd l n x = l.
Proof. revert n; induction l; destruct n; cbn; intros; try discriminate; f_equal; auto; congruence. Qed.

(** * The lock table *)
Lemma tlookup_tremove_eq i l : tlookup i (tremove i l) = None.
Proof.
  induction l as [|[j a] l IH]; cbn; auto.
  destruct (N.eqb_spec i j); cbn; auto. destruct (N.eqb_spec i j); congruence.
Qed.

Lemma tlookup_tremove_neq i j l : i <> j -> tlookup i (tremove j l) = tlookup i l.
Proof.
  intros Hne. induction l as [|[k a] l IH]; cbn; auto.
  destruct (N.eqb_spec j k); cbn.
  - subst. destruct (N.eqb_spec i k); try congruence; auto.
  - destruct (N.eqb_spec i k); auto.
Qed.

Lemma tlookup_tinsert_eq i a l : tlookup i (tinsert i a l) = Some a.
Proof.
  induction l as [|[j b] l IH]; cbn.
  - rewrite N.eqb_refl. auto.
  - destruct (N.leb_spec i j); cbn.
    + rewrite N.eqb_refl. auto.
    + destruct (N.eqb_spec i j); [lia|auto].
Qed.

Lemma tlookup_tinsert_neq i j a l : i <> j -> tlookup i (tinsert j a l) = tlookup i l.
Proof.
  intros Hne. induction l as [|[k b] l IH]; cbn.
  - destruct (N.eqb_spec i j); congruence.
  - destruct (N.leb_spec j k); cbn.
    + destruct (N.eqb_spec i j); congruence.
    + destruct (N.eqb_spec i k); auto.
Qed.

Lemma tlookup_tset_eq i a l : tlookup i (tset i a l) = Some a.
Proof. apply tlookup_tinsert_eq. Qed.

Lemma tlookup_tset_neq i j a l : i <> j -> tlookup i (tset j a l) = tlookup i l.
Proof.
  intros. unfold tset. rewrite tlookup_tinsert_neq by auto. apply tlookup_tremove_neq; auto.
Qed.

(** * The heap *)
Lemma addr_eqb_spec a b : reflect (a = b) (addr_eqb a b).
Proof.
  destruct a as [i k], b as [j m]. unfold addr_eqb; cbn.
  destruct (N.eqb_spec i j); cbn; [|constructor; congruence].
  destruct (Nat.eqb_spec k m); constructor; congruence.
Qed.

Lemma hget_hset_eq a o h : hget a (hset a o h) = Some o.
Proof.
  induction h as [|[b p] h IH]; cbn.
  - destruct (addr_eqb_spec a a); congruence.
  - destruct (addr_eqb_spec a b); cbn.
    + destruct (addr_eqb_spec a a); congruence.
    + destruct (addr_leb a b); cbn.
      * destruct (addr_eqb_spec a a); congruence.
      * destruct (addr_eqb_spec a b); congruence.
Qed.

Lemma hget_hset_neq a a' o h : a' <> a -> hget a' (hset a o h) = hget a' h.
Proof.
  intros Hne. induction h as [|[b p] h IH]; cbn.
  - destruct (addr_eqb_spec a' a); congruence.
  - destruct (addr_eqb_spec a b); cbn.
    + subst. destruct (addr_eqb_spec a' b); congruence.
    + destruct (addr_leb a b); cbn.
      * destruct (addr_eqb_spec a' a); congruence.
      * destruct (addr_eqb_spec a' b); auto.
Qed.

Lemma tlookup_all_none l : (forall i, tlookup i l = None) -> l = [].
Proof.
  destruct l as [|[j a] l]; auto. intros Hn. specialize (Hn j). cbn in Hn.
  rewrite N.eqb_refl in Hn. discriminate.
Qed.

(** * Counters *)
Definition hz (i : cid) (p : pc) : Z :=
  match p with
  | Holding j | Releasing j | Checking j _ | Deferred j _ => if (i =? j)%N then 1 else 0
  | _ => 0
  end.
Definition wz (i : cid) (p : pc) : Z :=
  match p with Waiting j _ => if (i =? j)%N then 1 else 0 | _ => 0 end.
Definition cz (i : cid) (p : pc) : Z :=
  match p with Cancelling j _ => if (i =? j)%N then 1 else 0 | _ => 0 end.

Fixpoint sumz (f : pc -> Z) (l : list thread) : Z :=
  match l with [] => 0 | x :: r => f (tpc x) + sumz f r end.

Definition holders (i : cid) (s : state) : Z := sumz (hz i) (ths s).
Definition waiters (i : cid) (s : state) : Z := sumz (wz i) (ths s).
Definition cancellers (i : cid) (s : state) : Z := sumz (cz i) (ths s).

Lemma hz_range i p : 0 <= hz i p <= 1.
Proof. destruct p; cbn; try lia; destruct (i =? _)%N; lia. Qed.
Lemma wz_range i p : 0 <= wz i p <= 1.
Proof. destruct p; cbn; try lia; destruct (i =? _)%N; lia. Qed.
Lemma cz_range i p : 0 <= cz i p <= 1.
Proof. destruct p; cbn; try lia; destruct (i =? _)%N; lia. Qed.

Section Sumz.
  Variable f : pc -> Z.
  Hypothesis f_nonneg : forall p, 0 <= f p.

  Lemma sumz_nonneg l : 0 <= sumz f l.
  Proof. induction l; cbn; try lia. specialize (f_nonneg (tpc a)). lia. Qed.

  Lemma sumz_upd l n x y :
    nth_error l n = Some y -> sumz f (upd l n x) = sumz f l - f (tpc y) + f (tpc x).
  Proof.
    revert n; induction l as [|z l IH]; destruct n; cbn; intros Hn; try discriminate.
    - inversion Hn; subst. lia.
    - rewrite (IH _ Hn). lia.
  Qed.

  Lemma sumz_nth_le l n y : nth_error l n = Some y -> f (tpc y) <= sumz f l.
  Proof.
    revert n; induction l as [|z l IH]; destruct n; cbn; intros Hn; try discriminate.
    - inversion Hn; subst. pose proof (sumz_nonneg l). lia.
    - specialize (IH _ Hn). specialize (f_nonneg (tpc z)). lia.
  Qed.

  Lemma sumz_two l n m x y :
    n <> m -> nth_error l n = Some x -> nth_error l m = Some y ->
    f (tpc x) + f (tpc y) <= sumz f l.
  Proof.
    revert n m; induction l as [|z l IH]; destruct n, m; cbn; intros Hne Hn Hm; try discriminate; try congruence.
    - inversion Hn; subst. pose proof (sumz_nth_le l _ _ Hm). lia.
    - inversion Hm; subst. pose proof (sumz_nth_le l _ _ Hn). lia.
    - assert (n <> m) by congruence. specialize (IH _ _ H Hn Hm). specialize (f_nonneg (tpc z)). lia.
  Qed.

  Lemma sumz_zero_all l :
    (forall n y, nth_error l n = Some y -> f (tpc y) = 0) -> sumz f l = 0.
  Proof.
    induction l as [|z l IH]; cbn; intros Hall; auto.
    rewrite (Hall 0%nat z eq_refl). rewrite IH; auto. intros n y Hn. apply (Hall (S n)); auto.
  Qed.

  Lemma sumz_zero_nth l n y : sumz f l = 0 -> nth_error l n = Some y -> f (tpc y) = 0.
  Proof. intros Hz Hn. pose proof (sumz_nth_le l _ _ Hn). specialize (f_nonneg (tpc y)). lia. Qed.
End Sumz.

Lemma sumz_app f l r : sumz f (l ++ r) = sumz f l + sumz f r.
Proof. induction l; cbn; lia. Qed.

Lemma sumz_repeat_idle f k : f Idle = 0 -> sumz f (repeat idle_thread k) = 0.
Proof. intros Hf. induction k; cbn; auto. rewrite Hf. lia. Qed.

(* the counters are plain counts of sessions *)
Lemma sumz_filter (b : pc -> bool) l :
  sumz (fun p => if b p then 1 else 0) l = Z.of_nat (length (filter (fun th => b (tpc th)) l)).
Proof. induction l as [|x l IH]; cbn; auto. destruct (b (tpc x)); cbn [length]; lia. Qed.

(** * The invariant *)
Definition entry_inv (s : state) (i : cid) : Prop :=
  match tlookup i (tbl s) with
  | Some a => exists o, hget a (heap s) = Some o
                        /\ ln o = holders i s + waiters i s + cancellers i s
                        /\ ltok o + holders i s = 1
                        /\ 0 <= ltok o
                        /\ 1 <= ln o
  | None => holders i s + waiters i s + cancellers i s = 0
  end.

(* a waiter's captured pointer is the table's current entry *)
Definition ptr_inv (s : state) : Prop :=
  forall t th i a, nth_error (ths s) t = Some th ->
    tpc th = Waiting i a \/ tpc th = Cancelling i a -> tlookup i (tbl s) = Some a.

(* the object of contract i lives in i's own address range *)
Definition inj_inv (s : state) : Prop :=
  forall i a, tlookup i (tbl s) = Some a -> fst a = i.

Definition ok_pc (p : pc) : Prop := match p with Blocked _ _ | Panicked => False | _ => True end.
Definition sane_inv (s : state) : Prop :=
  forall t th, nth_error (ths s) t = Some th -> ok_pc (tpc th).

Record Inv (s : state) : Prop := {
  inv_entry : forall i, entry_inv s i;
  inv_ptr : ptr_inv s;
  inv_inj : inj_inv s;
  inv_sane : sane_inv s }.
Arguments inv_entry {s}.
Arguments inv_ptr {s}.
Arguments inv_inj {s}.
Arguments inv_sane {s}.

Lemma holders_nonneg i s : 0 <= holders i s.
Proof. apply sumz_nonneg. intro; apply hz_range. Qed.
Lemma waiters_nonneg i s : 0 <= waiters i s.
Proof. apply sumz_nonneg. intro; apply wz_range. Qed.
Lemma cancellers_nonneg i s : 0 <= cancellers i s.
Proof. apply sumz_nonneg. intro; apply cz_range. Qed.

Lemma sane_mutex_free s : sane_inv s -> mutex_free s = true.
Proof.
  intros Hs. unfold mutex_free. apply forallb_forall. intros th Hin.
  apply In_nth_error in Hin. destruct Hin as [t Ht]. specialize (Hs _ _ Ht).
  destruct (tpc th); cbn in *; auto; contradiction.
Qed.

(* which contract a pc is about *)
Definition on_id (i0 : cid) (p : pc) : Prop :=
  match p with
  | Idle | Panicked => True
  | Waiting j _ | Cancelling j _ | Holding j | Releasing j | Checking j _ | Deferred j _
  | Blocked j _ => j = i0
  end.

Lemma on_id_other i0 p i : on_id i0 p -> i <> i0 -> hz i p = 0 /\ wz i p = 0 /\ cz i p = 0.
Proof.
  intros Ho Hne. destruct p; cbn in *; subst; repeat split; auto;
    destruct (N.eqb_spec i i0); congruence.
Qed.

Lemma entry_frame s s' i :
  tlookup i (tbl s') = tlookup i (tbl s) ->
  (forall a, tlookup i (tbl s) = Some a -> hget a (heap s') = hget a (heap s)) ->
  holders i s' = holders i s -> waiters i s' = waiters i s -> cancellers i s' = cancellers i s ->
  entry_inv s i -> entry_inv s' i.
Proof.
  unfold entry_inv. intros Ht Hh E1 E2 E3. rewrite Ht, E1, E2, E3.
  destruct (tlookup i (tbl s)) as [a|]; auto.
  intros (o & Ho & R). exists o. rewrite Hh; auto.
Qed.

Lemma counters_upd s s' t th th' i :
  nth_error (ths s) t = Some th ->
  ths s' = upd (ths s) t th' ->
  holders i s' = holders i s - hz i (tpc th) + hz i (tpc th') /\
  waiters i s' = waiters i s - wz i (tpc th) + wz i (tpc th') /\
  cancellers i s' = cancellers i s - cz i (tpc th) + cz i (tpc th').
Proof.
  intros Hn Hs'. unfold holders, waiters, cancellers. rewrite Hs'.
  rewrite !(sumz_upd _ _ _ th' _ Hn). auto.
Qed.

(** ** A thread changes without changing its pc (ctx cancelled, refused call) *)
Lemma inv_same_pc s t th th' :
  Inv s -> nth_error (ths s) t = Some th -> tpc th' = tpc th -> Inv (set_th s t th').
Proof.
  intros [He Hp Hi Hs] Hn Hpc. unfold set_th.
  split.
  - intro i. destruct (counters_upd s {| ths := upd (ths s) t th'; tbl := tbl s; heap := heap s |} t th th' i Hn eq_refl) as (E1 & E2 & E3).
    rewrite Hpc in *. eapply entry_frame; [..|apply He]; cbn [tbl heap]; auto; lia.
  - intros m y i a Hm Hy. cbn in *. apply nth_upd_cases in Hm. destruct Hm as [[-> ->]|[_ Hm]].
    + rewrite Hpc in Hy. eapply Hp; eauto.
    + eapply Hp; eauto.
  - exact Hi.
  - intros m y Hm. cbn in *. apply nth_upd_cases in Hm. destruct Hm as [[-> ->]|[_ Hm]].
    + rewrite Hpc. eapply Hs; eauto.
    + eapply Hs; eauto.
Qed.

(** ** The generic update: one session moves between pcs of contract i0, the entry of i0
    is rewritten (and possibly removed from the table) *)
Lemma inv_update_gen s t th th' i0 a o' hp' (rm : bool) :
  Inv s ->
  nth_error (ths s) t = Some th ->
  tlookup i0 (tbl s) = Some a ->
  hget a hp' = Some o' ->
  (forall a', a' <> a -> hget a' hp' = hget a' (heap s)) ->
  on_id i0 (tpc th) -> on_id i0 (tpc th') -> ok_pc (tpc th') ->
  (forall i a', tpc th' = Waiting i a' \/ tpc th' = Cancelling i a' -> a' = a /\ rm = false) ->
  (let h := holders i0 s - hz i0 (tpc th) + hz i0 (tpc th') in
   let w := waiters i0 s - wz i0 (tpc th) + wz i0 (tpc th') in
   let c := cancellers i0 s - cz i0 (tpc th) + cz i0 (tpc th') in
   if rm then h + w + c = 0
   else ln o' = h + w + c /\ ltok o' + h = 1 /\ 0 <= ltok o' /\ 1 <= ln o') ->
  Inv {| ths := upd (ths s) t th';
         tbl := if rm then tremove i0 (tbl s) else tbl s;
         heap := hp' |}.
Proof.
  intros [He Hp Hi Hs] Hn Hl Hh Hframe On On' Ok' Hptr Hnum.
  set (s' := {| ths := upd (ths s) t th'; tbl := if rm then tremove i0 (tbl s) else tbl s;
                heap := hp' |}).
  assert (Hent : forall i, entry_inv s' i).
  { intro i. destruct (counters_upd s s' t th th' i Hn eq_refl) as (E1 & E2 & E3).
    destruct (N.eq_dec i i0) as [->|Hne].
    - unfold entry_inv. cbn [tbl heap s']. rewrite E1, E2, E3.
      destruct rm.
      + rewrite tlookup_tremove_eq. exact Hnum.
      + rewrite Hl. exists o'. split; [exact Hh|]. exact Hnum.
    - destruct (on_id_other _ _ i On Hne) as (A1 & A2 & A3).
      destruct (on_id_other _ _ i On' Hne) as (B1 & B2 & B3).
      eapply entry_frame; [..|apply (He i)]; cbn [tbl heap s']; try lia.
      + destruct rm; auto. apply tlookup_tremove_neq; auto.
      + intros a' Ha'. apply Hframe. intro; subst a'.
        apply Hne. rewrite <- (Hi _ _ Ha'). apply (Hi _ _ Hl). }
  split; auto.
  - intros m y i a' Hm Hy. cbn [ths tbl s'] in *.
    apply nth_upd_cases in Hm. destruct Hm as [[-> ->]|[Hne Hm]].
    + destruct (Hptr _ _ Hy) as [-> ->].
      assert (i = i0) by (destruct Hy as [E|E]; rewrite E in On'; cbn in On'; auto). subst. auto.
    + pose proof (Hp _ _ _ _ Hm Hy) as Hold.
      destruct rm; auto.
      destruct (N.eq_dec i i0) as [->|Hne']; [|rewrite tlookup_tremove_neq; auto].
      exfalso. specialize (Hent i0). unfold entry_inv in Hent. cbn [tbl s'] in Hent.
      rewrite tlookup_tremove_eq in Hent.
      assert (Hm' : nth_error (ths s') m = Some y) by (cbn [ths s']; rewrite nth_error_upd_neq; auto).
      pose proof (holders_nonneg i0 s'). pose proof (waiters_nonneg i0 s'). pose proof (cancellers_nonneg i0 s').
      destruct Hy as [E|E].
      * pose proof (sumz_nth_le (wz i0) (fun p => proj1 (wz_range i0 p)) _ _ _ Hm') as Hle.
        fold (waiters i0 s') in Hle. rewrite E in Hle. cbn [wz] in Hle. rewrite N.eqb_refl in Hle. lia.
      * pose proof (sumz_nth_le (cz i0) (fun p => proj1 (cz_range i0 p)) _ _ _ Hm') as Hle.
        fold (cancellers i0 s') in Hle. rewrite E in Hle. cbn [cz] in Hle. rewrite N.eqb_refl in Hle. lia.
  - intros i a' Hi1. cbn [tbl s'] in *. destruct rm; [|eapply Hi; eauto].
    destruct (N.eq_dec i i0) as [->|N1]; [rewrite tlookup_tremove_eq in Hi1; discriminate|].
    rewrite tlookup_tremove_neq in Hi1; auto.
  - intros m y Hm. cbn [ths s'] in Hm. apply nth_upd_cases in Hm. destruct Hm as [[-> ->]|[_ Hm]]; auto.
    eapply Hs; eauto.
Qed.

Lemma inv_update s t th th' i0 a o o' (rm : bool) :
  Inv s ->
  nth_error (ths s) t = Some th ->
  tlookup i0 (tbl s) = Some a ->
  hget a (heap s) = Some o ->
  on_id i0 (tpc th) -> on_id i0 (tpc th') -> ok_pc (tpc th') ->
  (forall i a', tpc th' = Waiting i a' \/ tpc th' = Cancelling i a' -> a' = a /\ rm = false) ->
  (let h := holders i0 s - hz i0 (tpc th) + hz i0 (tpc th') in
   let w := waiters i0 s - wz i0 (tpc th) + wz i0 (tpc th') in
   let c := cancellers i0 s - cz i0 (tpc th) + cz i0 (tpc th') in
   if rm then h + w + c = 0
   else ln o' = h + w + c /\ ltok o' + h = 1 /\ 0 <= ltok o' /\ 1 <= ln o') ->
  Inv {| ths := upd (ths s) t th';
         tbl := if rm then tremove i0 (tbl s) else tbl s;
         heap := hset a o' (heap s) |}.
Proof.
  intros. eapply inv_update_gen; eauto.
  - apply hget_hset_eq.
  - intros a' Hne. apply hget_hset_neq; auto.
Qed.

(* same, for steps that leave heap and table alone *)
Lemma inv_update_thread s t th th' i0 a o :
  Inv s ->
  nth_error (ths s) t = Some th ->
  tlookup i0 (tbl s) = Some a ->
  hget a (heap s) = Some o ->
  on_id i0 (tpc th) -> on_id i0 (tpc th') -> ok_pc (tpc th') ->
  (forall i a', tpc th' = Waiting i a' \/ tpc th' = Cancelling i a' -> a' = a) ->
  hz i0 (tpc th') = hz i0 (tpc th) ->
  wz i0 (tpc th') + cz i0 (tpc th') = wz i0 (tpc th) + cz i0 (tpc th) ->
  Inv (set_th s t th').
Proof.
  intros HI Hn Hl Hh On On' Ok' Hptr E1 E2.
  apply (inv_update_gen s t th th' i0 a o (heap s) false); auto.
  - intros i a' Hy. split; auto. eapply Hptr; eauto.
  - cbn zeta. pose proof (inv_entry HI i0) as He. unfold entry_inv in He. rewrite Hl in He.
    destruct He as (o1 & Ho1 & R). rewrite Hh in Ho1. inversion Ho1; subst o1. lia.
Qed.

(** ** The fast path: a fresh lock object *)
(* the pcs in which a call finds itself when locks.Lock has just returned nil *)
Definition acq_pc (i : cid) (p : pc) : Prop :=
  p = Holding i \/ p = Releasing i \/ exists v, p = Checking i v.

Lemma inv_lock_fast s t th th' i0 k :
  Inv s ->
  nth_error (ths s) t = Some th -> tpc th = Idle ->
  tlookup i0 (tbl s) = None ->
  acq_pc i0 (tpc th') ->
  Inv {| ths := upd (ths s) t th';
         tbl := tset i0 (i0, k) (tbl s);
         heap := hset (i0, k) {| ln := 1; ltok := 0 |} (heap s) |}.
Proof.
  intros [He Hp Hi Hs] Hn Hidle Hl Hpc'.
  set (s' := {| ths := upd (ths s) t th'; tbl := tset i0 (i0, k) (tbl s);
                heap := hset (i0, k) {| ln := 1; ltok := 0 |} (heap s) |}).
  assert (On : on_id i0 (tpc th)) by (rewrite Hidle; exact I).
  assert (On' : on_id i0 (tpc th')) by (destruct Hpc' as [E|[E|[v E]]]; rewrite E; reflexivity).
  split.
  - intro i. destruct (counters_upd s s' t th th' i Hn eq_refl) as (E1 & E2 & E3).
    destruct (N.eq_dec i i0) as [->|Hne].
    + unfold entry_inv. cbn [tbl heap s']. rewrite tlookup_tset_eq.
      exists {| ln := 1; ltok := 0 |}. split; [apply hget_hset_eq|].
      specialize (He i0). unfold entry_inv in He. rewrite Hl in He.
      pose proof (holders_nonneg i0 s). pose proof (waiters_nonneg i0 s). pose proof (cancellers_nonneg i0 s).
      rewrite E1, E2, E3, Hidle. cbn [ln ltok].
      destruct Hpc' as [E|[E|[v E]]]; rewrite E; cbn; rewrite N.eqb_refl; lia.
    + destruct (on_id_other _ _ i On Hne) as (A1 & A2 & A3).
      destruct (on_id_other _ _ i On' Hne) as (B1 & B2 & B3).
      eapply entry_frame; [..|apply (He i)]; cbn [tbl heap s']; try lia.
      * apply tlookup_tset_neq; auto.
      * intros a Ha. apply hget_hset_neq. intro Ea. apply Hne.
        pose proof (Hi _ _ Ha) as Hf. rewrite Ea in Hf. cbn in Hf. auto.
  - intros m y i a Hm Hy. cbn [ths tbl s'] in *.
    apply nth_upd_cases in Hm. destruct Hm as [[-> ->]|[Hne Hm]].
    + destruct Hpc' as [E|[E|[v E]]]; destruct Hy as [E'|E']; congruence.
    + pose proof (Hp _ _ _ _ Hm Hy) as Hold.
      destruct (N.eq_dec i i0) as [->|Hne']; [congruence|].
      rewrite tlookup_tset_neq; auto.
  - intros i a Hi1. cbn [tbl s'] in *.
    destruct (N.eq_dec i i0) as [->|N1].
    + rewrite tlookup_tset_eq in Hi1. inversion Hi1; subst a. reflexivity.
    + rewrite tlookup_tset_neq in Hi1 by auto. eapply Hi; eauto.
  - intros m y Hm. cbn [ths s'] in Hm. apply nth_upd_cases in Hm. destruct Hm as [[-> ->]|[_ Hm]].
    + destruct Hpc' as [E|[E|[v E]]]; rewrite E; exact I.
    + eapply Hs; eauto.
Qed.

(** * Every step preserves the invariant *)
Lemma acquired_pc th i : acq_pc i (tpc (acquired th i)).
Proof. unfold acquired, acq_pc. destruct (tbad th); cbn; auto. destruct (tchk th); cbn; eauto. Qed.

Lemma acquired_hz th i j : hz j (tpc (acquired th i)) = if (j =? i)%N then 1 else 0.
Proof. destruct (acquired_pc th i) as [E|[E|[v E]]]; rewrite E; reflexivity. Qed.
Lemma acquired_wz th i j : wz j (tpc (acquired th i)) = 0.
Proof. destruct (acquired_pc th i) as [E|[E|[v E]]]; rewrite E; reflexivity. Qed.
Lemma acquired_cz th i j : cz j (tpc (acquired th i)) = 0.
Proof. destruct (acquired_pc th i) as [E|[E|[v E]]]; rewrite E; reflexivity. Qed.
Lemma acquired_on_id th i : on_id i (tpc (acquired th i)).
Proof. destruct (acquired_pc th i) as [E|[E|[v E]]]; rewrite E; reflexivity. Qed.
Lemma acquired_ok th i : ok_pc (tpc (acquired th i)).
Proof. destruct (acquired_pc th i) as [E|[E|[v E]]]; rewrite E; exact I. Qed.
Lemma acquired_not_waiting th i j a :
  ~ (tpc (acquired th i) = Waiting j a \/ tpc (acquired th i) = Cancelling j a).
Proof. destruct (acquired_pc th i) as [E|[E|[v E]]]; rewrite E; intros [H|H]; discriminate. Qed.

(* the pcs of a session that holds contract i *)
Lemma hz_one i p : hz i p = 1 -> wz i p = 0 /\ cz i p = 0 /\ on_id i p.
Proof.
  destruct p; cbn; try lia; destruct (N.eqb_spec i i0); try lia; subst; auto.
Qed.

(* facts about the entry of a contract some session is attached to *)
Lemma entry_of_member s t th i :
  Inv s -> nth_error (ths s) t = Some th ->
  1 <= hz i (tpc th) + wz i (tpc th) + cz i (tpc th) ->
  exists a o, tlookup i (tbl s) = Some a /\ hget a (heap s) = Some o
              /\ ln o = holders i s + waiters i s + cancellers i s
              /\ ltok o + holders i s = 1 /\ 0 <= ltok o /\ 1 <= ln o
              /\ hz i (tpc th) <= holders i s /\ wz i (tpc th) <= waiters i s
              /\ cz i (tpc th) <= cancellers i s.
Proof.
  intros HI Hn Hmem.
  pose proof (sumz_nth_le (hz i) (fun p => proj1 (hz_range i p)) _ _ _ Hn) as L1.
  pose proof (sumz_nth_le (wz i) (fun p => proj1 (wz_range i p)) _ _ _ Hn) as L2.
  pose proof (sumz_nth_le (cz i) (fun p => proj1 (cz_range i p)) _ _ _ Hn) as L3.
  fold (holders i s) in L1. fold (waiters i s) in L2. fold (cancellers i s) in L3.
  pose proof (inv_entry HI i) as He. unfold entry_inv in He.
  destruct (tlookup i (tbl s)) as [a|].
  - destruct He as (o & Ho & R). exists a, o. repeat split; try tauto; auto.
  - exfalso. lia.
Qed.

Lemma inv_unlock_cs s t th i r s' :
  Inv s -> nth_error (ths s) t = Some th ->
  hz i (tpc th) = 1 ->
  unlock_cs s t th i r = Some s' -> Inv s'.
Proof.
  intros HI Hn Hh1 Hu.
  destruct (hz_one _ _ Hh1) as (Hw0 & Hc0 & On).
  destruct (entry_of_member s t th i HI Hn) as (a & o & Hl & Hh & R1 & R2 & R3 & R4 & R5 & _); [lia|].
  unfold unlock_cs in Hu. rewrite Hl, Hh in Hu.
  destruct (ln o - 1 =? 0) eqn:En.
  - inversion Hu; subst s'; clear Hu.
    apply (inv_update s t th (mk_idle th r) i a o _ true); auto; cbn; try tauto.
    + intros ? ? [E|E]; discriminate.
    + lia.
  - destruct (ltok o <? chan_cap) eqn:Et.
    + inversion Hu; subst s'; clear Hu.
      apply (inv_update s t th (mk_idle th r) i a o _ false); auto; cbn; try tauto.
      * intros ? ? [E|E]; discriminate.
      * unfold chan_cap in Et. lia.
    + exfalso. unfold chan_cap in Et. lia.
Qed.

Lemma inv_lock_call s t th th0 i s' :
  Inv s -> nth_error (ths s) t = Some th -> tpc th = Idle -> tpc th0 = Idle ->
  lock_call s t th0 i = Some s' -> Inv s'.
Proof.
  intros HI Hn Hpc Hpc0 Hs. pose proof (sane_mutex_free _ (inv_sane HI)) as Hmf.
  unfold lock_call in Hs. rewrite Hmf in Hs.
  destruct (tlookup i (tbl s)) as [a|] eqn:Hl.
  - pose proof (inv_entry HI i) as He. unfold entry_inv in He. rewrite Hl in He.
    destruct He as (o & Ho & R1 & R2 & R3 & R4). rewrite Ho in Hs.
    inversion Hs; subst s'; clear Hs.
    apply (inv_update s t th (with_pc th0 (Waiting i a)) i a o _ false); auto;
      try (rewrite Hpc); cbn; auto.
    + intros ? ? [E|E]; inversion E; auto.
    + rewrite N.eqb_refl. lia.
  - inversion Hs; subst s'; clear Hs.
    apply inv_lock_fast with (th := th); auto. apply acquired_pc.
Qed.

Theorem step_preserves_inv s a s' : Inv s -> step s a = Some s' -> Inv s'.
Proof.
  intros HI Hs. pose proof (sane_mutex_free _ (inv_sane HI)) as Hmf.
  destruct a as [t i d b|t i d b v|t|t|t|t|t|t|t|t|t|t]; cbn [step] in Hs;
    destruct (nth_error (ths s) t) as [th|] eqn:Hn; try discriminate;
    destruct (tpc th) as [|i0 a0|i0 a0|i0|i0|i0 v0|i0 r0|i0 a0|] eqn:Hpc; try discriminate;
    try rewrite Hmf in Hs; try (injection Hs as <-; exact HI).
  - (* ALock *)
    eapply (inv_lock_call s t th _ i s' HI Hn Hpc); [|exact Hs]; reflexivity.
  - (* ACheck *)
    eapply (inv_lock_call s t th _ i s' HI Hn Hpc); [|exact Hs]; reflexivity.
  - (* ALockRefused *)
    inversion Hs; subst s'. eapply inv_same_pc; eauto.
  - (* ACtxDone *)
    inversion Hs; subst s'. eapply inv_same_pc; eauto.
  - (* AUnlock *)
    eapply inv_unlock_cs; eauto. rewrite Hpc; cbn; rewrite N.eqb_refl; auto.
  - (* ARecv *)
    destruct (entry_of_member s t th i0 HI Hn) as (a & o & Hl & Hh & R1 & R2 & R3 & R4 & R5 & R6 & _);
      [rewrite Hpc; cbn; rewrite N.eqb_refl; lia|].
    assert (a = a0) by (pose proof (inv_ptr HI _ _ _ _ Hn (or_introl Hpc)); congruence). subst a0.
    rewrite Hh in Hs. destruct (0 <? ltok o) eqn:Et; try discriminate.
    inversion Hs; subst s'; clear Hs.
    apply (inv_update s t th (acquired th i0) i0 a o _ false); auto.
    + rewrite Hpc; reflexivity.
    + apply acquired_on_id.
    + apply acquired_ok.
    + intros ? ? Hy. exfalso. eapply acquired_not_waiting; eauto.
    + cbn zeta. rewrite acquired_hz, acquired_wz, acquired_cz, Hpc. cbn. rewrite N.eqb_refl. cbn. lia.
  - (* ACancelChosen *)
    destruct (tdone th); try discriminate. inversion Hs; subst s'; clear Hs.
    destruct (entry_of_member s t th i0 HI Hn) as (a & o & Hl & Hh & _);
      [rewrite Hpc; cbn; rewrite N.eqb_refl; lia|].
    assert (a = a0) by (pose proof (inv_ptr HI _ _ _ _ Hn (or_introl Hpc)); congruence). subst a0.
    eapply inv_update_thread with (i0 := i0); eauto; try rewrite Hpc; cbn; auto.
    + intros ? ? [E|E]; inversion E; auto.
    + rewrite N.eqb_refl. lia.
  - (* ACancelCommit *)
    destruct (entry_of_member s t th i0 HI Hn) as (a & o & Hl & Hh & R1 & R2 & R3 & R4 & R5 & R6 & R7);
      [rewrite Hpc; cbn; rewrite N.eqb_refl; lia|].
    assert (a = a0) by (pose proof (inv_ptr HI _ _ _ _ Hn (or_intror Hpc)); congruence). subst a0.
    rewrite Hh in Hs. inversion Hs; subst s'; clear Hs.
    apply (inv_update s t th (mk_idle th RCtxErr) i0 a o _ (ln o - 1 =? 0)); auto;
      try rewrite Hpc; cbn; auto.
    + intros ? ? [E|E]; discriminate.
    + rewrite N.eqb_refl. destruct (ln o - 1 =? 0) eqn:En; cbn; lia.
  - (* AErrUnlock *)
    eapply inv_unlock_cs; eauto. rewrite Hpc; cbn; rewrite N.eqb_refl; auto.
  - (* ABody: the session keeps the lock, only its pc moves *)
    inversion Hs; subst s'; clear Hs.
    destruct (entry_of_member s t th i0 HI Hn) as (a & o & Hl & Hh & _);
      [rewrite Hpc; cbn; rewrite N.eqb_refl; lia|].
    eapply inv_update_thread with (i0 := i0); eauto; try rewrite Hpc; cbn; auto.
    intros ? ? [E|E]; discriminate.
  - (* ADeferUnlock *)
    eapply inv_unlock_cs; eauto. rewrite Hpc; cbn; rewrite N.eqb_refl; auto.
  - (* ASendDone: there is no blocked sender *)
    exfalso. pose proof (inv_sane HI _ _ Hn) as Hok. rewrite Hpc in Hok. exact Hok.
Qed.

(** * Reachable states *)
Inductive reachable (k : nat) : state -> Prop :=
| reach_init : reachable k (init k)
| reach_step s a s' : reachable k s -> step s a = Some s' -> reachable k s'.

Lemma nth_repeat_idle k t th : nth_error (repeat idle_thread k) t = Some th -> th = idle_thread.
Proof. intros H. apply nth_error_In in H. apply repeat_spec in H. auto. Qed.

Lemma inv_init k : Inv (init k).
Proof.
  split.
  - intro i. unfold entry_inv, holders, waiters, cancellers; cbn.
    rewrite !sumz_repeat_idle; auto.
  - intros t th i a Hn Hy. cbn in Hn. apply nth_repeat_idle in Hn. subst. destruct Hy; discriminate.
  - intros i a H. discriminate.
  - intros t th Hn. cbn in Hn. apply nth_repeat_idle in Hn. subst. exact I.
Qed.

Theorem reachable_inv k s : reachable k s -> Inv s.
Proof. induction 1; [apply inv_init|eapply step_preserves_inv; eauto]. Qed.

Lemma run_reachable k s l s' : reachable k s -> run s l = Some s' -> reachable k s'.
Proof.
  revert s; induction l as [|a l IH]; cbn; intros s Hr Hrun.
  - inversion Hrun; subst; auto.
  - destruct (step s a) eqn:E; try discriminate. apply (IH s0); auto. econstructor; eauto.
Qed.
