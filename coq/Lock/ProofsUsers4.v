(* Lock/ProofsUsers4.v — the RHP4 handlers of coreutils' server (Users.v, [UR4]) as users of the
   contract lock.  The general theorems of ProofsUsers.v (unlock only by the holder, every
   execution is a locker execution, mutual exclusion, no leak) quantify over [ureachable], which
   since WP-H contains RHP4 handlers next to RHP2 sessions, RHP3 handlers and free callers, on the
   same contract ids.  Here: what is particular to RHP4 —
     * where an RHP4 handler calls unlock() (three places) and that it has finished with the lock
       afterwards;
     * each of these releases is enabled, completes without panic and leaves the goroutine idle;
     * from every point after LockV2Contract returned there is a path of the handler's own steps
       to its return, and it ends with the lock released (no return path keeps it);
     * a queued RHP4 handler leaves the queue only by being handed the lock (lock.go:122 passes
       context.Background(): nothing cancels it). *)
From HostdBase Require Import Base.
From HostdLock Require Import Model Proofs Proofs2 Proofs3 Proofs4 Users ProofsUsers.
From Coq Require Import Lia ZifyBool ZifyN ZifyNat.
Local Open Scope Z_scope.

(** * 1. The unlock sites of an RHP4 handler *)
Lemma r4_unlock_sites lg p x th u' i :
  user_step lg (UR4 p) x th = Some (u', CUnlock i) ->
  u' = UR4 R4Idle /\
  ((exists k rv, p = R4Got k i rv /\ x = R4Check /\ (k = K4Latest \/ rv = false))
   \/ (exists k, p = R4Ret k i /\ x = R4Defer)).
Proof.
  intros Hs. destruct p as [|k j rv|k j rv|k j|k j|k j]; destruct x; cbn [user_step] in Hs; try discriminate.
  - destruct (tpc th); discriminate.
  - destruct k, rv; inversion Hs; subst; (split; [reflexivity|]); left;
      eexists _, _; (split; [reflexivity|split; [reflexivity|auto]]).
  - inversion Hs; subst. split; auto. right. eauto.
Qed.

(* after a release the program is at R4Idle, from where the only steps are a return before the
   lock and a new request: there is no second unlock() of the same hold *)
Lemma r4_idle_steps lg x th u' c :
  user_step lg (UR4 R4Idle) x th = Some (u', c) ->
  (exists k, x = R4Pre k /\ u' = UR4 R4Idle /\ c = CNone)
  \/ (exists k i b rv, x = R4Enter k i b rv /\ u' = UR4 (R4Call k i rv) /\ c = CLock i false b).
Proof.
  destruct x; cbn [user_step]; intros Hs; try discriminate; inversion Hs; subst; [left|right]; eauto 8.
Qed.

(** * 1b. A handler past its lock call is the holder *)
Definition r4_id (p : r4pc) : cid :=
  match p with
  | R4Idle => 0%N
  | R4Call _ i _ | R4Got _ i _ | R4Body _ i | R4Wait _ i | R4Ret _ i => i
  end.

Definition r4_past_lock (p : r4pc) : bool :=
  match p with R4Idle | R4Call _ _ _ => false | _ => true end.

Theorem r4_past_lock_is_holder us t p th :
  ureachable us -> nth_error (uusers us) t = Some (UR4 p) -> nth_error (ths (ubase us)) t = Some th ->
  (r4_past_lock p = true -> tpc th = Holding (r4_id p)) /\ (p = R4Idle -> tpc th = Idle).
Proof.
  intros Hr Hu Hth.
  destruct (user_holds_is_holder us t (UR4 p) th (r4_id p) Hr Hu Hth) as [Hh Hi].
  split.
  - intros Hp. apply Hh. destruct p; cbn in Hp |- *; try discriminate; reflexivity.
  - intros ->. apply Hi. exact I.
Qed.

(** * 2. Each release is enabled and completes *)
Definition r4_releasing (i : cid) (p : r4pc) : option uact :=
  match p with
  | R4Got K4Latest j _ => if (j =? i)%N then Some R4Check else None
  | R4Got _ j false => if (j =? i)%N then Some R4Check else None
  | R4Ret _ j => if (j =? i)%N then Some R4Defer else None
  | _ => None
  end.

Theorem r4_release_completes us t p i x :
  ureachable us -> nth_error (uusers us) t = Some (UR4 p) -> r4_releasing i p = Some x ->
  exists us' th', ustep us (UAct t x) = Some us'
                  /\ step (ubase us) (AUnlock t) = Some (ubase us')
                  /\ nth_error (uusers us') t = Some (UR4 R4Idle)
                  /\ nth_error (ths (ubase us')) t = Some th' /\ tpc th' = Idle.
Proof.
  intros Hr Hu Hx. pose proof (ureachable_uinv _ Hr) as [HI Hlen Hlk].
  assert (Hlt : (t < length (ths (ubase us)))%nat) by (rewrite <- Hlen; apply nth_error_Some; congruence).
  destruct (nth_error (ths (ubase us)) t) as [th|] eqn:Hth; [|apply nth_error_None in Hth; lia].
  assert (Hus : user_step false (UR4 p) x th = Some (UR4 R4Idle, CUnlock i)).
  { destruct p as [|k j rv|k j rv|k j|k j|k j]; cbn [r4_releasing] in Hx; try discriminate.
    - destruct k, rv; try discriminate; destruct (N.eqb_spec j i); try discriminate;
        inversion Hx; subst; reflexivity.
    - destruct (N.eqb_spec j i); try discriminate. inversion Hx; subst. reflexivity. }
  assert (Hc : call_of false us (UAct t x) = Some (t, CUnlock i)).
  { cbn [call_of]. rewrite Hu, Hth, Hus. reflexivity. }
  destruct (users_unlock_is_holder_unlock _ _ _ _ Hr Hc) as (us' & th' & Hs & Hb & Hn' & Hidle).
  exists us', th'. repeat split; auto.
  unfold ustep, ustep_gen in Hs. rewrite Hu, Hth, Hus in Hs.
  destruct (apply_call (ubase us) t (CUnlock i)); try discriminate.
  inversion Hs; subst us'. cbn [uusers]. eapply nth_error_upd_eq; eauto.
Qed.

(** * 3. No return path keeps the lock *)
(* the handler's own steps from p to its return, taking the first `return` it can *)
Definition r4_exit (p : r4pc) : list uact :=
  match p with
  | R4Idle | R4Call _ _ _ => []
  | R4Got K4Latest _ _ | R4Got _ _ false => [R4Check]
  | R4Got _ _ true => [R4Check; R4Run false; R4Defer]
  | R4Body _ _ => [R4Run false; R4Defer]
  | R4Wait _ _ => [R4Renter; R4Defer]
  | R4Ret _ _ => [R4Defer]
  end.

Definition r4_has_lock (p : r4pc) : bool :=
  match p with R4Idle | R4Call _ _ _ => false | _ => true end.

Lemma ustep_cnone us t u th x u' :
  nth_error (uusers us) t = Some u -> nth_error (ths (ubase us)) t = Some th ->
  user_step false u x th = Some (u', CNone) ->
  ustep us (UAct t x) = Some {| ubase := ubase us; uusers := upd (uusers us) t u' |}.
Proof. intros Hu Hth Hs. unfold ustep, ustep_gen. rewrite Hu, Hth, Hs. reflexivity. Qed.

Lemma nth_upd_same {A} (l : list A) t x y : nth_error l t = Some y -> nth_error (upd l t x) t = Some x.
Proof. intros H. eapply nth_error_upd_eq; eauto. Qed.

Theorem r4_every_path_releases us t p :
  ureachable us -> nth_error (uusers us) t = Some (UR4 p) -> r4_has_lock p = true ->
  exists us' th', urun us (map (UAct t) (r4_exit p)) = Some us'
                  /\ nth_error (uusers us') t = Some (UR4 R4Idle)
                  /\ nth_error (ths (ubase us')) t = Some th' /\ tpc th' = Idle.
Proof.
  intros Hr Hu Hp. pose proof (ureachable_uinv _ Hr) as [HI Hlen Hlk].
  assert (Hlt : (t < length (ths (ubase us)))%nat) by (rewrite <- Hlen; apply nth_error_Some; congruence).
  destruct (nth_error (ths (ubase us)) t) as [th|] eqn:Hth; [|apply nth_error_None in Hth; lia].
  (* one release step at the end *)
  assert (Hfin : forall us1 q x i, ureachable us1 -> nth_error (uusers us1) t = Some (UR4 q) ->
            r4_releasing i q = Some x ->
            exists us' th', urun us1 [UAct t x] = Some us'
                  /\ nth_error (uusers us') t = Some (UR4 R4Idle)
                  /\ nth_error (ths (ubase us')) t = Some th' /\ tpc th' = Idle).
  { intros us1 q x i Hr1 Hu1 Hx.
    destruct (r4_release_completes _ _ _ _ _ Hr1 Hu1 Hx) as (us' & th' & Hs & _ & H1 & H2 & H3).
    exists us', th'. unfold urun. cbn [urun_gen]. fold ustep. rewrite Hs. auto. }
  (* a step without a call, then the rest *)
  assert (Hmid : forall us1 th1 q x q' rest, ureachable us1 -> nth_error (uusers us1) t = Some (UR4 q) ->
            nth_error (ths (ubase us1)) t = Some th1 ->
            user_step false (UR4 q) x th1 = Some (UR4 q', CNone) ->
            (forall us2, ureachable us2 -> nth_error (uusers us2) t = Some (UR4 q') ->
                exists us' th', urun us2 (map (UAct t) rest) = Some us'
                  /\ nth_error (uusers us') t = Some (UR4 R4Idle)
                  /\ nth_error (ths (ubase us')) t = Some th' /\ tpc th' = Idle) ->
            exists us' th', urun us1 (map (UAct t) (x :: rest)) = Some us'
                  /\ nth_error (uusers us') t = Some (UR4 R4Idle)
                  /\ nth_error (ths (ubase us')) t = Some th' /\ tpc th' = Idle).
  { intros us1 th1 q x q' rest Hr1 Hu1 Hth1 Hs1 Hrest.
    pose proof (ustep_cnone _ _ _ _ _ _ Hu1 Hth1 Hs1) as Hst.
    set (us2 := {| ubase := ubase us1; uusers := upd (uusers us1) t (UR4 q') |}) in *.
    assert (Hr2 : ureachable us2) by (econstructor; eauto).
    destruct (Hrest us2 Hr2) as (us' & th' & Hrun & H1 & H2 & H3).
    { unfold us2. cbn [uusers]. eapply nth_upd_same; eauto. }
    exists us', th'. unfold urun in *. cbn [map urun_gen]. fold ustep. rewrite Hst. auto. }
  assert (Hth_of : forall us1, ureachable us1 -> nth_error (uusers us1) t <> None ->
                     exists th1, nth_error (ths (ubase us1)) t = Some th1).
  { intros us1 Hr1 Hn. pose proof (ureachable_uinv _ Hr1) as [_ Hl1 _].
    assert ((t < length (ths (ubase us1)))%nat) by (rewrite <- Hl1; apply nth_error_Some; auto).
    destruct (nth_error (ths (ubase us1)) t) eqn:E; eauto. apply nth_error_None in E. lia. }
  assert (Hret : forall k i us1, ureachable us1 -> nth_error (uusers us1) t = Some (UR4 (R4Ret k i)) ->
            exists us' th', urun us1 (map (UAct t) [R4Defer]) = Some us'
                  /\ nth_error (uusers us') t = Some (UR4 R4Idle)
                  /\ nth_error (ths (ubase us')) t = Some th' /\ tpc th' = Idle).
  { intros k i us1 Hr1 Hu1. apply (Hfin us1 (R4Ret k i) R4Defer i); auto.
    cbn. rewrite N.eqb_refl. reflexivity. }
  assert (Hbody : forall k i us1, ureachable us1 -> nth_error (uusers us1) t = Some (UR4 (R4Body k i)) ->
            exists us' th', urun us1 (map (UAct t) [R4Run false; R4Defer]) = Some us'
                  /\ nth_error (uusers us') t = Some (UR4 R4Idle)
                  /\ nth_error (ths (ubase us')) t = Some th' /\ tpc th' = Idle).
  { intros k i us1 Hr1 Hu1.
    destruct (Hth_of us1 Hr1) as (th1 & Hth1); [congruence|].
    apply (Hmid us1 th1 (R4Body k i) (R4Run false) (R4Ret k i) [R4Defer]); auto.
    - cbn [user_step]. rewrite Bool.andb_false_r. reflexivity.
    - intros us2 Hr2 Hu2. eapply Hret; eauto. }
  destruct p as [|k i rv|k i rv|k i|k i|k i]; cbn in Hp; try discriminate.
  - (* R4Got *)
    destruct (r4_releasing i (R4Got k i rv)) as [x|] eqn:Hrel.
    + assert (Ex : r4_exit (R4Got k i rv) = [x]).
      { destruct k, rv; cbn in Hrel |- *; rewrite ?N.eqb_refl in Hrel; try discriminate; inversion Hrel; reflexivity. }
      rewrite Ex. eapply Hfin; eauto.
    + assert (Erv : rv = true /\ k <> K4Latest).
      { destruct k, rv; cbn in Hrel; rewrite ?N.eqb_refl in Hrel; try discriminate; split; auto; discriminate. }
      destruct Erv as [-> Hk].
      assert (Ex : r4_exit (R4Got k i true) = [R4Check; R4Run false; R4Defer]) by (destruct k; auto; congruence).
      rewrite Ex.
      apply (Hmid us th (R4Got k i true) R4Check (R4Body k i) [R4Run false; R4Defer]); auto.
      * destruct k; auto; congruence.
      * intros us2 Hr2 Hu2. eapply Hbody; eauto.
  - eapply Hbody; eauto.
  - (* R4Wait *)
    apply (Hmid us th (R4Wait k i) R4Renter (R4Ret k i) [R4Defer]); auto.
    intros us2 Hr2 Hu2. eapply Hret; eauto.
  - eapply Hret; eauto.
Qed.

(** * 4. A queued RHP4 handler is only ever served *)
Lemma apply_call_other_thread us t u x th u' c s' t0 :
  UInv us -> nth_error (uusers us) t = Some u -> nth_error (ths (ubase us)) t = Some th ->
  user_step false u x th = Some (u', c) -> apply_call (ubase us) t c = Some s' -> t0 <> t ->
  nth_error (ths s') t0 = nth_error (ths (ubase us)) t0.
Proof.
  intros [HI Hlen Hlk] Hu Hth Hus Hc Hne.
  destruct (user_step_cases _ _ _ _ _ (Hlk _ _ _ Hu Hth) Hus) as (_ & _ & Hcase).
  destruct c as [|i d b|i]; cbn [apply_call] in Hc.
  - inversion Hc; subst; auto.
  - apply (step_other_thread _ _ _ t0 Hc). cbn. auto.
  - destruct Hcase as (Hhold & _). rewrite (raw_unlock_held _ _ _ _ Hth Hhold) in Hc.
    apply (step_other_thread _ _ _ t0 Hc). cbn. auto.
Qed.

Theorem r4_waiter_only_served us a us' t k i rv th j ad :
  ureachable us -> nth_error (uusers us) t = Some (UR4 (R4Call k i rv)) ->
  nth_error (ths (ubase us)) t = Some th -> tpc th = Waiting j ad ->
  ustep us a = Some us' ->
  j = i /\ nth_error (uusers us') t = Some (UR4 (R4Call k i rv)) /\
  exists th', nth_error (ths (ubase us')) t = Some th' /\ (th' = th \/ th' = acquired th i).
Proof.
  intros Hr Hu Hth Hpc Hs. pose proof (ureachable_uinv _ Hr) as HU. pose proof HU as [HI Hlen Hlk].
  pose proof (Hlk _ _ _ Hu Hth) as Hl. cbn [link pending wf_user] in Hl. destruct Hl as [_ Hcp].
  unfold call_pc in Hcp. rewrite Hpc in Hcp. destruct Hcp as (-> & _ & _). split; auto.
  unfold ustep, ustep_gen in Hs. destruct a as [b|t0 x].
  - destruct (nth_error (uusers us) (act_tid b)) as [u|] eqn:Hub; try discriminate.
    destruct (allowed_base u b) eqn:Hal; try discriminate.
    destruct (step (ubase us) b) as [s'|] eqn:Hst; try discriminate.
    inversion Hs; subst us'; clear Hs. cbn [ubase uusers]. split; auto.
    destruct (Nat.eq_dec (act_tid b) t) as [E|Hne].
    + rewrite E in Hub. rewrite Hu in Hub. inversion Hub; subst u.
      pose proof (step_preserves_inv _ _ _ HI Hst) as HI'.
      assert (Ho : owned_action b) by (apply (allowed_owned (UR4 (R4Call k i rv))); [discriminate|auto]).
      rewrite <- E in Hth.
      destruct (owned_base_step _ _ _ _ HI' Hst Hth Ho) as (th' & Hn' & Hrel).
      rewrite E in Hn'. exists th'. split; auto.
      destruct b; cbn in Hal; try discriminate.
      * destruct Hrel as (i0 & a0 & Hp & ->). rewrite Hpc in Hp. inversion Hp; subst. auto.
      * destruct Hrel as (i0 & Hp & _). rewrite Hpc in Hp. discriminate.
    + exists th. split; auto. rewrite (step_other_thread _ _ _ t Hst Hne). auto.
  - destruct (nth_error (uusers us) t0) as [u|] eqn:Hu0; try discriminate.
    destruct (nth_error (ths (ubase us)) t0) as [th0|] eqn:Hth0; try discriminate.
    destruct (user_step false u x th0) as [[u' c]|] eqn:Hus; try discriminate.
    destruct (apply_call (ubase us) t0 c) as [s'|] eqn:Hc; try discriminate.
    inversion Hs; subst us'; clear Hs. cbn [ubase uusers].
    destruct (Nat.eq_dec t0 t) as [->|Hne].
    + exfalso. rewrite Hu in Hu0. inversion Hu0; subst u. rewrite Hth in Hth0. inversion Hth0; subst th0.
      destruct x; cbn [user_step] in Hus; try discriminate. rewrite Hpc in Hus. discriminate.
    + split.
      * rewrite nth_error_upd_neq by auto. auto.
      * exists th. split; auto.
        rewrite (apply_call_other_thread us t0 u x th0 u' c s' t HU Hu0 Hth0 Hus Hc) by auto. auto.
Qed.

(** * 5. Witnesses *)
(* users of all three protocols and a free caller on ONE contract id (5): an RHP2 session holds
   it; an RHP3 handler, an RHP4 append (revisable) and an RHP4 latest-revision request for the
   same id — which is no v2 contract: LockV2Contract will fail after acquiring (b = true) — queue
   up; the session ends.  Quiescent outcomes: the RHP4 append was served at some point and sits in
   its body holding 5, waiting for the renter (OBHeld), with those of the other two that were
   not served before it still queued (the latest-revision handler, once served, has found no v2
   contract and returned through the manager's error path) — or the append took an early return
   and everybody is through: the table is empty. *)
Definition mixed_users : list user := [USess 0%N SLoop; UBr BIdle; UR4 R4Idle; UR4 R4Idle; UFree].

Definition mixed_obs : list uobs :=
  map uobs_of (usuccessors (usuccessors (usuccessors (usuccessors (usuccessors (usuccessors [uinit []]
        (UInit mixed_users))
        (UPar [UAct 0 (SRpcLock 5%N true false false)]))
        (UPar [UAct 1 (BEnter 5%N false false false)]))
        (UPar [UAct 2 (R4Enter K4Append 5%N false true)]))
        (UPar [UAct 3 (R4Enter K4Latest 5%N true true)]))
        (UPar [UAct 0 SClose])).

Lemma mixed_obs_value :
  mixed_obs =
  [([OSEnded; OBWait 5%N; OBHeld 5%N; OBWait 5%N; OF SIdle], [(5%N, 3, 0)]);
   ([OSEnded; OBWait 5%N; OBHeld 5%N; OBIdle; OF SIdle], [(5%N, 2, 0)]);
   ([OSEnded; OBIdle; OBHeld 5%N; OBWait 5%N; OF SIdle], [(5%N, 2, 0)]);
   ([OSEnded; OBIdle; OBHeld 5%N; OBIdle; OF SIdle], [(5%N, 1, 0)]);
   ([OSEnded; OBIdle; OBIdle; OBIdle; OF SIdle], [])].
Proof. vm_compute. reflexivity. Qed.
