(* Base.v — shared vocabulary of all hostd models.
   No proofs about hostd here: result type, checked 128-bit currency, uint64 wrap,
   Go slice bounds, association lists, and the generic correspondence checker that
   every group's Corr.v instantiates. *)
From Coq Require Export List NArith ZArith Bool Lia.
Export ListNotations.

Set Implicit Arguments.

(** * Results: Go's three ways to leave a function *)
Inductive err := ENotFound | ENotEnoughStorage | EInsufficient | EInvalid | EOther.

Definition err_eqb (a b : err) : bool :=
  match a, b with
  | ENotFound, ENotFound | ENotEnoughStorage, ENotEnoughStorage
  | EInsufficient, EInsufficient | EInvalid, EInvalid | EOther, EOther => true
  | _, _ => false
  end.

Inductive res (A : Type) := Ok (a : A) | Err (e : err) | Panic.
Arguments Err {A} e.
Arguments Panic {A}.

Definition bind {A B} (r : res A) (f : A -> res B) : res B :=
  match r with Ok a => f a | Err e => Err e | Panic => Panic end.
Notation "'do' x <- r ; k" := (bind r (fun x => k)) (at level 200, x pattern, r at level 100, k at level 200).

Definition is_ok {A} (r : res A) : bool := match r with Ok _ => true | _ => false end.
Definition is_panic {A} (r : res A) : bool := match r with Panic => true | _ => false end.

(** * Machine integers *)
Definition two64 : N := 18446744073709551616%N.
Definition two128 : N := 340282366920938463463374607431768211456%N.
Definition max64 : N := 18446744073709551615%N.
Definition max128 : N := 340282366920938463463374607431768211455%N.

(* uint64 arithmetic wraps silently in Go *)
Definition wadd (a b : N) : N := ((a + b) mod two64)%N.
Definition wsub (a b : N) : N := ((a + two64 - (b mod two64)) mod two64)%N.
Definition wmul (a b : N) : N := ((a * b) mod two64)%N.

(* types.Currency: Add/Sub/Mul64 panic on overflow/underflow *)
Definition cadd (a b : N) : res N := if (a + b <? two128)%N then Ok (a + b)%N else Panic.
Definition csub (a b : N) : res N := if (b <=? a)%N then Ok (a - b)%N else Panic.
Definition cmul64 (a b : N) : res N := if (a * b <? two128)%N then Ok (a * b)%N else Panic.
(* AddWithOverflow / SubWithUnderflow / Mul64WithOverflow *)
Definition cadd_o (a b : N) : N * bool := (((a + b) mod two128)%N, (two128 <=? a + b)%N).
Definition csub_u (a b : N) : N * bool := (((a + two128 - b) mod two128)%N, (a <? b)%N).

(* Go slice expression s[lo:hi] on a slice of length=cap len *)
Definition slice_ok (len lo hi : N) : bool := ((lo <=? hi) && (hi <=? len))%N.

(** * Association lists keyed by N *)
Section Assoc.
  Variable V : Type.
  Fixpoint alookup (k : N) (l : list (N * V)) : option V :=
    match l with
    | [] => None
    | (k', v) :: t => if (k =? k')%N then Some v else alookup k t
    end.
  Fixpoint aset (k : N) (v : V) (l : list (N * V)) : list (N * V) :=
    match l with
    | [] => [(k, v)]
    | (k', v') :: t => if (k =? k')%N then (k, v) :: t else (k', v') :: aset k v t
    end.
  Fixpoint aremove (k : N) (l : list (N * V)) : list (N * V) :=
    match l with
    | [] => []
    | (k', v') :: t => if (k =? k')%N then t else (k', v') :: aremove k t
    end.
  Definition akeys (l : list (N * V)) : list N := map fst l.
End Assoc.

(** * Generic correspondence checker
   A case is an id and a list of (operation, observation made on the implementation).
   [mismatches] replays the operations through the model's [step] and returns, for each
   case whose observations differ, (case id, index of first differing step, what the
   model says at that step). The harness-generated files evaluate this with vm_compute. *)
Section Corr.
  Variables (state op obs : Type).
  Variable init : state.
  Variable step : state -> op -> state * obs.
  Variable obs_eqb : obs -> obs -> bool.

  Fixpoint first_mismatch (s : state) (i : nat) (l : list (op * obs)) : option (nat * obs) :=
    match l with
    | [] => None
    | (o, seen) :: t =>
        let '(s', m) := step s o in
        if obs_eqb m seen then first_mismatch s' (S i) t else Some (i, m)
    end.

  Fixpoint mismatches (cs : list (N * list (op * obs))) : list (N * nat * obs) :=
    match cs with
    | [] => []
    | (id, l) :: t =>
        match first_mismatch init 0 l with
        | None => mismatches t
        | Some (i, m) => (id, i, m) :: mismatches t
        end
    end.

  Definition run (l : list op) : state := fold_left (fun s o => fst (step s o)) l init.
End Corr.

(* Same, for pure functions: a case is (id, input, observed output). *)
Section CorrFun.
  Variables (inp out : Type).
  Variable f : inp -> out.
  Variable out_eqb : out -> out -> bool.
  Fixpoint fmismatches (cs : list (N * inp * out)) : list (N * out) :=
    match cs with
    | [] => []
    | (id, i, seen) :: t =>
        let m := f i in
        if out_eqb m seen then fmismatches t else (id, m) :: fmismatches t
    end.
End CorrFun.

Definition option_eqb {A} (eqb : A -> A -> bool) (a b : option A) : bool :=
  match a, b with
  | None, None => true
  | Some x, Some y => eqb x y
  | _, _ => false
  end.

Fixpoint list_eqb {A} (eqb : A -> A -> bool) (a b : list A) : bool :=
  match a, b with
  | [], [] => true
  | x :: a', y :: b' => eqb x y && list_eqb eqb a' b'
  | _, _ => false
  end.

Definition res_eqb {A} (eqb : A -> A -> bool) (a b : res A) : bool :=
  match a, b with
  | Ok x, Ok y => eqb x y
  | Err e, Err f => err_eqb e f
  | Panic, Panic => true
  | _, _ => false
  end.
