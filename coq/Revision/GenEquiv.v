(* Revision/GenEquiv.v — the definitions tools/go2coq regenerates from rhp/contracts.go
   (gen/RevisionGen.v) are equal, for all arguments, to the hand-written model (Model.v).

   The proofs follow the MEANING of the generated definitions, not their text (GenTactics.v):
     * [equiv] unfolds both sides completely - the generated callers, the helpers the translator
       emitted, the hand-written guard [validate_std], the payout accessors down to [nth_error] -
       and splits on the scrutinee of every [if]/[match]/[let '(..)] of either side (innermost
       first, re-using what is known: literally, a comparison the other way round, a list access
       whose length the checks passed so far have bounded); the leaves are closed with
       reflexivity / congruence / lia.  What a guard has established (list lengths above all) is in
       the context of everything behind it as a case split: an accessor hoisted into a local above
       the checks that use it is seen not to panic BECAUSE validateStdRevision accepted, not
       because of a lemma about the order of today's statements;
     * loops: the generic combinator [for_range] is proved equal to each hand-written fixpoint
       ONCE, for any body that agrees pointwise with the fixpoint's step; the pointwise
       agreement of the generated body is again shown by case split.  [loop_facts]: a model loop
       fails only with the model's error and panics only when the slice walked in step is
       shorter - so the order of independent loops does not matter either.
   Harmless rewrites of the Go code that still prove (refactors/R2-*, refactors/T3-*,
   tools/go2coq/tests/h*.diff): locals hoisted or introduced, renamed locals, Cmp written the other
   way round, conditions merged / split / negated (De Morgan), comparisons restated
   (len != 2 as len < 2 || len > 2), independent checks or loops reordered, switch <-> if chain,
   nested success path, helpers inlined or extracted, range-by-value, functions moved between
   files.  A change of behaviour does not (tools/go2coq/tests/b*.diff): in particular a Panic is never
   identified with an error, so an accessor hoisted ABOVE its guard is refused. *)
From Coq Require Import Lia ZifyBool ZifyN ZifyNat.
From HostdBase Require Import Base.
From HostdRevision Require Import Model GenPrelude.
From HostdRevision Require Export GenTactics.
From HostdRevision.gen Require Import RevisionGen.
Local Open Scope N_scope.

(** * the case-splitting tactic: GenTactics.v *)

(* vocabulary shared by both sides: unfolded so that only N/nat comparisons, the checked
   arithmetic and [nth_error] remain opaque *)
Ltac unfold_common :=
  repeat autounfold with go2coq in *;
  unfold bad, bind, negb, andb, orb, Bool.eqb in *.
Ltac unfold_accessors :=
  unfold valid_renter, valid_host, missed_renter, missed_host, nth_out, nth_res, bind in *.

(** * loops *)

Lemma for_range_from_ext : forall A St (b1 b2 : nat -> A -> St -> res St) xs k s,
  (forall j x s, nth_error xs j = Some x -> b1 (k + j)%nat x s = b2 (k + j)%nat x s) ->
  for_range_from b1 k xs s = for_range_from b2 k xs s.
Proof.
  induction xs as [|x t IH]; intros k s H; cbn [for_range_from]; [reflexivity|].
  pose proof (H 0%nat x s eq_refl) as H0. rewrite Nat.add_0_r in H0. rewrite H0.
  destruct (b2 k x s); cbn [bind]; try reflexivity.
  apply IH. intros j y s' Hj. rewrite Nat.add_succ_comm. apply H. exact Hj.
Qed.

(* the overflow flag a summing loop leaves behind: untouched without iterations, false after one *)
Definition loop_flag {A} (xs : list A) (ov : bool) : bool :=
  match xs with [] => ov | _ => false end.

(* one iteration of the loops of validateStdRevision *)
Definition sum_step (o : output) (a : N) : res (N * bool) :=
  let '(s, ov) := cadd_o a (oval o) in if ov then Err EInvalid else Ok (s, ov).
Definition addr_sum_step (r c : output) (a : N) : res (N * bool) :=
  if negb (oaddr r =? oaddr c) then Err EInvalid else sum_step r a.
Definition opt_res {A} (o : option A) : res A := match o with Some x => Ok x | None => Panic end.

Lemma sum_o_loop_from : forall xs k body acc ov,
  (forall j o a v, nth_error xs j = Some o -> body (k + j)%nat o (a, v) = sum_step o a) ->
  for_range_from body k xs (acc, ov) = do a <- sum_o acc xs; Ok (a, loop_flag xs ov).
Proof.
  induction xs as [|o t IH]; intros k body acc ov H; cbn [for_range_from sum_o]; [reflexivity|].
  pose proof (H 0%nat o acc ov eq_refl) as H0. rewrite Nat.add_0_r in H0. rewrite H0.
  unfold sum_step. destruct (cadd_o acc (oval o)) as [s v]. destruct v; cbn [bind]; [reflexivity|].
  rewrite (IH (S k) body s false).
  - destruct (sum_o s t); cbn [bind]; try reflexivity. destruct t; reflexivity.
  - intros j o' a v Hj. rewrite Nat.add_succ_comm. apply H. exact Hj.
Qed.

Lemma for_range_sum_o : forall xs body acc ov,
  (forall i o a v, nth_error xs i = Some o -> body i o (a, v) = sum_step o a) ->
  for_range xs (acc, ov) body = do a <- sum_o acc xs; Ok (a, loop_flag xs ov).
Proof. intros; unfold for_range; apply sum_o_loop_from; intros; cbn [Nat.add]; auto. Qed.

Lemma addr_sum_loop_from : forall revs curs k body acc ov,
  (forall j r a v, nth_error revs j = Some r ->
     body (k + j)%nat r (a, v) = do c <- opt_res (nth_error curs j); addr_sum_step r c a) ->
  for_range_from body k revs (acc, ov) = do a <- addr_sum acc revs curs; Ok (a, loop_flag revs ov).
Proof.
  induction revs as [|r t IH]; intros curs k body acc ov H; cbn [for_range_from addr_sum]; [reflexivity|].
  pose proof (H 0%nat r acc ov eq_refl) as H0. rewrite Nat.add_0_r in H0. rewrite H0.
  destruct curs as [|c ct]; cbn [nth_error opt_res bind]; [reflexivity|].
  unfold addr_sum_step, sum_step, bad.
  destruct (negb (oaddr r =? oaddr c)); cbn [bind]; [reflexivity|].
  destruct (cadd_o acc (oval r)) as [s v]. destruct v; cbn [bind]; [reflexivity|].
  rewrite (IH ct (S k) body s false).
  - destruct (addr_sum s t ct); cbn [bind]; try reflexivity. destruct t; reflexivity.
  - intros j r' a v Hj. rewrite Nat.add_succ_comm. apply (H (S j)). exact Hj.
Qed.

Lemma for_range_addr_sum : forall revs curs body acc ov,
  (forall i r a v, nth_error revs i = Some r ->
     body i r (a, v) = do c <- nth_out curs i; addr_sum_step r c a) ->
  for_range revs (acc, ov) body = do a <- addr_sum acc revs curs; Ok (a, loop_flag revs ov).
Proof.
  intros revs curs body acc ov H; unfold for_range; apply addr_sum_loop_from.
  intros j r a v Hj; cbn [Nat.add]; rewrite (H _ _ _ _ Hj); reflexivity.
Qed.

(* the same two loops when only the sum is carried (the flag is local to the body) *)
Definition sum_step1 (o : output) (a : N) : res N :=
  let '(s, ov) := cadd_o a (oval o) in if ov then Err EInvalid else Ok s.
Definition addr_sum_step1 (r c : output) (a : N) : res N :=
  if negb (oaddr r =? oaddr c) then Err EInvalid else sum_step1 r a.

Lemma sum_o_loop_from1 : forall xs k body acc,
  (forall j o a, nth_error xs j = Some o -> body (k + j)%nat o a = sum_step1 o a) ->
  for_range_from body k xs acc = sum_o acc xs.
Proof.
  induction xs as [|o t IH]; intros k body acc H; cbn [for_range_from sum_o]; [reflexivity|].
  pose proof (H 0%nat o acc eq_refl) as H0. rewrite Nat.add_0_r in H0. rewrite H0.
  unfold sum_step1. destruct (cadd_o acc (oval o)) as [s v]. destruct v; cbn [bind]; [reflexivity|].
  apply IH. intros j o' a Hj. rewrite Nat.add_succ_comm. apply H. exact Hj.
Qed.

Lemma for_range_sum_o1 : forall xs body acc,
  (forall i o a, nth_error xs i = Some o -> body i o a = sum_step1 o a) ->
  for_range xs acc body = sum_o acc xs.
Proof. intros; unfold for_range; apply sum_o_loop_from1; intros; cbn [Nat.add]; auto. Qed.

Lemma addr_sum_loop_from1 : forall revs curs k body acc,
  (forall j r a, nth_error revs j = Some r ->
     body (k + j)%nat r a = do c <- opt_res (nth_error curs j); addr_sum_step1 r c a) ->
  for_range_from body k revs acc = addr_sum acc revs curs.
Proof.
  induction revs as [|r t IH]; intros curs k body acc H; cbn [for_range_from addr_sum]; [reflexivity|].
  pose proof (H 0%nat r acc eq_refl) as H0. rewrite Nat.add_0_r in H0. rewrite H0.
  destruct curs as [|c ct]; cbn [nth_error opt_res bind]; [reflexivity|].
  unfold addr_sum_step1, sum_step1, bad.
  destruct (negb (oaddr r =? oaddr c)); cbn [bind]; [reflexivity|].
  destruct (cadd_o acc (oval r)) as [s v]. destruct v; cbn [bind]; [reflexivity|].
  apply IH. intros j r' a Hj. rewrite Nat.add_succ_comm. apply (H (S j)). exact Hj.
Qed.

Lemma for_range_addr_sum1 : forall revs curs body acc,
  (forall i r a, nth_error revs i = Some r ->
     body i r a = do c <- nth_out curs i; addr_sum_step1 r c a) ->
  for_range revs acc body = addr_sum acc revs curs.
Proof.
  intros revs curs body acc H; unfold for_range; apply addr_sum_loop_from1.
  intros j r a Hj; cbn [Nat.add]; rewrite (H _ _ _ Hj); reflexivity.
Qed.

(* one iteration of the loop of ValidateClearingRevision *)
Definition clearing_step (v c m : output) : res unit :=
  if negb (oaddr v =? oaddr c) then Err EInvalid else
  if negb (oaddr v =? oaddr m) then Err EInvalid else
  if negb (oval v =? oval m) then Err EInvalid else Ok tt.

Lemma clearing_loop_from : forall fv cv fm k body,
  (forall j v u, nth_error fv j = Some v ->
     body (k + j)%nat v u =
     do c <- opt_res (nth_error cv j); do m <- opt_res (nth_error fm j); clearing_step v c m) ->
  for_range_from body k fv tt = clearing_loop fv cv fm.
Proof.
  induction fv as [|v t IH]; intros cv fm k body H; cbn [for_range_from clearing_loop]; [reflexivity|].
  pose proof (H 0%nat v tt eq_refl) as H0. rewrite Nat.add_0_r in H0. rewrite H0.
  destruct cv as [|c ct]; cbn [nth_error opt_res bind]; [reflexivity|].
  destruct fm as [|m mt]; cbn [nth_error opt_res bind]; [reflexivity|].
  unfold clearing_step, bad.
  destruct (negb (oaddr v =? oaddr c)); cbn [bind]; [reflexivity|].
  destruct (negb (oaddr v =? oaddr m)); cbn [bind]; [reflexivity|].
  destruct (negb (oval v =? oval m)); cbn [bind]; [reflexivity|].
  apply IH. intros j v' u Hj. rewrite Nat.add_succ_comm. apply (H (S j)). exact Hj.
Qed.

Lemma for_range_clearing : forall fv cv fm body,
  (forall i v u, nth_error fv i = Some v ->
     body i v u = do c <- nth_out cv i; do m <- nth_out fm i; clearing_step v c m) ->
  for_range fv tt body = clearing_loop fv cv fm.
Proof.
  intros fv cv fm body H; unfold for_range; apply clearing_loop_from.
  intros j v u Hj; cbn [Nat.add]; rewrite (H _ _ _ Hj); reflexivity.
Qed.

(** * what the loops of the hand-written model cannot do: a loop that walks two slices in step
   panics only when the second is shorter (the code compares the lengths first), a sum or a fill
   never fails otherwise.  With these facts the ORDER of independent loops does not matter. *)

Lemma sum_o_no_panic : forall l a, sum_o a l <> Panic.
Proof.
  induction l as [|o t IH]; intros a; cbn [sum_o]; [discriminate|].
  destruct (cadd_o a (oval o)) as [s v]. destruct v; [discriminate|apply IH].
Qed.

Lemma addr_sum_panic_len : forall revs curs a,
  addr_sum a revs curs = Panic -> (length curs < length revs)%nat.
Proof.
  induction revs as [|r t IH]; intros curs a; cbn [addr_sum]; [discriminate|].
  destruct curs as [|c ct]; [cbn; lia|].
  destruct (negb (oaddr r =? oaddr c)); [discriminate|].
  destruct (cadd_o a (oval r)) as [s v]. destruct v; [discriminate|].
  intros H. apply IH in H. cbn [length]. lia.
Qed.

Lemma clearing_loop_panic_len : forall fv cv fm,
  clearing_loop fv cv fm = Panic -> (length cv < length fv)%nat \/ (length fm < length fv)%nat.
Proof.
  induction fv as [|v t IH]; intros cv fm; cbn [clearing_loop]; [discriminate|].
  destruct cv as [|c ct]; [cbn; lia|]. destruct fm as [|m mt]; [cbn; lia|].
  destruct (negb (oaddr v =? oaddr c)); [discriminate|].
  destruct (negb (oaddr v =? oaddr m)); [discriminate|].
  destruct (negb (oval v =? oval m)); [discriminate|].
  intros H. apply IH in H. cbn [length]. lia.
Qed.

Lemma with_values_panic_len : forall vs old,
  with_values old vs = Panic -> (length old < length vs)%nat.
Proof.
  induction vs as [|x t IH]; intros [|o ot]; cbn [with_values]; try discriminate; [cbn; lia|].
  destruct (with_values ot t) eqn:E; cbn [bind]; try discriminate.
  intros _. apply IH in E. cbn [length]. lia.
Qed.

Lemma with_values_no_err : forall vs old e, with_values old vs <> Err e.
Proof.
  induction vs as [|x t IH]; intros [|o ot] e; cbn [with_values]; try discriminate.
  destruct (with_values ot t) eqn:E; cbn [bind]; try discriminate.
  intros _. exact (IH _ _ E).
Qed.

(* every error of a model loop is the one error value of the model *)
Lemma sum_o_err : forall l a e, sum_o a l = Err e -> e = EInvalid.
Proof.
  induction l as [|o t IH]; intros a e; cbn [sum_o]; [discriminate|].
  destruct (cadd_o a (oval o)) as [s v]. destruct v; [unfold bad; congruence|apply IH].
Qed.

Lemma addr_sum_err : forall revs curs a e, addr_sum a revs curs = Err e -> e = EInvalid.
Proof.
  induction revs as [|r t IH]; intros curs a e; cbn [addr_sum]; [discriminate|].
  destruct curs as [|c ct]; [discriminate|].
  destruct (negb (oaddr r =? oaddr c)); [unfold bad; congruence|].
  destruct (cadd_o a (oval r)) as [s v]. destruct v; [unfold bad; congruence|apply IH].
Qed.

Lemma clearing_loop_err : forall fv cv fm e, clearing_loop fv cv fm = Err e -> e = EInvalid.
Proof.
  induction fv as [|v t IH]; intros cv fm e; cbn [clearing_loop]; [discriminate|].
  destruct cv as [|c ct]; [discriminate|]. destruct fm as [|m mt]; [discriminate|].
  destruct (negb (oaddr v =? oaddr c)); [unfold bad; congruence|].
  destruct (negb (oaddr v =? oaddr m)); [unfold bad; congruence|].
  destruct (negb (oval v =? oval m)); [unfold bad; congruence|].
  apply IH.
Qed.

Ltac loop_facts :=
  repeat match goal with
  | H : sum_o _ _ = Err ?e |- _ => is_var e; pose proof (sum_o_err _ _ _ H); subst e
  | H : addr_sum _ _ _ = Err ?e |- _ => is_var e; pose proof (addr_sum_err _ _ _ _ H); subst e
  | H : clearing_loop _ _ _ = Err ?e |- _ => is_var e; pose proof (clearing_loop_err _ _ _ _ H); subst e
  | H : sum_o _ _ = Panic |- _ => exfalso; exact (sum_o_no_panic _ _ H)
  | H : with_values _ _ = Err _ |- _ => exfalso; exact (with_values_no_err _ _ _ H)
  | H : addr_sum ?a ?r ?c = Panic |- _ =>
      lazymatch goal with
      | _ : (length c < length r)%nat |- _ => fail
      | _ => pose proof (addr_sum_panic_len _ _ _ H)
      end
  | H : with_values ?o ?v = Panic |- _ =>
      lazymatch goal with
      | _ : (length o < length v)%nat |- _ => fail
      | _ => pose proof (with_values_panic_len _ _ H)
      end
  | H : clearing_loop ?f ?c ?m = Panic |- _ =>
      lazymatch goal with
      | _ : (length c < length f)%nat \/ (length m < length f)%nat |- _ => fail
      | _ => pose proof (clearing_loop_panic_len _ _ _ H)
      end
  end.
Ltac model_facts ::= loop_facts.

(** * the validators *)

Ltac loop_body :=
  intros; unfold addr_sum_step, addr_sum_step1, clearing_step; unfold sum_step, sum_step1; unfold_common; unfold_accessors; split_all.

(* replace every loop by the hand-written fixpoint it is equal to (candidates for the list the
   loop walks in step with: the output lists of both revisions) *)
Ltac loops cur rv :=
  repeat match goal with
  | |- context [for_range ?xs (?a, ?o) ?b] =>
      first [ rewrite (for_range_sum_o xs b a o) by loop_body
            | rewrite (for_range_addr_sum xs (rvalid cur) b a o) by loop_body
            | rewrite (for_range_addr_sum xs (rmissed cur) b a o) by loop_body
            | rewrite (for_range_addr_sum xs (rvalid rv) b a o) by loop_body
            | rewrite (for_range_addr_sum xs (rmissed rv) b a o) by loop_body ]
  | |- context [for_range ?xs ?a ?b] =>
      lazymatch type of a with
      | N =>
        first [ rewrite (for_range_sum_o1 xs b a) by loop_body
              | rewrite (for_range_addr_sum1 xs (rvalid cur) b a) by loop_body
              | rewrite (for_range_addr_sum1 xs (rmissed cur) b a) by loop_body
              | rewrite (for_range_addr_sum1 xs (rvalid rv) b a) by loop_body
              | rewrite (for_range_addr_sum1 xs (rmissed rv) b a) by loop_body ]
      end
  | |- context [for_range ?xs tt ?b] =>
      first [ rewrite (for_range_clearing xs (rvalid cur) (rmissed rv) b) by loop_body
            | rewrite (for_range_clearing xs (rvalid cur) (rmissed cur) b) by loop_body
            | rewrite (for_range_clearing xs (rvalid rv) (rmissed rv) b) by loop_body
            | rewrite (for_range_clearing xs (rvalid rv) (rmissed cur) b) by loop_body ]
  end.

(* the hand-written guard [validate_std] is unfolded on both sides (the generated callers are
   rewritten to it first): what it has checked - list lengths above all - is then in the context
   of everything that follows it, in whatever order the code reads the payouts *)
Ltac equiv cur rv :=
  solve [unfold validate_std in *; unfold_common; unfold_accessors; split_all_l ltac:(loops cur rv)].

Lemma validateStdRevision_eq : forall cur rv, validateStdRevision cur rv = validate_std cur rv.
Proof. intros cur rv. unfold validateStdRevision, validate_std. Time equiv cur rv. Qed.

Lemma ValidateRevision_eq : forall cur rv payment collateral,
  ValidateRevision cur rv payment collateral = validate_revision cur rv payment collateral.
Proof.
  intros cur rv payment collateral. unfold ValidateRevision, validate_revision.
  rewrite ?validateStdRevision_eq. Time equiv cur rv.
Qed.

Lemma ValidateProgramRevision_eq : forall cur rv storage collateral,
  ValidateProgramRevision cur rv storage collateral = validate_program cur rv storage collateral.
Proof.
  intros cur rv storage collateral. unfold ValidateProgramRevision, validate_program.
  rewrite ?validateStdRevision_eq. Time equiv cur rv.
Qed.

Lemma ValidatePaymentRevision_eq : forall cur rv payment,
  ValidatePaymentRevision cur rv payment = validate_payment cur rv payment.
Proof.
  intros cur rv payment. unfold ValidatePaymentRevision, validate_payment.
  rewrite ?validateStdRevision_eq. Time equiv cur rv.
Qed.

Lemma ValidateClearingRevision_eq : forall cur fin payment,
  ValidateClearingRevision cur fin payment = validate_clearing cur fin payment.
Proof.
  intros cur fin payment. unfold ValidateClearingRevision, validate_clearing. Time equiv cur fin.
Qed.

(** * Revise / ClearingRevision: the element-wise fill of a freshly made output slice *)

Lemma nth_error_set_nth_same : forall A (l : list A) i v e,
  nth_error l i = Some e -> nth_error (set_nth l i v) i = Some v.
Proof.
  induction l as [|h t IH]; intros [|i] v e H; cbn in *; try discriminate; [reflexivity|].
  eapply IH; eauto.
Qed.

Lemma set_nth_twice : forall A (l : list A) i v w, set_nth (set_nth l i v) i w = set_nth l i w.
Proof. induction l as [|h t IH]; intros [|i] v w; cbn; try reflexivity. f_equal; apply IH. Qed.

Lemma set_nth_app : forall A (done : list A) e todo v,
  set_nth (done ++ e :: todo) (length done) v = done ++ v :: todo.
Proof. induction done as [|h t IH]; intros; cbn; [reflexivity|]. f_equal; apply IH. Qed.

Lemma nth_error_app_here : forall A (done : list A) e todo,
  nth_error (done ++ e :: todo) (length done) = Some e.
Proof. induction done as [|h t IH]; intros; cbn; [reflexivity|apply IH]. Qed.

(* one iteration: out[i].Address = old[i].Address; out[i].Value = values[i] *)
Definition fill_step (old : list output) (i : nat) (x : N) (l : list output) : res (list output) :=
  do o <- nth_out old i; Ok (set_nth l i {| oaddr := oaddr o; oval := x |}).

Section Fill.
  Variable get : rev -> list output.
  Variable set : rev -> list output -> rev.
  Hypothesis get_set : forall r l, get (set r l) = l.
  Hypothesis set_set : forall r a b, set (set r a) b = set r b.
  Hypothesis set_get : forall r, set r (get r) = r.

  Lemma fill_loop_from : forall vs old body done todo r,
    get r = done ++ todo -> length todo = length vs ->
    (forall j x r e, nth_error vs j = Some x -> nth_error (get r) (length done + j) = Some e ->
       body (length done + j)%nat x r =
       do o <- opt_res (nth_error old j);
       Ok (set r (set_nth (get r) (length done + j) {| oaddr := oaddr o; oval := x |}))) ->
    for_range_from body (length done) vs r = do v <- with_values old vs; Ok (set r (done ++ v)).
  Proof.
    induction vs as [|x vt IH]; intros old body done todo r Hg Hl H; cbn [for_range_from with_values bind].
    - destruct todo; [|discriminate]. destruct old; cbn [with_values bind]; rewrite <- Hg, set_get; reflexivity.
    - destruct todo as [|e todo]; [discriminate|].
      assert (He : nth_error (get r) (length done + 0) = Some e)
        by (rewrite Nat.add_0_r, Hg; apply nth_error_app_here).
      pose proof (H 0%nat x r e eq_refl He) as H0. rewrite Nat.add_0_r in H0. rewrite H0.
      destruct old as [|o ot]; cbn [nth_error opt_res bind with_values]; [reflexivity|].
      rewrite Hg, set_nth_app.
      set (new := {| oaddr := oaddr o; oval := x |}).
      replace (S (length done)) with (length (done ++ [new])) by (rewrite app_length; cbn; lia).
      rewrite (IH ot body (done ++ [new]) todo).
      + destruct (with_values ot vt); cbn [bind]; try reflexivity.
        rewrite set_set, <- app_assoc. reflexivity.
      + rewrite get_set, <- app_assoc. reflexivity.
      + cbn in Hl; lia.
      + intros j y r' e' Hj He'.
        replace (length (done ++ [new]) + j)%nat with (length done + S j)%nat in *
          by (rewrite app_length; cbn; lia).
        apply (H (S j) y r' e'); assumption.
  Qed.

  Lemma for_range_fill : forall vs old body r,
    length (get r) = length vs ->
    (forall i x r e, nth_error vs i = Some x -> nth_error (get r) i = Some e ->
       body i x r = do o <- nth_out old i; Ok (set r (set_nth (get r) i {| oaddr := oaddr o; oval := x |}))) ->
    for_range vs r body = do v <- with_values old vs; Ok (set r v).
  Proof.
    intros vs old body r Hl H. unfold for_range.
    apply (fill_loop_from vs old body [] (get r) r); [reflexivity|assumption|].
    intros j x r' e Hj He; cbn [length Nat.add] in *. rewrite (H _ _ _ _ Hj He). reflexivity.
  Qed.
End Fill.

Lemma for_range_fill_valid : forall vs old body r,
  length (rvalid r) = length vs ->
  (forall i x r e, nth_error vs i = Some x -> nth_error (rvalid r) i = Some e ->
     body i x r = do o <- nth_out old i; Ok (set_rvalid r (set_nth (rvalid r) i {| oaddr := oaddr o; oval := x |}))) ->
  for_range vs r body = do v <- with_values old vs; Ok (set_rvalid r v).
Proof.
  apply (for_range_fill rvalid set_rvalid); try reflexivity. intros []; reflexivity.
Qed.

Lemma for_range_fill_missed : forall vs old body r,
  length (rmissed r) = length vs ->
  (forall i x r e, nth_error vs i = Some x -> nth_error (rmissed r) i = Some e ->
     body i x r = do o <- nth_out old i; Ok (set_rmissed r (set_nth (rmissed r) i {| oaddr := oaddr o; oval := x |}))) ->
  for_range vs r body = do v <- with_values old vs; Ok (set_rmissed r v).
Proof.
  apply (for_range_fill rmissed set_rmissed); try reflexivity. intros []; reflexivity.
Qed.

Ltac norm_rev :=
  cbn [rvalid rmissed rother ruc rsize rroot rws rwe ruh rnum oaddr oval
       set_rvalid set_rmissed set_rnum set_rsize set_rroot set_rws set_rwe set_ruh set_oaddr set_oval
       set_outputs] in *.

Ltac fill_body :=
  intros; unfold_common; unfold_accessors; simp; norm_rev;
  repeat first [ erewrite nth_error_set_nth_same by eassumption
               | rewrite set_nth_twice
               | progress norm_rev
               | split_step ];
  leaf.

Ltac fill_len := norm_rev; unfold mk_outputs; apply repeat_length.

(* candidates for the slice the addresses are copied from: the outputs of the original revision *)
Ltac fills r0 :=
  repeat match goal with
  | |- context [for_range ?vs ?r ?b] =>
      first [ rewrite (for_range_fill_valid vs (rvalid r0) b r) by (first [fill_len | fill_body])
            | rewrite (for_range_fill_missed vs (rmissed r0) b r) by (first [fill_len | fill_body])
            | rewrite (for_range_fill_valid vs (rmissed r0) b r) by (first [fill_len | fill_body])
            | rewrite (for_range_fill_missed vs (rvalid r0) b r) by (first [fill_len | fill_body]) ]
  end.

Ltac rev_leaf := first [ leaf | norm_rev; leaf | norm_rev; f_equal; leaf ].

Ltac equiv_rev r0 :=
  unfold_common; simp; norm_rev;
  repeat first [ progress fills r0 | progress (try unfold bind; simp; norm_rev) | split_step ];
  rev_leaf.

Lemma Revise_eq : forall r num vs ms, Revise r num vs ms = revise r num vs ms.
Proof. intros r num vs ms. unfold Revise, revise. Time equiv_rev r. Qed.

Lemma ClearingRevision_eq : forall r vs, ClearingRevision r vs = clearing_revision r vs.
Proof. intros r vs. unfold ClearingRevision, clearing_revision. Time equiv_rev r. Qed.
