(* Revision/Proofs.v — lemmas about the model of rhp/contracts.go (patched).  *)
From Coq Require Import Lia ZifyBool ZifyN ZifyNat.
From HostdBase Require Import Base.
From HostdRevision Require Import Model.
Local Open Scope N_scope.

(** * vocabulary of the statements *)

(* sum of the output values, unbounded *)
Definition sumv (l : list output) : N := fold_right (fun o a => oval o + a) 0 l.

(* value of output i (0 when there is none) *)
Definition val_at (l : list output) (i : nat) : N :=
  match nth_error l i with Some o => oval o | None => 0 end.

Definition vr (r : rev) := val_at (rvalid r) 0.     (* renter valid payout *)
Definition vh (r : rev) := val_at (rvalid r) 1.     (* host valid payout *)
Definition mr (r : rev) := val_at (rmissed r) 0.    (* renter missed payout *)
Definition mh (r : rev) := val_at (rmissed r) 1.    (* host missed payout *)
Definition mvoid (r : rev) := val_at (rmissed r) 2. (* void (burn) output *)

(* Go's types: Currency is 128 bit, revision numbers and heights 64 bit *)
Definition inrange (r : rev) : Prop :=
  Forall (fun o => oval o < two128) (rvalid r) /\ Forall (fun o => oval o < two128) (rmissed r).

(* shape of a contract the host stores: renter+host valid outputs, renter+host+void missed *)
Definition shape23 (r : rev) : Prop := length (rvalid r) = 2%nat /\ length (rmissed r) = 3%nat.
(* ... whose valid and missed payouts have the same sum (consensus rule for file contracts) *)
Definition wf (r : rev) : Prop := shape23 r /\ sumv (rvalid r) = sumv (rmissed r).

(* what every accepted standard revision satisfies *)
Record std_ok (cur rv : rev) : Prop := {
  so_num    : rnum cur < rnum rv;
  so_uh     : ruh rv = ruh cur;
  so_uc     : ruc rv = ruc cur;
  so_ws     : rws rv = rws cur;
  so_we     : rwe rv = rwe cur;
  so_nvalid : length (rvalid rv) = length (rvalid cur);
  so_nmissed: length (rmissed rv) = length (rmissed cur);
  so_two_v  : (2 <= length (rvalid cur))%nat;
  so_two_m  : (2 <= length (rmissed cur))%nat;
  so_vaddr  : map oaddr (rvalid rv) = map oaddr (rvalid cur);
  so_maddr  : map oaddr (rmissed rv) = map oaddr (rmissed cur);
  so_vsum   : sumv (rvalid rv) = sumv (rvalid cur);
  so_msum   : sumv (rmissed rv) = sumv (rvalid cur);
  so_bound  : sumv (rvalid cur) < two128;
  so_vr     : vr rv <= vr cur;
  so_mr     : mr rv <= mr cur;
  so_eq     : vr rv = mr rv
}.

(** * arithmetic helpers *)

Lemma cadd_o_false : forall a b s, cadd_o a b = (s, false) -> s = a + b /\ a + b < two128.
Proof.
  unfold cadd_o; intros a b s H; inversion H as [[Hs Hov]]; clear H.
  apply N.leb_gt in Hov. split; [apply N.mod_small|]; lia.
Qed.

Lemma cadd_o_true : forall a b s, cadd_o a b = (s, true) -> two128 <= a + b.
Proof. unfold cadd_o; intros a b s H; inversion H as [[Hs Hov]]; lia. Qed.

Lemma two128_pos : 0 < two128. Proof. reflexivity. Qed.

Lemma csub_u_false : forall a b d, a < two128 -> csub_u a b = (d, false) -> b <= a /\ d = a - b.
Proof.
  unfold csub_u; intros a b d Ha H; inversion H as [[Hd Hu]]; clear H.
  assert (b <= a) by lia. split; [assumption|].
  replace (a + two128 - b) with ((a - b) + 1 * two128) by lia.
  rewrite N.mod_add by (pose proof two128_pos; lia). apply N.mod_small; lia.
Qed.

Lemma csub_u_true : forall a b d, csub_u a b = (d, true) -> a < b.
Proof. unfold csub_u; intros a b d H; inversion H; lia. Qed.

(** * lists *)

Lemma sumv_cons : forall o l, sumv (o :: l) = oval o + sumv l.
Proof. reflexivity. Qed.

Lemma sumv_le_elem : forall l i, val_at l i <= sumv l.
Proof.
  induction l as [|o l IH]; intros i.
  - unfold val_at. destruct i; cbn; lia.
  - rewrite sumv_cons. destruct i as [|i].
    + unfold val_at; cbn [nth_error]. lia.
    + specialize (IH i). unfold val_at in *; cbn [nth_error]. lia.
Qed.

Lemma sum_o_ok : forall l acc s, sum_o acc l = Ok s -> s = acc + sumv l.
Proof.
  induction l as [|o l IH]; intros acc s H; cbn [sum_o] in H.
  - inversion H; cbn; lia.
  - destruct (cadd_o acc (oval o)) as [s' ov] eqn:E. destruct ov; [discriminate|].
    apply cadd_o_false in E as [-> _]. apply IH in H. rewrite sumv_cons; lia.
Qed.

Lemma sum_o_bound : forall l acc s, acc < two128 -> sum_o acc l = Ok s -> s < two128.
Proof.
  induction l as [|o l IH]; intros acc s Ha H; cbn [sum_o] in H.
  - inversion H; subst; assumption.
  - destruct (cadd_o acc (oval o)) as [s' ov] eqn:E. destruct ov; [discriminate|].
    apply cadd_o_false in E as [-> Hb]. eapply IH; eauto.
Qed.

Lemma sum_o_no_panic : forall l acc, sum_o acc l <> Panic.
Proof.
  induction l as [|o l IH]; intros acc; cbn [sum_o]; [discriminate|].
  destruct (cadd_o acc (oval o)) as [s' ov]. destruct ov; [discriminate|apply IH].
Qed.

Lemma addr_sum_ok : forall revs curs acc s,
  length revs = length curs -> addr_sum acc revs curs = Ok s ->
  map oaddr revs = map oaddr curs /\ s = acc + sumv revs.
Proof.
  induction revs as [|r revs IH]; intros [|c curs] acc s Hl H; cbn [addr_sum] in H; try discriminate Hl.
  - inversion H; cbn; split; [reflexivity|lia].
  - destruct (negb (oaddr r =? oaddr c)) eqn:Ea; [discriminate|].
    destruct (cadd_o acc (oval r)) as [s' ov] eqn:E. destruct ov; [discriminate|].
    apply cadd_o_false in E as [-> _]. apply IH in H as [Hm ->]; [|cbn in Hl; lia].
    split; [cbn [map]; f_equal; [lia|assumption] | rewrite sumv_cons; lia].
Qed.

Lemma addr_sum_bound : forall revs curs acc s,
  acc < two128 -> addr_sum acc revs curs = Ok s -> s < two128.
Proof.
  induction revs as [|r revs IH]; intros [|c curs] acc s Ha H; cbn [addr_sum] in H; try discriminate.
  - inversion H; subst; assumption.
  - inversion H; subst; assumption.
  - destruct (negb (oaddr r =? oaddr c)); [discriminate|].
    destruct (cadd_o acc (oval r)) as [s' ov] eqn:E. destruct ov; [discriminate|].
    apply cadd_o_false in E as [-> Hb]. eapply IH; eauto.
Qed.

Lemma addr_sum_no_panic : forall revs curs acc,
  (length revs <= length curs)%nat -> addr_sum acc revs curs <> Panic.
Proof.
  induction revs as [|r revs IH]; intros [|c curs] acc Hl; cbn [addr_sum]; try discriminate.
  - cbn in Hl; lia.
  - destruct (negb (oaddr r =? oaddr c)); [discriminate|].
    destruct (cadd_o acc (oval r)) as [s' ov]. destruct ov; [discriminate|].
    apply IH; cbn in Hl; lia.
Qed.

Lemma len_ge2 : forall (l : list output), (2 <= length l)%nat -> exists a b t, l = a :: b :: t.
Proof. intros [|a [|b t]] H; cbn in H; try lia; eauto. Qed.

Lemma len_eq2 : forall (l : list output), length l = 2%nat -> exists a b, l = [a; b].
Proof. intros [|a [|b [|c t]]] H; cbn in H; try lia; eauto. Qed.

Lemma len_eq3 : forall (l : list output), length l = 3%nat -> exists a b c, l = [a; b; c].
Proof. intros [|a [|b [|c [|d t]]]] H; cbn in H; try lia; eauto. Qed.

Lemma nth_out_ok : forall l i o, nth_out l i = Ok o -> nth_error l i = Some o.
Proof. unfold nth_out; intros l i o H; destruct (nth_error l i); inversion H; reflexivity. Qed.

Lemma nth_out_val : forall l i o, nth_out l i = Ok o -> oval o = val_at l i.
Proof. intros l i o H; apply nth_out_ok in H; unfold val_at; rewrite H; reflexivity. Qed.

Lemma nth_out_lt : forall l i, (i < length l)%nat -> exists o, nth_out l i = Ok o.
Proof.
  intros l i H; unfold nth_out. destruct (nth_error l i) eqn:E; [eauto|].
  apply nth_error_None in E; lia.
Qed.

Lemma nth_out_not_err : forall l i e, nth_out l i <> Err e.
Proof. unfold nth_out; intros l i e; destruct (nth_error l i); discriminate. Qed.

Lemma val_at_inrange : forall l i, Forall (fun o => oval o < two128) l -> val_at l i < two128.
Proof.
  intros l i H; unfold val_at. destruct (nth_error l i) eqn:E; [|reflexivity].
  apply nth_error_In in E. rewrite Forall_forall in H. apply H; assumption.
Qed.

(** accessor facts, in terms of [val_at] *)
Lemma acc_ok : forall l i x, (do o <- nth_out l i; Ok (oval o)) = Ok x -> x = val_at l i /\ (i < length l)%nat.
Proof.
  intros l i x H. destruct (nth_out l i) eqn:E; cbn [bind] in H; try discriminate.
  inversion H; subst. split; [apply nth_out_val; assumption|].
  apply nth_out_ok in E. apply nth_error_Some. congruence.
Qed.

Lemma acc_eval : forall l i, (i < length l)%nat -> (do o <- nth_out l i; Ok (oval o)) = Ok (val_at l i).
Proof.
  intros l i H. destruct (nth_out_lt l i H) as [o E]. rewrite E; cbn [bind].
  f_equal; apply nth_out_val; assumption.
Qed.

Lemma valid_renter_eval : forall r, (2 <= length (rvalid r))%nat -> valid_renter r = Ok (vr r).
Proof. intros; apply acc_eval; lia. Qed.
Lemma valid_host_eval : forall r, (2 <= length (rvalid r))%nat -> valid_host r = Ok (vh r).
Proof. intros; apply acc_eval; lia. Qed.
Lemma missed_renter_eval : forall r, (2 <= length (rmissed r))%nat -> missed_renter r = Ok (mr r).
Proof. intros; apply acc_eval; lia. Qed.
Lemma missed_host_eval : forall r, (2 <= length (rmissed r))%nat -> missed_host r = Ok (mh r).
Proof. intros; apply acc_eval; lia. Qed.
Lemma void_eval : forall r, (3 <= length (rmissed r))%nat -> nth_out (rmissed r) 2 = Ok (nth 2 (rmissed r) (O 0 0)) /\ oval (nth 2 (rmissed r) (O 0 0)) = mvoid r.
Proof.
  intros r H. destruct (nth_out_lt (rmissed r) 2) as [o E]; [lia|].
  pose proof (nth_out_val _ _ _ E) as Hv. apply nth_out_ok in E.
  rewrite (nth_error_nth _ _ (O 0 0) E). unfold nth_out; rewrite E. split; [reflexivity|exact Hv].
Qed.

(** * validateStdRevision *)

(* turns a chain of checks [H : (if c then bad else ...) = Ok _] into its facts *)
Ltac chk H :=
  match type of H with
  | (if ?b then _ else _) = Ok _ =>
      let E := fresh "C" in destruct b eqn:E; [discriminate H|]
  end.

Lemma validate_std_sound : forall cur rv, validate_std cur rv = Ok tt -> std_ok cur rv.
Proof.
  intros cur rv H. unfold validate_std, bad in H.
  chk H. chk H. chk H. chk H.
  assert (Lv : length (rvalid rv) = length (rvalid cur)) by lia.
  assert (Lm : length (rmissed rv) = length (rmissed cur)) by lia.
  assert (L2v : (2 <= length (rvalid cur))%nat) by lia.
  assert (L2m : (2 <= length (rmissed cur))%nat) by lia.
  destruct (sum_o 0 (rvalid cur)) as [oldp| |] eqn:Eo; cbn [bind] in H; try discriminate.
  destruct (addr_sum 0 (rvalid rv) (rvalid cur)) as [vp| |] eqn:Ev; cbn [bind] in H; try discriminate.
  destruct (addr_sum 0 (rmissed rv) (rmissed cur)) as [mp| |] eqn:Em; cbn [bind] in H; try discriminate.
  chk H. chk H. chk H. chk H. chk H. chk H. chk H.
  rewrite (valid_renter_eval rv), (valid_renter_eval cur), (missed_renter_eval rv), (missed_renter_eval cur) in H by lia.
  cbn [bind] in H. chk H. chk H. chk H.
  pose proof (sum_o_ok _ _ _ Eo) as So. pose proof (sum_o_bound _ 0 _ two128_pos Eo) as Sb.
  apply addr_sum_ok in Ev as [Av Sv]; [|assumption].
  apply addr_sum_ok in Em as [Am Sm]; [|assumption].
  constructor; try assumption; try lia.
Qed.

Lemma validate_std_no_panic : forall cur rv, validate_std cur rv <> Panic.
Proof.
  intros cur rv. unfold validate_std, bad.
  destruct (negb (length (rvalid rv) =? length (rvalid cur))%nat) eqn:C1; [discriminate|].
  destruct (negb (length (rmissed rv) =? length (rmissed cur))%nat) eqn:C2; [discriminate|].
  destruct (length (rvalid cur) <? 2)%nat eqn:C3; [discriminate|].
  destruct (length (rmissed cur) <? 2)%nat eqn:C4; [discriminate|].
  destruct (sum_o 0 (rvalid cur)) as [oldp| |] eqn:Eo; cbn [bind]; try discriminate;
    [|exfalso; eapply sum_o_no_panic; eauto].
  destruct (addr_sum 0 (rvalid rv) (rvalid cur)) as [vp| |] eqn:Ev; cbn [bind]; try discriminate;
    [|exfalso; eapply addr_sum_no_panic; [|eauto]; lia].
  destruct (addr_sum 0 (rmissed rv) (rmissed cur)) as [mp| |] eqn:Em; cbn [bind]; try discriminate;
    [|exfalso; eapply addr_sum_no_panic; [|eauto]; lia].
  repeat match goal with |- (if ?b then _ else _) <> Panic => destruct b; [discriminate|] end.
  rewrite (valid_renter_eval rv), (valid_renter_eval cur), (missed_renter_eval rv), (missed_renter_eval cur) by lia.
  cbn [bind].
  destruct (vr cur <? vr rv); [discriminate|].
  destruct (mr cur <? mr rv); [discriminate|].
  destruct (negb (vr rv =? mr rv)); discriminate.
Qed.

(** * consequences of [std_ok] *)

Lemma std_ok_range : forall cur rv, std_ok cur rv ->
  vr cur < two128 /\ vh cur < two128 /\ vr rv < two128 /\ vh rv < two128 /\
  mr rv < two128 /\ mh rv < two128 /\ mvoid rv < two128.
Proof.
  intros cur rv S. destruct S.
  pose proof (sumv_le_elem (rvalid cur) 0). pose proof (sumv_le_elem (rvalid cur) 1).
  pose proof (sumv_le_elem (rvalid rv) 0). pose proof (sumv_le_elem (rvalid rv) 1).
  pose proof (sumv_le_elem (rmissed rv) 0). pose proof (sumv_le_elem (rmissed rv) 1).
  pose proof (sumv_le_elem (rmissed rv) 2).
  unfold vr, vh, mr, mh, mvoid. repeat split; lia.
Qed.

(* an accepted standard revision of a well-formed contract is well-formed again and keeps
   the missed sum too *)
Lemma std_ok_preserves_wf : forall cur rv, wf cur -> std_ok cur rv ->
  wf rv /\ sumv (rmissed rv) = sumv (rmissed cur).
Proof.
  intros cur rv [[Hv Hm] Hs] S. destruct S.
  unfold wf, shape23. repeat split; lia.
Qed.

(* an accepted standard revision establishes equal sums whatever the current one was *)
Lemma std_ok_equal_sums : forall cur rv, std_ok cur rv -> sumv (rvalid rv) = sumv (rmissed rv).
Proof. intros cur rv S; destruct S; lia. Qed.

(* with two valid outputs: what the renter loses is what the host gains *)
Lemma shape2_sum : forall l, length l = 2%nat -> sumv l = val_at l 0 + val_at l 1.
Proof. intros l H. destruct (len_eq2 l H) as (a & b & ->). unfold val_at; cbn. lia. Qed.

Lemma shape3_sum : forall l, length l = 3%nat -> sumv l = val_at l 0 + val_at l 1 + val_at l 2.
Proof. intros l H. destruct (len_eq3 l H) as (a & b & c & ->). unfold val_at; cbn. lia. Qed.

(** * ValidateRevision *)

Ltac step H :=
  match type of H with
  | (if ?b then _ else _) = Ok _ =>
      let E := fresh "C" in destruct b eqn:E; [discriminate H|]
  | (let '(_, _) := ?p in _) = Ok _ =>
      let x := fresh "d" in let u := fresh "u" in let E := fresh "S" in
      destruct p as [x u] eqn:E; destruct u; [discriminate H|]
  end.

Lemma validate_revision_sound : forall cur rv payment collateral transfer burn,
  mh cur < two128 ->
  validate_revision cur rv payment collateral = Ok (transfer, burn) ->
  std_ok cur rv /\
  payment <= vr cur /\ payment <= mr cur /\ collateral <= mh cur /\
  vh rv = vh cur + transfer /\ vr cur = vr rv + transfer /\ payment <= transfer /\
  mh cur = mh rv + burn /\ burn <= collateral.
Proof.
  intros cur rv payment collateral transfer burn Rmh H. unfold validate_revision, bad in H.
  destruct (validate_std cur rv) as [[]| |] eqn:Es; cbn [bind] in H; try discriminate.
  apply validate_std_sound in Es. pose proof (std_ok_range _ _ Es) as (R1 & R2 & R3 & R4 & R5 & R6 & R7).
  pose proof Es as S; destruct S.
  rewrite (valid_renter_eval rv), (valid_renter_eval cur), (missed_renter_eval cur),
    (valid_host_eval rv), (valid_host_eval cur), (missed_host_eval rv), (missed_host_eval cur) in H by lia.
  cbn [bind] in H.
  step H. step H. step H. step H. step H. step H. step H. step H. step H.
  inversion H; subst; clear H.
  apply csub_u_false in S as [? ->]; [|assumption].
  apply csub_u_false in S0 as [? ->]; [|assumption].
  apply csub_u_false in S1 as [? ->]; [|assumption].
  split; [assumption|]. lia.
Qed.

Lemma validate_revision_no_panic : forall cur rv payment collateral,
  validate_revision cur rv payment collateral <> Panic.
Proof.
  intros cur rv payment collateral. unfold validate_revision, bad.
  destruct (validate_std cur rv) as [[]| |] eqn:Es; cbn [bind]; try discriminate;
    [|exfalso; eapply validate_std_no_panic; eauto].
  apply validate_std_sound in Es. destruct Es.
  rewrite (valid_renter_eval rv), (valid_renter_eval cur), (missed_renter_eval cur),
    (valid_host_eval rv), (valid_host_eval cur), (missed_host_eval rv), (missed_host_eval cur) by lia.
  cbn [bind].
  repeat match goal with
  | |- (if ?b then _ else _) <> Panic => destruct b; [discriminate|]
  | |- (let '(_, _) := ?p in _) <> Panic => destruct p as [? []]; [discriminate|]
  end.
  discriminate.
Qed.

(** * ValidateProgramRevision *)

Lemma validate_program_sound : forall cur rv storage collateral burn,
  mh cur < two128 ->
  validate_program cur rv storage collateral = Ok burn ->
  std_ok cur rv /\ (3 <= length (rmissed cur))%nat /\
  mh cur = mh rv + burn /\ burn <= storage + collateral /\
  mvoid rv = mvoid cur + burn /\
  vr rv = vr cur /\ vh rv = vh cur /\ mr rv = mr cur.
Proof.
  intros cur rv storage collateral burn Rmh H. unfold validate_program, bad in H.
  destruct (validate_std cur rv) as [[]| |] eqn:Es; cbn [bind] in H; try discriminate.
  apply validate_std_sound in Es. pose proof (std_ok_range _ _ Es) as (R1 & R2 & R3 & R4 & R5 & R6 & R7).
  pose proof Es as S; destruct S.
  step H.
  assert (L3 : (3 <= length (rmissed cur))%nat) by lia.
  destruct (void_eval rv) as [Ev1 Ev2]; [lia|]. destruct (void_eval cur) as [Ec1 Ec2]; [lia|].
  rewrite (valid_renter_eval rv), (valid_renter_eval cur), (missed_renter_eval cur), (missed_renter_eval rv),
    (valid_host_eval rv), (valid_host_eval cur), (missed_host_eval rv), (missed_host_eval cur), Ev1, Ec1 in H by lia.
  cbn [bind] in H. rewrite Ev2, Ec2 in H.
  step H. step H. step H. step H. step H. step H. step H. step H.
  inversion H; subst; clear H.
  apply csub_u_false in S as [? ->]; [|assumption].
  apply csub_u_false in S1 as [? ->]; [|assumption].
  apply cadd_o_false in S0 as [-> ?].
  split; [assumption|]. lia.
Qed.

Lemma validate_program_no_panic : forall cur rv storage collateral,
  validate_program cur rv storage collateral <> Panic.
Proof.
  intros cur rv storage collateral. unfold validate_program, bad.
  destruct (validate_std cur rv) as [[]| |] eqn:Es; cbn [bind]; try discriminate;
    [|exfalso; eapply validate_std_no_panic; eauto].
  apply validate_std_sound in Es. destruct Es.
  destruct (length (rmissed cur) <? 3)%nat eqn:C3; [discriminate|].
  destruct (void_eval rv) as [Ev1 Ev2]; [lia|]. destruct (void_eval cur) as [Ec1 Ec2]; [lia|].
  rewrite (valid_renter_eval rv), (valid_renter_eval cur), (missed_renter_eval cur), (missed_renter_eval rv),
    (valid_host_eval rv), (valid_host_eval cur), (missed_host_eval rv), (missed_host_eval cur), Ev1, Ec1 by lia.
  cbn [bind].
  repeat match goal with
  | |- (if ?b then _ else _) <> Panic => destruct b; [discriminate|]
  | |- (let '(_, _) := ?p in _) <> Panic => destruct p as [? []]; [discriminate|]
  end.
  discriminate.
Qed.

(** * ValidatePaymentRevision *)

Lemma validate_payment_sound : forall cur rv payment,
  mr cur < two128 ->
  validate_payment cur rv payment = Ok tt ->
  std_ok cur rv /\
  payment <= vr cur /\ payment <= mr cur /\
  vr cur = vr rv + payment /\ mr cur = mr rv + payment /\
  vh rv = vh cur + payment /\ mh rv = mh cur + payment.
Proof.
  intros cur rv payment Rmr H. unfold validate_payment, bad in H.
  destruct (validate_std cur rv) as [[]| |] eqn:Es; cbn [bind] in H; try discriminate.
  apply validate_std_sound in Es. pose proof (std_ok_range _ _ Es) as (R1 & R2 & R3 & R4 & R5 & R6 & R7).
  pose proof Es as S; destruct S.
  rewrite (valid_renter_eval rv), (valid_renter_eval cur), (missed_renter_eval cur), (missed_renter_eval rv),
    (valid_host_eval rv), (valid_host_eval cur), (missed_host_eval rv), (missed_host_eval cur) in H by lia.
  cbn [bind] in H.
  step H. step H. step H. step H. step H. step H. step H. step H.
  apply csub_u_false in S as [? ->]; [|assumption].
  apply csub_u_false in S0 as [? ->]; [|assumption].
  apply cadd_o_false in S1 as [-> ?]. apply cadd_o_false in S2 as [-> ?].
  split; [assumption|]. lia.
Qed.

Lemma validate_payment_no_panic : forall cur rv payment, validate_payment cur rv payment <> Panic.
Proof.
  intros cur rv payment. unfold validate_payment, bad.
  destruct (validate_std cur rv) as [[]| |] eqn:Es; cbn [bind]; try discriminate;
    [|exfalso; eapply validate_std_no_panic; eauto].
  apply validate_std_sound in Es. destruct Es.
  rewrite (valid_renter_eval rv), (valid_renter_eval cur), (missed_renter_eval cur), (missed_renter_eval rv),
    (valid_host_eval rv), (valid_host_eval cur), (missed_host_eval rv), (missed_host_eval cur) by lia.
  cbn [bind].
  repeat match goal with
  | |- (if ?b then _ else _) <> Panic => destruct b; [discriminate|]
  | |- (let '(_, _) := ?p in _) <> Panic => destruct p as [? []]; [discriminate|]
  end.
  discriminate.
Qed.

Lemma sumv_bound_forall : forall l, sumv l < two128 -> Forall (fun o => oval o < two128) l.
Proof.
  induction l as [|o l IH]; intros H; constructor; rewrite sumv_cons in H; [lia|apply IH; lia].
Qed.

Lemma std_ok_inrange : forall cur rv, std_ok cur rv -> inrange rv.
Proof.
  intros cur rv S; destruct S. split; apply sumv_bound_forall; lia.
Qed.

Lemma inrange_vals : forall r, inrange r ->
  vr r < two128 /\ vh r < two128 /\ mr r < two128 /\ mh r < two128 /\ mvoid r < two128.
Proof.
  intros r [Hv Hm]. unfold vr, vh, mr, mh, mvoid. repeat split; apply val_at_inrange; assumption.
Qed.

(** * the property's conjunction for a standard revision
   [price]: what the host's valid payout must at least gain; [maxburn]: what the host's
   missed payout may at most lose *)
Definition safe_revision (cur rv : rev) (price maxburn : N) : Prop :=
  rnum cur < rnum rv /\
  ruh rv = ruh cur /\ ruc rv = ruc cur /\
  rws rv = rws cur /\ rwe rv = rwe cur /\
  length (rvalid rv) = length (rvalid cur) /\ length (rmissed rv) = length (rmissed cur) /\
  map oaddr (rvalid rv) = map oaddr (rvalid cur) /\ map oaddr (rmissed rv) = map oaddr (rmissed cur) /\
  sumv (rvalid rv) = sumv (rvalid cur) /\ sumv (rmissed rv) = sumv (rmissed cur) /\
  vr rv <= vr cur /\ mr rv <= mr cur /\
  vh cur + price <= vh rv /\
  mh cur <= mh rv + maxburn.

Lemma std_ok_safe : forall cur rv price maxburn,
  wf cur -> std_ok cur rv -> vh cur + price <= vh rv -> mh cur <= mh rv + maxburn ->
  safe_revision cur rv price maxburn /\ wf rv.
Proof.
  intros cur rv price maxburn W S Hp Hb.
  destruct (std_ok_preserves_wf _ _ W S) as [W' Ms]. destruct S.
  unfold safe_revision. repeat split; try assumption; try lia; apply W'.
Qed.

Lemma validate_revision_safe : forall cur rv payment collateral transfer burn,
  wf cur -> inrange cur ->
  validate_revision cur rv payment collateral = Ok (transfer, burn) ->
  safe_revision cur rv payment collateral /\
  transfer = vh rv - vh cur /\ transfer = vr cur - vr rv /\ burn = mh cur - mh rv /\
  payment <= transfer /\ burn <= collateral /\
  wf rv /\ inrange rv.
Proof.
  intros cur rv payment collateral transfer burn W R H.
  pose proof (inrange_vals _ R) as (_ & _ & _ & Rmh & _).
  apply validate_revision_sound in H as (S & ? & ? & ? & ? & ? & ? & ? & ?); [|assumption].
  destruct (std_ok_safe cur rv payment collateral W S) as [Sf W']; try lia.
  split; [exact Sf|]. repeat (split; [lia|]).
  split; [exact W'|eapply std_ok_inrange; eauto].
Qed.

Lemma validate_program_safe : forall cur rv storage collateral burn,
  wf cur -> inrange cur ->
  validate_program cur rv storage collateral = Ok burn ->
  safe_revision cur rv 0 (storage + collateral) /\
  burn = mh cur - mh rv /\ burn <= storage + collateral /\ mvoid rv = mvoid cur + burn /\
  vr rv = vr cur /\ vh rv = vh cur /\ mr rv = mr cur /\
  wf rv /\ inrange rv.
Proof.
  intros cur rv storage collateral burn W R H.
  pose proof (inrange_vals _ R) as (_ & _ & _ & Rmh & _).
  apply validate_program_sound in H as (S & ? & ? & ? & ? & ? & ? & ?); [|assumption].
  destruct (std_ok_safe cur rv 0 (storage + collateral) W S) as [Sf W']; try lia.
  split; [exact Sf|]. repeat (split; [lia|]).
  split; [exact W'|eapply std_ok_inrange; eauto].
Qed.

Lemma validate_payment_safe : forall cur rv payment,
  wf cur -> inrange cur ->
  validate_payment cur rv payment = Ok tt ->
  safe_revision cur rv payment 0 /\
  vr rv = vr cur - payment /\ mr rv = mr cur - payment /\ payment <= vr cur /\ payment <= mr cur /\
  vh rv = vh cur + payment /\ mh rv = mh cur + payment /\
  wf rv /\ inrange rv.
Proof.
  intros cur rv payment W R H.
  pose proof (inrange_vals _ R) as (_ & _ & Rmr & _ & _).
  apply validate_payment_sound in H as (S & ? & ? & ? & ? & ? & ?); [|assumption].
  destruct (std_ok_safe cur rv payment 0 W S) as [Sf W']; try lia.
  split; [exact Sf|]. repeat (split; [lia|]).
  split; [exact W'|eapply std_ok_inrange; eauto].
Qed.

(** * ValidateClearingRevision *)

Lemma output_eta : forall a b : output, oaddr a = oaddr b -> oval a = oval b -> a = b.
Proof. intros [] []; cbn; intros; subst; reflexivity. Qed.

Lemma clearing_loop_ok : forall fv cv fm,
  length fv = length cv -> length fv = length fm -> clearing_loop fv cv fm = Ok tt ->
  fm = fv /\ map oaddr fv = map oaddr cv.
Proof.
  induction fv as [|v fv IH]; intros [|c cv] [|m fm] Lc Lm H; try discriminate Lc; try discriminate Lm.
  - split; reflexivity.
  - cbn [clearing_loop] in H. unfold bad in H.
    destruct (negb (oaddr v =? oaddr c)) eqn:C1; [discriminate|].
    destruct (negb (oaddr v =? oaddr m)) eqn:C2; [discriminate|].
    destruct (negb (oval v =? oval m)) eqn:C3; [discriminate|].
    apply IH in H as [-> Ha]; [|cbn in Lc; lia|cbn in Lm; lia].
    split; [f_equal; apply output_eta; lia | cbn [map]; f_equal; [lia|assumption]].
Qed.

Lemma clearing_loop_no_panic : forall fv cv fm,
  (length fv <= length cv)%nat -> (length fv <= length fm)%nat -> clearing_loop fv cv fm <> Panic.
Proof.
  induction fv as [|v fv IH]; intros [|c cv] [|m fm] Lc Lm; cbn [clearing_loop]; try discriminate;
    cbn in Lc, Lm; try lia.
  unfold bad. repeat match goal with |- (if ?b then _ else _) <> Panic => destruct b; [discriminate|] end.
  apply IH; lia.
Qed.

(* the property's conjunction for a clearing revision *)
Definition cleared (cur fin : rev) (payment : N) : Prop :=
  rsize fin = 0 /\ rroot fin = 0 /\ rnum fin = max64 /\
  rmissed fin = rvalid fin /\
  ruh fin = ruh cur /\ ruc fin = ruc cur /\ rws fin = rws cur /\ rwe fin = rwe cur /\
  length (rvalid fin) = 2%nat /\ length (rvalid cur) = 2%nat /\
  map oaddr (rvalid fin) = map oaddr (rvalid cur) /\
  sumv (rvalid fin) = sumv (rvalid cur) /\
  vr fin <= vr cur /\ vh cur + payment <= vh fin.

Lemma validate_clearing_sound : forall cur fin payment toHost,
  inrange cur -> inrange fin ->
  validate_clearing cur fin payment = Ok toHost ->
  cleared cur fin payment /\ toHost = vh fin - vh cur /\ toHost = vr cur - vr fin /\ payment <= toHost.
Proof.
  intros cur fin payment toHost Rc Rf H. unfold validate_clearing, bad in H.
  pose proof (inrange_vals _ Rc) as (Rvr & _). pose proof (inrange_vals _ Rf) as (_ & Rvh & _).
  step H. step H. step H. step H. step H. step H. step H. step H. step H. step H.
  assert (Lm : length (rmissed fin) = 2%nat) by lia.
  assert (Lv : length (rvalid fin) = 2%nat) by lia.
  assert (Lc : length (rvalid cur) = 2%nat) by lia.
  rewrite (valid_renter_eval cur), (missed_renter_eval fin), (valid_host_eval fin), (valid_host_eval cur) in H by lia.
  cbn [bind] in H. step H. step H. step H. step H.
  destruct (clearing_loop (rvalid fin) (rvalid cur) (rmissed fin)) as [[]| |] eqn:El; cbn [bind] in H; try discriminate.
  inversion H; subst; clear H.
  apply clearing_loop_ok in El as [Em Ea]; [|lia|lia].
  apply csub_u_false in S as [? ->]; [|assumption].
  apply csub_u_false in S0 as [? Hd]; [|assumption].
  assert (Hmr : mr fin = vr fin) by (unfold mr, vr; rewrite Em; reflexivity).
  pose proof (shape2_sum _ Lv) as Sf. pose proof (shape2_sum _ Lc) as Sc.
  unfold cleared. fold (vr fin) (vh fin) in Sf. fold (vr cur) (vh cur) in Sc.
  repeat split; try assumption; try lia.
Qed.

Lemma validate_clearing_no_panic : forall cur fin payment, validate_clearing cur fin payment <> Panic.
Proof.
  intros cur fin payment. unfold validate_clearing, bad.
  do 4 (match goal with |- (if ?b then _ else _) <> Panic => destruct b; [discriminate|] end).
  destruct (negb (length (rmissed fin) =? 2)%nat) eqn:C1; [discriminate|].
  destruct (negb (length (rvalid fin) =? length (rmissed fin))%nat) eqn:C2; [discriminate|].
  destruct (negb (length (rvalid fin) =? length (rvalid cur))%nat) eqn:C3; [discriminate|].
  do 3 (match goal with |- (if ?b then _ else _) <> Panic => destruct b; [discriminate|] end).
  rewrite (valid_renter_eval cur), (missed_renter_eval fin), (valid_host_eval fin), (valid_host_eval cur) by lia.
  cbn [bind].
  repeat match goal with
  | |- (if ?b then _ else _) <> Panic => destruct b; [discriminate|]
  | |- (let '(_, _) := ?p in _) <> Panic => destruct p as [? []]; [discriminate|]
  end.
  destruct (clearing_loop (rvalid fin) (rvalid cur) (rmissed fin)) as [[]| |] eqn:El; cbn [bind]; try discriminate.
  exfalso; eapply clearing_loop_no_panic; [| |eauto]; lia.
Qed.

(* a cleared contract cannot be revised again: nothing exceeds the maximum revision number *)
Lemma cleared_is_final : forall cur rv,
  rnum cur = max64 -> rnum rv <= max64 -> validate_std cur rv <> Ok tt.
Proof.
  intros cur rv Hc Hr H. apply validate_std_sound in H. destruct H. lia.
Qed.

(** * Revise / ClearingRevision *)

Lemma with_values_ok : forall vals old l,
  length vals = length old -> with_values old vals = Ok l ->
  map oval l = vals /\ map oaddr l = map oaddr old.
Proof.
  induction vals as [|v vals IH]; intros [|o old] l L H; try discriminate L; cbn [with_values] in H.
  - inversion H; split; reflexivity.
  - destruct (with_values old vals) as [t| |] eqn:E; cbn [bind] in H; try discriminate.
    inversion H; subst. apply IH in E as [E1 E2]; [|cbn in L; lia].
    cbn [map oval oaddr]. rewrite E1, E2. split; reflexivity.
Qed.

Lemma with_values_total : forall vals old,
  (length vals <= length old)%nat -> exists l, with_values old vals = Ok l.
Proof.
  induction vals as [|v vals IH]; intros [|o old] L; cbn [with_values]; cbn in L; try lia; eauto.
  destruct (IH old) as [t ->]; [lia|]. cbn [bind]; eauto.
Qed.

(* only the revision number and the output values come from the renter *)
Definition same_but_values (r r' : rev) : Prop :=
  rother r' = rother r /\ ruc r' = ruc r /\ rws r' = rws r /\ rwe r' = rwe r /\ ruh r' = ruh r /\
  map oaddr (rvalid r') = map oaddr (rvalid r).

Lemma revise_sound : forall r num vs ms r',
  revise r num vs ms = Ok r' ->
  rnum r <> max64 /\ rnum r < num /\ rnum r' = num /\
  map oval (rvalid r') = vs /\ map oval (rmissed r') = ms /\
  same_but_values r r' /\ map oaddr (rmissed r') = map oaddr (rmissed r) /\
  rsize r' = rsize r /\ rroot r' = rroot r.
Proof.
  intros r num vs ms r' H. unfold revise, bad in H.
  step H. step H. step H. step H.
  destruct (with_values (rvalid r) vs) as [v| |] eqn:Ev; cbn [bind] in H; try discriminate.
  destruct (with_values (rmissed r) ms) as [m| |] eqn:Em; cbn [bind] in H; try discriminate.
  inversion H; subst; clear H. cbn.
  apply with_values_ok in Ev as [? ?]; [|lia]. apply with_values_ok in Em as [? ?]; [|lia].
  unfold same_but_values; cbn. repeat split; try assumption; try lia.
Qed.

Lemma revise_no_panic : forall r num vs ms, revise r num vs ms <> Panic.
Proof.
  intros r num vs ms. unfold revise, bad.
  destruct (rnum r =? max64); [discriminate|]. destruct (num <=? rnum r); [discriminate|].
  destruct (negb (length vs =? length (rvalid r))%nat) eqn:C1; [discriminate|].
  destruct (negb (length ms =? length (rmissed r))%nat) eqn:C2; [discriminate|].
  destruct (with_values_total vs (rvalid r)) as [v ->]; [lia|].
  destruct (with_values_total ms (rmissed r)) as [m ->]; [lia|].
  cbn [bind]. discriminate.
Qed.

Lemma clearing_revision_sound : forall r vs r',
  clearing_revision r vs = Ok r' ->
  rnum r <> max64 /\ rnum r' = max64 /\ rsize r' = 0 /\ rroot r' = 0 /\
  rmissed r' = rvalid r' /\ map oval (rvalid r') = vs /\ same_but_values r r'.
Proof.
  intros r vs r' H. unfold clearing_revision, bad in H.
  step H. step H.
  destruct (with_values (rvalid r) vs) as [v| |] eqn:Ev; cbn [bind] in H; try discriminate.
  inversion H; subst; clear H. cbn.
  apply with_values_ok in Ev as [? ?]; [|lia].
  unfold same_but_values; cbn. repeat split; try assumption; try lia.
Qed.

Lemma clearing_revision_no_panic : forall r vs, clearing_revision r vs <> Panic.
Proof.
  intros r vs. unfold clearing_revision, bad.
  destruct (rnum r =? max64); [discriminate|].
  destruct (negb (length vs =? length (rvalid r))%nat) eqn:C1; [discriminate|].
  destruct (with_values_total vs (rvalid r)) as [v ->]; [lia|].
  cbn [bind]. discriminate.
Qed.

(* InitialRevision keeps the contract's outputs: the shape a formation was accepted with is
   the shape of the first revision the host stores *)
Lemma initial_revision_shape : forall fc other uc,
  rvalid (initial_revision fc other uc) = rvalid fc /\ rmissed (initial_revision fc other uc) = rmissed fc /\
  rnum (initial_revision fc other uc) = 1 /\
  rws (initial_revision fc other uc) = rws fc /\ rwe (initial_revision fc other uc) = rwe fc /\
  ruh (initial_revision fc other uc) = ruh fc /\ rsize (initial_revision fc other uc) = rsize fc /\
  rroot (initial_revision fc other uc) = rroot fc.
Proof. intros; cbn; repeat split. Qed.

(** * every entry point together *)
(* the handler-level entries read the renter payout of the host's own stored revision *)
Definition stored_ok (c : call) : Prop :=
  match c with
  | HPayByContract cur _ _ _ => (1 <= length (rvalid cur))%nat
  | _ => True
  end.

Lemma run_no_panic : forall c, stored_ok c -> run c <> Panic.
Proof.
  intros [cur rv|cur rv p k|cur rv s k|cur rv p|cur fin p|cur n vs ms|cur vs|fc o u|cur n vs ms cost coll|cur n vs ms] St; cbn [run].
  - pose proof (validate_std_no_panic cur rv). destruct (validate_std cur rv); cbn [bind]; congruence.
  - pose proof (validate_revision_no_panic cur rv p k). destruct (validate_revision cur rv p k); cbn [bind]; congruence.
  - pose proof (validate_program_no_panic cur rv s k). destruct (validate_program cur rv s k); cbn [bind]; congruence.
  - pose proof (validate_payment_no_panic cur rv p). destruct (validate_payment cur rv p); cbn [bind]; congruence.
  - pose proof (validate_clearing_no_panic cur fin p). destruct (validate_clearing cur fin p); cbn [bind]; congruence.
  - pose proof (revise_no_panic cur n vs ms). destruct (revise cur n vs ms); cbn [bind]; congruence.
  - pose proof (clearing_revision_no_panic cur vs). destruct (clearing_revision cur vs); cbn [bind]; congruence.
  - discriminate.
  - unfold bad. destruct (rnum cur =? max64); [discriminate|].
    pose proof (revise_no_panic cur n vs ms). destruct (revise cur n vs ms) as [r| |]; cbn [bind]; try congruence.
    pose proof (validate_revision_no_panic cur r cost coll).
    destruct (validate_revision cur r cost coll); cbn [bind]; congruence.
  - cbn [stored_ok] in St.
    pose proof (revise_no_panic cur n vs ms). destruct (revise cur n vs ms) as [r| |] eqn:Er; cbn [bind]; try congruence.
    apply revise_sound in Er as (_ & _ & _ & _ & _ & (_ & _ & _ & _ & _ & Ha) & _).
    assert (Lr : length (rvalid r) = length (rvalid cur)).
    { rewrite <- (map_length oaddr (rvalid r)), Ha, map_length. reflexivity. }
    unfold valid_renter.
    destruct (nth_out_lt (rvalid cur) 0) as [o1 E1]; [lia|].
    destruct (nth_out_lt (rvalid r) 0) as [o2 E2]; [lia|].
    rewrite E1, E2; cbn [bind].
    destruct (csub_u (oval o1) (oval o2)) as [amt []]; unfold bad; [discriminate|].
    pose proof (validate_payment_no_panic cur r amt).
    destruct (validate_payment cur r amt); cbn [bind]; congruence.
Qed.

(* what a renter can get counter-signed through RPCSectorRoots/RPCRead/RPCWrite: the candidate is
   Revise(current, renter values) and must pass ValidateRevision *)
Lemma revise_then_validate_safe : forall cur num vs ms r payment collateral transfer burn,
  wf cur -> inrange cur ->
  revise cur num vs ms = Ok r ->
  validate_revision cur r payment collateral = Ok (transfer, burn) ->
  rnum r = num /\ map oval (rvalid r) = vs /\ map oval (rmissed r) = ms /\
  rsize r = rsize cur /\ rroot r = rroot cur /\ rother r = rother cur /\
  safe_revision cur r payment collateral /\ wf r.
Proof.
  intros cur num vs ms r payment collateral transfer burn W R Hr Hv.
  apply revise_sound in Hr as (_ & _ & ? & ? & ? & (? & _) & _ & ? & ?).
  apply validate_revision_safe in Hv as (Sf & _ & _ & _ & _ & _ & W' & _); try assumption.
  repeat (split; [assumption|]). exact W'.
Qed.

(** * non-vacuity *)
Definition ex_cur : rev := R 1 0 4194304 1 100 200 [O 1 1000; O 2 500] [O 1 1000; O 2 400; O 0 100] 1 5.

Lemma nonvacuous_ex :
  wf ex_cur /\ inrange ex_cur
  /\ validate_revision ex_cur (R 1 0 4194304 1 100 200 [O 1 990; O 2 510] [O 1 990; O 2 380; O 0 130] 1 6) 10 20 = Ok (10, 20)
  /\ validate_program ex_cur (R 1 0 4194304 1 100 200 [O 1 1000; O 2 500] [O 1 1000; O 2 370; O 0 130] 1 6) 10 20 = Ok 30
  /\ validate_payment ex_cur (R 1 0 4194304 1 100 200 [O 1 900; O 2 600] [O 1 900; O 2 500; O 0 100] 1 6) 100 = Ok tt
  /\ validate_clearing ex_cur (R 1 0 0 0 100 200 [O 1 990; O 2 510] [O 1 990; O 2 510] 1 max64) 10 = Ok 10
  /\ validate_revision ex_cur (R 1 0 4194304 1 100 200 [O 1 990; O 2 510] [O 1 990; O 2 380; O 0 130] 1 6) 11 20 = Err EInvalid.
Proof.
  split; [|split].
  - unfold wf, shape23; cbn; repeat split; reflexivity.
  - unfold inrange; cbn; split; repeat constructor.
  - vm_compute; repeat split; reflexivity.
Qed.
