From HostdBase Require Import Base.
From HostdRevision Require Import Model.
