(* Revision/GenPrelude.v — the few definitions the output of tools/go2coq refers to besides the
   vocabulary of Base.v / Model.v.  Hand-written, no proofs.  Part of the trusted base of the
   translator (each definition states what a Go construct means):

     for_range xs s body    for i, x := range xs { body }   carrying the tuple s of the outer
                            variables the body assigns; the body's error/panic leaves the loop
     nth_res xs i           xs[i] for a slice of any element type (Panic when out of range);
                            Model.nth_out is the same function on outputs
     set_nth xs i v         xs[i] = v   (emitted only after a checked read of xs[i])
     mk_outputs n           make([]types.SiacoinOutput, n)
     set_<field> r v        r.<Field> = v on a struct value
     zero_rev, zero_output  Go zero values *)
From HostdBase Require Import Base.
From HostdRevision Require Import Model.
Local Open Scope N_scope.

(* unfold hints for every generated definition (emitted by the translator) *)
Create HintDb go2coq.

Section Loop.
  Variables (A St : Type).
  Variable body : nat -> A -> St -> res St.
  (* iterations i, i+1, ... over the remaining elements *)
  Fixpoint for_range_from (i : nat) (xs : list A) (s : St) : res St :=
    match xs with
    | [] => Ok s
    | x :: t => do s' <- body i x s; for_range_from (S i) t s'
    end.
End Loop.
Arguments for_range_from {A St} body i xs s.

Definition for_range {A S} (xs : list A) (s : S) (body : nat -> A -> S -> res S) : res S :=
  for_range_from body 0 xs s.

Definition nth_res {A} (l : list A) (i : nat) : res A :=
  match nth_error l i with Some x => Ok x | None => Panic end.

Fixpoint set_nth {A} (l : list A) (i : nat) (v : A) : list A :=
  match l with
  | [] => []
  | h :: t => match i with 0%nat => v :: t | S j => h :: set_nth t j v end
  end.

Definition zero_output : output := {| oaddr := 0; oval := 0 |}.
Definition zero_rev : rev :=
  {| rother := 0; ruc := 0; rsize := 0; rroot := 0; rws := 0; rwe := 0;
     rvalid := []; rmissed := []; ruh := 0; rnum := 0 |}.
Definition mk_outputs (n : nat) : list output := repeat zero_output n.

Definition set_oaddr (o : output) (a : N) : output := {| oaddr := a; oval := oval o |}.
Definition set_oval (o : output) (v : N) : output := {| oaddr := oaddr o; oval := v |}.

Definition set_rsize (r : rev) (v : N) : rev :=
  {| rother := rother r; ruc := ruc r; rsize := v; rroot := rroot r; rws := rws r; rwe := rwe r;
     rvalid := rvalid r; rmissed := rmissed r; ruh := ruh r; rnum := rnum r |}.
Definition set_rroot (r : rev) (v : N) : rev :=
  {| rother := rother r; ruc := ruc r; rsize := rsize r; rroot := v; rws := rws r; rwe := rwe r;
     rvalid := rvalid r; rmissed := rmissed r; ruh := ruh r; rnum := rnum r |}.
Definition set_rws (r : rev) (v : N) : rev :=
  {| rother := rother r; ruc := ruc r; rsize := rsize r; rroot := rroot r; rws := v; rwe := rwe r;
     rvalid := rvalid r; rmissed := rmissed r; ruh := ruh r; rnum := rnum r |}.
Definition set_rwe (r : rev) (v : N) : rev :=
  {| rother := rother r; ruc := ruc r; rsize := rsize r; rroot := rroot r; rws := rws r; rwe := v;
     rvalid := rvalid r; rmissed := rmissed r; ruh := ruh r; rnum := rnum r |}.
Definition set_rvalid (r : rev) (v : list output) : rev :=
  {| rother := rother r; ruc := ruc r; rsize := rsize r; rroot := rroot r; rws := rws r; rwe := rwe r;
     rvalid := v; rmissed := rmissed r; ruh := ruh r; rnum := rnum r |}.
Definition set_rmissed (r : rev) (v : list output) : rev :=
  {| rother := rother r; ruc := ruc r; rsize := rsize r; rroot := rroot r; rws := rws r; rwe := rwe r;
     rvalid := rvalid r; rmissed := v; ruh := ruh r; rnum := rnum r |}.
Definition set_ruh (r : rev) (v : N) : rev :=
  {| rother := rother r; ruc := ruc r; rsize := rsize r; rroot := rroot r; rws := rws r; rwe := rwe r;
     rvalid := rvalid r; rmissed := rmissed r; ruh := v; rnum := rnum r |}.
Definition set_rnum (r : rev) (v : N) : rev :=
  {| rother := rother r; ruc := ruc r; rsize := rsize r; rroot := rroot r; rws := rws r; rwe := rwe r;
     rvalid := rvalid r; rmissed := rmissed r; ruh := ruh r; rnum := v |}.
