(* Revision/Legacy.v — rhp/contracts.go as it was BEFORE fixes/C07-revision-validation-panics.patch
   (snapshot cb8ed00), kept for the record: the panics the patch removes are exhibited here on
   the model ([legacy_panics]); the C07 harness reproduces each of them on the real unpatched
   code as directed cases 0..9 (monitor sig validation-panics).  Nothing else depends on this file. *)
From Coq Require Import Lia ZifyBool ZifyN ZifyNat.
From HostdBase Require Import Base.
From HostdRevision Require Import Model Proofs.
Local Open Scope N_scope.

(* for _, o := range current.ValidProofOutputs { oldPayout = oldPayout.Add(o.Value) } *)
Fixpoint sum_p (acc : N) (l : list output) : res N :=
  match l with
  | [] => Ok acc
  | o :: t => do s <- cadd acc (oval o); sum_p s t
  end.

(* for i := range revision.X { if revision.X[i].Address != current.X[i].Address {err}; sum = sum.Add(..) } *)
Fixpoint addr_sum_p (acc : N) (revs curs : list output) : res N :=
  match revs with
  | [] => Ok acc
  | r :: rt =>
      match curs with
      | [] => Panic
      | c :: ct =>
          if negb (oaddr r =? oaddr c) then bad
          else do s <- cadd acc (oval r); addr_sum_p s rt ct
      end
  end.

Definition validate_std (cur rv : rev) : res unit :=
  do oldp <- sum_p 0 (rvalid cur);
  do vp <- addr_sum_p 0 (rvalid rv) (rvalid cur);
  do mp <- addr_sum_p 0 (rmissed rv) (rmissed cur);
  if negb (vp =? oldp) then bad else
  if negb (mp =? oldp) then bad else
  if negb (ruh rv =? ruh cur) then bad else
  if negb (ruc rv =? ruc cur) then bad else
  if rnum rv <=? rnum cur then bad else
  if negb (rws rv =? rws cur) then bad else
  if negb (rwe rv =? rwe cur) then bad else
  if negb (length (rvalid rv) =? length (rvalid cur))%nat then bad else
  if negb (length (rmissed rv) =? length (rmissed cur))%nat then bad else
  do rvr <- valid_renter rv; do cvr <- valid_renter cur;
  if cvr <? rvr then bad else
  do rmr <- missed_renter rv; do cmr <- missed_renter cur;
  if cmr <? rmr then bad else
  do rvr' <- valid_renter rv; do rmr' <- missed_renter rv;
  if negb (rvr' =? rmr') then bad else
  Ok tt.

Definition validate_revision (cur rv : rev) (payment collateral : N) : res (N * N) :=
  do _ <- validate_std cur rv;
  do cvr <- valid_renter cur;
  if cvr <? payment then bad else
  do cmr <- missed_renter cur;
  if cmr <? payment then bad else
  do cmh <- missed_host cur;
  if cmh <? collateral then bad else
  do cvr2 <- valid_renter cur; do rvr <- valid_renter rv;
  let '(fromRenter, uf1) := csub_u cvr2 rvr in
  if uf1 then bad else
  do rvh <- valid_host rv; do cvh <- valid_host cur;
  let '(toHost, uf2) := csub_u rvh cvh in
  if uf2 then bad else
  do cmh2 <- missed_host cur; do rmh <- missed_host rv;
  let '(hostBurn, uf3) := csub_u cmh2 rmh in
  if uf3 then bad else
  if negb (fromRenter =? toHost) then bad else
  if toHost <? payment then bad else
  if collateral <? hostBurn then bad else
  Ok (toHost, hostBurn).

Definition validate_payment (cur rv : rev) (payment : N) : res unit :=
  do _ <- validate_std cur rv;
  do rvr <- valid_renter rv; do cvr <- valid_renter cur; do a <- csub cvr payment;
  if negb (rvr =? a) then bad else
  do rmr <- missed_renter rv; do cmr <- missed_renter cur; do b <- csub cmr payment;
  if negb (rmr =? b) then bad else
  do rvh <- valid_host rv; do cvh <- valid_host cur; do c <- cadd cvh payment;
  if negb (rvh =? c) then bad else
  do rmh <- missed_host rv; do cmh <- missed_host cur; do d <- cadd cmh payment;
  if negb (rmh =? d) then bad else
  Ok tt.

Definition wcur : rev := R 1 0 4194304 1 100 200 [O 1 1000; O 2 500] [O 1 1000; O 2 400; O 0 100] 1 5.

Lemma wcur_wf : wf wcur /\ inrange wcur.
Proof.
  unfold wf, shape23, inrange; cbn. repeat split; try reflexivity; repeat constructor.
Qed.

Lemma legacy_panics :
  (exists cur rv p k, wf cur /\ inrange cur /\ inrange rv /\ validate_revision cur rv p k = Panic) /\
  (exists cur rv p, wf cur /\ inrange cur /\ inrange rv /\ validate_payment cur rv p = Panic) /\
  (exists cur rv p k, validate_revision cur rv p k = Panic /\ (length (rvalid cur) < length (rvalid rv))%nat).
Proof.
  destruct wcur_wf as [W I]. repeat split.
  - (* renter-chosen values near 2^128: Currency.Add overflows *)
    exists wcur, (R 1 0 4194304 1 100 200 [O 1 max128; O 2 1] [O 1 1000; O 2 400; O 0 100] 1 6), 0, 0.
    repeat split; try assumption; try reflexivity; cbn; repeat constructor.
  - (* payment above the renter payout: Currency.Sub underflows *)
    exists wcur, (R 1 0 4194304 1 100 200 [O 1 1000; O 2 500] [O 1 1000; O 2 400; O 0 100] 1 6), 1001.
    repeat split; try assumption; try reflexivity; cbn; repeat constructor.
  - (* more outputs than the current revision: index out of range before the length check *)
    exists wcur, (R 1 0 4194304 1 100 200 [O 1 1000; O 2 500; O 3 0] [O 1 1000; O 2 400; O 0 100] 1 6), 0, 0.
    split; [reflexivity|cbn; lia].
Qed.

(** * the patch is conservative: same verdict and values, panics become errors *)

Lemma cadd_ok_iff : forall a b s, cadd a b = Ok s <-> cadd_o a b = (s, false).
Proof.
  intros a b s. unfold cadd, cadd_o. destruct (a + b <? two128) eqn:C.
  - assert (Hm : (a + b) mod two128 = a + b) by (apply N.mod_small; lia).
    assert (Hl : (two128 <=? a + b) = false) by lia. rewrite Hm, Hl.
    split; intros H; inversion H; reflexivity.
  - assert (Hl : (two128 <=? a + b) = true) by lia. rewrite Hl. split; intros H; discriminate.
Qed.

Lemma sum_p_ok_iff : forall l acc s, sum_p acc l = Ok s <-> sum_o acc l = Ok s.
Proof.
  induction l as [|o l IH]; intros acc s; cbn [sum_p sum_o]; [reflexivity|].
  destruct (cadd acc (oval o)) as [s'| |] eqn:E; cbn [bind].
  - apply cadd_ok_iff in E. rewrite E. apply IH.
  - unfold cadd in E. destruct (acc + oval o <? two128); discriminate.
  - destruct (cadd_o acc (oval o)) as [s' ov] eqn:E'. destruct ov.
    + unfold bad. split; discriminate.
    + apply cadd_ok_iff in E'. congruence.
Qed.

Lemma addr_sum_p_ok_iff : forall revs curs acc s, addr_sum_p acc revs curs = Ok s <-> addr_sum acc revs curs = Ok s.
Proof.
  induction revs as [|r revs IH]; intros [|c curs] acc s; cbn [addr_sum_p addr_sum]; try reflexivity.
  destruct (negb (oaddr r =? oaddr c)); [reflexivity|].
  destruct (cadd acc (oval r)) as [s'| |] eqn:E; cbn [bind].
  - apply cadd_ok_iff in E. rewrite E. apply IH.
  - unfold cadd in E. destruct (acc + oval r <? two128); discriminate.
  - destruct (cadd_o acc (oval r)) as [s' ov] eqn:E'. destruct ov.
    + unfold bad. split; discriminate.
    + apply cadd_ok_iff in E'. congruence.
Qed.

Ltac bnd H :=
  match type of H with
  | bind ?r _ = Ok _ => let E := fresh "B" in destruct r eqn:E; cbn [bind] in H; [|discriminate H|discriminate H]
  end.

Lemma legacy_std_ok_patched : forall cur rv,
  (2 <= length (rvalid cur))%nat -> (2 <= length (rmissed cur))%nat ->
  validate_std cur rv = Ok tt -> Model.validate_std cur rv = Ok tt.
Proof.
  intros cur rv L1 L2 H. unfold validate_std, bad in H.
  bnd H. bnd H. bnd H.
  step H. step H. step H. step H. step H. step H. step H. step H. step H.
  bnd H. bnd H. step H. bnd H. bnd H. step H. step H.
  apply sum_p_ok_iff in B. apply addr_sum_p_ok_iff in B0. apply addr_sum_p_ok_iff in B1.
  unfold Model.validate_std, bad.
  rewrite C6, C7.
  replace (length (rvalid cur) <? 2)%nat with false by lia.
  replace (length (rmissed cur) <? 2)%nat with false by lia.
  rewrite B, B0, B1; cbn [bind].
  rewrite C, C0, C1, C2, C3, C4, C5.
  rewrite B2, B3, B4, B5; cbn [bind]. rewrite C8, C9, C10. reflexivity.
Qed.

Lemma patched_std_ok_legacy : forall cur rv,
  Model.validate_std cur rv = Ok tt -> validate_std cur rv = Ok tt.
Proof.
  intros cur rv H. unfold Model.validate_std, bad in H.
  step H. step H. step H. step H.
  bnd H. bnd H. bnd H.
  step H. step H. step H. step H. step H. step H. step H.
  bnd H. bnd H. step H. bnd H. bnd H. step H. step H.
  apply sum_p_ok_iff in B. apply addr_sum_p_ok_iff in B0. apply addr_sum_p_ok_iff in B1.
  unfold validate_std, bad.
  rewrite B, B0, B1; cbn [bind].
  rewrite C3, C4, C5, C6, C7, C8, C9, C, C0.
  rewrite B2, B3, B4, B5; cbn [bind]. rewrite C10, C11, C12. reflexivity.
Qed.

(* ValidateRevision, whatever the shapes: the patched function accepts exactly what the old one
   accepted, with the same returned values (and never panics: validate_revision_no_panic) *)
Lemma validate_revision_conservative : forall cur rv p k x,
  validate_revision cur rv p k = Ok x <-> Model.validate_revision cur rv p k = Ok x.
Proof.
  intros cur rv p k x. split; intros EL.
  - unfold validate_revision in EL.
    destruct (validate_std cur rv) as [[]| |] eqn:Es; cbn [bind] in EL; try discriminate.
    assert (L : (2 <= length (rvalid cur))%nat /\ (2 <= length (rmissed cur))%nat).
    { unfold bad in EL.
      destruct (valid_renter cur) as [a1| |] eqn:A1; cbn [bind] in EL; try discriminate.
      destruct (a1 <? p); [discriminate|].
      destruct (missed_renter cur) as [a2| |] eqn:A2; cbn [bind] in EL; try discriminate.
      destruct (a2 <? p); [discriminate|].
      destruct (missed_host cur) as [a3| |] eqn:A3; cbn [bind] in EL; try discriminate.
      destruct (a3 <? k); [discriminate|].
      destruct (valid_renter rv) as [a5| |] eqn:A5; cbn [bind] in EL; try discriminate.
      destruct (csub_u a1 a5) as [? []]; [discriminate|].
      destruct (valid_host rv) as [a6| |] eqn:A6; cbn [bind] in EL; try discriminate.
      destruct (valid_host cur) as [a7| |] eqn:A7; cbn [bind] in EL; try discriminate.
      apply acc_ok in A3 as [_ ?]. apply acc_ok in A7 as [_ ?]. lia. }
    destruct L as [L1 L2].
    apply legacy_std_ok_patched in Es; try assumption.
    unfold Model.validate_revision. rewrite Es; cbn [bind]. exact EL.
  - unfold Model.validate_revision in EL.
    destruct (Model.validate_std cur rv) as [[]| |] eqn:Es; cbn [bind] in EL; try discriminate.
    apply patched_std_ok_legacy in Es.
    unfold validate_revision. rewrite Es; cbn [bind]. exact EL.
Qed.
