(* Revision/Legacy.v — rhp/contracts.go as it was BEFORE fixes/C07-revision-validation-panics.patch
   (snapshot cb8ed00), kept for the record: the panics the patch removes are exhibited here on
   the model ([legacy_panics]); the C07 harness reproduces each of them on the real unpatched
   code as directed cases 0..9 (monitor sig validation-panics).  Nothing else depends on this file. *)
From Coq Require Import Lia ZifyBool ZifyN ZifyNat.
From HostdBase Require Import Base.
From HostdRevision Require Import Model Proofs.
Local Open Scope N_scope.

(* for _, o := range current.ValidProofOutputs { oldPayout = oldPayout.Add(o.Value) } *)
Fixpoint sum_p (acc : N) (l : list output) : res N :=
  match l with
  | [] => Ok acc
  | o :: t => do s <- cadd acc (oval o); sum_p s t
  end.

(* for i := range revision.X { if revision.X[i].Address != current.X[i].Address {err}; sum = sum.Add(..) } *)
Fixpoint addr_sum_p (acc : N) (revs curs : list output) : res N :=
  match revs with
  | [] => Ok acc
  | r :: rt =>
      match curs with
      | [] => Panic
      | c :: ct =>
          if negb (oaddr r =? oaddr c) then bad
          else do s <- cadd acc (oval r); addr_sum_p s rt ct
      end
  end.

Definition validate_std (cur rv : rev) : res unit :=
  do oldp <- sum_p 0 (rvalid cur);
  do vp <- addr_sum_p 0 (rvalid rv) (rvalid cur);
  do mp <- addr_sum_p 0 (rmissed rv) (rmissed cur);
  if negb (vp =? oldp) then bad else
  if negb (mp =? oldp) then bad else
  if negb (ruh rv =? ruh cur) then bad else
  if negb (ruc rv =? ruc cur) then bad else
  if rnum rv <=? rnum cur then bad else
  if negb (rws rv =? rws cur) then bad else
  if negb (rwe rv =? rwe cur) then bad else
  if negb (length (rvalid rv) =? length (rvalid cur))%nat then bad else
  if negb (length (rmissed rv) =? length (rmissed cur))%nat then bad else
  do rvr <- valid_renter rv; do cvr <- valid_renter cur;
  if cvr <? rvr then bad else
  do rmr <- missed_renter rv; do cmr <- missed_renter cur;
  if cmr <? rmr then bad else
  do rvr' <- valid_renter rv; do rmr' <- missed_renter rv;
  if negb (rvr' =? rmr') then bad else
  Ok tt.

Definition validate_revision (cur rv : rev) (payment collateral : N) : res (N * N) :=
  do _ <- validate_std cur rv;
  do cvr <- valid_renter cur;
  if cvr <? payment then bad else
  do cmr <- missed_renter cur;
  if cmr <? payment then bad else
  do cmh <- missed_host cur;
  if cmh <? collateral then bad else
  do cvr2 <- valid_renter cur; do rvr <- valid_renter rv;
  let '(fromRenter, uf1) := csub_u cvr2 rvr in
  if uf1 then bad else
  do rvh <- valid_host rv; do cvh <- valid_host cur;
  let '(toHost, uf2) := csub_u rvh cvh in
  if uf2 then bad else
  do cmh2 <- missed_host cur; do rmh <- missed_host rv;
  let '(hostBurn, uf3) := csub_u cmh2 rmh in
  if uf3 then bad else
  if negb (fromRenter =? toHost) then bad else
  if toHost <? payment then bad else
  if collateral <? hostBurn then bad else
  Ok (toHost, hostBurn).

Definition validate_payment (cur rv : rev) (payment : N) : res unit :=
  do _ <- validate_std cur rv;
  do rvr <- valid_renter rv; do cvr <- valid_renter cur; do a <- csub cvr payment;
  if negb (rvr =? a) then bad else
  do rmr <- missed_renter rv; do cmr <- missed_renter cur; do b <- csub cmr payment;
  if negb (rmr =? b) then bad else
  do rvh <- valid_host rv; do cvh <- valid_host cur; do c <- cadd cvh payment;
  if negb (rvh =? c) then bad else
  do rmh <- missed_host rv; do cmh <- missed_host cur; do d <- cadd cmh payment;
  if negb (rmh =? d) then bad else
  Ok tt.

Definition wcur : rev := R 1 0 4194304 1 100 200 [O 1 1000; O 2 500] [O 1 1000; O 2 400; O 0 100] 1 5.

Lemma wcur_wf : wf wcur /\ inrange wcur.
Proof.
  unfold wf, shape23, inrange; cbn. repeat split; try reflexivity; repeat constructor.
Qed.

Lemma legacy_panics :
  (exists cur rv p k, wf cur /\ inrange cur /\ inrange rv /\ validate_revision cur rv p k = Panic) /\
  (exists cur rv p, wf cur /\ inrange cur /\ inrange rv /\ validate_payment cur rv p = Panic) /\
  (exists cur rv p k, validate_revision cur rv p k = Panic /\ (length (rvalid cur) < length (rvalid rv))%nat).
Proof.
  destruct wcur_wf as [W I]. repeat split.
  - (* renter-chosen values near 2^128: Currency.Add overflows *)
    exists wcur, (R 1 0 4194304 1 100 200 [O 1 max128; O 2 1] [O 1 1000; O 2 400; O 0 100] 1 6), 0, 0.
    repeat split; try assumption; try reflexivity; cbn; repeat constructor.
  - (* payment above the renter payout: Currency.Sub underflows *)
    exists wcur, (R 1 0 4194304 1 100 200 [O 1 1000; O 2 500] [O 1 1000; O 2 400; O 0 100] 1 6), 1001.
    repeat split; try assumption; try reflexivity; cbn; repeat constructor.
  - (* more outputs than the current revision: index out of range before the length check *)
    exists wcur, (R 1 0 4194304 1 100 200 [O 1 1000; O 2 500; O 3 0] [O 1 1000; O 2 400; O 0 100] 1 6), 0, 0.
    split; [reflexivity|cbn; lia].
Qed.
