(* Revision/GenTactics.v — the tactic library of the translator tie (tools/go2coq): proofs that a
   regenerated definition equals the hand-written model, for all arguments, which follow the
   MEANING of the two sides and not the text of the generated one.

   Shared by the three translated groups: coq/Revision and coq/Formation import it through
   -Q (HostdRevision.GenTactics); coq/MDM, which must not depend on the Revision group (its build
   would break with rhp/contracts.go), includes the same file with [Load].  The file therefore
   depends on Coq's library and Base.v only.

   [split_all_l L] proves [lhs = rhs] for two terms built from [if]/[match]/[let '(..)], the
   [res] monad ([bind] unfolded: Ok / Err / Panic), comparisons on N and nat, [nth_error] and
   opaque arithmetic:
     * it splits on the scrutinee that is evaluated first (innermost) of some [match] of either
       side, re-using what is already known about it:
         - literally ([H : y = _]),
         - a comparison known the other way round ([a <=? b] when [b <? a] is known, [a =? b]
           when [b =? a] is known, on N and on nat),
         - a comparison of two terms of which another comparison is decided ([a <? 2] after
           [a =? 2]): the impossible outcome is closed at once by lia,
         - a list access [nth_error l n]: the branch "out of range" is closed at once when the
           checks passed so far bound the length of [l] the other way ([len_facts] turns every
           [nth_error l n = None / Some _] of the context into [length l <= n] / [n < length l]
           for lia) - this is how an accessor hoisted above the checks that use it is seen not to
           panic: the guard that precedes it in the code is in the context as a case split;
     * a side that has become a value (say [Err EInvalid] after a failing check that the other
       side performs later) is compared with every remaining path of the other side, so the order
       of independent checks does not matter (all errors are [Err EInvalid]);
     * leaves are closed by reflexivity / congruence / lia (with the length facts).
   [L] rewrites the loops that have become visible (it must never fail).

   What the tactic does NOT identify: a Panic with an Err (observable), different arithmetic
   ([cadd_o]/[csub_u] results are compared as terms or by lia), different loops. *)
From Coq Require Import Lia ZifyBool ZifyN ZifyNat List NArith Arith Bool.
From HostdBase Require Import Base.
Import ListNotations.
Local Open Scope N_scope.

(** * facts the leaves use *)

Lemma nth_error_None_len : forall A (l : list A) n, nth_error l n = None -> (length l <= n)%nat.
Proof. intros A l n H. apply nth_error_None. exact H. Qed.

Lemma nth_error_Some_len : forall A (l : list A) n x, nth_error l n = Some x -> (n < length l)%nat.
Proof. intros A l n x H. apply nth_error_Some. congruence. Qed.

Ltac len_facts :=
  repeat match goal with
  | H : nth_error ?l ?n = None |- _ =>
      lazymatch goal with
      | _ : (length l <= n)%nat |- _ => fail
      | _ => pose proof (nth_error_None_len _ l n H)
      end
  | H : nth_error ?l ?n = Some ?x |- _ =>
      lazymatch goal with
      | _ : (n < length l)%nat |- _ => fail
      | _ => pose proof (nth_error_Some_len _ l n x H)
      end
  end.

(* uint64 arithmetic that provably does not wrap is plain arithmetic *)
Lemma wsub_sub : forall a b, b <= a -> a < two64 -> wsub a b = a - b.
Proof.
  intros a b Hb Ha. unfold wsub. assert (Hp : 0 < two64) by reflexivity.
  rewrite (N.mod_small b) by lia.
  replace (a + two64 - b) with ((a - b) + 1 * two64) by lia.
  rewrite N.mod_add by lia. apply N.mod_small; lia.
Qed.

Lemma wadd_small : forall a b, a + b < two64 -> wadd a b = a + b.
Proof. intros; unfold wadd; apply N.mod_small; assumption. Qed.

Ltac nowrap :=
  repeat first [ rewrite wsub_sub by lia | rewrite wadd_small by lia ].

(** * the case split *)

(* the scrutinee that is evaluated first in [x] *)
Ltac inner x :=
  lazymatch x with
  | context [match ?y with _ => _ end] => inner y
  | _ => x
  end.

Ltac simp := cbv beta iota zeta.

(* [y] is known literally *)
Ltac known y :=
  match goal with H : y = _ |- _ => rewrite H end.

(* [y] is a comparison that is known the other way round *)
Ltac known_flipped y :=
  lazymatch y with
  | N.eqb ?a ?b => match goal with H : N.eqb b a = _ |- _ => rewrite (N.eqb_sym a b), H end
  | N.leb ?a ?b => match goal with H : N.ltb b a = _ |- _ => rewrite (N.leb_antisym b a), H end
  | N.ltb ?a ?b => match goal with H : N.leb b a = _ |- _ => rewrite (N.ltb_antisym b a), H end
  | Nat.eqb ?a ?b => match goal with H : Nat.eqb b a = _ |- _ => rewrite (Nat.eqb_sym a b), H end
  | Nat.leb ?a ?b => match goal with H : Nat.ltb b a = _ |- _ => rewrite (Nat.leb_antisym b a), H end
  | Nat.ltb ?a ?b => match goal with H : Nat.leb b a = _ |- _ => rewrite (Nat.ltb_antisym b a), H end
  end;
  cbn [negb].

(* facts about the fixpoints of a hand-written model (a loop that cannot panic once the lengths
   were compared, ...): a group redefines this hook with [Ltac model_facts ::= ...] *)
Ltac model_facts := idtac.

(* [y] is a comparison of two terms another comparison of which is already decided *)
Ltac related_known y :=
  lazymatch y with
  | _ ?a ?b =>
      lazymatch type of a with N => idtac | nat => idtac end;
      match goal with
      | _ : _ a b = _ |- _ => idtac
      | _ : _ b a = _ |- _ => idtac
      end
  end.

(* a branch that contradicts what the checks passed so far have established is closed at once:
   the out-of-range branch of a list access, the Panic branch of a model loop, the impossible
   outcome of a comparison related to a decided one.  Everything else is left to the leaves. *)
Ltac split_on y :=
  first [ known y
        | known_flipped y
        | is_var y; destruct y
        | lazymatch y with
          | nth_error _ _ => destruct y eqn:?; [ | try (exfalso; len_facts; lia) ]
          | _ =>
            tryif related_known y
            then (destruct y eqn:?; try (exfalso; lia))
            else (destruct y eqn:?;
                  try lazymatch goal with
                      | _ : y = Panic |- _ => exfalso; len_facts; model_facts; lia
                      end)
          end ].

Ltac split_step :=
  match goal with
  | |- context [match ?x with _ => _ end] =>
      let y := inner x in split_on y; simp
  end.

Ltac leaf :=
  first [ reflexivity
        | congruence
        | len_facts; model_facts;
          first [ reflexivity | congruence | exfalso; lia | repeat f_equal; lia ] ].

(* [L]: a tactic that rewrites the loops that have become visible (never fails) *)
Ltac split_all_l L :=
  simp; L; try unfold bind; simp;
  lazymatch goal with
  | |- ?x = ?x => reflexivity
  | |- context [match _ with _ => _ end] => split_step; split_all_l L
  | _ => leaf
  end.
Ltac split_all := split_all_l idtac.
