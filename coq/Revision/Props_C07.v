(* C07 — The host only counter-signs economically safe revisions.
   Statements only; every proof is [exact lemma].  Model: Revision/Model.v = rhp/contracts.go
   WITH fixes/C07-revision-validation-panics.patch.

   Vocabulary (Revision/Proofs.v):
     vr/vh r        renter / host valid payout   (outputs 0 / 1 of ValidProofOutputs)
     mr/mh/mvoid r  renter / host / void missed payout (outputs 0 / 1 / 2 of MissedProofOutputs)
     sumv l         sum of the output values of l (unbounded)
     wf r           2 valid / 3 missed outputs with equal sums — the shape of every contract the
                    host stores: accepted formations/renewals establish the 2/3 shape
                    (C12: c12_*_establish_shape), consensus the equal sums, and every accepted
                    revision preserves both (conjunct [wf rv] below)
     inrange r      every output value < 2^128 (types.Currency is 128 bit)
     safe_revision cur rv price maxburn :=
        rnum cur < rnum rv                                       revision number strictly increases
     /\ ruh rv = ruh cur /\ ruc rv = ruc cur                      unlock hash / unlock conditions unchanged
     /\ rws rv = rws cur /\ rwe rv = rwe cur                      proof window unchanged
     /\ length (rvalid rv) = length (rvalid cur) /\ length (rmissed rv) = length (rmissed cur)
     /\ map oaddr (rvalid rv) = map oaddr (rvalid cur) /\ map oaddr (rmissed rv) = map oaddr (rmissed cur)
     /\ sumv (rvalid rv) = sumv (rvalid cur) /\ sumv (rmissed rv) = sumv (rmissed cur)
     /\ vr rv <= vr cur /\ mr rv <= mr cur                        no renter payout increases
     /\ vh cur + price <= vh rv                                   host valid payout +>= price
     /\ mh cur <= mh rv + maxburn                                 host missed payout -<= maxburn
     cleared cur fin payment :=
        rsize fin = 0 /\ rroot fin = 0 /\ rnum fin = max64 /\ rmissed fin = rvalid fin
     /\ unlock hash/conditions and window unchanged /\ two valid outputs with unchanged addresses
     /\ valid sum unchanged /\ vr fin <= vr cur /\ vh cur + payment <= vh fin *)
From HostdBase Require Import Base.
From HostdRevision Require Import Model Proofs GenPrelude ProofsGen.
From HostdRevision.gen Require Import RevisionGen.
From HostdRevision Require Legacy.
Local Open Scope N_scope.

(* RPCRead / RPCWrite / RPCSectorRoots: price = payment, at most [collateral] is put at risk *)
Theorem c07_validate_revision_sound : forall cur rv payment collateral transfer burn,
  wf cur -> inrange cur ->
  validate_revision cur rv payment collateral = Ok (transfer, burn) ->
  safe_revision cur rv payment collateral /\
  transfer = vh rv - vh cur /\ transfer = vr cur - vr rv /\ burn = mh cur - mh rv /\
  payment <= transfer /\ burn <= collateral /\
  wf rv /\ inrange rv.
Proof. exact validate_revision_safe. Qed.
Print Assumptions c07_validate_revision_sound.

(* program finalisation: the RPC itself is paid from the budget (price 0); the host burns at
   most storage + collateral, into the void output, nothing else moves *)
Theorem c07_validate_program_sound : forall cur rv storage collateral burn,
  wf cur -> inrange cur ->
  validate_program cur rv storage collateral = Ok burn ->
  safe_revision cur rv 0 (storage + collateral) /\
  burn = mh cur - mh rv /\ burn <= storage + collateral /\ mvoid rv = mvoid cur + burn /\
  vr rv = vr cur /\ vh rv = vh cur /\ mr rv = mr cur /\
  wf rv /\ inrange rv.
Proof. exact validate_program_safe. Qed.
Print Assumptions c07_validate_program_sound.

(* pay-by-contract / fund-account: exactly [payment] moves from both renter payouts to both
   host payouts *)
Theorem c07_validate_payment_sound : forall cur rv payment,
  wf cur -> inrange cur ->
  validate_payment cur rv payment = Ok tt ->
  safe_revision cur rv payment 0 /\
  vr rv = vr cur - payment /\ mr rv = mr cur - payment /\ payment <= vr cur /\ payment <= mr cur /\
  vh rv = vh cur + payment /\ mh rv = mh cur + payment /\
  wf rv /\ inrange rv.
Proof. exact validate_payment_safe. Qed.
Print Assumptions c07_validate_payment_sound.

(* clearing revision (any shape of the current revision) *)
Theorem c07_validate_clearing_sound : forall cur fin payment toHost,
  inrange cur -> inrange fin ->
  validate_clearing cur fin payment = Ok toHost ->
  cleared cur fin payment /\ toHost = vh fin - vh cur /\ toHost = vr cur - vr fin /\ payment <= toHost.
Proof. exact validate_clearing_sound. Qed.
Print Assumptions c07_validate_clearing_sound.

(* the shared structural checks, for a current revision of ANY shape *)
Theorem c07_validate_std_sound_any_shape : forall cur rv,
  validate_std cur rv = Ok tt -> std_ok cur rv.
Proof. exact validate_std_sound. Qed.
Print Assumptions c07_validate_std_sound_any_shape.

(* accepted revisions keep the contract well-formed (and establish equal sums by themselves) *)
Theorem c07_accepted_revision_preserves_wf : forall cur rv,
  wf cur -> std_ok cur rv -> wf rv /\ sumv (rmissed rv) = sumv (rmissed cur).
Proof. exact std_ok_preserves_wf. Qed.
Print Assumptions c07_accepted_revision_preserves_wf.

Theorem c07_accepted_revision_equal_sums : forall cur rv,
  std_ok cur rv -> sumv (rvalid rv) = sumv (rmissed rv).
Proof. exact std_ok_equal_sums. Qed.
Print Assumptions c07_accepted_revision_equal_sums.

(* after a clearing revision (revision number = max) no further revision is accepted *)
Theorem c07_cleared_is_final : forall cur rv,
  rnum cur = max64 -> rnum rv <= max64 -> validate_std cur rv <> Ok tt.
Proof. exact cleared_is_final. Qed.
Print Assumptions c07_cleared_is_final.

(* Revise / ClearingRevision build the candidate from the renter's number and values only *)
Theorem c07_revise_from_renter_values : forall r num vs ms r',
  revise r num vs ms = Ok r' ->
  rnum r <> max64 /\ rnum r < num /\ rnum r' = num /\
  map oval (rvalid r') = vs /\ map oval (rmissed r') = ms /\
  same_but_values r r' /\ map oaddr (rmissed r') = map oaddr (rmissed r) /\
  rsize r' = rsize r /\ rroot r' = rroot r.
Proof. exact revise_sound. Qed.
Print Assumptions c07_revise_from_renter_values.

Theorem c07_clearing_from_renter_values : forall r vs r',
  clearing_revision r vs = Ok r' ->
  rnum r <> max64 /\ rnum r' = max64 /\ rsize r' = 0 /\ rroot r' = 0 /\
  rmissed r' = rvalid r' /\ map oval (rvalid r') = vs /\ same_but_values r r'.
Proof. exact clearing_revision_sound. Qed.
Print Assumptions c07_clearing_from_renter_values.

Theorem c07_initial_revision_keeps_contract : forall fc other uc,
  rvalid (initial_revision fc other uc) = rvalid fc /\ rmissed (initial_revision fc other uc) = rmissed fc /\
  rnum (initial_revision fc other uc) = 1 /\
  rws (initial_revision fc other uc) = rws fc /\ rwe (initial_revision fc other uc) = rwe fc /\
  ruh (initial_revision fc other uc) = ruh fc /\ rsize (initial_revision fc other uc) = rsize fc /\
  rroot (initial_revision fc other uc) = rroot fc.
Proof. exact initial_revision_shape. Qed.
Print Assumptions c07_initial_revision_keeps_contract.

(* the RPC path: Revise from the renter's number and values, then ValidateRevision *)
Theorem c07_revise_then_validate_safe : forall cur num vs ms r payment collateral transfer burn,
  wf cur -> inrange cur ->
  revise cur num vs ms = Ok r ->
  validate_revision cur r payment collateral = Ok (transfer, burn) ->
  rnum r = num /\ map oval (rvalid r) = vs /\ map oval (rmissed r) = ms /\
  rsize r = rsize cur /\ rroot r = rroot cur /\ rother r = rother cur /\
  safe_revision cur r payment collateral /\ wf r.
Proof. exact revise_then_validate_safe. Qed.
Print Assumptions c07_revise_then_validate_safe.

(* no input of any shape (any output counts, any values, any arguments) makes validation panic *)
Theorem c07_validate_std_no_panic : forall cur rv, validate_std cur rv <> Panic.
Proof. exact validate_std_no_panic. Qed.
Print Assumptions c07_validate_std_no_panic.

Theorem c07_validate_revision_no_panic : forall cur rv payment collateral,
  validate_revision cur rv payment collateral <> Panic.
Proof. exact validate_revision_no_panic. Qed.
Print Assumptions c07_validate_revision_no_panic.

Theorem c07_validate_program_no_panic : forall cur rv storage collateral,
  validate_program cur rv storage collateral <> Panic.
Proof. exact validate_program_no_panic. Qed.
Print Assumptions c07_validate_program_no_panic.

Theorem c07_validate_payment_no_panic : forall cur rv payment,
  validate_payment cur rv payment <> Panic.
Proof. exact validate_payment_no_panic. Qed.
Print Assumptions c07_validate_payment_no_panic.

Theorem c07_validate_clearing_no_panic : forall cur fin payment,
  validate_clearing cur fin payment <> Panic.
Proof. exact validate_clearing_no_panic. Qed.
Print Assumptions c07_validate_clearing_no_panic.

Theorem c07_revise_no_panic : forall r num vs ms, revise r num vs ms <> Panic.
Proof. exact revise_no_panic. Qed.
Print Assumptions c07_revise_no_panic.

Theorem c07_clearing_revision_no_panic : forall r vs, clearing_revision r vs <> Panic.
Proof. exact clearing_revision_no_panic. Qed.
Print Assumptions c07_clearing_revision_no_panic.

(* all entry points the correspondence check drives ([stored_ok]: the pay-by-contract path reads
   the renter payout of the host's own stored revision, which has one) *)
Theorem c07_no_panic : forall c, stored_ok c -> run c <> Panic.
Proof. exact run_no_panic. Qed.
Print Assumptions c07_no_panic.

(* The unpatched functions do panic (kept for the record): witnesses in Legacy.v *)
Theorem c07_legacy_no_panic_refuted :
  (exists cur rv p k, wf cur /\ inrange cur /\ inrange rv /\ Legacy.validate_revision cur rv p k = Panic) /\
  (exists cur rv p, wf cur /\ inrange cur /\ inrange rv /\ Legacy.validate_payment cur rv p = Panic) /\
  (exists cur rv p k, Legacy.validate_revision cur rv p k = Panic /\ (length (rvalid cur) < length (rvalid rv))%nat).
Proof. exact Legacy.legacy_panics. Qed.
Print Assumptions c07_legacy_no_panic_refuted.

(* the patch is conservative: ValidateRevision accepts exactly what it accepted before, with the
   same returned values, for current/proposed revisions of any shape *)
Theorem c07_patch_conservative : forall cur rv p k x,
  Legacy.validate_revision cur rv p k = Ok x <-> validate_revision cur rv p k = Ok x.
Proof. exact Legacy.validate_revision_conservative. Qed.
Print Assumptions c07_patch_conservative.

(* non-vacuity: a well-formed contract, an accepted revision of each kind, a rejection *)
Example c07_nonvacuous :
  wf ex_cur /\ inrange ex_cur
  /\ validate_revision ex_cur (R 1 0 4194304 1 100 200 [O 1 990; O 2 510] [O 1 990; O 2 380; O 0 130] 1 6) 10 20 = Ok (10, 20)
  /\ validate_program ex_cur (R 1 0 4194304 1 100 200 [O 1 1000; O 2 500] [O 1 1000; O 2 370; O 0 130] 1 6) 10 20 = Ok 30
  /\ validate_payment ex_cur (R 1 0 4194304 1 100 200 [O 1 900; O 2 600] [O 1 900; O 2 500; O 0 100] 1 6) 100 = Ok tt
  /\ validate_clearing ex_cur (R 1 0 0 0 100 200 [O 1 990; O 2 510] [O 1 990; O 2 510] 1 max64) 10 = Ok 10
  /\ validate_revision ex_cur (R 1 0 4194304 1 100 200 [O 1 990; O 2 510] [O 1 990; O 2 380; O 0 130] 1 6) 11 20 = Err EInvalid.
Proof. exact nonvacuous_ex. Qed.

(** The same theorems about the REGENERATED definitions: gen/RevisionGen.v is written by
   tools/go2coq from the current rhp/contracts.go at the start of every check run
   (validateStdRevision, ValidateRevision, ValidateProgramRevision, ValidatePaymentRevision,
   ValidateClearingRevision, Revise, ClearingRevision are the translated Go functions);
   GenEquiv.v proves each equal to the hand-written model for all arguments, ProofsGen.v
   transports the lemmas.  A change of the Go code that changes behaviour breaks these. *)

Theorem c07_gen_validate_revision_sound : forall cur rv payment collateral transfer burn,
  wf cur -> inrange cur ->
  ValidateRevision cur rv payment collateral = Ok (transfer, burn) ->
  safe_revision cur rv payment collateral /\
  transfer = vh rv - vh cur /\ transfer = vr cur - vr rv /\ burn = mh cur - mh rv /\
  payment <= transfer /\ burn <= collateral /\
  wf rv /\ inrange rv.
Proof. exact gen_validate_revision_safe. Qed.
Print Assumptions c07_gen_validate_revision_sound.

Theorem c07_gen_validate_program_sound : forall cur rv storage collateral burn,
  wf cur -> inrange cur ->
  ValidateProgramRevision cur rv storage collateral = Ok burn ->
  safe_revision cur rv 0 (storage + collateral) /\
  burn = mh cur - mh rv /\ burn <= storage + collateral /\ mvoid rv = mvoid cur + burn /\
  vr rv = vr cur /\ vh rv = vh cur /\ mr rv = mr cur /\
  wf rv /\ inrange rv.
Proof. exact gen_validate_program_safe. Qed.
Print Assumptions c07_gen_validate_program_sound.

Theorem c07_gen_validate_payment_sound : forall cur rv payment,
  wf cur -> inrange cur ->
  ValidatePaymentRevision cur rv payment = Ok tt ->
  safe_revision cur rv payment 0 /\
  vr rv = vr cur - payment /\ mr rv = mr cur - payment /\ payment <= vr cur /\ payment <= mr cur /\
  vh rv = vh cur + payment /\ mh rv = mh cur + payment /\
  wf rv /\ inrange rv.
Proof. exact gen_validate_payment_safe. Qed.
Print Assumptions c07_gen_validate_payment_sound.

Theorem c07_gen_validate_clearing_sound : forall cur fin payment toHost,
  inrange cur -> inrange fin ->
  ValidateClearingRevision cur fin payment = Ok toHost ->
  cleared cur fin payment /\ toHost = vh fin - vh cur /\ toHost = vr cur - vr fin /\ payment <= toHost.
Proof. exact gen_validate_clearing_sound. Qed.
Print Assumptions c07_gen_validate_clearing_sound.

Theorem c07_gen_validate_std_sound_any_shape : forall cur rv,
  validateStdRevision cur rv = Ok tt -> std_ok cur rv.
Proof. exact gen_validate_std_sound. Qed.
Print Assumptions c07_gen_validate_std_sound_any_shape.

Theorem c07_gen_cleared_is_final : forall cur rv,
  rnum cur = max64 -> rnum rv <= max64 -> validateStdRevision cur rv <> Ok tt.
Proof. exact gen_cleared_is_final. Qed.
Print Assumptions c07_gen_cleared_is_final.

Theorem c07_gen_revise_from_renter_values : forall r num vs ms r',
  Revise r num vs ms = Ok r' ->
  rnum r <> max64 /\ rnum r < num /\ rnum r' = num /\
  map oval (rvalid r') = vs /\ map oval (rmissed r') = ms /\
  same_but_values r r' /\ map oaddr (rmissed r') = map oaddr (rmissed r) /\
  rsize r' = rsize r /\ rroot r' = rroot r.
Proof. exact gen_revise_sound. Qed.
Print Assumptions c07_gen_revise_from_renter_values.

Theorem c07_gen_clearing_from_renter_values : forall r vs r',
  ClearingRevision r vs = Ok r' ->
  rnum r <> max64 /\ rnum r' = max64 /\ rsize r' = 0 /\ rroot r' = 0 /\
  rmissed r' = rvalid r' /\ map oval (rvalid r') = vs /\ same_but_values r r'.
Proof. exact gen_clearing_revision_sound. Qed.
Print Assumptions c07_gen_clearing_from_renter_values.

Theorem c07_gen_revise_then_validate_safe : forall cur num vs ms r payment collateral transfer burn,
  wf cur -> inrange cur ->
  Revise cur num vs ms = Ok r ->
  ValidateRevision cur r payment collateral = Ok (transfer, burn) ->
  rnum r = num /\ map oval (rvalid r) = vs /\ map oval (rmissed r) = ms /\
  rsize r = rsize cur /\ rroot r = rroot cur /\ rother r = rother cur /\
  safe_revision cur r payment collateral /\ wf r.
Proof. exact gen_revise_then_validate_safe. Qed.
Print Assumptions c07_gen_revise_then_validate_safe.

Theorem c07_gen_validate_std_no_panic : forall cur rv, validateStdRevision cur rv <> Panic.
Proof. exact gen_validate_std_no_panic. Qed.
Print Assumptions c07_gen_validate_std_no_panic.

Theorem c07_gen_validate_revision_no_panic : forall cur rv payment collateral,
  ValidateRevision cur rv payment collateral <> Panic.
Proof. exact gen_validate_revision_no_panic. Qed.
Print Assumptions c07_gen_validate_revision_no_panic.

Theorem c07_gen_validate_program_no_panic : forall cur rv storage collateral,
  ValidateProgramRevision cur rv storage collateral <> Panic.
Proof. exact gen_validate_program_no_panic. Qed.
Print Assumptions c07_gen_validate_program_no_panic.

Theorem c07_gen_validate_payment_no_panic : forall cur rv payment,
  ValidatePaymentRevision cur rv payment <> Panic.
Proof. exact gen_validate_payment_no_panic. Qed.
Print Assumptions c07_gen_validate_payment_no_panic.

Theorem c07_gen_validate_clearing_no_panic : forall cur fin payment,
  ValidateClearingRevision cur fin payment <> Panic.
Proof. exact gen_validate_clearing_no_panic. Qed.
Print Assumptions c07_gen_validate_clearing_no_panic.

Theorem c07_gen_revise_no_panic : forall r num vs ms, Revise r num vs ms <> Panic.
Proof. exact gen_revise_no_panic. Qed.
Print Assumptions c07_gen_revise_no_panic.

Theorem c07_gen_clearing_revision_no_panic : forall r vs, ClearingRevision r vs <> Panic.
Proof. exact gen_clearing_revision_no_panic. Qed.
Print Assumptions c07_gen_clearing_revision_no_panic.
