(* Revision/Model.v — rhp/contracts.go of hostd, line by line, evaluation order preserved.
   Corresponds to the code WITH fixes/C07-revision-validation-panics.patch applied
   (length checks before indexing, AddWithOverflow/SubWithUnderflow instead of the
   panicking Currency.Add/Sub).  The unpatched functions are kept in Legacy.v, where
   their panics are exhibited.  No proofs here.

   Go -> model:
   * types.FileContractRevision -> [rev]; addresses, hashes and the unlock-conditions hash
     are numbered by the harness (equal id <-> equal value; 0 is Go's zero value for
     [rroot]); [rother] numbers the remaining fields (ParentID, Payout, the unlock
     conditions themselves) which no function in this file reads.
   * s[i] on a slice -> [nth_out], Panic when out of range; ValidRenterPayout() etc. are
     the element 0/1 accessors of core and panic on short slices.
   * Currency.Add/Sub -> Base.cadd/csub (Panic); AddWithOverflow/SubWithUnderflow ->
     Base.cadd_o/csub_u.
   * a returned error -> Err EInvalid (error texts are not compared). *)
From HostdBase Require Import Base.
Local Open Scope N_scope.

Record output := { oaddr : N; oval : N }.

Record rev := {
  rother  : N;            (* ParentID, Payout, UnlockConditions (id) *)
  ruc     : N;            (* UnlockConditions.UnlockHash() (id) *)
  rsize   : N;            (* Filesize *)
  rroot   : N;            (* FileMerkleRoot (id, 0 = Hash256{}) *)
  rws     : N;            (* WindowStart *)
  rwe     : N;            (* WindowEnd *)
  rvalid  : list output;  (* ValidProofOutputs *)
  rmissed : list output;  (* MissedProofOutputs *)
  ruh     : N;            (* UnlockHash (id) *)
  rnum    : N             (* RevisionNumber *)
}.

Definition bad {A} : res A := Err EInvalid.

(** * slice indexing and core's payout accessors *)
Definition nth_out (l : list output) (i : nat) : res output :=
  match nth_error l i with Some o => Ok o | None => Panic end.

Definition valid_renter (r : rev) : res N := do o <- nth_out (rvalid r) 0; Ok (oval o).
Definition valid_host (r : rev) : res N := do o <- nth_out (rvalid r) 1; Ok (oval o).
Definition missed_renter (r : rev) : res N := do o <- nth_out (rmissed r) 0; Ok (oval o).
Definition missed_host (r : rev) : res N := do o <- nth_out (rmissed r) 1; Ok (oval o).

(** * validateStdRevision *)

(* for _, o := range current.ValidProofOutputs { oldPayout, overflow = oldPayout.AddWithOverflow(o.Value) ... } *)
Fixpoint sum_o (acc : N) (l : list output) : res N :=
  match l with
  | [] => Ok acc
  | o :: t => let '(s, ov) := cadd_o acc (oval o) in
              if ov then bad else sum_o s t
  end.

(* for i := range revision.X { if revision.X[i].Address != current.X[i].Address {err};
                               sum, overflow = sum.AddWithOverflow(revision.X[i].Value) ... }
   the two slices are walked in step; current.X[i] panics when current is shorter *)
Fixpoint addr_sum (acc : N) (revs curs : list output) : res N :=
  match revs with
  | [] => Ok acc
  | r :: rt =>
      match curs with
      | [] => Panic
      | c :: ct =>
          if negb (oaddr r =? oaddr c) then bad
          else let '(s, ov) := cadd_o acc (oval r) in
               if ov then bad else addr_sum s rt ct
      end
  end.

Definition validate_std (cur rv : rev) : res unit :=
  if negb (length (rvalid rv) =? length (rvalid cur))%nat then bad else
  if negb (length (rmissed rv) =? length (rmissed cur))%nat then bad else
  if (length (rvalid cur) <? 2)%nat then bad else
  if (length (rmissed cur) <? 2)%nat then bad else
  do oldp <- sum_o 0 (rvalid cur);
  do vp <- addr_sum 0 (rvalid rv) (rvalid cur);
  do mp <- addr_sum 0 (rmissed rv) (rmissed cur);
  if negb (vp =? oldp) then bad else
  if negb (mp =? oldp) then bad else
  if negb (ruh rv =? ruh cur) then bad else
  if negb (ruc rv =? ruc cur) then bad else
  if rnum rv <=? rnum cur then bad else
  if negb (rws rv =? rws cur) then bad else
  if negb (rwe rv =? rwe cur) then bad else
  do rvr <- valid_renter rv; do cvr <- valid_renter cur;
  if cvr <? rvr then bad else
  do rmr <- missed_renter rv; do cmr <- missed_renter cur;
  if cmr <? rmr then bad else
  do rvr' <- valid_renter rv; do rmr' <- missed_renter rv;
  if negb (rvr' =? rmr') then bad else
  Ok tt.

(** * ValidateRevision: returns (transfer, burn) *)
Definition validate_revision (cur rv : rev) (payment collateral : N) : res (N * N) :=
  do _ <- validate_std cur rv;
  do cvr <- valid_renter cur;
  if cvr <? payment then bad else
  do cmr <- missed_renter cur;
  if cmr <? payment then bad else
  do cmh <- missed_host cur;
  if cmh <? collateral then bad else
  do cvr2 <- valid_renter cur; do rvr <- valid_renter rv;
  let '(fromRenter, uf1) := csub_u cvr2 rvr in
  if uf1 then bad else
  do rvh <- valid_host rv; do cvh <- valid_host cur;
  let '(toHost, uf2) := csub_u rvh cvh in
  if uf2 then bad else
  do cmh2 <- missed_host cur; do rmh <- missed_host rv;
  let '(hostBurn, uf3) := csub_u cmh2 rmh in
  if uf3 then bad else
  if negb (fromRenter =? toHost) then bad else
  if toHost <? payment then bad else
  if collateral <? hostBurn then bad else
  Ok (toHost, hostBurn).

(** * ValidateProgramRevision: returns burn *)
Definition validate_program (cur rv : rev) (storage collateral : N) : res N :=
  do _ <- validate_std cur rv;
  if (length (rmissed cur) <? 3)%nat then bad else
  do cmh <- missed_host cur; do rmh <- missed_host rv;
  let '(hostBurn, uf1) := csub_u cmh rmh in
  if uf1 then bad else
  let '(expectedBurn, ov) := cadd_o storage collateral in
  if ov then bad else
  if expectedBurn <? hostBurn then bad else
  do rvoid <- nth_out (rmissed rv) 2; do cvoid <- nth_out (rmissed cur) 2;
  let '(voidBurn, uf2) := csub_u (oval rvoid) (oval cvoid) in
  if uf2 then bad else
  if negb (voidBurn =? hostBurn) then bad else
  do cvr <- valid_renter cur; do rvr <- valid_renter rv;
  if negb (cvr =? rvr) then bad else
  do cvh <- valid_host cur; do rvh <- valid_host rv;
  if negb (cvh =? rvh) then bad else
  do cmr <- missed_renter cur; do rmr <- missed_renter rv;
  if negb (cmr =? rmr) then bad else
  Ok hostBurn.

(** * ValidatePaymentRevision *)
Definition validate_payment (cur rv : rev) (payment : N) : res unit :=
  do _ <- validate_std cur rv;
  do cvr <- valid_renter cur;
  let '(validRenter, uf1) := csub_u cvr payment in
  if uf1 then bad else
  do cmr <- missed_renter cur;
  let '(missedRenter, uf2) := csub_u cmr payment in
  if uf2 then bad else
  do cvh <- valid_host cur;
  let '(validHost, ov1) := cadd_o cvh payment in
  if ov1 then bad else
  do cmh <- missed_host cur;
  let '(missedHost, ov2) := cadd_o cmh payment in
  if ov2 then bad else
  do rvr <- valid_renter rv;
  if negb (rvr =? validRenter) then bad else
  do rmr <- missed_renter rv;
  if negb (rmr =? missedRenter) then bad else
  do rvh <- valid_host rv;
  if negb (rvh =? validHost) then bad else
  do rmh <- missed_host rv;
  if negb (rmh =? missedHost) then bad else
  Ok tt.

(** * ValidateClearingRevision: returns the amount transferred to the host *)

(* for i := range final.ValidProofOutputs {
     current, valid, missed := current.ValidProofOutputs[i], final.ValidProofOutputs[i], final.MissedProofOutputs[i] ... } *)
Fixpoint clearing_loop (fvalid cvalid fmissed : list output) : res unit :=
  match fvalid with
  | [] => Ok tt
  | v :: vt =>
      match cvalid with
      | [] => Panic
      | c :: ct =>
          match fmissed with
          | [] => Panic
          | m :: mt =>
              if negb (oaddr v =? oaddr c) then bad else
              if negb (oaddr v =? oaddr m) then bad else
              if negb (oval v =? oval m) then bad else
              clearing_loop vt ct mt
          end
      end
  end.

Definition validate_clearing (cur fin : rev) (finalPayment : N) : res N :=
  if negb (rsize fin =? 0) then bad else
  if negb (rroot fin =? 0) then bad else
  if negb (rws cur =? rws fin) then bad else
  if negb (rwe cur =? rwe fin) then bad else
  if negb (length (rmissed fin) =? 2)%nat then bad else
  if negb (length (rvalid fin) =? length (rmissed fin))%nat then bad else
  if negb (length (rvalid fin) =? length (rvalid cur))%nat then bad else
  if negb (rnum fin =? max64) then bad else
  if negb (ruh fin =? ruh cur) then bad else
  if negb (ruc fin =? ruc cur) then bad else
  do cvr <- valid_renter cur; do fmr <- missed_renter fin;
  let '(fromRenter, uf1) := csub_u cvr fmr in
  if uf1 then bad else
  do fvh <- valid_host fin; do cvh <- valid_host cur;
  let '(toHost, uf2) := csub_u fvh cvh in
  if uf2 then bad else
  if negb (fromRenter =? toHost) then bad else
  if fromRenter <? finalPayment then bad else
  do _ <- clearing_loop (rvalid fin) (rvalid cur) (rmissed fin);
  Ok toHost.

(** * Revise / ClearingRevision: the candidate is built from renter-supplied values only *)

(* for i := range values { out[i].Address = old[i].Address; out[i].Value = values[i] } *)
Fixpoint with_values (old : list output) (vals : list N) : res (list output) :=
  match vals with
  | [] => Ok []
  | v :: vt =>
      match old with
      | [] => Panic
      | o :: ot => do t <- with_values ot vt; Ok ({| oaddr := oaddr o; oval := v |} :: t)
      end
  end.

Definition set_outputs (r : rev) (num : N) (v m : list output) : rev :=
  {| rother := rother r; ruc := ruc r; rsize := rsize r; rroot := rroot r;
     rws := rws r; rwe := rwe r; rvalid := v; rmissed := m; ruh := ruh r; rnum := num |}.

Definition revise (r : rev) (num : N) (vs ms : list N) : res rev :=
  if rnum r =? max64 then bad else
  if num <=? rnum r then bad else
  if negb (length vs =? length (rvalid r))%nat then bad else
  if negb (length ms =? length (rmissed r))%nat then bad else
  do v <- with_values (rvalid r) vs;
  do m <- with_values (rmissed r) ms;
  Ok (set_outputs r num v m).

Definition clearing_revision (r : rev) (vs : list N) : res rev :=
  if rnum r =? max64 then bad else
  if negb (length vs =? length (rvalid r))%nat then bad else
  do v <- with_values (rvalid r) vs;
  Ok {| rother := rother r; ruc := ruc r; rsize := 0; rroot := 0;
        rws := rws r; rwe := rwe r; rvalid := v; rmissed := v; ruh := ruh r; rnum := max64 |}.

(** * InitialRevision: first revision of a formation transaction's contract [fc]
   (the callers guarantee the transaction has a file contract); [other]/[uc] number the
   ParentID/UnlockConditions the function derives from the transaction and the keys *)
Definition initial_revision (fc : rev) (other uc : N) : rev :=
  {| rother := other; ruc := uc; rsize := rsize fc; rroot := rroot fc;
     rws := rws fc; rwe := rwe fc; rvalid := rvalid fc; rmissed := rmissed fc;
     ruh := ruh fc; rnum := 1 |}.

(** * correspondence entry point *)
(* short constructors for the recorded cases *)
Definition O (a v : N) : output := {| oaddr := a; oval := v |}.
Definition R (other uc size root ws we : N) (v m : list output) (uh num : N) : rev :=
  {| rother := other; ruc := uc; rsize := size; rroot := root; rws := ws; rwe := we;
     rvalid := v; rmissed := m; ruh := uh; rnum := num |}.

Inductive call :=
| CStd (cur rv : rev)
| CValidate (cur rv : rev) (payment collateral : N)
| CProgram (cur rv : rev) (storage collateral : N)
| CPayment (cur rv : rev) (payment : N)
| CClearing (cur fin : rev) (payment : N)
| CRevise (cur : rev) (num : N) (vs ms : list N)
| CClearingRev (cur : rev) (vs : list N)
| CInitial (fc : rev) (other uc : N)
  (* rhp/v2/rpc.go rpcSectorRoots / rpcRead / rpcWrite up to the point where the revision is
     handed to the contract manager: the locked contract must be revisable, the candidate is
     Revise(current, renter's number and values) and must pass ValidateRevision(cost, collateral);
     [cost]/[coll] are core's RPC*Cost totals (collateral 0 for sector roots and read), computed
     by the harness with core's functions *)
| HRevision (cur : rev) (num : N) (vs ms : list N) (cost coll : N)
  (* rhp/v3/payments.go processContractPayment up to the point where the account is credited:
     the candidate is Revise(current, renter's number and values), the amount is what the
     renter's valid payout loses, and the candidate must pass ValidatePaymentRevision(amount) *)
| HPayByContract (cur : rev) (num : N) (vs ms : list N).

Inductive outv := OUnit | OCur (a : N) | OCur2 (a b : N) | ORev (r : rev).

Definition run (c : call) : res outv :=
  match c with
  | CStd cur rv => do _ <- validate_std cur rv; Ok OUnit
  | CValidate cur rv p k => do x <- validate_revision cur rv p k; Ok (OCur2 (fst x) (snd x))
  | CProgram cur rv s k => do x <- validate_program cur rv s k; Ok (OCur x)
  | CPayment cur rv p => do _ <- validate_payment cur rv p; Ok OUnit
  | CClearing cur fin p => do x <- validate_clearing cur fin p; Ok (OCur x)
  | CRevise cur n vs ms => do r <- revise cur n vs ms; Ok (ORev r)
  | CClearingRev cur vs => do r <- clearing_revision cur vs; Ok (ORev r)
  | CInitial fc o u => Ok (ORev (initial_revision fc o u))
  | HRevision cur n vs ms cost coll =>
      if rnum cur =? max64 then bad else
      do r <- revise cur n vs ms;
      do x <- validate_revision cur r cost coll;
      Ok (OCur2 (fst x) (snd x))
  | HPayByContract cur n vs ms =>
      do r <- revise cur n vs ms;
      do cvr <- valid_renter cur; do rvr <- valid_renter r;
      let '(amount, uf) := csub_u cvr rvr in
      if uf then bad else
      do _ <- validate_payment cur r amount;
      Ok (OCur amount)
  end.

Definition output_eqb (a b : output) : bool := (oaddr a =? oaddr b) && (oval a =? oval b).
Definition rev_eqb (a b : rev) : bool :=
  (rother a =? rother b) && (ruc a =? ruc b) && (rsize a =? rsize b) && (rroot a =? rroot b) &&
  (rws a =? rws b) && (rwe a =? rwe b) && list_eqb output_eqb (rvalid a) (rvalid b) &&
  list_eqb output_eqb (rmissed a) (rmissed b) && (ruh a =? ruh b) && (rnum a =? rnum b).
Definition outv_eqb (a b : outv) : bool :=
  match a, b with
  | OUnit, OUnit => true
  | OCur x, OCur y => x =? y
  | OCur2 x1 x2, OCur2 y1 y2 => (x1 =? y1) && (x2 =? y2)
  | ORev r, ORev q => rev_eqb r q
  | _, _ => false
  end.

Definition case := (N * call * res outv)%type.
Definition check (cs : list case) := fmismatches run (res_eqb outv_eqb) cs.
