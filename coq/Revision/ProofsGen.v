(* Revision/ProofsGen.v — the headline lemmas of Proofs.v restated about the definitions that
   tools/go2coq regenerates from rhp/contracts.go (gen/RevisionGen.v), obtained by rewriting with
   the equivalences of GenEquiv.v.  What is proved here is proved about what the code says now. *)
From HostdBase Require Import Base.
From HostdRevision Require Import Model Proofs GenPrelude GenEquiv.
From HostdRevision.gen Require Import RevisionGen.
Local Open Scope N_scope.

Lemma gen_validate_revision_safe : forall cur rv payment collateral transfer burn,
  wf cur -> inrange cur ->
  ValidateRevision cur rv payment collateral = Ok (transfer, burn) ->
  safe_revision cur rv payment collateral /\
  transfer = vh rv - vh cur /\ transfer = vr cur - vr rv /\ burn = mh cur - mh rv /\
  payment <= transfer /\ burn <= collateral /\
  wf rv /\ inrange rv.
Proof. intros *. rewrite ValidateRevision_eq. apply validate_revision_safe. Qed.

Lemma gen_validate_program_safe : forall cur rv storage collateral burn,
  wf cur -> inrange cur ->
  ValidateProgramRevision cur rv storage collateral = Ok burn ->
  safe_revision cur rv 0 (storage + collateral) /\
  burn = mh cur - mh rv /\ burn <= storage + collateral /\ mvoid rv = mvoid cur + burn /\
  vr rv = vr cur /\ vh rv = vh cur /\ mr rv = mr cur /\
  wf rv /\ inrange rv.
Proof. intros *. rewrite ValidateProgramRevision_eq. apply validate_program_safe. Qed.

Lemma gen_validate_payment_safe : forall cur rv payment,
  wf cur -> inrange cur ->
  ValidatePaymentRevision cur rv payment = Ok tt ->
  safe_revision cur rv payment 0 /\
  vr rv = vr cur - payment /\ mr rv = mr cur - payment /\ payment <= vr cur /\ payment <= mr cur /\
  vh rv = vh cur + payment /\ mh rv = mh cur + payment /\
  wf rv /\ inrange rv.
Proof. intros *. rewrite ValidatePaymentRevision_eq. apply validate_payment_safe. Qed.

Lemma gen_validate_clearing_sound : forall cur fin payment toHost,
  inrange cur -> inrange fin ->
  ValidateClearingRevision cur fin payment = Ok toHost ->
  cleared cur fin payment /\ toHost = vh fin - vh cur /\ toHost = vr cur - vr fin /\ payment <= toHost.
Proof. intros *. rewrite ValidateClearingRevision_eq. apply validate_clearing_sound. Qed.

Lemma gen_validate_std_sound : forall cur rv,
  validateStdRevision cur rv = Ok tt -> std_ok cur rv.
Proof. intros *. rewrite validateStdRevision_eq. apply validate_std_sound. Qed.

Lemma gen_cleared_is_final : forall cur rv,
  rnum cur = max64 -> rnum rv <= max64 -> validateStdRevision cur rv <> Ok tt.
Proof. intros *. rewrite validateStdRevision_eq. apply cleared_is_final. Qed.

Lemma gen_revise_sound : forall r num vs ms r',
  Revise r num vs ms = Ok r' ->
  rnum r <> max64 /\ rnum r < num /\ rnum r' = num /\
  map oval (rvalid r') = vs /\ map oval (rmissed r') = ms /\
  same_but_values r r' /\ map oaddr (rmissed r') = map oaddr (rmissed r) /\
  rsize r' = rsize r /\ rroot r' = rroot r.
Proof. intros *. rewrite Revise_eq. apply revise_sound. Qed.

Lemma gen_clearing_revision_sound : forall r vs r',
  ClearingRevision r vs = Ok r' ->
  rnum r <> max64 /\ rnum r' = max64 /\ rsize r' = 0 /\ rroot r' = 0 /\
  rmissed r' = rvalid r' /\ map oval (rvalid r') = vs /\ same_but_values r r'.
Proof. intros *. rewrite ClearingRevision_eq. apply clearing_revision_sound. Qed.

Lemma gen_revise_then_validate_safe : forall cur num vs ms r payment collateral transfer burn,
  wf cur -> inrange cur ->
  Revise cur num vs ms = Ok r ->
  ValidateRevision cur r payment collateral = Ok (transfer, burn) ->
  rnum r = num /\ map oval (rvalid r) = vs /\ map oval (rmissed r) = ms /\
  rsize r = rsize cur /\ rroot r = rroot cur /\ rother r = rother cur /\
  safe_revision cur r payment collateral /\ wf r.
Proof. intros *. rewrite ValidateRevision_eq, Revise_eq. apply revise_then_validate_safe. Qed.

Lemma gen_validate_std_no_panic : forall cur rv, validateStdRevision cur rv <> Panic.
Proof. intros *. rewrite validateStdRevision_eq. apply validate_std_no_panic. Qed.

Lemma gen_validate_revision_no_panic : forall cur rv payment collateral,
  ValidateRevision cur rv payment collateral <> Panic.
Proof. intros *. rewrite ValidateRevision_eq. apply validate_revision_no_panic. Qed.

Lemma gen_validate_program_no_panic : forall cur rv storage collateral,
  ValidateProgramRevision cur rv storage collateral <> Panic.
Proof. intros *. rewrite ValidateProgramRevision_eq. apply validate_program_no_panic. Qed.

Lemma gen_validate_payment_no_panic : forall cur rv payment,
  ValidatePaymentRevision cur rv payment <> Panic.
Proof. intros *. rewrite ValidatePaymentRevision_eq. apply validate_payment_no_panic. Qed.

Lemma gen_validate_clearing_no_panic : forall cur fin payment,
  ValidateClearingRevision cur fin payment <> Panic.
Proof. intros *. rewrite ValidateClearingRevision_eq. apply validate_clearing_no_panic. Qed.

Lemma gen_revise_no_panic : forall r num vs ms, Revise r num vs ms <> Panic.
Proof. intros *. rewrite Revise_eq. apply revise_no_panic. Qed.

Lemma gen_clearing_revision_no_panic : forall r vs, ClearingRevision r vs <> Panic.
Proof. intros *. rewrite ClearingRevision_eq. apply clearing_revision_no_panic. Qed.
