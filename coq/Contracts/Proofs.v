(* Contracts/Proofs.v — lemmas behind Props_C01.v / Props_C05.v *)
From HostdBase Require Import Base.
From HostdContracts Require Import Model.

Lemma placeholder_status : forall s, ops_status1 s s = [].
Proof. destruct s; reflexivity. Qed.
