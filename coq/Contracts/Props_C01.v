(* C01 — Contract chain state is a function of the best chain.
   Statements only; every proof is [exact lemma].

   Vocabulary (Chain.v).  A [block] carries, per contract of the host, at most one change:
   confirmed / revised (old -> new revision number) / successful / failed / v2 renewed.  A history
   is a list of [item]s:  [HBatch n apps] = one Store.UpdateChainState transaction that disconnects
   the n tip blocks and then connects the blocks apps (reverts first, then per applied block
   ApplyContracts and RejectContracts(height - buffer) when height >= buffer — the order of
   contracts.Manager.UpdateChainState);  [HRescan] = ResetChainState followed by processing the
   whole best chain again from its first block;  [HOp o] = any other store operation (add, revise,
   renew, fund/debit account ...), which may also fail.  [wf_hist] is the consensus discipline:
   every connected block extends the current tip with changes that are legal there (a contract is
   confirmed at most once on a chain, revised only between confirmation and resolution starting
   from the revision the chain knows, resolved at most once; only contracts known to the store are
   mentioned).  [best_chain l []] is the chain the history ends on.
   [spec1 buffer neg id K] / [spec2 ...] are the chain columns (status, formation
   confirmed / confirmation index, confirmed revision number, resolution height / index) that
   processing ONLY the blocks of K, in order, on a store that never saw a block gives contract id
   with negotiation height neg (rejected once a processed height exceeds neg + buffer while
   unconfirmed).  [heqv1]/[heqv2]: equal, except that an unconfirmed contract may be pending on
   one side and rejected on the other (the one-way rejection). *)
From HostdBase Require Import Base.
From HostdContracts Require Import Model Build Lib Inv InvOps Chain BuildProofs PerContract Proj Rows
  SpecLemmas Steps Plain Rescan Hist RejCause ProofsC01 Wfb.
Local Open Scope N_scope.

(* Every well-formed history — any interleaving of batches of reverts and applies, rescans and other
   operations, of any length over any number of v1 and v2 contracts — runs without a single chain
   update returning an error or panicking, and afterwards every contract's chain columns are what
   the best chain alone gives. *)
Theorem c01_function_of_best_chain : forall (buffer : N) (l : list item),
  wf_hist buffer l (init, []) ->
  exists s, hrun buffer l (init, []) = ROk (s, best_chain l []) /\
            agrees_with_chain buffer s (best_chain l []).
Proof. exact function_of_best_chain. Qed.
Print Assumptions c01_function_of_best_chain.

(* The same continues to hold from every reachable store. *)
Theorem c01_function_of_best_chain_continued : forall (buffer : N) (s : state) (K : list block) (l : list item),
  reachable buffer s K -> wf_hist buffer l (s, K) ->
  exists s', hrun buffer l (s, K) = ROk (s', best_chain l K) /\ reachable buffer s' (best_chain l K).
Proof. exact reachable_continue. Qed.
Print Assumptions c01_function_of_best_chain_continued.

Theorem c01_reachable_agrees_with_chain : forall (buffer : N) (s : state) (K : list block),
  reachable buffer s K -> agrees_with_chain buffer s K.
Proof. exact reachable_agrees. Qed.
Print Assumptions c01_reachable_agrees_with_chain.

(* Differential form: take ANY store s0 that holds the same contracts (same ids and negotiation
   heights) and has not processed a block yet; processing only the blocks of the final best chain,
   in order, one per update, is itself well-formed, succeeds, and ends in equivalent rows. *)
Theorem c01_same_as_replay_of_best_chain : forall (buffer : N) (l : list item) (s0 : state),
  wf_hist buffer l (init, []) ->
  exists s, hrun buffer l (init, []) = ROk (s, best_chain l []) /\
  (blank_store buffer s0 -> same_contracts s s0 ->
   wf_hist buffer (linear (best_chain l [])) (s0, []) /\
   exists s', hrun buffer (linear (best_chain l [])) (s0, []) = ROk (s', best_chain l []) /\
              rows_equivalent s s').
Proof. exact replay_agrees. Qed.
Print Assumptions c01_same_as_replay_of_best_chain.

(* such stores exist: anything reached from the empty store by non-chain operations only *)
Theorem c01_blank_stores : forall (buffer : N) (ops : list op),
  forallb is_plain ops = true ->
  blank_store buffer (fold_left (fun s o => exec_plain o s) ops init).
Proof. exact blank_after_plain. Qed.
Print Assumptions c01_blank_stores.

(* Disconnecting a block undoes what connecting it did (apart from the one-way rejection). *)
Theorem c01_disconnect_undoes_connect : forall (buffer : N) (s : state) (K : list block) (b : block),
  reachable buffer s K -> bvalid buffer (negof1 s) (negof2 s) K b ->
  exists s'', hrun buffer [HBatch 0 [b]; HBatch 1 []] (s, K) = ROk (s'', K) /\
              same_contracts s s'' /\ rows_equivalent s s''.
Proof. exact reachable_disconnect_undoes_connect. Qed.
Print Assumptions c01_disconnect_undoes_connect.

(* ... column by column, and exactly unless a rejected contract was being confirmed *)
Theorem c01_inverse_v1 : forall (h : N) (e : pev1) (x : ch1),
  cinv1 x -> valid1 e x ->
  heqv1 (rspec_ev1 e (spec_ev1 h e x)) x /\ (h_st x <> Rejected -> rspec_ev1 e (spec_ev1 h e x) = x).
Proof. exact inverse_v1. Qed.
Print Assumptions c01_inverse_v1.

Theorem c01_inverse_v2 : forall (i : idx) (e : pev2) (x : ch2),
  cinv2 x -> valid2 e x ->
  heqv2 (rspec_ev2 e (spec_ev2 i e x)) x /\ (g_st x <> R2 -> rspec_ev2 e (spec_ev2 i e x) = x).
Proof. exact inverse_v2. Qed.
Print Assumptions c01_inverse_v2.

(* A full rescan after a chain-state reset never fails and ends where it started. *)
Theorem c01_rescan : forall (buffer : N) (s : state) (K : list block),
  J buffer s K ->
  exists s', hexec buffer (s, K) HRescan = ROk (s', K) /\ J buffer s' K /\
             (forall id, negof1 s' id = negof1 s id) /\ (forall id, negof2 s' id = negof2 s id).
Proof. exact rescan_J. Qed.
Print Assumptions c01_rescan.

Theorem c01_reachable_is_J : forall (buffer : N) (s : state) (K : list block),
  reachable buffer s K -> J buffer s K.
Proof. exact reachable_is_J. Qed.
Print Assumptions c01_reachable_is_J.

(* Rejection.  (a) In every reachable store a contract is pending or rejected exactly when it is
   unconfirmed (so a confirmed contract is never rejected, and a rejected one becomes active when
   its formation is connected later — c01_function_of_best_chain). *)
Theorem c01_rejected_iff_unconfirmed : forall (buffer : N) (s : state) (K : list block),
  reachable buffer s K ->
  (forall id c, find1 id (cs1 s) = Some c -> (s1 c = Rejected \/ s1 c = Pending <-> formed c = false)) /\
  (forall id c, find2 id (cs2 s) = Some c -> (s2 c = R2 \/ s2 c = P2 <-> conf2 c = None)).
Proof. exact reachable_rejected_is_unconfirmed. Qed.
Print Assumptions c01_rejected_iff_unconfirmed.

(* (b) After any chain update (from any state the operations can reach) whose last connected
   block passed the height hm = height - buffer to RejectContracts, every unconfirmed contract
   with negotiation height < hm is rejected. *)
Theorem c01_rejection_complete_v1 : forall (l : list op) revs apps i ch hm s',
  exec (Chain revs (apps ++ [(i, ch, Some hm)])) (run init step l) = ROk s' ->
  forall id c, find1 id (cs1 s') = Some c -> formed c = false -> neg1 c <? hm = true -> s1 c = Rejected.
Proof. exact rejection_complete_v1_run. Qed.
Print Assumptions c01_rejection_complete_v1.

Theorem c01_rejection_complete_v2 : forall (l : list op) revs apps i ch hm s',
  exec (Chain revs (apps ++ [(i, ch, Some hm)])) (run init step l) = ROk s' ->
  forall id c, find2 id (cs2 s') = Some c -> conf2 c = None -> neg2 c <? hm = true -> s2 c = R2.
Proof. exact rejection_complete_v2_run. Qed.
Print Assumptions c01_rejection_complete_v2.

(* (c) Never without cause: after ANY list of operations, a rejected contract has negotiation
   height below one of the heights (block height - buffer) that a successfully processed applied
   block passed to RejectContracts ([run_rej]: those heights, most recent first) — i.e. some
   processed height exceeded negotiation height + buffer. *)
Theorem c01_rejected_only_with_cause : forall l : list op,
  (forall id c, find1 id (cs1 (run init step l)) = Some c -> s1 c = Rejected ->
     exists hm, In hm (run_rej init l []) /\ neg1 c < hm) /\
  (forall id c, find2 id (cs2 (run init step l)) = Some c -> s2 c = R2 ->
     exists hm, In hm (run_rej init l []) /\ neg2 c < hm).
Proof. exact rejected_has_cause. Qed.
Print Assumptions c01_rejected_only_with_cause.

(* The blocks of this file are what the contract manager hands to the store: buildContractState
   (Build.v, tied to host/contracts/update.go by its own correspondence run) maps the element diffs
   of a block to [changes_of false b] when connecting and to [changes_of true b] — the PREVIOUS
   revision numbers — when disconnecting. *)
Theorem c01_build_state_gives_block_changes : forall (revert : bool) (b : block),
  build_state revert (map diff1_of (evs1 b)) (map diff2_of (evs2 b)) = Some (changes_of revert b).
Proof. exact build_state_block. Qed.
Print Assumptions c01_build_state_gives_block_changes.

(* ... and one batch reaches the store in the order of Manager.UpdateChainState ([manager_calls],
   tied to the code by its own correspondence run on real chain updates): all reverts first, then
   per applied block ApplyContracts and, when height >= buffer, RejectContracts(height - buffer). *)
Theorem c01_batch_is_manager_order : forall (buffer : N) (R A : list block),
  op_calls (map rev_of R) (map (app_of buffer) A) =
  manager_calls buffer (map bheight R) (map bheight A).
Proof. exact batch_calls. Qed.
Print Assumptions c01_batch_is_manager_order.

(* non-vacuity: a well-formed history (checked by the executable, sound checker wf_histb) with a
   v1 and a v2 contract, formation, revisions, a storage proof and a renewal, a two-block reorg that
   disconnects the resolutions, a replacement branch with a failed resolution, a rescan, and a late
   contract that gets rejected; it runs, and the final statuses are as expected. *)
Example c01_nonvacuous :
  wf_hist 1 demo (init, []) /\
  match hrun 1 demo (init, []) with
  | ROk (s, K) => map (fun c => (s1 c, formed c, confRev c, resH c)) (cs1 s)
                  = [(Failed, true, 5, None); (Rejected, false, 0, None)]
                  /\ map (fun c => (s2 c, elem2 c)) (cs2 s) = [(A2, Some 2)]
                  /\ length K = 4%nat
  | _ => False
  end.
Proof. exact demo_ok. Qed.

(** * The two selections of RejectContracts, regenerated from the SQL

   q_rejectContracts / q_rejectV2Contracts (gen/RejectQueries.v) are produced on every run by
   tools/sqlgen (spec tools/sqlgen/c01.json) from the SQL text and the bound Go arguments of
   rejectContracts / rejectV2Contracts in the repository's current persist/sqlite/consensus.go,
   with SQLite's affinity rules (column types of init.sql, what database/sql binds for the Go
   status constants) and three-valued logic (SqlSem.v).  [row_of_c1] / [row_of_c2] (SqlRows.v)
   project a row of the model onto the columns the SQL reads. *)
From HostdContracts Require Import SqlSem SqlRows RejectQueries GenEquiv.

(* "counts as rejected once a processed height has exceeded ..." — the statement the store
   executes selects exactly the contracts that are unconfirmed, not rejected yet, and negotiated
   below the height it is given (the manager passes block height - buffer,
   c01_batch_is_manager_order) *)
Theorem c01_gen_reject_selects_exactly_unconfirmed_older_than : forall (c : c1) (h : N),
  q_rejectContracts (row_of_c1 c) h = true <->
  s1 c <> Rejected /\ formed c = false /\ neg1 c < h.
Proof. exact gen_reject_v1_iff. Qed.
Print Assumptions c01_gen_reject_selects_exactly_unconfirmed_older_than.

Theorem c01_gen_reject_v2_selects_exactly_unconfirmed_older_than : forall (c : c2) (h : N),
  q_rejectV2Contracts (row_of_c2 c) h = true <->
  s2 c <> R2 /\ conf2 c = None /\ neg2 c < h.
Proof. exact gen_reject_v2_iff. Qed.
Print Assumptions c01_gen_reject_v2_selects_exactly_unconfirmed_older_than.

(* the generated selections are, row by row, the conditions of the model the theorems above are
   about, so RejectContracts with the generated selections IS the model's reject_contracts *)
Theorem c01_gen_reject_is_model_selection : forall (h : N),
  (forall c : c1, q_rejectContracts (row_of_c1 c) h = q_rej1 h c) /\
  (forall c : c2, q_rejectV2Contracts (row_of_c2 c) h = q_rej2 h c).
Proof. exact (fun h => conj (fun c => q_rejectContracts_model c h) (fun c => q_rejectV2Contracts_model c h)). Qed.
Print Assumptions c01_gen_reject_is_model_selection.

Theorem c01_gen_reject_contracts_is_model : forall (h : N) (s : state),
  reject_contracts_gen h s = reject_contracts h s.
Proof. exact reject_contracts_gen_eq. Qed.
Print Assumptions c01_gen_reject_contracts_is_model.

(* the height is bound as a signed 64-bit integer: both statements are executable below 2^63 *)
Theorem c01_gen_reject_bindable : forall h : N,
  q_rejectContracts_bindable h && q_rejectV2Contracts_bindable h = u64_bindable h.
Proof. exact gen_reject_bindable. Qed.
Print Assumptions c01_gen_reject_bindable.

(* non-vacuity of the generated selections: at height 10 an unconfirmed pending contract
   negotiated at 9 is selected; one negotiated at 10, a rejected one and a confirmed one are not *)
Example c01_gen_nonvacuous :
  map (fun c => q_rejectContracts (row_of_c1 c) 10)
      [new1 1 9 0 0 uzero; new1 2 10 0 0 uzero; set_chain1 (new1 3 1 0 0 uzero) Rejected false None;
       set_chain1 (new1 4 1 0 0 uzero) Active true None] = [true; false; false; false] /\
  map (fun c => q_rejectV2Contracts (row_of_c2 c) 10)
      [new2 1 9 0 0 uzero; new2 2 10 0 0 uzero; set_chain2 (new2 3 1 0 0 uzero) R2 None None;
       set_chain2 (new2 4 1 0 0 uzero) A2 (Some (5, 7)) None] = [true; false; false; false].
Proof. vm_compute. repeat split; reflexivity. Qed.
