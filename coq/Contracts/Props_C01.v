From HostdBase Require Import Base.
From HostdContracts Require Import Model Proofs.
Theorem c01_placeholder : forall s, ops_status1 s s = [].
Proof. exact placeholder_status. Qed.
Print Assumptions c01_placeholder.
Example c01_nonvacuous : ops_status1 Active Active = [].
Proof. vm_compute; reflexivity. Qed.
