(* C01 — Contract chain state is a function of the best chain.
   Statements only; every proof is [exact lemma].

   Vocabulary (Chain.v).  A [block] carries the changes of the host's contracts: confirmed /
   revised (old -> new revision number) / successful / failed / v2 renewed.  One contract may be the
   subject of SEVERAL changes of one block, in the combinations consensus allows ([block_ok]: a v1
   formation whose element carries the revisions confirmed in the same block — confirmed + revised
   from 0 —, possibly proven in that very block (the block at its window start); a v2 contract
   revised and resolved in one block; Chain.v lists, with the rule of core
   behind each clause, what remains excluded); [evl1_of id b]/[evl2_of id b] are the changes of
   contract id in block b in the order ApplyContracts goes through them (RevertContracts: the same
   order, v1 formations last).  A
   history is a list of [item]s:  [HBatch n apps] = one Store.UpdateChainState transaction that
   disconnects the n tip blocks and then connects the blocks apps (reverts first, then per applied
   block ApplyContracts and RejectContracts(height - buffer) when height >= buffer — the order of
   contracts.Manager.UpdateChainState);  [HRescan] = ResetChainState followed by processing the
   whole best chain again from its first block;  [HOp o] = any other store operation (add, revise,
   renew, fund/debit account ...), which may also fail.  [wf_hist] is the consensus discipline:
   every connected block extends the current tip with changes that are legal there (a contract is
   confirmed at most once on a chain, revised only between confirmation and resolution starting
   from the revision the chain knows, resolved at most once; only contracts known to the store are
   mentioned).  [best_chain l []] is the chain the history ends on.
   [spec1 buffer neg id K] / [spec2 ...] are the chain columns (status, formation
   confirmed / confirmation index, confirmed revision number, resolution height / index) that
   processing ONLY the blocks of K, in order — per block the list of the contract's changes, then
   the rejection — on a store that never saw a block gives contract id with negotiation height neg
   (rejected once a processed height exceeds neg + buffer while unconfirmed).
   [heqv1]/[heqv2]: equal, except that an unconfirmed contract may be pending on one side and
   rejected on the other (the one-way rejection). *)
From HostdBase Require Import Base.
From HostdContracts Require Import Model Build Lib Inv InvOps Chain BuildProofs PerContract Proj Rows
  SpecLemmas Steps Plain Rescan Hist RejCause ProofsC01 Wfb SameBlock.
Local Open Scope N_scope.

(* Every well-formed history — any interleaving of batches of reverts and applies, rescans and other
   operations, of any length over any number of v1 and v2 contracts — runs without a single chain
   update returning an error or panicking, and afterwards every contract's chain columns are what
   the best chain alone gives. *)
Theorem c01_function_of_best_chain : forall (buffer : N) (l : list item),
  wf_hist buffer l (init, []) ->
  exists s, hrun buffer l (init, []) = ROk (s, best_chain l []) /\
            agrees_with_chain buffer s (best_chain l []).
Proof. exact function_of_best_chain. Qed.
Print Assumptions c01_function_of_best_chain.

(* The same continues to hold from every reachable store. *)
Theorem c01_function_of_best_chain_continued : forall (buffer : N) (s : state) (K : list block) (l : list item),
  reachable buffer s K -> wf_hist buffer l (s, K) ->
  exists s', hrun buffer l (s, K) = ROk (s', best_chain l K) /\ reachable buffer s' (best_chain l K).
Proof. exact reachable_continue. Qed.
Print Assumptions c01_function_of_best_chain_continued.

Theorem c01_reachable_agrees_with_chain : forall (buffer : N) (s : state) (K : list block),
  reachable buffer s K -> agrees_with_chain buffer s K.
Proof. exact reachable_agrees. Qed.
Print Assumptions c01_reachable_agrees_with_chain.

(* Differential form: take ANY store s0 that holds the same contracts (same ids and negotiation
   heights) and has not processed a block yet; processing only the blocks of the final best chain,
   in order, one per update, is itself well-formed, succeeds, and ends in equivalent rows. *)
Theorem c01_same_as_replay_of_best_chain : forall (buffer : N) (l : list item) (s0 : state),
  wf_hist buffer l (init, []) ->
  exists s, hrun buffer l (init, []) = ROk (s, best_chain l []) /\
  (blank_store buffer s0 -> same_contracts s s0 ->
   wf_hist buffer (linear (best_chain l [])) (s0, []) /\
   exists s', hrun buffer (linear (best_chain l [])) (s0, []) = ROk (s', best_chain l []) /\
              rows_equivalent s s').
Proof. exact replay_agrees. Qed.
Print Assumptions c01_same_as_replay_of_best_chain.

(* such stores exist: anything reached from the empty store by non-chain operations only *)
Theorem c01_blank_stores : forall (buffer : N) (ops : list op),
  forallb is_plain ops = true ->
  blank_store buffer (fold_left (fun s o => exec_plain o s) ops init).
Proof. exact blank_after_plain. Qed.
Print Assumptions c01_blank_stores.

(* Disconnecting a block undoes what connecting it did (apart from the one-way rejection). *)
Theorem c01_disconnect_undoes_connect : forall (buffer : N) (s : state) (K : list block) (b : block),
  reachable buffer s K -> bvalid buffer (negof1 s) (negof2 s) K b ->
  exists s'', hrun buffer [HBatch 0 [b]; HBatch 1 []] (s, K) = ROk (s'', K) /\
              same_contracts s s'' /\ rows_equivalent s s''.
Proof. exact reachable_disconnect_undoes_connect. Qed.
Print Assumptions c01_disconnect_undoes_connect.

(* ... column by column, and exactly unless a rejected contract was being confirmed *)
Theorem c01_inverse_v1 : forall (h : N) (e : pev1) (x : ch1),
  cinv1 x -> valid1 e x ->
  heqv1 (rspec_ev1 e (spec_ev1 h e x)) x /\ (h_st x <> Rejected -> rspec_ev1 e (spec_ev1 h e x) = x).
Proof. exact inverse_v1. Qed.
Print Assumptions c01_inverse_v1.

Theorem c01_inverse_v2 : forall (i : idx) (e : pev2) (x : ch2),
  cinv2 x -> valid2 e x ->
  heqv2 (rspec_ev2 e (spec_ev2 i e x)) x /\ (g_st x <> R2 -> rspec_ev2 e (spec_ev2 i e x) = x).
Proof. exact inverse_v2. Qed.
Print Assumptions c01_inverse_v2.

(* ... and for the whole list of changes one block carries for one contract (any combination
   [block_ok] admits), un-processed in the order RevertContracts uses — not the reverse order: v1
   [rorder1 l], the order of ApplyContracts with the formation last; v2 the order of ApplyContracts *)
Theorem c01_inverse_block_v1 : forall (h : N) (l : list pev1) (x : ch1),
  cinv1 x -> shape1 l -> valid_evs1 h l x ->
  heqv1 (rspec_evs1 (rorder1 l) (spec_evs1 h l x)) x /\
  (h_st x <> Rejected -> rspec_evs1 (rorder1 l) (spec_evs1 h l x) = x).
Proof. exact inverse_block_v1. Qed.
Print Assumptions c01_inverse_block_v1.

Theorem c01_inverse_block_v2 : forall (i : idx) (l : list pev2) (x : ch2),
  cinv2 x -> shape2 l -> valid_evs2 i l x ->
  heqv2 (rspec_evs2 l (spec_evs2 i l x)) x /\ (g_st x <> R2 -> rspec_evs2 l (spec_evs2 i l x) = x).
Proof. exact inverse_block_v2. Qed.
Print Assumptions c01_inverse_block_v2.

(* Several changes of one contract in one block, explicitly.  A v2 contract revised AND resolved
   (renewal / storage proof / expiration) in one block: both are recorded — from any reachable
   store, connecting the block leaves the contract resolved at that block with the revised
   revision as its confirmed one (fix d7434ff). *)
Theorem c01_same_block_revision_and_resolution :
  forall (buffer : N) (s : state) (K : list block) (b : block) (id : N) (c : c2) (o n : N) (e : pev2),
  reachable buffer s K -> bvalid buffer (negof1 s) (negof2 s) K b ->
  find2 id (cs2 s) = Some c -> evl2_of id b = [PRev2 o n; e] -> is_res2 e = true ->
  exists s' c', hrun buffer [HBatch 0 [b]] (s, K) = ROk (s', b :: K) /\ J buffer s' (b :: K) /\
    find2 id (cs2 s') = Some c' /\
    s2 c' = res_status e /\ res2 c' = Some (bidx b) /\ elem2 c' = Some n /\ conf2 c' = conf2 c.
Proof. exact reachable_same_block_revision_and_resolution. Qed.
Print Assumptions c01_same_block_revision_and_resolution.

(* A v1 formation whose created element carries revision k (revisions confirmed in the block of
   the formation are folded into it): the contract becomes active with k as its confirmed
   revision, so a host whose latest revision is k reports it confirmed
   (fixes/C01-formation-carries-revision.patch). *)
Theorem c01_formation_with_folded_revision :
  forall (buffer : N) (s : state) (K : list block) (b : block) (id : N) (c : c1) (k : N),
  reachable buffer s K -> bvalid buffer (negof1 s) (negof2 s) K b ->
  find1 id (cs1 s) = Some c -> evl1_of id b = [PForm1; PRev1 0 k] ->
  exists s' c', hrun buffer [HBatch 0 [b]] (s, K) = ROk (s', b :: K) /\ J buffer s' (b :: K) /\
    find1 id (cs1 s') = Some c' /\
    s1 c' = Active /\ formed c' = true /\ confRev c' = k /\ resH c' = None.
Proof. exact reachable_formation_with_folded_revision. Qed.
Print Assumptions c01_formation_with_folded_revision.

(* A v1 contract formed AND resolved in one block: its formation stayed unconfirmed until the block
   at its window start and is confirmed together with a storage proof (the RHP validators bound
   the window start against the height of the negotiation, consensus against the height of the
   confirming block).  Formation, confirmed revision and resolution are all recorded
   (fixes/C01-v1-created-and-resolved-same-block.patch). *)
Theorem c01_formation_and_resolution_same_block :
  forall (buffer : N) (s : state) (K : list block) (b : block) (id : N) (c : c1) (k : N) (e : pev1),
  reachable buffer s K -> bvalid buffer (negof1 s) (negof2 s) K b ->
  find1 id (cs1 s) = Some c -> evl1_of id b = [PForm1; PRev1 0 k; e] -> is_res1 e = true ->
  exists s' c', hrun buffer [HBatch 0 [b]] (s, K) = ROk (s', b :: K) /\ J buffer s' (b :: K) /\
    find1 id (cs1 s') = Some c' /\
    s1 c' = res_status1 e /\ formed c' = true /\ confRev c' = k /\
    resH c' = (match e with PSucc1 => Some (bheight b) | _ => None end).
Proof. exact reachable_formation_and_resolution_same_block. Qed.
Print Assumptions c01_formation_and_resolution_same_block.

(* non-vacuity: formation (created element at revision 1) and storage proof of v1 contract 1 in
   block (2,2), the block of the merged diff (created, resolved, valid): connected — successful,
   resolution height 2, nothing active or locked in the metrics, its revenue earned —,
   disconnected (pending, unconfirmed, revision 0), connected again, rescanned, extended, two
   blocks disconnected; the history is well-formed. *)
Example c01_formation_and_resolution_nonvacuous :
  wf_hist 2 sc_demo (init, []) /\
  sb_cols (firstn 3 sc_demo) = Some ([(Successful, true, 1, true, Some 2)], [], 2%nat) /\
  sb_cols (firstn 4 sc_demo) = Some ([(Pending, false, 0, false, None)], [], 1%nat) /\
  sb_cols (firstn 7 sc_demo) = Some ([(Successful, true, 1, true, Some 2)], [], 3%nat) /\
  sb_cols sc_demo = Some ([(Pending, false, 0, false, None)], [], 1%nat) /\
  block_of_diffs (2, 2) [mkFD 1 true true 1 None true true false] [] = sc_b2 /\
  match hrun 2 (firstn 3 sc_demo) (init, []) with
  | ROk (s, _) => (nAct (mets s), nSucc (mets s), mLocked (mets s), eRpc (mets s)) = (0, 1, 0, 1)
  | _ => False
  end.
Proof. exact sc_demo_ok. Qed.

(* non-vacuity: a well-formed history (buffer 2) whose blocks form a v1 contract with folded
   revision 3, revise-and-renew and revise-and-prove a v2 contract in one block; such blocks are
   connected, disconnected, crossed again, the folded formation is undone (confirmed revision 0
   again) and redone, followed by a rescan.  Columns shown: v1 (status, formation confirmed,
   confirmed revision, revision reported confirmed, resolution height), v2 (status, resolution
   index, revision of the stored element, revision reported confirmed), chain length. *)
Example c01_same_block_nonvacuous :
  wf_hist 2 sb_demo (init, []) /\
  sb_cols (firstn 4 sb_demo) = Some ([(Active, true, 3, true, None)], [(A2, None, Some 0, false)], 2%nat) /\
  sb_cols (firstn 5 sb_demo) = Some ([(Active, true, 3, true, None)], [(N2, Some (3, 3), Some 7, true)], 3%nat) /\
  sb_cols (firstn 6 sb_demo) = Some ([(Active, true, 3, true, None)], [(A2, None, Some 0, false)], 2%nat) /\
  sb_cols (firstn 8 sb_demo) = Some ([(Successful, true, 3, true, Some 3)], [(S2, Some (3, 4), Some 7, true)], 3%nat) /\
  sb_cols (firstn 9 sb_demo) = Some ([(Pending, false, 0, false, None)], [(P2, None, None, false)], 1%nat) /\
  sb_cols sb_demo = Some ([(Active, true, 3, true, None)], [(N2, Some (3, 3), Some 7, true)], 4%nat).
Proof. exact sb_demo_ok. Qed.

(* Legacy: the two behaviours of buildContractState before the repairs ([build1_legacy] /
   [build2_legacy], SameBlock.v), each refuted on a consistent store by one valid block made of
   one merged element diff: the row the legacy code leaves is not what the chain gives.
   v1: formation and revision 1 in one block — the revision stays unconfirmed. *)
Theorem c01_formation_with_folded_revision_legacy_refuted :
  legacy_refuted [mkFD 1 true true 1 None false false false] [].
Proof. exact legacy_formation_with_folded_revision_refuted. Qed.
Print Assumptions c01_formation_with_folded_revision_legacy_refuted.

(* v2: revision and renewal in one block — the renewal is dropped, the contract stays active. *)
Theorem c01_same_block_revision_and_resolution_legacy_refuted :
  legacy_refuted [] [mkFD2 1 true false 0 (Some 7) (Some KRenewal)].
Proof. exact legacy_same_block_revision_and_resolution_refuted. Qed.
Print Assumptions c01_same_block_revision_and_resolution_legacy_refuted.

(* KNOWN FINDING (v1-revision-and-proof-same-block-revert-keeps-revision).  One combination
   consensus allows is NOT covered by [block_ok]: a revision and a storage proof of one v1 contract
   in the block at the height of its window start.  core overwrites the element of the merged diff
   with the revised contract, so the revision the chain held before is not in what hostd is
   given: connecting records both changes (repaired), disconnecting leaves the reverted revision
   as the confirmed one.  Witness: a contract whose chain revision is 0, the diff core produces
   for "revised to 2 and proven" connected and disconnected through buildContractState. *)
Theorem c01_v1_revision_and_proof_revert_refuted :
  connect_disconnect_refuted (mkFD 1 true false 2 (Some 2) true true false).
Proof. exact v1_revision_and_proof_revert_refuted. Qed.
Print Assumptions c01_v1_revision_and_proof_revert_refuted.

(* Legacy: before fixes/C01-v1-created-and-resolved-same-block.patch [case created] never looked at
   [resolved] — formation and storage proof in one block: the proof is lost, the contract stays
   active for good. *)
Theorem c01_formation_and_resolution_legacy_refuted :
  legacy2_refuted [mkFD 1 true true 0 None true true false] [].
Proof. exact legacy_formation_and_resolution_refuted. Qed.
Print Assumptions c01_formation_and_resolution_legacy_refuted.

(* A full rescan after a chain-state reset never fails and ends where it started. *)
Theorem c01_rescan : forall (buffer : N) (s : state) (K : list block),
  J buffer s K ->
  exists s', hexec buffer (s, K) HRescan = ROk (s', K) /\ J buffer s' K /\
             (forall id, negof1 s' id = negof1 s id) /\ (forall id, negof2 s' id = negof2 s id).
Proof. exact rescan_J. Qed.
Print Assumptions c01_rescan.

(* KNOWN FINDING (rescan-onto-different-chain-keeps-old-chain-state).  The property also demands
   this after "a full rescan after a chain-state reset" in general.  c01_rescan covers the rescan
   of the chain processed before the reset (HRescan; later extended or reorganised by ordinary
   batches).  When the chain processed after the reset is a different one — the consensus
   database was replaced, which is what index.Manager resets for — the statement FAILS:
   ResetChainState keeps every chain column and the "skipping rescan state transition" branches
   keep them, so a contract whose formation is not on the new chain still reports active.
   [rescan_onto buffer s K'] = ResetChainState, then the blocks of K' in order.  Witness
   (buffer 18): form contract 1 in block (2,2); rescan onto the chain [(1,1); (2,3)] without the
   formation. *)
Theorem c01_rescan_other_chain_refuted :
  exists (buffer : N) (s : state) (K K' : list block) (s' : state),
    reachable buffer s K /\ chain_ok buffer (negof1 s) (negof2 s) K' /\
    rescan_onto buffer s K' = ROk s' /\ ~ agrees_with_chain buffer s' K'.
Proof. exact rescan_other_chain_refuted. Qed.
Print Assumptions c01_rescan_other_chain_refuted.

Theorem c01_reachable_is_J : forall (buffer : N) (s : state) (K : list block),
  reachable buffer s K -> J buffer s K.
Proof. exact reachable_is_J. Qed.
Print Assumptions c01_reachable_is_J.

(* Rejection.  (a) In every reachable store a contract is pending or rejected exactly when it is
   unconfirmed (so a confirmed contract is never rejected, and a rejected one becomes active when
   its formation is connected later — c01_function_of_best_chain). *)
Theorem c01_rejected_iff_unconfirmed : forall (buffer : N) (s : state) (K : list block),
  reachable buffer s K ->
  (forall id c, find1 id (cs1 s) = Some c -> (s1 c = Rejected \/ s1 c = Pending <-> formed c = false)) /\
  (forall id c, find2 id (cs2 s) = Some c -> (s2 c = R2 \/ s2 c = P2 <-> conf2 c = None)).
Proof. exact reachable_rejected_is_unconfirmed. Qed.
Print Assumptions c01_rejected_iff_unconfirmed.

(* (b) After any chain update (from any state the operations can reach) whose last connected
   block passed the height hm = height - buffer to RejectContracts, every unconfirmed contract
   with negotiation height < hm is rejected. *)
Theorem c01_rejection_complete_v1 : forall (l : list op) revs apps i ch hm s',
  exec (Chain revs (apps ++ [(i, ch, Some hm)])) (run init step l) = ROk s' ->
  forall id c, find1 id (cs1 s') = Some c -> formed c = false -> neg1 c <? hm = true -> s1 c = Rejected.
Proof. exact rejection_complete_v1_run. Qed.
Print Assumptions c01_rejection_complete_v1.

Theorem c01_rejection_complete_v2 : forall (l : list op) revs apps i ch hm s',
  exec (Chain revs (apps ++ [(i, ch, Some hm)])) (run init step l) = ROk s' ->
  forall id c, find2 id (cs2 s') = Some c -> conf2 c = None -> neg2 c <? hm = true -> s2 c = R2.
Proof. exact rejection_complete_v2_run. Qed.
Print Assumptions c01_rejection_complete_v2.

(* (c) Never without cause: after ANY list of operations, a rejected contract has negotiation
   height below one of the heights (block height - buffer) that a successfully processed applied
   block passed to RejectContracts ([run_rej]: those heights, most recent first) — i.e. some
   processed height exceeded negotiation height + buffer. *)
Theorem c01_rejected_only_with_cause : forall l : list op,
  (forall id c, find1 id (cs1 (run init step l)) = Some c -> s1 c = Rejected ->
     exists hm, In hm (run_rej init l []) /\ neg1 c < hm) /\
  (forall id c, find2 id (cs2 (run init step l)) = Some c -> s2 c = R2 ->
     exists hm, In hm (run_rej init l []) /\ neg2 c < hm).
Proof. exact rejected_has_cause. Qed.
Print Assumptions c01_rejected_only_with_cause.

(* The blocks of this file are what the contract manager hands to the store.  buildContractState
   (Build.v, tied to host/contracts/update.go by its own correspondence run) maps the element
   diffs of a consensus update — core merges everything a block does to one contract into ONE
   diff — to the StateChanges of a block: whatever it returns for diffs (l1, l2) is
   [changes_of false] of the block [block_of_diffs i l1 l2] when connecting and [changes_of true]
   of the same block — the PREVIOUS revision numbers — when disconnecting ... *)
Theorem c01_build_state_gives_block_changes :
  forall (revert : bool) (i : idx) (l1 : list fdiff) (l2 : list fdiff2) (ch : changes),
  build_state revert l1 l2 = Some ch -> ch = changes_of revert (block_of_diffs i l1 l2).
Proof. exact build_state_block. Qed.
Print Assumptions c01_build_state_gives_block_changes.

(* ... it fails only on a diff that is neither created, revised nor resolved ... *)
Theorem c01_build_state_total : forall (revert : bool) (l1 : list fdiff) (l2 : list fdiff2),
  forallb flagged1 l1 = true -> forallb flagged2 l2 = true -> exists ch, build_state revert l1 l2 = Some ch.
Proof. exact build_state_total. Qed.
Print Assumptions c01_build_state_total.

(* ... and with one diff per contract id (MidState.elements) of the kinds consensus produces
   ([dshape1]: a v1 diff is not both revised and resolved) that block is [block_ok] and carries
   for every contract exactly the changes of its own diff ([dev1]/[dev2]: created => confirmed +
   revised from 0; revised, then resolved), in ApplyContracts order. *)
Theorem c01_merged_diffs_give_ok_blocks : forall (i : idx) (l1 : list fdiff) (l2 : list fdiff2),
  NoDup (map fd_id l1) -> NoDup (map gd_id l2) -> forallb dshape1 l1 = true ->
  block_ok (block_of_diffs i l1 l2) /\
  (forall d, In d l1 -> evl1_of (fd_id d) (block_of_diffs i l1 l2) = dev1 d) /\
  (forall d, In d l2 -> evl2_of (gd_id d) (block_of_diffs i l1 l2) = dev2 d).
Proof.
  exact (fun i l1 l2 n1 n2 sh => conj (merged_diffs_block_ok i l1 l2 n1 n2 sh)
           (conj (fun d hd => evl1_block_of i l1 l2 d n1 hd) (fun d hd => evl2_block_of i l1 l2 d n2 hd))).
Qed.
Print Assumptions c01_merged_diffs_give_ok_blocks.

(* Conversely every [block_ok] block is, contract by contract, the block of its own merged diffs
   ([diffs1_of]/[diffs2_of]: one diff per contract id the block mentions, all its changes merged
   the way MidState does), provided a formation is recorded with the revision of its created
   element, as the repaired buildContractState does: the blocks the theorems quantify over are
   exactly the blocks of consensus-shaped diffs. *)
Theorem c01_block_is_block_of_its_merged_diffs : forall b : block,
  block_ok b -> (forall id, evl1_of id b <> [PForm1]) ->
  let b' := block_of_diffs (bidx b) (diffs1_of b) (diffs2_of b) in
  NoDup (map fd_id (diffs1_of b)) /\ NoDup (map gd_id (diffs2_of b)) /\
  forallb dshape1 (diffs1_of b) = true /\
  (forall id, evl1_of id b' = evl1_of id b) /\ (forall id, evl2_of id b' = evl2_of id b).
Proof. exact block_of_its_diffs. Qed.
Print Assumptions c01_block_is_block_of_its_merged_diffs.

(* ... and one batch reaches the store in the order of Manager.UpdateChainState ([manager_calls],
   tied to the code by its own correspondence run on real chain updates): all reverts first, then
   per applied block ApplyContracts and, when height >= buffer, RejectContracts(height - buffer). *)
Theorem c01_batch_is_manager_order : forall (buffer : N) (R A : list block),
  op_calls (map rev_of R) (map (app_of buffer) A) =
  manager_calls buffer (map bheight R) (map bheight A).
Proof. exact batch_calls. Qed.
Print Assumptions c01_batch_is_manager_order.

(* non-vacuity: a well-formed history (checked by the executable, sound checker wf_histb) with a
   v1 and a v2 contract, formation, revisions, a storage proof and a renewal, a two-block reorg that
   disconnects the resolutions, a replacement branch with a failed resolution, a rescan, and a late
   contract that gets rejected; it runs, and the final statuses are as expected. *)
Example c01_nonvacuous :
  wf_hist 1 demo (init, []) /\
  match hrun 1 demo (init, []) with
  | ROk (s, K) => map (fun c => (s1 c, formed c, confRev c, resH c)) (cs1 s)
                  = [(Failed, true, 5, None); (Rejected, false, 0, None)]
                  /\ map (fun c => (s2 c, elem2 c)) (cs2 s) = [(A2, Some 2)]
                  /\ length K = 4%nat
  | _ => False
  end.
Proof. exact demo_ok. Qed.

(** * The two selections of RejectContracts, regenerated from the SQL

   q_rejectContracts / q_rejectV2Contracts (gen/RejectQueries.v) are produced on every run by
   tools/sqlgen (spec tools/sqlgen/c01.json) from the SQL text and the bound Go arguments of
   rejectContracts / rejectV2Contracts in the repository's current persist/sqlite/consensus.go,
   with SQLite's affinity rules (column types of init.sql, what database/sql binds for the Go
   status constants) and three-valued logic (SqlSem.v).  [row_of_c1] / [row_of_c2] (SqlRows.v)
   project a row of the model onto the columns the SQL reads. *)
From HostdContracts Require Import SqlSem SqlRows RejectQueries GenEquiv.

(* "counts as rejected once a processed height has exceeded ..." — the statement the store
   executes selects exactly the contracts that are unconfirmed, not rejected yet, and negotiated
   below the height it is given (the manager passes block height - buffer,
   c01_batch_is_manager_order) *)
Theorem c01_gen_reject_selects_exactly_unconfirmed_older_than : forall (c : c1) (h : N),
  q_rejectContracts (row_of_c1 c) h = true <->
  s1 c <> Rejected /\ formed c = false /\ neg1 c < h.
Proof. exact gen_reject_v1_iff. Qed.
Print Assumptions c01_gen_reject_selects_exactly_unconfirmed_older_than.

Theorem c01_gen_reject_v2_selects_exactly_unconfirmed_older_than : forall (c : c2) (h : N),
  q_rejectV2Contracts (row_of_c2 c) h = true <->
  s2 c <> R2 /\ conf2 c = None /\ neg2 c < h.
Proof. exact gen_reject_v2_iff. Qed.
Print Assumptions c01_gen_reject_v2_selects_exactly_unconfirmed_older_than.

(* the generated selections are, row by row, the conditions of the model the theorems above are
   about, so RejectContracts with the generated selections IS the model's reject_contracts *)
Theorem c01_gen_reject_is_model_selection : forall (h : N),
  (forall c : c1, q_rejectContracts (row_of_c1 c) h = q_rej1 h c) /\
  (forall c : c2, q_rejectV2Contracts (row_of_c2 c) h = q_rej2 h c).
Proof. exact (fun h => conj (fun c => q_rejectContracts_model c h) (fun c => q_rejectV2Contracts_model c h)). Qed.
Print Assumptions c01_gen_reject_is_model_selection.

Theorem c01_gen_reject_contracts_is_model : forall (h : N) (s : state),
  reject_contracts_gen h s = reject_contracts h s.
Proof. exact reject_contracts_gen_eq. Qed.
Print Assumptions c01_gen_reject_contracts_is_model.

(* the height is bound as a signed 64-bit integer: both statements are executable below 2^63 *)
Theorem c01_gen_reject_bindable : forall h : N,
  q_rejectContracts_bindable h && q_rejectV2Contracts_bindable h = u64_bindable h.
Proof. exact gen_reject_bindable. Qed.
Print Assumptions c01_gen_reject_bindable.

(* non-vacuity of the generated selections: at height 10 an unconfirmed pending contract
   negotiated at 9 is selected; one negotiated at 10, a rejected one and a confirmed one are not *)
Example c01_gen_nonvacuous :
  map (fun c => q_rejectContracts (row_of_c1 c) 10)
      [new1 1 9 0 0 uzero; new1 2 10 0 0 uzero; set_chain1 (new1 3 1 0 0 uzero) Rejected false None;
       set_chain1 (new1 4 1 0 0 uzero) Active true None] = [true; false; false; false] /\
  map (fun c => q_rejectV2Contracts (row_of_c2 c) 10)
      [new2 1 9 0 0 uzero; new2 2 10 0 0 uzero; set_chain2 (new2 3 1 0 0 uzero) R2 None None;
       set_chain2 (new2 4 1 0 0 uzero) A2 (Some (5, 7)) None] = [true; false; false; false].
Proof. vm_compute. repeat split; reflexivity. Qed.
