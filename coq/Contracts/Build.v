(* Contracts/Build.v — host/contracts/update.go: buildContractState, the function that turns the
   file-contract element diffs of one consensus update into contracts.StateChanges.  No proofs. *)
From HostdBase Require Import Base.
From HostdContracts Require Import Model.
Local Open Scope N_scope.

(* consensus.FileContractElementDiff, as far as buildContractState reads it *)
Record fdiff := mkFD {
  fd_id : N;
  fd_relevant : bool;        (* tx.ContractRelevant(id) *)
  fd_created : bool;
  fd_cur : N;                (* fce.FileContract.RevisionNumber: the element before the update (a
                                created element: after the revisions folded into it) *)
  fd_rev : option N;         (* diff.Revision.RevisionNumber *)
  fd_resolved : bool;
  fd_valid : bool;
  fd_missed_ge : bool }.     (* MissedHostPayout() >= ValidHostPayout() *)

(* consensus.V2FileContractElementDiff; Resolution is a renewal, an expiration or a storage proof *)
Inductive resk := KRenewal | KExpiration (missed_ge : bool) | KProof.
Record fdiff2 := mkFD2 {
  gd_id : N;
  gd_relevant : bool;
  gd_created : bool;
  gd_cur : N;
  gd_rev : option N;
  gd_res : option resk }.

Definition add_conf1 ch id := mkCh (cConf1 ch ++ [id]) (cRev1 ch) (cSucc1 ch) (cFail1 ch) (cConf2 ch) (cRev2 ch) (cSucc2 ch) (cRen2 ch) (cFail2 ch).
Definition add_rev1 ch p := mkCh (cConf1 ch) (cRev1 ch ++ [p]) (cSucc1 ch) (cFail1 ch) (cConf2 ch) (cRev2 ch) (cSucc2 ch) (cRen2 ch) (cFail2 ch).
Definition add_succ1 ch id := mkCh (cConf1 ch) (cRev1 ch) (cSucc1 ch ++ [id]) (cFail1 ch) (cConf2 ch) (cRev2 ch) (cSucc2 ch) (cRen2 ch) (cFail2 ch).
Definition add_fail1 ch id := mkCh (cConf1 ch) (cRev1 ch) (cSucc1 ch) (cFail1 ch ++ [id]) (cConf2 ch) (cRev2 ch) (cSucc2 ch) (cRen2 ch) (cFail2 ch).
Definition add_conf2 ch p := mkCh (cConf1 ch) (cRev1 ch) (cSucc1 ch) (cFail1 ch) (cConf2 ch ++ [p]) (cRev2 ch) (cSucc2 ch) (cRen2 ch) (cFail2 ch).
Definition add_rev2 ch p := mkCh (cConf1 ch) (cRev1 ch) (cSucc1 ch) (cFail1 ch) (cConf2 ch) (cRev2 ch ++ [p]) (cSucc2 ch) (cRen2 ch) (cFail2 ch).
Definition add_succ2 ch id := mkCh (cConf1 ch) (cRev1 ch) (cSucc1 ch) (cFail1 ch) (cConf2 ch) (cRev2 ch) (cSucc2 ch ++ [id]) (cRen2 ch) (cFail2 ch).
Definition add_ren2 ch id := mkCh (cConf1 ch) (cRev1 ch) (cSucc1 ch) (cFail1 ch) (cConf2 ch) (cRev2 ch) (cSucc2 ch) (cRen2 ch ++ [id]) (cFail2 ch).
Definition add_fail2 ch id := mkCh (cConf1 ch) (cRev1 ch) (cSucc1 ch) (cFail1 ch) (cConf2 ch) (cRev2 ch) (cSucc2 ch) (cRen2 ch) (cFail2 ch ++ [id]).

(* the resolution part of a v1 diff: a storage proof, or a missed resolution that pays the host
   in full, is successful *)
Definition build1_res (ch : changes) (d : fdiff) : changes :=
  if fd_resolved d then
    (if fd_valid d || fd_missed_ge d then add_succ1 ch (fd_id d) else add_fail1 ch (fd_id d))
  else ch.

(* the switch over a v1 diff; None = error.
   [case created] (fixes/C01-formation-carries-revision.patch): the created element is confirmed
   and, because core folds the revisions confirmed in the same block into it, also recorded as
   the confirmed revision (on revert: revision 0, the value insertContract wrote);
   (fixes/C01-v1-created-and-resolved-same-block.patch) a created diff that is also resolved — the
   formation confirmed in the block at the window start together with a storage proof — records
   the resolution as well.
   [case rev != nil]: on revert the element itself (the PREVIOUS revision) is recorded as the
   revised contract; (fixes/C01-v1-revised-and-proven-same-block.patch) a diff that is revised
   and resolved falls through into [case resolved]. *)
Definition build1 (revert : bool) (ch : changes) (d : fdiff) : option changes :=
  if negb (fd_relevant d) then Some ch
  else if fd_created d then
    Some (build1_res (add_rev1 (add_conf1 ch (fd_id d)) (fd_id d, if revert then 0 else fd_cur d)) d)
  else match fd_rev d with
       | Some r => Some (build1_res (add_rev1 ch (fd_id d, if revert then fd_cur d else r)) d)
       | None => if fd_resolved d then Some (build1_res ch d) else None
       end.

(* the resolution part of a v2 diff (the inner type switch; [None] = not resolved) *)
Definition build2_res (ch : changes) (d : fdiff2) : changes :=
  match gd_res d with
  | Some KRenewal => add_ren2 ch (gd_id d)
  | Some (KExpiration true) | Some KProof => add_succ2 ch (gd_id d)
  | Some (KExpiration false) => add_fail2 ch (gd_id d)
  | None => ch
  end.

(* with fix d7434ff (a contract revised and resolved in the same block): [case rev != nil] records
   the revision and falls through into the resolution switch, whose [case nil] does nothing *)
Definition build2 (revert : bool) (ch : changes) (d : fdiff2) : option changes :=
  if negb (gd_relevant d) then Some ch
  else if gd_created d then Some (add_conf2 ch (gd_id d, gd_cur d))
  else match gd_rev d with
       | Some r => Some (build2_res (add_rev2 ch (gd_id d, if revert then gd_cur d else r)) d)
       | None =>
           match gd_res d with
           | Some _ => Some (build2_res ch d)
           | None => None
           end
       end.

Fixpoint foldo {A S} (f : S -> A -> option S) (l : list A) (s : S) : option S :=
  match l with
  | [] => Some s
  | a :: t => match f s a with Some s' => foldo f t s' | None => None end
  end.

Definition build_state (revert : bool) (l1 : list fdiff) (l2 : list fdiff2) : option changes :=
  match foldo (build1 revert) l1 no_changes with
  | Some ch => foldo (build2 revert) l2 ch
  | None => None
  end.

(** * correspondence entry point *)
Definition pair_eqb (a b : N * N) : bool := (fst a =? fst b) && (snd a =? snd b).
Definition changes_eqb (a b : changes) : bool :=
  list_eqb N.eqb (cConf1 a) (cConf1 b) && list_eqb pair_eqb (cRev1 a) (cRev1 b)
  && list_eqb N.eqb (cSucc1 a) (cSucc1 b) && list_eqb N.eqb (cFail1 a) (cFail1 b)
  && list_eqb pair_eqb (cConf2 a) (cConf2 b) && list_eqb pair_eqb (cRev2 a) (cRev2 b)
  && list_eqb N.eqb (cSucc2 a) (cSucc2 b) && list_eqb N.eqb (cRen2 a) (cRen2 b)
  && list_eqb N.eqb (cFail2 a) (cFail2 b).

Definition binput := (bool * list fdiff * list fdiff2)%type.
Definition build_fn (i : binput) : option changes :=
  let '(revert, l1, l2) := i in build_state revert l1 l2.
Definition bcase := (N * binput * option changes)%type.
Definition check_build (cs : list bcase) := fmismatches build_fn (option_eqb changes_eqb) cs.

(** * host/contracts/update.go: Manager.UpdateChainState — the order in which one batch of
    consensus updates reaches the store: every reverted block first (RevertContracts with the
    index of the reverted block), then per applied block ApplyContracts followed by
    RejectContracts(height - rejectBuffer) when height >= rejectBuffer. *)
Inductive call := CRevert (h : N) | CApply (h : N) | CReject (hm : N).

Definition manager_calls (buffer : N) (revs apps : list N) : list call :=
  map CRevert revs ++
  flat_map (fun h => CApply h :: (if buffer <=? h then [CReject (h - buffer)] else [])) apps.

Definition call_eqb (a b : call) : bool :=
  match a, b with
  | CRevert x, CRevert y | CApply x, CApply y | CReject x, CReject y => x =? y
  | _, _ => false
  end.
Definition minput := (N * list N * list N)%type.
Definition manager_fn (i : minput) : list call := let '(buffer, revs, apps) := i in manager_calls buffer revs apps.
Definition mcase := (N * minput * list call)%type.
Definition check_manager (cs : list mcase) := fmismatches manager_fn (list_eqb call_eqb) cs.
