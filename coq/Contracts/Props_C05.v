From HostdBase Require Import Base.
From HostdContracts Require Import Model Proofs.
Theorem c05_placeholder : forall s, ops_status1 s s = [].
Proof. exact placeholder_status. Qed.
Print Assumptions c05_placeholder.
Example c05_nonvacuous : ops_status1 Active Active = [].
Proof. vm_compute; reflexivity. Qed.
