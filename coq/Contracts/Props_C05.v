(* C05 — Aggregate metrics always equal recomputation from the contracts.
   Statements only; every proof is [exact lemma].

   [after l] is the store after ANY list of operations l (Model.op: add / revise / renew /
   fund account / debit account for v1 and v2 contracts, chain updates with arbitrary — also
   ill-formed — reverts and applies, chain-state reset, recalc), starting from the empty store.
   Operations that fail (error or panic) leave the store unchanged, as the SQL transaction does. *)
From HostdBase Require Import Base.
From HostdContracts Require Import Model Lib Inv InvOps ProofsC05.
Local Open Scope N_scope.

(* Reported counts per status, locked and risked collateral, potential and earned revenue per
   category = the values recomputed from the contract lists (status counters recounted, the
   rest as recalcContractMetrics computes it). *)
Theorem c05_metrics_equal_recomputation : forall l : list op,
  mets (after l) = recompute (cs1 (after l)) (cs2 (after l)).
Proof. exact metrics_equal_recomputation. Qed.
Print Assumptions c05_metrics_equal_recomputation.

(* The same, stat by stat, as the sum of the per-contract contributions ... *)
Theorem c05_metrics_are_sum_of_contributions : forall (l : list op) (k : mkey),
  mget (mets (after l)) k = msum1 (cs1 (after l)) k + msum2 (cs2 (after l)) k.
Proof. exact metrics_are_sum_of_contributions. Qed.
Print Assumptions c05_metrics_are_sum_of_contributions.

(* ... where active contracts contribute their collateral and usage to 'potential', successful
   (v2: and renewed) contracts their usage to 'earned', every other status only its counter. *)
Theorem c05_v1_contribution : forall (c : c1) (k : mkey),
  contrib1 c k =
  match s1 c with
  | Active => match k with KAct => 1 | KLocked => locked1 c | KRisked => uRisk (use1 c)
                         | KPot r => uget r (use1 c) | _ => 0 end
  | Successful => match k with KSucc => 1 | KEarn r => uget r (use1 c) | _ => 0 end
  | Rejected => match k with KRej => 1 | _ => 0 end
  | Failed => match k with KFail => 1 | _ => 0 end
  | Pending => 0
  end.
Proof. exact v1_contribution. Qed.
Print Assumptions c05_v1_contribution.

Theorem c05_v2_contribution : forall (c : c2) (k : mkey),
  contrib2 c k =
  match s2 c with
  | A2 => match k with KAct => 1 | KLocked => locked2 c | KRisked => uRisk (use2 c)
                     | KPot r => uget2 r (use2 c) | _ => 0 end
  | S2 => match k with KSucc => 1 | KEarn r => uget2 r (use2 c) | _ => 0 end
  | N2 => match k with KRen => 1 | KEarn r => uget2 r (use2 c) | _ => 0 end
  | R2 => match k with KRej => 1 | _ => 0 end
  | F2 => match k with KFail => 1 | _ => 0 end
  | P2 => 0
  end.
Proof. exact v2_contribution. Qed.
Print Assumptions c05_v2_contribution.

(* The maintainers' recalcContractMetrics would change nothing, at any time. *)
Theorem c05_recalc_changes_nothing : forall l : list op, recalc (after l) = mets (after l).
Proof. exact recalc_changes_nothing. Qed.
Print Assumptions c05_recalc_changes_nothing.

(* No sequence drives a metric below zero: the "negative stat value" guard of metrics.go never
   fires, whatever operation comes next. *)
Theorem c05_no_negative_stat_panic : forall (l : list op) (o : op),
  fst (snd (step (after l) o)) <> CPanic PNegStat.
Proof. exact no_negative_stat_panic. Qed.
Print Assumptions c05_no_negative_stat_panic.

(* The invariant is inductive from any consistent state (e.g. right after a migration that ran
   recalcContractMetrics), not only from the empty store. *)
Theorem c05_invariant_is_inductive : forall (s : state) (o : op),
  Inv s -> Inv (fst (step s o)) /\ fst (snd (step s o)) <> CPanic PNegStat.
Proof. exact invariant_is_inductive. Qed.
Print Assumptions c05_invariant_is_inductive.

(* non-vacuity: a history with an active v1 contract with usage, a successful v2 contract, an
   account debit attributed to the v1 contract and a reverted resolution; the metrics are non-zero *)
Example c05_nonvacuous :
  let l := [AddV1 1 1 10 1 (mkU 1 2 3 4 5 6 0 7); AddV2 1 1 20 1 (mkU 1 1 1 1 0 0 0 1);
            Chain [] [((2, 1), mkCh [1] [] [] [] [(1, 0)] [] [] [] [], None)];
            Fund1 1 9 2 30 2; Debit1 9 (mkU 1 2 3 4 5 6 0 0);
            Chain [] [((3, 2), mkCh [] [] [1] [] [] [] [1] [] [], None)];
            Chain [((3, 2), mkCh [] [] [1] [] [] [] [] [] [])] []] in
  mlist (mets (after l)) = [1; 0; 1; 0; 0; 10; 7; 4; 4; 6; 8; 10; 12; 1; 1; 1; 1; 0; 0]
  /\ fst (snd (step (after l) (Debit1 9 (mkU 1 0 0 0 0 0 0 0)))) = COk.
Proof. vm_compute; split; reflexivity. Qed.
