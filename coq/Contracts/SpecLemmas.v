(* Contracts/SpecLemmas.v — facts about the per-contract specification over valid chains. *)
From Coq Require Import Lia ZifyBool ZifyN.
From HostdBase Require Import Base.
From HostdContracts Require Import Model Lib Chain PerContract.
Local Open Scope N_scope.

Lemma spec1_cons buffer ng id b K :
  spec1 buffer ng id (b :: K) = spec_block1 buffer ng id b (spec1 buffer ng id K).
Proof. reflexivity. Qed.
Lemma spec2_cons buffer ng id b K :
  spec2 buffer ng id (b :: K) = spec_block2 buffer ng id b (spec2 buffer ng id K).
Proof. reflexivity. Qed.

(** * monotonicity in the set of known contracts *)
Lemma bvalid_mono buffer n1 n2 n1' n2' K b :
  (forall id ng, n1 id = Some ng -> n1' id = Some ng) ->
  (forall id ng, n2 id = Some ng -> n2' id = Some ng) ->
  bvalid buffer n1 n2 K b -> bvalid buffer n1' n2' K b.
Proof.
  intros H1 H2 (A & C & D). split; [exact A|split].
  - intros id E. destruct (C id E) as (ng & Hn & Hv). eauto.
  - intros id E. destruct (D id E) as (ng & Hn & Hv). eauto.
Qed.
Lemma chain_ok_mono buffer n1 n2 n1' n2' K :
  (forall id ng, n1 id = Some ng -> n1' id = Some ng) ->
  (forall id ng, n2 id = Some ng -> n2' id = Some ng) ->
  chain_ok buffer n1 n2 K -> chain_ok buffer n1' n2' K.
Proof.
  intros H1 H2. induction K as [|b K IH]; cbn; [auto|]. intros [Hb Hk].
  split; [eapply bvalid_mono; eauto|auto].
Qed.
Lemma ext_ok_mono buffer n1 n2 n1' n2' apps : forall K,
  (forall id ng, n1 id = Some ng -> n1' id = Some ng) ->
  (forall id ng, n2 id = Some ng -> n2' id = Some ng) ->
  ext_ok buffer n1 n2 K apps -> ext_ok buffer n1' n2' K apps.
Proof.
  induction apps as [|b t IH]; intros K H1 H2; cbn; [auto|]. intros [Hb Ht].
  split; [eapply bvalid_mono; eauto|eapply IH; eauto].
Qed.

Lemma chain_ok_suffix buffer n1 n2 T : forall K, chain_ok buffer n1 n2 (T ++ K) -> chain_ok buffer n1 n2 K.
Proof. induction T as [|b T IH]; cbn; intros K H; [exact H|]. apply IH. tauto. Qed.

(** * consistency of the specification *)
Lemma evl_dec {E} (l : list E) : l = [] \/ l <> [].
Proof. destruct l; [left; reflexivity|right; discriminate]. Qed.

Lemma spec1_cinv buffer n1 n2 K : forall id ng,
  chain_ok buffer n1 n2 K -> n1 id = Some ng -> cinv1 (spec1 buffer ng id K).
Proof.
  induction K as [|b K IH]; intros id ng Hck Hn; [apply cinv1_fresh|].
  destruct Hck as [(_ & V1 & _) Hk]. rewrite spec1_cons. unfold spec_block1.
  apply cinv1_rej. destruct (evl_dec (evl1_of id b)) as [E|E]; [rewrite E; cbn; eauto|].
  destruct (V1 id E) as (ng' & Hn' & Hv). assert (ng' = ng) as -> by congruence.
  apply cinv1_evs; eauto.
Qed.
Lemma spec2_cinv buffer n1 n2 K : forall id ng,
  chain_ok buffer n1 n2 K -> n2 id = Some ng -> cinv2 (spec2 buffer ng id K).
Proof.
  induction K as [|b K IH]; intros id ng Hck Hn; [apply cinv2_fresh|].
  destruct Hck as [(_ & _ & V2) Hk]. rewrite spec2_cons. unfold spec_block2.
  apply cinv2_rej. destruct (evl_dec (evl2_of id b)) as [E|E]; [rewrite E; cbn; eauto|].
  destruct (V2 id E) as (ng' & Hn' & Hv). assert (ng' = ng) as -> by congruence.
  apply cinv2_evs; eauto.
Qed.

(** * a block respects the equivalence *)
Lemma heqv1_block buffer ng id b y x :
  cinv1 x -> heqv1 y x -> valid_evs1 (bheight b) (evl1_of id b) x ->
  heqv1 (spec_block1 buffer ng id b y) (spec_block1 buffer ng id b x).
Proof.
  intros Hc Hq Hv. unfold spec_block1. apply heqv1_rej; [apply cinv1_evs; auto|apply heqv1_evs; auto].
Qed.
Lemma heqv2_block buffer ng id b y x :
  cinv2 x -> heqv2 y x -> valid_evs2 (bidx b) (evl2_of id b) x ->
  heqv2 (spec_block2 buffer ng id b y) (spec_block2 buffer ng id b x).
Proof.
  intros Hc Hq Hv. unfold spec_block2. apply heqv2_rej; [apply cinv2_evs; auto|apply heqv2_evs; auto].
Qed.

(* a block that does not mention the contract only rejects *)
Lemma spec_block1_none buffer ng id b x : evl1_of id b = [] -> cinv1 x ->
  heqv1 (spec_block1 buffer ng id b x) x.
Proof. intros E Hc. unfold spec_block1. rewrite E. apply heqv1_rej_absorb; exact Hc. Qed.
Lemma spec_block2_none buffer ng id b x : evl2_of id b = [] -> cinv2 x ->
  heqv2 (spec_block2 buffer ng id b x) x.
Proof. intros E Hc. unfold spec_block2. rewrite E. apply heqv2_rej_absorb; exact Hc. Qed.

(* a block that mentions the contract leaves it confirmed: the rejection step does nothing *)
Lemma spec_block1_some buffer ng id b x : evl1_of id b <> [] -> cinv1 x ->
  valid_evs1 (bheight b) (evl1_of id b) x ->
  spec_block1 buffer ng id b x = spec_evs1 (bheight b) (evl1_of id b) x.
Proof. intros E Hc Hv. unfold spec_block1. apply rej1_formed. apply formed_after_evs1; auto. Qed.
Lemma spec_block2_some buffer ng id b x : evl2_of id b <> [] -> cinv2 x ->
  valid_evs2 (bidx b) (evl2_of id b) x ->
  spec_block2 buffer ng id b x = spec_evs2 (bidx b) (evl2_of id b) x.
Proof. intros E Hc Hv. unfold spec_block2. apply rej2_formed. apply formed_after_evs2; auto. Qed.

(** * contracts no block mentions *)
Definition blank1 (x : ch1) : Prop := h_formed x = false /\ h_conf x = 0 /\ h_res x = None /\ unconf1 (h_st x).
Definition blank2 (x : ch2) : Prop := g_conf x = None /\ g_res x = None /\ g_elem x = None /\ unconf2 (g_st x).

Lemma spec1_unmentioned buffer ng id K :
  (forall b, In b K -> evl1_of id b = []) -> blank1 (spec1 buffer ng id K).
Proof.
  induction K as [|b K IH]; intros H.
  - cbn. unfold blank1, unconf1; cbn; auto.
  - rewrite spec1_cons. unfold spec_block1. rewrite (H b (or_introl eq_refl)). cbn [spec_evs1 fold_left].
    assert (Hb : blank1 (spec1 buffer ng id K)) by (apply IH; intros; apply H; right; auto).
    revert Hb. generalize (spec1 buffer ng id K). intros x. unfold blank1, spec_rej1, unconf1.
    destruct (rej_arg buffer (bheight b)) as [hm|]; [|auto]. h1 x; crush; destruct (ng <? hm); crush.
Qed.
Lemma spec2_unmentioned buffer ng id K :
  (forall b, In b K -> evl2_of id b = []) -> blank2 (spec2 buffer ng id K).
Proof.
  induction K as [|b K IH]; intros H.
  - cbn. unfold blank2, unconf2; cbn; auto.
  - rewrite spec2_cons. unfold spec_block2. rewrite (H b (or_introl eq_refl)). cbn [spec_evs2 fold_left].
    assert (Hb : blank2 (spec2 buffer ng id K)) by (apply IH; intros; apply H; right; auto).
    revert Hb. generalize (spec2 buffer ng id K). intros x. unfold blank2, spec_rej2, unconf2.
    destruct (rej_arg buffer (bheight b)) as [hm|]; [|auto]. h2 x; crush; destruct (ng <? hm); crush.
Qed.
Lemma blank1_heqv x : blank1 x -> heqv1 fresh_h1 x.
Proof. unfold blank1, heqv1, unconf1. h1 x; cbn; intuition (try congruence). Qed.
Lemma blank2_heqv x : blank2 x -> heqv2 fresh_h2 x.
Proof. unfold blank2, heqv2, unconf2. h2 x; cbn; intuition (try congruence). Qed.

(* every mentioned contract is known *)
Lemma chain_ok_known1 buffer n1 n2 K id b :
  chain_ok buffer n1 n2 K -> In b K -> evl1_of id b <> [] -> n1 id <> None.
Proof.
  induction K as [|b0 K IH]; cbn; [tauto|]. intros [(_ & V1 & _) Hk] [->|Hin] E; [|eauto].
  destruct (V1 id E) as (ng & Hn & _). congruence.
Qed.
Lemma chain_ok_known2 buffer n1 n2 K id b :
  chain_ok buffer n1 n2 K -> In b K -> evl2_of id b <> [] -> n2 id <> None.
Proof.
  induction K as [|b0 K IH]; cbn; [tauto|]. intros [(_ & _ & V2) Hk] [->|Hin] E; [|eauto].
  destruct (V2 id E) as (ng & Hn & _). congruence.
Qed.

(** * on a valid chain: unconfirmed = never mentioned; a resolution is final *)
Lemma rej1_keeps_formed neg rj x : h_formed (spec_rej1 neg rj x) = h_formed x.
Proof. unfold spec_rej1. destruct rj; [|reflexivity]. destruct (_ && _); reflexivity. Qed.
Lemma rej2_keeps_conf neg rj x : g_conf (spec_rej2 neg rj x) = g_conf x.
Proof. unfold spec_rej2. destruct rj; [|reflexivity]. destruct (_ && _); reflexivity. Qed.

Lemma spec1_unformed_unmentioned buffer n1 n2 K : forall id ng,
  chain_ok buffer n1 n2 K -> n1 id = Some ng -> h_formed (spec1 buffer ng id K) = false ->
  forall b, In b K -> evl1_of id b = [].
Proof.
  induction K as [|b0 K IH]; intros id ng Hck Hn Hf b Hin; [destruct Hin|].
  pose proof Hck as [(_ & V1 & _) Hk]. rewrite spec1_cons in Hf.
  pose proof (spec1_cinv _ _ _ _ _ _ Hk Hn) as Hc.
  destruct (evl_dec (evl1_of id b0)) as [E|E].
  - destruct Hin as [<-|Hin]; [exact E|]. eapply IH; eauto.
    unfold spec_block1 in Hf. rewrite E, rej1_keeps_formed in Hf. exact Hf.
  - exfalso. destruct (V1 id E) as (ng' & Hn' & Hv). assert (ng' = ng) as -> by congruence.
    rewrite (spec_block1_some _ _ _ _ _ E Hc Hv) in Hf.
    rewrite (formed_after_evs1 _ _ _ Hc Hv E) in Hf. discriminate.
Qed.
Lemma spec2_unformed_unmentioned buffer n1 n2 K : forall id ng,
  chain_ok buffer n1 n2 K -> n2 id = Some ng -> g_conf (spec2 buffer ng id K) = None ->
  forall b, In b K -> evl2_of id b = [].
Proof.
  induction K as [|b0 K IH]; intros id ng Hck Hn Hf b Hin; [destruct Hin|].
  pose proof Hck as [(_ & _ & V2) Hk]. rewrite spec2_cons in Hf.
  pose proof (spec2_cinv _ _ _ _ _ _ Hk Hn) as Hc.
  destruct (evl_dec (evl2_of id b0)) as [E|E].
  - destruct Hin as [<-|Hin]; [exact E|]. eapply IH; eauto.
    unfold spec_block2 in Hf. rewrite E, rej2_keeps_conf in Hf. exact Hf.
  - exfalso. destruct (V2 id E) as (ng' & Hn' & Hv). assert (ng' = ng) as -> by congruence.
    rewrite (spec_block2_some _ _ _ _ _ E Hc Hv) in Hf.
    apply (formed_after_evs2 _ _ _ Hc Hv E). exact Hf.
Qed.

Definition final1 (e : pev1) (s : st1) : Prop :=
  match e with PSucc1 => s = Successful | PFail1 => s = Failed | _ => True end.
Definition final2 (e : pev2) (s : st2) : Prop :=
  match e with PSucc2 => s = S2 | PRen2 => s = N2 | PFail2 => s = F2 | _ => True end.

(* a resolution stays: nothing is legal after it *)
Lemma final1_keep_evs h e l : forall x, cinv1 x -> valid_evs1 h l x -> final1 e (h_st x) ->
  final1 e (h_st (spec_evs1 h l x)).
Proof.
  induction l as [|e0 t IH]; intros x Hc Hv Hf; [exact Hf|]. destruct Hv as [Hv Ht].
  rewrite spec_evs1_cons. apply IH; [apply cinv1_ev; assumption|exact Ht|].
  revert Hc Hv Hf. unfold cinv1. h1 x; destruct e, e0; cbn; intuition congruence.
Qed.
Lemma final2_keep_evs i e l : forall x, cinv2 x -> valid_evs2 i l x -> final2 e (g_st x) ->
  final2 e (g_st (spec_evs2 i l x)).
Proof.
  induction l as [|e0 t IH]; intros x Hc Hv Hf; [exact Hf|]. destruct Hv as [Hv Ht].
  rewrite spec_evs2_cons. apply IH; [apply cinv2_ev; assumption|exact Ht|].
  revert Hc Hv Hf. unfold cinv2. h2 x; destruct e, e0; cbn; intuition congruence.
Qed.
Lemma final1_in_evs h e l : forall x, cinv1 x -> valid_evs1 h l x -> In e l ->
  final1 e (h_st (spec_evs1 h l x)).
Proof.
  induction l as [|e0 t IH]; intros x Hc Hv Hin; [destruct Hin|]. destruct Hv as [Hv Ht].
  rewrite spec_evs1_cons. destruct Hin as [->|Hin].
  - apply final1_keep_evs; [apply cinv1_ev; assumption|exact Ht|].
    revert Hc Hv. unfold cinv1. h1 x; destruct e; cbn; intuition congruence.
  - apply IH; [apply cinv1_ev; assumption|exact Ht|exact Hin].
Qed.
Lemma final2_in_evs i e l : forall x, cinv2 x -> valid_evs2 i l x -> In e l ->
  final2 e (g_st (spec_evs2 i l x)).
Proof.
  induction l as [|e0 t IH]; intros x Hc Hv Hin; [destruct Hin|]. destruct Hv as [Hv Ht].
  rewrite spec_evs2_cons. destruct Hin as [->|Hin].
  - apply final2_keep_evs; [apply cinv2_ev; assumption|exact Ht|].
    revert Hc Hv. unfold cinv2. h2 x; destruct e; cbn; intuition congruence.
  - apply IH; [apply cinv2_ev; assumption|exact Ht|exact Hin].
Qed.

Lemma final1_rej e neg rj x : cinv1 x -> final1 e (h_st x) -> final1 e (h_st (spec_rej1 neg rj x)).
Proof.
  unfold spec_rej1, cinv1. destruct rj as [hm|]; [|auto].
  h1 x; destruct e; crush; destruct (neg <? hm); crush.
Qed.
Lemma final2_rej e neg rj x : cinv2 x -> final2 e (g_st x) -> final2 e (g_st (spec_rej2 neg rj x)).
Proof.
  unfold spec_rej2, cinv2. destruct rj as [hm|]; [|auto].
  h2 x; destruct e; crush; destruct (neg <? hm); crush.
Qed.

Lemma spec1_final buffer n1 n2 K : forall id ng b e,
  chain_ok buffer n1 n2 K -> n1 id = Some ng -> In b K -> In e (evl1_of id b) ->
  final1 e (h_st (spec1 buffer ng id K)).
Proof.
  induction K as [|b0 K IH]; intros id ng b e Hck Hn Hin E; [destruct Hin|].
  pose proof Hck as [(_ & V1 & _) Hk]. rewrite spec1_cons.
  pose proof (spec1_cinv _ _ _ _ _ _ Hk Hn) as Hc.
  assert (Hv : valid_evs1 (bheight b0) (evl1_of id b0) (spec1 buffer ng id K)).
  { destruct (evl_dec (evl1_of id b0)) as [E0|E0]; [rewrite E0; exact I|].
    destruct (V1 id E0) as (ng' & Hn' & Hv). assert (ng' = ng) as -> by congruence. exact Hv. }
  unfold spec_block1. apply final1_rej; [apply cinv1_evs; assumption|].
  destruct Hin as [<-|Hin].
  - apply final1_in_evs; assumption.
  - apply final1_keep_evs; [assumption|assumption|]. eapply IH; eauto.
Qed.
Lemma spec2_final buffer n1 n2 K : forall id ng b e,
  chain_ok buffer n1 n2 K -> n2 id = Some ng -> In b K -> In e (evl2_of id b) ->
  final2 e (g_st (spec2 buffer ng id K)).
Proof.
  induction K as [|b0 K IH]; intros id ng b e Hck Hn Hin E; [destruct Hin|].
  pose proof Hck as [(_ & _ & V2) Hk]. rewrite spec2_cons.
  pose proof (spec2_cinv _ _ _ _ _ _ Hk Hn) as Hc.
  assert (Hv : valid_evs2 (bidx b0) (evl2_of id b0) (spec2 buffer ng id K)).
  { destruct (evl_dec (evl2_of id b0)) as [E0|E0]; [rewrite E0; exact I|].
    destruct (V2 id E0) as (ng' & Hn' & Hv). assert (ng' = ng) as -> by congruence. exact Hv. }
  unfold spec_block2. apply final2_rej; [apply cinv2_evs; assumption|].
  destruct Hin as [<-|Hin].
  - apply final2_in_evs; assumption.
  - apply final2_keep_evs; [assumption|assumption|]. eapply IH; eauto.
Qed.
