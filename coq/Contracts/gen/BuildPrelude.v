(* Contracts/gen/BuildPrelude.v — the two definitions the output of tools/go2coq (group "build",
   gen/BuildGen.v) refers to besides the vocabulary of Base.v / Model.v / Build.v.  Hand-written, no
   proofs; part of the trusted base of the translator (each states what a Go construct means):

     loop_res body xs s    for _, x := range xs { body }  carrying the result struct s; an error
                           return or a panic of the body leaves the loop
     res_opt r             the hand model's result type: Some for a nil error, None for an error
                           (and for a panic: BuildGenEquiv.v proves there is none) *)
From HostdBase Require Import Base.

Fixpoint loop_res {A S : Type} (body : S -> A -> res S) (xs : list A) (s : S) : res S :=
  match xs with
  | [] => Ok s
  | x :: t => do s' <- body s x; loop_res body t s'
  end.

Definition res_opt {A : Type} (r : res A) : option A :=
  match r with Ok a => Some a | _ => None end.
