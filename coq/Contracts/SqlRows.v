(* Contracts/SqlRows.v — the columns of persist/sqlite/init.sql tables [contracts] and
   [contracts_v2] that the two selections of RejectContracts (rejectContracts,
   rejectV2Contracts in persist/sqlite/consensus.go) read, as row records for tools/sqlgen
   (spec tools/sqlgen/c01.json), and the projection of the model's rows (Model.v c1 / c2) onto
   them.  One record field per column, named <prefix>_<column name> (r1_ = contracts,
   r2_ = contracts_v2); Coq type per declared SQL type as in Actions/Rows.v:
     INTEGER NOT NULL -> N      BOOLEAN NOT NULL -> bool (stored 0/1)      BLOB (nullable) -> option N
     contract_status  -> the model's status enumeration (v1 INTEGER, v2 TEXT; the stored
                         representation st1_repr / st2_repr is generated from the Go constants)
   No proofs here. *)
From HostdBase Require Import Base.
From HostdContracts Require Import Model.

(* table contracts *)
Record rj1row := {
  r1_contract_status : st1;          (* INTEGER NOT NULL *)
  r1_formation_confirmed : bool;     (* BOOLEAN NOT NULL *)
  r1_negotiation_height : N          (* INTEGER NOT NULL *)
}.

(* table contracts_v2.  confirmation_index is a BLOB holding an encoded chain index; the
   selection only tests it for NULL, the projection keeps the height *)
Record rj2row := {
  r2_contract_status : st2;          (* TEXT NOT NULL *)
  r2_confirmation_index : option N;  (* BLOB *)
  r2_negotiation_height : N          (* INTEGER NOT NULL *)
}.

Definition row_of_c1 (c : c1) : rj1row :=
  {| r1_contract_status := s1 c; r1_formation_confirmed := formed c; r1_negotiation_height := neg1 c |}.
Definition row_of_c2 (c : c2) : rj2row :=
  {| r2_contract_status := s2 c; r2_confirmation_index := option_map fst (conf2 c);
     r2_negotiation_height := neg2 c |}.
