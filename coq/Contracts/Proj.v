(* Contracts/Proj.v — from the store-level folds of the model to one row at a time:
   ApplyContracts / RevertContracts / RejectContracts act on every row independently. *)
From Coq Require Import Lia ZifyBool ZifyN.
From HostdBase Require Import Base.
From HostdContracts Require Import Model Lib Inv InvOps Chain PerContract.
Local Open Scope N_scope.

Lemma foldM_map {S A B} (f : S -> B -> rs S) (t : A -> B) l : forall s,
  foldM f (map t l) s = foldM (fun s a => f s (t a)) l s.
Proof. induction l as [|a l IH]; intros s; cbn; [reflexivity|]. destruct (f s (t a)); cbn; auto. Qed.

Lemma mapply_cases ops : forall m, (exists m', mapply ops m = ROk m') \/ mapply ops m = RPanic PNegStat.
Proof.
  unfold mapply. induction ops as [|[[k n] d] t IH]; intros m; cbn; [eauto|].
  destruct n; [destruct (mget m k <? d); cbn; [auto|apply IH]|cbn; apply IH].
Qed.

Lemma row_ok1_id f c r : row_ok1 f -> f c = ROk r -> id1 (fst r) = id1 c.
Proof. intros H E. specialize (H c). rewrite E in H. apply H. Qed.
Lemma row_ok2_id f c r : row_ok2 f -> f c = ROk r -> id2 (fst r) = id2 c.
Proof. intros H E. specialize (H c). rewrite E in H. apply H. Qed.

Lemma with1_total id f s c r :
  Inv s -> row_ok1 f -> find1 id (cs1 s) = Some c -> f c = ROk r ->
  exists s', with1 id f s = ROk s' /\ Inv s' /\ cs1 s' = repl1 (fst r) (cs1 s) /\ cs2 s' = cs2 s.
Proof.
  intros Hs Hf Ef Er. pose proof (with1_good id f s Hf Hs) as Hg.
  unfold with1, good in *. rewrite Ef, Er in *. cbn [rbind] in *.
  destruct (mapply_cases (snd r) (mets s)) as [[m' Em]|Em]; rewrite Em in *; cbn in *.
  - eexists; repeat split; auto; apply Hg.
  - exfalso; apply Hg; reflexivity.
Qed.
Lemma with2_total id f s c r :
  Inv s -> row_ok2 f -> find2 id (cs2 s) = Some c -> f c = ROk r ->
  exists s', with2 id f s = ROk s' /\ Inv s' /\ cs2 s' = repl2 (fst r) (cs2 s) /\ cs1 s' = cs1 s.
Proof.
  intros Hs Hf Ef Er. pose proof (with2_good id f s Hf Hs) as Hg.
  unfold with2, good in *. rewrite Ef, Er in *. cbn [rbind] in *.
  destruct (mapply_cases (snd r) (mets s)) as [[m' Em]|Em]; rewrite Em in *; cbn in *.
  - eexists; repeat split; auto; apply Hg.
  - exfalso; apply Hg; reflexivity.
Qed.

Lemma find1_repl id c' l :
  In (id1 c') (map id1 l) ->
  find1 id (repl1 c' l) = if id =? id1 c' then Some c' else find1 id l.
Proof.
  intros Hin. unfold find1, repl1. destruct (id =? id1 c') eqn:E.
  - assert (id = id1 c') as -> by lia. apply findk_replk_same; exact Hin.
  - apply findk_replk_other. lia.
Qed.
Lemma find2_repl id c' l :
  In (id2 c') (map id2 l) ->
  find2 id (repl2 c' l) = if id =? id2 c' then Some c' else find2 id l.
Proof.
  intros Hin. unfold find2, repl2. destruct (id =? id2 c') eqn:E.
  - assert (id = id2 c') as -> by lia. apply findk_replk_same; exact Hin.
  - apply findk_replk_other. lia.
Qed.

Lemma find1_in_ids id l c : find1 id l = Some c -> In id (map id1 l) /\ id1 c = id.
Proof.
  intros H. split; [|exact (findk_key _ _ _ _ _ H)].
  destruct (findk_none _ id1 id l) as [_ H2].
  destruct (in_dec N.eq_dec id (map id1 l)) as [Hi|Hn]; [exact Hi|].
  unfold find1 in H. rewrite (H2 Hn) in H. discriminate.
Qed.
Lemma find2_in_ids id l c : find2 id l = Some c -> In id (map id2 l) /\ id2 c = id.
Proof.
  intros H. split; [|exact (findk_key _ _ _ _ _ H)].
  destruct (findk_none _ id2 id l) as [_ H2].
  destruct (in_dec N.eq_dec id (map id2 l)) as [Hi|Hn]; [exact Hi|].
  unfold find2 in H. rewrite (H2 Hn) in H. discriminate.
Qed.

Lemma find_absent {A} (key : A -> N) l id : ~ In id (map key l) -> find (fun a => key a =? id) l = None.
Proof.
  induction l as [|a t IH]; cbn; [reflexivity|]. intros H.
  destruct (key a =? id) eqn:E; [exfalso; apply H; left; lia|]. apply IH; tauto.
Qed.

(** * a fold of row transitions over distinct contracts *)
Section Fold1.
  Variable A : Type.
  Variable key : A -> N.
  Variable g : A -> c1 -> rs (c1 * list mop).
  Hypothesis Hg : forall a, row_ok1 (g a).

  Definition updl1 (l : list A) (c : c1) : c1 :=
    match find (fun a => key a =? id1 c) l with Some a => fstok (g a c) c | None => c end.

  Lemma fw1_spec l : forall s,
    Inv s -> NoDup (map key l) ->
    (forall a, In a l -> exists c r, find1 (key a) (cs1 s) = Some c /\ g a c = ROk r) ->
    exists s', foldM (fun s a => with1 (key a) (g a) s) l s = ROk s' /\ Inv s' /\ cs2 s' = cs2 s /\
               forall id, find1 id (cs1 s') = option_map (updl1 l) (find1 id (cs1 s)).
  Proof.
    induction l as [|a t IH]; intros s Hs Hnd Hpre.
    - exists s; split; [reflexivity|split; [exact Hs|split; [reflexivity|]]].
      intros id. destruct (find1 id (cs1 s)); reflexivity.
    - inversion Hnd as [|? ? Ha Ht]; subst.
      destruct (Hpre a (or_introl eq_refl)) as (c & r & Ef & Er).
      destruct (with1_total (key a) (g a) s c r Hs (Hg a) Ef Er) as (s1 & E1 & Hs1 & Hc1 & Hc2).
      pose proof (row_ok1_id _ _ _ (Hg a) Er) as Hid.
      destruct (find1_in_ids _ _ _ Ef) as [Hin Hck].
      assert (Hf1 : forall id, find1 id (cs1 s1) = if id =? key a then Some (fst r) else find1 id (cs1 s)).
      { intros id. rewrite Hc1, find1_repl by (rewrite Hid, Hck; exact Hin). rewrite Hid, Hck. reflexivity. }
      destruct (IH s1 Hs1 Ht) as (s' & E' & Hs' & Hc2' & Hf').
      { intros a' Ha'. destruct (Hpre a' (or_intror Ha')) as (c' & r' & Ef' & Er').
        exists c', r'; split; [|exact Er']. rewrite Hf1.
        destruct (key a' =? key a) eqn:E; [|exact Ef'].
        exfalso; apply Ha. assert (key a = key a') as -> by lia. apply in_map; exact Ha'. }
      exists s'; split; [cbn [foldM]; rewrite E1; exact E'|split; [exact Hs'|split; [congruence|]]].
      intros id. rewrite Hf', Hf1. unfold updl1. cbn [find].
      destruct (id =? key a) eqn:E.
      + assert (id = key a) as -> by lia. rewrite Ef. cbn [option_map].
        rewrite Hid, Hck, N.eqb_refl. rewrite (find_absent key) by exact Ha. rewrite Er. reflexivity.
      + destruct (find1 id (cs1 s)) as [c0|] eqn:E0; [|reflexivity]. cbn [option_map].
        destruct (find1_in_ids _ _ _ E0) as [_ Hc0]. rewrite Hc0.
        replace (key a =? id) with false by lia. reflexivity.
  Qed.
End Fold1.

Section Fold2.
  Variable A : Type.
  Variable key : A -> N.
  Variable g : A -> c2 -> rs (c2 * list mop).
  Hypothesis Hg : forall a, row_ok2 (g a).

  Definition updl2 (l : list A) (c : c2) : c2 :=
    match find (fun a => key a =? id2 c) l with Some a => fstok (g a c) c | None => c end.

  Lemma fw2_spec l : forall s,
    Inv s -> NoDup (map key l) ->
    (forall a, In a l -> exists c r, find2 (key a) (cs2 s) = Some c /\ g a c = ROk r) ->
    exists s', foldM (fun s a => with2 (key a) (g a) s) l s = ROk s' /\ Inv s' /\ cs1 s' = cs1 s /\
               forall id, find2 id (cs2 s') = option_map (updl2 l) (find2 id (cs2 s)).
  Proof.
    induction l as [|a t IH]; intros s Hs Hnd Hpre.
    - exists s; split; [reflexivity|split; [exact Hs|split; [reflexivity|]]].
      intros id. destruct (find2 id (cs2 s)); reflexivity.
    - inversion Hnd as [|? ? Ha Ht]; subst.
      destruct (Hpre a (or_introl eq_refl)) as (c & r & Ef & Er).
      destruct (with2_total (key a) (g a) s c r Hs (Hg a) Ef Er) as (s1 & E1 & Hs1 & Hc1 & Hc2).
      pose proof (row_ok2_id _ _ _ (Hg a) Er) as Hid.
      destruct (find2_in_ids _ _ _ Ef) as [Hin Hck].
      assert (Hf1 : forall id, find2 id (cs2 s1) = if id =? key a then Some (fst r) else find2 id (cs2 s)).
      { intros id. rewrite Hc1, find2_repl by (rewrite Hid, Hck; exact Hin). rewrite Hid, Hck. reflexivity. }
      destruct (IH s1 Hs1 Ht) as (s' & E' & Hs' & Hc2' & Hf').
      { intros a' Ha'. destruct (Hpre a' (or_intror Ha')) as (c' & r' & Ef' & Er').
        exists c', r'; split; [|exact Er']. rewrite Hf1.
        destruct (key a' =? key a) eqn:E; [|exact Ef'].
        exfalso; apply Ha. assert (key a = key a') as -> by lia. apply in_map; exact Ha'. }
      exists s'; split; [cbn [foldM]; rewrite E1; exact E'|split; [exact Hs'|split; [congruence|]]].
      intros id. rewrite Hf', Hf1. unfold updl2. cbn [find].
      destruct (id =? key a) eqn:E.
      + assert (id = key a) as -> by lia. rewrite Ef. cbn [option_map].
        rewrite Hid, Hck, N.eqb_refl. rewrite (find_absent key) by exact Ha. rewrite Er. reflexivity.
      + destruct (find2 id (cs2 s)) as [c0|] eqn:E0; [|reflexivity]. cbn [option_map].
        destruct (find2_in_ids _ _ _ E0) as [_ Hc0]. rewrite Hc0.
        replace (key a =? id) with false by lia. reflexivity.
  Qed.
End Fold2.
Arguments updl1 {A} key g l c.
Arguments updl2 {A} key g l c.

(** * a fold of row transitions in which a contract may occur several times: every row goes
    through its own transitions in the order of the list *)
Section Seq1.
  Variable A : Type.
  Variable key : A -> N.
  Variable g : A -> c1 -> rs (c1 * list mop).
  Hypothesis Hg : forall a, row_ok1 (g a).

  Fixpoint seq_ok1 (l : list A) (c : c1) : Prop :=
    match l with [] => True | a :: t => exists r, g a c = ROk r /\ seq_ok1 t (fst r) end.
  Definition seql1 (l : list A) (c : c1) : c1 := fold_left (fun c a => fstok (g a c) c) l c.
  Definition own1 (id : N) (l : list A) : list A := filter (fun a => key a =? id) l.

  Lemma fstok_id1 a c : id1 (fstok (g a c) c) = id1 c.
  Proof. destruct (g a c) as [r| |] eqn:E; cbn; [apply (row_ok1_id _ _ _ (Hg a) E)|reflexivity|reflexivity]. Qed.

  Lemma fs1_spec l : forall s,
    Inv s ->
    (forall a, In a l -> find1 (key a) (cs1 s) <> None) ->
    (forall id c, find1 id (cs1 s) = Some c -> seq_ok1 (own1 id l) c) ->
    exists s', foldM (fun s a => with1 (key a) (g a) s) l s = ROk s' /\ Inv s' /\ cs2 s' = cs2 s /\
               forall id, find1 id (cs1 s') = option_map (fun c => seql1 (own1 id l) c) (find1 id (cs1 s)).
  Proof.
    induction l as [|a t IH]; intros s Hs Hk Hpre.
    - exists s; split; [reflexivity|split; [exact Hs|split; [reflexivity|]]].
      intros id. destruct (find1 id (cs1 s)); reflexivity.
    - destruct (find1 (key a) (cs1 s)) as [c|] eqn:Ef; [|exfalso; apply (Hk a (or_introl eq_refl)); exact Ef].
      pose proof (Hpre _ _ Ef) as Hc. unfold own1 in Hc. cbn [filter] in Hc. rewrite N.eqb_refl in Hc.
      destruct Hc as (r & Er & Hrest).
      destruct (with1_total (key a) (g a) s c r Hs (Hg a) Ef Er) as (s1 & E1 & Hs1 & Hc1 & Hc2).
      pose proof (row_ok1_id _ _ _ (Hg a) Er) as Hid.
      destruct (find1_in_ids _ _ _ Ef) as [Hin Hck].
      assert (Hf1 : forall id, find1 id (cs1 s1) = if id =? key a then Some (fst r) else find1 id (cs1 s)).
      { intros id. rewrite Hc1, find1_repl by (rewrite Hid, Hck; exact Hin). rewrite Hid, Hck. reflexivity. }
      destruct (IH s1 Hs1) as (s' & E' & Hs' & Hc2' & Hf').
      { intros a' Ha'. rewrite Hf1. destruct (key a' =? key a); [discriminate|]. apply Hk; right; exact Ha'. }
      { intros id c' Ef'. rewrite Hf1 in Ef'. destruct (id =? key a) eqn:E.
        - injection Ef' as <-. assert (id = key a) as -> by lia. exact Hrest.
        - pose proof (Hpre _ _ Ef') as H. unfold own1 in H. cbn [filter] in H.
          replace (key a =? id) with false in H by lia. exact H. }
      exists s'; split; [cbn [foldM]; rewrite E1; exact E'|split; [exact Hs'|split; [congruence|]]].
      intros id. rewrite Hf', Hf1. unfold own1. cbn [filter]. destruct (id =? key a) eqn:E.
      + assert (id = key a) as -> by lia. rewrite Ef, N.eqb_refl. cbn [option_map]. f_equal.
        unfold seql1. cbn [fold_left]. rewrite Er. reflexivity.
      + replace (key a =? id) with false by lia. reflexivity.
  Qed.
End Seq1.

Section Seq2.
  Variable A : Type.
  Variable key : A -> N.
  Variable g : A -> c2 -> rs (c2 * list mop).
  Hypothesis Hg : forall a, row_ok2 (g a).

  Fixpoint seq_ok2 (l : list A) (c : c2) : Prop :=
    match l with [] => True | a :: t => exists r, g a c = ROk r /\ seq_ok2 t (fst r) end.
  Definition seql2 (l : list A) (c : c2) : c2 := fold_left (fun c a => fstok (g a c) c) l c.
  Definition own2 (id : N) (l : list A) : list A := filter (fun a => key a =? id) l.

  Lemma fs2_spec l : forall s,
    Inv s ->
    (forall a, In a l -> find2 (key a) (cs2 s) <> None) ->
    (forall id c, find2 id (cs2 s) = Some c -> seq_ok2 (own2 id l) c) ->
    exists s', foldM (fun s a => with2 (key a) (g a) s) l s = ROk s' /\ Inv s' /\ cs1 s' = cs1 s /\
               forall id, find2 id (cs2 s') = option_map (fun c => seql2 (own2 id l) c) (find2 id (cs2 s)).
  Proof.
    induction l as [|a t IH]; intros s Hs Hk Hpre.
    - exists s; split; [reflexivity|split; [exact Hs|split; [reflexivity|]]].
      intros id. destruct (find2 id (cs2 s)); reflexivity.
    - destruct (find2 (key a) (cs2 s)) as [c|] eqn:Ef; [|exfalso; apply (Hk a (or_introl eq_refl)); exact Ef].
      pose proof (Hpre _ _ Ef) as Hc. unfold own2 in Hc. cbn [filter] in Hc. rewrite N.eqb_refl in Hc.
      destruct Hc as (r & Er & Hrest).
      destruct (with2_total (key a) (g a) s c r Hs (Hg a) Ef Er) as (s1 & E1 & Hs1 & Hc1 & Hc2).
      pose proof (row_ok2_id _ _ _ (Hg a) Er) as Hid.
      destruct (find2_in_ids _ _ _ Ef) as [Hin Hck].
      assert (Hf1 : forall id, find2 id (cs2 s1) = if id =? key a then Some (fst r) else find2 id (cs2 s)).
      { intros id. rewrite Hc1, find2_repl by (rewrite Hid, Hck; exact Hin). rewrite Hid, Hck. reflexivity. }
      destruct (IH s1 Hs1) as (s' & E' & Hs' & Hc2' & Hf').
      { intros a' Ha'. rewrite Hf1. destruct (key a' =? key a); [discriminate|]. apply Hk; right; exact Ha'. }
      { intros id c' Ef'. rewrite Hf1 in Ef'. destruct (id =? key a) eqn:E.
        - injection Ef' as <-. assert (id = key a) as -> by lia. exact Hrest.
        - pose proof (Hpre _ _ Ef') as H. unfold own2 in H. cbn [filter] in H.
          replace (key a =? id) with false in H by lia. exact H. }
      exists s'; split; [cbn [foldM]; rewrite E1; exact E'|split; [exact Hs'|split; [congruence|]]].
      intros id. rewrite Hf', Hf1. unfold own2. cbn [filter]. destruct (id =? key a) eqn:E.
      + assert (id = key a) as -> by lia. rewrite Ef, N.eqb_refl. cbn [option_map]. f_equal.
        unfold seql2. cbn [fold_left]. rewrite Er. reflexivity.
      + replace (key a =? id) with false by lia. reflexivity.
  Qed.
End Seq2.
Arguments seq_ok1 {A} g l c.
Arguments seql1 {A} g l c.
Arguments own1 {A} key id l.
Arguments seq_ok2 {A} g l c.
Arguments seql2 {A} g l c.
Arguments own2 {A} key id l.

(** * ApplyContracts / RevertContracts as two folds over the changes of the block *)
Definition A1 (h : N) (s : state) (p : N * pev1) : rs state := with1 (fst p) (row1_of h (snd p)) s.
Definition A2f (i : idx) (s : state) (p : N * pev2) : rs state := with2 (fst p) (row2_of i (snd p)) s.
Definition R1 (s : state) (p : N * pev1) : rs state := with1 (fst p) (rrow1_of (snd p)) s.
Definition R2f (s : state) (p : N * pev2) : rs state := with2 (fst p) (rrow2_of (snd p)) s.

Lemma bind_fold45 {A B} (f : state -> A -> rs state) (g : state -> B -> rs state)
      l1 l2 l3 l4 m1 m2 m3 m4 m5 s :
  rbind (foldM f (l1 ++ l2 ++ l3 ++ l4) s) (foldM g (m1 ++ m2 ++ m3 ++ m4 ++ m5)) =
  rbind (foldM f l1 s) (fun s => rbind (foldM f l2 s) (fun s => rbind (foldM f l3 s) (fun s =>
  rbind (foldM f l4 s) (fun s => rbind (foldM g m1 s) (fun s => rbind (foldM g m2 s) (fun s =>
  rbind (foldM g m3 s) (fun s => rbind (foldM g m4 s) (fun s => foldM g m5 s)))))))).
Proof.
  rewrite foldM_app. destruct (foldM f l1 s) as [s1| |]; cbn; try reflexivity.
  rewrite foldM_app. destruct (foldM f l2 s1) as [s2| |]; cbn; try reflexivity.
  rewrite foldM_app. destruct (foldM f l3 s2) as [s3| |]; cbn; try reflexivity.
  destruct (foldM f l4 s3) as [s4| |]; cbn; try reflexivity.
  rewrite foldM_app. destruct (foldM g m1 s4) as [t1| |]; cbn; try reflexivity.
  rewrite foldM_app. destruct (foldM g m2 t1) as [t2| |]; cbn; try reflexivity.
  rewrite foldM_app. destruct (foldM g m3 t2) as [t3| |]; cbn; try reflexivity.
  rewrite foldM_app. destruct (foldM g m4 t3) as [t4| |]; cbn; reflexivity.
Qed.

Lemma rbind_ext {A B} (r : rs A) (f g : A -> rs B) : (forall a, f a = g a) -> rbind r f = rbind r g.
Proof. intros H. destruct r; cbn; auto. Qed.

Ltac under_binds :=
  repeat (rewrite ?foldM_map; cbn [fst snd row1_of row2_of rrow1_of rrow2_of rev_entry];
          first [reflexivity | apply rbind_ext; intro]).

Lemma apply_contracts_folds b s :
  apply_contracts (bidx b) (changes_of false b) s =
  rbind (foldM (A1 (bheight b)) (evs1 b) s) (foldM (A2f (bidx b)) (evs2 b)).
Proof.
  unfold evs1, evs2. rewrite bind_fold45.
  unfold apply_contracts, each1, each2, changes_of, A1, A2f, bheight.
  cbn [cConf1 cRev1 cSucc1 cFail1 cConf2 cRev2 cSucc2 cRen2 cFail2].
  under_binds.
Qed.

Lemma revert_contracts_folds b s :
  revert_contracts (changes_of true b) s =
  rbind (foldM R1 (revs1 b) s) (foldM R2f (evs2 b)).
Proof.
  unfold revs1, evs2. rewrite bind_fold45.
  unfold revert_contracts, each1, each2, changes_of, R1, R2f.
  cbn [cConf1 cRev1 cSucc1 cFail1 cConf2 cRev2 cSucc2 cRen2 cFail2].
  under_binds.
Qed.
