(* Contracts/BuildGenEquiv.v — the definition tools/go2coq regenerates from the current source of
   host/contracts/update.go (gen/BuildGen.v) is the hand model Build.build_state, for all inputs,
   and never panics.  The proof does not depend on the shape of the generated term: every test of
   either side is split on the diff's flags until both sides are constructors.  A harmless rewrite
   of the Go function leaves it valid, a change of behaviour breaks it. *)
From HostdBase Require Import Base.
From HostdContracts Require Import Model Chain Build BuildProofs BuildPrelude BuildGen.
Local Open Scope N_scope.

Definition opt_res {A} (o : option A) : res A := match o with Some a => Ok a | None => Err EInvalid end.

(* the loop combinator of the translator against the hand model's fold *)
Lemma loop_res_foldo {A S} (f : S -> A -> res S) (g : S -> A -> option S) :
  (forall s a, f s a = opt_res (g s a)) -> forall l s, loop_res f l s = opt_res (foldo g l s).
Proof.
  intros H l; induction l as [|a t IH]; intros s; cbn; [reflexivity|].
  rewrite H. destruct (g s a); cbn; [apply IH | reflexivity].
Qed.

(* split every test on a variable; compound conditions compute once their variables are known *)
Ltac split_vars :=
  repeat match goal with
  | |- context [if ?b then _ else _] => is_var b; destruct b; cbn
  | |- context [match ?x with _ => _ end] => is_var x; destruct x; cbn
  end.

Ltac body_eq :=
  let s := fresh "s" in let a := fresh "a" in
  intros s a; destruct s, a;
  unfold build1, build1_res, build2, build2_res, add_conf1, add_rev1, add_succ1, add_fail1,
         add_conf2, add_rev2, add_succ2, add_ren2, add_fail2, opt_res;
  cbn; split_vars; reflexivity.

Ltac loop_step g :=
  match goal with
  | |- context [loop_res ?f ?l ?s] => rewrite (loop_res_foldo f g) by body_eq
  end.

(* the generated function, as a res: the hand model's result, an error where the hand model says
   None — in particular no Panic (no nil pointer of a diff is dereferenced) *)
Lemma build_gen_res : forall revert l1 l2,
  BuildGen.build_state_res revert l1 l2 = opt_res (Build.build_state revert l1 l2).
Proof.
  intros revert l1 l2. unfold BuildGen.build_state_res, BuildGen.buildContractState, Build.build_state.
  loop_step (build1 revert).
  change (mkCh [] [] [] [] [] [] [] [] []) with no_changes.
  destruct (foldo (build1 revert) l1 no_changes) as [ch|]; cbn; [|reflexivity].
  loop_step (build2 revert).
  destruct (foldo (build2 revert) l2 ch); reflexivity.
Qed.

Lemma build_gen_eq : forall revert fs gs,
  BuildGen.build_state revert fs gs = Build.build_state revert fs gs.
Proof.
  intros. unfold BuildGen.build_state. rewrite build_gen_res.
  destruct (Build.build_state revert fs gs); reflexivity.
Qed.

Lemma build_gen_no_panic : forall revert l1 l2, BuildGen.build_state_res revert l1 l2 <> Panic.
Proof. intros. rewrite build_gen_res. destruct (Build.build_state revert l1 l2); discriminate. Qed.

(** * the Build-level statements of C01, about the generated definition *)
Lemma build_gen_block (revert : bool) (i : idx) l1 l2 ch :
  BuildGen.build_state revert l1 l2 = Some ch -> ch = changes_of revert (block_of_diffs i l1 l2).
Proof. rewrite build_gen_eq. apply build_state_block. Qed.

Lemma build_gen_total revert l1 l2 :
  forallb flagged1 l1 = true -> forallb flagged2 l2 = true ->
  exists ch, BuildGen.build_state_res revert l1 l2 = Ok ch.
Proof.
  intros H1 H2. destruct (build_state_total revert l1 l2 H1 H2) as [ch Hc].
  exists ch. rewrite build_gen_res, Hc. reflexivity.
Qed.

(* an error is returned exactly for a relevant diff that is neither created, revised nor resolved
   (the hand model's None), never anything else *)
Lemma build_gen_outcomes revert l1 l2 :
  (exists ch, BuildGen.build_state_res revert l1 l2 = Ok ch /\ Build.build_state revert l1 l2 = Some ch) \/
  (BuildGen.build_state_res revert l1 l2 = Err EInvalid /\ Build.build_state revert l1 l2 = None).
Proof.
  rewrite build_gen_res. destruct (Build.build_state revert l1 l2) as [ch|]; [left; exists ch|right]; split; reflexivity.
Qed.

Definition gen_demo1 : list fdiff :=
  [mkFD 1 true true 4 None true true false; mkFD 2 true false 4 (Some 5) true false false;
   mkFD 3 false false 0 None false false false; mkFD 4 true false 7 None true false true].
Definition gen_demo2 : list fdiff2 :=
  [mkFD2 5 true true 2 None None; mkFD2 6 true false 2 (Some 3) (Some (KExpiration false));
   mkFD2 7 true false 1 None (Some KRenewal); mkFD2 8 true false 1 (Some 9) None].

Lemma gen_demo_ok :
  BuildGen.build_state_res false gen_demo1 gen_demo2
    = Ok (mkCh [1] [(1, 4); (2, 5)] [1; 4] [2] [(5, 2)] [(6, 3); (8, 9)] [] [7] [6]) /\
  BuildGen.build_state_res true gen_demo1 gen_demo2
    = Ok (mkCh [1] [(1, 0); (2, 4)] [1; 4] [2] [(5, 2)] [(6, 2); (8, 1)] [] [7] [6]) /\
  BuildGen.build_state_res false [mkFD 9 true false 1 None false false false] [] = Err EInvalid /\
  forallb flagged1 gen_demo1 = true /\ forallb flagged2 gen_demo2 = true.
Proof. vm_compute. repeat split; reflexivity. Qed.
