(* Contracts/ProofsC05.v — the statements of Props_C05.v, derived from Inv/InvOps. *)
From Coq Require Import Lia ZifyBool ZifyN.
From HostdBase Require Import Base.
From HostdContracts Require Import Model Lib Inv InvOps.
Local Open Scope N_scope.

Definition after (l : list op) : state := run init step l.

Lemma metrics_are_sum_of_contributions l k :
  mget (mets (after l)) k = msum1 (cs1 (after l)) k + msum2 (cs2 (after l)) k.
Proof. destruct (run_inv l) as (_ & _ & H). apply H. Qed.

Lemma metrics_equal_recomputation l :
  mets (after l) = recompute (cs1 (after l)) (cs2 (after l)).
Proof. apply inv_recompute, run_inv. Qed.

Lemma recalc_changes_nothing l : recalc (after l) = mets (after l).
Proof. apply recalc_noop, run_inv. Qed.

Lemma no_negative_stat_panic l o : fst (snd (step (after l) o)) <> CPanic PNegStat.
Proof. apply step_no_negstat, run_inv. Qed.

(* the same from any state in which the metrics are the sums, e.g. after a migration that ran
   recalcContractMetrics *)
Lemma invariant_is_inductive s o : Inv s -> Inv (fst (step s o)) /\ fst (snd (step s o)) <> CPanic PNegStat.
Proof. intros H; split; [apply step_inv|apply step_no_negstat]; exact H. Qed.

(* who contributes what *)
Lemma v1_contribution c k :
  contrib1 c k =
  match s1 c with
  | Active => match k with KAct => 1 | KLocked => locked1 c | KRisked => uRisk (use1 c)
                         | KPot r => uget r (use1 c) | _ => 0 end
  | Successful => match k with KSucc => 1 | KEarn r => uget r (use1 c) | _ => 0 end
  | Rejected => match k with KRej => 1 | _ => 0 end
  | Failed => match k with KFail => 1 | _ => 0 end
  | Pending => 0
  end.
Proof. unfold contrib1. destruct (s1 c), k; reflexivity. Qed.

Lemma v2_contribution c k :
  contrib2 c k =
  match s2 c with
  | A2 => match k with KAct => 1 | KLocked => locked2 c | KRisked => uRisk (use2 c)
                     | KPot r => uget2 r (use2 c) | _ => 0 end
  | S2 => match k with KSucc => 1 | KEarn r => uget2 r (use2 c) | _ => 0 end
  | N2 => match k with KRen => 1 | KEarn r => uget2 r (use2 c) | _ => 0 end
  | R2 => match k with KRej => 1 | _ => 0 end
  | F2 => match k with KFail => 1 | _ => 0 end
  | P2 => 0
  end.
Proof. unfold contrib2. destruct (s2 c), k; reflexivity. Qed.
