(* Contracts/BuildProofs.v — the StateChanges that buildContractState produces for the element
   diffs of a block are [changes_of]: the theorem-level blocks of Chain.v are what the contract
   manager hands to the store. *)
From Coq Require Import Lia.
From HostdBase Require Import Base.
From HostdContracts Require Import Model Chain Build.
Local Open Scope N_scope.

(* the element diff behind one change of a block *)
Definition diff1_of (p : N * pev1) : fdiff :=
  match snd p with
  | PForm1 => mkFD (fst p) true true 0 None false false false
  | PRev1 o n => mkFD (fst p) true false o (Some n) false false false
  | PSucc1 => mkFD (fst p) true false 0 None true true false
  | PFail1 => mkFD (fst p) true false 0 None true false false
  end.
Definition diff2_of (p : N * pev2) : fdiff2 :=
  match snd p with
  | PForm2 r => mkFD2 (fst p) true true r None None
  | PRev2 o n => mkFD2 (fst p) true false o (Some n) None
  | PSucc2 => mkFD2 (fst p) true false 0 None (Some KProof)
  | PRen2 => mkFD2 (fst p) true false 0 None (Some KRenewal)
  | PFail2 => mkFD2 (fst p) true false 0 None (Some (KExpiration false))
  end.

Lemma foldo_app {A S} (f : S -> A -> option S) l1 l2 s :
  foldo f (l1 ++ l2) s = match foldo f l1 s with Some s' => foldo f l2 s' | None => None end.
Proof. revert s; induction l1 as [|a t IH]; intros s; cbn; [reflexivity|]. destruct (f s a); auto. Qed.

Lemma changes_ext a b :
  cConf1 a = cConf1 b -> cRev1 a = cRev1 b -> cSucc1 a = cSucc1 b -> cFail1 a = cFail1 b ->
  cConf2 a = cConf2 b -> cRev2 a = cRev2 b -> cSucc2 a = cSucc2 b -> cRen2 a = cRen2 b ->
  cFail2 a = cFail2 b -> a = b.
Proof. destruct a, b; cbn; intros; subst; reflexivity. Qed.

Ltac seg l :=
  induction l as [|x t IH]; intros ch; cbn [map foldo];
  [ f_equal; apply changes_ext; cbn; rewrite ?app_nil_r; reflexivity
  | cbn; rewrite IH; f_equal; apply changes_ext; cbn; rewrite <- ?app_assoc; reflexivity ].

Lemma seg_conf1 r l : forall ch,
  foldo (build1 r) (map diff1_of (map (fun id => (id, PForm1)) l)) ch =
  Some (mkCh (cConf1 ch ++ l) (cRev1 ch) (cSucc1 ch) (cFail1 ch) (cConf2 ch) (cRev2 ch) (cSucc2 ch) (cRen2 ch) (cFail2 ch)).
Proof. seg l. Qed.
Lemma seg_rev1 r l : forall ch,
  foldo (build1 r) (map diff1_of (map (fun t => (fst (fst t), PRev1 (snd (fst t)) (snd t))) l)) ch =
  Some (mkCh (cConf1 ch) (cRev1 ch ++ map (rev_entry r) l) (cSucc1 ch) (cFail1 ch) (cConf2 ch) (cRev2 ch) (cSucc2 ch) (cRen2 ch) (cFail2 ch)).
Proof. seg l. Qed.
Lemma seg_succ1 r l : forall ch,
  foldo (build1 r) (map diff1_of (map (fun id => (id, PSucc1)) l)) ch =
  Some (mkCh (cConf1 ch) (cRev1 ch) (cSucc1 ch ++ l) (cFail1 ch) (cConf2 ch) (cRev2 ch) (cSucc2 ch) (cRen2 ch) (cFail2 ch)).
Proof. seg l. Qed.
Lemma seg_fail1 r l : forall ch,
  foldo (build1 r) (map diff1_of (map (fun id => (id, PFail1)) l)) ch =
  Some (mkCh (cConf1 ch) (cRev1 ch) (cSucc1 ch) (cFail1 ch ++ l) (cConf2 ch) (cRev2 ch) (cSucc2 ch) (cRen2 ch) (cFail2 ch)).
Proof. seg l. Qed.
Lemma seg_conf2 r l : forall ch,
  foldo (build2 r) (map diff2_of (map (fun p => (fst p, PForm2 (snd p))) l)) ch =
  Some (mkCh (cConf1 ch) (cRev1 ch) (cSucc1 ch) (cFail1 ch) (cConf2 ch ++ l) (cRev2 ch) (cSucc2 ch) (cRen2 ch) (cFail2 ch)).
Proof.
  induction l as [|x t IH]; intros ch; cbn [map foldo].
  - f_equal; apply changes_ext; cbn; rewrite ?app_nil_r; reflexivity.
  - cbn. rewrite IH. f_equal. apply changes_ext; cbn; rewrite <- ?app_assoc; try reflexivity.
    destruct x; reflexivity.
Qed.
Lemma seg_rev2 r l : forall ch,
  foldo (build2 r) (map diff2_of (map (fun t => (fst (fst t), PRev2 (snd (fst t)) (snd t))) l)) ch =
  Some (mkCh (cConf1 ch) (cRev1 ch) (cSucc1 ch) (cFail1 ch) (cConf2 ch) (cRev2 ch ++ map (rev_entry r) l) (cSucc2 ch) (cRen2 ch) (cFail2 ch)).
Proof. seg l. Qed.
Lemma seg_succ2 r l : forall ch,
  foldo (build2 r) (map diff2_of (map (fun id => (id, PSucc2)) l)) ch =
  Some (mkCh (cConf1 ch) (cRev1 ch) (cSucc1 ch) (cFail1 ch) (cConf2 ch) (cRev2 ch) (cSucc2 ch ++ l) (cRen2 ch) (cFail2 ch)).
Proof. seg l. Qed.
Lemma seg_ren2 r l : forall ch,
  foldo (build2 r) (map diff2_of (map (fun id => (id, PRen2)) l)) ch =
  Some (mkCh (cConf1 ch) (cRev1 ch) (cSucc1 ch) (cFail1 ch) (cConf2 ch) (cRev2 ch) (cSucc2 ch) (cRen2 ch ++ l) (cFail2 ch)).
Proof. seg l. Qed.
Lemma seg_fail2 r l : forall ch,
  foldo (build2 r) (map diff2_of (map (fun id => (id, PFail2)) l)) ch =
  Some (mkCh (cConf1 ch) (cRev1 ch) (cSucc1 ch) (cFail1 ch) (cConf2 ch) (cRev2 ch) (cSucc2 ch) (cRen2 ch) (cFail2 ch ++ l)).
Proof. seg l. Qed.

Ltac simp := cbn [cConf1 cRev1 cSucc1 cFail1 cConf2 cRev2 cSucc2 cRen2 cFail2 no_changes app].

(* buildContractState on the diffs of a block gives the block's StateChanges, with the
   previous revision numbers when reverting *)
Lemma build_state_block (revert : bool) (b : block) :
  build_state revert (map diff1_of (evs1 b)) (map diff2_of (evs2 b)) = Some (changes_of revert b).
Proof.
  unfold build_state, evs1, evs2. rewrite !map_app.
  rewrite foldo_app, seg_conf1; cbv beta iota; simp.
  rewrite foldo_app, seg_rev1; cbv beta iota; simp.
  rewrite foldo_app, seg_succ1; cbv beta iota; simp.
  rewrite seg_fail1; cbv beta iota; simp.
  rewrite foldo_app, seg_conf2; cbv beta iota; simp.
  rewrite foldo_app, seg_rev2; cbv beta iota; simp.
  rewrite foldo_app, seg_succ2; cbv beta iota; simp.
  rewrite foldo_app, seg_ren2; cbv beta iota; simp.
  rewrite seg_fail2; simp. reflexivity.
Qed.

(** * the store-level operation of a batch issues exactly the manager's calls *)
Definition op_calls (revs : list (idx * changes)) (apps : list (idx * changes * option N)) : list call :=
  map (fun r => CRevert (fst (fst r))) revs ++
  flat_map (fun a => CApply (fst (fst (fst a))) ::
                     match snd a with Some hm => [CReject hm] | None => [] end) apps.

Lemma batch_calls buffer (R A : list block) :
  op_calls (map rev_of R) (map (app_of buffer) A) =
  manager_calls buffer (map bheight R) (map bheight A).
Proof.
  unfold op_calls, manager_calls. f_equal.
  - rewrite !map_map. reflexivity.
  - induction A as [|b t IH]; cbn [map flat_map]; [reflexivity|]. rewrite IH. f_equal.
    unfold app_of, rej_arg, bheight. cbn [fst snd]. destruct (buffer <=? fst (bidx b)); reflexivity.
Qed.
