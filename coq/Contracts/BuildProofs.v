(* Contracts/BuildProofs.v — the StateChanges that buildContractState produces for the element
   diffs of a block are [changes_of] of a block of Chain.v, and when the diffs are what core's
   MidState produces (one merged diff per contract id) that block is [block_ok] and carries for
   every contract exactly the changes of its diff, in ApplyContracts order: the theorem-level
   blocks are what the contract manager hands to the store. *)
From Coq Require Import Lia ZifyBool ZifyN.
From HostdBase Require Import Base.
From HostdContracts Require Import Model Chain Build.
Local Open Scope N_scope.

Lemma foldo_app {A S} (f : S -> A -> option S) l1 l2 s :
  foldo f (l1 ++ l2) s = match foldo f l1 s with Some s' => foldo f l2 s' | None => None end.
Proof. revert s; induction l1 as [|a t IH]; intros s; cbn; [reflexivity|]. destruct (f s a); auto. Qed.

Lemma changes_ext a b :
  cConf1 a = cConf1 b -> cRev1 a = cRev1 b -> cSucc1 a = cSucc1 b -> cFail1 a = cFail1 b ->
  cConf2 a = cConf2 b -> cRev2 a = cRev2 b -> cSucc2 a = cSucc2 b -> cRen2 a = cRen2 b ->
  cFail2 a = cFail2 b -> a = b.
Proof. destruct a, b; cbn; intros; subst; reflexivity. Qed.

(** * the block behind a list of element diffs *)

(* what one merged diff contributes to the lists of a block, mirroring buildContractState's
   switch (an irrelevant diff contributes nothing; a created element is also its confirmed
   revision, from 0) *)
Definition p_conf1 (d : fdiff) : list N :=
  if fd_relevant d && fd_created d then [fd_id d] else [].
Definition p_rev1 (d : fdiff) : list (N * N * N) :=
  if fd_relevant d then
    (if fd_created d then [(fd_id d, 0, fd_cur d)]
     else match fd_rev d with Some r => [(fd_id d, fd_cur d, r)] | None => [] end)
  else [].
(* a created diff never carries a Revision (core folds it); should it, [case created] ignores it *)
Definition resolved1 (d : fdiff) : bool := fd_relevant d && fd_resolved d.
Definition p_succ1 (d : fdiff) : list N :=
  if resolved1 d && (fd_valid d || fd_missed_ge d) then [fd_id d] else [].
Definition p_fail1 (d : fdiff) : list N :=
  if resolved1 d && negb (fd_valid d || fd_missed_ge d) then [fd_id d] else [].

Definition p_conf2 (d : fdiff2) : list (N * N) :=
  if gd_relevant d && gd_created d then [(gd_id d, gd_cur d)] else [].
Definition p_rev2 (d : fdiff2) : list (N * N * N) :=
  if gd_relevant d && negb (gd_created d) then
    match gd_rev d with Some r => [(gd_id d, gd_cur d, r)] | None => [] end
  else [].
Definition res2_of (d : fdiff2) : option resk :=
  if gd_relevant d && negb (gd_created d) then gd_res d else None.
Definition p_succ2 (d : fdiff2) : list N :=
  match res2_of d with Some (KExpiration true) | Some KProof => [gd_id d] | _ => [] end.
Definition p_ren2 (d : fdiff2) : list N :=
  match res2_of d with Some KRenewal => [gd_id d] | _ => [] end.
Definition p_fail2 (d : fdiff2) : list N :=
  match res2_of d with Some (KExpiration false) => [gd_id d] | _ => [] end.

Definition blk1 (b : block) (d : fdiff) : block :=
  mkB (bidx b) (bConf1 b ++ p_conf1 d) (bRev1 b ++ p_rev1 d) (bSucc1 b ++ p_succ1 d) (bFail1 b ++ p_fail1 d)
      (bConf2 b) (bRev2 b) (bSucc2 b) (bRen2 b) (bFail2 b).
Definition blk2 (b : block) (d : fdiff2) : block :=
  mkB (bidx b) (bConf1 b) (bRev1 b) (bSucc1 b) (bFail1 b)
      (bConf2 b ++ p_conf2 d) (bRev2 b ++ p_rev2 d) (bSucc2 b ++ p_succ2 d) (bRen2 b ++ p_ren2 d)
      (bFail2 b ++ p_fail2 d).

Definition empty_block (i : idx) : block := mkB i [] [] [] [] [] [] [] [] [].

(* the block of the diffs of one consensus update, in the order of the diffs *)
Definition block_of_diffs (i : idx) (l1 : list fdiff) (l2 : list fdiff2) : block :=
  fold_left blk2 l2 (fold_left blk1 l1 (empty_block i)).

Ltac simp := cbn [cConf1 cRev1 cSucc1 cFail1 cConf2 cRev2 cSucc2 cRen2 cFail2 no_changes app
                  bidx bConf1 bRev1 bSucc1 bFail1 bConf2 bRev2 bSucc2 bRen2 bFail2 changes_of
                  add_conf1 add_rev1 add_succ1 add_fail1 add_conf2 add_rev2 add_succ2 add_ren2 add_fail2].

Lemma build1_step revert b d ch :
  build1 revert (changes_of revert b) d = Some ch -> ch = changes_of revert (blk1 b d).
Proof.
  unfold build1, build1_res, blk1, p_conf1, p_rev1, p_succ1, p_fail1, resolved1.
  destruct d as [id rel cr cur rv res va mg]. cbn [fd_id fd_relevant fd_created fd_cur fd_rev fd_resolved fd_valid fd_missed_ge].
  destruct rel, cr; cbn [negb andb]; try destruct rv as [r|]; try destruct res; cbn [negb andb];
    try destruct (va || mg); cbn [negb andb];
    intros H; inversion H; subst; clear H; apply changes_ext; simp;
    rewrite ?map_app, ?app_nil_r; cbn [map rev_entry fst snd]; try reflexivity; destruct revert; reflexivity.
Qed.

Lemma build2_step revert b d ch :
  build2 revert (changes_of revert b) d = Some ch -> ch = changes_of revert (blk2 b d).
Proof.
  unfold build2, build2_res, blk2, p_conf2, p_rev2, p_succ2, p_ren2, p_fail2, res2_of.
  destruct d as [id rel cr cur rv res]. cbn [gd_id gd_relevant gd_created gd_cur gd_rev gd_res].
  destruct rel, cr; cbn [negb andb]; try destruct rv as [r|]; try destruct res as [[|[|]|]|]; cbn [negb andb];
    intros H; inversion H; subst; clear H; apply changes_ext; simp;
    rewrite ?map_app, ?app_nil_r; cbn [map rev_entry fst snd]; try reflexivity; destruct revert; reflexivity.
Qed.

Lemma build1_fold revert l : forall b ch,
  foldo (build1 revert) l (changes_of revert b) = Some ch -> ch = changes_of revert (fold_left blk1 l b).
Proof.
  induction l as [|d t IH]; intros b ch; cbn [foldo fold_left]; [intros [= <-]; reflexivity|].
  destruct (build1 revert (changes_of revert b) d) as [ch1|] eqn:E; [|discriminate].
  apply build1_step in E. subst ch1. apply IH.
Qed.
Lemma build2_fold revert l : forall b ch,
  foldo (build2 revert) l (changes_of revert b) = Some ch -> ch = changes_of revert (fold_left blk2 l b).
Proof.
  induction l as [|d t IH]; intros b ch; cbn [foldo fold_left]; [intros [= <-]; reflexivity|].
  destruct (build2 revert (changes_of revert b) d) as [ch1|] eqn:E; [|discriminate].
  apply build2_step in E. subst ch1. apply IH.
Qed.

(* whatever buildContractState returns for the diffs of an update is the StateChanges of a block,
   with the previous revision numbers when reverting *)
Lemma build_state_block (revert : bool) (i : idx) l1 l2 ch :
  build_state revert l1 l2 = Some ch -> ch = changes_of revert (block_of_diffs i l1 l2).
Proof.
  unfold build_state, block_of_diffs. intros H.
  destruct (foldo (build1 revert) l1 no_changes) as [ch1|] eqn:E1; [|discriminate].
  change no_changes with (changes_of revert (empty_block i)) in E1.
  apply build1_fold in E1. subst ch1. apply build2_fold in H. exact H.
Qed.

(* it fails only on a diff that is neither created, revised nor resolved *)
Definition flagged1 (d : fdiff) : bool :=
  negb (fd_relevant d) || fd_created d || (match fd_rev d with Some _ => true | None => false end) || fd_resolved d.
Definition flagged2 (d : fdiff2) : bool :=
  negb (gd_relevant d) || gd_created d || (match gd_rev d with Some _ => true | None => false end)
  || (match gd_res d with Some _ => true | None => false end).

Lemma build1_total revert l : forallb flagged1 l = true -> forall ch, exists ch', foldo (build1 revert) l ch = Some ch'.
Proof.
  induction l as [|d t IH]; cbn [forallb foldo]; intros H ch; [eauto|].
  apply Bool.andb_true_iff in H. destruct H as [Hd Ht].
  assert (exists c, build1 revert ch d = Some c) as [c Hc].
  { unfold build1, flagged1 in *. destruct (fd_relevant d), (fd_created d), (fd_rev d), (fd_resolved d); cbn in *; eauto; discriminate. }
  rewrite Hc. apply IH; exact Ht.
Qed.
Lemma build2_total revert l : forallb flagged2 l = true -> forall ch, exists ch', foldo (build2 revert) l ch = Some ch'.
Proof.
  induction l as [|d t IH]; cbn [forallb foldo]; intros H ch; [eauto|].
  apply Bool.andb_true_iff in H. destruct H as [Hd Ht].
  assert (exists c, build2 revert ch d = Some c) as [c Hc].
  { unfold build2, flagged2 in *. destruct (gd_relevant d), (gd_created d), (gd_rev d), (gd_res d); cbn in *; eauto; discriminate. }
  rewrite Hc. apply IH; exact Ht.
Qed.
Lemma build_state_total revert l1 l2 :
  forallb flagged1 l1 = true -> forallb flagged2 l2 = true -> exists ch, build_state revert l1 l2 = Some ch.
Proof.
  intros H1 H2. unfold build_state. destruct (build1_total revert l1 H1 no_changes) as [c1 E1]. rewrite E1.
  apply build2_total; exact H2.
Qed.

(** * merged diffs give [block_ok] blocks *)

(* the changes of one merged diff, in the order ApplyContracts / RevertContracts meet them *)
Definition dev1 (d : fdiff) : list pev1 :=
  if negb (fd_relevant d) then []
  else (if fd_created d then [PForm1; PRev1 0 (fd_cur d)]
        else match fd_rev d with Some r => [PRev1 (fd_cur d) r] | None => [] end)
       ++ (if fd_resolved d then [if fd_valid d || fd_missed_ge d then PSucc1 else PFail1] else []).
Definition dev2 (d : fdiff2) : list pev2 :=
  if negb (gd_relevant d) then []
  else if gd_created d then [PForm2 (gd_cur d)]
  else (match gd_rev d with Some r => [PRev2 (gd_cur d) r] | None => [] end)
       ++ (match gd_res d with
           | Some KRenewal => [PRen2]
           | Some (KExpiration true) | Some KProof => [PSucc2]
           | Some (KExpiration false) => [PFail2]
           | None => []
           end).

Lemma blk1_fold l : forall b,
  let b' := fold_left blk1 l b in
  bidx b' = bidx b /\ bConf1 b' = bConf1 b ++ flat_map p_conf1 l /\ bRev1 b' = bRev1 b ++ flat_map p_rev1 l /\
  bSucc1 b' = bSucc1 b ++ flat_map p_succ1 l /\ bFail1 b' = bFail1 b ++ flat_map p_fail1 l /\
  bConf2 b' = bConf2 b /\ bRev2 b' = bRev2 b /\ bSucc2 b' = bSucc2 b /\ bRen2 b' = bRen2 b /\ bFail2 b' = bFail2 b.
Proof.
  induction l as [|d t IH]; intros b; cbn [fold_left flat_map]; [rewrite !app_nil_r; repeat split|].
  destruct (IH (blk1 b d)) as (A0 & A1 & A2 & A3 & A4 & A5 & A6 & A7 & A8 & A9).
  cbn zeta. rewrite A0, A1, A2, A3, A4, A5, A6, A7, A8, A9. cbn [blk1 bidx bConf1 bRev1 bSucc1 bFail1 bConf2 bRev2 bSucc2 bRen2 bFail2].
  rewrite <- !app_assoc. repeat split.
Qed.
Lemma blk2_fold l : forall b,
  let b' := fold_left blk2 l b in
  bidx b' = bidx b /\ bConf1 b' = bConf1 b /\ bRev1 b' = bRev1 b /\ bSucc1 b' = bSucc1 b /\ bFail1 b' = bFail1 b /\
  bConf2 b' = bConf2 b ++ flat_map p_conf2 l /\ bRev2 b' = bRev2 b ++ flat_map p_rev2 l /\
  bSucc2 b' = bSucc2 b ++ flat_map p_succ2 l /\ bRen2 b' = bRen2 b ++ flat_map p_ren2 l /\
  bFail2 b' = bFail2 b ++ flat_map p_fail2 l.
Proof.
  induction l as [|d t IH]; intros b; cbn [fold_left flat_map]; [rewrite !app_nil_r; repeat split|].
  destruct (IH (blk2 b d)) as (A0 & A1 & A2 & A3 & A4 & A5 & A6 & A7 & A8 & A9).
  cbn zeta. rewrite A0, A1, A2, A3, A4, A5, A6, A7, A8, A9. cbn [blk2 bidx bConf1 bRev1 bSucc1 bFail1 bConf2 bRev2 bSucc2 bRen2 bFail2].
  rewrite <- !app_assoc. repeat split.
Qed.

(* selecting the entries of one contract from lists built diff by diff *)
Section Select.
  Variables (D X : Type) (key : D -> N) (kx : X -> N) (part : D -> list X).
  Hypothesis Hpart : forall d x, In x (part d) -> kx x = key d.

  Lemma filter_own d : filter (fun x => kx x =? key d) (part d) = part d.
  Proof.
    assert (H : forall l, (forall x, In x l -> kx x = key d) -> filter (fun x => kx x =? key d) l = l).
    { induction l as [|x t IH]; cbn; [reflexivity|]. intros Hl.
      rewrite (Hl x (or_introl eq_refl)), N.eqb_refl. f_equal. apply IH. intros; apply Hl; right; assumption. }
    apply H. apply Hpart.
  Qed.
  Lemma filter_other d id : key d <> id -> filter (fun x => kx x =? id) (part d) = [].
  Proof.
    intros Hne.
    assert (H : forall l, (forall x, In x l -> kx x = key d) -> filter (fun x => kx x =? id) l = []).
    { induction l as [|x t IH]; cbn; [reflexivity|]. intros Hl.
      rewrite (Hl x (or_introl eq_refl)). replace (key d =? id) with false by lia.
      apply IH. intros; apply Hl; right; assumption. }
    apply H. apply Hpart.
  Qed.

  Lemma select_absent l id : ~ In id (map key l) -> filter (fun x => kx x =? id) (flat_map part l) = [].
  Proof.
    induction l as [|d t IH]; cbn [flat_map map]; [reflexivity|]. intros H.
    rewrite filter_app, filter_other, IH; [reflexivity| |]; intros E; apply H; [right; exact E|left; exact E].
  Qed.
  Lemma select_own l d : NoDup (map key l) -> In d l ->
    filter (fun x => kx x =? key d) (flat_map part l) = part d.
  Proof.
    induction l as [|d0 t IH]; cbn [flat_map map]; [intros _ []|]. intros Hnd Hin.
    inversion Hnd as [|? ? Hd0 Ht]; subst. rewrite filter_app. destruct Hin as [->|Hin].
    - rewrite filter_own, select_absent by exact Hd0. apply app_nil_r.
    - rewrite filter_other, IH by (try assumption; intros E; apply Hd0; rewrite E; apply in_map; exact Hin).
      reflexivity.
  Qed.
End Select.

Lemma map_flat_map {D X Y} (f : X -> Y) (part : D -> list X) l :
  map f (flat_map part l) = flat_map (fun d => map f (part d)) l.
Proof. induction l as [|d t IH]; cbn; [reflexivity|]. rewrite map_app, IH. reflexivity. Qed.

Definition e_conf1 (d : fdiff) : list (N * pev1) := map (fun id => (id, PForm1)) (p_conf1 d).
Definition e_rev1 (d : fdiff) : list (N * pev1) := map (fun t => (fst (fst t), PRev1 (snd (fst t)) (snd t))) (p_rev1 d).
Definition e_succ1 (d : fdiff) : list (N * pev1) := map (fun id => (id, PSucc1)) (p_succ1 d).
Definition e_fail1 (d : fdiff) : list (N * pev1) := map (fun id => (id, PFail1)) (p_fail1 d).
Definition e_conf2 (d : fdiff2) : list (N * pev2) := map (fun p => (fst p, PForm2 (snd p))) (p_conf2 d).
Definition e_rev2 (d : fdiff2) : list (N * pev2) := map (fun t => (fst (fst t), PRev2 (snd (fst t)) (snd t))) (p_rev2 d).
Definition e_succ2 (d : fdiff2) : list (N * pev2) := map (fun id => (id, PSucc2)) (p_succ2 d).
Definition e_ren2 (d : fdiff2) : list (N * pev2) := map (fun id => (id, PRen2)) (p_ren2 d).
Definition e_fail2 (d : fdiff2) : list (N * pev2) := map (fun id => (id, PFail2)) (p_fail2 d).

Lemma evs1_block_of i l1 l2 :
  evs1 (block_of_diffs i l1 l2) =
  flat_map e_conf1 l1 ++ flat_map e_rev1 l1 ++ flat_map e_succ1 l1 ++ flat_map e_fail1 l1.
Proof.
  unfold block_of_diffs, evs1.
  destruct (blk2_fold l2 (fold_left blk1 l1 (empty_block i))) as (_ & A1 & A2 & A3 & A4 & _).
  destruct (blk1_fold l1 (empty_block i)) as (_ & B1 & B2 & B3 & B4 & _).
  cbn zeta in *. rewrite A1, A2, A3, A4, B1, B2, B3, B4. cbn [empty_block bConf1 bRev1 bSucc1 bFail1 app].
  rewrite !map_flat_map. reflexivity.
Qed.
Lemma evs2_block_of i l1 l2 :
  evs2 (block_of_diffs i l1 l2) =
  flat_map e_conf2 l2 ++ flat_map e_rev2 l2 ++ flat_map e_succ2 l2 ++ flat_map e_ren2 l2 ++ flat_map e_fail2 l2.
Proof.
  unfold block_of_diffs, evs2.
  destruct (blk2_fold l2 (fold_left blk1 l1 (empty_block i))) as (_ & _ & _ & _ & _ & A5 & A6 & A7 & A8 & A9).
  destruct (blk1_fold l1 (empty_block i)) as (_ & _ & _ & _ & _ & B5 & B6 & B7 & B8 & B9).
  cbn zeta in *. rewrite A5, A6, A7, A8, A9, B5, B6, B7, B8, B9. cbn [empty_block bConf2 bRev2 bSucc2 bRen2 bFail2 app].
  rewrite !map_flat_map. reflexivity.
Qed.

Ltac keyed1 := intros d x; unfold e_conf1, e_rev1, e_succ1, e_fail1, p_conf1, p_rev1, p_succ1, p_fail1, resolved1;
  destruct d as [id rel cr cur rv res va mg]; cbn [fd_id fd_relevant fd_created fd_cur fd_rev fd_resolved fd_valid fd_missed_ge];
  destruct rel, cr; cbn [negb andb map In]; try destruct rv; try destruct res; cbn [negb andb map In];
  try destruct (va || mg); cbn [negb andb map In]; intros H; try (destruct H as [<-|[]]; reflexivity); destruct H.
Ltac keyed2 := intros d x; unfold e_conf2, e_rev2, e_succ2, e_ren2, e_fail2, p_conf2, p_rev2, p_succ2, p_ren2, p_fail2, res2_of;
  destruct d as [id rel cr cur rv res]; cbn [gd_id gd_relevant gd_created gd_cur gd_rev gd_res];
  destruct rel, cr; cbn [negb andb map In]; try destruct rv; try destruct res as [[|[|]|]|]; cbn [negb andb map In];
  intros H; try (destruct H as [<-|[]]; reflexivity); destruct H.

Lemma k_conf1 : forall d x, In x (e_conf1 d) -> fst x = fd_id d. Proof. keyed1. Qed.
Lemma k_rev1 : forall d x, In x (e_rev1 d) -> fst x = fd_id d. Proof. keyed1. Qed.
Lemma k_succ1 : forall d x, In x (e_succ1 d) -> fst x = fd_id d. Proof. keyed1. Qed.
Lemma k_fail1 : forall d x, In x (e_fail1 d) -> fst x = fd_id d. Proof. keyed1. Qed.
Lemma k_conf2 : forall d x, In x (e_conf2 d) -> fst x = gd_id d. Proof. keyed2. Qed.
Lemma k_rev2 : forall d x, In x (e_rev2 d) -> fst x = gd_id d. Proof. keyed2. Qed.
Lemma k_succ2 : forall d x, In x (e_succ2 d) -> fst x = gd_id d. Proof. keyed2. Qed.
Lemma k_ren2 : forall d x, In x (e_ren2 d) -> fst x = gd_id d. Proof. keyed2. Qed.
Lemma k_fail2 : forall d x, In x (e_fail2 d) -> fst x = gd_id d. Proof. keyed2. Qed.

Lemma dev1_parts d : map snd (e_conf1 d ++ e_rev1 d ++ e_succ1 d ++ e_fail1 d) = dev1 d.
Proof.
  unfold dev1, e_conf1, e_rev1, e_succ1, e_fail1, p_conf1, p_rev1, p_succ1, p_fail1, resolved1.
  destruct d as [id rel cr cur rv res va mg]. cbn [fd_id fd_relevant fd_created fd_cur fd_rev fd_resolved fd_valid fd_missed_ge].
  destruct rel, cr; cbn [negb andb]; try destruct rv; try destruct res; cbn [negb andb];
    try destruct (va || mg); reflexivity.
Qed.
Lemma dev2_parts d : map snd (e_conf2 d ++ e_rev2 d ++ e_succ2 d ++ e_ren2 d ++ e_fail2 d) = dev2 d.
Proof.
  unfold dev2, e_conf2, e_rev2, e_succ2, e_ren2, e_fail2, p_conf2, p_rev2, p_succ2, p_ren2, p_fail2, res2_of.
  destruct d as [id rel cr cur rv res]. cbn [gd_id gd_relevant gd_created gd_cur gd_rev gd_res].
  destruct rel, cr; cbn [negb andb]; try destruct rv; try destruct res as [[|[|]|]|]; reflexivity.
Qed.

(* core keeps one diff per contract id (MidState.elements): the block of such diffs carries for
   every contract the changes of its own diff, and nothing for a contract without a diff *)
Lemma evl1_block_of i l1 l2 d : NoDup (map fd_id l1) -> In d l1 ->
  evl1_of (fd_id d) (block_of_diffs i l1 l2) = dev1 d.
Proof.
  intros Hnd Hin. unfold evl1_of. rewrite evs1_block_of, !filter_app.
  rewrite (select_own _ _ fd_id fst e_conf1 k_conf1), (select_own _ _ fd_id fst e_rev1 k_rev1),
          (select_own _ _ fd_id fst e_succ1 k_succ1), (select_own _ _ fd_id fst e_fail1 k_fail1) by assumption.
  apply dev1_parts.
Qed.
Lemma evl1_block_of_absent i l1 l2 id : ~ In id (map fd_id l1) -> evl1_of id (block_of_diffs i l1 l2) = [].
Proof.
  intros H. unfold evl1_of. rewrite evs1_block_of, !filter_app.
  rewrite (select_absent _ _ fd_id fst e_conf1 k_conf1), (select_absent _ _ fd_id fst e_rev1 k_rev1),
          (select_absent _ _ fd_id fst e_succ1 k_succ1), (select_absent _ _ fd_id fst e_fail1 k_fail1) by assumption.
  reflexivity.
Qed.
Lemma evl2_block_of i l1 l2 d : NoDup (map gd_id l2) -> In d l2 ->
  evl2_of (gd_id d) (block_of_diffs i l1 l2) = dev2 d.
Proof.
  intros Hnd Hin. unfold evl2_of. rewrite evs2_block_of, !filter_app.
  rewrite (select_own _ _ gd_id fst e_conf2 k_conf2), (select_own _ _ gd_id fst e_rev2 k_rev2),
          (select_own _ _ gd_id fst e_succ2 k_succ2), (select_own _ _ gd_id fst e_ren2 k_ren2),
          (select_own _ _ gd_id fst e_fail2 k_fail2) by assumption.
  apply dev2_parts.
Qed.
Lemma evl2_block_of_absent i l1 l2 id : ~ In id (map gd_id l2) -> evl2_of id (block_of_diffs i l1 l2) = [].
Proof.
  intros H. unfold evl2_of. rewrite evs2_block_of, !filter_app.
  rewrite (select_absent _ _ gd_id fst e_conf2 k_conf2), (select_absent _ _ gd_id fst e_rev2 k_rev2),
          (select_absent _ _ gd_id fst e_succ2 k_succ2), (select_absent _ _ gd_id fst e_ren2 k_ren2),
          (select_absent _ _ gd_id fst e_fail2 k_fail2) by assumption.
  reflexivity.
Qed.

(* the merged diffs consensus can produce for a contract of the host (see [block_ok]): not both
   revised and resolved for v1, not created together with anything else *)
Definition dshape1 (d : fdiff) : bool :=
  negb (fd_relevant d) || fd_created d
  || negb ((match fd_rev d with Some _ => true | None => false end) && fd_resolved d).

Lemma dev1_shape d : dshape1 d = true -> shape1 (dev1 d).
Proof.
  unfold dshape1, dev1. destruct d as [id rel cr cur rv res va mg]. cbn [fd_id fd_relevant fd_created fd_cur fd_rev fd_resolved fd_valid fd_missed_ge].
  destruct rel, cr; cbn [negb orb andb]; try (intros _; exact I);
    destruct rv, res; cbn; try discriminate; try (intros _; exact I); destruct (va || mg); intros _; exact I.
Qed.
Lemma dev2_shape d : shape2 (dev2 d).
Proof.
  unfold dev2. destruct d as [id rel cr cur rv res]. cbn [gd_id gd_relevant gd_created gd_cur gd_rev gd_res].
  destruct rel, cr; cbn [negb]; try exact I; destruct rv, res as [[|[|]|]|]; cbn; auto.
Qed.

Lemma merged_diffs_block_ok i l1 l2 :
  NoDup (map fd_id l1) -> NoDup (map gd_id l2) -> forallb dshape1 l1 = true ->
  block_ok (block_of_diffs i l1 l2).
Proof.
  intros N1 N2 S1 id. split.
  - destruct (in_dec N.eq_dec id (map fd_id l1)) as [Hin|Hn].
    + apply in_map_iff in Hin. destruct Hin as (d & <- & Hd). rewrite evl1_block_of by assumption.
      apply dev1_shape. rewrite forallb_forall in S1. apply S1; exact Hd.
    + rewrite evl1_block_of_absent by exact Hn. exact I.
  - destruct (in_dec N.eq_dec id (map gd_id l2)) as [Hin|Hn].
    + apply in_map_iff in Hin. destruct Hin as (d & <- & Hd). rewrite evl2_block_of by assumption.
      apply dev2_shape.
    + rewrite evl2_block_of_absent by exact Hn. exact I.
Qed.

(** * the merged diffs of a block

   The other direction: the element diffs core's MidState produces for the changes of a block —
   one diff per contract id the block mentions, into which all its changes are merged. *)
Definition diff1_of_evl (id : N) (l : list pev1) : fdiff :=
  match l with
  | [PForm1; PRev1 _ k; PSucc1] => mkFD id true true k None true true false
  | [PForm1; PRev1 _ k; PFail1] => mkFD id true true k None true false false
  | PForm1 :: PRev1 _ k :: _ => mkFD id true true k None false false false
  | PForm1 :: _ => mkFD id true true 0 None false false false
  | [PRev1 o n] => mkFD id true false o (Some n) false false false
  | [PSucc1] => mkFD id true false 0 None true true false
  | [PFail1] => mkFD id true false 0 None true false false
  | _ => mkFD id false false 0 None false false false
  end.
Definition resk_of (e : pev2) : option resk :=
  match e with PSucc2 => Some KProof | PRen2 => Some KRenewal | PFail2 => Some (KExpiration false) | _ => None end.
Definition diff2_of_evl (id : N) (l : list pev2) : fdiff2 :=
  match l with
  | PForm2 r :: _ => mkFD2 id true true r None None
  | [PRev2 o n] => mkFD2 id true false o (Some n) None
  | [PRev2 o n; e] => mkFD2 id true false o (Some n) (resk_of e)
  | [e] => mkFD2 id true false 0 None (resk_of e)
  | _ => mkFD2 id false false 0 None None
  end.
Definition diffs1_of (b : block) : list fdiff :=
  map (fun id => diff1_of_evl id (evl1_of id b)) (nodup N.eq_dec (ids1_of b)).
Definition diffs2_of (b : block) : list fdiff2 :=
  map (fun id => diff2_of_evl id (evl2_of id b)) (nodup N.eq_dec (ids2_of b)).

Lemma diff1_of_evl_id id l : fd_id (diff1_of_evl id l) = id.
Proof. destruct l as [|[|o n| |] [|[|o2 n2| |] [|[|o3 n3| |] [|e4 t4]]]]; reflexivity. Qed.
Lemma diff2_of_evl_id id l : gd_id (diff2_of_evl id l) = id.
Proof. destruct l as [|[r|o n| | |] [|e2 [|e3 t]]]; reflexivity. Qed.

Lemma dev1_diff1_of_evl id l : shape1 l -> l <> [PForm1] -> dev1 (diff1_of_evl id l) = l.
Proof.
  destruct l as [|[|o n| |] [|[|o2 n2| |] [|[|o3 n3| |] [|e4 t4]]]]; cbn; try tauto; try congruence.
  all: destruct o2; try tauto; reflexivity.
Qed.
Lemma dev2_diff2_of_evl id l : shape2 l -> dev2 (diff2_of_evl id l) = l.
Proof.
  destruct l as [|[r|o n| | |] [|[r2|o2 n2| | |] [|e3 t3]]]; cbn; try tauto; try discriminate; reflexivity.
Qed.

Lemma evl_absent_ids {E} (l : list (N * E)) id :
  ~ In id (map fst l) -> map snd (filter (fun p => fst p =? id) l) = [].
Proof.
  induction l as [|p t IH]; cbn; [reflexivity|]. intros H.
  destruct (fst p =? id) eqn:Ep; [exfalso; apply H; left; lia|]. apply IH; tauto.
Qed.

(* a [block_ok] block is, contract by contract, the block of its own merged diffs (a formation
   is recorded with the revision of its created element, as the repaired buildContractState does) *)
Lemma block_of_its_diffs b :
  block_ok b -> (forall id, evl1_of id b <> [PForm1]) ->
  let b' := block_of_diffs (bidx b) (diffs1_of b) (diffs2_of b) in
  NoDup (map fd_id (diffs1_of b)) /\ NoDup (map gd_id (diffs2_of b)) /\
  forallb dshape1 (diffs1_of b) = true /\
  (forall id, evl1_of id b' = evl1_of id b) /\ (forall id, evl2_of id b' = evl2_of id b).
Proof.
  intros Hok Hbare b'.
  assert (M1 : map fd_id (diffs1_of b) = nodup N.eq_dec (ids1_of b)).
  { unfold diffs1_of. rewrite map_map. rewrite <- (map_id (nodup N.eq_dec (ids1_of b))) at 2.
    apply map_ext. intros id. apply diff1_of_evl_id. }
  assert (M2 : map gd_id (diffs2_of b) = nodup N.eq_dec (ids2_of b)).
  { unfold diffs2_of. rewrite map_map. rewrite <- (map_id (nodup N.eq_dec (ids2_of b))) at 2.
    apply map_ext. intros id. apply diff2_of_evl_id. }
  assert (N1 : NoDup (map fd_id (diffs1_of b))) by (rewrite M1; apply NoDup_nodup).
  assert (N2 : NoDup (map gd_id (diffs2_of b))) by (rewrite M2; apply NoDup_nodup).
  split; [exact N1|]. split; [exact N2|]. split; [|split].
  - apply forallb_forall. intros d Hd. unfold diffs1_of in Hd. apply in_map_iff in Hd.
    destruct Hd as (id & <- & _). destruct (Hok id) as [Sh _]. specialize (Hbare id).
    revert Sh Hbare. generalize (evl1_of id b). intros l.
    destruct l as [|[|o n| |] [|[|o2 n2| |] [|[|o3 n3| |] [|e4 t4]]]]; cbn; try tauto; try congruence; try reflexivity.
    all: destruct o2; try tauto; reflexivity.
  - intros id. destruct (in_dec N.eq_dec id (ids1_of b)) as [Hi|Hn].
    + assert (Hd : In (diff1_of_evl id (evl1_of id b)) (diffs1_of b)).
      { unfold diffs1_of. apply (in_map (fun id => diff1_of_evl id (evl1_of id b))). apply nodup_In. exact Hi. }
      pose proof (evl1_block_of (bidx b) (diffs1_of b) (diffs2_of b) _ N1 Hd) as E.
      rewrite diff1_of_evl_id in E. unfold b'. rewrite E.
      apply dev1_diff1_of_evl; [apply Hok|apply Hbare].
    + unfold b'. rewrite evl1_block_of_absent by (rewrite M1, nodup_In; exact Hn).
      unfold evl1_of. rewrite evl_absent_ids; [reflexivity|exact Hn].
  - intros id. destruct (in_dec N.eq_dec id (ids2_of b)) as [Hi|Hn].
    + assert (Hd : In (diff2_of_evl id (evl2_of id b)) (diffs2_of b)).
      { unfold diffs2_of. apply (in_map (fun id => diff2_of_evl id (evl2_of id b))). apply nodup_In. exact Hi. }
      pose proof (evl2_block_of (bidx b) (diffs1_of b) (diffs2_of b) _ N2 Hd) as E.
      rewrite diff2_of_evl_id in E. unfold b'. rewrite E.
      apply dev2_diff2_of_evl. apply Hok.
    + unfold b'. rewrite evl2_block_of_absent by (rewrite M2, nodup_In; exact Hn).
      unfold evl2_of. rewrite evl_absent_ids; [reflexivity|exact Hn].
Qed.

(** * the store-level operation of a batch issues exactly the manager's calls *)
Definition op_calls (revs : list (idx * changes)) (apps : list (idx * changes * option N)) : list call :=
  map (fun r => CRevert (fst (fst r))) revs ++
  flat_map (fun a => CApply (fst (fst (fst a))) ::
                     match snd a with Some hm => [CReject hm] | None => [] end) apps.

Lemma batch_calls buffer (R A : list block) :
  op_calls (map rev_of R) (map (app_of buffer) A) =
  manager_calls buffer (map bheight R) (map bheight A).
Proof.
  unfold op_calls, manager_calls. f_equal.
  - rewrite !map_map. reflexivity.
  - induction A as [|b t IH]; cbn [map flat_map]; [reflexivity|]. rewrite IH. f_equal.
    unfold app_of, rej_arg, bheight. cbn [fst snd]. destruct (buffer <=? fst (bidx b)); reflexivity.
Qed.
