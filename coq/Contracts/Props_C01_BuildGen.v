(* C01 — the Build-level statements of Props_C01.v, about the definition REGENERATED FROM THE SOURCE.
   Statements only; every proof is [exact lemma].

   gen/BuildGen.v is written at the start of every check run by tools/go2coq (build.go, imp.go:
   symbolic execution of host/contracts/update.go: buildContractState over the types of Build.v,
   name mapping in the header of the generated file).  BuildGen.build_state_res is the translated
   function with the hand model's argument order (Ok ch / Err EInvalid for a returned error /
   Panic for a nil dereference), BuildGen.build_state the same with Build.v's result type.
   BuildGenEquiv.v proves, for all inputs, that it IS the hand model Build.build_state — so every
   theorem of Props_C01.v that mentions build_state is a theorem about what the repository's
   current source says, not only about a model tied to it by differential runs. *)
From HostdBase Require Import Base.
From HostdContracts Require Import Model Chain Build BuildProofs BuildPrelude BuildGen BuildGenEquiv.
Local Open Scope N_scope.

(* the function translated from the source is the hand model, for every input *)
Theorem c01_gen_build_state_is_model : forall (revert : bool) (l1 : list fdiff) (l2 : list fdiff2),
  BuildGen.build_state revert l1 l2 = Build.build_state revert l1 l2.
Proof. exact build_gen_eq. Qed.
Print Assumptions c01_gen_build_state_is_model.

(* it returns the hand model's changes, or an error exactly where the hand model has none; *)
Theorem c01_gen_build_state_outcomes : forall (revert : bool) (l1 : list fdiff) (l2 : list fdiff2),
  (exists ch, BuildGen.build_state_res revert l1 l2 = Ok ch /\ Build.build_state revert l1 l2 = Some ch) \/
  (BuildGen.build_state_res revert l1 l2 = Err EInvalid /\ Build.build_state revert l1 l2 = None).
Proof. exact build_gen_outcomes. Qed.
Print Assumptions c01_gen_build_state_outcomes.

(* in particular it never dereferences a nil Revision / Resolution of a diff *)
Theorem c01_gen_build_state_no_panic : forall (revert : bool) (l1 : list fdiff) (l2 : list fdiff2),
  BuildGen.build_state_res revert l1 l2 <> Panic.
Proof. exact build_gen_no_panic. Qed.
Print Assumptions c01_gen_build_state_no_panic.

(* twin of c01_build_state_gives_block_changes: whatever the translated function returns for the
   element diffs (l1, l2) is the StateChanges of the block [block_of_diffs i l1 l2] of the theory *)
Theorem c01_gen_build_state_gives_block_changes :
  forall (revert : bool) (i : idx) (l1 : list fdiff) (l2 : list fdiff2) (ch : changes),
  BuildGen.build_state revert l1 l2 = Some ch -> ch = changes_of revert (block_of_diffs i l1 l2).
Proof. exact build_gen_block. Qed.
Print Assumptions c01_gen_build_state_gives_block_changes.

(* twin of c01_build_state_total: it succeeds on diffs each of which is created, revised or resolved *)
Theorem c01_gen_build_state_total : forall (revert : bool) (l1 : list fdiff) (l2 : list fdiff2),
  forallb flagged1 l1 = true -> forallb flagged2 l2 = true ->
  exists ch, BuildGen.build_state_res revert l1 l2 = Ok ch.
Proof. exact build_gen_total. Qed.
Print Assumptions c01_gen_build_state_total.

Example c01_gen_build_nonvacuous :
  BuildGen.build_state_res false gen_demo1 gen_demo2
    = Ok (mkCh [1] [(1, 4); (2, 5)] [1; 4] [2] [(5, 2)] [(6, 3); (8, 9)] [] [7] [6]) /\
  BuildGen.build_state_res true gen_demo1 gen_demo2
    = Ok (mkCh [1] [(1, 0); (2, 4)] [1; 4] [2] [(5, 2)] [(6, 2); (8, 1)] [] [7] [6]) /\
  BuildGen.build_state_res false [mkFD 9 true false 1 None false false false] [] = Err EInvalid /\
  forallb flagged1 gen_demo1 = true /\ forallb flagged2 gen_demo2 = true.
Proof. exact gen_demo_ok. Qed.
