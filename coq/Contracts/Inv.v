(* Contracts/Inv.v — C05: the metric invariant  metrics = sum of per-contract contributions,
   preserved by every operation of the model in every state; hence the negative-stat guard of
   metrics.go never fires and recalcContractMetrics never changes anything. *)
From Coq Require Import Lia ZifyBool ZifyN.
From HostdBase Require Import Base.
From HostdContracts Require Import Model Lib.
Local Open Scope N_scope.

(** * metric keys *)
Definition rk_eqb (a b : rk) : bool :=
  match a, b with
  | RRpc, RRpc | RSto, RSto | RIng, RIng | REgr, REgr | RRR, RRR | RRW, RRW => true
  | _, _ => false
  end.
Definition mkey_eqb (a b : mkey) : bool :=
  match a, b with
  | KAct, KAct | KRej, KRej | KSucc, KSucc | KFail, KFail | KRen, KRen
  | KLocked, KLocked | KRisked, KRisked => true
  | KPot r, KPot r' | KEarn r, KEarn r' => rk_eqb r r'
  | _, _ => false
  end.
Lemma mkey_eqb_eq a b : mkey_eqb a b = true <-> a = b.
Proof.
  destruct a as [| | | | | | |r|r], b as [| | | | | | |r'|r']; cbn; try (split; congruence);
    destruct r, r'; cbn; split; congruence.
Qed.
Lemma mkey_eqb_refl a : mkey_eqb a a = true.
Proof. apply mkey_eqb_eq; reflexivity. Qed.
Lemma mkey_eqb_neq a b : a <> b -> mkey_eqb a b = false.
Proof. intros H; destruct (mkey_eqb a b) eqn:E; [apply mkey_eqb_eq in E; contradiction|reflexivity]. Qed.

Lemma mget_mset_same m k v : mget (mset m k v) k = v.
Proof. destruct m, k as [| | | | | | |r|r]; try destruct r; reflexivity. Qed.
Lemma mget_mset_other m k k' v : k <> k' -> mget (mset m k v) k' = mget m k'.
Proof.
  intros H. destruct m, k as [| | | | | | |r|r], k' as [| | | | | | |r'|r'];
    try destruct r; try destruct r'; try reflexivity; contradiction.
Qed.

Definition all_keys : list mkey :=
  [KAct; KRej; KSucc; KFail; KRen; KLocked; KRisked;
   KPot RRpc; KPot RSto; KPot RIng; KPot REgr; KPot RRR; KPot RRW;
   KEarn RRpc; KEarn RSto; KEarn RIng; KEarn REgr; KEarn RRR; KEarn RRW].

Lemma metrics_ext m m' : (forall k, mget m k = mget m' k) -> m = m'.
Proof.
  intros H. destruct m, m'.
  pose proof (H KAct); pose proof (H KRej); pose proof (H KSucc); pose proof (H KFail);
  pose proof (H KRen); pose proof (H KLocked); pose proof (H KRisked);
  pose proof (H (KPot RRpc)); pose proof (H (KPot RSto)); pose proof (H (KPot RIng));
  pose proof (H (KPot REgr)); pose proof (H (KPot RRR)); pose proof (H (KPot RRW));
  pose proof (H (KEarn RRpc)); pose proof (H (KEarn RSto)); pose proof (H (KEarn RIng));
  pose proof (H (KEarn REgr)); pose proof (H (KEarn RRR)); pose proof (H (KEarn RRW)).
  cbn in *. subst. reflexivity.
Qed.

(** * what a list of metric calls adds to / subtracts from one stat *)
Definition okey_of (o : mop) : mkey := fst (fst o).
Definition keys (ops : list mop) : list mkey := map okey_of ops.
Definition opv (k : mkey) (negative : bool) (o : mop) : N :=
  let '(k', n, d) := o in if mkey_eqb k k' && Bool.eqb n negative then d else 0.
Definition addk (ops : list mop) (k : mkey) : N := fold_right (fun o a => opv k false o + a) 0 ops.
Definition subk (ops : list mop) (k : mkey) : N := fold_right (fun o a => opv k true o + a) 0 ops.

Fixpoint memk (k : mkey) (l : list mkey) : bool :=
  match l with [] => false | x :: t => mkey_eqb k x || memk k t end.
Fixpoint nodupb (l : list mkey) : bool :=
  match l with [] => true | x :: t => negb (memk x t) && nodupb t end.
Lemma memk_in k l : memk k l = true <-> In k l.
Proof.
  induction l as [|x t IH]; cbn; [split; [discriminate|tauto]|].
  rewrite Bool.orb_true_iff, IH, mkey_eqb_eq. split; intros [H|H]; auto.
Qed.
Lemma nodupb_sound l : nodupb l = true -> NoDup l.
Proof.
  induction l as [|x t IH]; cbn; [constructor|].
  rewrite Bool.andb_true_iff, Bool.negb_true_iff. intros [H1 H2].
  constructor; [|auto]. intros H; apply memk_in in H; congruence.
Qed.

Lemma opv_absent k n ops : ~ In k (keys ops) -> fold_right (fun o a => opv k n o + a) 0 ops = 0.
Proof.
  induction ops as [|[[k' n'] d] t IH]; cbn; [reflexivity|]. intros H.
  rewrite mkey_eqb_neq by (intros ->; apply H; left; reflexivity). cbn.
  apply IH. intros H'; apply H; right; exact H'.
Qed.

Lemma mapply_ok ops : forall m,
  NoDup (keys ops) ->
  (forall k d, In (k, true, d) ops -> d <= mget m k) ->
  exists m', mapply ops m = ROk m' /\ forall k, mget m' k = mget m k + addk ops k - subk ops k.
Proof.
  induction ops as [|[[k0 n0] d0] t IH]; intros m Hnd Hb.
  - exists m; split; [reflexivity|]. intros k; cbn; lia.
  - inversion Hnd as [|? ? Hk0 Hnt]; subst.
    assert (Hcur : n0 = true -> d0 <= mget m k0) by (intros ->; apply Hb; left; reflexivity).
    set (m1 := mset m k0 (if n0 then mget m k0 - d0 else mget m k0 + d0)).
    assert (Hstep : minc m (k0, n0, d0) = ROk m1).
    { unfold minc, m1. destruct n0; [|reflexivity].
      destruct (mget m k0 <? d0) eqn:E; [specialize (Hcur eq_refl); lia|reflexivity]. }
    destruct (IH m1 Hnt) as (m' & Hm' & Hget).
    { intros k d Hin. assert (k <> k0).
      { intros ->. apply Hk0. change (In (okey_of (k0, true, d)) (keys t)). apply in_map; exact Hin. }
      unfold m1; rewrite mget_mset_other by congruence. apply Hb; right; exact Hin. }
    exists m'; split.
    { unfold mapply in *; cbn [foldM]. rewrite Hstep; cbn. exact Hm'. }
    intros k. rewrite Hget. cbn [addk subk fold_right opv].
    destruct (mkey_eqb k k0) eqn:E.
    + apply mkey_eqb_eq in E; subst k.
      fold (addk t k0) (subk t k0).
      unfold addk, subk. rewrite !opv_absent by exact Hk0.
      unfold m1; rewrite mget_mset_same. destruct n0; cbn; [specialize (Hcur eq_refl)|]; lia.
    + cbn. fold (addk t k) (subk t k).
      unfold m1; rewrite mget_mset_other by (intros ->; rewrite mkey_eqb_refl in E; discriminate).
      lia.
Qed.

(** * contributions: recalcContractMetrics on a single row (plus the status counters) *)
Definition uget (r : rk) (u : usage) : N :=
  match r with RRpc => uRpc u | RSto => uSto u | RIng => uIng u | REgr => uEgr u
             | RRR => uRR u | RRW => uRW u end.

Definition contrib1 (c : c1) (k : mkey) : N :=
  match k, s1 c with
  | KAct, Active | KRej, Rejected | KSucc, Successful | KFail, Failed => 1
  | KLocked, Active => locked1 c
  | KRisked, Active => uRisk (use1 c)
  | KPot r, Active => uget r (use1 c)
  | KEarn r, Successful => uget r (use1 c)
  | _, _ => 0
  end.

(* v2 rows have no registry revenue *)
Definition uget2 (r : rk) (u : usage) : N :=
  match r with RRpc => uRpc u | RSto => uSto u | RIng => uIng u | REgr => uEgr u | _ => 0 end.

Definition contrib2 (c : c2) (k : mkey) : N :=
  match k, s2 c with
  | KAct, A2 | KRej, R2 | KSucc, S2 | KFail, F2 | KRen, N2 => 1
  | KLocked, A2 => locked2 c
  | KRisked, A2 => uRisk (use2 c)
  | KPot r, A2 => uget2 r (use2 c)
  | KEarn r, S2 | KEarn r, N2 => uget2 r (use2 c)
  | _, _ => 0
  end.

Definition msum1 (l : list c1) (k : mkey) : N := fold_right (fun c a => contrib1 c k + a) 0 l.
Definition msum2 (l : list c2) (k : mkey) : N := fold_right (fun c a => contrib2 c k + a) 0 l.

Definition Inv (s : state) : Prop :=
  NoDup (map id1 (cs1 s)) /\ NoDup (map id2 (cs2 s)) /\
  forall k, mget (mets s) k = msum1 (cs1 s) k + msum2 (cs2 s) k.

Definition good (r : rs state) : Prop := goodr Inv (eq PNegStat) r.

Lemma msum1_app l1 l2 k : msum1 (l1 ++ l2) k = msum1 l1 k + msum1 l2 k.
Proof. unfold msum1. induction l1 as [|x t IH]; cbn [app fold_right]; lia. Qed.
Lemma msum2_app l1 l2 k : msum2 (l1 ++ l2) k = msum2 l1 k + msum2 l2 k.
Proof. unfold msum2. induction l1 as [|x t IH]; cbn [app fold_right]; lia. Qed.

Lemma msum1_repl id l c c' k :
  find1 id l = Some c -> id1 c' = id1 c ->
  msum1 (repl1 c' l) k + contrib1 c k = msum1 l k + contrib1 c' k.
Proof.
  unfold find1, repl1, msum1. intros Hf Hid. pose proof (findk_key _ _ _ _ _ Hf) as Hk.
  induction l as [|x t IH]; cbn in *; [discriminate|].
  destruct (id1 x =? id) eqn:E.
  - injection Hf as ->. replace (id1 c =? id1 c') with true by lia. cbn. lia.
  - replace (id1 x =? id1 c') with false by lia. cbn. specialize (IH Hf). lia.
Qed.
Lemma msum2_repl id l c c' k :
  find2 id l = Some c -> id2 c' = id2 c ->
  msum2 (repl2 c' l) k + contrib2 c k = msum2 l k + contrib2 c' k.
Proof.
  unfold find2, repl2, msum2. intros Hf Hid. pose proof (findk_key _ _ _ _ _ Hf) as Hk.
  induction l as [|x t IH]; cbn in *; [discriminate|].
  destruct (id2 x =? id) eqn:E.
  - injection Hf as ->. replace (id2 c =? id2 c') with true by lia. cbn. lia.
  - replace (id2 x =? id2 c') with false by lia. cbn. specialize (IH Hf). lia.
Qed.

Lemma msum1_ge id l c k : find1 id l = Some c -> contrib1 c k <= msum1 l k.
Proof.
  unfold find1, msum1. induction l as [|x t IH]; cbn; [discriminate|].
  destruct (id1 x =? id); [intros [= ->]; lia|intros H; specialize (IH H); lia].
Qed.
Lemma msum2_ge id l c k : find2 id l = Some c -> contrib2 c k <= msum2 l k.
Proof.
  unfold find2, msum2. induction l as [|x t IH]; cbn; [discriminate|].
  destruct (id2 x =? id); [intros [= ->]; lia|intros H; specialize (IH H); lia].
Qed.

Arguments msum1 : simpl never.
Arguments msum2 : simpl never.

(** * what every row transition has to satisfy *)
Definition rowfacts1 (c c' : c1) (ops : list mop) : Prop :=
  id1 c' = id1 c /\ nodupb (keys ops) = true /\
  (forall k d, In (k, true, d) ops -> d <= contrib1 c k) /\
  (forall k, contrib1 c' k + subk ops k = contrib1 c k + addk ops k).
Definition row_ok1 (f : c1 -> rs (c1 * list mop)) : Prop :=
  forall c, match f c with
            | ROk r => rowfacts1 c (fst r) (snd r)
            | RErr => True
            | RPanic w => PNegStat <> w
            end.
Definition rowfacts2 (c c' : c2) (ops : list mop) : Prop :=
  id2 c' = id2 c /\ nodupb (keys ops) = true /\
  (forall k d, In (k, true, d) ops -> d <= contrib2 c k) /\
  (forall k, contrib2 c' k + subk ops k = contrib2 c k + addk ops k).
Definition row_ok2 (f : c2 -> rs (c2 * list mop)) : Prop :=
  forall c, match f c with
            | ROk r => rowfacts2 c (fst r) (snd r)
            | RErr => True
            | RPanic w => PNegStat <> w
            end.

Lemma with1_good id f s : row_ok1 f -> Inv s -> good (with1 id f s).
Proof.
  intros Hf (Hn1 & Hn2 & Hm). unfold with1, good.
  destruct (find1 id (cs1 s)) as [c|] eqn:Ef; [|exact I].
  specialize (Hf c). destruct (f c) as [[c' ops]| |w]; cbn [rbind fst snd]; [|exact I|exact Hf].
  destruct Hf as (Hid & Hnd & Hb & Hd). cbn [fst snd] in *.
  destruct (mapply_ok ops (mets s)) as (m' & Hm' & Hget).
  { apply nodupb_sound; exact Hnd. }
  { intros k d Hin. specialize (Hb k d Hin). pose proof (msum1_ge id _ c k Ef). rewrite Hm. lia. }
  rewrite Hm'. cbn. repeat split; cbn.
  - unfold repl1. rewrite map_key_replk. exact Hn1.
  - exact Hn2.
  - intros k. rewrite Hget, Hm. pose proof (msum1_repl id _ c c' k Ef Hid).
    pose proof (msum1_ge id _ c k Ef). specialize (Hd k). lia.
Qed.

Lemma with2_good id f s : row_ok2 f -> Inv s -> good (with2 id f s).
Proof.
  intros Hf (Hn1 & Hn2 & Hm). unfold with2, good.
  destruct (find2 id (cs2 s)) as [c|] eqn:Ef; [|exact I].
  specialize (Hf c). destruct (f c) as [[c' ops]| |w]; cbn [rbind fst snd]; [|exact I|exact Hf].
  destruct Hf as (Hid & Hnd & Hb & Hd). cbn [fst snd] in *.
  destruct (mapply_ok ops (mets s)) as (m' & Hm' & Hget).
  { apply nodupb_sound; exact Hnd. }
  { intros k d Hin. specialize (Hb k d Hin). pose proof (msum2_ge id _ c k Ef). rewrite Hm. lia. }
  rewrite Hm'. cbn. repeat split; cbn.
  - exact Hn1.
  - unfold repl2. rewrite map_key_replk. exact Hn2.
  - intros k. rewrite Hget, Hm. pose proof (msum2_repl id _ c c' k Ef Hid).
    pose proof (msum2_ge id _ c k Ef). specialize (Hd k). lia.
Qed.

(** * every row transition of the model satisfies it *)
Ltac in_cases H :=
  cbn in H;
  repeat match type of H with
         | _ \/ _ => destruct H as [H|H]
         | False => contradiction
         | (_, _, _) = (_, _, _) => inversion H; subst; clear H
         end.

Ltac each_key := let k := fresh "k" in let q := fresh "q" in intros k; destruct k as [| | | | | | |q|q]; try destruct q; cbn; lia.

Ltac rowfacts_tac :=
  cbn; split; [reflexivity | split; [reflexivity | split;
     [ let k := fresh "k" in let d := fresh "d" in let H := fresh "H" in intros k d H; in_cases H; cbn; lia | each_key ]]].

Ltac row1_tac :=
  let c := fresh "c" in intros c; destruct c as [? st ? ? ? ? ? ? u]; destruct u; destruct st; cbn;
  try exact I; try discriminate; rowfacts_tac.
Ltac row2_tac :=
  let c := fresh "c" in intros c; destruct c as [? st ? ? ? ? ? ? u]; destruct u; destruct st; cbn;
  try exact I; try discriminate; rowfacts_tac.

Lemma form1_ok : row_ok1 form1. Proof. row1_tac. Qed.
Lemma revise_conf1_ok n : row_ok1 (revise_conf1 n). Proof. row1_tac. Qed.
Lemma succ1_ok h : row_ok1 (succ1 h). Proof. row1_tac. Qed.
Lemma fail1_ok : row_ok1 fail1. Proof. row1_tac. Qed.
Lemma rform1_ok : row_ok1 rform1. Proof. row1_tac. Qed.
Lemma rsucc1_ok : row_ok1 rsucc1. Proof. row1_tac. Qed.
Lemma rfail1_ok : row_ok1 rfail1. Proof. row1_tac. Qed.
Lemma rej1_ok : row_ok1 rej1. Proof. row1_tac. Qed.
Lemma revise1_ok r u : row_ok1 (revise1 r u). Proof. destruct u. row1_tac. Qed.
Lemma debit_row1_ok sp ad : row_ok1 (debit_row1 sp ad).
Proof.
  destruct ad. intros c; destruct c as [? st ? ? ? ? ? ? u]; destruct u.
  unfold debit_row1; cbn. destruct (_ <? _); [discriminate|].
  destruct st; rowfacts_tac.
Qed.

Lemma form2_ok i r : row_ok2 (form2 i r). Proof. row2_tac. Qed.
Lemma rform2_ok : row_ok2 rform2. Proof. row2_tac. Qed.
Lemma revise_elem2_ok n : row_ok2 (revise_elem2 n). Proof. row2_tac. Qed.
Lemma succ2_S_ok i : row_ok2 (succ2 i S2). Proof. row2_tac. Qed.
Lemma succ2_N_ok i : row_ok2 (succ2 i N2). Proof. row2_tac. Qed.
Lemma fail2_ok i : row_ok2 (fail2 i). Proof. row2_tac. Qed.
Lemma rsucc2_S_ok : row_ok2 (rsucc2 S2). Proof. row2_tac. Qed.
Lemma rsucc2_N_ok : row_ok2 (rsucc2 N2). Proof. row2_tac. Qed.
Lemma rfail2_ok : row_ok2 rfail2. Proof. row2_tac. Qed.
Lemma rej2_ok : row_ok2 rej2. Proof. row2_tac. Qed.
Lemma revise2_ok r u : row_ok2 (revise2 r u). Proof. destruct u. row2_tac. Qed.
Lemma debit_row2_ok sp ad : row_ok2 (debit_row2 sp ad).
Proof.
  destruct ad. intros c; destruct c as [? st ? ? ? ? ? ? u]; destruct u.
  unfold debit_row2; cbn. destruct (_ <? _); [discriminate|].
  destruct st; rowfacts_tac.
Qed.
