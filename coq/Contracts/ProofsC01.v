(* Contracts/ProofsC01.v — the statements of Props_C01.v. *)
From Coq Require Import Lia ZifyBool ZifyN.
From HostdBase Require Import Base.
From HostdContracts Require Import Model Lib Inv InvOps Chain PerContract Proj Rows SpecLemmas Steps Plain Rescan Hist Wfb.
Local Open Scope N_scope.

(* rows of a store compared with what a chain gives *)
Definition agrees_with_chain (buffer : N) (s : state) (K : list block) : Prop :=
  (forall id c, find1 id (cs1 s) = Some c -> heqv1 (proj1 c) (spec1 buffer (neg1 c) id K)) /\
  (forall id c, find2 id (cs2 s) = Some c -> heqv2 (proj2 c) (spec2 buffer (neg2 c) id K)).

Lemma function_of_best_chain buffer l :
  wf_hist buffer l (init, []) ->
  exists s, hrun buffer l (init, []) = ROk (s, best_chain l []) /\
            agrees_with_chain buffer s (best_chain l []).
Proof.
  intros Hwf. destruct (hist_J buffer l init [] (J_init buffer) Hwf) as (s & E & (_ & _ & Hr) & _).
  exists s. split; [exact E|exact Hr].
Qed.

(* the same from any store that has processed the chain K consistently *)
Lemma function_of_best_chain_from buffer l s K :
  J buffer s K -> wf_hist buffer l (s, K) ->
  exists s', hrun buffer l (s, K) = ROk (s', best_chain l K) /\
             agrees_with_chain buffer s' (best_chain l K).
Proof.
  intros HJ Hwf. destruct (hist_J buffer l s K HJ Hwf) as (s' & E & (_ & _ & Hr) & _).
  exists s'. split; [exact E|exact Hr].
Qed.

(* a store that knows contracts but has not processed any block *)
Definition blank_store (buffer : N) (s : state) : Prop := J buffer s [].

Lemma blank_after_plain buffer (ops : list op) :
  forallb is_plain ops = true ->
  blank_store buffer (fold_left (fun s o => exec_plain o s) ops init).
Proof.
  unfold blank_store. generalize (J_init buffer). generalize init.
  induction ops as [|o t IH]; intros s HJ Hp; cbn in *; [exact HJ|].
  apply Bool.andb_true_iff in Hp. destruct Hp as [Ho Ht]. apply IH; [|exact Ht]. apply plain_J; assumption.
Qed.

Definition same_contracts (s s' : state) : Prop :=
  (forall id, negof1 s' id = negof1 s id) /\ (forall id, negof2 s' id = negof2 s id).

Definition rows_equivalent (s s' : state) : Prop :=
  (forall id c c', find1 id (cs1 s) = Some c -> find1 id (cs1 s') = Some c' -> heqv1 (proj1 c) (proj1 c')) /\
  (forall id c c', find2 id (cs2 s) = Some c -> find2 id (cs2 s') = Some c' -> heqv2 (proj2 c) (proj2 c')).

Lemma agree_equiv buffer s s' K :
  grows s s' \/ same_contracts s s' ->
  agrees_with_chain buffer s K -> agrees_with_chain buffer s' K -> rows_equivalent s s'.
Proof.
  intros G [A1 A2] [B1 B2]. split.
  - intros id c c' Ef Ef'.
    assert (Hng : neg1 c' = neg1 c).
    { assert (H : negof1 s' id = Some (neg1 c)).
      { destruct G as [[G1 _]|[G1 _]]; [apply G1|rewrite G1]; apply negof1_some; eauto. }
      apply negof1_some in H. destruct H as (c2 & E2 & H2). congruence. }
    eapply heqv1_trans; [apply A1; exact Ef|]. apply heqv1_sym. rewrite <- Hng. apply B1; exact Ef'.
  - intros id c c' Ef Ef'.
    assert (Hng : neg2 c' = neg2 c).
    { assert (H : negof2 s' id = Some (neg2 c)).
      { destruct G as [[_ G2]|[_ G2]]; [apply G2|rewrite G2]; apply negof2_some; eauto. }
      apply negof2_some in H. destruct H as (c2 & E2 & H2). congruence. }
    eapply heqv2_trans; [apply A2; exact Ef|]. apply heqv2_sym. rewrite <- Hng. apply B2; exact Ef'.
Qed.

(* processing only the blocks of the final best chain, in order, on a store that holds the same
   contracts and has never seen a block, succeeds and gives equivalent rows *)
Lemma replay_agrees buffer l s0 :
  wf_hist buffer l (init, []) ->
  exists s, hrun buffer l (init, []) = ROk (s, best_chain l []) /\
  (blank_store buffer s0 -> same_contracts s s0 ->
   wf_hist buffer (linear (best_chain l [])) (s0, []) /\
   exists s', hrun buffer (linear (best_chain l [])) (s0, []) = ROk (s', best_chain l []) /\
              rows_equivalent s s').
Proof.
  intros Hwf. destruct (hist_J buffer l init [] (J_init buffer) Hwf) as (s & E & HJ & _).
  exists s. split; [exact E|]. intros Hb [S1 S2]. set (K := best_chain l []) in *.
  pose proof HJ as (_ & Hck & Hr).
  assert (Hext : ext_ok buffer (negof1 s0) (negof2 s0) [] (rev K)).
  { apply ext_ok_of_chain. rewrite rev_involutive, app_nil_r.
    eapply chain_ok_eq; [exact S1|exact S2|exact Hck]. }
  pose proof (linear_wf buffer (rev K) s0 [] Hb Hext) as Hlw.
  split; [exact Hlw|].
  destruct (hist_J buffer (linear K) s0 [] Hb Hlw) as (s' & E' & HJ' & G).
  unfold linear in E', HJ'. rewrite best_chain_linear, rev_involutive, app_nil_r in E', HJ'.
  exists s'. split; [exact E'|].
  destruct HJ' as (_ & _ & Hr').
  (* s and s' know the same contracts: s ~ s0 grows into s' *)
  destruct G as [G1 G2].
  split.
  - intros id c c' Ef Ef'.
    assert (Hng : neg1 c' = neg1 c).
    { assert (H : negof1 s' id = Some (neg1 c)) by (apply G1; rewrite S1; apply negof1_some; eauto).
      apply negof1_some in H. destruct H as (c2 & E2 & H2). congruence. }
    eapply heqv1_trans; [apply Hr; exact Ef|]. apply heqv1_sym. rewrite <- Hng. apply Hr'; exact Ef'.
  - intros id c c' Ef Ef'.
    assert (Hng : neg2 c' = neg2 c).
    { assert (H : negof2 s' id = Some (neg2 c)) by (apply G2; rewrite S2; apply negof2_some; eauto).
      apply negof2_some in H. destruct H as (c2 & E2 & H2). congruence. }
    eapply heqv2_trans; [apply Hr; exact Ef|]. apply heqv2_sym. rewrite <- Hng. apply Hr'; exact Ef'.
Qed.

(* connecting a valid block and disconnecting it again *)
Lemma disconnect_undoes_connect buffer s K b :
  J buffer s K -> bvalid buffer (negof1 s) (negof2 s) K b ->
  exists s'', hrun buffer [HBatch 0 [b]; HBatch 1 []] (s, K) = ROk (s'', K) /\
              same_contracts s s'' /\ rows_equivalent s s''.
Proof.
  intros HJ Hb.
  assert (W1 : wf_item buffer (s, K) (HBatch 0 [b])) by (cbn; split; [lia|split; [exact Hb|exact I]]).
  destruct (batch_J buffer s K 0 [b] HJ W1) as (s1 & E1 & HJ1 & N1 & N2). cbn [rev app skipn] in *.
  assert (W2 : wf_item buffer (s1, b :: K) (HBatch 1 [])) by (cbn; split; [lia|exact I]).
  destruct (batch_J buffer s1 (b :: K) 1 [] HJ1 W2) as (s2 & E2 & HJ2 & M1 & M2). cbn [rev app skipn] in *.
  exists s2. split; [|split].
  - unfold hrun. cbn [foldM]. rewrite E1. cbn [rbind]. rewrite E2. reflexivity.
  - split; intros id; [rewrite M1, N1|rewrite M2, N2]; reflexivity.
  - apply (agree_equiv buffer s s2 K).
    + right. split; intros id; [rewrite M1, N1|rewrite M2, N2]; reflexivity.
    + destruct HJ as (_ & _ & Hr); exact Hr.
    + destruct HJ2 as (_ & _ & Hr); exact Hr.
Qed.

(* reachable stores satisfy J *)
Lemma reachable_J buffer l :
  wf_hist buffer l (init, []) ->
  exists s, hrun buffer l (init, []) = ROk (s, best_chain l []) /\ J buffer s (best_chain l []).
Proof.
  intros Hwf. destruct (hist_J buffer l init [] (J_init buffer) Hwf) as (s & E & HJ & _). eauto.
Qed.

(* a rejected contract is an unconfirmed one; a confirmed contract is never pending or rejected *)
Lemma rejected_is_unconfirmed buffer s K :
  J buffer s K ->
  (forall id c, find1 id (cs1 s) = Some c ->
     (s1 c = Rejected \/ s1 c = Pending <-> formed c = false)) /\
  (forall id c, find2 id (cs2 s) = Some c ->
     (s2 c = R2 \/ s2 c = P2 <-> conf2 c = None)).
Proof.
  intros HJ. split.
  - intros id c Ef. destruct (row_facts1 _ _ _ _ _ HJ Ef) as (Hq & Hc & _).
    revert Hq Hc. generalize (spec1 buffer (neg1 c) id K). intros x. unfold heqv1, cinv1.
    c1d c; h1 x; crush.
  - intros id c Ef. destruct (row_facts2 _ _ _ _ _ HJ Ef) as (Hq & Hc & _).
    revert Hq Hc. generalize (spec2 buffer (neg2 c) id K). intros x. unfold heqv2, cinv2.
    c2d c; h2 x; crush.
Qed.

(** * rejection is complete at applied blocks *)
Lemma fw1_pre {A} (key : A -> N) (g : A -> c1 -> rs (c1 * list mop)) l : forall s s',
  (forall a, row_ok1 (g a)) -> NoDup (map key l) ->
  foldM (fun s a => with1 (key a) (g a) s) l s = ROk s' ->
  forall a, In a l -> exists c r, find1 (key a) (cs1 s) = Some c /\ g a c = ROk r.
Proof.
  induction l as [|a0 t IH]; intros s s' Hg Hnd E a Hin; [destruct Hin|].
  inversion Hnd as [|? ? Ha Ht]; subst. cbn [foldM] in E.
  destruct (with1 (key a0) (g a0) s) as [s1| |] eqn:E1; cbn in E; try discriminate.
  unfold with1 in E1. destruct (find1 (key a0) (cs1 s)) as [c0|] eqn:Ef0; [|discriminate].
  destruct (g a0 c0) as [r0| |] eqn:Er0; cbn in E1; try discriminate.
  destruct (mapply (snd r0) (mets s)); cbn in E1; try discriminate. injection E1 as <-.
  destruct Hin as [<-|Hin]; [eauto|].
  destruct (IH _ _ Hg Ht E a Hin) as (c & r & Ef & Er). cbn in Ef.
  exists c, r. split; [|exact Er].
  destruct (find1_in_ids _ _ _ Ef0) as [Hin0 Hk0].
  pose proof (row_ok1_id _ _ _ (Hg a0) Er0) as Hid.
  rewrite find1_repl in Ef by (rewrite Hid, Hk0; exact Hin0).
  destruct (key a =? id1 (fst r0)) eqn:Ek; [|exact Ef].
  exfalso. apply Ha. assert (key a0 = key a) as -> by lia. apply in_map; exact Hin.
Qed.

Lemma each1_cs2 f ids : forall s s', each1 f ids s = ROk s' -> cs2 s' = cs2 s.
Proof.
  unfold each1. induction ids as [|a t IH]; intros s s' E; cbn in E; [congruence|].
  destruct (with1 a f s) as [sB| |] eqn:E2; cbn in E; try discriminate.
  rewrite (IH sB s' E). unfold with1 in E2. destruct (find1 a (cs1 s)); [|discriminate].
  destruct (f c); cbn in E2; try discriminate. destruct (mapply _ _); cbn in E2; try discriminate.
  injection E2 as <-. reflexivity.
Qed.
Lemma each2_cs1 f ids : forall s s', each2 f ids s = ROk s' -> cs1 s' = cs1 s.
Proof.
  unfold each2. induction ids as [|a t IH]; intros s s' E; cbn in E; [congruence|].
  destruct (with2 a f s) as [sB| |] eqn:E2; cbn in E; try discriminate.
  rewrite (IH sB s' E). unfold with2 in E2. destruct (find2 a (cs2 s)); [|discriminate].
  destruct (f c); cbn in E2; try discriminate. destruct (mapply _ _); cbn in E2; try discriminate.
  injection E2 as <-. reflexivity.
Qed.

Lemma reject_complete1 hm s s' :
  Inv s -> reject_contracts hm s = ROk s' ->
  forall id c, find1 id (cs1 s') = Some c -> formed c = false -> neg1 c <? hm = true -> s1 c = Rejected.
Proof.
  intros Hs E id c' Ef' Hf Hn. pose proof Hs as (Hnd1 & _ & _).
  unfold reject_contracts in E.
  destruct (each1 rej1 _ s) as [sA| |] eqn:E1; cbn in E; try discriminate.
  set (ids1 := map id1 (filter (q_rej1 hm) (cs1 s))) in *.
  assert (Hn1 : NoDup (map (fun id : N => id) ids1)) by (rewrite map_id; apply NoDup_map_filter; exact Hnd1).
  pose proof (fw1_pre (fun id : N => id) (fun _ => rej1) ids1 s sA (fun _ => rej1_ok) Hn1 E1) as Hpre.
  destruct (fw1_spec _ (fun id : N => id) (fun _ => rej1) (fun _ => rej1_ok) ids1 s Hs Hn1 Hpre) as (sA' & E1' & HsA & Hc2 & Hf1).
  unfold each1 in E1. assert (sA' = sA) as -> by congruence.
  (* the v2 part does not touch v1 rows *)
  assert (Hcs : cs1 s' = cs1 sA) by (eapply each2_cs1; exact E).
  rewrite Hcs, Hf1 in Ef'. destruct (find1 id (cs1 s)) as [c|] eqn:Ef; [|discriminate].
  injection Ef' as <-. unfold updl1 in *.
  destruct (find1_in_ids _ _ _ Ef) as [_ Hid]. pose proof (findk_in _ _ _ _ _ Ef) as Hin.
  destruct (q_rej1 hm c) eqn:Hq.
  - rewrite (find_id_in ids1 (id1 c)) in * by (unfold ids1; apply in_map; apply filter_In; auto).
    destruct (Hpre (id1 c)) as (c2 & r & Ef2 & Er).
    { unfold ids1. apply in_map. apply filter_In; auto. }
    rewrite Hid, Ef in Ef2. injection Ef2 as <-. rewrite Er in *. cbn [fstok] in *.
    destruct (rej1_proj _ _ Er) as [A _]. change (h_st (proj1 (fst r)) = Rejected). rewrite A. reflexivity.
  - destruct (find (fun a : N => a =? id1 c) ids1) eqn:Efd.
    + exfalso. apply find_some in Efd. destruct Efd as [Hi He]. assert (n = id1 c) as -> by lia.
      unfold ids1 in Hi. apply in_map_iff in Hi. destruct Hi as (c2 & Hc2' & Hf2).
      apply filter_In in Hf2. destruct Hf2 as [Hin2 Hq2].
      pose proof (find1_of_in _ _ Hnd1 Hin2) as E2. rewrite Hc2', Hid, Ef in E2. congruence.
    + unfold q_rej1 in Hq. rewrite Hf, Hn in Hq. cbn in Hq.
      destruct (s1 c); cbn in *; try discriminate; reflexivity.
Qed.

Lemma fw2_pre {A} (key : A -> N) (g : A -> c2 -> rs (c2 * list mop)) l : forall s s',
  (forall a, row_ok2 (g a)) -> NoDup (map key l) ->
  foldM (fun s a => with2 (key a) (g a) s) l s = ROk s' ->
  forall a, In a l -> exists c r, find2 (key a) (cs2 s) = Some c /\ g a c = ROk r.
Proof.
  induction l as [|a0 t IH]; intros s s' Hg Hnd E a Hin; [destruct Hin|].
  inversion Hnd as [|? ? Ha Ht]; subst. cbn [foldM] in E.
  destruct (with2 (key a0) (g a0) s) as [sA| |] eqn:E1; cbn in E; try discriminate.
  unfold with2 in E1. destruct (find2 (key a0) (cs2 s)) as [c0|] eqn:Ef0; [|discriminate].
  destruct (g a0 c0) as [r0| |] eqn:Er0; cbn in E1; try discriminate.
  destruct (mapply (snd r0) (mets s)); cbn in E1; try discriminate. injection E1 as <-.
  destruct Hin as [<-|Hin]; [eauto|].
  destruct (IH _ _ Hg Ht E a Hin) as (c & r & Ef & Er). cbn in Ef.
  exists c, r. split; [|exact Er].
  destruct (find2_in_ids _ _ _ Ef0) as [Hin0 Hk0].
  pose proof (row_ok2_id _ _ _ (Hg a0) Er0) as Hid.
  rewrite find2_repl in Ef by (rewrite Hid, Hk0; exact Hin0).
  destruct (key a =? id2 (fst r0)) eqn:Ek; [|exact Ef].
  exfalso. apply Ha. assert (key a0 = key a) as -> by lia. apply in_map; exact Hin.
Qed.

Lemma reject_complete2 hm s s' :
  Inv s -> reject_contracts hm s = ROk s' ->
  forall id c, find2 id (cs2 s') = Some c -> conf2 c = None -> neg2 c <? hm = true -> s2 c = R2.
Proof.
  intros Hs E id c' Ef' Hf Hn. pose proof Hs as (_ & Hnd2 & _).
  unfold reject_contracts in E.
  destruct (each1 rej1 _ s) as [sA| |] eqn:E1; cbn in E; try discriminate.
  assert (HsA : Inv sA).
  { pose proof (each1_good rej1 (map id1 (filter (q_rej1 hm) (cs1 s))) s rej1_ok Hs) as H.
    unfold good in H. rewrite E1 in H. exact H. }
  assert (Hcs : cs2 sA = cs2 s) by (eapply each1_cs2; exact E1).
  set (ids2 := map id2 (filter (q_rej2 hm) (cs2 s))) in *.
  assert (Hn2 : NoDup (map (fun id : N => id) ids2)) by (rewrite map_id; apply NoDup_map_filter; exact Hnd2).
  pose proof (fw2_pre (fun id : N => id) (fun _ => rej2) ids2 sA s' (fun _ => rej2_ok) Hn2 E) as Hpre.
  destruct (fw2_spec _ (fun id : N => id) (fun _ => rej2) (fun _ => rej2_ok) ids2 sA HsA Hn2 Hpre) as (sB & EB & HsB & Hc1 & Hf2).
  unfold each2 in E. assert (sB = s') as -> by congruence.
  rewrite Hf2, Hcs in Ef'. destruct (find2 id (cs2 s)) as [c|] eqn:Ef; [|discriminate].
  injection Ef' as <-. unfold updl2 in *.
  destruct (find2_in_ids _ _ _ Ef) as [_ Hid]. pose proof (findk_in _ _ _ _ _ Ef) as Hin.
  destruct (q_rej2 hm c) eqn:Hq.
  - rewrite (find_id_in ids2 (id2 c)) in * by (unfold ids2; apply in_map; apply filter_In; auto).
    destruct (Hpre (id2 c)) as (c2 & r & Ef2 & Er).
    { unfold ids2. apply in_map. apply filter_In; auto. }
    rewrite Hcs, Hid, Ef in Ef2. injection Ef2 as <-. rewrite Er in *. cbn [fstok] in *.
    destruct (rej2_proj _ _ Er) as [A _]. change (g_st (proj2 (fst r)) = R2). rewrite A. reflexivity.
  - destruct (find (fun a : N => a =? id2 c) ids2) eqn:Efd.
    + exfalso. apply find_some in Efd. destruct Efd as [Hi He]. assert (n = id2 c) as -> by lia.
      unfold ids2 in Hi. apply in_map_iff in Hi. destruct Hi as (c2 & Hc2' & Hf2').
      apply filter_In in Hf2'. destruct Hf2' as [Hin2 Hq2].
      pose proof (find2_of_in _ _ Hnd2 Hin2) as E2. rewrite Hc2', Hid, Ef in E2. congruence.
    + unfold q_rej2 in Hq. rewrite Hf, Hn in Hq. cbn in Hq.
      destruct (s2 c); cbn in *; try discriminate; reflexivity.
Qed.

Lemma chain_update_last revs apps last s s' :
  Inv s -> chain_update revs (apps ++ [last]) s = ROk s' ->
  exists sA, Inv sA /\ apply_block last sA = ROk s'.
Proof.
  intros Hs E. unfold chain_update in E.
  destruct (foldM (fun s b => revert_block b s) revs s) as [s0| |] eqn:E0; cbn in E; try discriminate.
  assert (Hs0 : Inv s0).
  { pose proof (foldM_good (fun s b => revert_block b s) Inv (eq PNegStat)
                  (fun s b H => revert_block_good b s H) revs s Hs) as H. rewrite E0 in H. exact H. }
  rewrite foldM_app in E.
  destruct (foldM (fun s b => apply_block b s) apps s0) as [sA| |] eqn:E1; cbn in E; try discriminate.
  assert (Hs1 : Inv sA).
  { pose proof (foldM_good (fun s b => apply_block b s) Inv (eq PNegStat)
                  (fun s b H => apply_block_good b s H) apps s0 Hs0) as H. rewrite E1 in H. exact H. }
  exists sA. split; [exact Hs1|].
  destruct (apply_block last sA); cbn in E; congruence.
Qed.

Lemma rejection_complete_v1 s revs apps i ch hm s' :
  Inv s -> exec (Chain revs (apps ++ [(i, ch, Some hm)])) s = ROk s' ->
  forall id c, find1 id (cs1 s') = Some c -> formed c = false -> neg1 c <? hm = true -> s1 c = Rejected.
Proof.
  intros Hs E. cbn [exec] in E.
  destruct (chain_update_last _ _ _ _ _ Hs E) as (sA & Hs1 & E1).
  unfold apply_block in E1.
  destruct (apply_contracts i ch sA) as [sB| |] eqn:E2; cbn in E1; try discriminate.
  assert (Hs2 : Inv sB).
  { pose proof (apply_contracts_good i ch sA Hs1) as H. unfold good in H. rewrite E2 in H. exact H. }
  apply (reject_complete1 hm sB s' Hs2 E1).
Qed.

Lemma rejection_complete_v2 s revs apps i ch hm s' :
  Inv s -> exec (Chain revs (apps ++ [(i, ch, Some hm)])) s = ROk s' ->
  forall id c, find2 id (cs2 s') = Some c -> conf2 c = None -> neg2 c <? hm = true -> s2 c = R2.
Proof.
  intros Hs E. cbn [exec] in E.
  destruct (chain_update_last _ _ _ _ _ Hs E) as (sA & Hs1 & E1).
  unfold apply_block in E1.
  destruct (apply_contracts i ch sA) as [sB| |] eqn:E2; cbn in E1; try discriminate.
  assert (Hs2 : Inv sB).
  { pose proof (apply_contracts_good i ch sA Hs1) as H. unfold good in H. rewrite E2 in H. exact H. }
  apply (reject_complete2 hm sB s' Hs2 E1).
Qed.

(** * statements over reachable stores *)
Definition reachable (buffer : N) (s : state) (K : list block) : Prop :=
  exists l, wf_hist buffer l (init, []) /\ hrun buffer l (init, []) = ROk (s, K).

Lemma reachable_is_J buffer s K : reachable buffer s K -> J buffer s K.
Proof.
  intros (l & Hwf & E). destruct (reachable_J buffer l Hwf) as (s' & E' & HJ).
  rewrite E in E'. injection E' as E1 E2. rewrite E1, E2. exact HJ.
Qed.

Lemma reachable_agrees buffer s K : reachable buffer s K -> agrees_with_chain buffer s K.
Proof. intros H. apply reachable_is_J in H. destruct H as (_ & _ & Hr). exact Hr. Qed.

Lemma reachable_consistent buffer s K : reachable buffer s K -> Inv s.
Proof. intros H. apply reachable_is_J in H. apply H. Qed.

Lemma reachable_continue buffer s K l :
  reachable buffer s K -> wf_hist buffer l (s, K) ->
  exists s', hrun buffer l (s, K) = ROk (s', best_chain l K) /\ reachable buffer s' (best_chain l K).
Proof.
  intros Hr Hwf. pose proof (reachable_is_J _ _ _ Hr) as HJ.
  destruct (hist_J buffer l s K HJ Hwf) as (s' & E & _ & _).
  exists s'. split; [exact E|]. destruct Hr as (l0 & Hwf0 & E0).
  exists (l0 ++ l). unfold hrun in *. rewrite foldM_app, E0. cbn [rbind]. split; [|exact E].
  clear - Hwf0 E0 Hwf. revert Hwf0 E0. generalize (init, @nil block). induction l0 as [|it t IH]; intros sS Hw E0.
  - cbn in E0. injection E0 as ->. exact Hwf.
  - cbn [app wf_hist] in *. destruct Hw as [Hit Hrest]. split; [exact Hit|].
    cbn [foldM] in E0. destruct (hexec buffer sS it) as [sS'| |]; cbn in E0; try discriminate.
    apply IH; assumption.
Qed.

Lemma reachable_disconnect_undoes_connect buffer s K b :
  reachable buffer s K -> bvalid buffer (negof1 s) (negof2 s) K b ->
  exists s'', hrun buffer [HBatch 0 [b]; HBatch 1 []] (s, K) = ROk (s'', K) /\
              same_contracts s s'' /\ rows_equivalent s s''.
Proof. intros H. apply disconnect_undoes_connect. apply reachable_is_J; exact H. Qed.

Lemma reachable_rejected_is_unconfirmed buffer s K :
  reachable buffer s K ->
  (forall id c, find1 id (cs1 s) = Some c -> (s1 c = Rejected \/ s1 c = Pending <-> formed c = false)) /\
  (forall id c, find2 id (cs2 s) = Some c -> (s2 c = R2 \/ s2 c = P2 <-> conf2 c = None)).
Proof. intros H. eapply rejected_is_unconfirmed. apply reachable_is_J; exact H. Qed.

(** * wrappers in the exact form of Props_C01.v *)
Lemma rejection_complete_v1_run (l : list op) revs apps i ch hm s' :
  exec (Chain revs (apps ++ [(i, ch, Some hm)])) (run init step l) = ROk s' ->
  forall id c, find1 id (cs1 s') = Some c -> formed c = false -> neg1 c <? hm = true -> s1 c = Rejected.
Proof. apply rejection_complete_v1, run_inv. Qed.
Lemma rejection_complete_v2_run (l : list op) revs apps i ch hm s' :
  exec (Chain revs (apps ++ [(i, ch, Some hm)])) (run init step l) = ROk s' ->
  forall id c, find2 id (cs2 s') = Some c -> conf2 c = None -> neg2 c <? hm = true -> s2 c = R2.
Proof. apply rejection_complete_v2, run_inv. Qed.

Lemma inverse_v1 (h : N) (e : pev1) (x : ch1) :
  cinv1 x -> valid1 e x ->
  heqv1 (rspec_ev1 e (spec_ev1 h e x)) x /\ (h_st x <> Rejected -> rspec_ev1 e (spec_ev1 h e x) = x).
Proof. intros c v. split; [apply inverse1|apply inverse1_exact]; assumption. Qed.
Lemma inverse_v2 (i : idx) (e : pev2) (x : ch2) :
  cinv2 x -> valid2 e x ->
  heqv2 (rspec_ev2 e (spec_ev2 i e x)) x /\ (g_st x <> R2 -> rspec_ev2 e (spec_ev2 i e x) = x).
Proof. intros c v. split; [apply inverse2|apply inverse2_exact]; assumption. Qed.

(* ... and for everything one block carries for one contract, processed and un-processed in the
   order of ApplyContracts / RevertContracts *)
Lemma inverse_block_v1 (h : N) (l : list pev1) (x : ch1) :
  cinv1 x -> shape1 l -> valid_evs1 h l x ->
  heqv1 (rspec_evs1 (rorder1 l) (spec_evs1 h l x)) x /\
  (h_st x <> Rejected -> rspec_evs1 (rorder1 l) (spec_evs1 h l x) = x).
Proof. intros c sh v. split; [apply inverse1_evs|apply inverse1_evs_exact]; assumption. Qed.
Lemma inverse_block_v2 (i : idx) (l : list pev2) (x : ch2) :
  cinv2 x -> shape2 l -> valid_evs2 i l x ->
  heqv2 (rspec_evs2 l (spec_evs2 i l x)) x /\ (g_st x <> R2 -> rspec_evs2 l (spec_evs2 i l x) = x).
Proof. intros c sh v. split; [apply inverse2_evs|apply inverse2_evs_exact]; assumption. Qed.

(** * several changes of one contract in one block *)

(* after connecting a valid block, a contract the block mentions carries exactly what its changes
   make of the chain's columns (it is confirmed, so there is no rejection slack) *)
Lemma connect_mentioned_v1 buffer s K b id c :
  J buffer s K -> bvalid buffer (negof1 s) (negof2 s) K b ->
  find1 id (cs1 s) = Some c -> evl1_of id b <> [] ->
  exists s' c', hrun buffer [HBatch 0 [b]] (s, K) = ROk (s', b :: K) /\ J buffer s' (b :: K) /\
    find1 id (cs1 s') = Some c' /\ neg1 c' = neg1 c /\
    valid_evs1 (bheight b) (evl1_of id b) (spec1 buffer (neg1 c) id K) /\
    heqv1 (proj1 c) (spec1 buffer (neg1 c) id K) /\ cinv1 (spec1 buffer (neg1 c) id K) /\
    proj1 c' = spec_evs1 (bheight b) (evl1_of id b) (spec1 buffer (neg1 c) id K).
Proof.
  intros HJ Hb Ef Ev.
  assert (W : wf_item buffer (s, K) (HBatch 0 [b])) by (cbn; split; [lia|split; [exact Hb|exact I]]).
  destruct (batch_J buffer s K 0 [b] HJ W) as (s' & E & HJ' & N1 & N2). cbn [rev app skipn] in *.
  destruct (row_facts1 _ _ _ _ _ HJ Ef) as (Hq & Hc & Hid & Hng).
  assert (Hn' : negof1 s' id = Some (neg1 c)) by (rewrite N1; exact Hng).
  apply negof1_some in Hn'. destruct Hn' as (c' & Ef' & Hneg).
  destruct Hb as (_ & V1 & _). destruct (V1 id Ev) as (ng & Hn & Hv). assert (ng = neg1 c) as -> by congruence.
  exists s', c'. split; [unfold hrun; cbn [foldM]; rewrite E; reflexivity|].
  split; [exact HJ'|]. split; [exact Ef'|]. split; [exact Hneg|]. split; [exact Hv|]. split; [exact Hq|]. split; [exact Hc|].
  destruct (row_facts1 _ _ _ _ _ HJ' Ef') as (Hq' & _ & _ & _). rewrite Hneg, spec1_cons in Hq'.
  rewrite (spec_block1_some _ _ _ _ _ Ev Hc Hv) in Hq'.
  apply (heqv1_formed_eq _ _ Hq'). apply formed_after_evs1; assumption.
Qed.
Lemma connect_mentioned_v2 buffer s K b id c :
  J buffer s K -> bvalid buffer (negof1 s) (negof2 s) K b ->
  find2 id (cs2 s) = Some c -> evl2_of id b <> [] ->
  exists s' c', hrun buffer [HBatch 0 [b]] (s, K) = ROk (s', b :: K) /\ J buffer s' (b :: K) /\
    find2 id (cs2 s') = Some c' /\ neg2 c' = neg2 c /\
    valid_evs2 (bidx b) (evl2_of id b) (spec2 buffer (neg2 c) id K) /\
    heqv2 (proj2 c) (spec2 buffer (neg2 c) id K) /\ cinv2 (spec2 buffer (neg2 c) id K) /\
    proj2 c' = spec_evs2 (bidx b) (evl2_of id b) (spec2 buffer (neg2 c) id K).
Proof.
  intros HJ Hb Ef Ev.
  assert (W : wf_item buffer (s, K) (HBatch 0 [b])) by (cbn; split; [lia|split; [exact Hb|exact I]]).
  destruct (batch_J buffer s K 0 [b] HJ W) as (s' & E & HJ' & N1 & N2). cbn [rev app skipn] in *.
  destruct (row_facts2 _ _ _ _ _ HJ Ef) as (Hq & Hc & Hid & Hng).
  assert (Hn' : negof2 s' id = Some (neg2 c)) by (rewrite N2; exact Hng).
  apply negof2_some in Hn'. destruct Hn' as (c' & Ef' & Hneg).
  destruct Hb as (_ & _ & V2). destruct (V2 id Ev) as (ng & Hn & Hv). assert (ng = neg2 c) as -> by congruence.
  exists s', c'. split; [unfold hrun; cbn [foldM]; rewrite E; reflexivity|].
  split; [exact HJ'|]. split; [exact Ef'|]. split; [exact Hneg|]. split; [exact Hv|]. split; [exact Hq|]. split; [exact Hc|].
  destruct (row_facts2 _ _ _ _ _ HJ' Ef') as (Hq' & _ & _ & _). rewrite Hneg, spec2_cons in Hq'.
  rewrite (spec_block2_some _ _ _ _ _ Ev Hc Hv) in Hq'.
  apply (heqv2_formed_eq _ _ Hq'). apply formed_after_evs2; assumption.
Qed.

Definition res_status (e : pev2) : st2 :=
  match e with PSucc2 => S2 | PRen2 => N2 | PFail2 => F2 | _ => A2 end.

(* a v2 contract revised AND resolved in one block: both are recorded — the contract is resolved
   at that block and its confirmed revision is the revised one *)
Lemma same_block_revision_and_resolution buffer s K b id c o n e :
  J buffer s K -> bvalid buffer (negof1 s) (negof2 s) K b ->
  find2 id (cs2 s) = Some c -> evl2_of id b = [PRev2 o n; e] -> is_res2 e = true ->
  exists s' c', hrun buffer [HBatch 0 [b]] (s, K) = ROk (s', b :: K) /\ J buffer s' (b :: K) /\
    find2 id (cs2 s') = Some c' /\
    s2 c' = res_status e /\ res2 c' = Some (bidx b) /\ elem2 c' = Some n /\ conf2 c' = conf2 c.
Proof.
  intros HJ Hb Ef Ev He.
  destruct (connect_mentioned_v2 buffer s K b id c HJ Hb Ef) as (s' & c' & E & HJ' & Ef' & _ & Hv & Hq & Hc & Hp).
  { rewrite Ev; discriminate. }
  exists s', c'. split; [exact E|]. split; [exact HJ'|]. split; [exact Ef'|].
  rewrite Ev in Hv, Hp. revert Hv Hq Hc Hp. generalize (spec2 buffer (neg2 c) id K). intros x.
  unfold heqv2, cinv2. change (conf2 c) with (g_conf (proj2 c)).
  change (s2 c') with (g_st (proj2 c')). change (res2 c') with (g_res (proj2 c')). change (elem2 c') with (g_elem (proj2 c')).
  change (conf2 c') with (g_conf (proj2 c')). generalize (proj2 c) (proj2 c'). intros y y' Hv Hq Hc ->.
  destruct e; try discriminate; h2 x; h2 y; crush.
Qed.

(* a v1 formation whose element carries revision k (revisions confirmed in the block of the
   formation): the contract is active and k is its confirmed revision *)
Lemma formation_with_folded_revision buffer s K b id c k :
  J buffer s K -> bvalid buffer (negof1 s) (negof2 s) K b ->
  find1 id (cs1 s) = Some c -> evl1_of id b = [PForm1; PRev1 0 k] ->
  exists s' c', hrun buffer [HBatch 0 [b]] (s, K) = ROk (s', b :: K) /\ J buffer s' (b :: K) /\
    find1 id (cs1 s') = Some c' /\
    s1 c' = Active /\ formed c' = true /\ confRev c' = k /\ resH c' = None.
Proof.
  intros HJ Hb Ef Ev.
  destruct (connect_mentioned_v1 buffer s K b id c HJ Hb Ef) as (s' & c' & E & HJ' & Ef' & _ & Hv & Hq & Hc & Hp).
  { rewrite Ev; discriminate. }
  exists s', c'. split; [exact E|]. split; [exact HJ'|]. split; [exact Ef'|].
  rewrite Ev in Hv, Hp. revert Hv Hq Hc Hp. generalize (spec1 buffer (neg1 c) id K). intros x.
  unfold heqv1, cinv1.
  change (s1 c') with (h_st (proj1 c')). change (formed c') with (h_formed (proj1 c')).
  change (confRev c') with (h_conf (proj1 c')). change (resH c') with (h_res (proj1 c')).
  generalize (proj1 c) (proj1 c'). intros y y' Hv Hq Hc ->.
  h1 x; h1 y; crush.
Qed.

Definition res_status1 (e : pev1) : st1 := match e with PSucc1 => Successful | PFail1 => Failed | _ => Active end.
Definition is_res1 (e : pev1) : bool := match e with PSucc1 | PFail1 => true | _ => false end.

(* a v1 contract formed AND resolved in one block (its formation confirmed in the block at its
   window start, together with a storage proof): formation, revision and resolution are recorded *)
Lemma formation_and_resolution_same_block buffer s K b id c k e :
  J buffer s K -> bvalid buffer (negof1 s) (negof2 s) K b ->
  find1 id (cs1 s) = Some c -> evl1_of id b = [PForm1; PRev1 0 k; e] -> is_res1 e = true ->
  exists s' c', hrun buffer [HBatch 0 [b]] (s, K) = ROk (s', b :: K) /\ J buffer s' (b :: K) /\
    find1 id (cs1 s') = Some c' /\
    s1 c' = res_status1 e /\ formed c' = true /\ confRev c' = k /\
    resH c' = (match e with PSucc1 => Some (bheight b) | _ => None end).
Proof.
  intros HJ Hb Ef Ev He.
  destruct (connect_mentioned_v1 buffer s K b id c HJ Hb Ef) as (s' & c' & E & HJ' & Ef' & _ & Hv & Hq & Hc & Hp).
  { rewrite Ev; discriminate. }
  exists s', c'. split; [exact E|]. split; [exact HJ'|]. split; [exact Ef'|].
  rewrite Ev in Hv, Hp. revert Hv Hq Hc Hp. generalize (spec1 buffer (neg1 c) id K). intros x.
  unfold heqv1, cinv1.
  change (s1 c') with (h_st (proj1 c')). change (formed c') with (h_formed (proj1 c')).
  change (confRev c') with (h_conf (proj1 c')). change (resH c') with (h_res (proj1 c')).
  generalize (proj1 c) (proj1 c'). intros y y' Hv Hq Hc ->.
  destruct e; try discriminate; h1 x; h1 y; crush.
Qed.
Lemma reachable_formation_and_resolution_same_block buffer s K b id c k e :
  reachable buffer s K -> bvalid buffer (negof1 s) (negof2 s) K b ->
  find1 id (cs1 s) = Some c -> evl1_of id b = [PForm1; PRev1 0 k; e] -> is_res1 e = true ->
  exists s' c', hrun buffer [HBatch 0 [b]] (s, K) = ROk (s', b :: K) /\ J buffer s' (b :: K) /\
    find1 id (cs1 s') = Some c' /\
    s1 c' = res_status1 e /\ formed c' = true /\ confRev c' = k /\
    resH c' = (match e with PSucc1 => Some (bheight b) | _ => None end).
Proof. intros H. apply formation_and_resolution_same_block. apply reachable_is_J; exact H. Qed.

Lemma reachable_same_block_revision_and_resolution buffer s K b id c o n e :
  reachable buffer s K -> bvalid buffer (negof1 s) (negof2 s) K b ->
  find2 id (cs2 s) = Some c -> evl2_of id b = [PRev2 o n; e] -> is_res2 e = true ->
  exists s' c', hrun buffer [HBatch 0 [b]] (s, K) = ROk (s', b :: K) /\ J buffer s' (b :: K) /\
    find2 id (cs2 s') = Some c' /\
    s2 c' = res_status e /\ res2 c' = Some (bidx b) /\ elem2 c' = Some n /\ conf2 c' = conf2 c.
Proof. intros H. apply same_block_revision_and_resolution. apply reachable_is_J; exact H. Qed.
Lemma reachable_formation_with_folded_revision buffer s K b id c k :
  reachable buffer s K -> bvalid buffer (negof1 s) (negof2 s) K b ->
  find1 id (cs1 s) = Some c -> evl1_of id b = [PForm1; PRev1 0 k] ->
  exists s' c', hrun buffer [HBatch 0 [b]] (s, K) = ROk (s', b :: K) /\ J buffer s' (b :: K) /\
    find1 id (cs1 s') = Some c' /\
    s1 c' = Active /\ formed c' = true /\ confRev c' = k /\ resH c' = None.
Proof. intros H. apply formation_with_folded_revision. apply reachable_is_J; exact H. Qed.

(* a concrete well-formed history (non-vacuity) *)
Definition demo : list item :=
  let b1 := mkB (1, 1) [] [] [] [] [] [] [] [] [] in
  let b2 := mkB (2, 2) [1] [] [] [] [(1, 0)] [] [] [] [] in
  let b3 := mkB (3, 3) [] [(1, 0, 4)] [] [] [] [(1, 0, 7)] [] [] [] in
  let b4 := mkB (4, 4) [] [] [1] [] [] [] [] [1] [] in
  let b3' := mkB (3, 5) [] [(1, 0, 5)] [] [] [] [] [] [] [] in
  let b4' := mkB (4, 6) [] [] [] [1] [] [(1, 0, 2)] [] [] [] in
  let b5' := mkB (5, 7) [] [] [] [] [] [] [1] [] [] in
  [HBatch 0 [b1];
   HOp (AddV1 1 1 10 1 (mkU 1 2 3 4 5 6 0 7)); HOp (AddV2 1 1 20 1 (mkU 1 1 1 1 0 0 0 1));
   HOp (AddV1 2 1 10 1 uzero);
   HBatch 0 [b2]; HOp (Revise1 1 4 (mkU 1 0 0 0 0 0 0 0)); HBatch 0 [b3; b4];
   HBatch 2 [b3'; b4'; b5']; HRescan; HBatch 1 []].

Lemma demo_ok :
  wf_hist 1 demo (init, []) /\
  match hrun 1 demo (init, []) with
  | ROk (s, K) => map (fun c => (s1 c, formed c, confRev c, resH c)) (cs1 s)
                  = [(Failed, true, 5, None); (Rejected, false, 0, None)]
                  /\ map (fun c => (s2 c, elem2 c)) (cs2 s) = [(A2, Some 2)]
                  /\ length K = 4%nat
  | _ => False
  end.
Proof. split; [apply wf_histb_sound; vm_compute; reflexivity | vm_compute; repeat split; reflexivity]. Qed.
