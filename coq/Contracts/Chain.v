(* Contracts/Chain.v — blocks, best chains and histories; the per-contract specification of
   "what processing the blocks of a chain, in order, gives" (C01).  Definitions only.

   A block is what contracts.Manager.UpdateChainState extracts from a consensus update for the
   host's contracts: per contract at most one change (buildContractState emits exactly one
   StateChanges entry per element diff) — confirmed / revised (with the revision number before
   and after) / successful (storage proof, or expired with missed >= valid payout) / failed /
   v2 renewed.  [changes_of false b] is the StateChanges passed to ApplyContracts,
   [changes_of true b] the one passed to RevertContracts (buildContractState puts the
   PREVIOUS revision into Revised when reverting). *)
From HostdBase Require Import Base.
From HostdContracts Require Import Model.
Local Open Scope N_scope.

Record block := mkB {
  bidx : idx;
  bConf1 : list N;
  bRev1 : list (N * N * N);      (* id, revision number before, after *)
  bSucc1 : list N;
  bFail1 : list N;
  bConf2 : list (N * N);         (* id, revision number of the confirmed element *)
  bRev2 : list (N * N * N);
  bSucc2 : list N;
  bRen2 : list N;
  bFail2 : list N }.

Definition bheight (b : block) : N := fst (bidx b).

Definition rev_entry (revert : bool) (t : N * N * N) : N * N :=
  (fst (fst t), if revert then snd (fst t) else snd t).

Definition changes_of (revert : bool) (b : block) : changes :=
  mkCh (bConf1 b) (map (rev_entry revert) (bRev1 b)) (bSucc1 b) (bFail1 b)
       (bConf2 b) (map (rev_entry revert) (bRev2 b)) (bSucc2 b) (bRen2 b) (bFail2 b).

(* Manager.UpdateChainState: RejectContracts(height - rejectBuffer) when height >= rejectBuffer *)
Definition rej_arg (buffer h : N) : option N := if buffer <=? h then Some (h - buffer) else None.

Definition app_of (buffer : N) (b : block) : idx * changes * option N :=
  (bidx b, changes_of false b, rej_arg buffer (bheight b)).
Definition rev_of (b : block) : idx * changes := (bidx b, changes_of true b).

(** * what a block does to one contract *)
Inductive pev1 := PForm1 | PRev1 (o n : N) | PSucc1 | PFail1.
Inductive pev2 := PForm2 (r : N) | PRev2 (o n : N) | PSucc2 | PRen2 | PFail2.

(* the changes of a block in the order ApplyContracts / RevertContracts go through them *)
Definition evs1 (b : block) : list (N * pev1) :=
  map (fun id => (id, PForm1)) (bConf1 b)
  ++ map (fun t => (fst (fst t), PRev1 (snd (fst t)) (snd t))) (bRev1 b)
  ++ map (fun id => (id, PSucc1)) (bSucc1 b)
  ++ map (fun id => (id, PFail1)) (bFail1 b).
Definition evs2 (b : block) : list (N * pev2) :=
  map (fun p => (fst p, PForm2 (snd p))) (bConf2 b)
  ++ map (fun t => (fst (fst t), PRev2 (snd (fst t)) (snd t))) (bRev2 b)
  ++ map (fun id => (id, PSucc2)) (bSucc2 b)
  ++ map (fun id => (id, PRen2)) (bRen2 b)
  ++ map (fun id => (id, PFail2)) (bFail2 b).

(* the contracts a block mentions; a block mentions a contract at most once *)
Definition ids1_of (b : block) : list N := map fst (evs1 b).
Definition ids2_of (b : block) : list N := map fst (evs2 b).

Definition ev1_of (id : N) (b : block) : option pev1 :=
  option_map snd (find (fun p => fst p =? id) (evs1 b)).
Definition ev2_of (id : N) (b : block) : option pev2 :=
  option_map snd (find (fun p => fst p =? id) (evs2 b)).

(** * chain columns of a row *)
Record ch1 := mkH1 { h_st : st1; h_formed : bool; h_conf : N; h_res : option N }.
Record ch2 := mkH2 { g_st : st2; g_conf : option idx; g_res : option idx; g_elem : option N }.
Definition proj1 (c : c1) : ch1 := mkH1 (s1 c) (formed c) (confRev c) (resH c).
Definition proj2 (c : c2) : ch2 := mkH2 (s2 c) (conf2 c) (res2 c) (elem2 c).
Definition fresh_h1 : ch1 := mkH1 Pending false 0 None.
Definition fresh_h2 : ch2 := mkH2 P2 None None None.

(* processing one change (the chain-column part of the apply* helpers, including their
   "skipping rescan state transition" branches) *)
Definition spec_ev1 (h : N) (e : pev1) (x : ch1) : ch1 :=
  match e with
  | PForm1 => match h_st x with
              | Pending | Rejected => mkH1 Active true (h_conf x) (h_res x)
              | _ => x
              end
  | PRev1 _ n => mkH1 (h_st x) (h_formed x) n (h_res x)
  | PSucc1 => match h_st x with
              | Active | Failed => mkH1 Successful (h_formed x) (h_conf x) (Some h)
              | _ => x
              end
  | PFail1 => match h_st x with
              | Active | Successful => mkH1 Failed (h_formed x) (h_conf x) None
              | _ => x
              end
  end.

Definition spec_rej1 (neg : N) (rj : option N) (x : ch1) : ch1 :=
  match rj with
  | Some hm => if negb (st1_eqb (h_st x) Rejected) && negb (h_formed x) && (neg <? hm)
               then mkH1 Rejected (h_formed x) (h_conf x) (h_res x) else x
  | None => x
  end.

Definition spec_block1 (buffer neg id : N) (b : block) (x : ch1) : ch1 :=
  spec_rej1 neg (rej_arg buffer (bheight b))
    (match ev1_of id b with Some e => spec_ev1 (bheight b) e x | None => x end).

(* the chain columns of contract [id] after processing the chain S (head = tip) in order, on a
   store that has never seen a block *)
Definition spec1 (buffer neg id : N) (S : list block) : ch1 :=
  fold_right (spec_block1 buffer neg id) fresh_h1 S.

(* un-processing one change (chain-column part of the revert* helpers) *)
Definition rspec_ev1 (e : pev1) (x : ch1) : ch1 :=
  match e with
  | PForm1 => mkH1 Pending false (h_conf x) (h_res x)
  | PRev1 o _ => mkH1 (h_st x) (h_formed x) o (h_res x)
  | PSucc1 | PFail1 => mkH1 Active (h_formed x) (h_conf x) None
  end.

Definition spec_ev2 (i : idx) (e : pev2) (x : ch2) : ch2 :=
  match e with
  | PForm2 r => match g_st x with
                | P2 | R2 => mkH2 A2 (Some i) (g_res x) (Some r)
                | _ => mkH2 (g_st x) (g_conf x) (g_res x) (Some r)
                end
  | PRev2 _ n => mkH2 (g_st x) (g_conf x) (g_res x)
                      (match g_elem x with Some _ => Some n | None => None end)
  | PSucc2 => match g_st x with A2 => mkH2 S2 (g_conf x) (Some i) (g_elem x) | _ => x end
  | PRen2 => match g_st x with A2 => mkH2 N2 (g_conf x) (Some i) (g_elem x) | _ => x end
  | PFail2 => match g_st x with A2 => mkH2 F2 (g_conf x) (Some i) (g_elem x) | _ => x end
  end.

Definition spec_rej2 (neg : N) (rj : option N) (x : ch2) : ch2 :=
  match rj with
  | Some hm => if negb (st2_eqb (g_st x) R2) && (match g_conf x with None => true | Some _ => false end)
                  && (neg <? hm)
               then mkH2 R2 (g_conf x) (g_res x) (g_elem x) else x
  | None => x
  end.

Definition spec_block2 (buffer neg id : N) (b : block) (x : ch2) : ch2 :=
  spec_rej2 neg (rej_arg buffer (bheight b))
    (match ev2_of id b with Some e => spec_ev2 (bidx b) e x | None => x end).

Definition spec2 (buffer neg id : N) (S : list block) : ch2 :=
  fold_right (spec_block2 buffer neg id) fresh_h2 S.

Definition rspec_ev2 (e : pev2) (x : ch2) : ch2 :=
  match e with
  | PForm2 _ => mkH2 P2 None (g_res x) None
  | PRev2 o _ => mkH2 (g_st x) (g_conf x) (g_res x)
                      (match g_elem x with Some _ => Some o | None => None end)
  | PSucc2 | PRen2 | PFail2 => mkH2 A2 (g_conf x) None (g_elem x)
  end.

(** * equality up to the one-way rejection *)
Definition unconf1 (s : st1) : Prop := s = Pending \/ s = Rejected.
Definition heqv1 (x y : ch1) : Prop :=
  h_formed x = h_formed y /\ h_conf x = h_conf y /\ h_res x = h_res y /\
  (h_st x = h_st y \/ (h_formed x = false /\ unconf1 (h_st x) /\ unconf1 (h_st y))).
Definition unconf2 (s : st2) : Prop := s = P2 \/ s = R2.
Definition heqv2 (x y : ch2) : Prop :=
  g_conf x = g_conf y /\ g_res x = g_res y /\ g_elem x = g_elem y /\
  (g_st x = g_st y \/ (g_conf x = None /\ unconf2 (g_st x) /\ unconf2 (g_st y))).

(** * validity of a change on top of a chain: the consensus discipline *)
Definition valid1 (e : pev1) (x : ch1) : Prop :=
  match e with
  | PForm1 => h_formed x = false            (* formed at most once on a chain *)
  | PRev1 o _ => h_st x = Active /\ h_conf x = o   (* revised between formation and resolution *)
  | PSucc1 | PFail1 => h_st x = Active      (* resolved at most once *)
  end.
Definition valid2 (e : pev2) (x : ch2) : Prop :=
  match e with
  | PForm2 _ => g_conf x = None
  | PRev2 o _ => g_st x = A2 /\ g_elem x = Some o
  | PSucc2 | PRen2 | PFail2 => g_st x = A2
  end.

(* [negof1 id] = negotiation height of the v1 contract id known to the store (None: unknown) *)
Definition bvalid (buffer : N) (negof1 negof2 : N -> option N) (S : list block) (b : block) : Prop :=
  NoDup (ids1_of b) /\ NoDup (ids2_of b) /\
  (forall id e, ev1_of id b = Some e ->
     exists ng, negof1 id = Some ng /\ valid1 e (spec1 buffer ng id S)) /\
  (forall id e, ev2_of id b = Some e ->
     exists ng, negof2 id = Some ng /\ valid2 e (spec2 buffer ng id S)).

Fixpoint chain_ok (buffer : N) (negof1 negof2 : N -> option N) (S : list block) : Prop :=
  match S with
  | [] => True
  | b :: S' => bvalid buffer negof1 negof2 S' b /\ chain_ok buffer negof1 negof2 S'
  end.

Definition negof1 (s : state) (id : N) : option N := option_map neg1 (find1 id (cs1 s)).
Definition negof2 (s : state) (id : N) : option N := option_map neg2 (find2 id (cs2 s)).

(** * histories *)
Inductive item :=
| HBatch (nrev : nat) (apps : list block)  (* one UpdateChainState: disconnect the nrev top blocks, connect apps *)
| HRescan                                  (* ResetChainState, then the whole best chain again *)
| HOp (o : op).                            (* any other store operation *)

Definition is_plain (o : op) : bool :=
  match o with Chain _ _ | Reset => false | _ => true end.

(* a non-chain operation may fail (insufficient balance, unknown contract...): then nothing happens *)
Definition exec_plain (o : op) (s : state) : state :=
  match exec o s with ROk s' => s' | _ => s end.

Definition hexec (buffer : N) (sS : state * list block) (it : item) : rs (state * list block) :=
  let '(s, K) := sS in
  match it with
  | HBatch n apps =>
      dor s' <- exec (Chain (map rev_of (firstn n K)) (map (app_of buffer) apps)) s ;
      ROk (s', rev apps ++ skipn n K)
  | HRescan =>
      dor s1 <- exec Reset s ;
      dor s2 <- exec (Chain [] (map (app_of buffer) (rev K))) s1 ;
      ROk (s2, K)
  | HOp o => ROk (exec_plain o s, K)
  end.

Definition hrun (buffer : N) (l : list item) (sS : state * list block) : rs (state * list block) :=
  foldM (hexec buffer) l sS.

(* every connected block extends the chain it is connected to *)
Fixpoint ext_ok (buffer : N) (n1 n2 : N -> option N) (S : list block) (apps : list block) : Prop :=
  match apps with
  | [] => True
  | b :: t => bvalid buffer n1 n2 S b /\ ext_ok buffer n1 n2 (b :: S) t
  end.

Definition wf_item (buffer : N) (sS : state * list block) (it : item) : Prop :=
  let '(s, K) := sS in
  match it with
  | HBatch n apps => (n <= length K)%nat /\ ext_ok buffer (negof1 s) (negof2 s) (skipn n K) apps
  | HRescan => True
  | HOp o => is_plain o = true
  end.

Fixpoint wf_hist (buffer : N) (l : list item) (sS : state * list block) : Prop :=
  match l with
  | [] => True
  | it :: t => wf_item buffer sS it /\
               match hexec buffer sS it with
               | ROk sS' => wf_hist buffer t sS'
               | _ => True
               end
  end.
