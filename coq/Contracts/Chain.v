(* Contracts/Chain.v — blocks, best chains and histories; the per-contract specification of
   "what processing the blocks of a chain, in order, gives" (C01).  Definitions only.

   A block is what contracts.Manager.UpdateChainState extracts from a consensus update for the
   host's contracts: confirmed / revised (with the revision number before and after; core folds
   revisions confirmed in the block of the formation into the created element, and
   buildContractState records that element as confirmed AND as revised from 0) / successful (storage proof, or expired with
   missed >= valid payout) / failed / v2 renewed.  One contract may be the subject of several
   changes of one block ([block_ok] says which combinations consensus allows); ApplyContracts and
   RevertContracts go through them list by list ([evs1]/[evs2]).  [changes_of false b] is the
   StateChanges passed to ApplyContracts, [changes_of true b] the one passed to RevertContracts
   (buildContractState puts the PREVIOUS revision into Revised when reverting; for a reverted
   formation that is revision 0, the value insertContract wrote). *)
From HostdBase Require Import Base.
From HostdContracts Require Import Model.
Local Open Scope N_scope.

Record block := mkB {
  bidx : idx;
  bConf1 : list N;
  bRev1 : list (N * N * N);      (* id, revision number before, after; for a contract created in
                                    this block: (id, 0, revision number of the created element) *)
  bSucc1 : list N;
  bFail1 : list N;
  bConf2 : list (N * N);         (* id, revision number of the confirmed element *)
  bRev2 : list (N * N * N);
  bSucc2 : list N;
  bRen2 : list N;
  bFail2 : list N }.

Definition bheight (b : block) : N := fst (bidx b).

Definition rev_entry (revert : bool) (t : N * N * N) : N * N :=
  (fst (fst t), if revert then snd (fst t) else snd t).

Definition changes_of (revert : bool) (b : block) : changes :=
  mkCh (bConf1 b) (map (rev_entry revert) (bRev1 b)) (bSucc1 b) (bFail1 b)
       (bConf2 b) (map (rev_entry revert) (bRev2 b)) (bSucc2 b) (bRen2 b) (bFail2 b).

(* Manager.UpdateChainState: RejectContracts(height - rejectBuffer) when height >= rejectBuffer *)
Definition rej_arg (buffer h : N) : option N := if buffer <=? h then Some (h - buffer) else None.

Definition app_of (buffer : N) (b : block) : idx * changes * option N :=
  (bidx b, changes_of false b, rej_arg buffer (bheight b)).
Definition rev_of (b : block) : idx * changes := (bidx b, changes_of true b).

(** * what a block does to one contract *)
Inductive pev1 := PForm1 | PRev1 (o n : N) | PSucc1 | PFail1.
Inductive pev2 := PForm2 (r : N) | PRev2 (o n : N) | PSucc2 | PRen2 | PFail2.

(* the changes of a block in the order ApplyContracts / RevertContracts go through them *)
Definition evs1 (b : block) : list (N * pev1) :=
  map (fun id => (id, PForm1)) (bConf1 b)
  ++ map (fun t => (fst (fst t), PRev1 (snd (fst t)) (snd t))) (bRev1 b)
  ++ map (fun id => (id, PSucc1)) (bSucc1 b)
  ++ map (fun id => (id, PFail1)) (bFail1 b).
Definition evs2 (b : block) : list (N * pev2) :=
  map (fun p => (fst p, PForm2 (snd p))) (bConf2 b)
  ++ map (fun t => (fst (fst t), PRev2 (snd (fst t)) (snd t))) (bRev2 b)
  ++ map (fun id => (id, PSucc2)) (bSucc2 b)
  ++ map (fun id => (id, PRen2)) (bRen2 b)
  ++ map (fun id => (id, PFail2)) (bFail2 b).

(* the changes of a block that concern contract [id], in the order ApplyContracts goes through
   them (RevertContracts: [revl1_of] for v1 — the same order with the formation last —, the same
   order for v2) *)
Definition evl1_of (id : N) (b : block) : list pev1 :=
  map snd (filter (fun p => fst p =? id) (evs1 b)).
Definition evl2_of (id : N) (b : block) : list pev2 :=
  map snd (filter (fun p => fst p =? id) (evs2 b)).

(* RevertContracts goes through the v1 lists in the order revised, successful, failed, confirmed
   (formations last: a contract formed and resolved in one block is active again only after its
   resolution has been reverted); the v2 lists in the order of ApplyContracts *)
Definition revs1 (b : block) : list (N * pev1) :=
  map (fun t => (fst (fst t), PRev1 (snd (fst t)) (snd t))) (bRev1 b)
  ++ map (fun id => (id, PSucc1)) (bSucc1 b)
  ++ map (fun id => (id, PFail1)) (bFail1 b)
  ++ map (fun id => (id, PForm1)) (bConf1 b).
Definition revl1_of (id : N) (b : block) : list pev1 :=
  map snd (filter (fun p => fst p =? id) (revs1 b)).
(* the same on the changes of one contract: its formation moves to the end *)
Definition is_form1 (e : pev1) : bool := match e with PForm1 => true | _ => false end.
Definition rorder1 (l : list pev1) : list pev1 :=
  filter (fun e => negb (is_form1 e)) l ++ filter is_form1 l.

(* the contracts a block mentions *)
Definition ids1_of (b : block) : list N := map fst (evs1 b).
Definition ids2_of (b : block) : list N := map fst (evs2 b).

(** * chain columns of a row *)
Record ch1 := mkH1 { h_st : st1; h_formed : bool; h_conf : N; h_res : option N }.
Record ch2 := mkH2 { g_st : st2; g_conf : option idx; g_res : option idx; g_elem : option N }.
Definition proj1 (c : c1) : ch1 := mkH1 (s1 c) (formed c) (confRev c) (resH c).
Definition proj2 (c : c2) : ch2 := mkH2 (s2 c) (conf2 c) (res2 c) (elem2 c).
Definition fresh_h1 : ch1 := mkH1 Pending false 0 None.
Definition fresh_h2 : ch2 := mkH2 P2 None None None.

(* processing one change (the chain-column part of the apply* helpers, including their
   "skipping rescan state transition" branches) *)
Definition spec_ev1 (h : N) (e : pev1) (x : ch1) : ch1 :=
  match e with
  | PForm1 => match h_st x with
              | Pending | Rejected => mkH1 Active true (h_conf x) (h_res x)
              | _ => x
              end
  | PRev1 _ n => mkH1 (h_st x) (h_formed x) n (h_res x)
  | PSucc1 => match h_st x with
              | Active | Failed => mkH1 Successful (h_formed x) (h_conf x) (Some h)
              | _ => x
              end
  | PFail1 => match h_st x with
              | Active | Successful => mkH1 Failed (h_formed x) (h_conf x) None
              | _ => x
              end
  end.

Definition spec_rej1 (neg : N) (rj : option N) (x : ch1) : ch1 :=
  match rj with
  | Some hm => if negb (st1_eqb (h_st x) Rejected) && negb (h_formed x) && (neg <? hm)
               then mkH1 Rejected (h_formed x) (h_conf x) (h_res x) else x
  | None => x
  end.

(* all the changes a block carries for one contract, in ApplyContracts order *)
Definition spec_evs1 (h : N) (l : list pev1) (x : ch1) : ch1 :=
  fold_left (fun x e => spec_ev1 h e x) l x.

Definition spec_block1 (buffer neg id : N) (b : block) (x : ch1) : ch1 :=
  spec_rej1 neg (rej_arg buffer (bheight b)) (spec_evs1 (bheight b) (evl1_of id b) x).

(* the chain columns of contract [id] after processing the chain S (head = tip) in order, on a
   store that has never seen a block *)
Definition spec1 (buffer neg id : N) (S : list block) : ch1 :=
  fold_right (spec_block1 buffer neg id) fresh_h1 S.

(* un-processing one change (chain-column part of the revert* helpers) *)
Definition rspec_ev1 (e : pev1) (x : ch1) : ch1 :=
  match e with
  | PForm1 => mkH1 Pending false (h_conf x) (h_res x)
  | PRev1 o _ => mkH1 (h_st x) (h_formed x) o (h_res x)
  | PSucc1 | PFail1 => mkH1 Active (h_formed x) (h_conf x) None
  end.
(* un-processing a list of changes in the given order (for a block: [rorder1] of its changes) *)
Definition rspec_evs1 (l : list pev1) (x : ch1) : ch1 := fold_left (fun x e => rspec_ev1 e x) l x.

Definition spec_ev2 (i : idx) (e : pev2) (x : ch2) : ch2 :=
  match e with
  | PForm2 r => match g_st x with
                | P2 | R2 => mkH2 A2 (Some i) (g_res x) (Some r)
                | _ => mkH2 (g_st x) (g_conf x) (g_res x) (Some r)
                end
  | PRev2 _ n => mkH2 (g_st x) (g_conf x) (g_res x)
                      (match g_elem x with Some _ => Some n | None => None end)
  | PSucc2 => match g_st x with A2 => mkH2 S2 (g_conf x) (Some i) (g_elem x) | _ => x end
  | PRen2 => match g_st x with A2 => mkH2 N2 (g_conf x) (Some i) (g_elem x) | _ => x end
  | PFail2 => match g_st x with A2 => mkH2 F2 (g_conf x) (Some i) (g_elem x) | _ => x end
  end.

Definition spec_rej2 (neg : N) (rj : option N) (x : ch2) : ch2 :=
  match rj with
  | Some hm => if negb (st2_eqb (g_st x) R2) && (match g_conf x with None => true | Some _ => false end)
                  && (neg <? hm)
               then mkH2 R2 (g_conf x) (g_res x) (g_elem x) else x
  | None => x
  end.

Definition spec_evs2 (i : idx) (l : list pev2) (x : ch2) : ch2 :=
  fold_left (fun x e => spec_ev2 i e x) l x.

Definition spec_block2 (buffer neg id : N) (b : block) (x : ch2) : ch2 :=
  spec_rej2 neg (rej_arg buffer (bheight b)) (spec_evs2 (bidx b) (evl2_of id b) x).

Definition spec2 (buffer neg id : N) (S : list block) : ch2 :=
  fold_right (spec_block2 buffer neg id) fresh_h2 S.

Definition rspec_ev2 (e : pev2) (x : ch2) : ch2 :=
  match e with
  | PForm2 _ => mkH2 P2 None (g_res x) None
  | PRev2 o _ => mkH2 (g_st x) (g_conf x) (g_res x)
                      (match g_elem x with Some _ => Some o | None => None end)
  | PSucc2 | PRen2 | PFail2 => mkH2 A2 (g_conf x) None (g_elem x)
  end.
Definition rspec_evs2 (l : list pev2) (x : ch2) : ch2 := fold_left (fun x e => rspec_ev2 e x) l x.

(** * equality up to the one-way rejection *)
Definition unconf1 (s : st1) : Prop := s = Pending \/ s = Rejected.
Definition heqv1 (x y : ch1) : Prop :=
  h_formed x = h_formed y /\ h_conf x = h_conf y /\ h_res x = h_res y /\
  (h_st x = h_st y \/ (h_formed x = false /\ unconf1 (h_st x) /\ unconf1 (h_st y))).
Definition unconf2 (s : st2) : Prop := s = P2 \/ s = R2.
Definition heqv2 (x y : ch2) : Prop :=
  g_conf x = g_conf y /\ g_res x = g_res y /\ g_elem x = g_elem y /\
  (g_st x = g_st y \/ (g_conf x = None /\ unconf2 (g_st x) /\ unconf2 (g_st y))).

(** * validity of a change on top of a chain: the consensus discipline *)
Definition valid1 (e : pev1) (x : ch1) : Prop :=
  match e with
  | PForm1 => h_formed x = false            (* formed at most once on a chain *)
  | PRev1 o _ => h_st x = Active /\ h_conf x = o   (* revised between formation and resolution *)
  | PSucc1 | PFail1 => h_st x = Active      (* resolved at most once *)
  end.
Definition valid2 (e : pev2) (x : ch2) : Prop :=
  match e with
  | PForm2 _ => g_conf x = None
  | PRev2 o _ => g_st x = A2 /\ g_elem x = Some o
  | PSucc2 | PRen2 | PFail2 => g_st x = A2
  end.

(* a list of changes is legal when each one is legal where ApplyContracts meets it *)
Fixpoint valid_evs1 (h : N) (l : list pev1) (x : ch1) : Prop :=
  match l with
  | [] => True
  | e :: t => valid1 e x /\ valid_evs1 h t (spec_ev1 h e x)
  end.
Fixpoint valid_evs2 (i : idx) (l : list pev2) (x : ch2) : Prop :=
  match l with
  | [] => True
  | e :: t => valid2 e x /\ valid_evs2 i t (spec_ev2 i e x)
  end.

(** * what one block may do to one contract

   core's MidState keeps ONE element diff per contract id and block (consensus/application.go,
   ms.elements[id]) and merges every transaction of the block that touches the contract into it;
   buildContractState turns that diff into the entries below.

   v1 ([shape1]), the entries of one contract in one block are
     - none;
     - [PForm1; PRev1 0 k]: the contract is created; revisions confirmed in the same block are
       folded into the created element (reviseFileContractElement: "if fced.Created"), k is its
       revision number (k = 0: plain formation).  buildContractState records the element both as
       confirmed and as revised (from 0, the value insertContract wrote), each list in the
       order of the diffs;
     - [PForm1] alone: what buildContractState recorded before that repair; the same as k = 0;
     - [PForm1; PRev1 0 k; PSucc1]: created AND proven in one block.  A formation needs
       WindowStart >= childHeight (validateFileContracts: "has window that starts in the past"), a
       storage proof of a contract touched in the block WindowStart == childHeight
       (storageProofWindowID: ms.elements[id] with WindowStart == childHeight), so consensus
       allows both exactly when the formation is confirmed in the block at its window start; the
       RHP validators bound WindowStart against the height of the NEGOTIATION (rhp/v2, rhp/v3
       contracts.go: WindowStart >= currentHeight + WindowSize), not of the confirming block, and an
       empty contract needs no Merkle proof (anybody can submit it).  The diff has Created and
       Resolved set, its element is the created contract (nothing is lost for the revert);
       buildContractState records all three (fixes/C01-v1-created-and-resolved-same-block.patch),
       RevertContracts undoes the formation last.  [PForm1; PRev1 0 k; PFail1] is admitted too:
       consensus excludes it (a missed resolution needs childHeight >= WindowEnd > WindowStart >=
       childHeight), the theorems only get wider;
     - [PRev1 o n]: revised (several revisions of one block are merged into the last one);
     - [PSucc1] / [PFail1]: resolved by a storage proof / at the end of the proof window.
   Excluded for v1:
     - two resolutions, or any change after a resolution: a resolved element is spent
       (validateFileContracts: "conflicts with previous proof or revision", ms.spent);
     - a revision AND a storage proof of one contract in one block.  Revisions are refused once
       childHeight > WindowStart ("revises contract after its proof window has opened"), proofs
       before childHeight >= WindowStart (storageProofWindowID), so consensus allows both exactly
       in the block at height = WindowStart, provided someone submits the proof one block before
       the host does (the host builds its proof once the tip has reached WindowStart).  core then
       overwrites the diff's element with the REVISED contract (resolveFileContractElement), so
       the revision number the chain held before the block is not in the diff and a revert
       cannot restore it.  Not covered by the theorems (known finding
       v1-revision-and-proof-same-block-revert-keeps-revision; the connect direction is repaired,
       fixes/C01-v1-revised-and-proven-same-block.patch, Build.v [build1_res]).
   v2 ([shape2]):
     - none; [PForm2 r]: created with revision number r;
     - [PRev2 o n]: revised; [PSucc2] / [PRen2] / [PFail2]: resolved;
     - [PRev2 o n; resolution]: revised AND resolved in one block — a revision and a renewal
       (or, at height = proof height, a storage proof) in different transactions; the diff
       carries Revision and Resolution (fix d7434ff).  The model also admits revision +
       expiration, which consensus excludes (an expiration needs childHeight > ExpirationHeight >
       ProofHeight >= childHeight of any revision): harmless, the theorems only get wider.
   Excluded for v2:
     - created together with anything else: a revision or resolution names its parent with a
       Merkle proof in the accumulator (validateV2FileContracts/validateParent: "is not present
       in the accumulator"), and resolveV2FileContractElement panics on a created element;
     - two resolutions, or a revision after the resolution (validateParent: "has already been
       resolved", ms.spent).
   Across blocks ([valid1]/[valid2] against the chain below): formation at most once, revision
   and resolution only between formation and resolution ("has already been resolved in a
   previous block"), revisions start from the revision the chain holds. *)
Definition shape1 (l : list pev1) : Prop :=
  match l with
  | [] | [PForm1] | [PForm1; PRev1 0 _] | [PRev1 _ _] | [PSucc1] | [PFail1] => True
  | [PForm1; PRev1 0 _; PSucc1] | [PForm1; PRev1 0 _; PFail1] => True
  | _ => False
  end.
Definition is_res2 (e : pev2) : bool :=
  match e with PSucc2 | PRen2 | PFail2 => true | _ => false end.
Definition shape2 (l : list pev2) : Prop :=
  match l with
  | [] | [PForm2 _] | [PRev2 _ _] => True
  | [e] => is_res2 e = true
  | [PRev2 _ _; e] => is_res2 e = true
  | _ => False
  end.
Definition block_ok (b : block) : Prop :=
  forall id, shape1 (evl1_of id b) /\ shape2 (evl2_of id b).

(* [negof1 id] = negotiation height of the v1 contract id known to the store (None: unknown) *)
Definition bvalid (buffer : N) (negof1 negof2 : N -> option N) (S : list block) (b : block) : Prop :=
  block_ok b /\
  (forall id, evl1_of id b <> [] ->
     exists ng, negof1 id = Some ng /\ valid_evs1 (bheight b) (evl1_of id b) (spec1 buffer ng id S)) /\
  (forall id, evl2_of id b <> [] ->
     exists ng, negof2 id = Some ng /\ valid_evs2 (bidx b) (evl2_of id b) (spec2 buffer ng id S)).

Fixpoint chain_ok (buffer : N) (negof1 negof2 : N -> option N) (S : list block) : Prop :=
  match S with
  | [] => True
  | b :: S' => bvalid buffer negof1 negof2 S' b /\ chain_ok buffer negof1 negof2 S'
  end.

Definition negof1 (s : state) (id : N) : option N := option_map neg1 (find1 id (cs1 s)).
Definition negof2 (s : state) (id : N) : option N := option_map neg2 (find2 id (cs2 s)).

(** * histories *)
Inductive item :=
| HBatch (nrev : nat) (apps : list block)  (* one UpdateChainState: disconnect the nrev top blocks, connect apps *)
| HRescan                                  (* ResetChainState, then the whole best chain again *)
| HOp (o : op).                            (* any other store operation *)

Definition is_plain (o : op) : bool :=
  match o with Chain _ _ | Reset => false | _ => true end.

(* a non-chain operation may fail (insufficient balance, unknown contract...): then nothing happens *)
Definition exec_plain (o : op) (s : state) : state :=
  match exec o s with ROk s' => s' | _ => s end.

Definition hexec (buffer : N) (sS : state * list block) (it : item) : rs (state * list block) :=
  let '(s, K) := sS in
  match it with
  | HBatch n apps =>
      dor s' <- exec (Chain (map rev_of (firstn n K)) (map (app_of buffer) apps)) s ;
      ROk (s', rev apps ++ skipn n K)
  | HRescan =>
      dor s1 <- exec Reset s ;
      dor s2 <- exec (Chain [] (map (app_of buffer) (rev K))) s1 ;
      ROk (s2, K)
  | HOp o => ROk (exec_plain o s, K)
  end.

Definition hrun (buffer : N) (l : list item) (sS : state * list block) : rs (state * list block) :=
  foldM (hexec buffer) l sS.

(* every connected block extends the chain it is connected to *)
Fixpoint ext_ok (buffer : N) (n1 n2 : N -> option N) (S : list block) (apps : list block) : Prop :=
  match apps with
  | [] => True
  | b :: t => bvalid buffer n1 n2 S b /\ ext_ok buffer n1 n2 (b :: S) t
  end.

Definition wf_item (buffer : N) (sS : state * list block) (it : item) : Prop :=
  let '(s, K) := sS in
  match it with
  | HBatch n apps => (n <= length K)%nat /\ ext_ok buffer (negof1 s) (negof2 s) (skipn n K) apps
  | HRescan => True
  | HOp o => is_plain o = true
  end.

Fixpoint wf_hist (buffer : N) (l : list item) (sS : state * list block) : Prop :=
  match l with
  | [] => True
  | it :: t => wf_item buffer sS it /\
               match hexec buffer sS it with
               | ROk sS' => wf_hist buffer t sS'
               | _ => True
               end
  end.
