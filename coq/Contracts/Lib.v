(* Contracts/Lib.v — generic lemmas: the result monad, foldM, keyed rows, metric vectors. *)
From Coq Require Import Lia ZifyBool ZifyN.
From HostdBase Require Import Base.
From HostdContracts Require Import Model.
Local Open Scope N_scope.

(** * rs *)
Lemma rbind_ok {A B} (r : rs A) (f : A -> rs B) b :
  rbind r f = ROk b -> exists a, r = ROk a /\ f a = ROk b.
Proof. destruct r; cbn; intros H; try discriminate; eauto. Qed.

Lemma rbind_ok_l {A B} (r : rs A) (f : A -> rs B) a : r = ROk a -> rbind r f = f a.
Proof. intros ->; reflexivity. Qed.

Lemma foldM_app {S A} (f : S -> A -> rs S) l1 l2 s :
  foldM f (l1 ++ l2) s = rbind (foldM f l1 s) (foldM f l2).
Proof.
  revert s; induction l1 as [|a t IH]; intros s; cbn; [reflexivity|].
  destruct (f s a); cbn; auto.
Qed.

(* an invariant that every step preserves on success, and a property of the failures *)
Section FoldGood.
  Variables (S A : Type) (f : S -> A -> rs S) (Inv : S -> Prop) (Bad : pwhy -> Prop).
  Definition goodr (r : rs S) : Prop :=
    match r with ROk s' => Inv s' | RErr => True | RPanic w => ~ Bad w end.
  Hypothesis Hstep : forall s a, Inv s -> goodr (f s a).
  Lemma foldM_good l : forall s, Inv s -> goodr (foldM f l s).
  Proof.
    induction l as [|a t IH]; intros s Hs; cbn; [exact Hs|].
    pose proof (Hstep s a Hs) as H. destruct (f s a); cbn in *; auto.
  Qed.
End FoldGood.
Arguments goodr {S} Inv Bad r.
Arguments foldM_good {S A} f Inv Bad Hstep l s _.

Lemma goodr_bind {S T} (InvS : S -> Prop) (InvT : T -> Prop) Bad (r : rs S) (f : S -> rs T) :
  goodr InvS Bad r -> (forall s, InvS s -> goodr InvT Bad (f s)) -> goodr InvT Bad (rbind r f).
Proof. destruct r; cbn; auto. Qed.

(** * keyed rows *)
Section KeyedL.
  Variable R : Type.
  Variable key : R -> N.

  Lemma findk_key id l c : findk key id l = Some c -> key c = id.
  Proof.
    induction l as [|x t IH]; cbn; [discriminate|].
    destruct (key x =? id) eqn:E; [intros [= <-]; lia|exact IH].
  Qed.

  Lemma findk_in id l c : findk key id l = Some c -> In c l.
  Proof.
    induction l as [|x t IH]; cbn; [discriminate|].
    destruct (key x =? id); [intros [= <-]; auto|auto].
  Qed.

  Lemma findk_none id l : findk key id l = None <-> ~ In id (map key l).
  Proof.
    induction l as [|x t IH]; cbn; [tauto|].
    destruct (key x =? id) eqn:E; split; intros H.
    - discriminate.
    - exfalso; apply H; left; lia.
    - intros [H1|H1]; [lia|]. apply IH in H; auto.
    - apply IH. tauto.
  Qed.

  Lemma findk_some_in id l : In id (map key l) -> exists c, findk key id l = Some c.
  Proof.
    intros H. destruct (findk key id l) eqn:E; eauto.
    apply findk_none in E; contradiction.
  Qed.

  Lemma map_key_replk c' l : map key (replk key c' l) = map key l.
  Proof.
    induction l as [|x t IH]; cbn; [reflexivity|].
    destruct (key x =? key c') eqn:E; cbn; [f_equal; lia|now rewrite IH].
  Qed.

  Lemma findk_replk_same c' l : In (key c') (map key l) -> findk key (key c') (replk key c' l) = Some c'.
  Proof.
    induction l as [|x t IH]; cbn; [tauto|].
    destruct (key x =? key c') eqn:E; cbn.
    - now rewrite N.eqb_refl.
    - rewrite E. intros [H|H]; [lia|auto].
  Qed.

  Lemma findk_replk_other id c' l : id <> key c' -> findk key id (replk key c' l) = findk key id l.
  Proof.
    intros Hne. induction l as [|x t IH]; cbn; [reflexivity|].
    destruct (key x =? key c') eqn:E; cbn.
    - destruct (key c' =? id) eqn:E1; [lia|]. destruct (key x =? id) eqn:E2; [lia|reflexivity].
    - destruct (key x =? id); [reflexivity|exact IH].
  Qed.

  Lemma map_repl_absent c' l : ~ In (key c') (map key l) ->
    map (fun c => if key c =? key c' then c' else c) l = l.
  Proof.
    induction l as [|x t IH]; cbn; [reflexivity|]. intros H.
    destruct (key x =? key c') eqn:E; [exfalso; apply H; left; lia|].
    f_equal. apply IH. tauto.
  Qed.

  (* with distinct keys, rewriting a row is a map *)
  Lemma replk_map c' l : NoDup (map key l) ->
    replk key c' l = map (fun c => if key c =? key c' then c' else c) l.
  Proof.
    induction l as [|x t IH]; cbn; [reflexivity|]. intros Hnd.
    inversion Hnd as [|? ? Hx Ht]; subst.
    destruct (key x =? key c') eqn:E.
    - f_equal. symmetry. apply map_repl_absent.
      assert (key c' = key x) as -> by lia. exact Hx.
    - f_equal; auto.
  Qed.

  Lemma findk_app id l1 l2 :
    findk key id (l1 ++ l2) = match findk key id l1 with Some c => Some c | None => findk key id l2 end.
  Proof.
    induction l1 as [|x t IH]; cbn; [reflexivity|]. destruct (key x =? id); auto.
  Qed.

  Lemma findk_map_same (g : R -> R) id l :
    (forall c, key (g c) = key c) ->
    findk key id (map g l) = option_map g (findk key id l).
  Proof.
    intros Hg. induction l as [|x t IH]; cbn; [reflexivity|].
    rewrite Hg. destruct (key x =? id); cbn; auto.
  Qed.
End KeyedL.

Lemma NoDup_app_single {A} (l : list A) x : NoDup l -> ~ In x l -> NoDup (l ++ [x]).
Proof.
  induction l as [|y t IH]; cbn; intros Hn Hx; [constructor; [tauto|constructor]|].
  inversion Hn; subst. constructor.
  - rewrite in_app_iff. cbn. intros [H|[H|[]]]; [contradiction|subst; tauto].
  - apply IH; tauto.
Qed.
