(* Contracts/PerContract.v — C01, one contract at a time: the row transitions of the model act on
   the chain columns as [spec_ev*] / [rspec_ev*]; un-processing a valid change restores the
   columns up to the one-way rejection; everything respects that equivalence. *)
From Coq Require Import Lia ZifyBool ZifyN.
From HostdBase Require Import Base.
From HostdContracts Require Import Model Lib Chain.
Local Open Scope N_scope.

(** * consistency of the chain columns reached by valid chains *)
Definition cinv1 (x : ch1) : Prop :=
  match h_st x with
  | Pending | Rejected => h_formed x = false /\ h_res x = None /\ h_conf x = 0
  | Active | Failed => h_formed x = true /\ h_res x = None
  | Successful => h_formed x = true /\ h_res x <> None
  end.
Definition cinv2 (x : ch2) : Prop :=
  match g_st x with
  | P2 | R2 => g_conf x = None /\ g_res x = None /\ g_elem x = None
  | A2 => g_conf x <> None /\ g_res x = None /\ g_elem x <> None
  | S2 | N2 | F2 => g_conf x <> None /\ g_res x <> None /\ g_elem x <> None
  end.

Ltac h1 x := destruct x as [?st ?fo ?cf ?rs]; try (destruct st).
Ltac h2 x := destruct x as [?st ?cf ?rs ?el]; try (destruct st).
Ltac dmatch := repeat match goal with
  | |- context [match ?o with Some _ => _ | None => _ end] => is_var o; destruct o
  | H : context [match ?o with Some _ => _ | None => _ end] |- _ => is_var o; destruct o
  end.

Ltac crush :=
  cbn in *; unfold unconf1, unconf2 in *; intros; cbn in *; dmatch; cbn in *;
  repeat match goal with
         | H : _ /\ _ |- _ => destruct H
         | H : Some _ = Some _ |- _ => injection H as H
         | H : ?a = ?b |- _ => first [subst a | subst b]
         end;
  cbn in *;
  try solve [intuition (try congruence; try discriminate; try lia)].

Lemma cinv1_fresh : cinv1 fresh_h1. Proof. cbn; auto. Qed.
Lemma cinv2_fresh : cinv2 fresh_h2. Proof. cbn; auto. Qed.

Lemma cinv1_ev h e x : cinv1 x -> valid1 e x -> cinv1 (spec_ev1 h e x).
Proof. unfold cinv1. h1 x; destruct e; crush. Qed.
Lemma cinv1_rej neg rj x : cinv1 x -> cinv1 (spec_rej1 neg rj x).
Proof.
  unfold cinv1, spec_rej1. destruct rj as [hm|]; [|auto].
  h1 x; cbn; intros; destruct fo; cbn; try destruct (neg <? hm); crush.
Qed.
Lemma formed_after_ev1 h e x : cinv1 x -> valid1 e x -> h_formed (spec_ev1 h e x) = true.
Proof. unfold cinv1. h1 x; destruct e; crush. Qed.
Lemma rej1_formed neg rj x : h_formed x = true -> spec_rej1 neg rj x = x.
Proof. unfold spec_rej1. destruct rj; [|reflexivity]. intros ->. rewrite Bool.andb_false_r. reflexivity. Qed.

Lemma cinv2_ev i e x : cinv2 x -> valid2 e x -> cinv2 (spec_ev2 i e x).
Proof. unfold cinv2. h2 x; destruct e; crush. Qed.
Lemma cinv2_rej neg rj x : cinv2 x -> cinv2 (spec_rej2 neg rj x).
Proof.
  unfold cinv2, spec_rej2. destruct rj as [hm|]; [|auto].
  h2 x; cbn; intros; destruct cf; cbn; try destruct (neg <? hm); crush.
Qed.
Lemma formed_after_ev2 i e x : cinv2 x -> valid2 e x -> g_conf (spec_ev2 i e x) <> None.
Proof. unfold cinv2. h2 x; destruct e; crush. Qed.
Lemma rej2_formed neg rj x : g_conf x <> None -> spec_rej2 neg rj x = x.
Proof.
  unfold spec_rej2. destruct rj; [|reflexivity]. destruct (g_conf x); [|congruence].
  intros _. rewrite Bool.andb_false_r. reflexivity.
Qed.

(** * heqv is an equivalence *)
Lemma heqv1_refl x : heqv1 x x. Proof. unfold heqv1; auto. Qed.
Lemma heqv1_sym x y : heqv1 x y -> heqv1 y x.
Proof. unfold heqv1. intros (A & B & C & [D|(D1 & D2 & D3)]); repeat split; auto; right; repeat split; auto; congruence. Qed.
Lemma heqv1_trans x y z : heqv1 x y -> heqv1 y z -> heqv1 x z.
Proof.
  unfold heqv1. intros (A & B & C & D) (A' & B' & C' & D').
  repeat split; try congruence.
  destruct D as [D|(D1 & D2 & D3)], D' as [D'|(D1' & D2' & D3')].
  - left; congruence.
  - right; repeat split; auto; congruence.
  - right; repeat split; auto. rewrite <- D'; auto.
  - right; repeat split; auto.
Qed.
Lemma heqv2_refl x : heqv2 x x. Proof. unfold heqv2; auto. Qed.
Lemma heqv2_sym x y : heqv2 x y -> heqv2 y x.
Proof. unfold heqv2. intros (A & B & C & [D|(D1 & D2 & D3)]); repeat split; auto; right; repeat split; auto; congruence. Qed.
Lemma heqv2_trans x y z : heqv2 x y -> heqv2 y z -> heqv2 x z.
Proof.
  unfold heqv2. intros (A & B & C & D) (A' & B' & C' & D').
  repeat split; try congruence.
  destruct D as [D|(D1 & D2 & D3)], D' as [D'|(D1' & D2' & D3')].
  - left; congruence.
  - right; repeat split; auto; congruence.
  - right; repeat split; auto. rewrite <- D'; auto.
  - right; repeat split; auto.
Qed.

(* a row equivalent to a consistent one and confirmed is equal to it *)
Lemma heqv1_formed_eq y x : heqv1 y x -> h_formed x = true -> y = x.
Proof. unfold heqv1. h1 y; h1 x; crush. Qed.
Lemma heqv2_formed_eq y x : heqv2 y x -> g_conf x <> None -> y = x.
Proof. unfold heqv2. h2 y; h2 x; crush. Qed.

(** * processing respects the equivalence *)
Lemma heqv1_ev h e y x : cinv1 x -> heqv1 y x -> valid1 e x ->
  heqv1 (spec_ev1 h e y) (spec_ev1 h e x).
Proof. unfold cinv1, heqv1. h1 y; h1 x; destruct e; crush. Qed.

Lemma heqv1_rej neg rj y x : cinv1 x -> heqv1 y x ->
  heqv1 (spec_rej1 neg rj y) (spec_rej1 neg rj x).
Proof.
  unfold cinv1, heqv1, spec_rej1. destruct rj as [hm|]; [|auto].
  h1 y; h1 x; cbn; intros; destruct (neg <? hm); crush.
Qed.

Lemma heqv1_rej_absorb neg rj x : cinv1 x -> heqv1 (spec_rej1 neg rj x) x.
Proof.
  unfold cinv1, heqv1, spec_rej1. destruct rj as [hm|]; [|auto].
  h1 x; cbn; intros; destruct (neg <? hm); crush.
Qed.

Lemma heqv2_ev i e y x : cinv2 x -> heqv2 y x -> valid2 e x ->
  heqv2 (spec_ev2 i e y) (spec_ev2 i e x).
Proof. unfold cinv2, heqv2. h2 y; h2 x; destruct e; crush. Qed.

Lemma heqv2_rej neg rj y x : cinv2 x -> heqv2 y x ->
  heqv2 (spec_rej2 neg rj y) (spec_rej2 neg rj x).
Proof.
  unfold cinv2, heqv2, spec_rej2. destruct rj as [hm|]; [|auto].
  h2 y; h2 x; cbn; intros; dmatch; destruct (neg <? hm); crush.
Qed.

Lemma heqv2_rej_absorb neg rj x : cinv2 x -> heqv2 (spec_rej2 neg rj x) x.
Proof.
  unfold cinv2, heqv2, spec_rej2. destruct rj as [hm|]; [|auto].
  h2 x; cbn; intros; dmatch; destruct (neg <? hm); crush.
Qed.

(** * disconnecting undoes connecting *)
Lemma inverse1 h e x : cinv1 x -> valid1 e x -> heqv1 (rspec_ev1 e (spec_ev1 h e x)) x.
Proof. unfold cinv1, heqv1. h1 x; destruct e; crush. Qed.
Lemma inverse2 i e x : cinv2 x -> valid2 e x -> heqv2 (rspec_ev2 e (spec_ev2 i e x)) x.
Proof. unfold cinv2, heqv2. h2 x; destruct e; crush. Qed.

(* exact (not only up to rejection) unless a rejected contract was being confirmed *)
Lemma inverse1_exact h e x : cinv1 x -> valid1 e x -> h_st x <> Rejected ->
  rspec_ev1 e (spec_ev1 h e x) = x.
Proof. unfold cinv1. h1 x; destruct e; crush. Qed.
Lemma inverse2_exact i e x : cinv2 x -> valid2 e x -> g_st x <> R2 ->
  rspec_ev2 e (spec_ev2 i e x) = x.
Proof. unfold cinv2. h2 x; destruct e; crush. Qed.

(** * the row transitions of the model, projected *)
Definition stat1 (c : c1) := (id1 c, neg1 c, rev1 c, locked1 c, use1 c).
Definition stat2 (c : c2) := (id2 c, neg2 c, rev2 c, locked2 c, use2 c).

Definition row1_of (h : N) (e : pev1) : c1 -> rs (c1 * list mop) :=
  match e with
  | PForm1 => form1 | PRev1 _ n => revise_conf1 n | PSucc1 => succ1 h | PFail1 => fail1
  end.
Definition rrow1_of (e : pev1) : c1 -> rs (c1 * list mop) :=
  match e with
  | PForm1 => rform1 | PRev1 o _ => revise_conf1 o | PSucc1 => rsucc1 | PFail1 => rfail1
  end.
Definition row2_of (i : idx) (e : pev2) : c2 -> rs (c2 * list mop) :=
  match e with
  | PForm2 r => form2 i r | PRev2 _ n => revise_elem2 n | PSucc2 => succ2 i S2
  | PRen2 => succ2 i N2 | PFail2 => fail2 i
  end.
Definition rrow2_of (e : pev2) : c2 -> rs (c2 * list mop) :=
  match e with
  | PForm2 _ => rform2 | PRev2 o _ => revise_elem2 o | PSucc2 => rsucc2 S2
  | PRen2 => rsucc2 N2 | PFail2 => rfail2
  end.

Ltac c1d c := destruct c as [?id ?st ?fo ?rv ?cr ?rh ?ng ?lk ?us]; try (destruct st).
Ltac c2d c := destruct c as [?id ?st ?cf ?rs ?el ?rv ?ng ?lk ?us]; try (destruct st).

(* whenever the transition succeeds it acts on the chain columns as the specification says and
   leaves the other columns alone *)
Lemma row1_proj h e c r : row1_of h e c = ROk r ->
  proj1 (fst r) = spec_ev1 h e (proj1 c) /\ stat1 (fst r) = stat1 c.
Proof. c1d c; destruct e; cbn; intros H; inversion H; subst; cbn; auto. Qed.
Lemma rrow1_proj e c r : rrow1_of e c = ROk r ->
  proj1 (fst r) = rspec_ev1 e (proj1 c) /\ stat1 (fst r) = stat1 c.
Proof. c1d c; destruct e; cbn; intros H; inversion H; subst; cbn; auto. Qed.
Lemma rej1_proj c r : rej1 c = ROk r ->
  proj1 (fst r) = mkH1 Rejected (formed c) (confRev c) (resH c) /\ stat1 (fst r) = stat1 c.
Proof. c1d c; cbn; intros H; inversion H; subst; cbn; auto. Qed.

Lemma row2_proj i e c r : row2_of i e c = ROk r ->
  proj2 (fst r) = spec_ev2 i e (proj2 c) /\ stat2 (fst r) = stat2 c.
Proof. c2d c; destruct e; cbn; intros H; inversion H; subst; cbn; auto. Qed.
Lemma rrow2_proj e c r : rrow2_of e c = ROk r ->
  proj2 (fst r) = rspec_ev2 e (proj2 c) /\ stat2 (fst r) = stat2 c.
Proof. c2d c; destruct e; cbn; intros H; inversion H; subst; cbn; auto. Qed.
Lemma rej2_proj c r : rej2 c = ROk r ->
  proj2 (fst r) = mkH2 R2 (conf2 c) (res2 c) (elem2 c) /\ stat2 (fst r) = stat2 c.
Proof. c2d c; cbn; intros H; inversion H; subst; cbn; auto. Qed.

(* success: a valid change never meets a panic branch *)
Lemma row1_succeeds h e c x : cinv1 x -> heqv1 (proj1 c) x -> valid1 e x ->
  exists r, row1_of h e c = ROk r.
Proof. unfold cinv1, heqv1. c1d c; h1 x; destruct e; cbn; intros; crush; try (eexists; reflexivity). Qed.
Lemma row2_succeeds i e c x : cinv2 x -> heqv2 (proj2 c) x -> valid2 e x ->
  exists r, row2_of i e c = ROk r.
Proof. unfold cinv2, heqv2. c2d c; h2 x; destruct e; cbn; intros; crush; try (eexists; reflexivity). Qed.

(* reverting: the row is what processing the change produced (up to nothing: it is confirmed) *)
Lemma rrow1_succeeds h e c x : cinv1 x -> valid1 e x -> proj1 c = spec_ev1 h e x ->
  exists r, rrow1_of e c = ROk r.
Proof. unfold cinv1. c1d c; h1 x; destruct e; cbn; intros; crush; try (eexists; reflexivity). Qed.
Lemma rrow2_succeeds i e c x : cinv2 x -> valid2 e x -> proj2 c = spec_ev2 i e x ->
  exists r, rrow2_of e c = ROk r.
Proof. unfold cinv2. c2d c; h2 x; destruct e; cbn; intros; crush; try (eexists; reflexivity). Qed.

(* rejection: the WHERE clause on the row is the condition of the specification, and the selected
   row is pending *)
Lemma q_rej1_proj hm c :
  q_rej1 hm c = negb (st1_eqb (h_st (proj1 c)) Rejected) && negb (h_formed (proj1 c)) && (neg1 c <? hm).
Proof. reflexivity. Qed.
Lemma q_rej2_proj hm c :
  q_rej2 hm c = negb (st2_eqb (g_st (proj2 c)) R2)
                && (match g_conf (proj2 c) with None => true | Some _ => false end) && (neg2 c <? hm).
Proof. reflexivity. Qed.

Lemma rej1_succeeds hm c x : cinv1 x -> heqv1 (proj1 c) x -> q_rej1 hm c = true ->
  exists r, rej1 c = ROk r.
Proof. unfold cinv1, heqv1, q_rej1. c1d c; h1 x; cbn; intros; crush; try (eexists; reflexivity). Qed.
Lemma rej2_succeeds hm c x : cinv2 x -> heqv2 (proj2 c) x -> q_rej2 hm c = true ->
  exists r, rej2 c = ROk r.
Proof. unfold cinv2, heqv2, q_rej2. c2d c; h2 x; cbn; intros; crush; try (eexists; reflexivity). Qed.

(** * lists of changes: everything a block carries for one contract *)
Lemma spec_evs1_cons h e l x : spec_evs1 h (e :: l) x = spec_evs1 h l (spec_ev1 h e x).
Proof. reflexivity. Qed.
Lemma spec_evs2_cons i e l x : spec_evs2 i (e :: l) x = spec_evs2 i l (spec_ev2 i e x).
Proof. reflexivity. Qed.

Lemma cinv1_evs h l : forall x, cinv1 x -> valid_evs1 h l x -> cinv1 (spec_evs1 h l x).
Proof.
  induction l as [|e t IH]; intros x Hc Hv; [exact Hc|]. destruct Hv as [Hv Ht].
  rewrite spec_evs1_cons. apply IH; [apply cinv1_ev; assumption|exact Ht].
Qed.
Lemma cinv2_evs i l : forall x, cinv2 x -> valid_evs2 i l x -> cinv2 (spec_evs2 i l x).
Proof.
  induction l as [|e t IH]; intros x Hc Hv; [exact Hc|]. destruct Hv as [Hv Ht].
  rewrite spec_evs2_cons. apply IH; [apply cinv2_ev; assumption|exact Ht].
Qed.

Lemma formed_after_evs1 h l : forall x, cinv1 x -> valid_evs1 h l x -> l <> [] ->
  h_formed (spec_evs1 h l x) = true.
Proof.
  induction l as [|e t IH]; intros x Hc Hv Hne; [congruence|]. destruct Hv as [Hv Ht].
  rewrite spec_evs1_cons. destruct t as [|e' t'].
  - apply formed_after_ev1; assumption.
  - apply IH; [apply cinv1_ev; assumption|exact Ht|discriminate].
Qed.
Lemma formed_after_evs2 i l : forall x, cinv2 x -> valid_evs2 i l x -> l <> [] ->
  g_conf (spec_evs2 i l x) <> None.
Proof.
  induction l as [|e t IH]; intros x Hc Hv Hne; [congruence|]. destruct Hv as [Hv Ht].
  rewrite spec_evs2_cons. destruct t as [|e' t'].
  - apply formed_after_ev2; assumption.
  - apply IH; [apply cinv2_ev; assumption|exact Ht|discriminate].
Qed.

Lemma heqv1_evs h l : forall y x, cinv1 x -> heqv1 y x -> valid_evs1 h l x ->
  heqv1 (spec_evs1 h l y) (spec_evs1 h l x).
Proof.
  induction l as [|e t IH]; intros y x Hc Hq Hv; [exact Hq|]. destruct Hv as [Hv Ht].
  rewrite !spec_evs1_cons. apply IH; [apply cinv1_ev; assumption|apply heqv1_ev; assumption|exact Ht].
Qed.
Lemma heqv2_evs i l : forall y x, cinv2 x -> heqv2 y x -> valid_evs2 i l x ->
  heqv2 (spec_evs2 i l y) (spec_evs2 i l x).
Proof.
  induction l as [|e t IH]; intros y x Hc Hq Hv; [exact Hq|]. destruct Hv as [Hv Ht].
  rewrite !spec_evs2_cons. apply IH; [apply cinv2_ev; assumption|apply heqv2_ev; assumption|exact Ht].
Qed.

(* the shapes, one by one *)
Ltac shapes1 l :=
  destruct l as [|[|o n| |] [|[|o2 n2| |] [|[|o3 n3| |] [|e4 t4]]]]; cbn [shape1]; try tauto;
  try match goal with |- context [match ?o with 0 => _ | N.pos _ => _ end] => destruct o; try tauto end.
Ltac shapes2 l :=
  destruct l as [|[r|o n| | |] [|[r2|o2 n2| | |] [|e3 t3]]]; cbn [shape2 is_res2]; try tauto;
  try (intros; discriminate).

(* RevertContracts goes through the changes of a contract in the order of ApplyContracts with the
   formation last (v2: in the order of ApplyContracts), not in reverse: for the combinations a
   block may carry that still undoes them *)
Lemma inverse1_evs h l x : cinv1 x -> shape1 l -> valid_evs1 h l x ->
  heqv1 (rspec_evs1 (rorder1 l) (spec_evs1 h l x)) x.
Proof.
  intros Hc Hs Hv. revert Hs Hv. shapes1 l; intros Hs Hv; cbn in Hv;
    unfold rspec_evs1, spec_evs1, rorder1; cbn [filter is_form1 negb app fold_left];
    try (apply heqv1_refl); try (apply inverse1; [assumption|exact (Logic.proj1 Hv)]);
    revert Hc Hv; unfold cinv1, heqv1; h1 x; crush.
Qed.
Lemma inverse1_evs_exact h l x : cinv1 x -> shape1 l -> valid_evs1 h l x -> h_st x <> Rejected ->
  rspec_evs1 (rorder1 l) (spec_evs1 h l x) = x.
Proof.
  intros Hc Hs Hv. revert Hs Hv. shapes1 l; intros Hs Hv Hr; cbn in Hv;
    unfold rspec_evs1, spec_evs1, rorder1; cbn [filter is_form1 negb app fold_left];
    try reflexivity; try (apply inverse1_exact; [assumption|exact (Logic.proj1 Hv)|assumption]);
    revert Hc Hv Hr; unfold cinv1; h1 x; crush.
Qed.
Lemma inverse2_evs i l x : cinv2 x -> shape2 l -> valid_evs2 i l x ->
  heqv2 (rspec_evs2 l (spec_evs2 i l x)) x.
Proof.
  intros Hc Hs Hv. revert Hs Hv. shapes2 l; intros Hs Hv; cbn in Hv; unfold rspec_evs2, spec_evs2; cbn [fold_left];
    try (apply heqv2_refl); try (apply inverse2; [assumption|exact (Logic.proj1 Hv)]);
    revert Hc Hv; unfold cinv2, heqv2; h2 x; crush.
Qed.
Lemma inverse2_evs_exact i l x : cinv2 x -> shape2 l -> valid_evs2 i l x -> g_st x <> R2 ->
  rspec_evs2 l (spec_evs2 i l x) = x.
Proof.
  intros Hc Hs Hv. revert Hs Hv. shapes2 l; intros Hs Hv Hr; cbn in Hv; unfold rspec_evs2, spec_evs2; cbn [fold_left];
    try reflexivity; try (apply inverse2_exact; [assumption|exact (Logic.proj1 Hv)|assumption]);
    revert Hc Hv Hr; unfold cinv2; h2 x; crush.
Qed.

(* the row transitions of a list of changes, one after the other *)
Fixpoint rows_ok1 (h : N) (l : list pev1) (c : c1) : Prop :=
  match l with [] => True | e :: t => exists r, row1_of h e c = ROk r /\ rows_ok1 h t (fst r) end.
Fixpoint rrows_ok1 (l : list pev1) (c : c1) : Prop :=
  match l with [] => True | e :: t => exists r, rrow1_of e c = ROk r /\ rrows_ok1 t (fst r) end.
Fixpoint rows_ok2 (i : idx) (l : list pev2) (c : c2) : Prop :=
  match l with [] => True | e :: t => exists r, row2_of i e c = ROk r /\ rows_ok2 i t (fst r) end.
Fixpoint rrows_ok2 (l : list pev2) (c : c2) : Prop :=
  match l with [] => True | e :: t => exists r, rrow2_of e c = ROk r /\ rrows_ok2 t (fst r) end.

Definition fstok {A B} (r : rs (A * B)) (d : A) : A := match r with ROk p => fst p | _ => d end.

Definition applyl1 (h : N) (l : list pev1) (c : c1) : c1 := fold_left (fun c e => fstok (row1_of h e c) c) l c.
Definition revertl1 (l : list pev1) (c : c1) : c1 := fold_left (fun c e => fstok (rrow1_of e c) c) l c.
Definition applyl2 (i : idx) (l : list pev2) (c : c2) : c2 := fold_left (fun c e => fstok (row2_of i e c) c) l c.
Definition revertl2 (l : list pev2) (c : c2) : c2 := fold_left (fun c e => fstok (rrow2_of e c) c) l c.

Lemma applyl1_proj h l : forall c, rows_ok1 h l c ->
  proj1 (applyl1 h l c) = spec_evs1 h l (proj1 c) /\ stat1 (applyl1 h l c) = stat1 c.
Proof.
  induction l as [|e t IH]; intros c H; [auto|]. destruct H as (r & Hr & Ht).
  unfold applyl1. cbn [fold_left]. rewrite Hr. cbn [fstok]. destruct (row1_proj _ _ _ _ Hr) as [A B].
  destruct (IH _ Ht) as [A2 B2]. unfold applyl1 in A2, B2. rewrite A2, B2, spec_evs1_cons, A, B. auto.
Qed.
Lemma revertl1_proj l : forall c, rrows_ok1 l c ->
  proj1 (revertl1 l c) = rspec_evs1 l (proj1 c) /\ stat1 (revertl1 l c) = stat1 c.
Proof.
  induction l as [|e t IH]; intros c H; [auto|]. destruct H as (r & Hr & Ht).
  unfold revertl1. cbn [fold_left]. rewrite Hr. cbn [fstok]. destruct (rrow1_proj _ _ _ Hr) as [A B].
  destruct (IH _ Ht) as [A2 B2]. unfold revertl1 in A2, B2. rewrite A2, B2. unfold rspec_evs1. cbn [fold_left].
  rewrite A, B. auto.
Qed.
Lemma applyl2_proj i l : forall c, rows_ok2 i l c ->
  proj2 (applyl2 i l c) = spec_evs2 i l (proj2 c) /\ stat2 (applyl2 i l c) = stat2 c.
Proof.
  induction l as [|e t IH]; intros c H; [auto|]. destruct H as (r & Hr & Ht).
  unfold applyl2. cbn [fold_left]. rewrite Hr. cbn [fstok]. destruct (row2_proj _ _ _ _ Hr) as [A B].
  destruct (IH _ Ht) as [A2 B2]. unfold applyl2 in A2, B2. rewrite A2, B2, spec_evs2_cons, A, B. auto.
Qed.
Lemma revertl2_proj l : forall c, rrows_ok2 l c ->
  proj2 (revertl2 l c) = rspec_evs2 l (proj2 c) /\ stat2 (revertl2 l c) = stat2 c.
Proof.
  induction l as [|e t IH]; intros c H; [auto|]. destruct H as (r & Hr & Ht).
  unfold revertl2. cbn [fold_left]. rewrite Hr. cbn [fstok]. destruct (rrow2_proj _ _ _ Hr) as [A B].
  destruct (IH _ Ht) as [A2 B2]. unfold revertl2 in A2, B2. rewrite A2, B2. unfold rspec_evs2. cbn [fold_left].
  rewrite A, B. auto.
Qed.

Lemma rows1_succeed h l : forall c x, cinv1 x -> heqv1 (proj1 c) x -> valid_evs1 h l x -> rows_ok1 h l c.
Proof.
  induction l as [|e t IH]; intros c x Hc Hq Hv; [exact I|]. destruct Hv as [Hv Ht].
  destruct (row1_succeeds h e c x Hc Hq Hv) as [r Hr]. exists r. split; [exact Hr|].
  apply (IH _ (spec_ev1 h e x)); [apply cinv1_ev; assumption| |exact Ht].
  destruct (row1_proj _ _ _ _ Hr) as [A _]. rewrite A. apply heqv1_ev; assumption.
Qed.
Lemma rows2_succeed i l : forall c x, cinv2 x -> heqv2 (proj2 c) x -> valid_evs2 i l x -> rows_ok2 i l c.
Proof.
  induction l as [|e t IH]; intros c x Hc Hq Hv; [exact I|]. destruct Hv as [Hv Ht].
  destruct (row2_succeeds i e c x Hc Hq Hv) as [r Hr]. exists r. split; [exact Hr|].
  apply (IH _ (spec_ev2 i e x)); [apply cinv2_ev; assumption| |exact Ht].
  destruct (row2_proj _ _ _ _ Hr) as [A _]. rewrite A. apply heqv2_ev; assumption.
Qed.

(* reverting: the row is what processing the changes produced *)
Lemma rrows1_succeed h l c x : cinv1 x -> shape1 l -> valid_evs1 h l x -> proj1 c = spec_evs1 h l x ->
  rrows_ok1 (rorder1 l) c.
Proof.
  intros Hc Hs Hv. revert Hs Hv. shapes1 l; intros Hs Hv Hp; cbn in Hv;
    unfold rorder1; cbn [filter is_form1 negb app rrows_ok1];
    try exact I;
    try (match goal with |- exists r, rrow1_of ?e c = ROk r /\ True =>
           destruct (rrow1_succeeds h e c x Hc (Logic.proj1 Hv) Hp) as [r0 Hr0]; exists r0; auto end);
    (* formation carrying a revision, possibly resolved *)
    revert Hc Hv Hp; unfold cinv1; c1d c; h1 x; cbn; intros; crush;
      repeat (eexists; split; [reflexivity|]); exact I.
Qed.
Lemma rrows2_succeed i l c x : cinv2 x -> shape2 l -> valid_evs2 i l x -> proj2 c = spec_evs2 i l x ->
  rrows_ok2 l c.
Proof.
  intros Hc Hs Hv. revert Hs Hv. shapes2 l; intros Hs Hv Hp; cbn in Hv; cbn [rrows_ok2];
    try (match goal with |- exists r, rrow2_of ?e c = ROk r /\ True =>
           destruct (rrow2_succeeds i e c x Hc (Logic.proj1 Hv) Hp) as [r0 Hr0]; exists r0; auto end);
    (* revised and resolved in one block *)
    revert Hc Hv Hp; unfold cinv2; c2d c; h2 x; cbn; intros; crush;
      (eexists; split; [reflexivity|]; eexists; split; [reflexivity|exact I]).
Qed.
