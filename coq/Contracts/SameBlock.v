(* Contracts/SameBlock.v — concrete histories with several changes of one contract in one block
   (non-vacuity of the wider [wf_hist]); the two behaviours of buildContractState before the
   repairs, refuted; a rescan onto a different chain, refuted. *)
From Coq Require Import Lia ZifyBool ZifyN.
From HostdBase Require Import Base.
From HostdContracts Require Import Model Build Lib Inv InvOps Chain BuildProofs PerContract Proj Rows
  SpecLemmas Steps Plain Rescan Hist Wfb ProofsC01.
Local Open Scope N_scope.

(** * a well-formed history with such blocks *)

(* buffer 2; v1 contract 1 (stored revision 3) and v2 contract 1 (stored revision 7).
   b2 : formation of the v1 contract carrying revision 3 (its latest: reported confirmed), and of
        the v2 contract;
   b3 : the v2 contract revised 0 -> 7 AND renewed; disconnected, connected again, disconnected;
   b3': the v2 contract revised 0 -> 7 AND resolved by a storage proof; the v1 contract proven;
   then b3', b2 are disconnected (the folded formation is undone: revision 0 again), b2 and b3
   connected again, a rescan, one more block. *)
Definition sb_b1 : block := mkB (1, 1) [] [] [] [] [] [] [] [] [].
Definition sb_b2 : block := mkB (2, 2) [1] [(1, 0, 3)] [] [] [(1, 0)] [] [] [] [].
Definition sb_b3 : block := mkB (3, 3) [] [] [] [] [] [(1, 0, 7)] [] [1] [].
Definition sb_b3' : block := mkB (3, 4) [] [] [1] [] [] [(1, 0, 7)] [1] [] [].
Definition sb_b4 : block := mkB (4, 5) [] [] [] [] [] [] [] [] [].

Definition sb_demo : list item :=
  [HBatch 0 [sb_b1];
   HOp (AddV1 1 1 10 3 (mkU 1 2 3 4 5 6 0 7)); HOp (AddV2 1 1 20 7 (mkU 1 1 1 1 0 0 0 1));
   HBatch 0 [sb_b2]; HBatch 0 [sb_b3]; HBatch 1 []; HBatch 0 [sb_b3]; HBatch 1 [sb_b3'];
   HBatch 2 []; HBatch 0 [sb_b2; sb_b3]; HRescan; HBatch 0 [sb_b4]].

(* the observable columns after each prefix of interest *)
Definition sb_cols (l : list item) :=
  match hrun 2 l (init, []) with
  | ROk (s, K) => Some (map (fun c => (s1 c, formed c, confRev c, rev1 c =? confRev c, resH c)) (cs1 s),
                        map (fun c => (s2 c, res2 c, elem2 c,
                                       match elem2 c with Some r => rev2 c =? r | None => false end)) (cs2 s),
                        length K)
  | _ => None
  end.

Lemma sb_demo_ok :
  wf_hist 2 sb_demo (init, []) /\
  (* the block with the folded formation is connected: revision 3 confirmed at once *)
  sb_cols (firstn 4 sb_demo) = Some ([(Active, true, 3, true, None)], [(A2, None, Some 0, false)], 2%nat) /\
  (* revised and renewed in one block *)
  sb_cols (firstn 5 sb_demo) = Some ([(Active, true, 3, true, None)], [(N2, Some (3, 3), Some 7, true)], 3%nat) /\
  (* ... and disconnected *)
  sb_cols (firstn 6 sb_demo) = Some ([(Active, true, 3, true, None)], [(A2, None, Some 0, false)], 2%nat) /\
  (* the replacement block: revised and proven; v1 proven *)
  sb_cols (firstn 8 sb_demo) = Some ([(Successful, true, 3, true, Some 3)], [(S2, Some (3, 4), Some 7, true)], 3%nat) /\
  (* both blocks disconnected: the folded formation is undone *)
  sb_cols (firstn 9 sb_demo) = Some ([(Pending, false, 0, false, None)], [(P2, None, None, false)], 1%nat) /\
  (* the end: connected again, rescan, one more block *)
  sb_cols sb_demo = Some ([(Active, true, 3, true, None)], [(N2, Some (3, 3), Some 7, true)], 4%nat).
Proof. split; [apply wf_histb_sound; vm_compute; reflexivity | vm_compute; repeat split; reflexivity]. Qed.

(* the two blocks are the blocks of merged element diffs, as core produces them *)
Lemma sb_blocks_from_diffs :
  block_of_diffs (2, 2) [mkFD 1 true true 3 None false false false] [mkFD2 1 true true 0 None None] = sb_b2 /\
  block_of_diffs (3, 3) [] [mkFD2 1 true false 0 (Some 7) (Some KRenewal)] = sb_b3 /\
  block_of_diffs (3, 4) [mkFD 1 true false 0 None true true false] [mkFD2 1 true false 0 (Some 7) (Some KProof)] = sb_b3'.
Proof. vm_compute. repeat split; reflexivity. Qed.

(** * Legacy: buildContractState before the repairs *)
Section Legacy.

  (* before fixes/C01-formation-carries-revision.patch: [case created] recorded the element as
     confirmed only; before fixes/C01-v1-revised-and-proven-same-block.patch a revised diff
     never reached the resolution cases *)
  Definition build1_legacy (revert : bool) (ch : changes) (d : fdiff) : option changes :=
    if negb (fd_relevant d) then Some ch
    else if fd_created d then Some (add_conf1 ch (fd_id d))
    else match fd_rev d with
         | Some r => Some (add_rev1 ch (fd_id d, if revert then fd_cur d else r))
         | None =>
             if fd_resolved d && fd_valid d then Some (add_succ1 ch (fd_id d))
             else if fd_resolved d && negb (fd_valid d) then
               (if fd_missed_ge d then Some (add_succ1 ch (fd_id d)) else Some (add_fail1 ch (fd_id d)))
             else None
         end.
  (* before d7434ff: created / revised / resolved were exclusive cases *)
  Definition build2_legacy (revert : bool) (ch : changes) (d : fdiff2) : option changes :=
    if negb (gd_relevant d) then Some ch
    else if gd_created d then Some (add_conf2 ch (gd_id d, gd_cur d))
    else match gd_rev d with
         | Some r => Some (add_rev2 ch (gd_id d, if revert then gd_cur d else r))
         | None => match gd_res d with Some _ => Some (build2_res ch d) | None => None end
         end.
  Definition build_state_legacy (revert : bool) (l1 : list fdiff) (l2 : list fdiff2) : option changes :=
    match foldo (build1_legacy revert) l1 no_changes with
    | Some ch => foldo (build2_legacy revert) l2 ch
    | None => None
    end.

  (* what the store holds after the manager connected the block of the diffs (l1, l2) at index i,
     with the legacy buildContractState *)
  Definition legacy_connect (buffer : N) (i : idx) (l1 : list fdiff) (l2 : list fdiff2) (s : state) : rs state :=
    match build_state_legacy false l1 l2 with
    | Some ch => exec (Chain [] [(i, ch, rej_arg buffer (fst i))]) s
    | None => RErr
    end.

  (* a consistent store, a valid block made of one merged diff, and the legacy code leaves a row
     that is NOT what the chain gives *)
  Definition legacy_refuted (l1 : list fdiff) (l2 : list fdiff2) : Prop :=
    exists (buffer : N) (s : state) (K : list block) (i : idx) (s' : state),
      J buffer s K /\ bvalid buffer (negof1 s) (negof2 s) K (block_of_diffs i l1 l2) /\
      legacy_connect buffer i l1 l2 s = ROk s' /\
      ~ agrees_with_chain buffer s' (block_of_diffs i l1 l2 :: K).

  (* v1: formation and revision 1 confirmed in one block — the host keeps reporting its revision 1
     unconfirmed (and would broadcast it again) *)
  Lemma legacy_formation_with_folded_revision_refuted :
    legacy_refuted [mkFD 1 true true 1 None false false false] [].
  Proof.
    exists 2, (exec_plain (AddV1 1 0 10 1 uzero) init), [], (1, 1). eexists.
    split; [apply (blank_after_plain 2 [AddV1 1 0 10 1 uzero]); reflexivity|].
    split; [apply bvalidb_sound; vm_compute; reflexivity|].
    split; [vm_compute; reflexivity|].
    intros [H _]. specialize (H 1 _ eq_refl). vm_compute in H. destruct H as (_ & H & _). discriminate.
  Qed.

  (* v2: revision and renewal in one block — the renewal is lost, the contract stays active *)
  Lemma legacy_same_block_revision_and_resolution_refuted :
    legacy_refuted [] [mkFD2 1 true false 0 (Some 7) (Some KRenewal)].
  Proof.
    pose (l := [HOp (AddV2 1 0 20 7 uzero); HBatch 0 [mkB (1, 1) [] [] [] [] [(1, 0)] [] [] [] []]]).
    assert (W : wf_hist 2 l (init, [])) by (apply wf_histb_sound; vm_compute; reflexivity).
    destruct (reachable_J 2 l W) as (s & E & HJ).
    vm_compute in E. injection E as <-.
    eexists 2, _, _, (2, 2). eexists.
    split; [exact HJ|].
    split; [apply bvalidb_sound; vm_compute; reflexivity|].
    split; [vm_compute; reflexivity|].
    intros [_ H]. specialize (H 1 _ eq_refl). vm_compute in H. destruct H as (_ & H & _). discriminate.
  Qed.

End Legacy.

(** * a rescan onto a DIFFERENT chain (known finding)

   ResetChainState keeps every chain column of the contracts (it deletes the v2 state elements
   only), and the "skipping rescan state transition" branches keep them while the chain is
   processed again.  When the chain processed after the reset is not the one processed before
   (or an extension of it) — the consensus database was replaced — a contract whose formation is
   not on the new chain keeps reporting active. *)
Definition rescan_onto (buffer : N) (s : state) (K' : list block) : rs state :=
  dor s1 <- exec Reset s ;
  exec (Chain [] (map (app_of buffer) (rev K'))) s1.

Lemma rescan_onto_same buffer s K :
  rescan_onto buffer s K = dor r <- hexec buffer (s, K) HRescan ; ROk (fst r).
Proof.
  unfold rescan_onto. cbn [hexec exec rbind]. destruct (chain_update _ _ _); reflexivity.
Qed.

Lemma rescan_other_chain_refuted :
  exists (buffer : N) (s : state) (K K' : list block) (s' : state),
    reachable buffer s K /\ chain_ok buffer (negof1 s) (negof2 s) K' /\
    rescan_onto buffer s K' = ROk s' /\ ~ agrees_with_chain buffer s' K'.
Proof.
  pose (b1 := mkB (1, 1) [] [] [] [] [] [] [] [] []).
  pose (b2 := mkB (2, 2) [1] [(1, 0, 0)] [] [] [] [] [] [] []).
  pose (b2' := mkB (2, 3) [] [] [] [] [] [] [] [] []).
  pose (l := [HBatch 0 [b1]; HOp (AddV1 1 1 10 1 uzero); HBatch 0 [b2]]).
  assert (W : wf_hist 18 l (init, [])) by (apply wf_histb_sound; vm_compute; reflexivity).
  destruct (reachable_J 18 l W) as (s & E & HJ).
  assert (R : reachable 18 s (best_chain l [])) by (exists l; split; assumption).
  vm_compute in E. injection E as <-.
  eexists 18, _, _, [b2'; b1]. eexists.
  split; [exact R|].
  split; [cbn [chain_ok]; split; [apply bvalidb_sound; vm_compute; reflexivity|split; [apply bvalidb_sound; vm_compute; reflexivity|exact I]]|].
  split; [vm_compute; reflexivity|].
  intros [H _]. specialize (H 1 _ eq_refl). vm_compute in H. destruct H as (H & _). discriminate.
Qed.

(** * a v1 contract revised AND proven in one block, then disconnected (known finding)

   Consensus allows a revision and a storage proof of one v1 contract in the block at the height
   of its window start.  core then overwrites the element of the merged diff with the REVISED
   contract (resolveFileContractElement): the diff of a contract whose chain revision was 0,
   revised to 2 and proven, reads (element revision 2, Revision 2, resolved, valid).  Connecting
   records both changes (fixes/C01-v1-revised-and-proven-same-block.patch); disconnecting can only
   record the element's revision, 2, as the "previous" one: the confirmed revision number is not
   restored.  The revision the chain held is simply not in what hostd is given — the block is
   outside [block_ok]. *)
Definition connect_disconnect_refuted (d : fdiff) : Prop :=
  exists (buffer : N) (s : state) (K : list block) (i : idx) (cha chr : changes) (s1 s2 : state),
    J buffer s K /\
    build_state false [d] [] = Some cha /\ build_state true [d] [] = Some chr /\
    exec (Chain [] [(i, cha, rej_arg buffer (fst i))]) s = ROk s1 /\
    exec (Chain [(i, chr)] []) s1 = ROk s2 /\
    ~ agrees_with_chain buffer s2 K.

Lemma v1_revision_and_proof_revert_refuted :
  connect_disconnect_refuted (mkFD 1 true false 2 (Some 2) true true false).
Proof.
  pose (l := [HOp (AddV1 1 0 10 2 uzero); HBatch 0 [mkB (1, 1) [1] [(1, 0, 0)] [] [] [] [] [] [] []]]).
  assert (W : wf_hist 18 l (init, [])) by (apply wf_histb_sound; vm_compute; reflexivity).
  destruct (reachable_J 18 l W) as (s & E & HJ).
  vm_compute in E. injection E as <-.
  eexists 18, _, _, (2, 2). do 4 eexists.
  split; [exact HJ|].
  split; [vm_compute; reflexivity|]. split; [vm_compute; reflexivity|].
  split; [vm_compute; reflexivity|]. split; [vm_compute; reflexivity|].
  intros [H _]. specialize (H 1 _ eq_refl). vm_compute in H. destruct H as (_ & H & _). discriminate.
Qed.

(** * a v1 contract formed AND resolved in one block *)

(* buffer 2; v1 contract 1 (stored revision 1).  c_b2: its formation (created element at revision
   1) and a storage proof in one block — connected, disconnected (everything undone, formation
   last), connected again, rescanned, one more block, two blocks disconnected. *)
Definition sc_b2 : block := mkB (2, 2) [1] [(1, 0, 1)] [1] [] [] [] [] [] [].
Definition sc_demo : list item :=
  [HBatch 0 [sb_b1]; HOp (AddV1 1 1 10 1 (mkU 1 2 3 4 5 6 0 7));
   HBatch 0 [sc_b2]; HBatch 1 []; HBatch 0 [sc_b2]; HRescan; HBatch 0 [mkB (3, 3) [] [] [] [] [] [] [] [] []];
   HBatch 2 []].

Lemma sc_demo_ok :
  wf_hist 2 sc_demo (init, []) /\
  sb_cols (firstn 3 sc_demo) = Some ([(Successful, true, 1, true, Some 2)], [], 2%nat) /\
  sb_cols (firstn 4 sc_demo) = Some ([(Pending, false, 0, false, None)], [], 1%nat) /\
  sb_cols (firstn 7 sc_demo) = Some ([(Successful, true, 1, true, Some 2)], [], 3%nat) /\
  sb_cols sc_demo = Some ([(Pending, false, 0, false, None)], [], 1%nat) /\
  block_of_diffs (2, 2) [mkFD 1 true true 1 None true true false] [] = sc_b2 /\
  (* the metrics follow: nothing active, nothing locked after the block *)
  match hrun 2 (firstn 3 sc_demo) (init, []) with
  | ROk (s, _) => (nAct (mets s), nSucc (mets s), mLocked (mets s), eRpc (mets s)) = (0, 1, 0, 1)
  | _ => False
  end.
Proof. split; [apply wf_histb_sound; vm_compute; reflexivity | vm_compute; repeat split; reflexivity]. Qed.

Section Legacy2.
  (* before fixes/C01-v1-created-and-resolved-same-block.patch: [case created] never looked at
     [resolved] (and RevertContracts reverted formations first) *)
  Definition build1_legacy2 (revert : bool) (ch : changes) (d : fdiff) : option changes :=
    if negb (fd_relevant d) then Some ch
    else if fd_created d then
      Some (add_rev1 (add_conf1 ch (fd_id d)) (fd_id d, if revert then 0 else fd_cur d))
    else build1 revert ch d.
  Definition build_state_legacy2 (revert : bool) (l1 : list fdiff) (l2 : list fdiff2) : option changes :=
    match foldo (build1_legacy2 revert) l1 no_changes with
    | Some ch => foldo (build2 revert) l2 ch
    | None => None
    end.
  Definition legacy2_refuted (l1 : list fdiff) (l2 : list fdiff2) : Prop :=
    exists (buffer : N) (s : state) (K : list block) (i : idx) (ch : changes) (s' : state),
      J buffer s K /\ bvalid buffer (negof1 s) (negof2 s) K (block_of_diffs i l1 l2) /\
      build_state_legacy2 false l1 l2 = Some ch /\
      exec (Chain [] [(i, ch, rej_arg buffer (fst i))]) s = ROk s' /\
      ~ agrees_with_chain buffer s' (block_of_diffs i l1 l2 :: K).

  (* formation and storage proof in one block: the proof is lost, the contract stays active *)
  Lemma legacy_formation_and_resolution_refuted :
    legacy2_refuted [mkFD 1 true true 0 None true true false] [].
  Proof.
    exists 2, (exec_plain (AddV1 1 0 10 1 uzero) init), [], (1, 1). do 2 eexists.
    split; [apply (blank_after_plain 2 [AddV1 1 0 10 1 uzero]); reflexivity|].
    split; [apply bvalidb_sound; vm_compute; reflexivity|].
    split; [vm_compute; reflexivity|].
    split; [vm_compute; reflexivity|].
    intros [H _]. specialize (H 1 _ eq_refl). vm_compute in H. destruct H as (_ & _ & H & _). discriminate.
  Qed.
End Legacy2.
