(* Contracts/RejCause.v — C01, soundness of rejection: in every state reached by ANY list of
   operations, a rejected contract has a cause — some successfully processed block passed a
   reject height above the contract's negotiation height (height - buffer > negotiation height). *)
From Coq Require Import Lia ZifyBool ZifyN.
From HostdBase Require Import Base.
From HostdContracts Require Import Model Lib Inv InvOps Chain PerContract Proj Rows Steps Plain.
Local Open Scope N_scope.

Definition caused1 (H : list N) (c : c1) : Prop :=
  s1 c = Rejected -> exists hm, In hm H /\ neg1 c < hm.
Definition caused2 (H : list N) (c : c2) : Prop :=
  s2 c = R2 -> exists hm, In hm H /\ neg2 c < hm.
Definition Rej (H : list N) (s : state) : Prop :=
  (forall id c, find1 id (cs1 s) = Some c -> caused1 H c) /\
  (forall id c, find2 id (cs2 s) = Some c -> caused2 H c).

Lemma Rej_mono H H' s : incl H H' -> Rej H s -> Rej H' s.
Proof.
  intros Hi [A B]. split; intros id c Ef Hr.
  - destruct (A id c Ef Hr) as (hm & Hin & Hlt). eauto.
  - destruct (B id c Ef Hr) as (hm & Hin & Hlt). eauto.
Qed.

(* transitions that never produce a rejected row *)
Definition norej1 (f : c1 -> rs (c1 * list mop)) : Prop :=
  forall c r, f c = ROk r -> id1 (fst r) = id1 c /\ neg1 (fst r) = neg1 c /\ (s1 (fst r) = Rejected -> s1 c = Rejected).
Definition norej2 (f : c2 -> rs (c2 * list mop)) : Prop :=
  forall c r, f c = ROk r -> id2 (fst r) = id2 c /\ neg2 (fst r) = neg2 c /\ (s2 (fst r) = R2 -> s2 c = R2).

Ltac nr1 := let c := fresh "c" in let r := fresh "r" in let H := fresh "H" in
  intros c r H; destruct c as [? st ? ? ? ? ? ? ?]; destruct st; cbn in H; inversion H; subst; cbn; intuition congruence.
Lemma form1_nr : norej1 form1. Proof. nr1. Qed.
Lemma revise_conf1_nr n : norej1 (revise_conf1 n). Proof. nr1. Qed.
Lemma succ1_nr h : norej1 (succ1 h). Proof. nr1. Qed.
Lemma fail1_nr : norej1 fail1. Proof. nr1. Qed.
Lemma rform1_nr : norej1 rform1. Proof. nr1. Qed.
Lemma rsucc1_nr : norej1 rsucc1. Proof. nr1. Qed.
Lemma rfail1_nr : norej1 rfail1. Proof. nr1. Qed.
Lemma revise1_nr r u : norej1 (revise1 r u). Proof. nr1. Qed.
Lemma debit_row1_nr sp ad : norej1 (debit_row1 sp ad).
Proof. intros c r. unfold debit_row1. destruct (_ <? _); [discriminate|]. intros [= <-]. cbn. auto. Qed.

Ltac nr2 := let c := fresh "c" in let r := fresh "r" in let H := fresh "H" in
  intros c r H; destruct c as [? st ? ? ? ? ? ? ?]; destruct st; cbn in H; inversion H; subst; cbn; intuition congruence.
Lemma form2_nr i r : norej2 (form2 i r). Proof. nr2. Qed.
Lemma rform2_nr : norej2 rform2. Proof. nr2. Qed.
Lemma revise_elem2_nr n : norej2 (revise_elem2 n). Proof. nr2. Qed.
Lemma succ2_S_nr i : norej2 (succ2 i S2). Proof. nr2. Qed.
Lemma succ2_N_nr i : norej2 (succ2 i N2). Proof. nr2. Qed.
Lemma fail2_nr i : norej2 (fail2 i). Proof. nr2. Qed.
Lemma rsucc2_S_nr : norej2 (rsucc2 S2). Proof. nr2. Qed.
Lemma rsucc2_N_nr : norej2 (rsucc2 N2). Proof. nr2. Qed.
Lemma rfail2_nr : norej2 rfail2. Proof. nr2. Qed.
Lemma revise2_nr r u : norej2 (revise2 r u). Proof. nr2. Qed.
Lemma debit_row2_nr sp ad : norej2 (debit_row2 sp ad).
Proof. intros c r. unfold debit_row2. destruct (_ <? _); [discriminate|]. intros [= <-]. cbn. auto. Qed.

(* what with1/with2 do to the rows, given success *)
Lemma with1_rows id f s s' :
  with1 id f s = ROk s' ->
  exists c r, find1 id (cs1 s) = Some c /\ f c = ROk r /\ cs1 s' = repl1 (fst r) (cs1 s) /\ cs2 s' = cs2 s.
Proof.
  unfold with1. destruct (find1 id (cs1 s)) as [c|] eqn:Ef; [|discriminate].
  destruct (f c) as [r| |] eqn:Er; cbn; try discriminate. destruct (mapply _ _); cbn; try discriminate.
  intros [= <-]. exists c, r. repeat split; auto.
Qed.
Lemma with2_rows id f s s' :
  with2 id f s = ROk s' ->
  exists c r, find2 id (cs2 s) = Some c /\ f c = ROk r /\ cs2 s' = repl2 (fst r) (cs2 s) /\ cs1 s' = cs1 s.
Proof.
  unfold with2. destruct (find2 id (cs2 s)) as [c|] eqn:Ef; [|discriminate].
  destruct (f c) as [r| |] eqn:Er; cbn; try discriminate. destruct (mapply _ _); cbn; try discriminate.
  intros [= <-]. exists c, r. repeat split; auto.
Qed.

Lemma with1_norej H id f s s' : norej1 f -> Rej H s -> with1 id f s = ROk s' -> Rej H s'.
Proof.
  intros Hf [A B] E. destruct (with1_rows _ _ _ _ E) as (c & r & Ef & Er & Hc1 & Hc2).
  destruct (Hf c r Er) as (Hid & Hng & Hst). destruct (find1_in_ids _ _ _ Ef) as [Hin Hk].
  split; [|rewrite Hc2; exact B].
  intros i c' Ef'. rewrite Hc1, find1_repl in Ef' by (rewrite Hid, Hk; exact Hin).
  destruct (i =? id1 (fst r)) eqn:Ei; [|eauto]. injection Ef' as <-.
  intros Hr. destruct (A id c Ef (Hst Hr)) as (hm & Hi & Hl). exists hm. split; [exact Hi|lia].
Qed.
Lemma with2_norej H id f s s' : norej2 f -> Rej H s -> with2 id f s = ROk s' -> Rej H s'.
Proof.
  intros Hf [A B] E. destruct (with2_rows _ _ _ _ E) as (c & r & Ef & Er & Hc2 & Hc1).
  destruct (Hf c r Er) as (Hid & Hng & Hst). destruct (find2_in_ids _ _ _ Ef) as [Hin Hk].
  split; [rewrite Hc1; exact A|].
  intros i c' Ef'. rewrite Hc2, find2_repl in Ef' by (rewrite Hid, Hk; exact Hin).
  destruct (i =? id2 (fst r)) eqn:Ei; [|eauto]. injection Ef' as <-.
  intros Hr. destruct (B id c Ef (Hst Hr)) as (hm & Hi & Hl). exists hm. split; [exact Hi|lia].
Qed.

Lemma foldM_pres {A} (P : state -> Prop) (f : state -> A -> rs state) l :
  (forall s a s', P s -> f s a = ROk s' -> P s') ->
  forall s s', P s -> foldM f l s = ROk s' -> P s'.
Proof.
  intros Hf. induction l as [|a t IH]; intros s s' Hs E; cbn in E; [congruence|].
  destruct (f s a) as [s1| |] eqn:E1; cbn in E; try discriminate. eauto.
Qed.

Lemma rbind_pres (P Q : state -> Prop) (r : rs state) f s' :
  (forall s, r = ROk s -> P s) -> (forall s, P s -> f s = ROk s' -> Q s') ->
  rbind r f = ROk s' -> Q s'.
Proof. destruct r as [s| |]; cbn; intros H1 H2 E; try discriminate. eauto. Qed.

Ltac st1 lem := let Hp := fresh "Hp" in let Hq := fresh "Hq" in
  intros ? ? ? Hp Hq; cbv beta in Hq; eapply with1_norej; [apply lem|exact Hp|exact Hq].
Ltac st2 lem := let Hp := fresh "Hp" in let Hq := fresh "Hq" in
  intros ? ? ? Hp Hq; cbv beta in Hq; eapply with2_norej; [apply lem|exact Hp|exact Hq].

Lemma apply_contracts_rej H i ch s s' : Rej H s -> apply_contracts i ch s = ROk s' -> Rej H s'.
Proof.
  intros Hs. unfold apply_contracts, each1, each2.
  repeat (let E := fresh "E" in
    match goal with |- rbind (foldM ?f ?l ?s0) _ = ROk _ -> _ =>
      destruct (foldM f l s0) as [?s| |] eqn:E; cbn [rbind]; try discriminate end).
  intros E8.
  assert (H1 : Rej H s0) by (eapply (foldM_pres (Rej H)); [|exact Hs|exact E]; st1 form1_nr).
  assert (H2 : Rej H s1) by (eapply (foldM_pres (Rej H)); [|exact H1|exact E0]; st1 revise_conf1_nr).
  assert (H3 : Rej H s2) by (eapply (foldM_pres (Rej H)); [|exact H2|exact E1]; st1 succ1_nr).
  assert (H4 : Rej H s3) by (eapply (foldM_pres (Rej H)); [|exact H3|exact E2]; st1 fail1_nr).
  assert (H5 : Rej H s4) by (eapply (foldM_pres (Rej H)); [|exact H4|exact E3]; st2 form2_nr).
  assert (H6 : Rej H s5) by (eapply (foldM_pres (Rej H)); [|exact H5|exact E4]; st2 revise_elem2_nr).
  assert (H7 : Rej H s6) by (eapply (foldM_pres (Rej H)); [|exact H6|exact E5]; st2 succ2_S_nr).
  assert (H8 : Rej H s7) by (eapply (foldM_pres (Rej H)); [|exact H7|exact E6]; st2 succ2_N_nr).
  eapply (foldM_pres (Rej H)); [|exact H8|exact E8]; st2 fail2_nr.
Qed.

Lemma revert_contracts_rej H ch s s' : Rej H s -> revert_contracts ch s = ROk s' -> Rej H s'.
Proof.
  intros Hs. unfold revert_contracts, each1, each2.
  repeat (let E := fresh "E" in
    match goal with |- rbind (foldM ?f ?l ?s0) _ = ROk _ -> _ =>
      destruct (foldM f l s0) as [?s| |] eqn:E; cbn [rbind]; try discriminate end).
  intros E8.
  assert (H1 : Rej H s0) by (eapply (foldM_pres (Rej H)); [|exact Hs|exact E]; st1 revise_conf1_nr).
  assert (H2 : Rej H s1) by (eapply (foldM_pres (Rej H)); [|exact H1|exact E0]; st1 rsucc1_nr).
  assert (H3 : Rej H s2) by (eapply (foldM_pres (Rej H)); [|exact H2|exact E1]; st1 rfail1_nr).
  assert (H4 : Rej H s3) by (eapply (foldM_pres (Rej H)); [|exact H3|exact E2]; st1 rform1_nr).
  assert (H5 : Rej H s4) by (eapply (foldM_pres (Rej H)); [|exact H4|exact E3]; st2 rform2_nr).
  assert (H6 : Rej H s5) by (eapply (foldM_pres (Rej H)); [|exact H5|exact E4]; st2 revise_elem2_nr).
  assert (H7 : Rej H s6) by (eapply (foldM_pres (Rej H)); [|exact H6|exact E5]; st2 rsucc2_S_nr).
  assert (H8 : Rej H s7) by (eapply (foldM_pres (Rej H)); [|exact H7|exact E6]; st2 rsucc2_N_nr).
  eapply (foldM_pres (Rej H)); [|exact H8|exact E8]; st2 rfail2_nr.
Qed.

(* RejectContracts(hm): only rows with negotiation height < hm are touched *)
Definition lowneg1 (hm : N) (s : state) (id : N) : Prop := exists ng, negof1 s id = Some ng /\ ng < hm.
Definition lowneg2 (hm : N) (s : state) (id : N) : Prop := exists ng, negof2 s id = Some ng /\ ng < hm.

Lemma with1_rej1 H hm id s s' :
  Rej (hm :: H) s -> lowneg1 hm s id -> with1 id rej1 s = ROk s' ->
  Rej (hm :: H) s' /\ (forall i, negof1 s' i = negof1 s i) /\ cs2 s' = cs2 s.
Proof.
  intros [A B] (ng & Hn & Hlt) E. destruct (with1_rows _ _ _ _ E) as (c & r & Ef & Er & Hc1 & Hc2).
  destruct (rej1_proj _ _ Er) as [_ Hst]. apply stat1_id in Hst. destruct Hst as [Hid Hng].
  destruct (find1_in_ids _ _ _ Ef) as [Hin Hk].
  assert (Hfind : forall i, find1 i (cs1 s') = if i =? id then Some (fst r) else find1 i (cs1 s)).
  { intros i. rewrite Hc1, find1_repl by (rewrite Hid, Hk; exact Hin). rewrite Hid, Hk. reflexivity. }
  unfold negof1 in Hn. rewrite Ef in Hn. cbn in Hn. injection Hn as <-.
  split; [split|split].
  - intros i c' Ef'. rewrite Hfind in Ef'. destruct (i =? id); [|eauto]. injection Ef' as <-.
    intros _. exists hm. split; [left; reflexivity|lia].
  - rewrite Hc2. exact B.
  - intros i. unfold negof1. rewrite Hfind. destruct (i =? id) eqn:Ei; [|reflexivity].
    assert (i = id) as -> by lia. rewrite Ef. cbn. f_equal. exact Hng.
  - exact Hc2.
Qed.
Lemma with2_rej2 H hm id s s' :
  Rej (hm :: H) s -> lowneg2 hm s id -> with2 id rej2 s = ROk s' ->
  Rej (hm :: H) s' /\ (forall i, negof2 s' i = negof2 s i) /\ cs1 s' = cs1 s.
Proof.
  intros [A B] (ng & Hn & Hlt) E. destruct (with2_rows _ _ _ _ E) as (c & r & Ef & Er & Hc2 & Hc1).
  destruct (rej2_proj _ _ Er) as [_ Hst]. apply stat2_id in Hst. destruct Hst as [Hid Hng].
  destruct (find2_in_ids _ _ _ Ef) as [Hin Hk].
  assert (Hfind : forall i, find2 i (cs2 s') = if i =? id then Some (fst r) else find2 i (cs2 s)).
  { intros i. rewrite Hc2, find2_repl by (rewrite Hid, Hk; exact Hin). rewrite Hid, Hk. reflexivity. }
  unfold negof2 in Hn. rewrite Ef in Hn. cbn in Hn. injection Hn as <-.
  split; [split|split].
  - rewrite Hc1. exact A.
  - intros i c' Ef'. rewrite Hfind in Ef'. destruct (i =? id); [|eauto]. injection Ef' as <-.
    intros _. exists hm. split; [left; reflexivity|lia].
  - intros i. unfold negof2. rewrite Hfind. destruct (i =? id) eqn:Ei; [|reflexivity].
    assert (i = id) as -> by lia. rewrite Ef. cbn. f_equal. exact Hng.
  - exact Hc1.
Qed.

Lemma each1_rej1 H hm ids : forall s s',
  Rej (hm :: H) s -> (forall id, In id ids -> lowneg1 hm s id) -> each1 rej1 ids s = ROk s' ->
  Rej (hm :: H) s' /\ cs2 s' = cs2 s.
Proof.
  unfold each1. induction ids as [|id t IH]; intros s s' Hr Hl E; cbn in E.
  - injection E as <-. auto.
  - destruct (with1 id rej1 s) as [sA| |] eqn:E1; cbn in E; try discriminate.
    destruct (with1_rej1 H hm id s sA Hr (Hl id (or_introl eq_refl)) E1) as (HrA & Hn & Hc).
    destruct (IH sA s' HrA) as [Hr' Hc']; [|exact E|].
    + intros i Hi. destruct (Hl i (or_intror Hi)) as (ng & Hng & Hlt). exists ng. rewrite Hn. auto.
    + split; [exact Hr'|congruence].
Qed.
Lemma each2_rej2 H hm ids : forall s s',
  Rej (hm :: H) s -> (forall id, In id ids -> lowneg2 hm s id) -> each2 rej2 ids s = ROk s' ->
  Rej (hm :: H) s'.
Proof.
  unfold each2. induction ids as [|id t IH]; intros s s' Hr Hl E; cbn in E.
  - injection E as <-. auto.
  - destruct (with2 id rej2 s) as [sA| |] eqn:E1; cbn in E; try discriminate.
    destruct (with2_rej2 H hm id s sA Hr (Hl id (or_introl eq_refl)) E1) as (HrA & Hn & Hc).
    apply (IH sA s' HrA); [|exact E].
    intros i Hi. destruct (Hl i (or_intror Hi)) as (ng & Hng & Hlt). exists ng. rewrite Hn. auto.
Qed.

Lemma reject_contracts_rej H hm s s' :
  Inv s -> Rej H s -> reject_contracts hm s = ROk s' -> Rej (hm :: H) s'.
Proof.
  intros (Hnd1 & Hnd2 & _) Hr E. unfold reject_contracts in E.
  destruct (each1 rej1 _ s) as [sA| |] eqn:E1; cbn in E; try discriminate.
  assert (Hr0 : Rej (hm :: H) s) by (eapply Rej_mono; [|exact Hr]; intros x Hx; right; exact Hx).
  destruct (each1_rej1 H hm (map id1 (filter (q_rej1 hm) (cs1 s))) s sA Hr0) as [HrA HcA]; [|exact E1|].
  { intros id Hin. apply in_map_iff in Hin. destruct Hin as (c & <- & Hc).
    apply filter_In in Hc. destruct Hc as [Hc Hq]. exists (neg1 c). split.
    - unfold negof1. rewrite (find1_of_in _ _ Hnd1 Hc). reflexivity.
    - unfold q_rej1 in Hq. lia. }
  apply (each2_rej2 H hm (map id2 (filter (q_rej2 hm) (cs2 s))) sA s' HrA); [|exact E].
  intros id Hin. apply in_map_iff in Hin. destruct Hin as (c & <- & Hc).
  apply filter_In in Hc. destruct Hc as [Hc Hq]. exists (neg2 c). split.
  - unfold negof2. rewrite HcA, (find2_of_in _ _ Hnd2 Hc). reflexivity.
  - unfold q_rej2 in Hq. lia.
Qed.

(** * over whole operation lists *)
Definition rej_args (apps : list (idx * changes * option N)) : list N :=
  flat_map (fun a => match snd a with Some hm => [hm] | None => [] end) apps.

Lemma applies_rej apps : forall H s s',
  Inv s -> Rej H s -> foldM (fun s b => apply_block b s) apps s = ROk s' -> Rej (rev (rej_args apps) ++ H) s'.
Proof.
  induction apps as [|[[i ch] rj] t IH]; intros H s s' Hs Hr E; cbn in E.
  - injection E as <-. exact Hr.
  - destruct (apply_contracts i ch s) as [sA| |] eqn:EA; cbn in E; try discriminate.
    assert (HsA : Inv sA) by (pose proof (apply_contracts_good i ch s Hs) as G; unfold good in G; rewrite EA in G; exact G).
    pose proof (apply_contracts_rej H i ch s sA Hr EA) as HrA.
    destruct rj as [hm|].
    + destruct (reject_contracts hm sA) as [sB| |] eqn:EB; cbn in E; try discriminate.
      assert (HsB : Inv sB) by (pose proof (reject_contracts_good hm sA HsA) as G; unfold good in G; rewrite EB in G; exact G).
      pose proof (reject_contracts_rej H hm sA sB HsA HrA EB) as HrB.
      specialize (IH (hm :: H) sB s' HsB HrB E).
      change (rej_args ((i, ch, Some hm) :: t)) with (hm :: rej_args t). cbn [rev].
      rewrite <- app_assoc. exact IH.
    + change (rej_args ((i, ch, None) :: t)) with (rej_args t). apply (IH H sA s' HsA HrA E).
Qed.

Definition op_rej_args (o : op) : list N :=
  match o with Chain _ apps => rej_args apps | _ => [] end.

Lemma add1_rej H c s s' : s1 c = Pending -> Rej H s -> add1 c s = ROk s' -> Rej H s'.
Proof.
  intros Hp [A B]. unfold add1. destruct (find1 (id1 c) (cs1 s)) eqn:Ef; [discriminate|]. intros [= <-].
  split; [|exact B]. cbn. intros i c0 Efc. unfold find1 in *. rewrite findk_app in Efc.
  destruct (findk id1 i (cs1 s)) eqn:E0; [injection Efc as <-; eapply A; exact E0|].
  cbn in Efc. destruct (id1 c =? i); [|discriminate]. injection Efc as <-. intros Hx; congruence.
Qed.
Lemma add2_rej H c s s' : s2 c = P2 -> Rej H s -> add2 c s = ROk s' -> Rej H s'.
Proof.
  intros Hp [A B]. unfold add2. destruct (find2 (id2 c) (cs2 s)) eqn:Ef; [discriminate|]. intros [= <-].
  split; [exact A|]. cbn. intros i c0 Efc. unfold find2 in *. rewrite findk_app in Efc.
  destruct (findk id2 i (cs2 s)) eqn:E0; [injection Efc as <-; eapply B; exact E0|].
  cbn in Efc. destruct (id2 c =? i); [|discriminate]. injection Efc as <-. intros Hx; congruence.
Qed.

Lemma exec_rej o H s s' : Inv s -> Rej H s -> exec o s = ROk s' -> Rej (rev (op_rej_args o) ++ H) s'.
Proof.
  intros Hs Hr E. destruct o; cbn [op_rej_args rev app].
  - (* AddV1 *) eapply add1_rej; [|exact Hr|exact E]; reflexivity.
  - eapply add2_rej; [|exact Hr|exact E]; reflexivity.
  - eapply with1_norej; [apply revise1_nr|exact Hr|exact E].
  - eapply with2_norej; [apply revise2_nr|exact Hr|exact E].
  - cbn [exec] in E. destruct (add1 _ s) as [sA| |] eqn:EA; cbn [rbind] in E; try discriminate.
    eapply with1_norej; [apply revise1_nr| |exact E]. eapply add1_rej; [|exact Hr|exact EA]; reflexivity.
  - cbn [exec] in E. destruct (add2 _ s) as [sA| |] eqn:EA; cbn [rbind] in E; try discriminate.
    destruct (find2 old (cs2 sA)); [|discriminate]. injection E as <-.
    eapply add2_rej; [|exact Hr|exact EA]; reflexivity.
  - cbn in E. destruct (with1 _ _ _) as [sA| |] eqn:EA; cbn in E; try discriminate. injection E as <-.
    assert (Rej H sA) as [A B] by (eapply with1_norej; [apply revise1_nr| |exact EA]; exact Hr).
    split; assumption.
  - cbn in E. destruct (alookup a (accts s)) as [b|]; [|discriminate]. destruct (b <? utotal1 u); [discriminate|].
    unfold distribute1 in E. destruct (foldM _ _ _) as [su| |] eqn:EF; cbn in E; try discriminate. injection E as <-.
    revert EF. generalize (filter (is_source a) (fund1 (set_accts s (aset a (b - utotal1 u) (accts s))))).
    assert (Hr0 : Rej H (fst (set_accts s (aset a (b - utotal1 u) (accts s)), u))) by exact Hr.
    revert Hr0. generalize (set_accts s (aset a (b - utotal1 u) (accts s)), u). clear.
    intros su0 Hr0 l. revert su0 Hr0. induction l as [|f t IH]; intros su0 Hr0 E; cbn in E; [congruence|].
    destruct (dstep1 a su0 f) as [su1| |] eqn:E1; cbn in E; try discriminate. apply (IH su1); [|exact E].
    unfold dstep1 in E1. destruct (dist_row1 (snd su0) (famt f)) as [[u' ad] rem].
    destruct (with1 _ _ _) as [sA| |] eqn:EA; cbn in E1; try discriminate. injection E1 as <-. cbn.
    eapply with1_norej; [apply debit_row1_nr| |exact EA]. exact Hr0.
  - cbn in E. destruct (find2 id (cs2 s)); [|discriminate].
    eapply with2_norej; [apply revise2_nr| |exact E].
    destruct (credit_fund2_cs id deps s) as [A B]. destruct Hr as [R1 R2]. split; [rewrite A; exact R1|rewrite B; exact R2].
  - cbn in E. destruct (alookup a (accts s)) as [b|]; [|discriminate]. destruct (b <? ucost2 u); [discriminate|].
    unfold distribute2 in E. destruct (foldM _ _ _) as [su| |] eqn:EF; cbn in E; try discriminate. injection E as <-.
    revert EF. generalize (filter (is_source a) (fund2 (set_accts s (aset a (b - ucost2 u) (accts s))))).
    assert (Hr0 : Rej H (fst (set_accts s (aset a (b - ucost2 u) (accts s)), u))) by exact Hr.
    revert Hr0. generalize (set_accts s (aset a (b - ucost2 u) (accts s)), u). clear.
    intros su0 Hr0 l. revert su0 Hr0. induction l as [|f t IH]; intros su0 Hr0 E; cbn in E; [congruence|].
    destruct (dstep2 a su0 f) as [su1| |] eqn:E1; cbn in E; try discriminate. apply (IH su1); [|exact E].
    unfold dstep2 in E1. destruct (dist_row2 (snd su0) (famt f)) as [[u' ad] rem].
    destruct (with2 _ _ _) as [sA| |] eqn:EA; cbn in E1; try discriminate. injection E1 as <-. cbn.
    eapply with2_norej; [apply debit_row2_nr| |exact EA]. exact Hr0.
  - (* Chain *) cbn in E. unfold chain_update in E.
    destruct (foldM (fun s b => revert_block b s) revs s) as [sA| |] eqn:EA; cbn in E; try discriminate.
    assert (HsA : Inv sA).
    { pose proof (foldM_good (fun s b => revert_block b s) Inv (eq PNegStat) (fun s b H => revert_block_good b s H) revs s Hs) as G.
      rewrite EA in G. exact G. }
    assert (HrA : Rej H sA).
    { eapply (foldM_pres (Rej H)); [|exact Hr|exact EA]. intros s0 b s1 H0 E0. cbv beta in E0. unfold revert_block in E0.
      eapply revert_contracts_rej; [exact H0|exact E0]. }
    eapply applies_rej; eauto.
  - (* Reset *) injection E as <-. destruct Hr as [A B]. split; [exact A|]. cbn. intros i c Ef.
    unfold find2 in Ef. rewrite (findk_map_same _ id2 (fun c => set_elem2 c None)) in Ef by reflexivity.
    destruct (findk id2 i (cs2 s)) as [c0|] eqn:E0; [|discriminate]. injection Ef as <-.
    intros Hx. apply (B i c0 E0). exact Hx.
  - (* Recalc *) injection E as <-. exact Hr.
Qed.

(* the reject heights of the successfully processed blocks of a run, most recent first *)
Fixpoint run_rej (s : state) (l : list op) (H : list N) : list N :=
  match l with
  | [] => H
  | o :: t => match exec o s with
              | ROk s' => run_rej s' t (rev (op_rej_args o) ++ H)
              | _ => run_rej s t H
              end
  end.

Lemma runs_rej l : forall s H, Inv s -> Rej H s -> Rej (run_rej s l H) (runs s l).
Proof.
  induction l as [|o t IH]; intros s H Hs Hr; cbn; [exact Hr|].
  unfold step. destruct (exec o s) as [s'| |] eqn:E; cbn [fst].
  - apply IH.
    + pose proof (exec_good o s Hs) as G. unfold good in G. rewrite E in G. exact G.
    + eapply exec_rej; eauto.
  - apply IH; assumption.
  - apply IH; assumption.
Qed.

Lemma rejected_has_cause (l : list op) :
  (forall id c, find1 id (cs1 (run init step l)) = Some c -> s1 c = Rejected ->
     exists hm, In hm (run_rej init l []) /\ neg1 c < hm) /\
  (forall id c, find2 id (cs2 (run init step l)) = Some c -> s2 c = R2 ->
     exists hm, In hm (run_rej init l []) /\ neg2 c < hm).
Proof.
  assert (H0 : Rej [] init) by (split; intros id c H; discriminate).
  pose proof (runs_rej l init [] Inv_init H0) as [A B]. split; intros id c Ef Hr; [apply (A id c Ef Hr)|apply (B id c Ef Hr)].
Qed.
