(* Contracts/InvOps.v — every operation preserves Inv; recalc and recount agree with the
   maintained metrics. *)
From Coq Require Import Lia ZifyBool ZifyN ZifyNat.
From HostdBase Require Import Base.
From HostdContracts Require Import Model Lib Inv.
Local Open Scope N_scope.

Lemma Inv_ext s s' :
  cs1 s' = cs1 s -> cs2 s' = cs2 s -> mets s' = mets s -> Inv s -> Inv s'.
Proof. unfold Inv. intros -> -> ->. auto. Qed.

Lemma good_bind (r : rs state) f :
  good r -> (forall s, Inv s -> good (f s)) -> good (rbind r f).
Proof. apply goodr_bind. Qed.

Lemma foldwith1_good {A} (key : A -> N) (g : A -> c1 -> rs (c1 * list mop)) l s :
  (forall a, row_ok1 (g a)) -> Inv s -> good (foldM (fun s a => with1 (key a) (g a) s) l s).
Proof.
  intros Hg Hs. apply (foldM_good _ Inv (eq PNegStat)); [|exact Hs].
  intros s0 a Hs0. apply with1_good; auto.
Qed.
Lemma foldwith2_good {A} (key : A -> N) (g : A -> c2 -> rs (c2 * list mop)) l s :
  (forall a, row_ok2 (g a)) -> Inv s -> good (foldM (fun s a => with2 (key a) (g a) s) l s).
Proof.
  intros Hg Hs. apply (foldM_good _ Inv (eq PNegStat)); [|exact Hs].
  intros s0 a Hs0. apply with2_good; auto.
Qed.
Lemma each1_good f ids s : row_ok1 f -> Inv s -> good (each1 f ids s).
Proof. intros Hf. apply (foldwith1_good (fun id => id) (fun _ => f)). auto. Qed.
Lemma each2_good f ids s : row_ok2 f -> Inv s -> good (each2 f ids s).
Proof. intros Hf. apply (foldwith2_good (fun id => id) (fun _ => f)). auto. Qed.

Lemma apply_contracts_good i ch s : Inv s -> good (apply_contracts i ch s).
Proof.
  intros Hs. unfold apply_contracts.
  apply good_bind; [apply each1_good; [apply form1_ok|exact Hs]|]; clear s Hs; intros s Hs.
  apply good_bind; [apply foldwith1_good; [intros; apply revise_conf1_ok|exact Hs]|]; clear s Hs; intros s Hs.
  apply good_bind; [apply each1_good; [apply succ1_ok|exact Hs]|]; clear s Hs; intros s Hs.
  apply good_bind; [apply each1_good; [apply fail1_ok|exact Hs]|]; clear s Hs; intros s Hs.
  apply good_bind; [apply foldwith2_good; [intros; apply form2_ok|exact Hs]|]; clear s Hs; intros s Hs.
  apply good_bind; [apply foldwith2_good; [intros; apply revise_elem2_ok|exact Hs]|]; clear s Hs; intros s Hs.
  apply good_bind; [apply each2_good; [apply succ2_S_ok|exact Hs]|]; clear s Hs; intros s Hs.
  apply good_bind; [apply each2_good; [apply succ2_N_ok|exact Hs]|]; clear s Hs; intros s Hs.
  apply each2_good; [apply fail2_ok|exact Hs].
Qed.

Lemma revert_contracts_good ch s : Inv s -> good (revert_contracts ch s).
Proof.
  intros Hs. unfold revert_contracts.
  apply good_bind; [apply foldwith1_good; [intros; apply revise_conf1_ok|exact Hs]|]; clear s Hs; intros s Hs.
  apply good_bind; [apply each1_good; [apply rsucc1_ok|exact Hs]|]; clear s Hs; intros s Hs.
  apply good_bind; [apply each1_good; [apply rfail1_ok|exact Hs]|]; clear s Hs; intros s Hs.
  apply good_bind; [apply each1_good; [apply rform1_ok|exact Hs]|]; clear s Hs; intros s Hs.
  apply good_bind; [apply each2_good; [apply rform2_ok|exact Hs]|]; clear s Hs; intros s Hs.
  apply good_bind; [apply foldwith2_good; [intros; apply revise_elem2_ok|exact Hs]|]; clear s Hs; intros s Hs.
  apply good_bind; [apply each2_good; [apply rsucc2_S_ok|exact Hs]|]; clear s Hs; intros s Hs.
  apply good_bind; [apply each2_good; [apply rsucc2_N_ok|exact Hs]|]; clear s Hs; intros s Hs.
  apply each2_good; [apply rfail2_ok|exact Hs].
Qed.

Lemma reject_contracts_good h s : Inv s -> good (reject_contracts h s).
Proof.
  intros Hs. unfold reject_contracts.
  (* the id lists are computed from the state before the loop *)
  generalize (map id1 (filter (q_rej1 h) (cs1 s))) as ids1.
  generalize (map id2 (filter (q_rej2 h) (cs2 s))) as ids2. intros ids2 ids1.
  apply good_bind; [apply each1_good; [apply rej1_ok|exact Hs]|]. intros s' Hs'.
  apply each2_good; [apply rej2_ok|exact Hs'].
Qed.

Lemma apply_block_good b s : Inv s -> good (apply_block b s).
Proof.
  intros Hs. destruct b as [[i ch] rj]. unfold apply_block.
  apply good_bind; [apply apply_contracts_good; exact Hs|]. intros s' Hs'.
  destruct rj; [apply reject_contracts_good; exact Hs'|exact Hs'].
Qed.

Lemma revert_block_good b s : Inv s -> good (revert_block b s).
Proof. intros Hs. apply revert_contracts_good; exact Hs. Qed.

Lemma chain_update_good revs apps s : Inv s -> good (chain_update revs apps s).
Proof.
  intros Hs. unfold chain_update. apply good_bind.
  - apply (foldM_good _ Inv (eq PNegStat)); [|exact Hs]. intros; apply revert_block_good; auto.
  - intros s' Hs'. apply (foldM_good _ Inv (eq PNegStat)); [|exact Hs']. intros; apply apply_block_good; auto.
Qed.

(** * adding rows *)
Lemma contrib1_pending c k : s1 c = Pending -> contrib1 c k = 0.
Proof. intros H. unfold contrib1. rewrite H. destruct k; reflexivity. Qed.
Lemma contrib2_pending c k : s2 c = P2 -> contrib2 c k = 0.
Proof. intros H. unfold contrib2. rewrite H. destruct k; reflexivity. Qed.

Lemma add1_good c s : s1 c = Pending -> Inv s -> good (add1 c s).
Proof.
  intros Hp (Hn1 & Hn2 & Hm). unfold add1, good.
  destruct (find1 (id1 c) (cs1 s)) eqn:E; [exact I|]. cbn.
  apply findk_none in E. repeat split; cbn.
  - rewrite map_app. cbn. apply NoDup_app_single; assumption.
  - exact Hn2.
  - intros k. rewrite msum1_app, Hm. unfold msum1 at 3; cbn. rewrite contrib1_pending by exact Hp. lia.
Qed.
Lemma add2_good c s : s2 c = P2 -> Inv s -> good (add2 c s).
Proof.
  intros Hp (Hn1 & Hn2 & Hm). unfold add2, good.
  destruct (find2 (id2 c) (cs2 s)) eqn:E; [exact I|]. cbn.
  apply findk_none in E. repeat split; cbn.
  - exact Hn1.
  - rewrite map_app. cbn. apply NoDup_app_single; assumption.
  - intros k. rewrite msum2_app, Hm. unfold msum2 at 3; cbn. rewrite contrib2_pending by exact Hp. lia.
Qed.

(** * spending from accounts *)
Lemma dstep1_good a su f :
  Inv (fst su) -> goodr (fun su' : state * usage => Inv (fst su')) (eq PNegStat) (dstep1 a su f).
Proof.
  intros Hs. unfold dstep1. destruct (dist_row1 (snd su) (famt f)) as [[u' ad] rem].
  set (s0 := set_fund1 (fst su) _).
  assert (H0 : Inv s0) by (apply (Inv_ext (fst su)); auto).
  pose proof (with1_good (fc f) (debit_row1 (famt f - rem) ad) s0 (debit_row1_ok _ _) H0) as Hg.
  unfold good in Hg. destruct (with1 _ _ s0); cbn in *; auto.
Qed.
Lemma dstep2_good a su f :
  Inv (fst su) -> goodr (fun su' : state * usage => Inv (fst su')) (eq PNegStat) (dstep2 a su f).
Proof.
  intros Hs. unfold dstep2. destruct (dist_row2 (snd su) (famt f)) as [[u' ad] rem].
  set (s0 := set_fund2 (fst su) _).
  assert (H0 : Inv s0) by (apply (Inv_ext (fst su)); auto).
  pose proof (with2_good (fc f) (debit_row2 (famt f - rem) ad) s0 (debit_row2_ok _ _) H0) as Hg.
  unfold good in Hg. destruct (with2 _ _ s0); cbn in *; auto.
Qed.

Lemma distribute1_good a u s : Inv s -> good (distribute1 a u s).
Proof.
  intros Hs. unfold distribute1.
  pose proof (foldM_good (dstep1 a) (fun su : state * usage => Inv (fst su)) (eq PNegStat)
                (fun su f => dstep1_good a su f) (filter (is_source a) (fund1 s)) (s, u) Hs) as H.
  unfold good. destruct (foldM _ _ _); cbn in *; auto.
Qed.
Lemma distribute2_good a u s : Inv s -> good (distribute2 a u s).
Proof.
  intros Hs. unfold distribute2.
  pose proof (foldM_good (dstep2 a) (fun su : state * usage => Inv (fst su)) (eq PNegStat)
                (fun su f => dstep2_good a su f) (filter (is_source a) (fund2 s)) (s, u) Hs) as H.
  unfold good. destruct (foldM _ _ _); cbn in *; auto.
Qed.

(** * recalcContractMetrics recomputes exactly the sums *)
Lemma recalc_v1_fold l : forall tl tp te,
  let '(tl', tp', te') := fold_left recalc_v1 l (tl, tp, te) in
  tl' = tl + msum1 l KLocked /\ uRisk tp' = uRisk tp + msum1 l KRisked /\
  (forall r, uget r tp' = uget r tp + msum1 l (KPot r)) /\
  (forall r, uget r te' = uget r te + msum1 l (KEarn r)).
Proof.
  unfold msum1.
  induction l as [|c t IH]; intros tl tp te; cbn [fold_left fold_right].
  - repeat split; intros; lia.
  - unfold recalc_v1 at 2, recalc_row.
    destruct c as [? st ? ? ? ? ? lk u]; destruct st; cbn [s1 st1_eqb locked1 use1];
      match goal with |- context [fold_left recalc_v1 t (?a, ?b, ?c)] =>
        specialize (IH a b c); destruct (fold_left recalc_v1 t (a, b, c)) as [[tl' tp'] te'] end;
      destruct IH as (I1 & I2 & I3 & I4); unfold contrib1; cbn [s1 locked1 use1];
      (split; [|split; [|split]]);
      try (intros r; specialize (I3 r); specialize (I4 r); destruct r, u, tp, te; cbn in *; lia);
      destruct u, tp, te; cbn in *; lia.
Qed.

Lemma recalc_v2_fold l : forall tl tp te,
  let '(tl', tp', te') := fold_left recalc_v2 l (tl, tp, te) in
  tl' = tl + msum2 l KLocked /\ uRisk tp' = uRisk tp + msum2 l KRisked /\
  (forall r, uget r tp' = uget r tp + msum2 l (KPot r)) /\
  (forall r, uget r te' = uget r te + msum2 l (KEarn r)).
Proof.
  unfold msum2.
  induction l as [|c t IH]; intros tl tp te; cbn [fold_left fold_right].
  - repeat split; intros; lia.
  - unfold recalc_v2 at 2, recalc_row.
    destruct c as [? st ? ? ? ? ? lk u]; destruct st; cbn [s2 st2_eqb locked2 use2 orb];
      match goal with |- context [fold_left recalc_v2 t (?a, ?b, ?c)] =>
        specialize (IH a b c); destruct (fold_left recalc_v2 t (a, b, c)) as [[tl' tp'] te'] end;
      destruct IH as (I1 & I2 & I3 & I4); unfold contrib2; cbn [s2 locked2 use2];
      (split; [|split; [|split]]);
      try (intros r; specialize (I3 r); specialize (I4 r); destruct r, u, tp, te; cbn in *; lia);
      destruct u, tp, te; cbn in *; lia.
Qed.

Lemma recalc_noop s : Inv s -> recalc s = mets s.
Proof.
  intros (_ & _ & Hm). apply metrics_ext. unfold recalc, recalc_totals.
  pose proof (recalc_v1_fold (cs1 s) 0 uzero uzero) as H1.
  destruct (fold_left recalc_v1 (cs1 s) (0, uzero, uzero)) as [[tl1 tp1] te1].
  pose proof (recalc_v2_fold (cs2 s) tl1 tp1 te1) as H2.
  destruct (fold_left recalc_v2 (cs2 s) (tl1, tp1, te1)) as [[tl tp] te].
  destruct H1 as (A1 & A2 & A3 & A4), H2 as (B1 & B2 & B3 & B4).
  intros k; rewrite Hm; destruct k as [| | | | | | |r|r]; cbn [mget];
    try (rewrite <- Hm; reflexivity).
  - cbn in *. lia.
  - cbn in *. lia.
  - specialize (A3 r); specialize (B3 r). destruct r; cbn in *; lia.
  - specialize (A4 r); specialize (B4 r). destruct r; cbn in *; lia.
Qed.

(** * every operation *)
Lemma credit_fund2_inv id deps : forall s, Inv s ->
  Inv (fold_left (fun s (d : N * N) =>
         set_fund2 (set_accts s (credit (fst d) (snd d) (accts s)))
                   (fupsert id (fst d) (snd d) (fund2 s))) deps s).
Proof.
  induction deps as [|d t IH]; intros s Hs; cbn; [exact Hs|].
  apply IH. apply (Inv_ext s); auto.
Qed.

Lemma msum2_reset l k : msum2 (map (fun c => set_elem2 c None) l) k = msum2 l k.
Proof. unfold msum2. induction l as [|c t IH]; cbn; [reflexivity|]. rewrite IH. reflexivity. Qed.
Lemma ids_reset l : map id2 (map (fun c => set_elem2 c None) l) = map id2 l.
Proof. induction l as [|c t IH]; cbn; [reflexivity|]. rewrite IH. reflexivity. Qed.

Lemma exec_good o s : Inv s -> good (exec o s).
Proof.
  intros Hs. destruct o; cbn [exec].
  - apply add1_good; [reflexivity|exact Hs].
  - apply add2_good; [reflexivity|exact Hs].
  - apply with1_good; [apply revise1_ok|exact Hs].
  - apply with2_good; [apply revise2_ok|exact Hs].
  - apply good_bind; [apply add1_good; [reflexivity|exact Hs]|]. intros s' Hs'.
    apply with1_good; [apply revise1_ok|exact Hs'].
  - apply good_bind; [apply add2_good; [reflexivity|exact Hs]|]. intros s' Hs'.
    destruct (find2 old (cs2 s')); [exact Hs'|exact I].
  - apply good_bind.
    + apply with1_good; [apply revise1_ok|]. apply (Inv_ext s); auto.
    + intros s' Hs'. apply (Inv_ext s'); auto.
  - destruct (alookup a (accts s)) as [b|]; [|exact I].
    destruct (b <? utotal1 u); [exact I|].
    apply distribute1_good. apply (Inv_ext s); auto.
  - destruct (find2 id (cs2 s)); [|exact I].
    apply with2_good; [apply revise2_ok|]. apply credit_fund2_inv; exact Hs.
  - destruct (alookup a (accts s)) as [b|]; [|exact I].
    destruct (b <? ucost2 u); [exact I|].
    apply distribute2_good. apply (Inv_ext s); auto.
  - apply chain_update_good; exact Hs.
  - unfold good; cbn. destruct Hs as (Hn1 & Hn2 & Hm). repeat split; cbn.
    + exact Hn1.
    + rewrite ids_reset. exact Hn2.
    + intros k. rewrite msum2_reset. apply Hm.
  - unfold good; cbn. apply (Inv_ext s); auto. cbn. apply recalc_noop; exact Hs.
Qed.

Lemma Inv_init : Inv init.
Proof. repeat split; cbn; try constructor. intros k; destruct k as [| | | | | | |r|r]; try destruct r; reflexivity. Qed.

Lemma step_inv s o : Inv s -> Inv (fst (step s o)).
Proof.
  intros Hs. unfold step. pose proof (exec_good o s Hs) as H. unfold good in H.
  destruct (exec o s); cbn in *; auto.
Qed.

Definition runs (s : state) (l : list op) : state := fold_left (fun s o => fst (step s o)) l s.

Lemma runs_inv l : forall s, Inv s -> Inv (runs s l).
Proof. induction l as [|o t IH]; intros s Hs; cbn; [exact Hs|]. apply IH, step_inv, Hs. Qed.

Lemma run_inv l : Inv (run init step l).
Proof. apply (runs_inv l init Inv_init). Qed.

Lemma step_no_negstat s o : Inv s -> fst (snd (step s o)) <> CPanic PNegStat.
Proof.
  intros Hs. unfold step. pose proof (exec_good o s Hs) as H. unfold good in H.
  destruct (exec o s); cbn in *; try discriminate. intros [= ->]. apply H; reflexivity.
Qed.

(** * recount *)
Definition count1 (st : st1) (l : list c1) : N :=
  N.of_nat (length (filter (fun c => st1_eqb (s1 c) st) l)).
Definition count2 (st : st2) (l : list c2) : N :=
  N.of_nat (length (filter (fun c => st2_eqb (s2 c) st) l)).

(* the metrics recomputed from the contract lists: recounted status counters, and
   recalcContractMetrics' totals for collateral and revenue *)
Definition recompute (l1 : list c1) (l2 : list c2) : metrics :=
  let '(tl, tp, te) := recalc_totals l1 l2 in
  mkM (count1 Active l1 + count2 A2 l2) (count1 Rejected l1 + count2 R2 l2)
      (count1 Successful l1 + count2 S2 l2) (count1 Failed l1 + count2 F2 l2) (count2 N2 l2)
      tl (uRisk tp) (uRpc tp) (uSto tp) (uIng tp) (uEgr tp) (uRR tp) (uRW tp)
      (uRpc te) (uSto te) (uIng te) (uEgr te) (uRR te) (uRW te).

Lemma msum1_count l :
  msum1 l KAct = count1 Active l /\ msum1 l KRej = count1 Rejected l /\
  msum1 l KSucc = count1 Successful l /\ msum1 l KFail = count1 Failed l /\ msum1 l KRen = 0.
Proof.
  unfold msum1, count1. induction l as [|c t IH]; cbn [fold_right filter length]; [repeat split|].
  destruct IH as (I1 & I2 & I3 & I4 & I5). rewrite I1, I2, I3, I4, I5.
  destruct c as [? st ? ? ? ? ? ? ?]; destruct st; cbn -[N.of_nat N.add]; repeat split; lia.
Qed.
Lemma msum2_count l :
  msum2 l KAct = count2 A2 l /\ msum2 l KRej = count2 R2 l /\
  msum2 l KSucc = count2 S2 l /\ msum2 l KFail = count2 F2 l /\ msum2 l KRen = count2 N2 l.
Proof.
  unfold msum2, count2. induction l as [|c t IH]; cbn [fold_right filter length]; [repeat split|].
  destruct IH as (I1 & I2 & I3 & I4 & I5). rewrite I1, I2, I3, I4, I5.
  destruct c as [? st ? ? ? ? ? ? ?]; destruct st; cbn -[N.of_nat N.add]; repeat split; lia.
Qed.

Lemma inv_recompute s : Inv s -> mets s = recompute (cs1 s) (cs2 s).
Proof.
  intros Hs. pose proof (recalc_noop s Hs) as Hr. destruct Hs as (_ & _ & Hm).
  apply metrics_ext. intros k.
  destruct (msum1_count (cs1 s)) as (A1 & A2 & A3 & A4 & A5).
  destruct (msum2_count (cs2 s)) as (B1 & B2 & B3 & B4 & B5).
  unfold recompute. rewrite <- Hr at 1. unfold recalc.
  destruct (recalc_totals (cs1 s) (cs2 s)) as [[tl tp] te].
  pose proof (Hm KAct) as H1; pose proof (Hm KRej) as H2; pose proof (Hm KSucc) as H3;
  pose proof (Hm KFail) as H4; pose proof (Hm KRen) as H5. cbn [mget] in H1, H2, H3, H4, H5.
  destruct k as [| | | | | | |r|r]; try destruct r; cbn [mget nAct nRej nSucc nFail nRen];
    try reflexivity; lia.
Qed.
