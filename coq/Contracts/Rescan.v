(* Contracts/Rescan.v — ResetChainState followed by processing the same best chain again from the
   first block ends in the state the store was in (up to one-way rejection), and no block of the
   rescan fails: the "skipping rescan state transition" branches are exactly the ones met. *)
From Coq Require Import Lia ZifyBool ZifyN.
From HostdBase Require Import Base.
From HostdContracts Require Import Model Lib Inv InvOps Chain PerContract Proj Rows SpecLemmas Steps Plain.
Local Open Scope N_scope.

(* x: what the whole chain gives; xP: what the part processed so far gives; z: the row *)
Definition rs1 (x xP z : ch1) : Prop :=
  if h_formed x
  then h_st z = h_st x /\ h_formed z = true /\ h_res z = h_res x /\
       (h_conf z = h_conf xP \/ (h_conf z = h_conf x /\ h_conf xP = 0))
  else heqv1 z x.
Definition rs2 (x xP z : ch2) : Prop :=
  match g_conf x with
  | Some _ => g_st z = g_st x /\ g_conf z = g_conf x /\ g_res z = g_res x /\ g_elem z = g_elem xP
  | None => heqv2 z x
  end.

Lemma rs1_init x z : heqv1 z x -> rs1 x fresh_h1 z.
Proof. unfold rs1, heqv1. h1 x; h1 z; crush; destruct fo; crush. Qed.
Lemma rs1_final x z : rs1 x x z -> heqv1 z x.
Proof. unfold rs1, heqv1. h1 x; h1 z; cbn; destruct fo; crush. Qed.

Lemma rs2_init x z : cinv2 x -> heqv2 z x ->
  rs2 x fresh_h2 (mkH2 (g_st z) (g_conf z) (g_res z) None).
Proof. unfold rs2, heqv2, cinv2. h2 x; h2 z; crush. Qed.
Lemma rs2_final x z : rs2 x x z -> heqv2 z x.
Proof. unfold rs2, heqv2. h2 x; h2 z; cbn; dmatch; crush. Qed.

(* one change met during a rescan, for a contract the chain confirms *)
Lemma rs1_ev h e x xP z : cinv1 x -> h_formed x = true -> rs1 x xP z -> final1 e (h_st x) ->
  rs1 x (spec_ev1 h e xP) (spec_ev1 h e z).
Proof.
  intros Hc Efx Hr Hf. unfold rs1 in *. rewrite Efx in *. destruct Hr as (A & B & C & D).
  revert Hc A B C D Hf Efx. unfold cinv1. h1 x; h1 z; h1 xP; destruct e; crush.
Qed.
Lemma rs2_ev i e x xP z : cinv2 x -> g_conf x <> None -> rs2 x xP z -> final2 e (g_st x) ->
  rs2 x (spec_ev2 i e xP) (spec_ev2 i e z).
Proof.
  intros Hc Efx Hr Hf. unfold rs2 in *. destruct (g_conf x) as [ci|] eqn:E; [|congruence].
  destruct Hr as (A & B & C & D).
  revert Hc A B C D Hf E. unfold cinv2. h2 x; h2 z; h2 xP; destruct e; crush.
Qed.

Lemma rs1_evs h l x : forall xP z, cinv1 x -> h_formed x = true -> rs1 x xP z ->
  (forall e, In e l -> final1 e (h_st x)) -> rs1 x (spec_evs1 h l xP) (spec_evs1 h l z).
Proof.
  induction l as [|e t IH]; intros xP z Hc Efx Hr Hf; [exact Hr|]. rewrite !spec_evs1_cons.
  apply IH; auto; [|intros e' He'; apply Hf; right; exact He'].
  apply rs1_ev; auto. apply Hf; left; reflexivity.
Qed.
Lemma rs2_evs i l x : forall xP z, cinv2 x -> g_conf x <> None -> rs2 x xP z ->
  (forall e, In e l -> final2 e (g_st x)) -> rs2 x (spec_evs2 i l xP) (spec_evs2 i l z).
Proof.
  induction l as [|e t IH]; intros xP z Hc Efx Hr Hf; [exact Hr|]. rewrite !spec_evs2_cons.
  apply IH; auto; [|intros e' He'; apply Hf; right; exact He'].
  apply rs2_ev; auto. apply Hf; left; reflexivity.
Qed.

Lemma rs1_formed_z x xP z : h_formed x = true -> rs1 x xP z -> h_formed z = true.
Proof. intros E H. unfold rs1 in H. rewrite E in H. tauto. Qed.
Lemma rs2_formed_z x xP z : g_conf x <> None -> rs2 x xP z -> g_conf z <> None.
Proof. intros E H. unfold rs2 in H. destruct (g_conf x); [|congruence]. destruct H as (_ & B & _). rewrite B. discriminate. Qed.

Lemma rs1_step buffer ng id b x xP z :
  cinv1 x -> rs1 x xP z ->
  (h_formed x = false -> evl1_of id b = []) ->
  (forall e, In e (evl1_of id b) -> final1 e (h_st x)) ->
  rs1 x (spec_block1 buffer ng id b xP) (spec_block1 buffer ng id b z).
Proof.
  intros Hc Hr Hn Hf. unfold spec_block1. destruct (h_formed x) eqn:Efx.
  - pose proof (rs1_evs (bheight b) (evl1_of id b) x xP z Hc Efx Hr Hf) as Hs.
    rewrite (rej1_formed _ _ (spec_evs1 (bheight b) (evl1_of id b) z)) by (eapply rs1_formed_z; eauto).
    revert Hs. generalize (spec_evs1 (bheight b) (evl1_of id b) xP) (spec_evs1 (bheight b) (evl1_of id b) z).
    intros xP' z'. unfold rs1. rewrite Efx.
    assert (Hcf : h_conf (spec_rej1 ng (rej_arg buffer (bheight b)) xP') = h_conf xP').
    { unfold spec_rej1. destruct (rej_arg _ _); [|reflexivity]. destruct (_ && _); reflexivity. }
    rewrite Hcf. auto.
  - rewrite (Hn eq_refl). cbn [spec_evs1 fold_left]. unfold rs1 in *. rewrite Efx in *.
    eapply heqv1_trans; [apply heqv1_rej; [exact Hc|exact Hr]|apply heqv1_rej_absorb; exact Hc].
Qed.

Lemma rs2_step buffer ng id b x xP z :
  cinv2 x -> rs2 x xP z ->
  (g_conf x = None -> evl2_of id b = []) ->
  (forall e, In e (evl2_of id b) -> final2 e (g_st x)) ->
  rs2 x (spec_block2 buffer ng id b xP) (spec_block2 buffer ng id b z).
Proof.
  intros Hc Hr Hn Hf. unfold spec_block2. destruct (g_conf x) as [ci|] eqn:Efx.
  - assert (Hne : g_conf x <> None) by (rewrite Efx; discriminate).
    pose proof (rs2_evs (bidx b) (evl2_of id b) x xP z Hc Hne Hr Hf) as Hs.
    rewrite (rej2_formed _ _ (spec_evs2 (bidx b) (evl2_of id b) z)) by (eapply rs2_formed_z; eauto).
    revert Hs. generalize (spec_evs2 (bidx b) (evl2_of id b) xP) (spec_evs2 (bidx b) (evl2_of id b) z).
    intros xP' z'. unfold rs2. rewrite Efx.
    assert (Hcf : g_elem (spec_rej2 ng (rej_arg buffer (bheight b)) xP') = g_elem xP').
    { unfold spec_rej2. destruct (rej_arg _ _); [|reflexivity]. destruct (_ && _); reflexivity. }
    rewrite Hcf. auto.
  - rewrite (Hn eq_refl). cbn [spec_evs2 fold_left]. unfold rs2 in *. rewrite Efx in *.
    eapply heqv2_trans; [apply heqv2_rej; [exact Hc|exact Hr]|apply heqv2_rej_absorb; exact Hc].
Qed.

(* the transitions met during a rescan succeed *)
Lemma rescan_row1 h e c x xP :
  cinv1 x -> rs1 x xP (proj1 c) -> h_formed x = true -> final1 e (h_st x) ->
  exists r, row1_of h e c = ROk r.
Proof.
  unfold cinv1, rs1. intros Hc Hr Hfx Hf. rewrite Hfx in Hr. revert Hc Hr Hf.
  c1d c; h1 x; destruct e; cbn; intros; crush; try (eexists; reflexivity).
Qed.
Lemma rescan_row2 i e c x xP :
  cinv2 x -> rs2 x xP (proj2 c) -> g_conf x <> None -> final2 e (g_st x) ->
  exists r, row2_of i e c = ROk r.
Proof.
  unfold cinv2, rs2. intros Hc Hr Hfx Hf. destruct (g_conf x) eqn:E; [|congruence]. revert Hc Hr Hf E.
  c2d c; h2 x; destruct e; cbn; intros; crush; try (eexists; reflexivity).
Qed.

Lemma rescan_rows1 h l x : forall c xP,
  cinv1 x -> rs1 x xP (proj1 c) -> h_formed x = true -> (forall e, In e l -> final1 e (h_st x)) ->
  rows_ok1 h l c.
Proof.
  induction l as [|e t IH]; intros c xP Hc Hr Hfx Hf; [exact I|].
  destruct (rescan_row1 h e c x xP Hc Hr Hfx (Hf e (or_introl eq_refl))) as [r Er].
  exists r. split; [exact Er|]. apply (IH _ (spec_ev1 h e xP)); auto; [|intros e' He'; apply Hf; right; exact He'].
  destruct (row1_proj _ _ _ _ Er) as [A _]. rewrite A. apply rs1_ev; auto. apply Hf; left; reflexivity.
Qed.
Lemma rescan_rows2 i l x : forall c xP,
  cinv2 x -> rs2 x xP (proj2 c) -> g_conf x <> None -> (forall e, In e l -> final2 e (g_st x)) ->
  rows_ok2 i l c.
Proof.
  induction l as [|e t IH]; intros c xP Hc Hr Hfx Hf; [exact I|].
  destruct (rescan_row2 i e c x xP Hc Hr Hfx (Hf e (or_introl eq_refl))) as [r Er].
  exists r. split; [exact Er|]. apply (IH _ (spec_ev2 i e xP)); auto; [|intros e' He'; apply Hf; right; exact He'].
  destruct (row2_proj _ _ _ _ Er) as [A _]. rewrite A. apply rs2_ev; auto. apply Hf; left; reflexivity.
Qed.

Lemma rescan_rej1 hm c x xP :
  cinv1 x -> rs1 x xP (proj1 c) -> q_rej1 hm c = true -> exists r, rej1 c = ROk r.
Proof.
  intros Hc Hr Hq. unfold rs1 in Hr. destruct (h_formed x) eqn:E.
  - exfalso. destruct Hr as (_ & B & _). unfold q_rej1 in Hq. cbn in B. rewrite B in Hq.
    rewrite Bool.andb_false_r in Hq. discriminate.
  - eapply rej1_succeeds; eauto.
Qed.
Lemma rescan_rej2 hm c x xP :
  cinv2 x -> rs2 x xP (proj2 c) -> q_rej2 hm c = true -> exists r, rej2 c = ROk r.
Proof.
  intros Hc Hr Hq. unfold rs2 in Hr. destruct (g_conf x) eqn:E.
  - exfalso. destruct Hr as (_ & B & _). unfold q_rej2 in Hq. cbn in B. rewrite B in Hq.
    rewrite Bool.andb_false_r in Hq. discriminate.
  - eapply rej2_succeeds; eauto.
Qed.

Section Rescan.
  Variable buffer : N.
  Variable s : state.        (* the store before the reset *)
  Variable K : list block.   (* the best chain it had processed *)
  Hypothesis HJ : J buffer s K.

  Definition RS (s' : state) (P : list block) : Prop :=
    Inv s' /\ (forall id, negof1 s' id = negof1 s id) /\ (forall id, negof2 s' id = negof2 s id) /\
    (forall id c, find1 id (cs1 s') = Some c ->
       rs1 (spec1 buffer (neg1 c) id K) (spec1 buffer (neg1 c) id P) (proj1 c)) /\
    (forall id c, find2 id (cs2 s') = Some c ->
       rs2 (spec2 buffer (neg2 c) id K) (spec2 buffer (neg2 c) id P) (proj2 c)).

  Lemma RS_reset : RS (reset_chain s) [].
  Proof.
    pose proof HJ as (Hs & Hck & Hr1 & Hr2).
    assert (Hf2 : forall id, find2 id (cs2 (reset_chain s)) = option_map (fun c => set_elem2 c None) (find2 id (cs2 s))).
    { intros id. cbn. unfold find2. apply findk_map_same. reflexivity. }
    split; [|split; [|split; [|split]]].
    - pose proof (exec_good Reset s Hs) as H. exact H.
    - intros id. reflexivity.
    - intros id. unfold negof2. rewrite Hf2. destruct (find2 id (cs2 s)); reflexivity.
    - intros id c Ef. cbn in Ef. cbn [spec1 fold_right]. apply rs1_init. apply Hr1; exact Ef.
    - intros id c' Ef. rewrite Hf2 in Ef. destruct (find2 id (cs2 s)) as [c|] eqn:E; [|discriminate].
      injection Ef as <-. destruct (row_facts2 _ _ _ _ _ HJ E) as (Hq & Hc & _ & _).
      cbn [spec2 fold_right]. apply (rs2_init _ (proj2 c)); assumption.
  Qed.

  Lemma RS_step s' P T b :
    K = T ++ b :: P -> RS s' P ->
    exists s'', apply_block (app_of buffer b) s' = ROk s'' /\ RS s'' (b :: P).
  Proof.
    intros HK (Hs' & N1 & N2 & R1 & R2). pose proof HJ as (Hs & Hck & _ & _).
    assert (Hsuf : chain_ok buffer (negof1 s) (negof2 s) (b :: P)) by (apply (chain_ok_suffix _ _ _ T); rewrite <- HK; exact Hck).
    destruct Hsuf as [(Hok & V1 & V2) _].
    assert (HbK : In b K) by (rewrite HK; apply in_or_app; right; left; reflexivity).
    (* facts about one row *)
    assert (F1 : forall id c, find1 id (cs1 s') = Some c ->
               rows_ok1 (bheight b) (evl1_of (id1 c) b) c /\
               (forall hm, rej_arg buffer (bheight b) = Some hm -> q_rej1 hm (evrow1 (bheight b) b c) = true ->
                  exists r, rej1 (evrow1 (bheight b) b c) = ROk r) /\
               rs1 (spec1 buffer (neg1 c) id K) (spec1 buffer (neg1 c) id (b :: P))
                   (spec_block1 buffer (neg1 c) (id1 c) b (proj1 c))).
    { intros id c Ef. destruct (find1_in_ids _ _ _ Ef) as [_ Hid]. rewrite Hid.
      assert (Hng : negof1 s id = Some (neg1 c)) by (rewrite <- N1; apply negof1_some; eauto).
      pose proof (spec1_cinv _ _ _ _ _ _ Hck Hng) as Hc.
      specialize (R1 id c Ef). set (x := spec1 buffer (neg1 c) id K) in *.
      assert (Hun : h_formed x = false -> evl1_of id b = []).
      { intros Hf. eapply spec1_unformed_unmentioned; eauto. }
      assert (Hfin : forall e, In e (evl1_of id b) -> final1 e (h_st x)).
      { intros e E. eapply spec1_final; eauto. }
      assert (P1 : rows_ok1 (bheight b) (evl1_of id b) c).
      { destruct (h_formed x) eqn:Efx; [|rewrite (Hun eq_refl); exact I].
        eapply rescan_rows1; eauto. }
      pose proof (rs1_step buffer (neg1 c) id b x _ _ Hc R1 Hun Hfin) as Hstep.
      split; [exact P1|]. split; [|rewrite spec1_cons; exact Hstep].
      intros hm Hrj Hq.
      destruct (evrow1_proj (bheight b) b c) as [A B]; [rewrite Hid; exact P1|]. rewrite Hid in A.
      destruct (h_formed x) eqn:Efx.
      - exfalso. unfold q_rej1 in Hq.
        assert (Hfz : formed (evrow1 (bheight b) b c) = true).
        { change (h_formed (proj1 (evrow1 (bheight b) b c)) = true). rewrite A.
          eapply rs1_formed_z; [exact Efx|]. apply rs1_evs; eauto. }
        rewrite Hfz in Hq. rewrite Bool.andb_false_r in Hq. discriminate.
      - unfold evrow1 in *. rewrite Hid, (Hun eq_refl) in *. cbn [applyl1 fold_left] in *.
        eapply rescan_rej1; eauto. }
    assert (F2 : forall id c, find2 id (cs2 s') = Some c ->
               rows_ok2 (bidx b) (evl2_of (id2 c) b) c /\
               (forall hm, rej_arg buffer (bheight b) = Some hm -> q_rej2 hm (evrow2 (bidx b) b c) = true ->
                  exists r, rej2 (evrow2 (bidx b) b c) = ROk r) /\
               rs2 (spec2 buffer (neg2 c) id K) (spec2 buffer (neg2 c) id (b :: P))
                   (spec_block2 buffer (neg2 c) (id2 c) b (proj2 c))).
    { intros id c Ef. destruct (find2_in_ids _ _ _ Ef) as [_ Hid]. rewrite Hid.
      assert (Hng : negof2 s id = Some (neg2 c)) by (rewrite <- N2; apply negof2_some; eauto).
      pose proof (spec2_cinv _ _ _ _ _ _ Hck Hng) as Hc.
      specialize (R2 id c Ef). set (x := spec2 buffer (neg2 c) id K) in *.
      assert (Hun : g_conf x = None -> evl2_of id b = []).
      { intros Hf. eapply spec2_unformed_unmentioned; eauto. }
      assert (Hfin : forall e, In e (evl2_of id b) -> final2 e (g_st x)).
      { intros e E. eapply spec2_final; eauto. }
      assert (P1 : rows_ok2 (bidx b) (evl2_of id b) c).
      { destruct (g_conf x) eqn:Efx; [|rewrite (Hun eq_refl); exact I].
        eapply rescan_rows2; eauto. rewrite Efx; discriminate. }
      pose proof (rs2_step buffer (neg2 c) id b x _ _ Hc R2 Hun Hfin) as Hstep.
      split; [exact P1|]. split; [|rewrite spec2_cons; exact Hstep].
      intros hm Hrj Hq.
      destruct (evrow2_proj (bidx b) b c) as [A B]; [rewrite Hid; exact P1|]. rewrite Hid in A.
      destruct (g_conf x) as [ci|] eqn:Efx.
      - exfalso. unfold q_rej2 in Hq.
        assert (Hne : g_conf x <> None) by (rewrite Efx; discriminate).
        assert (Hfz : conf2 (evrow2 (bidx b) b c) <> None).
        { change (g_conf (proj2 (evrow2 (bidx b) b c)) <> None). rewrite A.
          eapply rs2_formed_z; [exact Hne|]. apply rs2_evs; eauto. }
        destruct (conf2 (evrow2 (bidx b) b c)); [|congruence].
        rewrite Bool.andb_false_r in Hq. discriminate.
      - unfold evrow2 in *. rewrite Hid, (Hun eq_refl) in *. cbn [applyl2 fold_left] in *.
        eapply rescan_rej2; eauto. }
    assert (I1 : forall id c, find1 id (cs1 s') = Some c -> id1 c = id) by (intros id c Ef; apply (find1_in_ids _ _ _ Ef)).
    assert (I2 : forall id c, find2 id (cs2 s') = Some c -> id2 c = id) by (intros id c Ef; apply (find2_in_ids _ _ _ Ef)).
    destruct (apply_block_rows buffer b s' Hs') as (s'' & E & Hs'' & Hf1 & Hf2).
    { intros id Ev. destruct (V1 id Ev) as (ng & Hn & _). rewrite <- N1 in Hn. unfold negof1 in Hn.
      destruct (find1 id (cs1 s')); discriminate. }
    { intros id Ev. destruct (V2 id Ev) as (ng & Hn & _). rewrite <- N2 in Hn. unfold negof2 in Hn.
      destruct (find2 id (cs2 s')); discriminate. }
    { intros id c Ef. destruct (F1 id c Ef) as (P1 & _ & _). rewrite (I1 id c Ef) in P1. exact P1. }
    { intros id c Ef. destruct (F2 id c Ef) as (P1 & _ & _). rewrite (I2 id c Ef) in P1. exact P1. }
    { intros hm id c Hrj Ef. apply (F1 id c Ef). exact Hrj. }
    { intros hm id c Hrj Ef. apply (F2 id c Ef). exact Hrj. }
    exists s''. split; [exact E|]. split; [exact Hs''|]. split; [|split; [|split]].
    - intros id. rewrite <- N1. apply (negof1_map s' s'' (blkrow1 buffer b) Hf1).
      intros i c Ef. destruct (F1 i c Ef) as (P1 & Q1 & _).
      destruct (blkrow1_proj buffer b c P1 Q1) as [_ B]. apply stat1_id in B. tauto.
    - intros id. rewrite <- N2. apply (negof2_map s' s'' (blkrow2 buffer b) Hf2).
      intros i c Ef. destruct (F2 i c Ef) as (P1 & Q1 & _).
      destruct (blkrow2_proj buffer b c P1 Q1) as [_ B]. apply stat2_id in B. tauto.
    - intros id c' Ef'. rewrite Hf1 in Ef'. destruct (find1 id (cs1 s')) as [c|] eqn:Ef; [|discriminate].
      injection Ef' as <-. destruct (F1 id c Ef) as (P1 & Q1 & Hq).
      destruct (blkrow1_proj buffer b c P1 Q1) as [A B]. destruct (stat1_id _ _ B) as [_ Hng].
      rewrite A, Hng. exact Hq.
    - intros id c' Ef'. rewrite Hf2 in Ef'. destruct (find2 id (cs2 s')) as [c|] eqn:Ef; [|discriminate].
      injection Ef' as <-. destruct (F2 id c Ef) as (P1 & Q1 & Hq).
      destruct (blkrow2_proj buffer b c P1 Q1) as [A B]. destruct (stat2_id _ _ B) as [_ Hng].
      rewrite A, Hng. exact Hq.
  Qed.

  Lemma RS_steps L2 : forall L1 s',
    rev K = L1 ++ L2 -> RS s' (rev L1) ->
    exists s'', foldM (fun s b => apply_block b s) (map (app_of buffer) L2) s' = ROk s'' /\ RS s'' K.
  Proof.
    induction L2 as [|b L2 IH]; intros L1 s' HK HR.
    - exists s'. split; [reflexivity|]. rewrite app_nil_r in HK. rewrite <- HK, rev_involutive in HR. exact HR.
    - destruct (RS_step s' (rev L1) (rev L2) b) as (s1 & E1 & HR1); [|exact HR|].
      { rewrite <- (rev_involutive K), HK, rev_app_distr. cbn [rev]. rewrite <- app_assoc. reflexivity. }
      destruct (IH (L1 ++ [b]) s1) as (s2 & E2 & HR2).
      { rewrite HK, <- app_assoc. reflexivity. }
      { rewrite rev_app_distr. exact HR1. }
      exists s2. split; [|exact HR2]. cbn [map foldM]. rewrite E1. exact E2.
  Qed.

  Lemma RS_done s' : RS s' K -> J buffer s' K.
  Proof.
    intros (Hs' & N1 & N2 & R1 & R2). pose proof HJ as (_ & Hck & _).
    split; [exact Hs'|]. split; [eapply chain_ok_eq; eauto|]. split.
    - intros id c Ef. apply rs1_final. apply R1; exact Ef.
    - intros id c Ef. apply rs2_final. apply R2; exact Ef.
  Qed.

  Lemma rescan_J :
    exists s', hexec buffer (s, K) HRescan = ROk (s', K) /\ J buffer s' K /\
               (forall id, negof1 s' id = negof1 s id) /\ (forall id, negof2 s' id = negof2 s id).
  Proof.
    destruct (RS_steps (rev K) [] (reset_chain s) eq_refl RS_reset) as (s' & E & HR).
    exists s'. split; [|split; [apply RS_done; exact HR|destruct HR as (_ & N1 & N2 & _); auto]].
    cbn [hexec exec rbind chain_update foldM]. rewrite E. reflexivity.
  Qed.
End Rescan.
