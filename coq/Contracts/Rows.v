(* Contracts/Rows.v — one block, all rows: apply_block / revert_block / reject_contracts
   succeed when every touched row accepts its transition, and then every row of the store is
   the per-row function of the row before. *)
From Coq Require Import Lia ZifyBool ZifyN.
From HostdBase Require Import Base.
From HostdContracts Require Import Model Lib Inv InvOps Chain PerContract Proj.
Local Open Scope N_scope.

Lemma row1_of_ok h e : row_ok1 (row1_of h e).
Proof. destruct e; cbn; [apply form1_ok|apply revise_conf1_ok|apply succ1_ok|apply fail1_ok]. Qed.
Lemma rrow1_of_ok e : row_ok1 (rrow1_of e).
Proof. destruct e; cbn; [apply rform1_ok|apply revise_conf1_ok|apply rsucc1_ok|apply rfail1_ok]. Qed.
Lemma row2_of_ok i e : row_ok2 (row2_of i e).
Proof. destruct e; cbn; [apply form2_ok|apply revise_elem2_ok|apply succ2_S_ok|apply succ2_N_ok|apply fail2_ok]. Qed.
Lemma rrow2_of_ok e : row_ok2 (rrow2_of e).
Proof. destruct e; cbn; [apply rform2_ok|apply revise_elem2_ok|apply rsucc2_S_ok|apply rsucc2_N_ok|apply rfail2_ok]. Qed.

(* per-row functions: a row goes through the changes the block carries for it, in order *)
Definition evrow1 (h : N) (b : block) (c : c1) : c1 := applyl1 h (evl1_of (id1 c) b) c.
Definition evrow2 (i : idx) (b : block) (c : c2) : c2 := applyl2 i (evl2_of (id2 c) b) c.
Definition revrow1 (b : block) (c : c1) : c1 := revertl1 (revl1_of (id1 c) b) c.
Definition revrow2 (b : block) (c : c2) : c2 := revertl2 (evl2_of (id2 c) b) c.
Definition rejrow1 (rj : option N) (c : c1) : c1 :=
  match rj with Some hm => if q_rej1 hm c then fstok (rej1 c) c else c | None => c end.
Definition rejrow2 (rj : option N) (c : c2) : c2 :=
  match rj with Some hm => if q_rej2 hm c then fstok (rej2 c) c else c | None => c end.
Definition blkrow1 (buffer : N) (b : block) (c : c1) : c1 :=
  rejrow1 (rej_arg buffer (bheight b)) (evrow1 (bheight b) b c).
Definition blkrow2 (buffer : N) (b : block) (c : c2) : c2 :=
  rejrow2 (rej_arg buffer (bheight b)) (evrow2 (bidx b) b c).

Lemma fold_left_map {X Y Z} (f : Z -> Y -> Z) (g : X -> Y) l : forall z,
  fold_left f (map g l) z = fold_left (fun z x => f z (g x)) l z.
Proof. induction l as [|x t IH]; intros z; cbn; auto. Qed.

Lemma seql1_evs {E} (g : E -> c1 -> rs (c1 * list mop)) (l : list (N * E)) c :
  seql1 (fun p => g (snd p)) l c = fold_left (fun c e => fstok (g e c) c) (map snd l) c.
Proof. unfold seql1. rewrite fold_left_map. reflexivity. Qed.
Lemma seql2_evs {E} (g : E -> c2 -> rs (c2 * list mop)) (l : list (N * E)) c :
  seql2 (fun p => g (snd p)) l c = fold_left (fun c e => fstok (g e c) c) (map snd l) c.
Proof. unfold seql2. rewrite fold_left_map. reflexivity. Qed.

Lemma seq_rows1 h (l : list (N * pev1)) : forall c,
  seq_ok1 (fun p => row1_of h (snd p)) l c <-> rows_ok1 h (map snd l) c.
Proof. induction l as [|p t IH]; intros c; cbn; [tauto|]. split; intros (r & Hr & Ht); exists r; split; auto; apply IH; auto. Qed.
Lemma seq_rrows1 (l : list (N * pev1)) : forall c,
  seq_ok1 (fun p => rrow1_of (snd p)) l c <-> rrows_ok1 (map snd l) c.
Proof. induction l as [|p t IH]; intros c; cbn; [tauto|]. split; intros (r & Hr & Ht); exists r; split; auto; apply IH; auto. Qed.
Lemma seq_rows2 i (l : list (N * pev2)) : forall c,
  seq_ok2 (fun p => row2_of i (snd p)) l c <-> rows_ok2 i (map snd l) c.
Proof. induction l as [|p t IH]; intros c; cbn; [tauto|]. split; intros (r & Hr & Ht); exists r; split; auto; apply IH; auto. Qed.
Lemma seq_rrows2 (l : list (N * pev2)) : forall c,
  seq_ok2 (fun p => rrow2_of (snd p)) l c <-> rrows_ok2 (map snd l) c.
Proof. induction l as [|p t IH]; intros c; cbn; [tauto|]. split; intros (r & Hr & Ht); exists r; split; auto; apply IH; auto. Qed.

(* a change of the block concerns a contract the block mentions *)
Lemma in_evs_evl {E} (l : list (N * E)) p : In p l -> map snd (filter (fun q => fst q =? fst p) l) <> [].
Proof.
  intros Hin H. apply map_eq_nil in H.
  assert (Hf : In p (filter (fun q => fst q =? fst p) l)) by (apply filter_In; split; [exact Hin|apply N.eqb_refl]).
  rewrite H in Hf. destruct Hf.
Qed.

(** * events of a block *)
Lemma apply_events_rows b s :
  Inv s ->
  (forall id, evl1_of id b <> [] -> find1 id (cs1 s) <> None) ->
  (forall id, evl2_of id b <> [] -> find2 id (cs2 s) <> None) ->
  (forall id c, find1 id (cs1 s) = Some c -> rows_ok1 (bheight b) (evl1_of id b) c) ->
  (forall id c, find2 id (cs2 s) = Some c -> rows_ok2 (bidx b) (evl2_of id b) c) ->
  exists s', apply_contracts (bidx b) (changes_of false b) s = ROk s' /\ Inv s' /\
    (forall id, find1 id (cs1 s') = option_map (evrow1 (bheight b) b) (find1 id (cs1 s))) /\
    (forall id, find2 id (cs2 s') = option_map (evrow2 (bidx b) b) (find2 id (cs2 s))).
Proof.
  intros Hs K1 K2 P1 P2. rewrite apply_contracts_folds.
  destruct (fs1_spec _ fst (fun p => row1_of (bheight b) (snd p)) (fun p => row1_of_ok _ _) (evs1 b) s Hs)
    as (s1 & E1 & Hs1 & Hc2 & Hf1).
  { intros p Hp. apply K1. apply in_evs_evl; exact Hp. }
  { intros id c Ef. apply seq_rows1. apply (P1 id c Ef). }
  destruct (fs2_spec _ fst (fun p => row2_of (bidx b) (snd p)) (fun p => row2_of_ok _ _) (evs2 b) s1 Hs1)
    as (s2 & E2 & Hs2 & Hc1 & Hf2).
  { intros p Hp. rewrite Hc2. apply K2. apply in_evs_evl; exact Hp. }
  { intros id c Ef. rewrite Hc2 in Ef. apply seq_rows2. apply (P2 id c Ef). }
  exists s2. split; [|split; [exact Hs2|split]].
  - unfold A1. unfold A1 in E1. rewrite E1. cbn [rbind]. exact E2.
  - intros id. rewrite Hc1, Hf1. destruct (find1 id (cs1 s)) as [c|] eqn:Ef; cbn; [|reflexivity].
    destruct (find1_in_ids _ _ _ Ef) as [_ Hid]. unfold evrow1, applyl1, evl1_of. rewrite seql1_evs, Hid. reflexivity.
  - intros id. rewrite Hf2, Hc2. destruct (find2 id (cs2 s)) as [c|] eqn:Ef; cbn; [|reflexivity].
    destruct (find2_in_ids _ _ _ Ef) as [_ Hid]. unfold evrow2, applyl2, evl2_of. rewrite seql2_evs, Hid. reflexivity.
Qed.

(* RevertContracts meets the changes of a contract in the order of ApplyContracts with the formation last *)
Lemma filter_all {X} (p : X -> bool) l : (forall x, In x l -> p x = true) -> filter p l = l.
Proof. induction l as [|x t IH]; cbn; [reflexivity|]. intros H. rewrite (H x (or_introl eq_refl)). f_equal. apply IH; auto. Qed.
Lemma filter_none {X} (p : X -> bool) l : (forall x, In x l -> p x = false) -> filter p l = [].
Proof. induction l as [|x t IH]; cbn; [reflexivity|]. intros H. rewrite (H x (or_introl eq_refl)). apply IH; auto. Qed.
Lemma sel_const {X} (mk : X -> N * pev1) (e0 : pev1) id (L : list X) :
  (forall x, snd (mk x) = e0) -> forall e, In e (map snd (filter (fun p => fst p =? id) (map mk L))) -> e = e0.
Proof.
  intros Hmk e He. apply in_map_iff in He. destruct He as (p & <- & Hp). apply filter_In in Hp.
  destruct Hp as [Hp _]. apply in_map_iff in Hp. destruct Hp as (x & <- & _). apply Hmk.
Qed.

Lemma revl1_rorder id b : revl1_of id b = rorder1 (evl1_of id b).
Proof.
  unfold revl1_of, evl1_of, revs1, evs1, rorder1. rewrite !filter_app, !map_app, !filter_app.
  set (c := map snd (filter _ (map (fun id0 => (id0, PForm1)) (bConf1 b)))).
  set (r := map snd (filter _ (map _ (bRev1 b)))).
  set (sc := map snd (filter _ (map (fun id0 => (id0, PSucc1)) (bSucc1 b)))).
  set (f := map snd (filter _ (map (fun id0 => (id0, PFail1)) (bFail1 b)))).
  assert (Hc : forall e, In e c -> e = PForm1) by (apply sel_const; reflexivity).
  assert (Hs : forall e, In e sc -> e = PSucc1) by (apply sel_const; reflexivity).
  assert (Hf : forall e, In e f -> e = PFail1) by (apply sel_const; reflexivity).
  assert (Hr : forall e, In e r -> is_form1 e = false).
  { intros e He. unfold r in He. apply in_map_iff in He. destruct He as (p & <- & Hp). apply filter_In in Hp.
    destruct Hp as [Hp _]. apply in_map_iff in Hp. destruct Hp as (x & <- & _). reflexivity. }
  rewrite (filter_none _ c), (filter_all _ r), (filter_all _ sc), (filter_all _ f),
          (filter_all _ c), (filter_none _ r), (filter_none _ sc), (filter_none _ f).
  - cbn [app]. rewrite !app_nil_r, <- !app_assoc. reflexivity.
  - intros e He. rewrite (Hf e He). reflexivity.
  - intros e He. rewrite (Hs e He). reflexivity.
  - exact Hr.
  - intros e He. rewrite (Hc e He). reflexivity.
  - intros e He. rewrite (Hf e He). reflexivity.
  - intros e He. rewrite (Hs e He). reflexivity.
  - intros e He. rewrite (Hr e He). reflexivity.
  - intros e He. rewrite (Hc e He). reflexivity.
Qed.

Lemma revert_block_rows b s :
  Inv s ->
  (forall id, revl1_of id b <> [] -> find1 id (cs1 s) <> None) ->
  (forall id, evl2_of id b <> [] -> find2 id (cs2 s) <> None) ->
  (forall id c, find1 id (cs1 s) = Some c -> rrows_ok1 (revl1_of id b) c) ->
  (forall id c, find2 id (cs2 s) = Some c -> rrows_ok2 (evl2_of id b) c) ->
  exists s', revert_block (rev_of b) s = ROk s' /\ Inv s' /\
    (forall id, find1 id (cs1 s') = option_map (revrow1 b) (find1 id (cs1 s))) /\
    (forall id, find2 id (cs2 s') = option_map (revrow2 b) (find2 id (cs2 s))).
Proof.
  intros Hs K1 K2 P1 P2. unfold revert_block, rev_of. cbn [snd]. rewrite revert_contracts_folds.
  destruct (fs1_spec _ fst (fun p => rrow1_of (snd p)) (fun p => rrow1_of_ok _) (revs1 b) s Hs)
    as (s1 & E1 & Hs1 & Hc2 & Hf1).
  { intros p Hp. apply K1. apply in_evs_evl; exact Hp. }
  { intros id c Ef. apply seq_rrows1. apply (P1 id c Ef). }
  destruct (fs2_spec _ fst (fun p => rrow2_of (snd p)) (fun p => rrow2_of_ok _) (evs2 b) s1 Hs1)
    as (s2 & E2 & Hs2 & Hc1 & Hf2).
  { intros p Hp. rewrite Hc2. apply K2. apply in_evs_evl; exact Hp. }
  { intros id c Ef. rewrite Hc2 in Ef. apply seq_rrows2. apply (P2 id c Ef). }
  exists s2. split; [|split; [exact Hs2|split]].
  - unfold R1. unfold R1 in E1. rewrite E1. cbn [rbind]. exact E2.
  - intros id. rewrite Hc1, Hf1. destruct (find1 id (cs1 s)) as [c|] eqn:Ef; cbn; [|reflexivity].
    destruct (find1_in_ids _ _ _ Ef) as [_ Hid]. unfold revrow1, revertl1, revl1_of. rewrite seql1_evs, Hid. reflexivity.
  - intros id. rewrite Hf2, Hc2. destruct (find2 id (cs2 s)) as [c|] eqn:Ef; cbn; [|reflexivity].
    destruct (find2_in_ids _ _ _ Ef) as [_ Hid]. unfold revrow2, revertl2, evl2_of. rewrite seql2_evs, Hid. reflexivity.
Qed.

(** * RejectContracts *)
Lemma NoDup_map_filter {A} (key : A -> N) (q : A -> bool) l :
  NoDup (map key l) -> NoDup (map key (filter q l)).
Proof.
  induction l as [|a t IH]; cbn; [auto|]. intros H. inversion H as [|? ? Ha Ht]; subst.
  destruct (q a); cbn; [constructor|]; auto.
  intros Hin. apply Ha. apply in_map_iff in Hin. destruct Hin as (x & Hx & Hf).
  apply filter_In in Hf. rewrite <- Hx. apply in_map; tauto.
Qed.

Lemma find1_of_in l c : NoDup (map id1 l) -> In c l -> find1 (id1 c) l = Some c.
Proof.
  unfold find1. induction l as [|x t IH]; cbn; [tauto|]. intros Hnd [->|Hin].
  - rewrite N.eqb_refl. reflexivity.
  - inversion Hnd as [|? ? Hx Ht]; subst. destruct (id1 x =? id1 c) eqn:E; [|auto].
    exfalso; apply Hx. assert (id1 x = id1 c) as -> by lia. apply in_map; exact Hin.
Qed.
Lemma find2_of_in l c : NoDup (map id2 l) -> In c l -> find2 (id2 c) l = Some c.
Proof.
  unfold find2. induction l as [|x t IH]; cbn; [tauto|]. intros Hnd [->|Hin].
  - rewrite N.eqb_refl. reflexivity.
  - inversion Hnd as [|? ? Hx Ht]; subst. destruct (id2 x =? id2 c) eqn:E; [|auto].
    exfalso; apply Hx. assert (id2 x = id2 c) as -> by lia. apply in_map; exact Hin.
Qed.

Lemma find_id_in (l : list N) id : In id l -> find (fun a => a =? id) l = Some id.
Proof.
  induction l as [|a t IH]; cbn; [tauto|]. intros H.
  destruct (a =? id) eqn:E; [f_equal; lia|]. destruct H as [H|H]; [lia|auto].
Qed.

Lemma reject_rows hm s :
  Inv s ->
  (forall id c, find1 id (cs1 s) = Some c -> q_rej1 hm c = true -> exists r, rej1 c = ROk r) ->
  (forall id c, find2 id (cs2 s) = Some c -> q_rej2 hm c = true -> exists r, rej2 c = ROk r) ->
  exists s', reject_contracts hm s = ROk s' /\ Inv s' /\
    (forall id, find1 id (cs1 s') = option_map (rejrow1 (Some hm)) (find1 id (cs1 s))) /\
    (forall id, find2 id (cs2 s') = option_map (rejrow2 (Some hm)) (find2 id (cs2 s))).
Proof.
  intros Hs P1 P2. pose proof Hs as (Hnd1 & Hnd2 & _). unfold reject_contracts, each1, each2.
  set (ids1 := map id1 (filter (q_rej1 hm) (cs1 s))).
  set (ids2 := map id2 (filter (q_rej2 hm) (cs2 s))).
  destruct (fw1_spec _ (fun id : N => id) (fun _ => rej1) (fun _ => rej1_ok) ids1 s Hs) as (s1 & E1 & Hs1 & Hc2 & Hf1).
  { rewrite map_id. apply NoDup_map_filter; exact Hnd1. }
  { intros a Ha. unfold ids1 in Ha. apply in_map_iff in Ha. destruct Ha as (c & <- & Hc).
    apply filter_In in Hc. destruct Hc as [Hc Hq].
    pose proof (find1_of_in _ _ Hnd1 Hc) as Ef. destruct (P1 _ _ Ef Hq) as [r Hr]. eauto. }
  destruct (fw2_spec _ (fun id : N => id) (fun _ => rej2) (fun _ => rej2_ok) ids2 s1 Hs1) as (s2 & E2 & Hs2 & Hc1 & Hf2).
  { rewrite map_id. apply NoDup_map_filter; exact Hnd2. }
  { intros a Ha. unfold ids2 in Ha. apply in_map_iff in Ha. destruct Ha as (c & <- & Hc).
    apply filter_In in Hc. destruct Hc as [Hc Hq]. rewrite Hc2.
    pose proof (find2_of_in _ _ Hnd2 Hc) as Ef. destruct (P2 _ _ Ef Hq) as [r Hr]. eauto. }
  exists s2. split; [rewrite E1; cbn [rbind]; exact E2|split; [exact Hs2|split]].
  - intros id. rewrite Hc1, Hf1. destruct (find1 id (cs1 s)) as [c|] eqn:Ef; [|reflexivity].
    cbn [option_map]. f_equal. unfold updl1, rejrow1.
    destruct (find1_in_ids _ _ _ Ef) as [_ Hid]. pose proof (findk_in _ _ _ _ _ Ef) as Hin.
    destruct (q_rej1 hm c) eqn:Hq.
    + rewrite (find_id_in ids1 (id1 c)); [reflexivity|].
      unfold ids1. apply in_map. apply filter_In; auto.
    + rewrite (find_absent (fun id : N => id)); [reflexivity|]. rewrite map_id.
      unfold ids1. intros H. apply in_map_iff in H. destruct H as (c' & Hc' & Hf').
      apply filter_In in Hf'. destruct Hf' as [Hin' Hq'].
      pose proof (find1_of_in _ _ Hnd1 Hin') as E'. rewrite Hc', Hid, Ef in E'.
      injection E' as E'. congruence.
  - intros id. rewrite Hf2, Hc2. destruct (find2 id (cs2 s)) as [c|] eqn:Ef; [|reflexivity].
    cbn [option_map]. f_equal. unfold updl2, rejrow2.
    destruct (find2_in_ids _ _ _ Ef) as [_ Hid]. pose proof (findk_in _ _ _ _ _ Ef) as Hin.
    destruct (q_rej2 hm c) eqn:Hq.
    + rewrite (find_id_in ids2 (id2 c)); [reflexivity|].
      unfold ids2. apply in_map. apply filter_In; auto.
    + rewrite (find_absent (fun id : N => id)); [reflexivity|]. rewrite map_id.
      unfold ids2. intros H. apply in_map_iff in H. destruct H as (c' & Hc' & Hf').
      apply filter_In in Hf'. destruct Hf' as [Hin' Hq'].
      pose proof (find2_of_in _ _ Hnd2 Hin') as E'. rewrite Hc', Hid, Ef in E'.
      injection E' as E'. congruence.
Qed.

(** * a whole applied block *)
Lemma apply_block_rows buffer b s :
  Inv s ->
  (forall id, evl1_of id b <> [] -> find1 id (cs1 s) <> None) ->
  (forall id, evl2_of id b <> [] -> find2 id (cs2 s) <> None) ->
  (forall id c, find1 id (cs1 s) = Some c -> rows_ok1 (bheight b) (evl1_of id b) c) ->
  (forall id c, find2 id (cs2 s) = Some c -> rows_ok2 (bidx b) (evl2_of id b) c) ->
  (forall hm id c, rej_arg buffer (bheight b) = Some hm -> find1 id (cs1 s) = Some c ->
     q_rej1 hm (evrow1 (bheight b) b c) = true -> exists r, rej1 (evrow1 (bheight b) b c) = ROk r) ->
  (forall hm id c, rej_arg buffer (bheight b) = Some hm -> find2 id (cs2 s) = Some c ->
     q_rej2 hm (evrow2 (bidx b) b c) = true -> exists r, rej2 (evrow2 (bidx b) b c) = ROk r) ->
  exists s', apply_block (app_of buffer b) s = ROk s' /\ Inv s' /\
    (forall id, find1 id (cs1 s') = option_map (blkrow1 buffer b) (find1 id (cs1 s))) /\
    (forall id, find2 id (cs2 s') = option_map (blkrow2 buffer b) (find2 id (cs2 s))).
Proof.
  intros Hs K1 K2 P1 P2 Q1 Q2.
  destruct (apply_events_rows b s Hs K1 K2 P1 P2) as (s1 & E1 & Hs1 & Hf1 & Hf2).
  unfold apply_block, app_of. rewrite E1. cbn [rbind]. unfold blkrow1, blkrow2.
  destruct (rej_arg buffer (bheight b)) as [hm|] eqn:Er.
  - destruct (reject_rows hm s1 Hs1) as (s2 & E2 & Hs2 & Hg1 & Hg2).
    { intros id c Ef Hq. rewrite Hf1 in Ef. destruct (find1 id (cs1 s)) as [c0|] eqn:E0; [|discriminate].
      injection Ef as <-. apply (Q1 hm id c0 eq_refl E0 Hq). }
    { intros id c Ef Hq. rewrite Hf2 in Ef. destruct (find2 id (cs2 s)) as [c0|] eqn:E0; [|discriminate].
      injection Ef as <-. apply (Q2 hm id c0 eq_refl E0 Hq). }
    exists s2. split; [exact E2|split; [exact Hs2|split]].
    + intros id. rewrite Hg1, Hf1. destruct (find1 id (cs1 s)); reflexivity.
    + intros id. rewrite Hg2, Hf2. destruct (find2 id (cs2 s)); reflexivity.
  - exists s1. split; [reflexivity|split; [exact Hs1|split]].
    + intros id. rewrite Hf1. destruct (find1 id (cs1 s)); reflexivity.
    + intros id. rewrite Hf2. destruct (find2 id (cs2 s)); reflexivity.
Qed.

(** * the per-row functions on the chain columns *)
Lemma evrow1_proj h b c : rows_ok1 h (evl1_of (id1 c) b) c ->
  proj1 (evrow1 h b c) = spec_evs1 h (evl1_of (id1 c) b) (proj1 c) /\ stat1 (evrow1 h b c) = stat1 c.
Proof. apply applyl1_proj. Qed.
Lemma evrow2_proj i b c : rows_ok2 i (evl2_of (id2 c) b) c ->
  proj2 (evrow2 i b c) = spec_evs2 i (evl2_of (id2 c) b) (proj2 c) /\ stat2 (evrow2 i b c) = stat2 c.
Proof. apply applyl2_proj. Qed.
Lemma revrow1_proj b c : rrows_ok1 (revl1_of (id1 c) b) c ->
  proj1 (revrow1 b c) = rspec_evs1 (revl1_of (id1 c) b) (proj1 c) /\ stat1 (revrow1 b c) = stat1 c.
Proof. apply revertl1_proj. Qed.
Lemma revrow2_proj b c : rrows_ok2 (evl2_of (id2 c) b) c ->
  proj2 (revrow2 b c) = rspec_evs2 (evl2_of (id2 c) b) (proj2 c) /\ stat2 (revrow2 b c) = stat2 c.
Proof. apply revertl2_proj. Qed.

Lemma rejrow1_proj rj c :
  (forall hm, rj = Some hm -> q_rej1 hm c = true -> exists r, rej1 c = ROk r) ->
  proj1 (rejrow1 rj c) = spec_rej1 (neg1 c) rj (proj1 c) /\ stat1 (rejrow1 rj c) = stat1 c.
Proof.
  intros H. unfold rejrow1, spec_rej1. destruct rj as [hm|]; [|auto].
  rewrite <- q_rej1_proj. destruct (q_rej1 hm c) eqn:Hq; [|auto].
  destruct (H hm eq_refl Hq) as [r Hr]. rewrite Hr. cbn [fstok].
  destruct (rej1_proj _ _ Hr) as [A B]. split; [rewrite A; reflexivity|exact B].
Qed.
Lemma rejrow2_proj rj c :
  (forall hm, rj = Some hm -> q_rej2 hm c = true -> exists r, rej2 c = ROk r) ->
  proj2 (rejrow2 rj c) = spec_rej2 (neg2 c) rj (proj2 c) /\ stat2 (rejrow2 rj c) = stat2 c.
Proof.
  intros H. unfold rejrow2, spec_rej2. destruct rj as [hm|]; [|auto].
  rewrite <- q_rej2_proj. destruct (q_rej2 hm c) eqn:Hq; [|auto].
  destruct (H hm eq_refl Hq) as [r Hr]. rewrite Hr. cbn [fstok].
  destruct (rej2_proj _ _ Hr) as [A B]. split; [rewrite A; reflexivity|exact B].
Qed.

Lemma stat1_id c c' : stat1 c' = stat1 c -> id1 c' = id1 c /\ neg1 c' = neg1 c.
Proof. unfold stat1. intros [= -> -> _ _ _]. auto. Qed.
Lemma stat2_id c c' : stat2 c' = stat2 c -> id2 c' = id2 c /\ neg2 c' = neg2 c.
Proof. unfold stat2. intros [= -> -> _ _ _]. auto. Qed.

Lemma blkrow1_proj buffer b c :
  rows_ok1 (bheight b) (evl1_of (id1 c) b) c ->
  (forall hm, rej_arg buffer (bheight b) = Some hm -> q_rej1 hm (evrow1 (bheight b) b c) = true ->
     exists r, rej1 (evrow1 (bheight b) b c) = ROk r) ->
  proj1 (blkrow1 buffer b c) = spec_block1 buffer (neg1 c) (id1 c) b (proj1 c) /\
  stat1 (blkrow1 buffer b c) = stat1 c.
Proof.
  intros H1 H2. unfold blkrow1, spec_block1.
  destruct (evrow1_proj (bheight b) b c H1) as [A B].
  destruct (rejrow1_proj (rej_arg buffer (bheight b)) (evrow1 (bheight b) b c) H2) as [C D].
  destruct (stat1_id _ _ B) as [_ Hng]. rewrite C, A, Hng, D, B. auto.
Qed.
Lemma blkrow2_proj buffer b c :
  rows_ok2 (bidx b) (evl2_of (id2 c) b) c ->
  (forall hm, rej_arg buffer (bheight b) = Some hm -> q_rej2 hm (evrow2 (bidx b) b c) = true ->
     exists r, rej2 (evrow2 (bidx b) b c) = ROk r) ->
  proj2 (blkrow2 buffer b c) = spec_block2 buffer (neg2 c) (id2 c) b (proj2 c) /\
  stat2 (blkrow2 buffer b c) = stat2 c.
Proof.
  intros H1 H2. unfold blkrow2, spec_block2.
  destruct (evrow2_proj (bidx b) b c H1) as [A B].
  destruct (rejrow2_proj (rej_arg buffer (bheight b)) (evrow2 (bidx b) b c) H2) as [C D].
  destruct (stat2_id _ _ B) as [_ Hng]. rewrite C, A, Hng, D, B. auto.
Qed.
