(* Contracts/Rows.v — one block, all rows: apply_block / revert_block / reject_contracts
   succeed when every touched row accepts its transition, and then every row of the store is
   the per-row function of the row before. *)
From Coq Require Import Lia ZifyBool ZifyN.
From HostdBase Require Import Base.
From HostdContracts Require Import Model Lib Inv InvOps Chain PerContract Proj.
Local Open Scope N_scope.

Lemma row1_of_ok h e : row_ok1 (row1_of h e).
Proof. destruct e; cbn; [apply form1_ok|apply revise_conf1_ok|apply succ1_ok|apply fail1_ok]. Qed.
Lemma rrow1_of_ok e : row_ok1 (rrow1_of e).
Proof. destruct e; cbn; [apply rform1_ok|apply revise_conf1_ok|apply rsucc1_ok|apply rfail1_ok]. Qed.
Lemma row2_of_ok i e : row_ok2 (row2_of i e).
Proof. destruct e; cbn; [apply form2_ok|apply revise_elem2_ok|apply succ2_S_ok|apply succ2_N_ok|apply fail2_ok]. Qed.
Lemma rrow2_of_ok e : row_ok2 (rrow2_of e).
Proof. destruct e; cbn; [apply rform2_ok|apply revise_elem2_ok|apply rsucc2_S_ok|apply rsucc2_N_ok|apply rfail2_ok]. Qed.

(* per-row functions *)
Definition evrow1 (h : N) (b : block) (c : c1) : c1 :=
  match ev1_of (id1 c) b with Some e => fstok (row1_of h e c) c | None => c end.
Definition evrow2 (i : idx) (b : block) (c : c2) : c2 :=
  match ev2_of (id2 c) b with Some e => fstok (row2_of i e c) c | None => c end.
Definition revrow1 (b : block) (c : c1) : c1 :=
  match ev1_of (id1 c) b with Some e => fstok (rrow1_of e c) c | None => c end.
Definition revrow2 (b : block) (c : c2) : c2 :=
  match ev2_of (id2 c) b with Some e => fstok (rrow2_of e c) c | None => c end.
Definition rejrow1 (rj : option N) (c : c1) : c1 :=
  match rj with Some hm => if q_rej1 hm c then fstok (rej1 c) c else c | None => c end.
Definition rejrow2 (rj : option N) (c : c2) : c2 :=
  match rj with Some hm => if q_rej2 hm c then fstok (rej2 c) c else c | None => c end.
Definition blkrow1 (buffer : N) (b : block) (c : c1) : c1 :=
  rejrow1 (rej_arg buffer (bheight b)) (evrow1 (bheight b) b c).
Definition blkrow2 (buffer : N) (b : block) (c : c2) : c2 :=
  rejrow2 (rej_arg buffer (bheight b)) (evrow2 (bidx b) b c).

Lemma updl1_evrow h b c : updl1 fst (fun p => row1_of h (snd p)) (evs1 b) c = evrow1 h b c.
Proof. unfold updl1, evrow1, ev1_of. destruct (find _ (evs1 b)); reflexivity. Qed.
Lemma updl2_evrow i b c : updl2 fst (fun p => row2_of i (snd p)) (evs2 b) c = evrow2 i b c.
Proof. unfold updl2, evrow2, ev2_of. destruct (find _ (evs2 b)); reflexivity. Qed.
Lemma updl1_revrow b c : updl1 fst (fun p => rrow1_of (snd p)) (evs1 b) c = revrow1 b c.
Proof. unfold updl1, revrow1, ev1_of. destruct (find _ (evs1 b)); reflexivity. Qed.
Lemma updl2_revrow b c : updl2 fst (fun p => rrow2_of (snd p)) (evs2 b) c = revrow2 b c.
Proof. unfold updl2, revrow2, ev2_of. destruct (find _ (evs2 b)); reflexivity. Qed.

Lemma find_nodup_in {A} (l : list (N * A)) p :
  NoDup (map fst l) -> In p l -> find (fun a => fst a =? fst p) l = Some p.
Proof.
  induction l as [|a t IH]; cbn; [tauto|]. intros Hnd [->|Hin].
  - rewrite N.eqb_refl. reflexivity.
  - inversion Hnd as [|? ? Ha Ht]; subst.
    destruct (fst a =? fst p) eqn:E; [|auto].
    exfalso; apply Ha. assert (fst a = fst p) as -> by lia. apply in_map; exact Hin.
Qed.

Lemma ev1_of_in b p : NoDup (ids1_of b) -> In p (evs1 b) -> ev1_of (fst p) b = Some (snd p).
Proof. intros Hnd Hin. unfold ev1_of. rewrite (find_nodup_in _ p Hnd Hin). reflexivity. Qed.
Lemma ev2_of_in b p : NoDup (ids2_of b) -> In p (evs2 b) -> ev2_of (fst p) b = Some (snd p).
Proof. intros Hnd Hin. unfold ev2_of. rewrite (find_nodup_in _ p Hnd Hin). reflexivity. Qed.

(** * events of a block *)
Lemma apply_events_rows b s :
  Inv s -> NoDup (ids1_of b) -> NoDup (ids2_of b) ->
  (forall id e, ev1_of id b = Some e ->
     exists c r, find1 id (cs1 s) = Some c /\ row1_of (bheight b) e c = ROk r) ->
  (forall id e, ev2_of id b = Some e ->
     exists c r, find2 id (cs2 s) = Some c /\ row2_of (bidx b) e c = ROk r) ->
  exists s', apply_contracts (bidx b) (changes_of false b) s = ROk s' /\ Inv s' /\
    (forall id, find1 id (cs1 s') = option_map (evrow1 (bheight b) b) (find1 id (cs1 s))) /\
    (forall id, find2 id (cs2 s') = option_map (evrow2 (bidx b) b) (find2 id (cs2 s))).
Proof.
  intros Hs Hn1 Hn2 P1 P2. rewrite apply_contracts_folds.
  destruct (fw1_spec _ fst (fun p => row1_of (bheight b) (snd p)) (fun p => row1_of_ok _ _) (evs1 b) s Hs Hn1)
    as (s1 & E1 & Hs1 & Hc2 & Hf1).
  { intros p Hp. apply (P1 (fst p) (snd p)). apply ev1_of_in; assumption. }
  destruct (fw2_spec _ fst (fun p => row2_of (bidx b) (snd p)) (fun p => row2_of_ok _ _) (evs2 b) s1 Hs1 Hn2)
    as (s2 & E2 & Hs2 & Hc1 & Hf2).
  { intros p Hp. rewrite Hc2. apply (P2 (fst p) (snd p)). apply ev2_of_in; assumption. }
  exists s2. split; [|split; [exact Hs2|split]].
  - unfold A1. unfold A1 in E1. rewrite E1. cbn [rbind]. exact E2.
  - intros id. rewrite Hc1, Hf1. destruct (find1 id (cs1 s)); cbn; [rewrite updl1_evrow|]; reflexivity.
  - intros id. rewrite Hf2, Hc2. destruct (find2 id (cs2 s)); cbn; [rewrite updl2_evrow|]; reflexivity.
Qed.

Lemma revert_block_rows b s :
  Inv s -> NoDup (ids1_of b) -> NoDup (ids2_of b) ->
  (forall id e, ev1_of id b = Some e ->
     exists c r, find1 id (cs1 s) = Some c /\ rrow1_of e c = ROk r) ->
  (forall id e, ev2_of id b = Some e ->
     exists c r, find2 id (cs2 s) = Some c /\ rrow2_of e c = ROk r) ->
  exists s', revert_block (rev_of b) s = ROk s' /\ Inv s' /\
    (forall id, find1 id (cs1 s') = option_map (revrow1 b) (find1 id (cs1 s))) /\
    (forall id, find2 id (cs2 s') = option_map (revrow2 b) (find2 id (cs2 s))).
Proof.
  intros Hs Hn1 Hn2 P1 P2. unfold revert_block, rev_of. cbn [snd]. rewrite revert_contracts_folds.
  destruct (fw1_spec _ fst (fun p => rrow1_of (snd p)) (fun p => rrow1_of_ok _) (evs1 b) s Hs Hn1)
    as (s1 & E1 & Hs1 & Hc2 & Hf1).
  { intros p Hp. apply (P1 (fst p) (snd p)). apply ev1_of_in; assumption. }
  destruct (fw2_spec _ fst (fun p => rrow2_of (snd p)) (fun p => rrow2_of_ok _) (evs2 b) s1 Hs1 Hn2)
    as (s2 & E2 & Hs2 & Hc1 & Hf2).
  { intros p Hp. rewrite Hc2. apply (P2 (fst p) (snd p)). apply ev2_of_in; assumption. }
  exists s2. split; [|split; [exact Hs2|split]].
  - unfold R1. unfold R1 in E1. rewrite E1. cbn [rbind]. exact E2.
  - intros id. rewrite Hc1, Hf1. destruct (find1 id (cs1 s)); cbn; [rewrite updl1_revrow|]; reflexivity.
  - intros id. rewrite Hf2, Hc2. destruct (find2 id (cs2 s)); cbn; [rewrite updl2_revrow|]; reflexivity.
Qed.

(** * RejectContracts *)
Lemma NoDup_map_filter {A} (key : A -> N) (q : A -> bool) l :
  NoDup (map key l) -> NoDup (map key (filter q l)).
Proof.
  induction l as [|a t IH]; cbn; [auto|]. intros H. inversion H as [|? ? Ha Ht]; subst.
  destruct (q a); cbn; [constructor|]; auto.
  intros Hin. apply Ha. apply in_map_iff in Hin. destruct Hin as (x & Hx & Hf).
  apply filter_In in Hf. rewrite <- Hx. apply in_map; tauto.
Qed.

Lemma find1_of_in l c : NoDup (map id1 l) -> In c l -> find1 (id1 c) l = Some c.
Proof.
  unfold find1. induction l as [|x t IH]; cbn; [tauto|]. intros Hnd [->|Hin].
  - rewrite N.eqb_refl. reflexivity.
  - inversion Hnd as [|? ? Hx Ht]; subst. destruct (id1 x =? id1 c) eqn:E; [|auto].
    exfalso; apply Hx. assert (id1 x = id1 c) as -> by lia. apply in_map; exact Hin.
Qed.
Lemma find2_of_in l c : NoDup (map id2 l) -> In c l -> find2 (id2 c) l = Some c.
Proof.
  unfold find2. induction l as [|x t IH]; cbn; [tauto|]. intros Hnd [->|Hin].
  - rewrite N.eqb_refl. reflexivity.
  - inversion Hnd as [|? ? Hx Ht]; subst. destruct (id2 x =? id2 c) eqn:E; [|auto].
    exfalso; apply Hx. assert (id2 x = id2 c) as -> by lia. apply in_map; exact Hin.
Qed.

Lemma find_id_in (l : list N) id : In id l -> find (fun a => a =? id) l = Some id.
Proof.
  induction l as [|a t IH]; cbn; [tauto|]. intros H.
  destruct (a =? id) eqn:E; [f_equal; lia|]. destruct H as [H|H]; [lia|auto].
Qed.

Lemma reject_rows hm s :
  Inv s ->
  (forall id c, find1 id (cs1 s) = Some c -> q_rej1 hm c = true -> exists r, rej1 c = ROk r) ->
  (forall id c, find2 id (cs2 s) = Some c -> q_rej2 hm c = true -> exists r, rej2 c = ROk r) ->
  exists s', reject_contracts hm s = ROk s' /\ Inv s' /\
    (forall id, find1 id (cs1 s') = option_map (rejrow1 (Some hm)) (find1 id (cs1 s))) /\
    (forall id, find2 id (cs2 s') = option_map (rejrow2 (Some hm)) (find2 id (cs2 s))).
Proof.
  intros Hs P1 P2. pose proof Hs as (Hnd1 & Hnd2 & _). unfold reject_contracts, each1, each2.
  set (ids1 := map id1 (filter (q_rej1 hm) (cs1 s))).
  set (ids2 := map id2 (filter (q_rej2 hm) (cs2 s))).
  destruct (fw1_spec _ (fun id : N => id) (fun _ => rej1) (fun _ => rej1_ok) ids1 s Hs) as (s1 & E1 & Hs1 & Hc2 & Hf1).
  { rewrite map_id. apply NoDup_map_filter; exact Hnd1. }
  { intros a Ha. unfold ids1 in Ha. apply in_map_iff in Ha. destruct Ha as (c & <- & Hc).
    apply filter_In in Hc. destruct Hc as [Hc Hq].
    pose proof (find1_of_in _ _ Hnd1 Hc) as Ef. destruct (P1 _ _ Ef Hq) as [r Hr]. eauto. }
  destruct (fw2_spec _ (fun id : N => id) (fun _ => rej2) (fun _ => rej2_ok) ids2 s1 Hs1) as (s2 & E2 & Hs2 & Hc1 & Hf2).
  { rewrite map_id. apply NoDup_map_filter; exact Hnd2. }
  { intros a Ha. unfold ids2 in Ha. apply in_map_iff in Ha. destruct Ha as (c & <- & Hc).
    apply filter_In in Hc. destruct Hc as [Hc Hq]. rewrite Hc2.
    pose proof (find2_of_in _ _ Hnd2 Hc) as Ef. destruct (P2 _ _ Ef Hq) as [r Hr]. eauto. }
  exists s2. split; [rewrite E1; cbn [rbind]; exact E2|split; [exact Hs2|split]].
  - intros id. rewrite Hc1, Hf1. destruct (find1 id (cs1 s)) as [c|] eqn:Ef; [|reflexivity].
    cbn [option_map]. f_equal. unfold updl1, rejrow1.
    destruct (find1_in_ids _ _ _ Ef) as [_ Hid]. pose proof (findk_in _ _ _ _ _ Ef) as Hin.
    destruct (q_rej1 hm c) eqn:Hq.
    + rewrite (find_id_in ids1 (id1 c)); [reflexivity|].
      unfold ids1. apply in_map. apply filter_In; auto.
    + rewrite (find_absent (fun id : N => id)); [reflexivity|]. rewrite map_id.
      unfold ids1. intros H. apply in_map_iff in H. destruct H as (c' & Hc' & Hf').
      apply filter_In in Hf'. destruct Hf' as [Hin' Hq'].
      pose proof (find1_of_in _ _ Hnd1 Hin') as E'. rewrite Hc', Hid, Ef in E'.
      injection E' as E'. congruence.
  - intros id. rewrite Hf2, Hc2. destruct (find2 id (cs2 s)) as [c|] eqn:Ef; [|reflexivity].
    cbn [option_map]. f_equal. unfold updl2, rejrow2.
    destruct (find2_in_ids _ _ _ Ef) as [_ Hid]. pose proof (findk_in _ _ _ _ _ Ef) as Hin.
    destruct (q_rej2 hm c) eqn:Hq.
    + rewrite (find_id_in ids2 (id2 c)); [reflexivity|].
      unfold ids2. apply in_map. apply filter_In; auto.
    + rewrite (find_absent (fun id : N => id)); [reflexivity|]. rewrite map_id.
      unfold ids2. intros H. apply in_map_iff in H. destruct H as (c' & Hc' & Hf').
      apply filter_In in Hf'. destruct Hf' as [Hin' Hq'].
      pose proof (find2_of_in _ _ Hnd2 Hin') as E'. rewrite Hc', Hid, Ef in E'.
      injection E' as E'. congruence.
Qed.

(** * a whole applied block *)
Lemma apply_block_rows buffer b s :
  Inv s -> NoDup (ids1_of b) -> NoDup (ids2_of b) ->
  (forall id e, ev1_of id b = Some e ->
     exists c r, find1 id (cs1 s) = Some c /\ row1_of (bheight b) e c = ROk r) ->
  (forall id e, ev2_of id b = Some e ->
     exists c r, find2 id (cs2 s) = Some c /\ row2_of (bidx b) e c = ROk r) ->
  (forall hm id c, rej_arg buffer (bheight b) = Some hm -> find1 id (cs1 s) = Some c ->
     q_rej1 hm (evrow1 (bheight b) b c) = true -> exists r, rej1 (evrow1 (bheight b) b c) = ROk r) ->
  (forall hm id c, rej_arg buffer (bheight b) = Some hm -> find2 id (cs2 s) = Some c ->
     q_rej2 hm (evrow2 (bidx b) b c) = true -> exists r, rej2 (evrow2 (bidx b) b c) = ROk r) ->
  exists s', apply_block (app_of buffer b) s = ROk s' /\ Inv s' /\
    (forall id, find1 id (cs1 s') = option_map (blkrow1 buffer b) (find1 id (cs1 s))) /\
    (forall id, find2 id (cs2 s') = option_map (blkrow2 buffer b) (find2 id (cs2 s))).
Proof.
  intros Hs Hn1 Hn2 P1 P2 Q1 Q2.
  destruct (apply_events_rows b s Hs Hn1 Hn2 P1 P2) as (s1 & E1 & Hs1 & Hf1 & Hf2).
  unfold apply_block, app_of. rewrite E1. cbn [rbind]. unfold blkrow1, blkrow2.
  destruct (rej_arg buffer (bheight b)) as [hm|] eqn:Er.
  - destruct (reject_rows hm s1 Hs1) as (s2 & E2 & Hs2 & Hg1 & Hg2).
    { intros id c Ef Hq. rewrite Hf1 in Ef. destruct (find1 id (cs1 s)) as [c0|] eqn:E0; [|discriminate].
      injection Ef as <-. apply (Q1 hm id c0 eq_refl E0 Hq). }
    { intros id c Ef Hq. rewrite Hf2 in Ef. destruct (find2 id (cs2 s)) as [c0|] eqn:E0; [|discriminate].
      injection Ef as <-. apply (Q2 hm id c0 eq_refl E0 Hq). }
    exists s2. split; [exact E2|split; [exact Hs2|split]].
    + intros id. rewrite Hg1, Hf1. destruct (find1 id (cs1 s)); reflexivity.
    + intros id. rewrite Hg2, Hf2. destruct (find2 id (cs2 s)); reflexivity.
  - exists s1. split; [reflexivity|split; [exact Hs1|split]].
    + intros id. rewrite Hf1. destruct (find1 id (cs1 s)); reflexivity.
    + intros id. rewrite Hf2. destruct (find2 id (cs2 s)); reflexivity.
Qed.

(** * the per-row functions on the chain columns *)
Lemma evrow1_proj h b c :
  (forall e, ev1_of (id1 c) b = Some e -> exists r, row1_of h e c = ROk r) ->
  proj1 (evrow1 h b c) = match ev1_of (id1 c) b with Some e => spec_ev1 h e (proj1 c) | None => proj1 c end
  /\ stat1 (evrow1 h b c) = stat1 c.
Proof.
  intros H. unfold evrow1. destruct (ev1_of (id1 c) b) as [e|]; [|auto].
  destruct (H e eq_refl) as [r Hr]. rewrite Hr. cbn [fstok]. apply row1_proj; exact Hr.
Qed.
Lemma evrow2_proj i b c :
  (forall e, ev2_of (id2 c) b = Some e -> exists r, row2_of i e c = ROk r) ->
  proj2 (evrow2 i b c) = match ev2_of (id2 c) b with Some e => spec_ev2 i e (proj2 c) | None => proj2 c end
  /\ stat2 (evrow2 i b c) = stat2 c.
Proof.
  intros H. unfold evrow2. destruct (ev2_of (id2 c) b) as [e|]; [|auto].
  destruct (H e eq_refl) as [r Hr]. rewrite Hr. cbn [fstok]. apply row2_proj; exact Hr.
Qed.
Lemma revrow1_proj b c :
  (forall e, ev1_of (id1 c) b = Some e -> exists r, rrow1_of e c = ROk r) ->
  proj1 (revrow1 b c) = match ev1_of (id1 c) b with Some e => rspec_ev1 e (proj1 c) | None => proj1 c end
  /\ stat1 (revrow1 b c) = stat1 c.
Proof.
  intros H. unfold revrow1. destruct (ev1_of (id1 c) b) as [e|]; [|auto].
  destruct (H e eq_refl) as [r Hr]. rewrite Hr. cbn [fstok]. apply rrow1_proj; exact Hr.
Qed.
Lemma revrow2_proj b c :
  (forall e, ev2_of (id2 c) b = Some e -> exists r, rrow2_of e c = ROk r) ->
  proj2 (revrow2 b c) = match ev2_of (id2 c) b with Some e => rspec_ev2 e (proj2 c) | None => proj2 c end
  /\ stat2 (revrow2 b c) = stat2 c.
Proof.
  intros H. unfold revrow2. destruct (ev2_of (id2 c) b) as [e|]; [|auto].
  destruct (H e eq_refl) as [r Hr]. rewrite Hr. cbn [fstok]. apply rrow2_proj; exact Hr.
Qed.

Lemma rejrow1_proj rj c :
  (forall hm, rj = Some hm -> q_rej1 hm c = true -> exists r, rej1 c = ROk r) ->
  proj1 (rejrow1 rj c) = spec_rej1 (neg1 c) rj (proj1 c) /\ stat1 (rejrow1 rj c) = stat1 c.
Proof.
  intros H. unfold rejrow1, spec_rej1. destruct rj as [hm|]; [|auto].
  rewrite <- q_rej1_proj. destruct (q_rej1 hm c) eqn:Hq; [|auto].
  destruct (H hm eq_refl Hq) as [r Hr]. rewrite Hr. cbn [fstok].
  destruct (rej1_proj _ _ Hr) as [A B]. split; [rewrite A; reflexivity|exact B].
Qed.
Lemma rejrow2_proj rj c :
  (forall hm, rj = Some hm -> q_rej2 hm c = true -> exists r, rej2 c = ROk r) ->
  proj2 (rejrow2 rj c) = spec_rej2 (neg2 c) rj (proj2 c) /\ stat2 (rejrow2 rj c) = stat2 c.
Proof.
  intros H. unfold rejrow2, spec_rej2. destruct rj as [hm|]; [|auto].
  rewrite <- q_rej2_proj. destruct (q_rej2 hm c) eqn:Hq; [|auto].
  destruct (H hm eq_refl Hq) as [r Hr]. rewrite Hr. cbn [fstok].
  destruct (rej2_proj _ _ Hr) as [A B]. split; [rewrite A; reflexivity|exact B].
Qed.

Lemma stat1_id c c' : stat1 c' = stat1 c -> id1 c' = id1 c /\ neg1 c' = neg1 c.
Proof. unfold stat1. intros [= -> -> _ _ _]. auto. Qed.
Lemma stat2_id c c' : stat2 c' = stat2 c -> id2 c' = id2 c /\ neg2 c' = neg2 c.
Proof. unfold stat2. intros [= -> -> _ _ _]. auto. Qed.

Lemma blkrow1_proj buffer b c :
  (forall e, ev1_of (id1 c) b = Some e -> exists r, row1_of (bheight b) e c = ROk r) ->
  (forall hm, rej_arg buffer (bheight b) = Some hm -> q_rej1 hm (evrow1 (bheight b) b c) = true ->
     exists r, rej1 (evrow1 (bheight b) b c) = ROk r) ->
  proj1 (blkrow1 buffer b c) = spec_block1 buffer (neg1 c) (id1 c) b (proj1 c) /\
  stat1 (blkrow1 buffer b c) = stat1 c.
Proof.
  intros H1 H2. unfold blkrow1, spec_block1.
  destruct (evrow1_proj (bheight b) b c H1) as [A B].
  destruct (rejrow1_proj (rej_arg buffer (bheight b)) (evrow1 (bheight b) b c) H2) as [C D].
  destruct (stat1_id _ _ B) as [_ Hng]. rewrite C, A, Hng, D, B. auto.
Qed.
Lemma blkrow2_proj buffer b c :
  (forall e, ev2_of (id2 c) b = Some e -> exists r, row2_of (bidx b) e c = ROk r) ->
  (forall hm, rej_arg buffer (bheight b) = Some hm -> q_rej2 hm (evrow2 (bidx b) b c) = true ->
     exists r, rej2 (evrow2 (bidx b) b c) = ROk r) ->
  proj2 (blkrow2 buffer b c) = spec_block2 buffer (neg2 c) (id2 c) b (proj2 c) /\
  stat2 (blkrow2 buffer b c) = stat2 c.
Proof.
  intros H1 H2. unfold blkrow2, spec_block2.
  destruct (evrow2_proj (bidx b) b c H1) as [A B].
  destruct (rejrow2_proj (rej_arg buffer (bheight b)) (evrow2 (bidx b) b c) H2) as [C D].
  destruct (stat2_id _ _ B) as [_ Hng]. rewrite C, A, Hng, D, B. auto.
Qed.
