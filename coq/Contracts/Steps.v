(* Contracts/Steps.v — the history invariant J and its preservation by connecting a valid block,
   disconnecting the tip, and any non-chain operation. *)
From Coq Require Import Lia ZifyBool ZifyN.
From HostdBase Require Import Base.
From HostdContracts Require Import Model Lib Inv InvOps Chain PerContract Proj Rows SpecLemmas.
Local Open Scope N_scope.

Definition rows_ok (buffer : N) (s : state) (K : list block) : Prop :=
  (forall id c, find1 id (cs1 s) = Some c -> heqv1 (proj1 c) (spec1 buffer (neg1 c) id K)) /\
  (forall id c, find2 id (cs2 s) = Some c -> heqv2 (proj2 c) (spec2 buffer (neg2 c) id K)).

(* the store is consistent (C05), the chain is valid for the contracts the store knows, and every
   row carries what processing the chain from scratch gives, up to one-way rejection *)
Definition J (buffer : N) (s : state) (K : list block) : Prop :=
  Inv s /\ chain_ok buffer (negof1 s) (negof2 s) K /\ rows_ok buffer s K.

Lemma negof1_some s id ng : negof1 s id = Some ng <-> exists c, find1 id (cs1 s) = Some c /\ neg1 c = ng.
Proof.
  unfold negof1. destruct (find1 id (cs1 s)) as [c|]; cbn; split.
  - intros [= <-]; eauto.
  - intros (c' & [= <-] & <-); reflexivity.
  - discriminate.
  - intros (c' & H & _); discriminate.
Qed.
Lemma negof2_some s id ng : negof2 s id = Some ng <-> exists c, find2 id (cs2 s) = Some c /\ neg2 c = ng.
Proof.
  unfold negof2. destruct (find2 id (cs2 s)) as [c|]; cbn; split.
  - intros [= <-]; eauto.
  - intros (c' & [= <-] & <-); reflexivity.
  - discriminate.
  - intros (c' & H & _); discriminate.
Qed.

Lemma row_facts1 buffer s K id c : J buffer s K -> find1 id (cs1 s) = Some c ->
  heqv1 (proj1 c) (spec1 buffer (neg1 c) id K) /\ cinv1 (spec1 buffer (neg1 c) id K) /\
  id1 c = id /\ negof1 s id = Some (neg1 c).
Proof.
  intros (Hs & Hck & Hr1 & _) Ef. assert (Hn : negof1 s id = Some (neg1 c)) by (apply negof1_some; eauto).
  split; [apply Hr1; exact Ef|]. split; [eapply spec1_cinv; eauto|].
  split; [apply (find1_in_ids _ _ _ Ef)|exact Hn].
Qed.
Lemma row_facts2 buffer s K id c : J buffer s K -> find2 id (cs2 s) = Some c ->
  heqv2 (proj2 c) (spec2 buffer (neg2 c) id K) /\ cinv2 (spec2 buffer (neg2 c) id K) /\
  id2 c = id /\ negof2 s id = Some (neg2 c).
Proof.
  intros (Hs & Hck & _ & Hr2) Ef. assert (Hn : negof2 s id = Some (neg2 c)) by (apply negof2_some; eauto).
  split; [apply Hr2; exact Ef|]. split; [eapply spec2_cinv; eauto|].
  split; [apply (find2_in_ids _ _ _ Ef)|exact Hn].
Qed.

(* the rows after a step are images of the rows before, keeping id and negotiation height *)
Lemma negof1_map s s' (f : c1 -> c1) :
  (forall id, find1 id (cs1 s') = option_map f (find1 id (cs1 s))) ->
  (forall id c, find1 id (cs1 s) = Some c -> neg1 (f c) = neg1 c) ->
  forall id, negof1 s' id = negof1 s id.
Proof.
  intros Hf Hn id. unfold negof1. rewrite Hf. destruct (find1 id (cs1 s)) as [c|] eqn:E; cbn; [|reflexivity].
  f_equal. eauto.
Qed.
Lemma negof2_map s s' (f : c2 -> c2) :
  (forall id, find2 id (cs2 s') = option_map f (find2 id (cs2 s))) ->
  (forall id c, find2 id (cs2 s) = Some c -> neg2 (f c) = neg2 c) ->
  forall id, negof2 s' id = negof2 s id.
Proof.
  intros Hf Hn id. unfold negof2. rewrite Hf. destruct (find2 id (cs2 s)) as [c|] eqn:E; cbn; [|reflexivity].
  f_equal. eauto.
Qed.

Lemma chain_ok_eq buffer n1 n2 n1' n2' K :
  (forall id, n1' id = n1 id) -> (forall id, n2' id = n2 id) ->
  chain_ok buffer n1 n2 K -> chain_ok buffer n1' n2' K.
Proof. intros H1 H2. apply chain_ok_mono; intros id ng; [rewrite H1|rewrite H2]; auto. Qed.

(** * connecting a valid block *)
Lemma apply_block_J buffer s K b :
  J buffer s K -> bvalid buffer (negof1 s) (negof2 s) K b ->
  exists s', apply_block (app_of buffer b) s = ROk s' /\ J buffer s' (b :: K) /\
             (forall id, negof1 s' id = negof1 s id) /\ (forall id, negof2 s' id = negof2 s id).
Proof.
  intros HJ Hbv. pose proof HJ as (Hs & Hck & Hr1 & Hr2). pose proof Hbv as (Hok & V1 & V2).
  (* what we know about a row and the changes the block carries for it *)
  assert (F1 : forall id c, find1 id (cs1 s) = Some c ->
             rows_ok1 (bheight b) (evl1_of (id1 c) b) c /\
             (forall hm, rej_arg buffer (bheight b) = Some hm -> q_rej1 hm (evrow1 (bheight b) b c) = true ->
                exists r, rej1 (evrow1 (bheight b) b c) = ROk r) /\
             heqv1 (spec_block1 buffer (neg1 c) (id1 c) b (proj1 c)) (spec1 buffer (neg1 c) id (b :: K))).
  { intros id c Ef. destruct (row_facts1 _ _ _ _ _ HJ Ef) as (Hq & Hc & Hid & Hng).
    assert (Hv : valid_evs1 (bheight b) (evl1_of id b) (spec1 buffer (neg1 c) id K)).
    { destruct (evl_dec (evl1_of id b)) as [E|E]; [rewrite E; exact I|].
      destruct (V1 id E) as (ng & Hn & Hv). congruence. }
    rewrite Hid.
    assert (P : rows_ok1 (bheight b) (evl1_of id b) c) by (eapply rows1_succeed; eauto).
    split; [exact P|]. split.
    - intros hm Hrj Hqr.
      destruct (evrow1_proj (bheight b) b c) as [A B]; [rewrite Hid; exact P|]. rewrite Hid in A.
      set (x := spec1 buffer (neg1 c) id K) in *.
      apply (rej1_succeeds hm _ (spec_evs1 (bheight b) (evl1_of id b) x)); [| |exact Hqr].
      + apply cinv1_evs; auto.
      + rewrite A. apply heqv1_evs; auto.
    - rewrite spec1_cons. apply heqv1_block; auto. }
  assert (F2 : forall id c, find2 id (cs2 s) = Some c ->
             rows_ok2 (bidx b) (evl2_of (id2 c) b) c /\
             (forall hm, rej_arg buffer (bheight b) = Some hm -> q_rej2 hm (evrow2 (bidx b) b c) = true ->
                exists r, rej2 (evrow2 (bidx b) b c) = ROk r) /\
             heqv2 (spec_block2 buffer (neg2 c) (id2 c) b (proj2 c)) (spec2 buffer (neg2 c) id (b :: K))).
  { intros id c Ef. destruct (row_facts2 _ _ _ _ _ HJ Ef) as (Hq & Hc & Hid & Hng).
    assert (Hv : valid_evs2 (bidx b) (evl2_of id b) (spec2 buffer (neg2 c) id K)).
    { destruct (evl_dec (evl2_of id b)) as [E|E]; [rewrite E; exact I|].
      destruct (V2 id E) as (ng & Hn & Hv). congruence. }
    rewrite Hid.
    assert (P : rows_ok2 (bidx b) (evl2_of id b) c) by (eapply rows2_succeed; eauto).
    split; [exact P|]. split.
    - intros hm Hrj Hqr.
      destruct (evrow2_proj (bidx b) b c) as [A B]; [rewrite Hid; exact P|]. rewrite Hid in A.
      set (x := spec2 buffer (neg2 c) id K) in *.
      apply (rej2_succeeds hm _ (spec_evs2 (bidx b) (evl2_of id b) x)); [| |exact Hqr].
      + apply cinv2_evs; auto.
      + rewrite A. apply heqv2_evs; auto.
    - rewrite spec2_cons. apply heqv2_block; auto. }
  assert (I1 : forall id c, find1 id (cs1 s) = Some c -> id1 c = id) by (intros id c Ef; apply (find1_in_ids _ _ _ Ef)).
  assert (I2 : forall id c, find2 id (cs2 s) = Some c -> id2 c = id) by (intros id c Ef; apply (find2_in_ids _ _ _ Ef)).
  destruct (apply_block_rows buffer b s Hs) as (s' & E & Hs' & Hf1 & Hf2).
  { intros id Ev. destruct (V1 id Ev) as (ng & Hn & _). unfold negof1 in Hn. destruct (find1 id (cs1 s)); [discriminate|discriminate]. }
  { intros id Ev. destruct (V2 id Ev) as (ng & Hn & _). unfold negof2 in Hn. destruct (find2 id (cs2 s)); [discriminate|discriminate]. }
  { intros id c Ef. destruct (F1 id c Ef) as (P & _ & _). rewrite (I1 id c Ef) in P. exact P. }
  { intros id c Ef. destruct (F2 id c Ef) as (P & _ & _). rewrite (I2 id c Ef) in P. exact P. }
  { intros hm id c Hrj Ef. apply (F1 id c Ef). exact Hrj. }
  { intros hm id c Hrj Ef. apply (F2 id c Ef). exact Hrj. }
  assert (N1 : forall id, negof1 s' id = negof1 s id).
  { apply (negof1_map s s' (blkrow1 buffer b) Hf1). intros id c Ef. destruct (F1 id c Ef) as (P & Q & _).
    destruct (blkrow1_proj buffer b c P Q) as [_ B]. apply stat1_id in B. tauto. }
  assert (N2 : forall id, negof2 s' id = negof2 s id).
  { apply (negof2_map s s' (blkrow2 buffer b) Hf2). intros id c Ef. destruct (F2 id c Ef) as (P & Q & _).
    destruct (blkrow2_proj buffer b c P Q) as [_ B]. apply stat2_id in B. tauto. }
  exists s'. split; [exact E|]. split; [|split; assumption].
  split; [exact Hs'|]. split.
  - eapply chain_ok_eq; [exact N1|exact N2|]. cbn. split; assumption.
  - split.
    + intros id c' Ef'. rewrite Hf1 in Ef'. destruct (find1 id (cs1 s)) as [c|] eqn:Ef; [|discriminate].
      injection Ef' as <-. destruct (F1 id c Ef) as (P & Q & Hq).
      destruct (blkrow1_proj buffer b c P Q) as [A B]. destruct (stat1_id _ _ B) as [_ Hng].
      rewrite A, Hng. exact Hq.
    + intros id c' Ef'. rewrite Hf2 in Ef'. destruct (find2 id (cs2 s)) as [c|] eqn:Ef; [|discriminate].
      injection Ef' as <-. destruct (F2 id c Ef) as (P & Q & Hq).
      destruct (blkrow2_proj buffer b c P Q) as [A B]. destruct (stat2_id _ _ B) as [_ Hng].
      rewrite A, Hng. exact Hq.
Qed.

(** * disconnecting the tip *)
Lemma revert_block_J buffer s K b :
  J buffer s (b :: K) ->
  exists s', revert_block (rev_of b) s = ROk s' /\ J buffer s' K /\
             (forall id, negof1 s' id = negof1 s id) /\ (forall id, negof2 s' id = negof2 s id).
Proof.
  intros HJ. pose proof HJ as (Hs & Hck & Hr1 & Hr2).
  destruct Hck as [Hbv Hk]. pose proof Hbv as (Hok & V1 & V2).
  assert (F1 : forall id c, find1 id (cs1 s) = Some c ->
             rrows_ok1 (revl1_of (id1 c) b) c /\
             heqv1 (rspec_evs1 (revl1_of (id1 c) b) (proj1 c)) (spec1 buffer (neg1 c) id K)).
  { intros id c Ef. destruct (row_facts1 _ _ _ _ _ HJ Ef) as (Hq & _ & Hid & Hng).
    pose proof (spec1_cinv _ _ _ _ _ _ Hk Hng) as Hc. rewrite Hid, revl1_rorder.
    rewrite spec1_cons in Hq. set (x := spec1 buffer (neg1 c) id K) in *.
    destruct (evl_dec (evl1_of id b)) as [Ev|Ev].
    - rewrite Ev. split; [exact I|]. cbn [rorder1 filter app rspec_evs1 fold_left].
      eapply heqv1_trans; [exact Hq|]. apply spec_block1_none; auto.
    - destruct (V1 id Ev) as (ng & Hn & Hv). assert (ng = neg1 c) as -> by congruence. fold x in Hv.
      rewrite (spec_block1_some _ _ _ _ _ Ev Hc Hv) in Hq.
      pose proof (heqv1_formed_eq _ _ Hq (formed_after_evs1 _ _ _ Hc Hv Ev)) as Heq.
      destruct (Hok id) as [Sh _]. split.
      + eapply rrows1_succeed; eauto.
      + rewrite Heq. apply inverse1_evs; auto. }
  assert (F2 : forall id c, find2 id (cs2 s) = Some c ->
             rrows_ok2 (evl2_of (id2 c) b) c /\
             heqv2 (rspec_evs2 (evl2_of (id2 c) b) (proj2 c)) (spec2 buffer (neg2 c) id K)).
  { intros id c Ef. destruct (row_facts2 _ _ _ _ _ HJ Ef) as (Hq & _ & Hid & Hng).
    pose proof (spec2_cinv _ _ _ _ _ _ Hk Hng) as Hc. rewrite Hid.
    rewrite spec2_cons in Hq. set (x := spec2 buffer (neg2 c) id K) in *.
    destruct (evl_dec (evl2_of id b)) as [Ev|Ev].
    - rewrite Ev. split; [exact I|]. cbn [rspec_evs2 fold_left].
      eapply heqv2_trans; [exact Hq|]. apply spec_block2_none; auto.
    - destruct (V2 id Ev) as (ng & Hn & Hv). assert (ng = neg2 c) as -> by congruence. fold x in Hv.
      rewrite (spec_block2_some _ _ _ _ _ Ev Hc Hv) in Hq.
      pose proof (heqv2_formed_eq _ _ Hq (formed_after_evs2 _ _ _ Hc Hv Ev)) as Heq.
      destruct (Hok id) as [_ Sh]. split.
      + eapply rrows2_succeed; eauto.
      + rewrite Heq. apply inverse2_evs; auto. }
  assert (I1 : forall id c, find1 id (cs1 s) = Some c -> id1 c = id) by (intros id c Ef; apply (find1_in_ids _ _ _ Ef)).
  assert (I2 : forall id c, find2 id (cs2 s) = Some c -> id2 c = id) by (intros id c Ef; apply (find2_in_ids _ _ _ Ef)).
  destruct (revert_block_rows b s Hs) as (s' & E & Hs' & Hf1 & Hf2).
  { intros id Ev. assert (Ev' : evl1_of id b <> []) by (intros E0; apply Ev; rewrite revl1_rorder, E0; reflexivity).
    destruct (V1 id Ev') as (ng & Hn & _). unfold negof1 in Hn. destruct (find1 id (cs1 s)); [discriminate|discriminate]. }
  { intros id Ev. destruct (V2 id Ev) as (ng & Hn & _). unfold negof2 in Hn. destruct (find2 id (cs2 s)); [discriminate|discriminate]. }
  { intros id c Ef. destruct (F1 id c Ef) as (P & _). rewrite (I1 id c Ef) in P. exact P. }
  { intros id c Ef. destruct (F2 id c Ef) as (P & _). rewrite (I2 id c Ef) in P. exact P. }
  assert (N1 : forall id, negof1 s' id = negof1 s id).
  { apply (negof1_map s s' (revrow1 b) Hf1). intros id c Ef. destruct (F1 id c Ef) as (P & _).
    destruct (revrow1_proj b c P) as [_ B]. apply stat1_id in B. tauto. }
  assert (N2 : forall id, negof2 s' id = negof2 s id).
  { apply (negof2_map s s' (revrow2 b) Hf2). intros id c Ef. destruct (F2 id c Ef) as (P & _).
    destruct (revrow2_proj b c P) as [_ B]. apply stat2_id in B. tauto. }
  exists s'. split; [exact E|]. split; [|split; assumption].
  split; [exact Hs'|]. split.
  - eapply chain_ok_eq; [exact N1|exact N2|exact Hk].
  - split.
    + intros id c' Ef'. rewrite Hf1 in Ef'. destruct (find1 id (cs1 s)) as [c|] eqn:Ef; [|discriminate].
      injection Ef' as <-. destruct (F1 id c Ef) as (P & Hq).
      destruct (revrow1_proj b c P) as [A B]. destruct (stat1_id _ _ B) as [_ Hng].
      rewrite A, Hng. exact Hq.
    + intros id c' Ef'. rewrite Hf2 in Ef'. destruct (find2 id (cs2 s)) as [c|] eqn:Ef; [|discriminate].
      injection Ef' as <-. destruct (F2 id c Ef) as (P & Hq).
      destruct (revrow2_proj b c P) as [A B]. destruct (stat2_id _ _ B) as [_ Hng].
      rewrite A, Hng. exact Hq.
Qed.
