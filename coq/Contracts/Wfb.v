(* Contracts/Wfb.v — an executable check of well-formedness of a history, sound for [wf_hist];
   used to exhibit concrete well-formed histories (non-vacuity). *)
From Coq Require Import Lia ZifyBool ZifyN.
From HostdBase Require Import Base.
From HostdContracts Require Import Model Lib Chain PerContract.
Local Open Scope N_scope.

Fixpoint nodupN (l : list N) : bool :=
  match l with [] => true | x :: t => negb (existsb (N.eqb x) t) && nodupN t end.
Lemma nodupN_sound l : nodupN l = true -> NoDup l.
Proof.
  induction l as [|x t IH]; cbn; [constructor|].
  rewrite Bool.andb_true_iff, Bool.negb_true_iff. intros [H1 H2]. constructor; [|auto].
  intros Hin. assert (existsb (N.eqb x) t = true) by (apply existsb_exists; exists x; split; [auto|lia]).
  congruence.
Qed.

Definition valid1b (e : pev1) (x : ch1) : bool :=
  match e with
  | PForm1 => negb (h_formed x)
  | PRev1 o _ => st1_eqb (h_st x) Active && (h_conf x =? o)
  | PSucc1 | PFail1 => st1_eqb (h_st x) Active
  end.
Definition valid2b (e : pev2) (x : ch2) : bool :=
  match e with
  | PForm2 _ => match g_conf x with None => true | Some _ => false end
  | PRev2 o _ => st2_eqb (g_st x) A2 && (match g_elem x with Some r => r =? o | None => false end)
  | PSucc2 | PRen2 | PFail2 => st2_eqb (g_st x) A2
  end.
Lemma valid1b_sound e x : valid1b e x = true -> valid1 e x.
Proof. destruct e, x as [st fo cf rs]; destruct st; cbn; intros H; try discriminate; try lia; auto; split; auto; lia. Qed.
Lemma valid2b_sound e x : valid2b e x = true -> valid2 e x.
Proof.
  destruct e, x as [st cf rs el]; cbn; try (destruct cf; intros; congruence);
    destruct st; cbn; intros H; try discriminate; auto.
  destruct el; [|discriminate]. split; [reflexivity|f_equal; lia].
Qed.

Definition shape1b (l : list pev1) : bool :=
  match l with
  | [] | [PForm1] | [PForm1; PRev1 0 _] | [PRev1 _ _] | [PSucc1] | [PFail1] => true
  | [PForm1; PRev1 0 _; PSucc1] | [PForm1; PRev1 0 _; PFail1] => true
  | _ => false
  end.
Definition shape2b (l : list pev2) : bool :=
  match l with
  | [] | [PForm2 _] | [PRev2 _ _] => true
  | [e] => is_res2 e
  | [PRev2 _ _; e] => is_res2 e
  | _ => false
  end.
Lemma shape1b_sound l : shape1b l = true -> shape1 l.
Proof.
  destruct l as [|[|o n| |] [|[|o2 n2| |] [|[|o3 n3| |] [|e4 t4]]]]; cbn; try discriminate; auto.
  all: destruct o2; cbn; try discriminate; auto.
Qed.
Lemma shape2b_sound l : shape2b l = true -> shape2 l.
Proof. destruct l as [|[r|o n| | |] [|[r2|o2 n2| | |] [|e3 t3]]]; cbn; try discriminate; auto. Qed.

Fixpoint valid_evs1b (h : N) (l : list pev1) (x : ch1) : bool :=
  match l with [] => true | e :: t => valid1b e x && valid_evs1b h t (spec_ev1 h e x) end.
Fixpoint valid_evs2b (i : idx) (l : list pev2) (x : ch2) : bool :=
  match l with [] => true | e :: t => valid2b e x && valid_evs2b i t (spec_ev2 i e x) end.
Lemma valid_evs1b_sound h l : forall x, valid_evs1b h l x = true -> valid_evs1 h l x.
Proof.
  induction l as [|e t IH]; intros x; cbn; [auto|]. rewrite Bool.andb_true_iff. intros [A B].
  split; [apply valid1b_sound; exact A|apply IH; exact B].
Qed.
Lemma valid_evs2b_sound i l : forall x, valid_evs2b i l x = true -> valid_evs2 i l x.
Proof.
  induction l as [|e t IH]; intros x; cbn; [auto|]. rewrite Bool.andb_true_iff. intros [A B].
  split; [apply valid2b_sound; exact A|apply IH; exact B].
Qed.

(* a contract a block does not mention has no changes in it *)
Lemma evl_absent {E} (l : list (N * E)) id :
  ~ In id (map fst l) -> map snd (filter (fun p => fst p =? id) l) = [].
Proof.
  induction l as [|p t IH]; cbn; [reflexivity|]. intros H.
  destruct (fst p =? id) eqn:Ep; [exfalso; apply H; left; lia|]. apply IH; tauto.
Qed.

Definition bvalidb (buffer : N) (n1 n2 : N -> option N) (K : list block) (b : block) : bool :=
  forallb (fun id => shape1b (evl1_of id b) &&
                     match n1 id with
                     | Some ng => valid_evs1b (bheight b) (evl1_of id b) (spec1 buffer ng id K)
                     | None => false
                     end) (ids1_of b)
  && forallb (fun id => shape2b (evl2_of id b) &&
                        match n2 id with
                        | Some ng => valid_evs2b (bidx b) (evl2_of id b) (spec2 buffer ng id K)
                        | None => false
                        end) (ids2_of b).

Lemma bvalidb_sound buffer n1 n2 K b : bvalidb buffer n1 n2 K b = true -> bvalid buffer n1 n2 K b.
Proof.
  unfold bvalidb. rewrite Bool.andb_true_iff. intros [A B].
  rewrite forallb_forall in A, B.
  assert (A' : forall id, evl1_of id b <> [] -> In id (ids1_of b)).
  { intros id H. destruct (in_dec N.eq_dec id (ids1_of b)) as [Hi|Hn]; [exact Hi|].
    exfalso; apply H. apply evl_absent; exact Hn. }
  assert (B' : forall id, evl2_of id b <> [] -> In id (ids2_of b)).
  { intros id H. destruct (in_dec N.eq_dec id (ids2_of b)) as [Hi|Hn]; [exact Hi|].
    exfalso; apply H. apply evl_absent; exact Hn. }
  split; [|split].
  - intros id. split.
    + destruct (in_dec N.eq_dec id (ids1_of b)) as [Hi|Hn].
      * specialize (A id Hi). apply Bool.andb_true_iff in A. apply shape1b_sound, A.
      * unfold evl1_of. rewrite evl_absent by exact Hn. exact I.
    + destruct (in_dec N.eq_dec id (ids2_of b)) as [Hi|Hn].
      * specialize (B id Hi). apply Bool.andb_true_iff in B. apply shape2b_sound, B.
      * unfold evl2_of. rewrite evl_absent by exact Hn. exact I.
  - intros id H. specialize (A id (A' id H)). apply Bool.andb_true_iff in A. destruct A as [_ A].
    destruct (n1 id) as [ng|]; [|discriminate]. exists ng. split; [reflexivity|apply valid_evs1b_sound; exact A].
  - intros id H. specialize (B id (B' id H)). apply Bool.andb_true_iff in B. destruct B as [_ B].
    destruct (n2 id) as [ng|]; [|discriminate]. exists ng. split; [reflexivity|apply valid_evs2b_sound; exact B].
Qed.

Fixpoint ext_okb (buffer : N) (n1 n2 : N -> option N) (K : list block) (apps : list block) : bool :=
  match apps with
  | [] => true
  | b :: t => bvalidb buffer n1 n2 K b && ext_okb buffer n1 n2 (b :: K) t
  end.
Lemma ext_okb_sound buffer n1 n2 apps : forall K, ext_okb buffer n1 n2 K apps = true -> ext_ok buffer n1 n2 K apps.
Proof.
  induction apps as [|b t IH]; intros K; cbn; [auto|]. rewrite Bool.andb_true_iff. intros [A B].
  split; [apply bvalidb_sound; exact A|apply IH; exact B].
Qed.

Definition wf_itemb (buffer : N) (sK : state * list block) (it : item) : bool :=
  match it with
  | HBatch n apps => (Nat.leb n (length (snd sK)))
                     && ext_okb buffer (negof1 (fst sK)) (negof2 (fst sK)) (skipn n (snd sK)) apps
  | HRescan => true
  | HOp o => is_plain o
  end.
Lemma wf_itemb_sound buffer sK it : wf_itemb buffer sK it = true -> wf_item buffer sK it.
Proof.
  destruct sK as [s K], it as [n apps| |o]; cbn; auto.
  rewrite Bool.andb_true_iff. intros [A B]. split; [apply Nat.leb_le; exact A|apply ext_okb_sound; exact B].
Qed.

Fixpoint wf_histb (buffer : N) (l : list item) (sK : state * list block) : bool :=
  match l with
  | [] => true
  | it :: t => wf_itemb buffer sK it &&
               match hexec buffer sK it with ROk sK' => wf_histb buffer t sK' | _ => true end
  end.
Lemma wf_histb_sound buffer l : forall sK, wf_histb buffer l sK = true -> wf_hist buffer l sK.
Proof.
  induction l as [|it t IH]; intros sK; cbn; [auto|]. rewrite Bool.andb_true_iff. intros [A B].
  split; [apply wf_itemb_sound; exact A|]. destruct (hexec buffer sK it); auto.
Qed.
