(* Contracts/Wfb.v — an executable check of well-formedness of a history, sound for [wf_hist];
   used to exhibit concrete well-formed histories (non-vacuity). *)
From Coq Require Import Lia ZifyBool ZifyN.
From HostdBase Require Import Base.
From HostdContracts Require Import Model Lib Chain PerContract.
Local Open Scope N_scope.

Fixpoint nodupN (l : list N) : bool :=
  match l with [] => true | x :: t => negb (existsb (N.eqb x) t) && nodupN t end.
Lemma nodupN_sound l : nodupN l = true -> NoDup l.
Proof.
  induction l as [|x t IH]; cbn; [constructor|].
  rewrite Bool.andb_true_iff, Bool.negb_true_iff. intros [H1 H2]. constructor; [|auto].
  intros Hin. assert (existsb (N.eqb x) t = true) by (apply existsb_exists; exists x; split; [auto|lia]).
  congruence.
Qed.

Definition valid1b (e : pev1) (x : ch1) : bool :=
  match e with
  | PForm1 => negb (h_formed x)
  | PRev1 o _ => st1_eqb (h_st x) Active && (h_conf x =? o)
  | PSucc1 | PFail1 => st1_eqb (h_st x) Active
  end.
Definition valid2b (e : pev2) (x : ch2) : bool :=
  match e with
  | PForm2 _ => match g_conf x with None => true | Some _ => false end
  | PRev2 o _ => st2_eqb (g_st x) A2 && (match g_elem x with Some r => r =? o | None => false end)
  | PSucc2 | PRen2 | PFail2 => st2_eqb (g_st x) A2
  end.
Lemma valid1b_sound e x : valid1b e x = true -> valid1 e x.
Proof. destruct e, x as [st fo cf rs]; destruct st; cbn; intros H; try discriminate; try lia; auto; split; auto; lia. Qed.
Lemma valid2b_sound e x : valid2b e x = true -> valid2 e x.
Proof.
  destruct e, x as [st cf rs el]; cbn; try (destruct cf; intros; congruence);
    destruct st; cbn; intros H; try discriminate; auto.
  destruct el; [|discriminate]. split; [reflexivity|f_equal; lia].
Qed.

Definition bvalidb (buffer : N) (n1 n2 : N -> option N) (K : list block) (b : block) : bool :=
  nodupN (ids1_of b) && nodupN (ids2_of b)
  && forallb (fun p => match n1 (fst p) with
                       | Some ng => valid1b (snd p) (spec1 buffer ng (fst p) K) | None => false end) (evs1 b)
  && forallb (fun p => match n2 (fst p) with
                       | Some ng => valid2b (snd p) (spec2 buffer ng (fst p) K) | None => false end) (evs2 b).

Lemma bvalidb_sound buffer n1 n2 K b : bvalidb buffer n1 n2 K b = true -> bvalid buffer n1 n2 K b.
Proof.
  unfold bvalidb. rewrite !Bool.andb_true_iff. intros [[[A B] C] D].
  split; [apply nodupN_sound; exact A|]. split; [apply nodupN_sound; exact B|]. split.
  - intros id e E. unfold ev1_of in E. destruct (find _ (evs1 b)) as [p|] eqn:Ef; [|discriminate].
    apply find_some in Ef. destruct Ef as [Hin Hk]. injection E as <-.
    rewrite forallb_forall in C. specialize (C p Hin). assert (fst p = id) as <- by lia.
    destruct (n1 (fst p)) as [ng|]; [|discriminate]. exists ng. split; [reflexivity|apply valid1b_sound; exact C].
  - intros id e E. unfold ev2_of in E. destruct (find _ (evs2 b)) as [p|] eqn:Ef; [|discriminate].
    apply find_some in Ef. destruct Ef as [Hin Hk]. injection E as <-.
    rewrite forallb_forall in D. specialize (D p Hin). assert (fst p = id) as <- by lia.
    destruct (n2 (fst p)) as [ng|]; [|discriminate]. exists ng. split; [reflexivity|apply valid2b_sound; exact D].
Qed.

Fixpoint ext_okb (buffer : N) (n1 n2 : N -> option N) (K : list block) (apps : list block) : bool :=
  match apps with
  | [] => true
  | b :: t => bvalidb buffer n1 n2 K b && ext_okb buffer n1 n2 (b :: K) t
  end.
Lemma ext_okb_sound buffer n1 n2 apps : forall K, ext_okb buffer n1 n2 K apps = true -> ext_ok buffer n1 n2 K apps.
Proof.
  induction apps as [|b t IH]; intros K; cbn; [auto|]. rewrite Bool.andb_true_iff. intros [A B].
  split; [apply bvalidb_sound; exact A|apply IH; exact B].
Qed.

Definition wf_itemb (buffer : N) (sK : state * list block) (it : item) : bool :=
  match it with
  | HBatch n apps => (Nat.leb n (length (snd sK)))
                     && ext_okb buffer (negof1 (fst sK)) (negof2 (fst sK)) (skipn n (snd sK)) apps
  | HRescan => true
  | HOp o => is_plain o
  end.
Lemma wf_itemb_sound buffer sK it : wf_itemb buffer sK it = true -> wf_item buffer sK it.
Proof.
  destruct sK as [s K], it as [n apps| |o]; cbn; auto.
  rewrite Bool.andb_true_iff. intros [A B]. split; [apply Nat.leb_le; exact A|apply ext_okb_sound; exact B].
Qed.

Fixpoint wf_histb (buffer : N) (l : list item) (sK : state * list block) : bool :=
  match l with
  | [] => true
  | it :: t => wf_itemb buffer sK it &&
               match hexec buffer sK it with ROk sK' => wf_histb buffer t sK' | _ => true end
  end.
Lemma wf_histb_sound buffer l : forall sK, wf_histb buffer l sK = true -> wf_hist buffer l sK.
Proof.
  induction l as [|it t IH]; intros sK; cbn; [auto|]. rewrite Bool.andb_true_iff. intros [A B].
  split; [apply wf_itemb_sound; exact A|]. destruct (hexec buffer sK it); auto.
Qed.
