(* Contracts/Hist.v — C01 over whole histories: batches that mix reverts and applies, rescans
   after a chain-state reset and arbitrary non-chain operations in between. *)
From Coq Require Import Lia ZifyBool ZifyN.
From HostdBase Require Import Base.
From HostdContracts Require Import Model Lib Inv InvOps Chain PerContract Proj Rows SpecLemmas Steps Plain Rescan.
Local Open Scope N_scope.

Lemma reverts_J buffer : forall n s K, (n <= length K)%nat -> J buffer s K ->
  exists s', foldM (fun s b => revert_block b s) (map rev_of (firstn n K)) s = ROk s' /\
             J buffer s' (skipn n K) /\
             (forall id, negof1 s' id = negof1 s id) /\ (forall id, negof2 s' id = negof2 s id).
Proof.
  induction n as [|n IH]; intros s K Hn HJ.
  - exists s. cbn. auto.
  - destruct K as [|b K]; [cbn in Hn; lia|]. cbn [firstn skipn map foldM].
    destruct (revert_block_J buffer s K b HJ) as (s1 & E1 & HJ1 & N1 & N2).
    destruct (IH s1 K) as (s2 & E2 & HJ2 & M1 & M2); [cbn in Hn; lia|exact HJ1|].
    exists s2. rewrite E1. cbn [rbind]. split; [exact E2|]. split; [exact HJ2|].
    split; intros id; [rewrite M1, N1|rewrite M2, N2]; reflexivity.
Qed.

Lemma applies_J buffer : forall apps s K, J buffer s K ->
  ext_ok buffer (negof1 s) (negof2 s) K apps ->
  exists s', foldM (fun s b => apply_block b s) (map (app_of buffer) apps) s = ROk s' /\
             J buffer s' (rev apps ++ K) /\
             (forall id, negof1 s' id = negof1 s id) /\ (forall id, negof2 s' id = negof2 s id).
Proof.
  induction apps as [|b t IH]; intros s K HJ Hext.
  - exists s. cbn. auto.
  - destruct Hext as [Hb Ht]. cbn [map foldM].
    destruct (apply_block_J buffer s K b HJ Hb) as (s1 & E1 & HJ1 & N1 & N2).
    destruct (IH s1 (b :: K) HJ1) as (s2 & E2 & HJ2 & M1 & M2).
    { eapply ext_ok_mono; [| |exact Ht]; intros id ng; [rewrite N1|rewrite N2]; auto. }
    exists s2. rewrite E1. cbn [rbind]. split; [exact E2|]. split.
    + cbn [rev]. rewrite <- app_assoc. exact HJ2.
    + split; intros id; [rewrite M1, N1|rewrite M2, N2]; reflexivity.
Qed.

Lemma batch_J buffer s K n apps :
  J buffer s K -> wf_item buffer (s, K) (HBatch n apps) ->
  exists s', hexec buffer (s, K) (HBatch n apps) = ROk (s', rev apps ++ skipn n K) /\
             J buffer s' (rev apps ++ skipn n K) /\
             (forall id, negof1 s' id = negof1 s id) /\ (forall id, negof2 s' id = negof2 s id).
Proof.
  intros HJ [Hn Hext].
  destruct (reverts_J buffer n s K Hn HJ) as (s1 & E1 & HJ1 & N1 & N2).
  destruct (applies_J buffer apps s1 (skipn n K) HJ1) as (s2 & E2 & HJ2 & M1 & M2).
  { eapply ext_ok_mono; [| |exact Hext]; intros id ng; [rewrite N1|rewrite N2]; auto. }
  exists s2. split; [|split; [exact HJ2|]].
  - cbn [hexec exec]. unfold chain_update. rewrite E1. cbn [rbind]. rewrite E2. reflexivity.
  - split; intros id; [rewrite M1, N1|rewrite M2, N2]; reflexivity.
Qed.

Definition item_stack (K : list block) (it : item) : list block :=
  match it with HBatch n apps => rev apps ++ skipn n K | _ => K end.
(* the best chain a history ends on *)
Definition best_chain (l : list item) (K : list block) : list block := fold_left item_stack l K.

(* contracts are never forgotten and keep their negotiation height *)
Definition grows (s s' : state) : Prop :=
  (forall id ng, negof1 s id = Some ng -> negof1 s' id = Some ng) /\
  (forall id ng, negof2 s id = Some ng -> negof2 s' id = Some ng).

Lemma hist_J buffer : forall l s K,
  J buffer s K -> wf_hist buffer l (s, K) ->
  exists s', hrun buffer l (s, K) = ROk (s', best_chain l K) /\ J buffer s' (best_chain l K) /\ grows s s'.
Proof.
  induction l as [|it l IH]; intros s K HJ Hwf.
  - exists s. split; [reflexivity|split; [exact HJ|split; auto]].
  - destruct Hwf as [Hit Hrest]. unfold hrun in *. cbn [foldM best_chain fold_left].
    destruct it as [n apps| |o].
    + destruct (batch_J buffer s K n apps HJ Hit) as (s1 & E1 & HJ1 & N1 & N2).
      rewrite E1 in *. cbn [rbind]. destruct (IH s1 _ HJ1 Hrest) as (s' & E' & HJ' & G1 & G2).
      exists s'. split; [exact E'|split; [exact HJ'|]].
      split; intros id ng H; [apply G1; rewrite N1|apply G2; rewrite N2]; exact H.
    + destruct (rescan_J buffer s K HJ) as (s1 & E1 & HJ1 & N1 & N2).
      rewrite E1 in *. cbn [rbind]. destruct (IH s1 _ HJ1 Hrest) as (s' & E' & HJ' & G1 & G2).
      exists s'. split; [exact E'|split; [exact HJ'|]].
      split; intros id ng H; [apply G1; rewrite N1|apply G2; rewrite N2]; exact H.
    + cbn [hexec] in *. cbn [rbind].
      destruct (IH (exec_plain o s) K) as (s' & E' & HJ' & G1 & G2); [apply plain_J; assumption|exact Hrest|].
      exists s'. split; [exact E'|split; [exact HJ'|]].
      destruct (plain_negof s o Hit) as [P1 P2]. split; intros id ng H; [apply G1, P1|apply G2, P2]; exact H.
Qed.

Lemma J_init buffer : J buffer init [].
Proof.
  split; [apply Inv_init|]. split; [exact I|]. split; intros id c H; discriminate.
Qed.

(** * the linear replay of a chain *)
Definition linear (K : list block) : list item := map (fun b => HBatch 0 [b]) (rev K).

Lemma ext_ok_of_chain buffer n1 n2 L : forall K0,
  chain_ok buffer n1 n2 (rev L ++ K0) -> ext_ok buffer n1 n2 K0 L.
Proof.
  induction L as [|b t IH]; intros K0 H; cbn; [exact I|].
  cbn [rev] in H. rewrite <- app_assoc in H. cbn [app] in H. split.
  - pose proof (chain_ok_suffix _ _ _ _ _ H) as [Hb _]. exact Hb.
  - apply IH. exact H.
Qed.

Lemma linear_wf buffer L : forall s K0,
  J buffer s K0 -> ext_ok buffer (negof1 s) (negof2 s) K0 L ->
  wf_hist buffer (map (fun b => HBatch 0 [b]) L) (s, K0).
Proof.
  induction L as [|b t IH]; intros s K0 HJ Hext; cbn [map wf_hist]; [exact I|].
  destruct Hext as [Hb Ht].
  assert (Hit : wf_item buffer (s, K0) (HBatch 0 [b])).
  { cbn. split; [lia|]. split; [exact Hb|exact I]. }
  split; [exact Hit|].
  destruct (batch_J buffer s K0 0 [b] HJ Hit) as (s1 & E1 & HJ1 & _ & _). rewrite E1.
  cbn [rev app skipn] in *. apply IH; [exact HJ1|].
  (* the store still knows the same contracts *)
  destruct (applies_J buffer [b] s K0 HJ) as (s2 & E2 & _ & N1 & N2); [split; [exact Hb|exact I]|].
  assert (s2 = s1) as ->.
  { cbn [hexec exec firstn map] in E1. unfold chain_update in E1. cbn [foldM rbind] in E1.
    cbn [map foldM] in E2. destruct (apply_block (app_of buffer b) s) as [x| |]; cbn in *; congruence. }
  eapply ext_ok_mono; [| |exact Ht]; intros id ng; [rewrite N1|rewrite N2]; auto.
Qed.

Lemma best_chain_linear L : forall K0,
  best_chain (map (fun b => HBatch 0 [b]) L) K0 = rev L ++ K0.
Proof.
  induction L as [|b t IH]; intros K0; cbn; [reflexivity|].
  unfold best_chain in *. rewrite IH. rewrite <- app_assoc. reflexivity.
Qed.
