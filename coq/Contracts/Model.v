(* Contracts/Model.v — executable model of hostd's contract rows, their chain state and the
   incrementally maintained contract metrics.

   Mirrors (patched tree, see fixes/C01-*.patch):
     persist/sqlite/consensus.go   ApplyContracts / RevertContracts / RejectContracts and the 18
                                   apply*/revert* helpers, update*Metrics, ResetChainState
     persist/sqlite/contracts.go   insertContract, insertV2Contract, reviseContract, clearContract,
                                   reviseV2Contract, updateResolvedV2Contract, incrementContractUsage,
                                   updateContractUsage, updateV2ContractUsage, RenewContract, RenewV2Contract
     persist/sqlite/accounts.go    CreditAccountWithContract, DebitAccount, RHP4CreditAccounts,
                                   RHP4DebitAccount, distributeRHP3/4AccountUsage (as far as they touch
                                   contract usage and contract metrics)
     persist/sqlite/metrics.go     incrementNumericStatStmt / incrementCurrencyStatStmt (negative guard)
   Every Store method is one SQL transaction: an error or a panic rolls everything back, so a
   failing step leaves the state unchanged.  No proofs here. *)
From HostdBase Require Import Base.
Local Open Scope N_scope.

(** * Results.  A Go panic is recorded with its cause so that "the negative-stat guard fired"
    can be told apart from "unexpected contract state transition". *)
Inductive pwhy := PTransition | PNegStat | PUnderflow.
Inductive rs (A : Type) := ROk (a : A) | RErr | RPanic (w : pwhy).
Arguments ROk {A} a.
Arguments RErr {A}.
Arguments RPanic {A} w.

Definition rbind {A B} (r : rs A) (f : A -> rs B) : rs B :=
  match r with ROk a => f a | RErr => RErr | RPanic w => RPanic w end.
Notation "'dor' x <- r ; k" := (rbind r (fun x => k)) (at level 200, x pattern, r at level 100, k at level 200).

Fixpoint foldM {S A} (f : S -> A -> rs S) (l : list A) (s : S) : rs S :=
  match l with
  | [] => ROk s
  | a :: t => dor s' <- f s a ; foldM f t s'
  end.

(** * Rows *)
Inductive st1 := Pending | Rejected | Active | Successful | Failed.
Inductive st2 := P2 | R2 | A2 | N2 (* renewed *) | S2 | F2.

Definition st1_eqb (a b : st1) : bool :=
  match a, b with
  | Pending, Pending | Rejected, Rejected | Active, Active | Successful, Successful | Failed, Failed => true
  | _, _ => false
  end.
Definition st2_eqb (a b : st2) : bool :=
  match a, b with
  | P2, P2 | R2, R2 | A2, A2 | N2, N2 | S2, S2 | F2, F2 => true
  | _, _ => false
  end.

(* contracts.Usage (v1) / proto4.Usage (v2: the registry fields stay 0) *)
Record usage := mkU { uRpc : N; uSto : N; uIng : N; uEgr : N; uRR : N; uRW : N; uFund : N; uRisk : N }.
Definition uzero : usage := mkU 0 0 0 0 0 0 0 0.
Definition uadd (a b : usage) : usage :=
  mkU (uRpc a + uRpc b) (uSto a + uSto b) (uIng a + uIng b) (uEgr a + uEgr b)
      (uRR a + uRR b) (uRW a + uRW b) (uFund a + uFund b) (uRisk a + uRisk b).
Definition set_fund (u : usage) (f : N) : usage :=
  mkU (uRpc u) (uSto u) (uIng u) (uEgr u) (uRR u) (uRW u) f (uRisk u).

Definition idx := (N * N)%type.   (* types.ChainIndex: height, block id *)

(* table contracts *)
Record c1 := mkC1 {
  id1 : N;            (* contract_id *)
  s1 : st1;           (* contract_status *)
  formed : bool;      (* formation_confirmed *)
  rev1 : N;           (* revision_number *)
  confRev : N;        (* confirmed_revision_number *)
  resH : option N;    (* resolution_height *)
  neg1 : N;           (* negotiation_height *)
  locked1 : N;        (* locked_collateral *)
  use1 : usage }.

(* table contracts_v2 (+ the row of contract_v2_state_elements) *)
Record c2 := mkC2 {
  id2 : N;
  s2 : st2;
  conf2 : option idx;  (* confirmation_index *)
  res2 : option idx;   (* resolution_index *)
  elem2 : option N;    (* contract_v2_state_elements.revision_number, None = no row *)
  rev2 : N;
  neg2 : N;
  locked2 : N;
  use2 : usage }.

Definition set_chain1 (c : c1) (s : st1) (f : bool) (r : option N) : c1 :=
  mkC1 (id1 c) s f (rev1 c) (confRev c) r (neg1 c) (locked1 c) (use1 c).
Definition set_conf1 (c : c1) (n : N) : c1 :=
  mkC1 (id1 c) (s1 c) (formed c) (rev1 c) n (resH c) (neg1 c) (locked1 c) (use1 c).
Definition set_use1 (c : c1) (r : N) (u : usage) : c1 :=
  mkC1 (id1 c) (s1 c) (formed c) r (confRev c) (resH c) (neg1 c) (locked1 c) u.

Definition set_chain2 (c : c2) (s : st2) (cf rs_ : option idx) : c2 :=
  mkC2 (id2 c) s cf rs_ (elem2 c) (rev2 c) (neg2 c) (locked2 c) (use2 c).
Definition set_elem2 (c : c2) (e : option N) : c2 :=
  mkC2 (id2 c) (s2 c) (conf2 c) (res2 c) e (rev2 c) (neg2 c) (locked2 c) (use2 c).
Definition set_use2 (c : c2) (r : N) (u : usage) : c2 :=
  mkC2 (id2 c) (s2 c) (conf2 c) (res2 c) (elem2 c) r (neg2 c) (locked2 c) u.

(** * Metrics (host_stats, latest value per stat) *)
Inductive rk := RRpc | RSto | RIng | REgr | RRR | RRW.
Inductive mkey := KAct | KRej | KSucc | KFail | KRen | KLocked | KRisked | KPot (r : rk) | KEarn (r : rk).

Record metrics := mkM {
  nAct : N; nRej : N; nSucc : N; nFail : N; nRen : N; mLocked : N; mRisked : N;
  pRpc : N; pSto : N; pIng : N; pEgr : N; pRR : N; pRW : N;
  eRpc : N; eSto : N; eIng : N; eEgr : N; eRR : N; eRW : N }.
Definition mzero : metrics := mkM 0 0 0 0 0 0 0 0 0 0 0 0 0 0 0 0 0 0 0.

Definition mget (m : metrics) (k : mkey) : N :=
  match k with
  | KAct => nAct m | KRej => nRej m | KSucc => nSucc m | KFail => nFail m | KRen => nRen m
  | KLocked => mLocked m | KRisked => mRisked m
  | KPot RRpc => pRpc m | KPot RSto => pSto m | KPot RIng => pIng m | KPot REgr => pEgr m
  | KPot RRR => pRR m | KPot RRW => pRW m
  | KEarn RRpc => eRpc m | KEarn RSto => eSto m | KEarn RIng => eIng m | KEarn REgr => eEgr m
  | KEarn RRR => eRR m | KEarn RRW => eRW m
  end.

Definition mset (m : metrics) (k : mkey) (v : N) : metrics :=
  match m with
  | mkM a b c d e f g p1 p2 p3 p4 p5 p6 e1 e2 e3 e4 e5 e6 =>
    match k with
    | KAct => mkM v b c d e f g p1 p2 p3 p4 p5 p6 e1 e2 e3 e4 e5 e6
    | KRej => mkM a v c d e f g p1 p2 p3 p4 p5 p6 e1 e2 e3 e4 e5 e6
    | KSucc => mkM a b v d e f g p1 p2 p3 p4 p5 p6 e1 e2 e3 e4 e5 e6
    | KFail => mkM a b c v e f g p1 p2 p3 p4 p5 p6 e1 e2 e3 e4 e5 e6
    | KRen => mkM a b c d v f g p1 p2 p3 p4 p5 p6 e1 e2 e3 e4 e5 e6
    | KLocked => mkM a b c d e v g p1 p2 p3 p4 p5 p6 e1 e2 e3 e4 e5 e6
    | KRisked => mkM a b c d e f v p1 p2 p3 p4 p5 p6 e1 e2 e3 e4 e5 e6
    | KPot RRpc => mkM a b c d e f g v p2 p3 p4 p5 p6 e1 e2 e3 e4 e5 e6
    | KPot RSto => mkM a b c d e f g p1 v p3 p4 p5 p6 e1 e2 e3 e4 e5 e6
    | KPot RIng => mkM a b c d e f g p1 p2 v p4 p5 p6 e1 e2 e3 e4 e5 e6
    | KPot REgr => mkM a b c d e f g p1 p2 p3 v p5 p6 e1 e2 e3 e4 e5 e6
    | KPot RRR => mkM a b c d e f g p1 p2 p3 p4 v p6 e1 e2 e3 e4 e5 e6
    | KPot RRW => mkM a b c d e f g p1 p2 p3 p4 p5 v e1 e2 e3 e4 e5 e6
    | KEarn RRpc => mkM a b c d e f g p1 p2 p3 p4 p5 p6 v e2 e3 e4 e5 e6
    | KEarn RSto => mkM a b c d e f g p1 p2 p3 p4 p5 p6 e1 v e3 e4 e5 e6
    | KEarn RIng => mkM a b c d e f g p1 p2 p3 p4 p5 p6 e1 e2 v e4 e5 e6
    | KEarn REgr => mkM a b c d e f g p1 p2 p3 p4 p5 p6 e1 e2 e3 v e5 e6
    | KEarn RRR => mkM a b c d e f g p1 p2 p3 p4 p5 p6 e1 e2 e3 e4 v e6
    | KEarn RRW => mkM a b c d e f g p1 p2 p3 p4 p5 p6 e1 e2 e3 e4 e5 v
    end
  end.

(* one call of the increment closure: (stat, negative, delta).
   incrementCurrencyStatStmt: negative && current < delta  => panic "negative stat value";
   incrementNumericStatStmt with delta = -1: current + delta < 0 => the same panic.
   Additions are unbounded here: the environment assumption of DESIGN §2 (all tracked amounts
   stay below 2^128) is what rules out Currency.Add's overflow panic. *)
Definition mop := (mkey * bool * N)%type.

Definition minc (m : metrics) (o : mop) : rs metrics :=
  let '(k, negative, d) := o in
  let cur := mget m k in
  if negative then (if cur <? d then RPanic PNegStat else ROk (mset m k (cur - d)))
  else ROk (mset m k (cur + d)).

Definition mapply (ops : list mop) (m : metrics) : rs metrics := foldM minc ops m.

(* contractStatusMetric / v2ContractStatusMetric; pending has no metric *)
Definition key1 (s : st1) : option mkey :=
  match s with
  | Pending => None | Rejected => Some KRej | Active => Some KAct
  | Successful => Some KSucc | Failed => Some KFail
  end.
Definition key2 (s : st2) : option mkey :=
  match s with
  | P2 => None | R2 => Some KRej | A2 => Some KAct | N2 => Some KRen
  | S2 => Some KSucc | F2 => Some KFail
  end.

Definition okey (k : option mkey) (negative : bool) : list mop :=
  match k with Some k => [(k, negative, 1)] | None => [] end.

(* updateStatusMetrics / updateV2StatusMetrics *)
Definition ops_status1 (o n : st1) : list mop :=
  if st1_eqb o n then [] else okey (key1 o) true ++ okey (key1 n) false.
Definition ops_status2 (o n : st2) : list mop :=
  if st2_eqb o n then [] else okey (key2 o) true ++ okey (key2 n) false.

(* updatePotentialRevenueMetrics / updateEarnedRevenueMetrics (v1: six stats) *)
Definition ops_pot1 (u : usage) (negative : bool) : list mop :=
  [(KPot RRpc, negative, uRpc u); (KPot RSto, negative, uSto u); (KPot RIng, negative, uIng u);
   (KPot REgr, negative, uEgr u); (KPot RRR, negative, uRR u); (KPot RRW, negative, uRW u)].
Definition ops_earn1 (u : usage) (negative : bool) : list mop :=
  [(KEarn RRpc, negative, uRpc u); (KEarn RSto, negative, uSto u); (KEarn RIng, negative, uIng u);
   (KEarn REgr, negative, uEgr u); (KEarn RRR, negative, uRR u); (KEarn RRW, negative, uRW u)].
(* updateV2PotentialRevenueMetrics / updateV2EarnedRevenueMetrics (four stats) *)
Definition ops_pot2 (u : usage) (negative : bool) : list mop :=
  [(KPot RRpc, negative, uRpc u); (KPot RSto, negative, uSto u); (KPot RIng, negative, uIng u);
   (KPot REgr, negative, uEgr u)].
Definition ops_earn2 (u : usage) (negative : bool) : list mop :=
  [(KEarn RRpc, negative, uRpc u); (KEarn RSto, negative, uSto u); (KEarn RIng, negative, uIng u);
   (KEarn REgr, negative, uEgr u)].
(* updateCollateralMetrics *)
Definition ops_coll (lockedc risked : N) (negative : bool) : list mop :=
  [(KLocked, negative, lockedc); (KRisked, negative, risked)].

(** * Store state *)
Record frow := mkF { fc : N; fa : N; famt : N }.   (* contract_[v2_]account_funding *)

Record state := mkS {
  cs1 : list c1;
  cs2 : list c2;
  mets : metrics;
  accts : list (N * N);      (* accounts: id -> balance *)
  fund1 : list frow;         (* in rowid order *)
  fund2 : list frow }.
Definition init : state := mkS [] [] mzero [] [] [].

(* rows are looked up by contract_id; UPDATE ... WHERE id=? rewrites that row in place *)
Section Keyed.
  Variable R : Type.
  Variable key : R -> N.
  Fixpoint findk (id : N) (l : list R) : option R :=
    match l with
    | [] => None
    | c :: t => if key c =? id then Some c else findk id t
    end.
  Fixpoint replk (c' : R) (l : list R) : list R :=
    match l with
    | [] => []
    | c :: t => if key c =? key c' then c' :: t else c :: replk c' t
    end.
End Keyed.
Arguments findk {R} key id l.
Arguments replk {R} key c' l.
Definition find1 := findk id1.
Definition repl1 := replk id1.
Definition find2 := findk id2.
Definition repl2 := replk id2.

(* A row transition returns the new row and the metric calls it issues, in order.
   [with1]: SELECT the row by contract_id (sql.ErrNoRows => error), UPDATE it, apply the metric calls. *)
Definition with1 (id : N) (f : c1 -> rs (c1 * list mop)) (s : state) : rs state :=
  match find1 id (cs1 s) with
  | None => RErr
  | Some c =>
      dor r <- f c ;
      dor m' <- mapply (snd r) (mets s) ;
      ROk (mkS (repl1 (fst r) (cs1 s)) (cs2 s) m' (accts s) (fund1 s) (fund2 s))
  end.
Definition with2 (id : N) (f : c2 -> rs (c2 * list mop)) (s : state) : rs state :=
  match find2 id (cs2 s) with
  | None => RErr
  | Some c =>
      dor r <- f c ;
      dor m' <- mapply (snd r) (mets s) ;
      ROk (mkS (cs1 s) (repl2 (fst r) (cs2 s)) m' (accts s) (fund1 s) (fund2 s))
  end.
Definition each1 (f : c1 -> rs (c1 * list mop)) (ids : list N) (s : state) : rs state :=
  foldM (fun s id => with1 id f s) ids s.
Definition each2 (f : c2 -> rs (c2 * list mop)) (ids : list N) (s : state) : rs state :=
  foldM (fun s id => with2 id f s) ids s.

(** * consensus.go — v1 transitions *)

(* applyContractFormation *)
Definition form1 (c : c1) : rs (c1 * list mop) :=
  match s1 c with
  | Pending | Rejected =>
      ROk (set_chain1 c Active true (resH c),
           ops_status1 (s1 c) Active ++ ops_pot1 (use1 c) false
             ++ ops_coll (locked1 c) (uRisk (use1 c)) false)
  | _ => ROk (c, [])                      (* "skipping rescan state transition" *)
  end.

(* applyContractRevision (also used by RevertContracts with the previous revision) *)
Definition revise_conf1 (n : N) (c : c1) : rs (c1 * list mop) := ROk (set_conf1 c n, []).

(* applySuccessfulContracts *)
Definition succ1 (h : N) (c : c1) : rs (c1 * list mop) :=
  match s1 c with
  | Successful => ROk (c, [])
  | Active =>
      ROk (set_chain1 c Successful (formed c) (Some h),
           ops_status1 Active Successful ++ ops_earn1 (use1 c) false
             ++ ops_pot1 (use1 c) true ++ ops_coll (locked1 c) (uRisk (use1 c)) true)
  | Failed =>
      ROk (set_chain1 c Successful (formed c) (Some h),
           ops_status1 Failed Successful ++ ops_earn1 (use1 c) false)
  | _ => RPanic PTransition
  end.

(* applyFailedContracts: resolution_height=NULL *)
Definition fail1 (c : c1) : rs (c1 * list mop) :=
  match s1 c with
  | Failed => ROk (c, [])
  | Active =>
      ROk (set_chain1 c Failed (formed c) None,
           ops_status1 Active Failed ++ ops_pot1 (use1 c) true
             ++ ops_coll (locked1 c) (uRisk (use1 c)) true)
  | Successful =>
      ROk (set_chain1 c Failed (formed c) None,
           ops_status1 Successful Failed ++ ops_earn1 (use1 c) true)
  | _ => RPanic PTransition
  end.

(* revertContractFormation *)
Definition rform1 (c : c1) : rs (c1 * list mop) :=
  match s1 c with
  | Active =>
      ROk (set_chain1 c Pending false (resH c),
           ops_status1 Active Pending ++ ops_coll (locked1 c) (uRisk (use1 c)) true
             ++ ops_pot1 (use1 c) true)
  | _ => RPanic PTransition
  end.

(* revertSuccessfulContracts (patched: Exec(ContractStatusActive, state.ID)) *)
Definition rsucc1 (c : c1) : rs (c1 * list mop) :=
  match s1 c with
  | Successful =>
      ROk (set_chain1 c Active (formed c) None,
           ops_status1 Successful Active ++ ops_pot1 (use1 c) false ++ ops_earn1 (use1 c) true
             ++ ops_coll (locked1 c) (uRisk (use1 c)) false)
  | _ => RPanic PTransition
  end.

(* revertFailedContracts (patched: the unreachable-update branch removed) *)
Definition rfail1 (c : c1) : rs (c1 * list mop) :=
  match s1 c with
  | Failed =>
      ROk (set_chain1 c Active (formed c) None,
           ops_status1 Failed Active ++ ops_pot1 (use1 c) false
             ++ ops_coll (locked1 c) (uRisk (use1 c)) false)
  | _ => RPanic PTransition
  end.

(* RejectContracts, v1 part: rejectContracts' WHERE clause and the per-row update *)
Definition q_rej1 (h : N) (c : c1) : bool :=
  negb (st1_eqb (s1 c) Rejected) && negb (formed c) && (neg1 c <? h).
Definition rej1 (c : c1) : rs (c1 * list mop) :=
  match s1 c with
  | Pending => ROk (set_chain1 c Rejected (formed c) (resH c), ops_status1 Pending Rejected)
  | _ => RPanic PTransition
  end.

(** * consensus.go — v2 transitions *)

(* applyV2ContractFormation: the state element is upserted before the skip check *)
Definition form2 (i : idx) (r : N) (c : c2) : rs (c2 * list mop) :=
  let c := set_elem2 c (Some r) in
  match s2 c with
  | P2 | R2 =>
      ROk (set_chain2 c A2 (Some i) (res2 c),
           ops_coll (locked2 c) (uRisk (use2 c)) false ++ ops_pot2 (use2 c) false
             ++ ops_status2 (s2 c) A2)
  | _ => ROk (c, [])
  end.

(* revertV2ContractFormation: the state element is deleted first *)
Definition rform2 (c : c2) : rs (c2 * list mop) :=
  let c := set_elem2 c None in
  match s2 c with
  | A2 =>
      ROk (set_chain2 c P2 None (res2 c),
           ops_status2 A2 P2 ++ ops_coll (locked2 c) (uRisk (use2 c)) true ++ ops_pot2 (use2 c) true)
  | _ => RPanic PTransition
  end.

(* applyV2ContractRevision: UPDATE contract_v2_state_elements ... (no row => nothing happens) *)
Definition revise_elem2 (n : N) (c : c2) : rs (c2 * list mop) :=
  ROk (set_elem2 c (match elem2 c with Some _ => Some n | None => None end), []).

(* applySuccessfulV2Contracts with status in {successful, renewed} *)
Definition succ2 (i : idx) (status : st2) (c : c2) : rs (c2 * list mop) :=
  if st2_eqb (s2 c) status then ROk (c, [])
  else match s2 c with
       | A2 =>
           ROk (set_chain2 c status (conf2 c) (Some i),
                ops_status2 A2 status ++ ops_earn2 (use2 c) false ++ ops_pot2 (use2 c) true
                  ++ ops_coll (locked2 c) (uRisk (use2 c)) true)
       | _ => RPanic PTransition
       end.

(* applyFailedV2Contracts *)
Definition fail2 (i : idx) (c : c2) : rs (c2 * list mop) :=
  match s2 c with
  | F2 => ROk (c, [])
  | A2 =>
      ROk (set_chain2 c F2 (conf2 c) (Some i),
           ops_status2 A2 F2 ++ ops_pot2 (use2 c) true ++ ops_coll (locked2 c) (uRisk (use2 c)) true)
  | _ => RPanic PTransition
  end.

(* revertSuccessfulV2Contracts (patched: Exec(V2ContractStatusActive, state.ID)) *)
Definition rsucc2 (status : st2) (c : c2) : rs (c2 * list mop) :=
  if st2_eqb (s2 c) status then
    ROk (set_chain2 c A2 (conf2 c) None,
         ops_status2 (s2 c) A2 ++ ops_pot2 (use2 c) false ++ ops_earn2 (use2 c) true
           ++ ops_coll (locked2 c) (uRisk (use2 c)) false)
  else RPanic PTransition.

(* revertFailedV2Contracts (patched) *)
Definition rfail2 (c : c2) : rs (c2 * list mop) :=
  match s2 c with
  | F2 =>
      ROk (set_chain2 c A2 (conf2 c) None,
           ops_status2 F2 A2 ++ ops_pot2 (use2 c) false ++ ops_coll (locked2 c) (uRisk (use2 c)) false)
  | _ => RPanic PTransition
  end.

Definition q_rej2 (h : N) (c : c2) : bool :=
  negb (st2_eqb (s2 c) R2) && (match conf2 c with None => true | Some _ => false end) && (neg2 c <? h).
Definition rej2 (c : c2) : rs (c2 * list mop) :=
  match s2 c with
  | P2 => ROk (set_chain2 c R2 (conf2 c) (res2 c), ops_status2 P2 R2)
  | _ => RPanic PTransition
  end.

(** * contracts.StateChanges and the three updateTx entry points *)
Record changes := mkCh {
  cConf1 : list N;            (* Confirmed *)
  cRev1 : list (N * N);       (* Revised: id, revision number to record *)
  cSucc1 : list N;
  cFail1 : list N;
  cConf2 : list (N * N);      (* ConfirmedV2: id, revision number of the element *)
  cRev2 : list (N * N);
  cSucc2 : list N;
  cRen2 : list N;
  cFail2 : list N }.
Definition no_changes : changes := mkCh [] [] [] [] [] [] [] [] [].

Definition apply_contracts (i : idx) (ch : changes) (s : state) : rs state :=
  dor s <- each1 form1 (cConf1 ch) s ;
  dor s <- foldM (fun s p => with1 (fst p) (revise_conf1 (snd p)) s) (cRev1 ch) s ;
  dor s <- each1 (succ1 (fst i)) (cSucc1 ch) s ;
  dor s <- each1 fail1 (cFail1 ch) s ;
  dor s <- foldM (fun s p => with2 (fst p) (form2 i (snd p)) s) (cConf2 ch) s ;
  dor s <- foldM (fun s p => with2 (fst p) (revise_elem2 (snd p)) s) (cRev2 ch) s ;
  dor s <- each2 (succ2 i S2) (cSucc2 ch) s ;
  dor s <- each2 (succ2 i N2) (cRen2 ch) s ;
  each2 (fail2 i) (cFail2 ch) s.

(* v1: formations are reverted last (fixes/C01-v1-created-and-resolved-same-block.patch): a contract
   formed and resolved in one block is active again only after its resolution has been reverted *)
Definition revert_contracts (ch : changes) (s : state) : rs state :=
  dor s <- foldM (fun s p => with1 (fst p) (revise_conf1 (snd p)) s) (cRev1 ch) s ;
  dor s <- each1 rsucc1 (cSucc1 ch) s ;
  dor s <- each1 rfail1 (cFail1 ch) s ;
  dor s <- each1 rform1 (cConf1 ch) s ;
  dor s <- each2 rform2 (map fst (cConf2 ch)) s ;
  dor s <- foldM (fun s p => with2 (fst p) (revise_elem2 (snd p)) s) (cRev2 ch) s ;
  dor s <- each2 (rsucc2 S2) (cSucc2 ch) s ;
  dor s <- each2 (rsucc2 N2) (cRen2 ch) s ;
  each2 rfail2 (cFail2 ch) s.

Definition reject_contracts (h : N) (s : state) : rs state :=
  let ids1 := map id1 (filter (q_rej1 h) (cs1 s)) in
  let ids2 := map id2 (filter (q_rej2 h) (cs2 s)) in
  dor s <- each1 rej1 ids1 s ;
  each2 rej2 ids2 s.

(* one applied block as the contract manager drives it: ApplyContracts, then RejectContracts
   with the height the caller computed (None: index.Height < rejectBuffer) *)
Definition apply_block (b : idx * changes * option N) (s : state) : rs state :=
  let '(i, ch, rj) := b in
  dor s <- apply_contracts i ch s ;
  match rj with Some h => reject_contracts h s | None => ROk s end.

Definition revert_block (b : idx * changes) (s : state) : rs state :=
  revert_contracts (snd b) s.

(* Store.UpdateChainState(fn): one transaction, reverts first, then the applied blocks *)
Definition chain_update (revs : list (idx * changes)) (apps : list (idx * changes * option N))
    (s : state) : rs state :=
  dor s <- foldM (fun s b => revert_block b s) revs s ;
  foldM (fun s b => apply_block b s) apps s.

(* ResetChainState: DELETE FROM contract_v2_state_elements (the rest is wallet/settings) *)
Definition reset_chain (s : state) : state :=
  mkS (cs1 s) (map (fun c => set_elem2 c None) (cs2 s)) (mets s) (accts s) (fund1 s) (fund2 s).

(** * contracts.go — usage *)

(* updateContractUsage after incrementContractUsage *)
Definition usage_ops1 (st : st1) (lockedc : N) (u : usage) : list mop :=
  match st with
  | Active => ops_pot1 u false ++ ops_coll lockedc (uRisk u) false
  | Successful => ops_earn1 u false
  | _ => []
  end.
(* updateV2ContractUsage after incrementV2ContractUsage *)
Definition usage_ops2 (st : st2) (u : usage) : list mop :=
  match st with
  | A2 => ops_pot2 u false ++ ops_coll 0 (uRisk u) false
  | S2 | N2 => ops_earn2 u false
  | _ => []
  end.

(* reviseContract / clearContract: revision number and usage *)
Definition revise1 (r : N) (u : usage) (c : c1) : rs (c1 * list mop) :=
  ROk (set_use1 c r (uadd (use1 c) u), usage_ops1 (s1 c) 0 u).
(* reviseV2Contract *)
Definition revise2 (r : N) (u : usage) (c : c2) : rs (c2 * list mop) :=
  ROk (set_use2 c r (uadd (use2 c) u), usage_ops2 (s2 c) u).

Definition new1 (id ng lk r : N) (u : usage) : c1 := mkC1 id Pending false r 0 None ng lk u.
Definition new2 (id ng lk r : N) (u : usage) : c2 := mkC2 id P2 None None None r ng lk u.

(* insertContract: contract_id is UNIQUE *)
Definition add1 (c : c1) (s : state) : rs state :=
  match find1 (id1 c) (cs1 s) with
  | Some _ => RErr
  | None => ROk (mkS (cs1 s ++ [c]) (cs2 s) (mets s) (accts s) (fund1 s) (fund2 s))
  end.
Definition add2 (c : c2) (s : state) : rs state :=
  match find2 (id2 c) (cs2 s) with
  | Some _ => RErr
  | None => ROk (mkS (cs1 s) (cs2 s ++ [c]) (mets s) (accts s) (fund1 s) (fund2 s))
  end.

(** * accounts.go — funding and spending *)
Definition fmatch (c a : N) (r : frow) : bool := (fc r =? c) && (fa r =? a).

(* INSERT ... ON CONFLICT (contract_id, account_id) DO UPDATE SET amount = old + amt *)
Fixpoint fupsert (c a amt : N) (l : list frow) : list frow :=
  match l with
  | [] => [mkF c a amt]
  | r :: t => if fmatch c a r then mkF c a (famt r + amt) :: t else r :: fupsert c a amt t
  end.
(* set the remaining amount of a funding row; a row that reaches zero is deleted *)
Fixpoint fsetrem (c a rem : N) (l : list frow) : list frow :=
  match l with
  | [] => []
  | r :: t => if fmatch c a r then (if rem =? 0 then t else mkF c a rem :: t)
              else r :: fsetrem c a rem t
  end.

Definition credit (a amt : N) (l : list (N * N)) : list (N * N) :=
  aset a (match alookup a l with Some b => b + amt | None => amt end) l.

(* distributeFunds closure: (remaining usage, additional, remainder) *)
Definition dist (u ad r : N) : N * N * N :=
  if (r =? 0) || (u =? 0) then (u, ad, r)
  else let v := N.min u r in (u - v, ad + v, r - v).

(* distributeRHP3AccountUsage, one funding source: Storage, Ingress, Egress, RegistryRead,
   RegistryWrite, RPC.  Returns (remaining usage, additional usage, remainder). *)
Definition dist_row1 (u : usage) (amt : N) : usage * usage * N :=
  let '(sto, asto, r) := dist (uSto u) 0 amt in
  let '(ing, aing, r) := dist (uIng u) 0 r in
  let '(egr, aegr, r) := dist (uEgr u) 0 r in
  let '(rr, arr, r) := dist (uRR u) 0 r in
  let '(rw, arw, r) := dist (uRW u) 0 r in
  let '(rpc, arpc, r) := dist (uRpc u) 0 r in
  (mkU rpc sto ing egr rr rw (uFund u) (uRisk u), mkU arpc asto aing aegr arr arw 0 0, r).
(* distributeRHP4AccountUsage: Storage, Ingress, Egress, RPC *)
Definition dist_row2 (u : usage) (amt : N) : usage * usage * N :=
  let '(sto, asto, r) := dist (uSto u) 0 amt in
  let '(ing, aing, r) := dist (uIng u) 0 r in
  let '(egr, aegr, r) := dist (uEgr u) 0 r in
  let '(rpc, arpc, r) := dist (uRpc u) 0 r in
  (mkU rpc sto ing egr (uRR u) (uRW u) (uFund u) (uRisk u), mkU arpc asto aing aegr 0 0 0 0, r).

(* the contract side of one funding source: account_funding -= spent (Currency.Sub panics on
   underflow), then updateContractUsage(additional) *)
Definition debit_row1 (spent : N) (ad : usage) (c : c1) : rs (c1 * list mop) :=
  if uFund (use1 c) <? spent then RPanic PUnderflow
  else let u := set_fund (use1 c) (uFund (use1 c) - spent) in
       ROk (set_use1 c (rev1 c) (uadd u ad), usage_ops1 (s1 c) 0 ad).
Definition debit_row2 (spent : N) (ad : usage) (c : c2) : rs (c2 * list mop) :=
  if uFund (use2 c) <? spent then RPanic PUnderflow
  else let u := set_fund (use2 c) (uFund (use2 c) - spent) in
       ROk (set_use2 c (rev2 c) (uadd u ad), usage_ops2 (s2 c) ad).

Definition set_fund1 (s : state) (l : list frow) : state :=
  mkS (cs1 s) (cs2 s) (mets s) (accts s) l (fund2 s).
Definition set_fund2 (s : state) (l : list frow) : state :=
  mkS (cs1 s) (cs2 s) (mets s) (accts s) (fund1 s) l.
Definition set_accts (s : state) (l : list (N * N)) : state :=
  mkS (cs1 s) (cs2 s) (mets s) l (fund1 s) (fund2 s).

Definition is_source (a : N) (r : frow) : bool := (fa r =? a) && negb (famt r =? 0).

(* one iteration of the loop over the funding sources; the usage still to attribute is threaded *)
Definition dstep1 (a : N) (su : state * usage) (f : frow) : rs (state * usage) :=
  let '(u', ad, rem) := dist_row1 (snd su) (famt f) in
  let s := set_fund1 (fst su) (fsetrem (fc f) a rem (fund1 (fst su))) in
  dor s <- with1 (fc f) (debit_row1 (famt f - rem) ad) s ;
  ROk (s, u').
Definition dstep2 (a : N) (su : state * usage) (f : frow) : rs (state * usage) :=
  let '(u', ad, rem) := dist_row2 (snd su) (famt f) in
  let s := set_fund2 (fst su) (fsetrem (fc f) a rem (fund2 (fst su))) in
  dor s <- with2 (fc f) (debit_row2 (famt f - rem) ad) s ;
  ROk (s, u').

(* contractFunding / contractV2Funding read all sources first (rowid order, zero rows skipped) *)
Definition distribute1 (a : N) (u : usage) (s : state) : rs state :=
  dor r <- foldM (dstep1 a) (filter (is_source a) (fund1 s)) (s, u) ;
  ROk (fst r).
Definition distribute2 (a : N) (u : usage) (s : state) : rs state :=
  dor r <- foldM (dstep2 a) (filter (is_source a) (fund2 s)) (s, u) ;
  ROk (fst r).

(** * recalc.go — recalcContractMetrics, the maintainers' definition of the intended values.
   v1: rows with status active/successful; v2: active / successful / renewed (the v2 query does
   not read registry columns).  The per-status counters are not touched by it. *)
Definition recalc_row (active earned : bool) (lk : N) (u : usage) (acc : N * usage * usage)
  : N * usage * usage :=
  let '(tl, tp, te) := acc in
  if active then (tl + lk, uadd tp u, te)
  else if earned then (tl, tp, uadd te u)
  else acc.
Definition recalc_v1 (acc : N * usage * usage) (c : c1) :=
  recalc_row (st1_eqb (s1 c) Active) (st1_eqb (s1 c) Successful) (locked1 c) (use1 c) acc.
Definition v2usage (u : usage) : usage := mkU (uRpc u) (uSto u) (uIng u) (uEgr u) 0 0 (uFund u) (uRisk u).
Definition recalc_v2 (acc : N * usage * usage) (c : c2) :=
  recalc_row (st2_eqb (s2 c) A2) (st2_eqb (s2 c) S2 || st2_eqb (s2 c) N2) (locked2 c) (v2usage (use2 c)) acc.
Definition recalc_totals (l1 : list c1) (l2 : list c2) : N * usage * usage :=
  fold_left recalc_v2 l2 (fold_left recalc_v1 l1 (0, uzero, uzero)).
Definition recalc (s : state) : metrics :=
  let '(tl, tp, te) := recalc_totals (cs1 s) (cs2 s) in
  let m := mets s in
  mkM (nAct m) (nRej m) (nSucc m) (nFail m) (nRen m) tl (uRisk tp)
      (uRpc tp) (uSto tp) (uIng tp) (uEgr tp) (uRR tp) (uRW tp)
      (uRpc te) (uSto te) (uIng te) (uEgr te) (uRR te) (uRW te).

(** * Operations of the store that the harness drives *)
Inductive op :=
| AddV1 (id ng lk r : N) (u : usage)                         (* AddContract *)
| AddV2 (id ng lk r : N) (u : usage)                         (* AddV2Contract *)
| Revise1 (id r : N) (u : usage)                             (* ReviseContract *)
| Revise2 (id r : N) (u : usage)                             (* ReviseV2Contract *)
| Renew1 (old new ng lk rclear rnew : N) (uclear unew : usage)   (* RenewContract *)
| Renew2 (old new ng lk r : N) (u : usage)                   (* RenewV2Contract *)
| Fund1 (id a cost amt r : N)                                (* CreditAccountWithContract *)
| Debit1 (a : N) (u : usage)                                 (* DebitAccount *)
| Fund2 (id : N) (deps : list (N * N)) (r : N) (u : usage)   (* RHP4CreditAccounts *)
| Debit2 (a : N) (u : usage)                                 (* RHP4DebitAccount *)
| Chain (revs : list (idx * changes)) (apps : list (idx * changes * option N))
| Reset                                                      (* ResetChainState *)
| Recalc.                                                    (* recalcContractMetrics *)

Definition utotal1 (u : usage) : N := uRpc u + uSto u + uEgr u + uIng u + uRR u + uRW u.
Definition ucost2 (u : usage) : N := uRpc u + uSto u + uEgr u + uIng u + uFund u.

Definition exec (o : op) (s : state) : rs state :=
  match o with
  | AddV1 id ng lk r u => add1 (new1 id ng lk r u) s
  | AddV2 id ng lk r u => add2 (new2 id ng lk r u) s
  | Revise1 id r u => with1 id (revise1 r u) s
  | Revise2 id r u => with2 id (revise2 r u) s
  | Renew1 old new ng lk rclear rnew uclear unew =>
      dor s <- add1 (new1 new ng lk rnew unew) s ;
      with1 old (revise1 rclear uclear) s
  | Renew2 old new ng lk r u =>
      dor s <- add2 (new2 new ng lk r u) s ;
      match find2 old (cs2 s) with Some _ => ROk s | None => RErr end
  | Fund1 id a cost amt r =>
      let s := set_accts s (credit a amt (accts s)) in
      dor s <- with1 id (revise1 r (mkU cost 0 0 0 0 0 amt 0)) s ;
      ROk (set_fund1 s (fupsert id a amt (fund1 s)))
  | Debit1 a u =>
      match alookup a (accts s) with
      | None => RErr
      | Some b =>
          if b <? utotal1 u then RErr
          else distribute1 a u (set_accts s (aset a (b - utotal1 u) (accts s)))
      end
  | Fund2 id deps r u =>
      match find2 id (cs2 s) with
      | None => RErr
      | Some _ =>
          let s := fold_left (fun s (d : N * N) =>
                      set_fund2 (set_accts s (credit (fst d) (snd d) (accts s)))
                                (fupsert id (fst d) (snd d) (fund2 s))) deps s in
          with2 id (revise2 r u) s
      end
  | Debit2 a u =>
      match alookup a (accts s) with
      | None => RErr
      | Some b =>
          if b <? ucost2 u then RErr
          else distribute2 a u (set_accts s (aset a (b - ucost2 u) (accts s)))
      end
  | Chain revs apps => chain_update revs apps s
  | Reset => ROk (reset_chain s)
  | Recalc => ROk (mkS (cs1 s) (cs2 s) (recalc s) (accts s) (fund1 s) (fund2 s))
  end.

(** * Observations: result class and a snapshot of everything the properties talk about *)
Inductive cls := COk | CErr | CPanic (w : pwhy).

Inductive v1row := V1 (id : N) (st : st1) (fconf rconf : bool) (res : N) (lk : N) (u : list N).
Inductive v2row := V2 (id : N) (st : st2) (conf : idx) (rconf : bool) (res : idx) (u : list N).
Definition snap := (list v1row * list v2row * list N)%type.
Definition obs := (cls * snap)%type.

Definition ulist1 (u : usage) : list N :=
  [uRpc u; uSto u; uIng u; uEgr u; uRR u; uRW u; uFund u; uRisk u].
Definition ulist2 (u : usage) : list N := [uRpc u; uSto u; uIng u; uEgr u; uFund u; uRisk u].

(* Contract(): revision_confirmed = (revision_number = confirmed_revision_number);
   NULL resolution_height decodes to 0 *)
Definition view1 (c : c1) : v1row :=
  V1 (id1 c) (s1 c) (formed c) (rev1 c =? confRev c)
     (match resH c with Some h => h | None => 0 end) (locked1 c) (ulist1 (use1 c)).
(* V2Contract(): revision_confirmed = COALESCE(c.revision_number = cs.revision_number, false) *)
Definition oidx (o : option idx) : idx := match o with Some i => i | None => (0, 0) end.
Definition view2 (c : c2) : v2row :=
  V2 (id2 c) (s2 c) (oidx (conf2 c))
     (match elem2 c with Some r => rev2 c =? r | None => false end)
     (oidx (res2 c)) (ulist2 (use2 c)).

Definition mlist (m : metrics) : list N :=
  [nAct m; nRej m; nSucc m; nFail m; nRen m; mLocked m; mRisked m;
   pRpc m; pSto m; pIng m; pEgr m; pRR m; pRW m; eRpc m; eSto m; eIng m; eEgr m; eRR m; eRW m].

Definition snapshot (s : state) : snap := (map view1 (cs1 s), map view2 (cs2 s), mlist (mets s)).

Definition step (s : state) (o : op) : state * obs :=
  match exec o s with
  | ROk s' => (s', (COk, snapshot s'))
  | RErr => (s, (CErr, snapshot s))
  | RPanic w => (s, (CPanic w, snapshot s))
  end.

(** * Correspondence entry point *)
Definition pwhy_eqb (a b : pwhy) : bool :=
  match a, b with
  | PTransition, PTransition | PNegStat, PNegStat | PUnderflow, PUnderflow => true
  | _, _ => false
  end.
Definition cls_eqb (a b : cls) : bool :=
  match a, b with
  | COk, COk | CErr, CErr => true
  | CPanic v, CPanic w => pwhy_eqb v w
  | _, _ => false
  end.
Definition idx_eqb (a b : idx) : bool := (fst a =? fst b) && (snd a =? snd b).
Definition v1row_eqb (a b : v1row) : bool :=
  match a, b with
  | V1 i s f r h l u, V1 i' s' f' r' h' l' u' =>
      (i =? i') && st1_eqb s s' && Bool.eqb f f' && Bool.eqb r r' && (h =? h') && (l =? l')
      && list_eqb N.eqb u u'
  end.
Definition v2row_eqb (a b : v2row) : bool :=
  match a, b with
  | V2 i s c r h u, V2 i' s' c' r' h' u' =>
      (i =? i') && st2_eqb s s' && idx_eqb c c' && Bool.eqb r r' && idx_eqb h h'
      && list_eqb N.eqb u u'
  end.
Definition snap_eqb (a b : snap) : bool :=
  let '(x1, x2, xm) := a in
  let '(y1, y2, ym) := b in
  list_eqb v1row_eqb x1 y1 && list_eqb v2row_eqb x2 y2 && list_eqb N.eqb xm ym.
Definition obs_eqb (a b : obs) : bool := cls_eqb (fst a) (fst b) && snap_eqb (snd a) (snd b).

Definition case := (N * list (op * obs))%type.
Definition check (cs : list case) := mismatches init step obs_eqb cs.
