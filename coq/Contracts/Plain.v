(* Contracts/Plain.v — the non-chain operations (add / revise / renew / fund / debit / recalc) never
   touch the chain columns, ids or negotiation heights of existing rows; new rows start blank.
   Hence they preserve the history invariant J. *)
From Coq Require Import Lia ZifyBool ZifyN.
From HostdBase Require Import Base.
From HostdContracts Require Import Model Lib Inv InvOps Chain PerContract Proj Rows SpecLemmas Steps.
Local Open Scope N_scope.

Definition keeps1 (s s' : state) : Prop :=
  (forall id c, find1 id (cs1 s) = Some c ->
     exists c', find1 id (cs1 s') = Some c' /\ proj1 c' = proj1 c /\ neg1 c' = neg1 c) /\
  (forall id c', find1 id (cs1 s') = Some c' -> find1 id (cs1 s) = None -> proj1 c' = fresh_h1).
Definition keeps2 (s s' : state) : Prop :=
  (forall id c, find2 id (cs2 s) = Some c ->
     exists c', find2 id (cs2 s') = Some c' /\ proj2 c' = proj2 c /\ neg2 c' = neg2 c) /\
  (forall id c', find2 id (cs2 s') = Some c' -> find2 id (cs2 s) = None -> proj2 c' = fresh_h2).
Definition keeps (s s' : state) : Prop := keeps1 s s' /\ keeps2 s s'.

Lemma keeps_same s s' : cs1 s' = cs1 s -> cs2 s' = cs2 s -> keeps s s'.
Proof.
  intros E1 E2. unfold keeps, keeps1, keeps2. rewrite E1, E2. repeat split; intros; eauto; congruence.
Qed.
Lemma keeps1_same s s' : cs1 s' = cs1 s -> keeps1 s s'.
Proof. intros E1. unfold keeps1. rewrite E1. split; intros; eauto; congruence. Qed.
Lemma keeps2_same s s' : cs2 s' = cs2 s -> keeps2 s s'.
Proof. intros E2. unfold keeps2. rewrite E2. split; intros; eauto; congruence. Qed.
Lemma keeps_refl s : keeps s s. Proof. apply keeps_same; reflexivity. Qed.

Lemma keeps_trans s s' s'' : keeps s s' -> keeps s' s'' -> keeps s s''.
Proof.
  intros [[A1 B1] [A2 B2]] [[A1' B1'] [A2' B2']]. split; split.
  - intros id c Ef. destruct (A1 id c Ef) as (c' & Ef' & P & Q).
    destruct (A1' id c' Ef') as (c'' & Ef'' & P' & Q'). exists c''. repeat split; congruence.
  - intros id c'' Ef'' En. destruct (find1 id (cs1 s')) as [c'|] eqn:E'.
    + destruct (A1' id c' E') as (c2 & Ef2 & P & _). assert (c2 = c'') as -> by congruence.
      rewrite P. eapply B1; eauto.
    + eapply B1'; eauto.
  - intros id c Ef. destruct (A2 id c Ef) as (c' & Ef' & P & Q).
    destruct (A2' id c' Ef') as (c'' & Ef'' & P' & Q'). exists c''. repeat split; congruence.
  - intros id c'' Ef'' En. destruct (find2 id (cs2 s')) as [c'|] eqn:E'.
    + destruct (A2' id c' E') as (c2 & Ef2 & P & _). assert (c2 = c'') as -> by congruence.
      rewrite P. eapply B2; eauto.
    + eapply B2'; eauto.
Qed.

Definition chainfree1 (f : c1 -> rs (c1 * list mop)) : Prop :=
  forall c r, f c = ROk r -> proj1 (fst r) = proj1 c /\ neg1 (fst r) = neg1 c /\ id1 (fst r) = id1 c.
Definition chainfree2 (f : c2 -> rs (c2 * list mop)) : Prop :=
  forall c r, f c = ROk r -> proj2 (fst r) = proj2 c /\ neg2 (fst r) = neg2 c /\ id2 (fst r) = id2 c.

Lemma with1_keeps id f s s' : chainfree1 f -> with1 id f s = ROk s' -> keeps s s'.
Proof.
  intros Hf. unfold with1. destruct (find1 id (cs1 s)) as [c|] eqn:Ef; [|discriminate].
  destruct (f c) as [r| |] eqn:Er; cbn; try discriminate.
  destruct (mapply (snd r) (mets s)); cbn; try discriminate. intros [= <-].
  destruct (Hf c r Er) as (P & Q & Hid). destruct (find1_in_ids _ _ _ Ef) as [Hin Hc].
  assert (Hfind : forall i, find1 i (repl1 (fst r) (cs1 s)) = if i =? id then Some (fst r) else find1 i (cs1 s)).
  { intros i. rewrite find1_repl by (rewrite Hid, Hc; exact Hin). rewrite Hid, Hc. reflexivity. }
  split; [split|apply keeps2_same; reflexivity]; cbn.
  - intros i c0 E0. rewrite Hfind. destruct (i =? id) eqn:E.
    + assert (i = id) as -> by lia. assert (c0 = c) as -> by congruence. eauto.
    + eauto.
  - intros i c' E' En. rewrite Hfind in E'. destruct (i =? id) eqn:E.
    + assert (i = id) as -> by lia. congruence.
    + congruence.
Qed.
Lemma with2_keeps id f s s' : chainfree2 f -> with2 id f s = ROk s' -> keeps s s'.
Proof.
  intros Hf. unfold with2. destruct (find2 id (cs2 s)) as [c|] eqn:Ef; [|discriminate].
  destruct (f c) as [r| |] eqn:Er; cbn; try discriminate.
  destruct (mapply (snd r) (mets s)); cbn; try discriminate. intros [= <-].
  destruct (Hf c r Er) as (P & Q & Hid). destruct (find2_in_ids _ _ _ Ef) as [Hin Hc].
  assert (Hfind : forall i, find2 i (repl2 (fst r) (cs2 s)) = if i =? id then Some (fst r) else find2 i (cs2 s)).
  { intros i. rewrite find2_repl by (rewrite Hid, Hc; exact Hin). rewrite Hid, Hc. reflexivity. }
  split; [apply keeps1_same; reflexivity|split]; cbn.
  - intros i c0 E0. rewrite Hfind. destruct (i =? id) eqn:E.
    + assert (i = id) as -> by lia. assert (c0 = c) as -> by congruence. eauto.
    + eauto.
  - intros i c' E' En. rewrite Hfind in E'. destruct (i =? id) eqn:E.
    + assert (i = id) as -> by lia. congruence.
    + congruence.
Qed.

Lemma add1_keeps c s s' : proj1 c = fresh_h1 -> add1 c s = ROk s' -> keeps s s'.
Proof.
  intros Hp. unfold add1. destruct (find1 (id1 c) (cs1 s)) eqn:E; [discriminate|]. intros [= <-].
  split; [split|apply keeps2_same; reflexivity]; cbn.
  - intros i c0 E0. exists c0. unfold find1 in *. rewrite findk_app, E0. auto.
  - intros i c' E' En. unfold find1 in *. rewrite findk_app, En in E'. cbn in E'.
    destruct (id1 c =? i); [|discriminate]. congruence.
Qed.
Lemma add2_keeps c s s' : proj2 c = fresh_h2 -> add2 c s = ROk s' -> keeps s s'.
Proof.
  intros Hp. unfold add2. destruct (find2 (id2 c) (cs2 s)) eqn:E; [discriminate|]. intros [= <-].
  split; [apply keeps1_same; reflexivity|split]; cbn.
  - intros i c0 E0. exists c0. unfold find2 in *. rewrite findk_app, E0. auto.
  - intros i c' E' En. unfold find2 in *. rewrite findk_app, En in E'. cbn in E'.
    destruct (id2 c =? i); [|discriminate]. congruence.
Qed.

Lemma revise1_cf r u : chainfree1 (revise1 r u).
Proof. intros c x [= <-]. cbn. auto. Qed.
Lemma revise2_cf r u : chainfree2 (revise2 r u).
Proof. intros c x [= <-]. cbn. auto. Qed.
Lemma debit_row1_cf sp ad : chainfree1 (debit_row1 sp ad).
Proof. intros c x. unfold debit_row1. destruct (_ <? _); [discriminate|]. intros [= <-]. cbn. auto. Qed.
Lemma debit_row2_cf sp ad : chainfree2 (debit_row2 sp ad).
Proof. intros c x. unfold debit_row2. destruct (_ <? _); [discriminate|]. intros [= <-]. cbn. auto. Qed.

Lemma foldM_keeps_pair {A} (f : state * usage -> A -> rs (state * usage)) l :
  (forall su a su', f su a = ROk su' -> keeps (fst su) (fst su')) ->
  forall su su', foldM f l su = ROk su' -> keeps (fst su) (fst su').
Proof.
  intros Hf. induction l as [|a t IH]; intros su su'; cbn.
  - intros [= <-]. apply keeps_refl.
  - destruct (f su a) as [su1| |] eqn:E; cbn; try discriminate. intros H.
    eapply keeps_trans; [eapply Hf; eauto|eapply IH; eauto].
Qed.

Lemma dstep1_keeps a su f su' : dstep1 a su f = ROk su' -> keeps (fst su) (fst su').
Proof.
  unfold dstep1. destruct (dist_row1 (snd su) (famt f)) as [[u' ad] rem].
  destruct (with1 _ _ _) as [s1| |] eqn:E; cbn; try discriminate. intros [= <-]. cbn.
  eapply keeps_trans; [|eapply with1_keeps; [apply debit_row1_cf|exact E]].
  apply keeps_same; reflexivity.
Qed.
Lemma dstep2_keeps a su f su' : dstep2 a su f = ROk su' -> keeps (fst su) (fst su').
Proof.
  unfold dstep2. destruct (dist_row2 (snd su) (famt f)) as [[u' ad] rem].
  destruct (with2 _ _ _) as [s1| |] eqn:E; cbn; try discriminate. intros [= <-]. cbn.
  eapply keeps_trans; [|eapply with2_keeps; [apply debit_row2_cf|exact E]].
  apply keeps_same; reflexivity.
Qed.

Lemma credit_fund2_cs id deps : forall s,
  let s' := fold_left (fun s (d : N * N) =>
         set_fund2 (set_accts s (credit (fst d) (snd d) (accts s)))
                   (fupsert id (fst d) (snd d) (fund2 s))) deps s in
  cs1 s' = cs1 s /\ cs2 s' = cs2 s.
Proof.
  induction deps as [|d t IH]; intros s; cbn; [auto|].
  destruct (IH (set_fund2 (set_accts s (credit (fst d) (snd d) (accts s))) (fupsert id (fst d) (snd d) (fund2 s)))) as [A B].
  cbn in *. auto.
Qed.

Lemma exec_plain_keeps o s s' : is_plain o = true -> exec o s = ROk s' -> keeps s s'.
Proof.
  destruct o; cbn [is_plain exec]; try discriminate; intros _.
  - apply add1_keeps; reflexivity.
  - apply add2_keeps; reflexivity.
  - apply with1_keeps, revise1_cf.
  - apply with2_keeps, revise2_cf.
  - destruct (add1 _ s) as [s1| |] eqn:E; cbn; try discriminate. intros H.
    eapply keeps_trans; [eapply add1_keeps; [|exact E]; reflexivity|eapply with1_keeps; [apply revise1_cf|exact H]].
  - destruct (add2 _ s) as [s1| |] eqn:E; cbn; try discriminate.
    destruct (find2 old (cs2 s1)); [|discriminate]. intros [= <-].
    eapply add2_keeps; [|exact E]; reflexivity.
  - destruct (with1 _ _ _) as [s1| |] eqn:E; cbn; try discriminate. intros [= <-].
    eapply keeps_trans; [|eapply keeps_trans; [eapply with1_keeps; [apply revise1_cf|exact E]|]];
      apply keeps_same; reflexivity.
  - destruct (alookup a (accts s)) as [b|]; [|discriminate].
    destruct (b <? utotal1 u); [discriminate|]. unfold distribute1.
    destruct (foldM _ _ _) as [su'| |] eqn:E; cbn; try discriminate. intros [= <-].
    eapply keeps_trans; [|eapply (foldM_keeps_pair (dstep1 a)); [apply dstep1_keeps|exact E]].
    apply keeps_same; reflexivity.
  - destruct (find2 id (cs2 s)); [|discriminate]. intros H.
    eapply keeps_trans; [|eapply with2_keeps; [apply revise2_cf|exact H]].
    destruct (credit_fund2_cs id deps s) as [A B]. apply keeps_same; assumption.
  - destruct (alookup a (accts s)) as [b|]; [|discriminate].
    destruct (b <? ucost2 u); [discriminate|]. unfold distribute2.
    destruct (foldM _ _ _) as [su'| |] eqn:E; cbn; try discriminate. intros [= <-].
    eapply keeps_trans; [|eapply (foldM_keeps_pair (dstep2 a)); [apply dstep2_keeps|exact E]].
    apply keeps_same; reflexivity.
  - intros [= <-]. apply keeps_same; reflexivity.
Qed.

Lemma keeps_J buffer s s' K : J buffer s K -> Inv s' -> keeps s s' -> J buffer s' K.
Proof.
  intros (Hs & Hck & Hr1 & Hr2) Hs' [[A1 B1] [A2 B2]].
  assert (M1 : forall id ng, negof1 s id = Some ng -> negof1 s' id = Some ng).
  { intros id ng H. apply negof1_some in H. destruct H as (c & Ef & <-).
    destruct (A1 id c Ef) as (c' & Ef' & _ & Q). apply negof1_some. eauto. }
  assert (M2 : forall id ng, negof2 s id = Some ng -> negof2 s' id = Some ng).
  { intros id ng H. apply negof2_some in H. destruct H as (c & Ef & <-).
    destruct (A2 id c Ef) as (c' & Ef' & _ & Q). apply negof2_some. eauto. }
  split; [exact Hs'|]. split; [eapply chain_ok_mono; eauto|]. split.
  - intros id c' Ef'. destruct (find1 id (cs1 s)) as [c|] eqn:Ef.
    + destruct (A1 id c Ef) as (c2 & Ef2 & P & Q). assert (c2 = c') as -> by congruence.
      rewrite P, Q. auto.
    + rewrite (B1 id c' Ef' Ef). apply blank1_heqv, spec1_unmentioned.
      intros b Hin. destruct (evl_dec (evl1_of id b)) as [E|E]; [exact E|].
      exfalso. apply (chain_ok_known1 _ _ _ _ _ _ Hck Hin E). unfold negof1. rewrite Ef. reflexivity.
  - intros id c' Ef'. destruct (find2 id (cs2 s)) as [c|] eqn:Ef.
    + destruct (A2 id c Ef) as (c2 & Ef2 & P & Q). assert (c2 = c') as -> by congruence.
      rewrite P, Q. auto.
    + rewrite (B2 id c' Ef' Ef). apply blank2_heqv, spec2_unmentioned.
      intros b Hin. destruct (evl_dec (evl2_of id b)) as [E|E]; [exact E|].
      exfalso. apply (chain_ok_known2 _ _ _ _ _ _ Hck Hin E). unfold negof2. rewrite Ef. reflexivity.
Qed.

Lemma plain_J buffer s K o : J buffer s K -> is_plain o = true -> J buffer (exec_plain o s) K.
Proof.
  intros HJ Hp. unfold exec_plain. pose proof HJ as (Hs & _).
  pose proof (exec_good o s Hs) as Hg. unfold good in Hg.
  destruct (exec o s) as [s'| |] eqn:E; cbn in Hg; [|exact HJ|exact HJ].
  eapply keeps_J; [exact HJ|exact Hg|eapply exec_plain_keeps; eauto].
Qed.

(* monotone: plain operations only add contracts *)
Lemma plain_negof s o :
  is_plain o = true ->
  (forall id ng, negof1 s id = Some ng -> negof1 (exec_plain o s) id = Some ng) /\
  (forall id ng, negof2 s id = Some ng -> negof2 (exec_plain o s) id = Some ng).
Proof.
  intros Hp. unfold exec_plain. destruct (exec o s) as [s'| |] eqn:E; [|auto|auto].
  destruct (exec_plain_keeps o s s' Hp E) as [[A1 _] [A2 _]]. split.
  - intros id ng H. apply negof1_some in H. destruct H as (c & Ef & <-).
    destruct (A1 id c Ef) as (c' & Ef' & _ & Q). apply negof1_some. eauto.
  - intros id ng H. apply negof2_some in H. destruct H as (c & Ef & <-).
    destruct (A2 id c Ef) as (c' & Ef' & _ & Q). apply negof2_some. eauto.
Qed.
