(* Wallet/ProofsTotal.v — a well-formed batch never fails or panics when the total value ever
   created for the wallet on the chain stays below 2^128 (the currency range). *)
From Coq Require Import Lia ZifyBool ZifyN.
From HostdBase Require Import Base.
From HostdWallet Require Import Model Lib Proofs.

Definition vsum (l : list elem) : N := wsum eval l.
Fixpoint csum (C : list ablock) : N :=
  match C with [] => 0%N | b :: C' => (vsum (ab_created b) + csum C')%N end.

Lemma vsum_split h l : vsum l = (msum h l + isum h l)%N.
Proof.
  unfold vsum, msum, isum. induction l as [|e t IH]; cbn [wsum]; [reflexivity|].
  rewrite IH. pose proof (mval_ival h e). lia.
Qed.
Lemma wsum_mi h l : (wsum (mval h) l + wsum (ival h) l = vsum l)%N.
Proof. rewrite (vsum_split h l). reflexivity. Qed.
Lemma qsum_le_msum h l : (qsum h l <= msum h l)%N.
Proof.
  unfold qsum, msum. induction l as [|e t IH]; cbn [wsum]; [lia|].
  unfold qval at 1, mval at 1. destruct (emat e =? h)%N eqn:A, (emat e <=? h)%N eqn:B; lia.
Qed.
Lemma isum_qsum_le h l : (isum h l + qsum h l <= vsum l)%N.
Proof.
  unfold isum, qsum, vsum. induction l as [|e t IH]; cbn [wsum]; [lia|].
  unfold ival at 1, qval at 1. destruct (emat e =? h)%N eqn:A, (emat e <=? h)%N eqn:B; lia.
Qed.

Lemma cadd_total a b : (a + b < two128)%N -> cadd a b = Ok (a + b)%N.
Proof. intros H. unfold cadd. destruct (a + b <? two128)%N eqn:Q; [reflexivity|lia]. Qed.

Lemma matured_sum_total h : forall u acc, (acc + qsum h u < two128)%N ->
  exists m, matured_sum u h acc = Ok m.
Proof.
  unfold qsum. induction u as [|e t IH]; intros acc H; cbn [matured_sum wsum] in *; [eexists; reflexivity|].
  unfold qval in H at 1. destruct (emat e =? h)%N.
  - rewrite cadd_total by lia. cbn [bind]. apply IH. lia.
  - apply IH. lia.
Qed.

Lemma delete_elems_total h : forall l u mo io, ssorted eid u -> (forall e, In e l -> In e u) -> NoDup (ids l) ->
  (mo + wsum (mval h) l < two128)%N -> (io + wsum (ival h) l < two128)%N ->
  exists r, delete_elems u l h mo io = Ok r.
Proof.
  induction l as [|e t IH]; intros u mo io S Hin ND Hm Hi; cbn [delete_elems wsum] in *; [eexists; reflexivity|].
  assert (In e u) as He by (apply Hin; left; reflexivity).
  assert (tmem eid (eid e) u = true) as Hmem by (apply tmem_In; exists e; auto).
  destruct (tdel_some eid (eid e) u Hmem) as [u1 Ed]. rewrite Ed.
  destruct (tdel_spec eid (eid e) u u1 S Ed) as [S1 [I1 _]].
  inversion ND as [|? ? Hnot ND']; subst.
  assert (forall e', In e' t -> In e' u1) as Hin1.
  { intros e' He'. apply I1. split; [apply Hin; right; exact He'|].
    intros E. apply Hnot. rewrite <- E. apply in_map. exact He'. }
  unfold mval in Hm at 1. unfold ival in Hi at 1.
  destruct (emat e <=? h)%N.
  - rewrite cadd_total by lia. cbn [bind]. apply IH; auto; lia.
  - rewrite cadd_total by lia. cbn [bind]. apply IH; auto; lia.
Qed.

Lemma create_elems_total h : forall l u mi ii,
  (mi + wsum (mval h) l < two128)%N -> (ii + wsum (ival h) l < two128)%N ->
  exists r, create_elems u l h mi ii = Ok r.
Proof.
  induction l as [|e t IH]; intros u mi ii Hm Hi; cbn [create_elems wsum] in *; [eexists; reflexivity|].
  unfold mval in Hm at 1. unfold ival in Hi at 1.
  destruct (emat e <=? h)%N.
  - rewrite cadd_total by lia. cbn [bind]. apply IH; lia.
  - rewrite cadd_total by lia. cbn [bind]. apply IH; lia.
Qed.

Lemma sincr_total rows b delta (neg : bool) : (smaxkey rows <= b)%N ->
  (if neg then (delta <= scur rows)%N else (scur rows + delta < two128)%N) ->
  exists rows', sincr rows b delta neg = Ok rows'.
Proof.
  intros Hb H. unfold sincr. destruct (delta =? 0)%N; [eexists; reflexivity|].
  rewrite (sread_cur rows b Hb). destruct neg.
  - destruct (scur rows <? delta)%N eqn:Q; [lia|eexists; reflexivity].
  - rewrite cadd_total by exact H. cbn [bind]. eexists; reflexivity.
Qed.

Lemma update_balance_total bal imm mi mo ii io ts B I :
  (scur bal + mi = B + mo)%N -> (scur imm + ii = I + io)%N -> (B < two128)%N -> (I < two128)%N ->
  exists r, update_balance bal imm mi mo ii io ts = Ok r.
Proof.
  intros HB HI LB LI. unfold update_balance.
  destruct (net mi mo) as [md mneg] eqn:N1. destruct (net ii io) as [id ineg] eqn:N2.
  apply net_spec in N1. apply net_spec in N2.
  destruct ((md =? 0) && (id =? 0))%N; [eexists; reflexivity|].
  set (b := N.max (bucket ts) (N.max (smaxkey bal) (smaxkey imm))).
  assert (smaxkey bal <= b)%N as Hb1 by (unfold b; lia).
  assert (smaxkey imm <= b)%N as Hb2 by (unfold b; lia).
  assert (exists bal', (if (md =? 0)%N then Ok bal else sincr bal b md mneg) = Ok bal') as [bal' E1].
  { destruct (md =? 0)%N; [eexists; reflexivity|]. apply sincr_total; [exact Hb1|]. destruct mneg; lia. }
  assert (exists imm', (if (id =? 0)%N then Ok imm else sincr imm b id ineg) = Ok imm') as [imm' E2].
  { destruct (id =? 0)%N; [eexists; reflexivity|]. apply sincr_total; [exact Hb2|]. destruct ineg; lia. }
  rewrite E1. cbn [bind]. rewrite E2. cbn [bind]. eexists; reflexivity.
Qed.

(* value bounds of the pure table functions *)
Lemma vsum_tdel k u u' : tdel eid k u = Some u' -> (vsum u' <= vsum u)%N.
Proof.
  unfold vsum. revert u'. induction u as [|x t IH]; intros u'; cbn [tdel]; [discriminate|].
  destruct (k =? eid x)%N; [intros [= <-]; cbn [wsum]; lia|].
  destruct (tdel eid k t) as [t'|]; [|discriminate]. intros [= <-]. cbn [wsum]. specialize (IH t' eq_refl). lia.
Qed.
Lemma vsum_del_all : forall l u, (vsum (del_all l u) <= vsum u)%N.
Proof.
  induction l as [|e t IH]; intros u; cbn [del_all]; [lia|].
  destruct (tdel eid (eid e) u) as [u'|] eqn:E; [|apply IH].
  pose proof (vsum_tdel (eid e) u u' E). specialize (IH u'). lia.
Qed.
Lemma vsum_tins x u : (vsum (tins eid x u) <= vsum u + eval x)%N.
Proof.
  unfold vsum. induction u as [|y t IH]; cbn [tins wsum]; [lia|].
  destruct (eid x <? eid y)%N; [cbn [wsum]; lia|]. destruct (eid x =? eid y)%N; cbn [wsum]; lia.
Qed.
Lemma vsum_ins_all : forall l u, (vsum (ins_all l u) <= vsum u + vsum l)%N.
Proof.
  induction l as [|e t IH]; intros u; cbn [ins_all]; [unfold vsum; cbn; lia|].
  specialize (IH (tins eid e u)). pose proof (vsum_tins e u). unfold vsum in *. cbn [wsum]. lia.
Qed.
Lemma vsum_ufold C : (vsum (ufold C) <= csum C)%N.
Proof.
  induction C as [|b C IH]; cbn [ufold csum]; [unfold vsum; cbn; lia|].
  pose proof (vsum_ins_all (ab_created b) (del_all (ab_spent b) (ufold C))).
  pose proof (vsum_del_all (ab_spent b) (ufold C)). lia.
Qed.

Lemma wsum_del_all (w : elem -> N) : forall l u, ssorted eid u -> (forall e, In e l -> In e u) -> NoDup (ids l) ->
  wsum w u = (wsum w (del_all l u) + wsum w l)%N.
Proof.
  induction l as [|e t IH]; intros u S Hin ND; cbn [del_all wsum]; [lia|].
  assert (In e u) as He by (apply Hin; left; reflexivity).
  assert (tmem eid (eid e) u = true) as Hmem by (apply tmem_In; exists e; auto).
  destruct (tdel_some eid (eid e) u Hmem) as [u1 Ed]. rewrite Ed.
  destruct (tdel_spec eid (eid e) u u1 S Ed) as [S1 [I1 _]].
  inversion ND as [|? ? Hnot ND']; subst.
  assert (forall e', In e' t -> In e' u1) as Hin1.
  { intros e' He'. apply I1. split; [apply Hin; right; exact He'|].
    intros E. apply Hnot. rewrite <- E. apply in_map. exact He'. }
  rewrite (wsum_tdel w eid e u u1 S He Ed), (IH u1 S1 Hin1 ND'). lia.
Qed.

(** * One block *)
Lemma wallet_apply_total s C b : winv s C -> valid_chain (b :: C) -> (csum (b :: C) < two128)%N ->
  exists s', wallet_apply s b = Ok s'.
Proof.
  intros [HC [HU [HE HB]]] HV Bd. pose proof HV as HV'. cbn [valid_chain] in HV'.
  destruct HV' as [_ [Hh [Hsp [NDs [Hcr [NDc _]]]]]].
  assert (ssorted eid (utxos s)) as S by (rewrite HU; apply ufold_sorted).
  pose proof (vsum_ufold C) as VU. pose proof (vsum_ufold (b :: C)) as VU2.
  cbn [ufold csum] in VU2. cbn [csum] in Bd. rewrite <- HU in Hsp, Hcr, VU, VU2.
  set (h := ih (ab_idx b)). set (U := utxos s) in *.
  assert (bal_below s h) as [Hb Hi].
  { destruct C as [|t C'].
    - cbn [ufold] in HU. unfold bal_below. destruct HB as [B1 B2]. unfold U in *. rewrite HU in *. cbn in *. lia.
    - cbn [tip_height] in HB. unfold h. rewrite Hh. apply bal_below_of_at. exact HB. }
  fold U in Hb, Hi.
  pose proof (vsum_split h U) as VS. pose proof (qsum_le_msum h U) as QM. pose proof (isum_qsum_le h U) as IQ.
  pose proof (wsum_del_all (mval h) (ab_spent b) U S Hsp NDs) as DM.
  pose proof (wsum_del_all (ival h) (ab_spent b) U S Hsp NDs) as DI.
  fold (msum h U) in DM. fold (isum h U) in DI.
  pose proof (wsum_mi h (ab_created b)) as CMI.
  unfold wallet_apply. fold h. fold U.
  destruct (matured_sum_total h U 0) as [m Em]; [lia|]. rewrite Em. cbn [bind].
  pose proof (matured_sum_spec U h 0 m Em) as Hm.
  destruct (delete_elems_total h (ab_spent b) U 0 0 S Hsp NDs) as [[[u1 mo] io] Ed]; [lia|lia|].
  rewrite Ed. cbn [bind].
  destruct (delete_elems_spec h _ _ _ _ _ _ _ S Hsp NDs Ed) as [E1 [S1 [I1 [M1 [J1 [Mo Io]]]]]].
  assert (forall e, In e (ab_created b) -> tmem eid (eid e) u1 = false) as Hcr1.
  { intros e He. apply tmem_false_In. intros y Hy E. apply I1 in Hy. destruct Hy as [Hy _].
    apply (proj1 (tmem_false_In eid (eid e) U) (Hcr e He) y Hy E). }
  destruct (create_elems_total h (ab_created b) u1 0 0) as [[[u2 mi] ii] Ec]; [lia|lia|].
  rewrite Ec. cbn [bind].
  destruct (create_elems_spec h _ _ _ _ _ _ _ S1 Hcr1 NDc Ec) as [E2 [S2 [I2 [M2 [J2 [Mi Ii]]]]]].
  rewrite cadd_total by lia. cbn [bind]. rewrite cadd_total by lia. cbn [bind].
  assert (vsum u2 < two128)%N as VB by (subst u2 u1; lia).
  pose proof (vsum_split h u2) as VS2.
  destruct (update_balance_total (mbal s) (mimm s) (mi + m) mo ii (io + m) (ab_ts b) (msum h u2) (isum h u2)) as [[bal imm] Eu]; try lia.
  rewrite Eu. cbn [bind]. eexists; reflexivity.
Qed.

Lemma wallet_revert_total s b C r : winv s (b :: C) ->
  rb_idx r = ab_idx b -> rb_removed r = ab_created b -> rb_unspent r = ab_spent b ->
  (csum (b :: C) < two128)%N -> exists s', wallet_revert s r = Ok s'.
Proof.
  intros [HV [HU [HE HB]]] Ei Er Eu Bd. pose proof HV as HV'. cbn [valid_chain] in HV'.
  destruct HV' as [HC [Hh [Hsp [NDs [_ [NDc _]]]]]].
  destruct (revert_utxos b C HV) as [R1 [R2 R3]].
  assert (ssorted eid (utxos s)) as S by (rewrite HU; apply ufold_sorted).
  pose proof (vsum_ufold C) as VU. pose proof (vsum_ufold (b :: C)) as VX. cbn [csum] in Bd, VX.
  cbn [tip_height] in HB. destruct HB as [Hb Hi].
  set (h := ih (ab_idx b)) in *. set (X := utxos s) in *. rewrite <- HU in R1, R2, R3, VX.
  set (U := ufold C) in *.
  pose proof (wsum_del_all (mval h) (ab_created b) X S R1 NDc) as DM.
  pose proof (wsum_del_all (ival h) (ab_created b) X S R1 NDc) as DI.
  fold (msum h X) in DM. fold (isum h X) in DI.
  pose proof (vsum_split h X) as VSX.
  pose proof (wsum_del_all (mval h) (ab_spent b) U (ufold_sorted C) Hsp NDs) as SM.
  pose proof (wsum_del_all (ival h) (ab_spent b) U (ufold_sorted C) Hsp NDs) as SI.
  fold (msum h U) in SM. fold (isum h U) in SI.
  pose proof (vsum_split h U) as VSU. pose proof (qsum_le_msum h U) as QM. pose proof (isum_qsum_le h U) as IQ.
  pose proof (wsum_mi h (ab_created b)) as CMI.
  unfold wallet_revert. rewrite Ei, Er, Eu. fold h. fold X.
  destruct (delete_elems_total h (ab_created b) X 0 0 S R1 NDc) as [[[u1 mo] io] Ed]; [lia|lia|].
  rewrite Ed. cbn [bind].
  destruct (delete_elems_spec h _ _ _ _ _ _ _ S R1 NDc Ed) as [E1 [S1 [I1 [M1 [J1 [Mo Io]]]]]].
  rewrite <- E1 in R2, R3.
  destruct (create_elems_total h (ab_spent b) u1 0 0) as [[[u2 mi] ii] Ec]; [lia|lia|].
  rewrite Ec. cbn [bind].
  destruct (create_elems_spec h _ _ _ _ _ _ _ S1 R2 NDs Ec) as [E2 [S2 [I2 [M2 [J2 [Mi Ii]]]]]].
  assert (u2 = U) as EU by (rewrite E2; exact R3). rewrite EU in *.
  destruct (matured_sum_total h U 0) as [m Em]; [lia|]. rewrite Em. cbn [bind].
  pose proof (matured_sum_spec U h 0 m Em) as Hm.
  rewrite cadd_total by lia. cbn [bind]. rewrite cadd_total by lia. cbn [bind].
  destruct (update_balance_total (mbal s) (mimm s) mi (mo + m) (ii + m) io (rb_ts r)
              (msum h U - qsum h U) (isum h U + qsum h U)) as [[bal imm] Eb]; try lia.
  rewrite Eb. cbn [bind]. eexists; reflexivity.
Qed.

Lemma csum_app X Y : csum (X ++ Y) = (csum X + csum Y)%N.
Proof. induction X as [|b X IH]; cbn [app csum]; [reflexivity|]. rewrite IH. lia. Qed.

Lemma applies_total : forall bs s C, winv s C -> valid_chain (rev bs ++ C) -> (csum (rev bs ++ C) < two128)%N ->
  exists s', wallet_applies s bs = Ok s'.
Proof.
  induction bs as [|b t IH]; intros s C W V Bd; cbn [wallet_applies]; [eexists; reflexivity|].
  cbn [rev] in V, Bd. rewrite <- app_assoc in V, Bd. cbn [app] in V, Bd.
  pose proof (valid_chain_app (rev t) (b :: C) V) as Vb.
  assert (csum (b :: C) < two128)%N as Bb by (rewrite csum_app in Bd; lia).
  destruct (wallet_apply_total s C b W Vb Bb) as [s1 E1]. rewrite E1. cbn [bind].
  destruct (winv_apply s C b s1 W Vb E1) as [W1 _].
  exact (IH s1 (b :: C) W1 V Bd).
Qed.

Lemma firstn_skipn_csum n (C : list ablock) : (csum (skipn n C) <= csum C)%N.
Proof.
  rewrite <- (firstn_skipn n C) at 2. rewrite csum_app. lia.
Qed.

Lemma reverts_total : forall rs s C, winv s C -> wf_reverts C rs -> (csum C < two128)%N ->
  exists s', wallet_reverts s rs = Ok s'.
Proof.
  induction rs as [|r t IH]; intros s C W F Bd; cbn [wallet_reverts]; [eexists; reflexivity|].
  destruct C as [|b C]; [destruct F|]. cbn [wf_reverts] in F. destruct F as [F1 [F2 [F3 [_ F5]]]].
  destruct (wallet_revert_total s b C r W F1 F2 F3 Bd) as [s1 E1]. rewrite E1. cbn [bind].
  destruct (winv_revert s b C r s1 W F1 F2 F3 E1) as [W1 _].
  apply (IH s1 C W1 F5). cbn [csum] in Bd. lia.
Qed.

(* every well-formed batch succeeds while the total value created on the chains involved stays
   in the currency range *)
Theorem batch_never_fails s C rs bs : reach s C -> wf_batch C rs bs ->
  (csum C < two128)%N -> (csum (chain_after C rs bs) < two128)%N ->
  exists s', batch s rs bs = Ok s'.
Proof.
  intros R [F V] B1 B2. pose proof (reach_winv s C R) as W. unfold chain_after in *.
  destruct (reverts_total rs s C W F B1) as [s1 E1].
  destruct (winv_reverts rs s C s1 W F E1) as [W1 _].
  destruct (applies_total bs s1 _ W1 V B2) as [s2 E2].
  unfold batch. destruct rs as [|r rs']; [destruct bs as [|b bs']|].
  - eexists; reflexivity.
  - rewrite E1. cbn [bind]. rewrite E2. cbn [bind]. eexists; reflexivity.
  - rewrite E1. cbn [bind]. rewrite E2. cbn [bind]. eexists; reflexivity.
Qed.
