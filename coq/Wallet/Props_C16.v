(* C16 — Wallet and announcement state follow the best chain.  Statements only. *)
From HostdBase Require Import Base.
From HostdWallet Require Import Model Lib Proofs ProofsAnn.

Theorem c16_reset : forall s, reset s = init.
Proof. exact reset_is_init. Qed.
Print Assumptions c16_reset.

Example c16_nonvacuous : reset init = init.
Proof. vm_compute; reflexivity. Qed.
