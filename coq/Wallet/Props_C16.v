(* C16 — Wallet and announcement state follow the best chain.
   Statements only; every proof is [exact lemma].

   The model (Model.v) corresponds to /repo HEAD, which contains the four repairs found with this
   check (fixes/C16-*.patch, committed as 34e7e39, 3cf7e64, 54e02b6, 4115bc1):
     - host/settings/update.go compares the reverted block's own index (not cru.State.Index, the
       parent) with the recorded announcement index;
     - ResetChainState also clears last_v2_announce_hash;
     - WalletApplyIndex reads the balance maturing at the block's height before it removes and
       adds the block's own outputs (an output spent or created at its maturity height);
     - updateBalanceMetric never records a change before the newest data point of the series
       (block timestamps are not monotone across reverts).
   On the code before these commits each of them is a violation that the harness monitors
   reproduce (directed cases 0-8 of the store-level harness).

   Vocabulary (Proofs.v):  [reach s C] — s is reachable from the initial state by any sequence of
   batches (reverts then applies, as index.Manager.syncDB issues them) and resets, C is the best
   chain the host has processed (head = tip).  A batch is [wf_batch]: each revert carries the
   content of the block at the tip ([wf_reverts]) and the resulting chain is a [valid_chain]:
   consecutive heights, a block spends outputs that are unspent below it, creates outputs and
   events with fresh ids.  Failed batches are rolled back (Model.step), so they do not appear.
   [ufold C]/[efold C]: unspent outputs / events derived from the chain C alone.
   [scur series]: the value Store.Metrics reports at any time not before the newest data point. *)
From HostdBase Require Import Base.
From HostdWallet Require Import Model Lib Proofs ProofsAnn ProofsTotal.

(* every well-formed operation list run through the model's [step] (the function the
   correspondence check executes against the implementation) ends in a [reach]able state *)
Theorem c16_histories : forall l, wf_ops init [] l -> reach (runs init l) (ghost init [] l).
Proof. exact (fun l => runs_reach l init [] reach_init). Qed.
Print Assumptions c16_histories.

(* spendable outputs and event list = those derived from the current best chain alone *)
Theorem c16_utxos_events_function_of_chain : forall s C, reach s C ->
  utxos s = ufold C /\ events s = efold C.
Proof. exact utxos_events_function_of_chain. Qed.
Print Assumptions c16_utxos_events_function_of_chain.

(* inverse law behind it: disconnecting a block that was just connected restores outputs,
   events and both balance metrics *)
Theorem c16_revert_apply_inverse : forall s C b r s1 s2, reach s C -> valid_chain (b :: C) ->
  rb_idx r = ab_idx b -> rb_removed r = ab_created b -> rb_unspent r = ab_spent b ->
  wallet_apply s b = Ok s1 -> wallet_revert s1 r = Ok s2 ->
  utxos s2 = utxos s /\ events s2 = events s /\
  scur (mbal s2) = scur (mbal s) /\ scur (mimm s2) = scur (mimm s).
Proof. exact revert_apply_inverse. Qed.
Print Assumptions c16_revert_apply_inverse.

(* confirmed balance metric = sum of outputs with maturity height <= processed height,
   immature balance metric = sum of the others, after every batch of every history *)
Theorem c16_balance_metrics : forall s C, reach s C ->
  scur (mbal s) = msum (tip_height C) (utxos s) /\ scur (mimm s) = isum (tip_height C) (utxos s).
Proof. exact balance_metrics. Qed.
Print Assumptions c16_balance_metrics.

(* what the observation functions return (Store.UnspentSiacoinElements, WalletEvents, Metrics at
   a time not before the newest data point) is the function of the best chain *)
Theorem c16_observed_state : forall s C now, reach s C ->
  (smaxkey (mbal s) <= bucket now)%N -> (smaxkey (mimm s) <= bucket now)%N ->
  snd (step s (Observe now)) =
    OState (ufold C) (efold C) (msum (tip_height C) (ufold C)) (isum (tip_height C) (ufold C))
           (a_idx s) (a_addr s) (a_hash s) (tip s).
Proof. exact balance_metrics_observed. Qed.
Print Assumptions c16_observed_state.

(* un-maturing: once the tip at height h is disconnected, an output maturing at h counts as
   immature again and the confirmed metric is the sum at the new height *)
Theorem c16_unmature_on_revert : forall s b C r s' e, reach s (b :: C) -> C <> [] ->
  rb_idx r = ab_idx b -> rb_removed r = ab_created b -> rb_unspent r = ab_spent b ->
  wallet_revert s r = Ok s' -> In e (utxos s') -> emat e = ih (ab_idx b) ->
  scur (mbal s') = msum (tip_height C) (utxos s') /\ mval (tip_height C) e = 0%N /\
  ival (tip_height C) e = eval e.
Proof. exact unmature_on_revert. Qed.
Print Assumptions c16_unmature_on_revert.

(* the announcement record is empty or refers to a block of the current best chain that
   contains an announcement signed by the host *)
Theorem c16_announcement_on_best_chain : forall s C, reach s C ->
  match a_idx s with
  | None => True
  | Some i => exists b, In b C /\ ab_idx b = i /\ host_ann b = true
  end.
Proof. exact reach_ann_ok. Qed.
Print Assumptions c16_announcement_on_best_chain.

(* ... and it is cleared exactly when that block is disconnected: for a batch that confirms
   no new announcement of the host, the record (index, address, v2 hash) is emptied iff the
   block it refers to is among the disconnected ones, and is unchanged otherwise — in
   particular when only the block after the announcement is disconnected *)
Theorem c16_announcement_cleared_iff : forall s C rs bs s' i, reach s C -> a_idx s = Some i ->
  wf_batch C rs bs -> batch s rs bs = Ok s' -> records bs = false ->
  (In i (map ab_idx (disconnected C rs)) -> a_idx s' = None /\ a_addr s' = None /\ a_hash s' = None) /\
  (~ In i (map ab_idx (disconnected C rs)) ->
     a_idx s' = Some i /\ a_addr s' = a_addr s /\ a_hash s' = a_hash s).
Proof. exact ann_cleared_iff. Qed.
Print Assumptions c16_announcement_cleared_iff.

(* the record is cleared as a whole: without an index there is neither a v1 address nor a v2 hash *)
Theorem c16_announcement_cleared_as_a_whole : forall s C, reach s C ->
  a_idx s = None -> a_addr s = None /\ a_hash s = None.
Proof. exact reach_rec_whole. Qed.
Print Assumptions c16_announcement_cleared_as_a_whole.

(* the processed-tip marker written in the same transaction is the tip of the best chain *)
Theorem c16_tip_marker : forall s C, reach s C ->
  match C with [] => True | b :: _ => tip s = Some (ab_idx b) end.
Proof. exact reach_tip_ok. Qed.
Print Assumptions c16_tip_marker.

(* a well-formed batch never fails and never panics (no "not found", no negative stat value,
   no currency overflow) as long as the total value ever paid to the wallet on the chains
   involved stays in the currency range; [csum C] = sum of all outputs created for the wallet on C *)
Theorem c16_batch_never_fails : forall s C rs bs, reach s C -> wf_batch C rs bs ->
  (csum C < two128)%N -> (csum (chain_after C rs bs) < two128)%N ->
  exists s', batch s rs bs = Ok s'.
Proof. exact batch_never_fails. Qed.
Print Assumptions c16_batch_never_fails.

(* ResetChainState empties all of it, including the v2 announcement hash *)
Theorem c16_reset : forall s, reset s = init /\ utxos (reset s) = [] /\ events (reset s) = [] /\
  (forall now, sread (mbal (reset s)) now = 0%N /\ sread (mimm (reset s)) now = 0%N) /\
  a_idx (reset s) = None /\ a_addr (reset s) = None /\ a_hash (reset s) = None /\ tip (reset s) = None.
Proof. exact reset_spec. Qed.
Print Assumptions c16_reset.

(* non-vacuity: a concrete history (payout maturing at 3, announcement in block 2, the payout
   spent at its maturity height in block 3, block 3 disconnected) is well-formed and reachable *)
Example c16_nonvacuous :
  reach (runs init wit_ops) [wit_b2; wit_b1] /\
  utxos (runs init wit_ops) = [wit_e1] /\ scur (mbal (runs init wit_ops)) = 0%N /\
  scur (mimm (runs init wit_ops)) = 7%N /\ a_idx (runs init wit_ops) = Some (ix 2 2) /\
  tip (runs init wit_ops) = Some (ix 2 2).
Proof. exact nonvacuous_witness. Qed.
