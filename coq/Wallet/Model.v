(* Wallet/Model.v — the chain-derived wallet and announcement state of hostd:
     persist/sqlite/consensus.go   WalletApplyIndex / WalletRevertIndex, deleteSiacoinElements,
                                   createSiacoinElements, createWalletEvents, maturedSiacoinBalance,
                                   updateBalanceMetric, LastAnnouncement .. SetLastIndex, ResetChainState
     persist/sqlite/metrics.go     incrementCurrencyStatStmt (host_stats is a time series), Metrics
     persist/sqlite/wallet.go      UnspentSiacoinElements, WalletEvents
     host/settings/update.go       ConfigManager.UpdateChainState
     index/update.go               syncDB: wallet, (contracts,) settings, SetLastIndex in one transaction
   The model corresponds to /repo HEAD including the fix commits of fixes/C16-*.patch (see Props_C16.v).
   No proofs here. *)
From HostdBase Require Import Base.
Set Implicit Arguments.

(** * Chain indices, wallet rows *)
Record idx := { ih : N; ib : N }.              (* types.ChainIndex: height, block id (numbered by the harness) *)
Definition idx_eqb (a b : idx) : bool := ((ih a =? ih b) && (ib a =? ib b))%N.

Record elem := { eid : N; eval : N; emat : N }.   (* wallet_siacoin_elements: id, value, maturity height *)
Definition elem_eqb (a b : elem) : bool :=
  ((eid a =? eid b) && (eval a =? eval b) && (emat a =? emat b))%N.

Record event := { vid : N; vix : idx; vmat : N }. (* wallet_events: id, chain_index, maturity height *)
Definition event_eqb (a b : event) : bool :=
  ((vid a =? vid b)%N && idx_eqb (vix a) (vix b) && (vmat a =? vmat b)%N).

(** * Tables with a primary key, kept sorted by key (a table is a set; this is its canonical form) *)
Section Table.
  Variable A : Type.
  Variable key : A -> N.
  (* INSERT ... ON CONFLICT (id) DO NOTHING *)
  Fixpoint tins (x : A) (l : list A) : list A :=
    match l with
    | [] => [x]
    | y :: t => if (key x <? key y)%N then x :: l
                else if (key x =? key y)%N then l
                else y :: tins x t
    end.
  (* DELETE ... WHERE id=?  — None when no row was affected *)
  Fixpoint tdel (k : N) (l : list A) : option (list A) :=
    match l with
    | [] => None
    | y :: t => if (k =? key y)%N then Some t
                else match tdel k t with Some t' => Some (y :: t') | None => None end
    end.
  Fixpoint tmem (k : N) (l : list A) : bool :=
    match l with [] => false | y :: t => (k =? key y)%N || tmem k t end.
End Table.

(** * host_stats: one time series per stat, keyed by the 5-minute bucket of the timestamp *)
Definition series := list (N * N).                       (* (bucket, value), one row per bucket *)
Definition bucket (ts : N) : N := (ts / 300)%N.         (* timestamp.Truncate(statInterval), seconds *)

(* SELECT stat_value ... WHERE date_created<=$2 ORDER BY date_created DESC LIMIT 1 *)
Fixpoint latest_from (rows : series) (t : N) (best : option (N * N)) : option (N * N) :=
  match rows with
  | [] => best
  | (k, v) :: r =>
      let best' := if (k <=? t)%N
                   then match best with
                        | Some (k0, _) => if (k0 <? k)%N then Some (k, v) else best
                        | None => Some (k, v)
                        end
                   else best in
      latest_from r t best'
  end.
Definition sread (rows : series) (t : N) : N :=
  match latest_from rows t None with Some (_, v) => v | None => 0%N end.

(* incrementCurrencyStatStmt with the (already truncated) bucket [b]: read the latest value at
   or before the bucket, add or subtract, upsert the row of the bucket.  A negative result
   panics, Currency.Add overflow panics. *)
Definition sincr (rows : series) (b delta : N) (negative : bool) : res series :=
  if (delta =? 0)%N then Ok rows else
  let cur := sread rows b in
  if negative then
    if (cur <? delta)%N then Panic else Ok (aset b (cur - delta)%N rows)
  else
    do v <- cadd cur delta; Ok (aset b v rows).

(* SELECT COALESCE(MAX(date_created), 0) *)
Definition smaxkey (rows : series) : N := fold_left (fun m (kv : N * N) => N.max m (fst kv)) rows 0%N.

(** * State *)
Record state := {
  utxos  : list elem;          (* wallet_siacoin_elements *)
  events : list event;         (* wallet_events *)
  mbal   : series;             (* host_stats walletBalance *)
  mimm   : series;             (* host_stats walletImmatureBalance *)
  a_idx  : option idx;         (* global_settings.last_announce_index *)
  a_addr : option N;           (* global_settings.last_announce_address *)
  a_hash : option N;           (* global_settings.last_v2_announce_hash *)
  tip    : option idx          (* global_settings.last_scanned_index *)
}.
Definition init : state :=
  {| utxos := []; events := []; mbal := []; mimm := []; a_idx := None; a_addr := None;
     a_hash := None; tip := None |}.

(** * Blocks as the update transaction sees them *)
Record ablock := {
  ab_idx : idx;                      (* cau.State.Index *)
  ab_ts : N;                         (* cau.Block.Timestamp, unix seconds *)
  ab_created : list elem;            (* wallet-relevant, non-ephemeral created outputs *)
  ab_spent : list elem;              (* ... spent outputs *)
  ab_events : list event;
  ab_v1 : list (bool * N);           (* v1 announcements in block order: (validly signed by the host key, address id) *)
  ab_v2 : list (bool * N * bool)     (* v2 attestations: (host key, hash-of-addresses id, at least one address) *)
}.
Record rblock := {
  rb_idx : idx;                      (* the reverted block's own index {cru.State.Index.Height+1, cru.Block.ID()} *)
  rb_parent : idx;                   (* cru.State.Index (state after the revert) *)
  rb_ts : N;
  rb_removed : list elem;            (* outputs the block created *)
  rb_unspent : list elem             (* outputs the block spent *)
}.

(** * persist/sqlite/consensus.go wallet helpers *)
(* deleteSiacoinElements: classification uses the caller's element, by maturity <= index.Height *)
Fixpoint delete_elems (u : list elem) (l : list elem) (h : N) (mo io : N) : res (list elem * N * N) :=
  match l with
  | [] => Ok (u, mo, io)
  | e :: t =>
      match tdel eid (eid e) u with
      | None => Err EOther                                   (* "not found" *)
      | Some u' =>
          if (emat e <=? h)%N
          then do mo' <- cadd mo (eval e); delete_elems u' t h mo' io
          else do io' <- cadd io (eval e); delete_elems u' t h mo io'
      end
  end.

(* createSiacoinElements *)
Fixpoint create_elems (u : list elem) (l : list elem) (h : N) (mi ii : N) : res (list elem * N * N) :=
  match l with
  | [] => Ok (u, mi, ii)
  | e :: t =>
      let u' := tins eid e u in
      if (emat e <=? h)%N
      then do mi' <- cadd mi (eval e); create_elems u' t h mi' ii
      else do ii' <- cadd ii (eval e); create_elems u' t h mi ii'
  end.

(* maturedSiacoinBalance: SUM of the rows whose maturity_height = index.Height *)
Fixpoint matured_sum (u : list elem) (h : N) (acc : N) : res N :=
  match u with
  | [] => Ok acc
  | e :: t => if (emat e =? h)%N then do a <- cadd acc (eval e); matured_sum t h a
              else matured_sum t h acc
  end.

(* updateBalanceMetric *)
Definition net (inflow outflow : N) : N * bool :=
  if (outflow <? inflow)%N then ((inflow - outflow)%N, false)
  else if (inflow <? outflow)%N then ((outflow - inflow)%N, true)
  else (0%N, false).

Definition update_balance (bal imm : series) (mi mo ii io ts : N) : res (series * series) :=
  let '(md, mneg) := net mi mo in
  let '(id, ineg) := net ii io in
  if ((md =? 0) && (id =? 0))%N then Ok (bal, imm) else
  (* patched: a change is never recorded before the most recent data point of either series *)
  let b := N.max (bucket ts) (N.max (smaxkey bal) (smaxkey imm)) in
  do bal' <- (if (md =? 0)%N then Ok bal else sincr bal b md mneg);
  do imm' <- (if (id =? 0)%N then Ok imm else sincr imm b id ineg);
  Ok (bal', imm').

Definition set_wallet (s : state) (u : list elem) (ev : list event) (b i : series) : state :=
  {| utxos := u; events := ev; mbal := b; mimm := i; a_idx := a_idx s; a_addr := a_addr s;
     a_hash := a_hash s; tip := tip s |}.

(* WalletApplyIndex (patched order: the balance maturing at this height is read before the
   block's own outputs are removed and added) *)
Definition wallet_apply (s : state) (b : ablock) : res state :=
  let h := ih (ab_idx b) in
  do matured <- matured_sum (utxos s) h 0%N;
  do (u1, mo, io) <- delete_elems (utxos s) (ab_spent b) h 0%N 0%N;
  do (u2, mi, ii) <- create_elems u1 (ab_created b) h 0%N 0%N;
  let ev := fold_left (fun l e => tins vid e l) (ab_events b) (events s) in
  do mi' <- cadd mi matured;
  do io' <- cadd io matured;
  do (bal, imm) <- update_balance (mbal s) (mimm s) mi' mo ii io' (ab_ts b);
  Ok (set_wallet s u2 ev bal imm).

(* WalletRevertIndex *)
Definition wallet_revert (s : state) (r : rblock) : res state :=
  let h := ih (rb_idx r) in
  do (u1, mo, io) <- delete_elems (utxos s) (rb_removed r) h 0%N 0%N;
  do (u2, mi, ii) <- create_elems u1 (rb_unspent r) h 0%N 0%N;
  let ev := filter (fun e => negb (idx_eqb (vix e) (rb_idx r))) (events s) in
  do matured <- matured_sum u2 h 0%N;
  do mo' <- cadd mo matured;
  do ii' <- cadd ii matured;
  do (bal, imm) <- update_balance (mbal s) (mimm s) mi mo' ii' io (rb_ts r);
  Ok (set_wallet s u2 ev bal imm).

(* coreutils SingleAddressWallet.UpdateChainState: reverts in order, then applies in order *)
Fixpoint wallet_reverts (s : state) (rs : list rblock) : res state :=
  match rs with [] => Ok s | r :: t => do s' <- wallet_revert s r; wallet_reverts s' t end.
Fixpoint wallet_applies (s : state) (bs : list ablock) : res state :=
  match bs with [] => Ok s | b :: t => do s' <- wallet_apply s b; wallet_applies s' t end.

(** * host/settings/update.go ConfigManager.UpdateChainState *)
Definition opt_idx_is (o : option idx) (i : idx) : bool :=
  match o with Some j => idx_eqb i j | None => false end.

(* the revert loop: [last] is the index read once before the loop (both the v1 and the v2
   record share last_announce_index) *)
Fixpoint ann_reverts (last : option idx) (rs : list rblock) (ai : option idx) (aa ah : option N)
  : option idx * option N * option N :=
  match rs with
  | [] => (ai, aa, ah)
  | r :: t =>
      if opt_idx_is last (rb_idx r)
      then ann_reverts last t None None None     (* RevertLastAnnouncement; RevertLastV2Announcement *)
      else ann_reverts last t ai aa ah
  end.

(* last v1 announcement signed by the host in a block *)
Definition block_v1 (b : ablock) (cur : option (idx * N)) : option (idx * N) :=
  fold_left (fun c (a : bool * N) => if fst a then Some (ab_idx b, snd a) else c) (ab_v1 b) cur.
(* last v2 attestation of the host key in a block: (index, hash, addresses non-empty) *)
Definition block_v2 (b : ablock) (cur : option (idx * N * bool)) : option (idx * N * bool) :=
  fold_left (fun c (a : bool * N * bool) =>
               let '(host, h, ne) := a in if host then Some (ab_idx b, h, ne) else c) (ab_v2 b) cur.

Definition batch_v1 (bs : list ablock) : option (idx * N) := fold_left (fun c b => block_v1 b c) bs None.
Definition batch_v2 (bs : list ablock) : option (idx * N * bool) := fold_left (fun c b => block_v2 b c) bs None.

Definition settings_update (s : state) (rs : list rblock) (bs : list ablock) : state :=
  let '(ai, aa, ah) := ann_reverts (a_idx s) rs (a_idx s) (a_addr s) (a_hash s) in
  let '(ai, aa) := match batch_v1 bs with
                   | Some (i, addr) => (Some i, Some addr)          (* SetLastAnnouncement *)
                   | None => (ai, aa)
                   end in
  let '(ai, ah) := match batch_v2 bs with
                   | Some (i, h, true) => (Some i, Some h)          (* SetLastV2AnnouncementHash *)
                   | _ => (ai, ah)
                   end in
  {| utxos := utxos s; events := events s; mbal := mbal s; mimm := mimm s;
     a_idx := ai; a_addr := aa; a_hash := ah; tip := tip s |}.

(** * index/update.go: one batch = one transaction *)
Definition last_idx (rs : list rblock) (bs : list ablock) (d : option idx) : option idx :=
  match rev bs with
  | b :: _ => Some (ab_idx b)
  | [] => match rev rs with r :: _ => Some (rb_parent r) | [] => d end
  end.

Definition batch (s : state) (rs : list rblock) (bs : list ablock) : res state :=
  match rs, bs with
  | [], [] => Ok s                                              (* syncDB returns before the transaction *)
  | _, _ =>
      do s1 <- wallet_reverts s rs;
      do s2 <- wallet_applies s1 bs;
      let s3 := settings_update s2 rs bs in
      Ok {| utxos := utxos s3; events := events s3; mbal := mbal s3; mimm := mimm s3;
            a_idx := a_idx s3; a_addr := a_addr s3; a_hash := a_hash s3;
            tip := last_idx rs bs (tip s3) |}
  end.

(* ResetChainState (patched: also clears last_v2_announce_hash) *)
Definition reset (s : state) : state := init.

(** * Operations and observations *)
Inductive op :=
| Batch (rs : list rblock) (bs : list ablock)
| Reset
| Observe (now : N).          (* unix seconds passed to Store.Metrics *)

Inductive cls := COk | CErr | CPanic.
Definition cls_eqb (a b : cls) : bool :=
  match a, b with COk, COk | CErr, CErr | CPanic, CPanic => true | _, _ => false end.

Inductive obs :=
| ODone (c : cls)
| OSkip                                   (* the implementation was not observed at this step *)
| OState (u : list elem) (ev : list event) (bal imm : N)
         (ai : option idx) (aa ah : option N) (t : option idx).

Definition step (s : state) (o : op) : state * obs :=
  match o with
  | Batch rs bs =>
      match batch s rs bs with
      | Ok s' => (s', ODone COk)
      | Err _ => (s, ODone CErr)              (* the transaction is rolled back *)
      | Panic => (s, ODone CPanic)
      end
  | Reset => (reset s, ODone COk)
  | Observe now =>
      (s, OState (utxos s) (events s) (sread (mbal s) (bucket now)) (sread (mimm s) (bucket now))
                 (a_idx s) (a_addr s) (a_hash s) (tip s))
  end.

Definition oidx_eqb := option_eqb idx_eqb.
Definition oN_eqb := option_eqb N.eqb.

Definition obs_eqb (model seen : obs) : bool :=
  match model, seen with
  | _, OSkip => true
  | ODone a, ODone b => cls_eqb a b
  | OState u ev b i ai aa ah t, OState u' ev' b' i' ai' aa' ah' t' =>
      list_eqb elem_eqb u u' && list_eqb event_eqb ev ev' && (b =? b')%N && (i =? i')%N
      && oidx_eqb ai ai' && oN_eqb aa aa' && oN_eqb ah ah' && oidx_eqb t t'
  | _, _ => false
  end.

Definition case := (N * list (op * obs))%type.
Definition check (cs : list case) := mismatches init step obs_eqb cs.
