(* Wallet/Proofs.v — wallet lemmas behind Props_C16.v: the UTXO set, the event list and the
   balance metrics as functions of the processed best chain. *)
From Coq Require Import Lia ZifyBool ZifyN.
From HostdBase Require Import Base.
From HostdWallet Require Import Model Lib.

(** * Specification side: what the best chain alone determines *)

(* value of an output towards the confirmed / immature balance at height h, and the part
   that matures exactly at h *)
Definition mval (h : N) (e : elem) : N := if (emat e <=? h)%N then eval e else 0%N.
Definition ival (h : N) (e : elem) : N := if (emat e <=? h)%N then 0%N else eval e.
Definition qval (h : N) (e : elem) : N := if (emat e =? h)%N then eval e else 0%N.
Definition msum (h : N) (l : list elem) : N := wsum (mval h) l.
Definition isum (h : N) (l : list elem) : N := wsum (ival h) l.
Definition qsum (h : N) (l : list elem) : N := wsum (qval h) l.

(* DELETE / INSERT of a list of rows as pure table functions *)
Fixpoint del_all (l u : list elem) : list elem :=
  match l with
  | [] => u
  | e :: t => del_all t (match tdel eid (eid e) u with Some u' => u' | None => u end)
  end.
Fixpoint ins_all (l u : list elem) : list elem :=
  match l with [] => u | e :: t => ins_all t (tins eid e u) end.
Definition ins_events (l : list event) (ev : list event) : list event :=
  fold_left (fun l e => tins vid e l) l ev.

(* the wallet state derived from a chain (head = tip) *)
Fixpoint ufold (C : list ablock) : list elem :=
  match C with
  | [] => []
  | b :: C' => ins_all (ab_created b) (del_all (ab_spent b) (ufold C'))
  end.
Fixpoint efold (C : list ablock) : list event :=
  match C with
  | [] => []
  | b :: C' => ins_events (ab_events b) (efold C')
  end.

Definition ids (l : list elem) : list N := map eid l.

(* the consensus discipline a block obeys on top of the chain C' *)
Definition block_ok (C' : list ablock) (b : ablock) : Prop :=
  (match C' with [] => True | t :: _ => ih (ab_idx b) = (ih (ab_idx t) + 1)%N end) /\
  (forall e, In e (ab_spent b) -> In e (ufold C')) /\ NoDup (ids (ab_spent b)) /\
  (forall e, In e (ab_created b) -> tmem eid (eid e) (ufold C') = false) /\ NoDup (ids (ab_created b)) /\
  (forall v, In v (ab_events b) -> vix v = ab_idx b /\ tmem vid (vid v) (efold C') = false) /\
  NoDup (map vid (ab_events b)).

Fixpoint valid_chain (C : list ablock) : Prop :=
  match C with
  | [] => True
  | b :: C' => valid_chain C' /\ block_ok C' b
  end.

(* a revert update carries the reverted block's own content *)
Fixpoint wf_reverts (C : list ablock) (rs : list rblock) : Prop :=
  match rs with
  | [] => True
  | r :: t =>
      match C with
      | [] => False
      | b :: C' => rb_idx r = ab_idx b /\ rb_removed r = ab_created b /\ rb_unspent r = ab_spent b /\
                   (match C' with p :: _ => rb_parent r = ab_idx p | [] => True end) /\
                   wf_reverts C' t
      end
  end.

Definition chain_after (C : list ablock) (rs : list rblock) (bs : list ablock) : list ablock :=
  rev bs ++ skipn (length rs) C.

Definition wf_batch (C : list ablock) (rs : list rblock) (bs : list ablock) : Prop :=
  wf_reverts C rs /\ valid_chain (chain_after C rs bs).

(* states reachable from the initial state by well-formed batches and resets, together
   with the best chain the host has processed (ghost) *)
Inductive reach : state -> list ablock -> Prop :=
| reach_init : reach init []
| reach_batch s C rs bs s' :
    reach s C -> wf_batch C rs bs -> batch s rs bs = Ok s' -> reach s' (chain_after C rs bs)
| reach_reset s C : reach s C -> reach (reset s) [].

(** * Per-element sum facts *)
Lemma mval_shift h e : mval (h + 1) e = (mval h e + qval (h + 1) e)%N.
Proof. unfold mval, qval. destruct (emat e <=? h + 1)%N eqn:A, (emat e <=? h)%N eqn:B, (emat e =? h + 1)%N eqn:D; lia. Qed.
Lemma ival_shift h e : ival h e = (ival (h + 1) e + qval (h + 1) e)%N.
Proof. unfold ival, qval. destruct (emat e <=? h + 1)%N eqn:A, (emat e <=? h)%N eqn:B, (emat e =? h + 1)%N eqn:D; lia. Qed.

Lemma msum_shift h l : msum (h + 1) l = (msum h l + qsum (h + 1) l)%N.
Proof. unfold msum, qsum. induction l as [|e t IH]; cbn [wsum]; [reflexivity|]. rewrite IH, mval_shift. lia. Qed.
Lemma isum_shift h l : isum h l = (isum (h + 1) l + qsum (h + 1) l)%N.
Proof. unfold isum, qsum. induction l as [|e t IH]; cbn [wsum]; [reflexivity|]. rewrite IH, (ival_shift h e). lia. Qed.

Lemma mval_ival h e : (mval h e + ival h e)%N = eval e.
Proof. unfold mval, ival. destruct (emat e <=? h)%N; lia. Qed.

(** * The code's helpers against the table functions *)
Lemma cadd_ok a b c : cadd a b = Ok c -> c = (a + b)%N.
Proof. unfold cadd. destruct (a + b <? two128)%N; [intros [= <-]; reflexivity|discriminate]. Qed.

Lemma matured_sum_spec u h : forall acc m, matured_sum u h acc = Ok m -> m = (acc + qsum h u)%N.
Proof.
  unfold qsum. induction u as [|e t IH]; intros acc m; cbn [matured_sum wsum].
  - intros [= <-]. lia.
  - unfold qval at 1. destruct (emat e =? h)%N.
    + destruct (cadd acc (eval e)) as [a| |] eqn:E; cbn [bind]; try discriminate.
      apply cadd_ok in E. intros H. apply IH in H. lia.
    + intros H. apply IH in H. lia.
Qed.

Lemma delete_elems_spec h : forall l u mo io u' mo' io',
  ssorted eid u -> (forall e, In e l -> In e u) -> NoDup (ids l) ->
  delete_elems u l h mo io = Ok (u', mo', io') ->
  u' = del_all l u /\ ssorted eid u' /\
  (forall y, In y u' <-> In y u /\ ~ In (eid y) (ids l)) /\
  (msum h u = msum h u' + wsum (mval h) l)%N /\
  (isum h u = isum h u' + wsum (ival h) l)%N /\
  (mo' = mo + wsum (mval h) l)%N /\ (io' = io + wsum (ival h) l)%N.
Proof.
  induction l as [|e t IH]; intros u mo io u' mo' io' S Hin ND; cbn [delete_elems del_all wsum ids map].
  - intros [= <- <- <-]. repeat split; auto; try lia; try tauto.
  - destruct (tdel eid (eid e) u) as [u1|] eqn:Ed; [|discriminate].
    destruct (tdel_spec eid (eid e) u u1 S Ed) as [S1 [I1 _]].
    assert (In e u) as He by (apply Hin; left; reflexivity).
    pose proof (wsum_tdel (mval h) eid e u u1 S He Ed) as Hm.
    pose proof (wsum_tdel (ival h) eid e u u1 S He Ed) as Hi.
    inversion ND as [|? ? Hnot ND']; subst.
    assert (forall e', In e' t -> In e' u1) as Hin1.
    { intros e' He'. apply I1. split; [apply Hin; right; exact He'|].
      intros E. apply Hnot. rewrite <- E. apply in_map. exact He'. }
    assert (forall u2, (forall y, In y u2 <-> In y u1 /\ ~ In (eid y) (ids t)) ->
            forall y, In y u2 <-> In y u /\ ~ In (eid y) (eid e :: ids t)) as Hmem.
    { intros u2 I' y. rewrite I', I1. cbn [In]. intuition. }
    fold (msum h u) in Hm. fold (isum h u) in Hi. fold (msum h u1) in Hm. fold (isum h u1) in Hi.
    destruct (emat e <=? h)%N eqn:Em.
    + assert (mval h e = eval e /\ ival h e = 0%N) as [Hv1 Hv2] by (unfold mval, ival; rewrite Em; auto).
      destruct (cadd mo (eval e)) as [a| |] eqn:E; cbn [bind]; try discriminate.
      apply cadd_ok in E. intros H. destruct (IH _ _ _ _ _ _ S1 Hin1 ND' H) as [E1 [S' [I' [M [I2 [M2 I3]]]]]].
      split; [exact E1|]. split; [exact S'|]. split; [exact (Hmem _ I')|]. lia.
    + assert (mval h e = 0%N /\ ival h e = eval e) as [Hv1 Hv2] by (unfold mval, ival; rewrite Em; auto).
      destruct (cadd io (eval e)) as [a| |] eqn:E; cbn [bind]; try discriminate.
      apply cadd_ok in E. intros H. destruct (IH _ _ _ _ _ _ S1 Hin1 ND' H) as [E1 [S' [I' [M [I2 [M2 I3]]]]]].
      split; [exact E1|]. split; [exact S'|]. split; [exact (Hmem _ I')|]. lia.
Qed.

Lemma create_elems_spec h : forall l u mi ii u' mi' ii',
  ssorted eid u -> (forall e, In e l -> tmem eid (eid e) u = false) -> NoDup (ids l) ->
  create_elems u l h mi ii = Ok (u', mi', ii') ->
  u' = ins_all l u /\ ssorted eid u' /\
  (forall y, In y u' <-> In y u \/ In y l) /\
  (msum h u' = msum h u + wsum (mval h) l)%N /\
  (isum h u' = isum h u + wsum (ival h) l)%N /\
  (mi' = mi + wsum (mval h) l)%N /\ (ii' = ii + wsum (ival h) l)%N.
Proof.
  induction l as [|e t IH]; intros u mi ii u' mi' ii' S Hf ND; cbn [create_elems ins_all wsum ids map].
  - intros [= <- <- <-]. repeat split; auto; try lia; cbn; tauto.
  - destruct (tins_spec eid e u S) as [S1 I1].
    assert (tmem eid (eid e) u = false) as Hfe by (apply Hf; left; reflexivity).
    pose proof (wsum_tins (mval h) eid e u S Hfe) as Hm.
    pose proof (wsum_tins (ival h) eid e u S Hfe) as Hi.
    fold (msum h u) in Hm. fold (isum h u) in Hi.
    fold (msum h (tins eid e u)) in Hm. fold (isum h (tins eid e u)) in Hi.
    inversion ND as [|? ? Hnot ND']; subst.
    assert (forall e', In e' t -> tmem eid (eid e') (tins eid e u) = false) as Hf1.
    { intros e' He'. apply tmem_false_In. intros y Hy E. apply I1 in Hy.
      destruct Hy as [Hy|[-> _]].
      - assert (tmem eid (eid e') u = false) as F by (apply Hf; right; exact He').
        apply (proj1 (tmem_false_In eid (eid e') u) F y Hy E).
      - apply Hnot. rewrite E. apply in_map. exact He'. }
    assert (forall u2, (forall y, In y u2 <-> In y (tins eid e u) \/ In y t) ->
            forall y, In y u2 <-> In y u \/ In y (e :: t)) as Hmem.
    { intros u2 I' y. rewrite I', I1, Hfe. cbn [In]. intuition. }
    destruct (emat e <=? h)%N eqn:Em.
    + assert (mval h e = eval e /\ ival h e = 0%N) as [Hv1 Hv2] by (unfold mval, ival; rewrite Em; auto).
      destruct (cadd mi (eval e)) as [a| |] eqn:E; cbn [bind]; try discriminate.
      apply cadd_ok in E. intros H. destruct (IH _ _ _ _ _ _ S1 Hf1 ND' H) as [E1 [S' [I' [M [I2 [M2 I3]]]]]].
      split; [exact E1|]. split; [exact S'|]. split; [exact (Hmem _ I')|]. lia.
    + assert (mval h e = 0%N /\ ival h e = eval e) as [Hv1 Hv2] by (unfold mval, ival; rewrite Em; auto).
      destruct (cadd ii (eval e)) as [a| |] eqn:E; cbn [bind]; try discriminate.
      apply cadd_ok in E. intros H. destruct (IH _ _ _ _ _ _ S1 Hf1 ND' H) as [E1 [S' [I' [M [I2 [M2 I3]]]]]].
      split; [exact E1|]. split; [exact S'|]. split; [exact (Hmem _ I')|]. lia.
Qed.

(* the pure table functions *)
Lemma del_all_spec : forall l u, ssorted eid u ->
  ssorted eid (del_all l u) /\ (forall y, In y (del_all l u) <-> In y u /\ ~ In (eid y) (ids l)).
Proof.
  induction l as [|e t IH]; intros u S; cbn [del_all ids map].
  - split; [exact S|]. intros y. cbn. tauto.
  - destruct (tdel eid (eid e) u) as [u1|] eqn:Ed.
    + destruct (tdel_spec eid (eid e) u u1 S Ed) as [S1 [I1 _]].
      destruct (IH u1 S1) as [S2 I2]. split; [exact S2|].
      intros y. rewrite I2, I1. cbn [In]. intuition.
    + destruct (IH u S) as [S2 I2]. split; [exact S2|].
      intros y. rewrite I2. cbn [In]. apply tdel_none in Ed.
      pose proof (proj1 (tmem_false_In eid (eid e) u) Ed) as F. intuition. eapply F; eauto.
Qed.

Lemma ins_all_spec : forall l u, ssorted eid u ->
  (forall e, In e l -> tmem eid (eid e) u = false) -> NoDup (ids l) ->
  ssorted eid (ins_all l u) /\ (forall y, In y (ins_all l u) <-> In y u \/ In y l).
Proof.
  induction l as [|e t IH]; intros u S Hf ND; cbn [ins_all].
  - split; [exact S|]. intros y. cbn. tauto.
  - destruct (tins_spec eid e u S) as [S1 I1].
    assert (tmem eid (eid e) u = false) as Hfe by (apply Hf; left; reflexivity).
    inversion ND as [|? ? Hnot ND']; subst.
    assert (forall e', In e' t -> tmem eid (eid e') (tins eid e u) = false) as Hf1.
    { intros e' He'. apply tmem_false_In. intros y Hy E. apply I1 in Hy.
      destruct Hy as [Hy|[-> _]].
      - assert (tmem eid (eid e') u = false) as F by (apply Hf; right; exact He').
        apply (proj1 (tmem_false_In eid (eid e') u) F y Hy E).
      - apply Hnot. rewrite E. apply in_map. exact He'. }
    destruct (IH _ S1 Hf1 ND') as [S2 I2]. split; [exact S2|].
    intros y. rewrite I2, I1, Hfe. cbn [In]. intuition.
Qed.

Lemma ins_all_sorted : forall l u, ssorted eid u -> ssorted eid (ins_all l u).
Proof.
  induction l as [|e t IH]; intros u S; cbn [ins_all]; [exact S|].
  apply IH. apply (tins_spec eid e u S).
Qed.

Lemma ufold_sorted C : ssorted eid (ufold C).
Proof.
  induction C as [|b C IH]; cbn [ufold]; [exact I|].
  apply ins_all_sorted. apply (del_all_spec (ab_spent b) (ufold C) IH).
Qed.

Lemma ins_events_sorted : forall l ev, ssorted vid ev -> ssorted vid (ins_events l ev).
Proof.
  unfold ins_events. induction l as [|e t IH]; intros ev S; cbn [fold_left]; [exact S|].
  apply IH. apply (tins_spec vid e ev S).
Qed.

Lemma ins_events_spec : forall l ev, ssorted vid ev ->
  (forall e, In e l -> tmem vid (vid e) ev = false) -> NoDup (map vid l) ->
  forall y, In y (ins_events l ev) <-> In y ev \/ In y l.
Proof.
  unfold ins_events. induction l as [|e t IH]; intros ev S Hf ND y; cbn [fold_left].
  - cbn. tauto.
  - destruct (tins_spec vid e ev S) as [S1 I1].
    assert (tmem vid (vid e) ev = false) as Hfe by (apply Hf; left; reflexivity).
    inversion ND as [|? ? Hnot ND']; subst.
    assert (forall e', In e' t -> tmem vid (vid e') (tins vid e ev) = false) as Hf1.
    { intros e' He'. apply tmem_false_In. intros z Hz E. apply I1 in Hz.
      destruct Hz as [Hz|[-> _]].
      - assert (tmem vid (vid e') ev = false) as F by (apply Hf; right; exact He').
        apply (proj1 (tmem_false_In vid (vid e') ev) F z Hz E).
      - apply Hnot. rewrite E. apply in_map. exact He'. }
    rewrite (IH _ S1 Hf1 ND' y), I1, Hfe. cbn [In]. intuition.
Qed.

Lemma efold_sorted C : ssorted vid (efold C).
Proof.
  induction C as [|b C IH]; cbn [efold]; [exact I|]. apply ins_events_sorted. exact IH.
Qed.

(** * The balance metrics *)
Lemma net_spec a b : forall d neg, net a b = (d, neg) ->
  (neg = false /\ (a = b + d)%N) \/ (neg = true /\ (b = a + d)%N /\ (0 < d)%N).
Proof.
  unfold net. intros d neg. destruct (b <? a)%N eqn:E1; [intros [= <- <-]; left; split; [auto|lia]|].
  destruct (a <? b)%N eqn:E2; intros [= <- <-]; [right; repeat split; lia|left; split; [auto|lia]].
Qed.

(* if the current value plus inflow equals target plus outflow, the new current value is the target *)
Lemma update_balance_spec bal imm mi mo ii io ts bal' imm' B I :
  update_balance bal imm mi mo ii io ts = Ok (bal', imm') ->
  (scur bal + mi = B + mo)%N -> (scur imm + ii = I + io)%N ->
  scur bal' = B /\ scur imm' = I.
Proof.
  unfold update_balance. destruct (net mi mo) as [md mneg] eqn:N1. destruct (net ii io) as [id ineg] eqn:N2.
  apply net_spec in N1. apply net_spec in N2. intros H HB HI.
  destruct ((md =? 0) && (id =? 0))%N eqn:Z.
  - injection H as <- <-. split; lia.
  - set (b := N.max (bucket ts) (N.max (smaxkey bal) (smaxkey imm))) in H.
    assert (smaxkey bal <= b)%N as Hb1 by (unfold b; lia).
    assert (smaxkey imm <= b)%N as Hb2 by (unfold b; lia).
    destruct (if (md =? 0)%N then Ok bal else sincr bal b md mneg) as [bal1| |] eqn:E1; cbn [bind] in H; try discriminate.
    destruct (if (id =? 0)%N then Ok imm else sincr imm b id ineg) as [imm1| |] eqn:E2; cbn [bind] in H; try discriminate.
    injection H as <- <-. split.
    + destruct (md =? 0)%N eqn:Zm.
      * injection E1 as <-. lia.
      * pose proof (sincr_spec bal b md mneg bal1 Hb1 E1) as [_ [_ Hs]]. destruct mneg; lia.
    + destruct (id =? 0)%N eqn:Zi.
      * injection E2 as <-. lia.
      * pose proof (sincr_spec imm b id ineg imm1 Hb2 E2) as [_ [_ Hs]]. destruct ineg; lia.
Qed.

Arguments update_balance_spec : clear implicits.

(* the wallet part of the state as determined by a chain whose tip has height h *)
Definition bal_at (s : state) (h : N) : Prop :=
  scur (mbal s) = msum h (utxos s) /\ scur (mimm s) = isum h (utxos s).
(* ... and just below height h: what matures at h still counts as immature *)
Definition bal_below (s : state) (h : N) : Prop :=
  (scur (mbal s) + qsum h (utxos s) = msum h (utxos s))%N /\
  scur (mimm s) = (isum h (utxos s) + qsum h (utxos s))%N.

Lemma bal_below_of_at s h : bal_at s h -> bal_below s (h + 1).
Proof.
  unfold bal_at, bal_below. intros [A B]. rewrite A, B, msum_shift, (isum_shift h). lia.
Qed.
Lemma bal_at_of_below s h : bal_below s (h + 1) -> bal_at s h.
Proof.
  unfold bal_at, bal_below. rewrite msum_shift, (isum_shift h). lia.
Qed.

Lemma wallet_apply_spec s b s' :
  ssorted eid (utxos s) ->
  (forall e, In e (ab_spent b) -> In e (utxos s)) -> NoDup (ids (ab_spent b)) ->
  (forall e, In e (ab_created b) -> tmem eid (eid e) (utxos s) = false) -> NoDup (ids (ab_created b)) ->
  bal_below s (ih (ab_idx b)) ->
  wallet_apply s b = Ok s' ->
  utxos s' = ins_all (ab_created b) (del_all (ab_spent b) (utxos s)) /\
  events s' = ins_events (ab_events b) (events s) /\
  bal_at s' (ih (ab_idx b)) /\
  a_idx s' = a_idx s /\ a_addr s' = a_addr s /\ a_hash s' = a_hash s /\ tip s' = tip s.
Proof.
  intros S Hsp NDs Hcr NDc [Hb Hi]. unfold wallet_apply. set (h := ih (ab_idx b)) in *.
  destruct (matured_sum (utxos s) h 0) as [m| |] eqn:Em; cbn [bind]; try discriminate.
  apply matured_sum_spec in Em.
  destruct (delete_elems (utxos s) (ab_spent b) h 0 0) as [[[u1 mo] io]| |] eqn:Ed; cbn [bind]; try discriminate.
  destruct (delete_elems_spec h _ _ _ _ _ _ _ S Hsp NDs Ed) as [E1 [S1 [I1 [M1 [J1 [Mo Io]]]]]].
  assert (forall e, In e (ab_created b) -> tmem eid (eid e) u1 = false) as Hcr1.
  { intros e He. apply tmem_false_In. intros y Hy E. apply I1 in Hy. destruct Hy as [Hy _].
    apply (proj1 (tmem_false_In eid (eid e) (utxos s)) (Hcr e He) y Hy E). }
  destruct (create_elems u1 (ab_created b) h 0 0) as [[[u2 mi] ii]| |] eqn:Ec; cbn [bind]; try discriminate.
  destruct (create_elems_spec h _ _ _ _ _ _ _ S1 Hcr1 NDc Ec) as [E2 [S2 [I2 [M2 [J2 [Mi Ii]]]]]].
  destruct (cadd mi m) as [mi'| |] eqn:A1; cbn [bind]; try discriminate. apply cadd_ok in A1.
  destruct (cadd io m) as [io'| |] eqn:A2; cbn [bind]; try discriminate. apply cadd_ok in A2.
  destruct (update_balance (mbal s) (mimm s) mi' mo ii io' (ab_ts b)) as [[bal imm]| |] eqn:Eu; cbn [bind]; try discriminate.
  intros [= <-]. unfold bal_at. cbn [utxos events mbal mimm a_idx a_addr a_hash tip set_wallet]. subst u2 u1. repeat split; auto.
  - eapply (update_balance_spec _ _ _ _ _ _ _ _ _ (msum h (ins_all (ab_created b) (del_all (ab_spent b) (utxos s))))
              (isum h (ins_all (ab_created b) (del_all (ab_spent b) (utxos s)))) Eu); lia.
  - eapply (update_balance_spec _ _ _ _ _ _ _ _ _ (msum h (ins_all (ab_created b) (del_all (ab_spent b) (utxos s))))
              (isum h (ins_all (ab_created b) (del_all (ab_spent b) (utxos s)))) Eu); lia.
Qed.

Lemma wallet_revert_spec s r s' :
  ssorted eid (utxos s) ->
  (forall e, In e (rb_removed r) -> In e (utxos s)) -> NoDup (ids (rb_removed r)) ->
  (forall e, In e (rb_unspent r) -> tmem eid (eid e) (del_all (rb_removed r) (utxos s)) = false) ->
  NoDup (ids (rb_unspent r)) ->
  bal_at s (ih (rb_idx r)) ->
  wallet_revert s r = Ok s' ->
  utxos s' = ins_all (rb_unspent r) (del_all (rb_removed r) (utxos s)) /\
  events s' = filter (fun e => negb (idx_eqb (vix e) (rb_idx r))) (events s) /\
  bal_below s' (ih (rb_idx r)) /\
  a_idx s' = a_idx s /\ a_addr s' = a_addr s /\ a_hash s' = a_hash s /\ tip s' = tip s.
Proof.
  intros S Hrm NDr Hun NDu [Hb Hi]. unfold wallet_revert. set (h := ih (rb_idx r)) in *.
  destruct (delete_elems (utxos s) (rb_removed r) h 0 0) as [[[u1 mo] io]| |] eqn:Ed; cbn [bind]; try discriminate.
  destruct (delete_elems_spec h _ _ _ _ _ _ _ S Hrm NDr Ed) as [E1 [S1 [I1 [M1 [J1 [Mo Io]]]]]].
  rewrite <- E1 in Hun.
  destruct (create_elems u1 (rb_unspent r) h 0 0) as [[[u2 mi] ii]| |] eqn:Ec; cbn [bind]; try discriminate.
  destruct (create_elems_spec h _ _ _ _ _ _ _ S1 Hun NDu Ec) as [E2 [S2 [I2 [M2 [J2 [Mi Ii]]]]]].
  destruct (matured_sum u2 h 0) as [m| |] eqn:Em; cbn [bind]; try discriminate.
  apply matured_sum_spec in Em.
  destruct (cadd mo m) as [mo'| |] eqn:A1; cbn [bind]; try discriminate. apply cadd_ok in A1.
  destruct (cadd ii m) as [ii'| |] eqn:A2; cbn [bind]; try discriminate. apply cadd_ok in A2.
  destruct (update_balance (mbal s) (mimm s) mi mo' ii' io (rb_ts r)) as [[bal imm]| |] eqn:Eu; cbn [bind]; try discriminate.
  intros [= <-]. unfold bal_below. cbn [utxos events mbal mimm a_idx a_addr a_hash tip set_wallet]. rewrite <- E1, <- E2. repeat split; auto.
  - (* mature: the new current value B satisfies B + qsum = msum h u2 *)
    assert (qsum h u2 <= msum h u2)%N as Hle.
    { clear. unfold qsum, msum. induction u2 as [|e t IH]; cbn [wsum]; [lia|].
      unfold qval at 1, mval at 1. destruct (emat e =? h)%N eqn:A, (emat e <=? h)%N eqn:B; lia. }
    assert (scur (mbal s) + mi = (msum h u2 - qsum h u2) + mo')%N as P1 by lia.
    assert (scur (mimm s) + ii' = (isum h u2 + qsum h u2) + io)%N as P2 by lia.
    destruct (update_balance_spec _ _ _ _ _ _ _ _ _ _ _ Eu P1 P2) as [HB _]. lia.
  - assert (qsum h u2 <= msum h u2)%N as Hle.
    { clear. unfold qsum, msum. induction u2 as [|e t IH]; cbn [wsum]; [lia|].
      unfold qval at 1, mval at 1. destruct (emat e =? h)%N eqn:A, (emat e <=? h)%N eqn:B; lia. }
    assert (scur (mbal s) + mi = (msum h u2 - qsum h u2) + mo')%N as P1 by lia.
    assert (scur (mimm s) + ii' = (isum h u2 + qsum h u2) + io)%N as P2 by lia.
    destruct (update_balance_spec _ _ _ _ _ _ _ _ _ _ _ Eu P1 P2) as [_ HI]. lia.
Qed.

(** * Chains *)
Lemma valid_chain_app X : forall Y, valid_chain (X ++ Y) -> valid_chain Y.
Proof. induction X as [|b X IH]; intros Y H; cbn in H; [exact H|]. apply IH. tauto. Qed.

Lemma chain_heights b C : valid_chain (b :: C) -> forall c, In c C -> (ih (ab_idx c) < ih (ab_idx b))%N.
Proof.
  revert b. induction C as [|t C IH]; intros b H c Hc; [destruct Hc|].
  cbn [valid_chain] in H. destruct H as [Ht [Hh _]].
  destruct Hc as [->|Hc]; [lia|]. specialize (IH t Ht c Hc). lia.
Qed.

Lemma efold_vix C : valid_chain C -> forall v, In v (efold C) -> exists c, In c C /\ vix v = ab_idx c.
Proof.
  induction C as [|b C IH]; intros H v Hv; cbn [efold] in Hv; [destruct Hv|].
  cbn [valid_chain] in H. destruct H as [HC [_ [_ [_ [_ [_ [Hev NDe]]]]]]].
  apply (ins_events_spec (ab_events b) (efold C) (efold_sorted C)) in Hv; [|intros e He; apply (Hev e He)|exact NDe].
  destruct Hv as [Hv|Hv].
  - destruct (IH HC v Hv) as [c [Hc E]]. exists c. split; [right; exact Hc|exact E].
  - exists b. split; [left; reflexivity|apply (Hev v Hv)].
Qed.

Lemma idx_eqb_eq a b : idx_eqb a b = true <-> a = b.
Proof.
  unfold idx_eqb. rewrite Bool.andb_true_iff, !N.eqb_eq. destruct a, b; cbn. split; [intros [-> ->]; reflexivity|intros [= -> ->]; auto].
Qed.

Lemma filter_sorted A (key : A -> N) p l : ssorted key l -> ssorted key (filter p l).
Proof.
  induction l as [|x t IH]; cbn; [auto|]. intros [L S]. destruct (p x); cbn; [|auto].
  split; [|auto]. intros y Hy. apply filter_In in Hy. apply L. tauto.
Qed.

(* disconnecting the tip block gives back the events of the chain below it *)
Lemma revert_events b C : valid_chain (b :: C) ->
  filter (fun e => negb (idx_eqb (vix e) (ab_idx b))) (efold (b :: C)) = efold C.
Proof.
  intros H. apply (ssorted_ext vid).
  - apply filter_sorted. apply efold_sorted.
  - apply efold_sorted.
  - intros y. rewrite filter_In. cbn [efold].
    pose proof H as H'. cbn [valid_chain] in H'. destruct H' as [HC [_ [_ [_ [_ [_ [Hev NDe]]]]]]].
    rewrite (ins_events_spec (ab_events b) (efold C) (efold_sorted C)); [|intros e He; apply (Hev e He)|exact NDe].
    split.
    + intros [[Hy|Hy] Hp]; [exact Hy|].
      destruct (Hev y Hy) as [E _]. rewrite E in Hp.
      assert (idx_eqb (ab_idx b) (ab_idx b) = true) as R by (apply idx_eqb_eq; reflexivity).
      rewrite R in Hp. discriminate.
    + intros Hy. split; [left; exact Hy|].
      destruct (efold_vix C HC y Hy) as [c [Hc E]].
      pose proof (chain_heights b C H c Hc) as Hlt.
      destruct (idx_eqb (vix y) (ab_idx b)) eqn:Q; [|reflexivity].
      apply idx_eqb_eq in Q. rewrite E in Q. rewrite Q in Hlt. lia.
Qed.

(* ... and the unspent outputs of the chain below it *)
Lemma revert_utxos b C : valid_chain (b :: C) ->
  (forall e, In e (ab_created b) -> In e (ufold (b :: C))) /\
  (forall e, In e (ab_spent b) -> tmem eid (eid e) (del_all (ab_created b) (ufold (b :: C))) = false) /\
  ins_all (ab_spent b) (del_all (ab_created b) (ufold (b :: C))) = ufold C.
Proof.
  intros H. cbn [valid_chain] in H. destruct H as [HC [_ [Hsp [NDs [Hcr [NDc _]]]]]].
  set (U := ufold C) in *. assert (ssorted eid U) as SU by apply ufold_sorted.
  destruct (del_all_spec (ab_spent b) U SU) as [S1 I1].
  assert (forall e, In e (ab_created b) -> tmem eid (eid e) (del_all (ab_spent b) U) = false) as Hcr1.
  { intros e He. apply tmem_false_In. intros y Hy E. apply I1 in Hy. destruct Hy as [Hy _].
    apply (proj1 (tmem_false_In eid (eid e) U) (Hcr e He) y Hy E). }
  destruct (ins_all_spec (ab_created b) (del_all (ab_spent b) U) S1 Hcr1 NDc) as [S2 I2].
  cbn [ufold]. fold U. set (X := ins_all (ab_created b) (del_all (ab_spent b) U)) in *.
  destruct (del_all_spec (ab_created b) X S2) as [S3 I3].
  assert (forall e, In e (ab_spent b) -> tmem eid (eid e) (del_all (ab_created b) X) = false) as Hsp3.
  { intros e He. apply tmem_false_In. intros y Hy E. apply I3 in Hy. destruct Hy as [Hy Hn].
    apply I2 in Hy. destruct Hy as [Hy|Hy].
    - apply I1 in Hy. destruct Hy as [_ Hn2]. apply Hn2. rewrite E. apply in_map. exact He.
    - apply Hn. apply in_map. exact Hy. }
  split; [|split].
  - intros e He. apply I2. right. exact He.
  - exact Hsp3.
  - destruct (ins_all_spec (ab_spent b) (del_all (ab_created b) X) S3 Hsp3 NDs) as [S4 I4].
    apply (ssorted_ext eid); [exact S4|exact SU|].
    intros y. rewrite I4, I3, I2, I1. split.
    + intros [[[[Hy _]|Hy] Hn]|Hy]; [exact Hy| |apply Hsp; exact Hy].
      exfalso. apply Hn. apply in_map. exact Hy.
    + intros Hy. destruct (in_dec N.eq_dec (eid y) (ids (ab_spent b))) as [Hin|Hnin].
      * right. unfold ids in Hin. apply in_map_iff in Hin. destruct Hin as [e [E He]].
        assert (e = y) as -> by (apply (ssorted_unique eid U e y SU (Hsp e He) Hy E)). exact He.
      * left. split; [left; split; [exact Hy|exact Hnin]|].
        intros Hin. unfold ids in Hin. apply in_map_iff in Hin. destruct Hin as [e [E He]].
        apply (proj1 (tmem_false_In eid (eid e) U) (Hcr e He) y Hy). symmetry. exact E.
Qed.

(** * The wallet invariant: the stored state is the function of the processed chain *)
Definition tip_height (C : list ablock) : N := match C with [] => 0%N | b :: _ => ih (ab_idx b) end.

Definition winv (s : state) (C : list ablock) : Prop :=
  valid_chain C /\ utxos s = ufold C /\ events s = efold C /\ bal_at s (tip_height C).

Lemma bal_at_nil s h h' : utxos s = [] -> bal_at s h -> bal_at s h'.
Proof. unfold bal_at. intros ->. cbn. tauto. Qed.

Lemma winv_apply s C b s' : winv s C -> valid_chain (b :: C) -> wallet_apply s b = Ok s' ->
  winv s' (b :: C) /\ a_idx s' = a_idx s /\ a_addr s' = a_addr s /\ a_hash s' = a_hash s /\ tip s' = tip s.
Proof.
  intros [HC [HU [HE HB]]] HV Ha. pose proof HV as HV'. cbn [valid_chain] in HV'.
  destruct HV' as [_ [Hh [Hsp [NDs [Hcr [NDc _]]]]]].
  assert (bal_below s (ih (ab_idx b))) as Hbelow.
  { destruct C as [|t C].
    - cbn [ufold] in HU. unfold bal_below. destruct HB as [B1 B2]. rewrite HU in *. cbn in *. lia.
    - cbn [tip_height] in HB. rewrite Hh. apply bal_below_of_at. exact HB. }
  rewrite <- HU in Hsp, Hcr.
  destruct (wallet_apply_spec s b s' (eq_ind_r (ssorted eid) (ufold_sorted C) HU) Hsp NDs Hcr NDc Hbelow Ha) as [U' [E' [B' R]]].
  split; [|exact R]. split; [exact HV|]. split; [|split].
  - rewrite U', HU. reflexivity.
  - rewrite E', HE. reflexivity.
  - exact B'.
Qed.

Lemma winv_revert s b C r s' : winv s (b :: C) ->
  rb_idx r = ab_idx b -> rb_removed r = ab_created b -> rb_unspent r = ab_spent b ->
  wallet_revert s r = Ok s' ->
  winv s' C /\ a_idx s' = a_idx s /\ a_addr s' = a_addr s /\ a_hash s' = a_hash s /\ tip s' = tip s.
Proof.
  intros [HV [HU [HE HB]]] Ei Er Eu Hr. pose proof HV as HV'. cbn [valid_chain] in HV'.
  destruct HV' as [HC [Hh [_ [NDs [_ [NDc _]]]]]].
  destruct (revert_utxos b C HV) as [R1 [R2 R3]].
  cbn [tip_height] in HB.
  assert (ssorted eid (utxos s)) as S by (rewrite HU; apply ufold_sorted).
  destruct (wallet_revert_spec s r s' S) as [U' [E' [B' R]]].
  - rewrite Er, HU. exact R1.
  - rewrite Er. exact NDc.
  - rewrite Er, Eu, HU. exact R2.
  - rewrite Eu. exact NDs.
  - rewrite Ei. exact HB.
  - exact Hr.
  - split; [|exact R]. split; [exact HC|]. split; [|split].
    + rewrite U', Er, Eu, HU. exact R3.
    + rewrite E', Ei, HE. apply revert_events. exact HV.
    + rewrite Ei in B'. destruct C as [|t C].
      * cbn [tip_height]. assert (utxos s' = []) as Z by (rewrite U', Er, Eu, HU; exact R3).
        unfold bal_below in B'. unfold bal_at. rewrite Z in *. cbn in *. lia.
      * cbn [tip_height]. rewrite Hh in B'. apply bal_at_of_below. exact B'.
Qed.

Lemma winv_applies : forall bs s C s', winv s C -> valid_chain (rev bs ++ C) -> wallet_applies s bs = Ok s' ->
  winv s' (rev bs ++ C) /\ a_idx s' = a_idx s /\ a_addr s' = a_addr s /\ a_hash s' = a_hash s /\ tip s' = tip s.
Proof.
  induction bs as [|b t IH]; intros s C s' W V; cbn [wallet_applies rev app].
  - intros [= <-]. tauto.
  - destruct (wallet_apply s b) as [s1| |] eqn:Ea; cbn [bind]; try discriminate. intros Ht.
    cbn [rev] in V. rewrite <- app_assoc in V. cbn [app] in V.
    destruct (winv_apply s C b s1 W (valid_chain_app (rev t) (b :: C) V) Ea) as [W1 [A1 [A2 [A3 A4]]]].
    destruct (IH s1 (b :: C) s' W1 V Ht) as [W2 [B1 [B2 [B3 B4]]]].
    rewrite <- app_assoc. cbn [app]. split; [exact W2|]. repeat split; congruence.
Qed.

Lemma winv_reverts : forall rs s C s', winv s C -> wf_reverts C rs -> wallet_reverts s rs = Ok s' ->
  winv s' (skipn (length rs) C) /\ a_idx s' = a_idx s /\ a_addr s' = a_addr s /\ a_hash s' = a_hash s /\ tip s' = tip s.
Proof.
  induction rs as [|r t IH]; intros s C s' W F; cbn [wallet_reverts length skipn].
  - intros [= <-]. tauto.
  - destruct C as [|b C]; [destruct F|]. cbn [wf_reverts] in F. destruct F as [F1 [F2 [F3 [_ F5]]]].
    destruct (wallet_revert s r) as [s1| |] eqn:Er; cbn [bind]; try discriminate. intros Ht.
    destruct (winv_revert s b C r s1 W F1 F2 F3 Er) as [W1 [A1 [A2 [A3 A4]]]].
    destruct (IH s1 C s' W1 F5 Ht) as [W2 [B1 [B2 [B3 B4]]]].
    split; [exact W2|]. repeat split; congruence.
Qed.

Lemma settings_update_wallet s rs bs :
  utxos (settings_update s rs bs) = utxos s /\ events (settings_update s rs bs) = events s /\
  mbal (settings_update s rs bs) = mbal s /\ mimm (settings_update s rs bs) = mimm s /\
  tip (settings_update s rs bs) = tip s.
Proof.
  unfold settings_update.
  destruct (ann_reverts (a_idx s) rs (a_idx s) (a_addr s) (a_hash s)) as [[ai aa] ah].
  destruct (batch_v1 bs) as [[i addr]|]; destruct (batch_v2 bs) as [[[i2 h2] [|]]|]; cbn; tauto.
Qed.

Lemma winv_ext s s' C : winv s C -> utxos s' = utxos s -> events s' = events s ->
  mbal s' = mbal s -> mimm s' = mimm s -> winv s' C.
Proof.
  unfold winv, bal_at. intros [A [B [D [E F]]]] -> -> -> ->. tauto.
Qed.

(* the state after a batch, split into its three phases *)
Lemma batch_phases s rs bs s' : batch s rs bs = Ok s' -> (rs <> [] \/ bs <> []) ->
  exists s1 s2, wallet_reverts s rs = Ok s1 /\ wallet_applies s1 bs = Ok s2 /\
    utxos s' = utxos s2 /\ events s' = events s2 /\ mbal s' = mbal s2 /\ mimm s' = mimm s2 /\
    a_idx s' = a_idx (settings_update s2 rs bs) /\ a_addr s' = a_addr (settings_update s2 rs bs) /\
    a_hash s' = a_hash (settings_update s2 rs bs) /\ tip s' = last_idx rs bs (tip s2).
Proof.
  intros H Hne. unfold batch in H.
  assert ((do s1 <- wallet_reverts s rs; do s2 <- wallet_applies s1 bs;
          (let s3 := settings_update s2 rs bs in
           Ok {| utxos := utxos s3; events := events s3; mbal := mbal s3; mimm := mimm s3;
                 a_idx := a_idx s3; a_addr := a_addr s3; a_hash := a_hash s3;
                 tip := last_idx rs bs (tip s3) |})) = Ok s') as H'.
  { destruct rs, bs; try exact H. destruct Hne as [X|X]; congruence. }
  clear H. destruct (wallet_reverts s rs) as [s1| |] eqn:H1; cbn [bind] in H'; try discriminate.
  destruct (wallet_applies s1 bs) as [s2| |] eqn:H2; cbn [bind] in H'; try discriminate.
  injection H' as <-. exists s1, s2. cbn.
  destruct (settings_update_wallet s2 rs bs) as [A [B [D [E F]]]]. rewrite F. repeat split; auto.
Qed.

Lemma winv_batch s C rs bs s' : winv s C -> wf_batch C rs bs -> batch s rs bs = Ok s' ->
  winv s' (chain_after C rs bs).
Proof.
  intros W [F V] H. destruct rs as [|r rs'] eqn:Ers, bs as [|b bs'] eqn:Ebs.
  - cbn in H. injection H as <-. exact W.
  - destruct (batch_phases s [] (b :: bs') s' H) as [s1 [s2 [H1 [H2 [A [B [D [E _]]]]]]]]; [right; discriminate|].
    cbn in H1. injection H1 as <-.
    destruct (winv_applies (b :: bs') s C s2 W V H2) as [W2 _].
    exact (winv_ext s2 s' _ W2 A B D E).
  - destruct (batch_phases s (r :: rs') [] s' H) as [s1 [s2 [H1 [H2 [A [B [D [E _]]]]]]]]; [left; discriminate|].
    cbn in H2. injection H2 as <-.
    destruct (winv_reverts (r :: rs') s C s1 W F H1) as [W1 _].
    exact (winv_ext s1 s' _ W1 A B D E).
  - destruct (batch_phases s (r :: rs') (b :: bs') s' H) as [s1 [s2 [H1 [H2 [A [B [D [E _]]]]]]]]; [left; discriminate|].
    destruct (winv_reverts (r :: rs') s C s1 W F H1) as [W1 _].
    destruct (winv_applies (b :: bs') s1 _ s2 W1 V H2) as [W2 _].
    exact (winv_ext s2 s' _ W2 A B D E).
Qed.

Lemma winv_init : winv init [].
Proof. unfold winv, bal_at. cbn. tauto. Qed.

Theorem reach_winv s C : reach s C -> winv s C.
Proof.
  induction 1 as [|s C rs bs s' R IH F H|s C R IH].
  - exact winv_init.
  - exact (winv_batch s C rs bs s' IH F H).
  - exact winv_init.
Qed.

(** * Statements used by Props_C16.v *)
Lemma utxos_events_function_of_chain s C : reach s C ->
  utxos s = ufold C /\ events s = efold C.
Proof. intros R. destruct (reach_winv s C R) as [_ [A [B _]]]. tauto. Qed.

Lemma balance_metrics s C : reach s C ->
  scur (mbal s) = msum (tip_height C) (utxos s) /\ scur (mimm s) = isum (tip_height C) (utxos s).
Proof. intros R. destruct (reach_winv s C R) as [_ [_ [_ B]]]. exact B. Qed.

(* what Store.Metrics(now) reports once [now] is not before the newest data point *)
Lemma balance_metrics_observed s C now : reach s C ->
  (smaxkey (mbal s) <= bucket now)%N -> (smaxkey (mimm s) <= bucket now)%N ->
  snd (step s (Observe now)) =
    OState (ufold C) (efold C) (msum (tip_height C) (ufold C)) (isum (tip_height C) (ufold C))
           (a_idx s) (a_addr s) (a_hash s) (tip s).
Proof.
  intros R H1 H2. destruct (reach_winv s C R) as [_ [A [B [D E]]]]. cbn [step snd].
  rewrite (sread_cur _ _ H1), (sread_cur _ _ H2), D, E, A, B. reflexivity.
Qed.

(* the inverse law: disconnecting a block that was just connected restores the wallet state *)
Lemma revert_apply_inverse s C b r s1 s2 : reach s C -> valid_chain (b :: C) ->
  rb_idx r = ab_idx b -> rb_removed r = ab_created b -> rb_unspent r = ab_spent b ->
  wallet_apply s b = Ok s1 -> wallet_revert s1 r = Ok s2 ->
  utxos s2 = utxos s /\ events s2 = events s /\
  scur (mbal s2) = scur (mbal s) /\ scur (mimm s2) = scur (mimm s).
Proof.
  intros R V E1 E2 E3 Ha Hr. pose proof (reach_winv s C R) as W.
  destruct (winv_apply s C b s1 W V Ha) as [W1 _].
  destruct (winv_revert s1 b C r s2 W1 E1 E2 E3 Hr) as [W2 _].
  destruct W as [_ [A [B [D E]]]]. destruct W2 as [_ [A2 [B2 [D2 E2']]]].
  rewrite A, B, A2, B2, D, E, D2, E2', A, A2. tauto.
Qed.

(* un-maturing: after the tip at height h+1 is disconnected, an output with maturity h+1 counts
   as immature again *)
Lemma unmature_on_revert s b C r s' e : reach s (b :: C) -> C <> [] ->
  rb_idx r = ab_idx b -> rb_removed r = ab_created b -> rb_unspent r = ab_spent b ->
  wallet_revert s r = Ok s' -> In e (utxos s') -> emat e = ih (ab_idx b) ->
  scur (mbal s') = msum (tip_height C) (utxos s') /\ mval (tip_height C) e = 0%N /\
  ival (tip_height C) e = eval e.
Proof.
  intros R Hne E1 E2 E3 Hr He Hm. pose proof (reach_winv _ _ R) as W.
  destruct (winv_revert s b C r s' W E1 E2 E3 Hr) as [[_ [_ [_ [B _]]]] _].
  split; [exact B|]. destruct W as [V _]. destruct C as [|t C]; [congruence|].
  cbn [valid_chain] in V. destruct V as [_ [Hh _]]. cbn [tip_height].
  unfold mval, ival. destruct (emat e <=? ih (ab_idx t))%N eqn:Q; [lia|auto].
Qed.
