(* Wallet/Proofs.v — wallet lemmas behind Props_C16.v *)
From HostdBase Require Import Base.
From HostdWallet Require Import Model Lib.

Lemma reset_is_init s : reset s = init.
Proof. reflexivity. Qed.
