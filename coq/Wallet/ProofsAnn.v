(* Wallet/ProofsAnn.v — announcement record and tip marker lemmas behind Props_C16.v *)
From Coq Require Import Lia ZifyBool ZifyN.
From HostdBase Require Import Base.
From HostdWallet Require Import Model Lib Proofs.

(* the block contains an announcement signed by the host (v1 arbitrary data or v2 attestation) *)
Definition host_ann (b : ablock) : bool :=
  existsb (fun a : bool * N => fst a) (ab_v1 b) || existsb (fun a : bool * N * bool => fst (fst a)) (ab_v2 b).

(* the record is empty or refers to a block of the chain that contains such an announcement *)
Definition ann_ok (s : state) (C : list ablock) : Prop :=
  match a_idx s with
  | None => True
  | Some i => exists b, In b C /\ ab_idx b = i /\ host_ann b = true
  end.

(* blocks disconnected by a batch with revert list rs *)
Definition disconnected (C : list ablock) (rs : list rblock) : list ablock := firstn (length rs) C.

(** * The revert loop *)
Lemma ann_reverts_none last rs : ann_reverts last rs None None None = (None, None, None).
Proof. induction rs as [|r t IH]; cbn; [reflexivity|]. destruct (opt_idx_is last (rb_idx r)); exact IH. Qed.

Lemma ann_reverts_closed last rs ai aa ah :
  ann_reverts last rs ai aa ah =
  if existsb (fun r => opt_idx_is last (rb_idx r)) rs then (None, None, None) else (ai, aa, ah).
Proof.
  induction rs as [|r t IH]; cbn; [reflexivity|].
  destruct (opt_idx_is last (rb_idx r)); cbn; [apply ann_reverts_none|exact IH].
Qed.

Lemma wf_reverts_idx : forall rs C, wf_reverts C rs ->
  map rb_idx rs = map ab_idx (disconnected C rs) /\ C = disconnected C rs ++ skipn (length rs) C.
Proof.
  unfold disconnected. induction rs as [|r t IH]; intros C F; cbn [length firstn skipn map]; [split; reflexivity|].
  destruct C as [|b C]; [destruct F|]. cbn [wf_reverts] in F. destruct F as [F1 [_ [_ [_ F5]]]].
  destruct (IH C F5) as [E1 E2]. cbn [map app]. split; [congruence|]. f_equal. exact E2.
Qed.

Lemma reverted_iff last rs C i : wf_reverts C rs -> last = Some i ->
  existsb (fun r => opt_idx_is last (rb_idx r)) rs = true <-> In i (map ab_idx (disconnected C rs)).
Proof.
  intros F ->. destruct (wf_reverts_idx rs C F) as [E _]. rewrite <- E.
  rewrite existsb_exists. split.
  - intros [r [Hr Q]]. cbn in Q. apply idx_eqb_eq in Q. rewrite <- Q. apply in_map. exact Hr.
  - intros Hin. apply in_map_iff in Hin. destruct Hin as [r [Q Hr]]. exists r. split; [exact Hr|].
    cbn. apply idx_eqb_eq. exact Q.
Qed.

(** * Announcements found in the applied blocks *)
Lemma block_v1_spec b : forall cur i a, block_v1 b cur = Some (i, a) ->
  cur = Some (i, a) \/ (i = ab_idx b /\ host_ann b = true).
Proof.
  unfold block_v1, host_ann. generalize (ab_v1 b) as l. induction l as [|[h ad] t IH]; intros cur i a; cbn [fold_left existsb].
  - intros ->. left. reflexivity.
  - intros H. apply IH in H. destruct h; cbn [fst snd] in *.
    + destruct H as [[= <- <-]|[-> _]]; right; split; reflexivity.
    + destruct H as [H|[-> H]]; [left; exact H|right; split; [reflexivity|exact H]].
Qed.

Lemma block_v2_spec b : forall cur i h ne, block_v2 b cur = Some (i, h, ne) ->
  cur = Some (i, h, ne) \/ (i = ab_idx b /\ host_ann b = true).
Proof.
  unfold block_v2, host_ann. generalize (ab_v2 b) as l. induction l as [|[[hk hh] hn] t IH]; intros cur i h ne; cbn [fold_left existsb].
  - intros ->. left. reflexivity.
  - intros H. apply IH in H. destruct hk; cbn [fst snd] in *.
    + destruct H as [[= <- <- <-]|[-> _]]; right; (split; [reflexivity|apply Bool.orb_true_r]).
    + destruct H as [H|[-> H]]; [left; exact H|right; split; [reflexivity|exact H]].
Qed.

Lemma batch_v1_spec : forall bs cur i a, fold_left (fun c b => block_v1 b c) bs cur = Some (i, a) ->
  cur = Some (i, a) \/ exists b, In b bs /\ ab_idx b = i /\ host_ann b = true.
Proof.
  induction bs as [|b t IH]; intros cur i a; cbn [fold_left].
  - intros ->. left. reflexivity.
  - intros H. apply IH in H. destruct H as [H|[b' [Hb' Q]]].
    + apply block_v1_spec in H. destruct H as [H|[-> H]]; [left; exact H|].
      right. exists b. split; [left; reflexivity|split; [reflexivity|exact H]].
    + right. exists b'. split; [right; exact Hb'|exact Q].
Qed.

Lemma batch_v2_spec : forall bs cur i h ne, fold_left (fun c b => block_v2 b c) bs cur = Some (i, h, ne) ->
  cur = Some (i, h, ne) \/ exists b, In b bs /\ ab_idx b = i /\ host_ann b = true.
Proof.
  induction bs as [|b t IH]; intros cur i h ne; cbn [fold_left].
  - intros ->. left. reflexivity.
  - intros H. apply IH in H. destruct H as [H|[b' [Hb' Q]]].
    + apply block_v2_spec in H. destruct H as [H|[-> H]]; [left; exact H|].
      right. exists b. split; [left; reflexivity|split; [reflexivity|exact H]].
    + right. exists b'. split; [right; exact Hb'|exact Q].
Qed.

(** * One batch: exact effect on the record *)
(* the batch contains an announcement of the host that the code records *)
Definition records (bs : list ablock) : bool :=
  match batch_v2 bs with
  | Some (_, _, true) => true
  | _ => match batch_v1 bs with Some _ => true | None => false end
  end.

Lemma settings_update_closed s rs bs :
  let hit := existsb (fun r => opt_idx_is (a_idx s) (rb_idx r)) rs in
  a_idx (settings_update s rs bs) =
    match batch_v2 bs with
    | Some (i, _, true) => Some i
    | _ => match batch_v1 bs with Some (i, _) => Some i | None => if hit then None else a_idx s end
    end /\
  a_addr (settings_update s rs bs) =
    match batch_v1 bs with Some (_, a) => Some a | None => if hit then None else a_addr s end /\
  a_hash (settings_update s rs bs) =
    match batch_v2 bs with Some (_, h, true) => Some h | _ => if hit then None else a_hash s end.
Proof.
  unfold settings_update. rewrite ann_reverts_closed.
  destruct (existsb (fun r => opt_idx_is (a_idx s) (rb_idx r)) rs);
    destruct (batch_v1 bs) as [[i a]|]; destruct (batch_v2 bs) as [[[i2 h2] [|]]|]; cbn; auto.
Qed.

(* the state components of a successful non-empty batch relevant to the record *)
Lemma batch_ann s C rs bs s' : reach s C -> wf_batch C rs bs -> batch s rs bs = Ok s' ->
  (rs <> [] \/ bs <> []) ->
  exists s2, a_idx s2 = a_idx s /\ a_addr s2 = a_addr s /\ a_hash s2 = a_hash s /\
    a_idx s' = a_idx (settings_update s2 rs bs) /\ a_addr s' = a_addr (settings_update s2 rs bs) /\
    a_hash s' = a_hash (settings_update s2 rs bs).
Proof.
  intros R [F V] H Hne. pose proof (reach_winv s C R) as W.
  destruct (batch_phases s rs bs s' H Hne) as [s1 [s2 [H1 [H2 [_ [_ [_ [_ [A1 [A2 [A3 _]]]]]]]]]]].
  destruct (winv_reverts rs s C s1 W F H1) as [W1 [B1 [B2 [B3 _]]]].
  destruct (winv_applies bs s1 _ s2 W1 V H2) as [_ [D1 [D2 [D3 _]]]].
  exists s2. repeat split; congruence.
Qed.

Lemma ann_ok_batch_aux s C rs bs s' : reach s C -> ann_ok s C -> wf_batch C rs bs -> batch s rs bs = Ok s' ->
  (rs <> [] \/ bs <> []) -> ann_ok s' (chain_after C rs bs).
Proof.
  intros R A F H Hne. destruct (batch_ann s C rs bs s' R F H Hne) as [s2 [E1 [E2 [E3 [A1 [A2 A3]]]]]].
  destruct (settings_update_closed s2 rs bs) as [Q1 _]. cbn zeta in Q1.
  unfold ann_ok. rewrite A1, Q1. unfold chain_after. destruct F as [F V].
  assert (forall b, In b bs -> In b (rev bs ++ skipn (length rs) C)) as Hin.
  { intros b Hb. apply in_or_app. left. apply in_rev in Hb. exact Hb. }
  (* the v1 / unchanged part, shared by two branches *)
  assert (match (match batch_v1 bs with
                 | Some (i, _) => Some i
                 | None => if existsb (fun r => opt_idx_is (a_idx s2) (rb_idx r)) rs then None else a_idx s2
                 end) with
          | None => True
          | Some i => exists b, In b (rev bs ++ skipn (length rs) C) /\ ab_idx b = i /\ host_ann b = true
          end) as Hv1.
  { destruct (batch_v1 bs) as [[i a]|] eqn:V1.
    - unfold batch_v1 in V1. apply batch_v1_spec in V1. destruct V1 as [V1|[b [Hb Q]]]; [discriminate|].
      exists b. split; [apply Hin; exact Hb|exact Q].
    - destruct (existsb (fun r => opt_idx_is (a_idx s2) (rb_idx r)) rs) eqn:Hit; [exact I|].
      rewrite E1. unfold ann_ok in A. destruct (a_idx s) as [i0|] eqn:Ai; [|exact I].
      destruct A as [b0 [Hb0 [Q0 HA0]]]. exists b0. split; [|split; [exact Q0|exact HA0]].
      rewrite E1 in Hit.
      destruct (wf_reverts_idx rs C F) as [_ Split]. rewrite Split in Hb0.
      apply in_app_or in Hb0. destruct Hb0 as [Hb0|Hb0]; [|apply in_or_app; right; exact Hb0].
      exfalso. assert (existsb (fun r => opt_idx_is (Some i0) (rb_idx r)) rs = true) as T.
      { apply (reverted_iff (Some i0) rs C i0 F eq_refl). rewrite <- Q0. apply in_map. exact Hb0. }
      congruence. }
  destruct (batch_v2 bs) as [[[i2 h2] ne]|] eqn:V2; [|exact Hv1].
  destruct ne; [|exact Hv1].
  unfold batch_v2 in V2. apply batch_v2_spec in V2. destruct V2 as [V2|[b [Hb Q]]]; [discriminate|].
  exists b. split; [apply Hin; exact Hb|exact Q].
Qed.

Lemma ann_ok_batch s C rs bs s' : reach s C -> ann_ok s C -> wf_batch C rs bs -> batch s rs bs = Ok s' ->
  ann_ok s' (chain_after C rs bs).
Proof.
  intros R A F H. destruct rs as [|r rs'] eqn:Ers; [destruct bs as [|b bs'] eqn:Ebs|].
  - cbn in H. injection H as <-. exact A.
  - apply (ann_ok_batch_aux s C [] (b :: bs') s' R A F H). right. discriminate.
  - apply (ann_ok_batch_aux s C (r :: rs') bs s' R A F H). left. discriminate.
Qed.

Theorem reach_ann_ok s C : reach s C -> ann_ok s C.
Proof.
  induction 1 as [|s C rs bs s' R IH F H|s C R IH].
  - exact I.
  - exact (ann_ok_batch s C rs bs s' R IH F H).
  - exact I.
Qed.

(* cleared exactly when the block the record refers to is disconnected *)
Lemma ann_cleared_iff s C rs bs s' i : reach s C -> a_idx s = Some i -> wf_batch C rs bs ->
  batch s rs bs = Ok s' -> records bs = false ->
  (In i (map ab_idx (disconnected C rs)) -> a_idx s' = None /\ a_addr s' = None /\ a_hash s' = None) /\
  (~ In i (map ab_idx (disconnected C rs)) ->
     a_idx s' = Some i /\ a_addr s' = a_addr s /\ a_hash s' = a_hash s).
Proof.
  intros R Ai F H Rec.
  destruct rs as [|r rs'] eqn:Ers; [destruct bs as [|b bs'] eqn:Ebs|].
  - cbn in H. injection H as <-. cbn. split; [tauto|]. intros _. auto.
  - assert (@nil rblock <> [] \/ b :: bs' <> []) as Hne by (right; discriminate).
    destruct (batch_ann s C [] (b :: bs') s' R F H Hne) as [s2 [E1 [E2 [E3 [A1 [A2 A3]]]]]].
    destruct (settings_update_closed s2 [] (b :: bs')) as [Q1 [Q2 Q3]]. cbn zeta in *.
    unfold records in Rec. rewrite A1, A2, A3, Q1, Q2, Q3. cbn [existsb disconnected length firstn map In].
    destruct (batch_v2 (b :: bs')) as [[[i2 h2] [|]]|]; try discriminate;
      destruct (batch_v1 (b :: bs')) as [[i1 a1]|]; try discriminate; (split; [tauto|intros _; repeat split; congruence]).
  - assert (r :: rs' <> [] \/ bs <> []) as Hne by (left; discriminate).
    destruct (batch_ann s C (r :: rs') bs s' R F H Hne) as [s2 [E1 [E2 [E3 [A1 [A2 A3]]]]]].
    destruct (settings_update_closed s2 (r :: rs') bs) as [Q1 [Q2 Q3]]. cbn zeta in *.
    destruct F as [F V].
    pose proof (reverted_iff (a_idx s2) (r :: rs') C i F (eq_trans E1 Ai)) as Hit.
    unfold records in Rec. rewrite A1, A2, A3, Q1, Q2, Q3.
    destruct (existsb (fun r0 => opt_idx_is (a_idx s2) (rb_idx r0)) (r :: rs')) eqn:X.
    + assert (In i (map ab_idx (disconnected C (r :: rs')))) as Hin by (apply Hit; reflexivity).
      destruct (batch_v2 bs) as [[[i2 h2] [|]]|]; try discriminate;
        destruct (batch_v1 bs) as [[i1 a1]|]; try discriminate; (split; [auto|tauto]).
    + assert (~ In i (map ab_idx (disconnected C (r :: rs')))) as Hnin.
      { intros Hin. apply Hit in Hin. discriminate. }
      destruct (batch_v2 bs) as [[[i2 h2] [|]]|]; try discriminate;
        destruct (batch_v1 bs) as [[i1 a1]|]; try discriminate; (split; [tauto|intros _; repeat split; congruence]).
Qed.

(** * Tip marker *)
Lemma rev_cons_head (A : Type) (r : A) t : t <> [] -> exists x y y', rev (r :: t) = x :: y /\ rev t = x :: y'.
Proof.
  intros Hne. cbn [rev]. destruct (rev t) as [|x y] eqn:E.
  - exfalso. apply Hne. rewrite <- (rev_involutive t), E. reflexivity.
  - exists x, (y ++ [r]), y. split; reflexivity.
Qed.

Lemma wf_reverts_last : forall rs C p X, wf_reverts C rs -> rs <> [] ->
  skipn (length rs) C = p :: X -> exists r y, rev rs = r :: y /\ rb_parent r = ab_idx p.
Proof.
  induction rs as [|r t IH]; intros C p X F Hne Hs; [congruence|].
  destruct C as [|b C]; [destruct F|]. cbn [wf_reverts] in F. destruct F as [_ [_ [_ [F4 F5]]]].
  cbn [length skipn] in Hs. destruct t as [|r2 t].
  - cbn in Hs. subst C. exists r, []. split; [reflexivity|exact F4].
  - destruct (IH C p X F5 ltac:(discriminate) Hs) as [x [y [E Q]]].
    destruct (rev_cons_head rblock r (r2 :: t) ltac:(discriminate)) as [x' [y1 [y2 [E1 E2]]]].
    exists x', y1. split; [exact E1|]. rewrite E in E2. injection E2 as -> _. exact Q.
Qed.

Definition tip_ok (s : state) (C : list ablock) : Prop :=
  match C with [] => True | b :: _ => tip s = Some (ab_idx b) end.

Lemma tip_ok_batch s C rs bs s' : reach s C -> tip_ok s C -> wf_batch C rs bs -> batch s rs bs = Ok s' ->
  tip_ok s' (chain_after C rs bs).
Proof.
  intros R T F H. destruct rs as [|r rs'] eqn:Ers; [destruct bs as [|b bs'] eqn:Ebs|].
  - cbn in H. injection H as <-. exact T.
  - assert (@nil rblock <> [] \/ b :: bs' <> []) as Hne by (right; discriminate).
    destruct (batch_phases s [] (b :: bs') s' H Hne) as [s1 [s2 [_ [_ [_ [_ [_ [_ [_ [_ [_ Tp]]]]]]]]]]].
    unfold tip_ok, chain_after. unfold last_idx in Tp.
    destruct (rev (b :: bs')) as [|x y] eqn:E.
    + exfalso. assert (b :: bs' = []) by (rewrite <- (rev_involutive (b :: bs')), E; reflexivity). discriminate.
    + cbn [app]. exact Tp.
  - assert (r :: rs' <> [] \/ bs <> []) as Hne by (left; discriminate).
    destruct (batch_phases s (r :: rs') bs s' H Hne) as [s1 [s2 [_ [_ [_ [_ [_ [_ [_ [_ [_ Tp]]]]]]]]]]].
    unfold tip_ok, chain_after. unfold last_idx in Tp.
    destruct (rev bs) as [|x y] eqn:E; [|cbn [app]; exact Tp].
    cbn [app]. destruct (skipn (length (r :: rs')) C) as [|p X] eqn:Sk; [exact I|].
    destruct F as [F _].
    destruct (wf_reverts_last (r :: rs') C p X F ltac:(discriminate) Sk) as [x [y [E1 Q]]].
    rewrite E1 in Tp. rewrite Tp, Q. reflexivity.
Qed.

Theorem reach_tip_ok s C : reach s C -> tip_ok s C.
Proof.
  induction 1 as [|s C rs bs s' R IH F H|s C R IH].
  - exact I.
  - exact (tip_ok_batch s C rs bs s' R IH F H).
  - exact I.
Qed.

(** * Reset *)
Lemma reset_spec s : reset s = init /\ utxos (reset s) = [] /\ events (reset s) = [] /\
  (forall now, sread (mbal (reset s)) now = 0%N /\ sread (mimm (reset s)) now = 0%N) /\
  a_idx (reset s) = None /\ a_addr (reset s) = None /\ a_hash (reset s) = None /\ tip (reset s) = None.
Proof. cbn. repeat split; reflexivity. Qed.

(** * Histories as operation lists (the [step] function the correspondence check runs) *)
Fixpoint wf_ops (s : state) (C : list ablock) (l : list op) : Prop :=
  match l with
  | [] => True
  | Batch rs bs :: t =>
      match batch s rs bs with
      | Ok s' => wf_batch C rs bs /\ wf_ops s' (chain_after C rs bs) t
      | _ => wf_ops s C t                       (* a failed batch is rolled back *)
      end
  | Reset :: t => wf_ops (reset s) [] t
  | Observe _ :: t => wf_ops s C t
  end.

Fixpoint ghost (s : state) (C : list ablock) (l : list op) : list ablock :=
  match l with
  | [] => C
  | Batch rs bs :: t =>
      match batch s rs bs with
      | Ok s' => ghost s' (chain_after C rs bs) t
      | _ => ghost s C t
      end
  | Reset :: t => ghost (reset s) [] t
  | Observe _ :: t => ghost s C t
  end.

Definition runs (s : state) (l : list op) : state := fold_left (fun s o => fst (step s o)) l s.

Lemma runs_reach : forall l s C, reach s C -> wf_ops s C l -> reach (runs s l) (ghost s C l).
Proof.
  induction l as [|o t IH]; intros s C R W; [exact R|].
  destruct o as [rs bs| |now]; cbn [wf_ops ghost] in *; unfold runs; cbn [fold_left step].
  - destruct (batch s rs bs) as [s'| |] eqn:E; cbn [fst].
    + destruct W as [F W]. apply IH; [|exact W]. exact (reach_batch s C rs bs s' R F E).
    + apply IH; assumption.
    + apply IH; assumption.
  - cbn [fst]. apply IH; [|exact W]. apply (reach_reset s C R).
  - cbn [fst]. apply IH; assumption.
Qed.

(** * A concrete history (non-vacuity): payout maturing at 3, v1 announcement in block 2,
      spend at the maturity height in block 3, block 3 disconnected *)
Definition ix (h b : N) : idx := {| ih := h; ib := b |}.
Definition wit_e1 : elem := {| eid := 1; eval := 7; emat := 3 |}.
Definition wit_b1 : ablock := {| ab_idx := ix 1 1; ab_ts := 1000; ab_created := [wit_e1]; ab_spent := [];
  ab_events := [{| vid := 1; vix := ix 1 1; vmat := 3 |}]; ab_v1 := []; ab_v2 := [] |}.
Definition wit_b2 : ablock := {| ab_idx := ix 2 2; ab_ts := 1600; ab_created := []; ab_spent := [];
  ab_events := []; ab_v1 := [(true, 5%N)]; ab_v2 := [] |}.
Definition wit_b3 : ablock := {| ab_idx := ix 3 3; ab_ts := 2200; ab_created := []; ab_spent := [wit_e1];
  ab_events := []; ab_v1 := []; ab_v2 := [] |}.
Definition wit_r3 : rblock := {| rb_idx := ix 3 3; rb_parent := ix 2 2; rb_ts := 2200; rb_removed := []; rb_unspent := [wit_e1] |}.
Definition wit_ops : list op := [Batch [] [wit_b1; wit_b2]; Batch [] [wit_b3]; Batch [wit_r3] []].

Ltac wit_solve :=
  cbn; intuition (subst; cbn; try reflexivity; auto);
  repeat (constructor; cbn; try tauto);
  try (match goal with H : _ \/ False |- _ => destruct H as [<-|[]] end; reflexivity).

Lemma wit_wf : wf_ops init [] wit_ops.
Proof.
  cbn [wit_ops wf_ops].
  assert (batch init [] [wit_b1; wit_b2] = Ok (runs init [Batch [] [wit_b1; wit_b2]])) as E1 by (vm_compute; reflexivity).
  rewrite E1. split.
  { split; [exact I|]. wit_solve. }
  assert (batch (runs init [Batch [] [wit_b1; wit_b2]]) [] [wit_b3] = Ok (runs init [Batch [] [wit_b1; wit_b2]; Batch [] [wit_b3]])) as E2 by (vm_compute; reflexivity).
  cbn [wf_ops]. rewrite E2. split.
  { split; [exact I|]. wit_solve. }
  assert (batch (runs init [Batch [] [wit_b1; wit_b2]; Batch [] [wit_b3]]) [wit_r3] [] = Ok (runs init wit_ops)) as E3 by (vm_compute; reflexivity).
  cbn [wf_ops]. rewrite E3. split; [|exact I].
  split; [cbn; repeat split; reflexivity|].
  wit_solve.
Qed.

Lemma nonvacuous_witness :
  reach (runs init wit_ops) [wit_b2; wit_b1] /\
  utxos (runs init wit_ops) = [wit_e1] /\ scur (mbal (runs init wit_ops)) = 0%N /\
  scur (mimm (runs init wit_ops)) = 7%N /\ a_idx (runs init wit_ops) = Some (ix 2 2) /\
  tip (runs init wit_ops) = Some (ix 2 2).
Proof.
  split; [|vm_compute; repeat split; reflexivity].
  exact (runs_reach wit_ops init [] reach_init wit_wf).
Qed.

(** * The record is cleared as a whole: no address or v2 hash without an index *)
Definition rec_whole (s : state) : Prop := a_idx s = None -> a_addr s = None /\ a_hash s = None.

Lemma rec_whole_batch s C rs bs s' : reach s C -> rec_whole s -> wf_batch C rs bs -> batch s rs bs = Ok s' ->
  rec_whole s'.
Proof.
  intros R W F H. destruct rs as [|r rs'] eqn:Ers; [destruct bs as [|b bs'] eqn:Ebs|].
  - cbn in H. injection H as <-. exact W.
  - assert (@nil rblock <> [] \/ b :: bs' <> []) as Hne by (right; discriminate).
    destruct (batch_ann s C [] (b :: bs') s' R F H Hne) as [s2 [E1 [E2 [E3 [A1 [A2 A3]]]]]].
    destruct (settings_update_closed s2 [] (b :: bs')) as [Q1 [Q2 Q3]]. cbn zeta in *.
    unfold rec_whole in *. rewrite A1, A2, A3, Q1, Q2, Q3, E1, E2, E3. cbn [existsb].
    destruct (batch_v2 (b :: bs')) as [[[i2 h2] [|]]|]; destruct (batch_v1 (b :: bs')) as [[i1 a1]|]; try discriminate; auto.
  - assert (r :: rs' <> [] \/ bs <> []) as Hne by (left; discriminate).
    destruct (batch_ann s C (r :: rs') bs s' R F H Hne) as [s2 [E1 [E2 [E3 [A1 [A2 A3]]]]]].
    destruct (settings_update_closed s2 (r :: rs') bs) as [Q1 [Q2 Q3]]. cbn zeta in *.
    unfold rec_whole in *. rewrite A1, A2, A3, Q1, Q2, Q3.
    destruct (existsb (fun r0 => opt_idx_is (a_idx s2) (rb_idx r0)) (r :: rs'));
      destruct (batch_v2 bs) as [[[i2 h2] [|]]|]; destruct (batch_v1 bs) as [[i1 a1]|];
      rewrite ?E1, ?E2, ?E3; try discriminate; auto.
Qed.

Theorem reach_rec_whole s C : reach s C -> rec_whole s.
Proof.
  induction 1 as [|s C rs bs s' R IH F H|s C R IH].
  - intros _. split; reflexivity.
  - exact (rec_whole_batch s C rs bs s' R IH F H).
  - intros _. split; reflexivity.
Qed.
