(* Wallet/ProofsAnn.v — announcement lemmas behind Props_C16.v *)
From HostdBase Require Import Base.
From HostdWallet Require Import Model Lib.
