(* Wallet/Lib.v — library lemmas (tables kept sorted by primary key, time series) used by the
   C16 proofs.  Nothing about hostd here. *)
From Coq Require Import Lia ZifyBool ZifyN.
From HostdBase Require Import Base.
From HostdWallet Require Import Model.
Set Implicit Arguments.

(** * Tables sorted by key *)
Section Table.
  Variable A : Type.
  Variable key : A -> N.

  Fixpoint ssorted (l : list A) : Prop :=
    match l with
    | [] => True
    | x :: t => (forall y, In y t -> (key x < key y)%N) /\ ssorted t
    end.

  Lemma tmem_In k l : tmem key k l = true <-> exists y, In y l /\ key y = k.
  Proof.
    induction l as [|x t IH]; cbn.
    - split; [discriminate|intros [y [[] _]]].
    - rewrite Bool.orb_true_iff, IH, N.eqb_eq. split.
      + intros [E|[y [Hy E]]]; [exists x; auto|exists y; auto].
      + intros [y [[->|Hy] E]]; [left; auto|right; exists y; auto].
  Qed.

  Lemma tmem_false_In k l : tmem key k l = false <-> forall y, In y l -> key y <> k.
  Proof.
    split.
    - intros H y Hy E. assert (tmem key k l = true) by (apply tmem_In; exists y; auto). congruence.
    - intros H. destruct (tmem key k l) eqn:E; [|reflexivity].
      apply tmem_In in E. destruct E as [y [Hy E]]. exfalso. exact (H y Hy E).
  Qed.

  Lemma ssorted_unique l x y : ssorted l -> In x l -> In y l -> key x = key y -> x = y.
  Proof.
    induction l as [|z t IH]; cbn; [tauto|].
    intros [Hlt Hs] [->|Hx] [->|Hy] E; auto.
    - specialize (Hlt _ Hy). lia.
    - specialize (Hlt _ Hx). lia.
  Qed.

  (* two sorted tables with the same rows are the same list *)
  Lemma ssorted_ext l1 : forall l2, ssorted l1 -> ssorted l2 -> (forall y, In y l1 <-> In y l2) -> l1 = l2.
  Proof.
    induction l1 as [|x t IH]; intros [|x2 t2] S1 S2 H.
    - reflexivity.
    - exfalso. apply (proj2 (H x2)). left; reflexivity.
    - exfalso. apply (proj1 (H x)). left; reflexivity.
    - cbn in S1, S2. destruct S1 as [L1 S1], S2 as [L2 S2].
      assert (x = x2) as ->.
      { destruct (proj1 (H x) (or_introl eq_refl)) as [E|Hin]; [auto|].
        destruct (proj2 (H x2) (or_introl eq_refl)) as [E|Hin2]; [auto|].
        specialize (L1 _ Hin2). specialize (L2 _ Hin). lia. }
      f_equal. apply IH; auto.
      intros y; split; intros Hy.
      + destruct (proj1 (H y) (or_intror Hy)) as [E|]; [|auto].
        subst y. specialize (L1 _ Hy). lia.
      + destruct (proj2 (H y) (or_intror Hy)) as [E|]; [|auto].
        subst y. specialize (L2 _ Hy). lia.
  Qed.

  (* with sortedness *)
  Lemma tins_spec x l : ssorted l ->
    ssorted (tins key x l) /\
    (forall y, In y (tins key x l) <-> In y l \/ (y = x /\ tmem key (key x) l = false)).
  Proof.
    induction l as [|z t IH]; cbn.
    - intros _. split; [split; [intros y []|exact I]|]. intros y. intuition.
    - intros [L S]. specialize (IH S). destruct IH as [IHs IHi].
      destruct (key x <? key z)%N eqn:E1.
      + split.
        * cbn. split; [|split; auto]. intros y [<-|Hy]; [lia|]. specialize (L _ Hy). lia.
        * intros y. cbn. destruct (key x =? key z)%N eqn:E2; [lia|]. cbn.
          assert (tmem key (key x) t = false) as Ht.
          { apply tmem_false_In. intros w Hw. specialize (L _ Hw). lia. }
          rewrite Ht. intuition.
      + destruct (key x =? key z)%N eqn:E2.
        * split; [cbn; auto|]. intros y. cbn. intuition. discriminate.
        * split.
          -- cbn. split; [|exact IHs]. intros y Hy. apply IHi in Hy.
             destruct Hy as [Hy|[-> _]]; [auto|lia].
          -- intros y. cbn. rewrite IHi. intuition.
  Qed.

  Lemma tdel_spec k l l' : ssorted l -> tdel key k l = Some l' ->
    ssorted l' /\ (forall y, In y l' <-> In y l /\ key y <> k) /\ tmem key k l = true.
  Proof.
    revert l'. induction l as [|z t IH]; cbn; [discriminate|].
    intros l' [L S]. destruct (k =? key z)%N eqn:E.
    - intros [= <-]. split; [exact S|]. split; [|reflexivity].
      intros y. split.
      + intros Hy. split; [auto|]. specialize (L _ Hy). lia.
      + intros [[<-|Hy] Hne]; [lia|auto].
    - destruct (tdel key k t) as [t'|] eqn:Et; [|discriminate]. intros [= <-].
      destruct (IH _ S eq_refl) as [S' [Hi Hm]]. split; [|split].
      + cbn. split; [|exact S']. intros y Hy. apply Hi in Hy. apply L. tauto.
      + intros y. cbn. rewrite Hi. split.
        * intros [<-|[Hy Hne]]; [split; [auto|lia]|auto].
        * intros [[<-|Hy] Hne]; auto.
      + rewrite Hm. apply Bool.orb_true_r.
  Qed.

  Lemma tdel_none k l : tdel key k l = None -> tmem key k l = false.
  Proof.
    induction l as [|z t IH]; cbn; [reflexivity|].
    destruct (k =? key z)%N; [discriminate|].
    destruct (tdel key k t); [discriminate|]. intros _. cbn. auto.
  Qed.

  Lemma tdel_some k l : tmem key k l = true -> exists l', tdel key k l = Some l'.
  Proof.
    intros H. destruct (tdel key k l) eqn:E; [eauto|].
    apply tdel_none in E. congruence.
  Qed.
End Table.

(** * Sums over a table *)
Section Sums.
  Variable A : Type.
  Variable w : A -> N.
  Fixpoint wsum (l : list A) : N := match l with [] => 0%N | x :: t => (w x + wsum t)%N end.

  Variable key : A -> N.

  Lemma wsum_tins x l : ssorted key l -> tmem key (key x) l = false ->
    wsum (tins key x l) = (w x + wsum l)%N.
  Proof.
    induction l as [|z t IH]; cbn; [reflexivity|].
    intros [L S] Hm. apply Bool.orb_false_iff in Hm. destruct Hm as [E Hm].
    destruct (key x <? key z)%N; [reflexivity|]. rewrite E. cbn. rewrite IH; auto. lia.
  Qed.

  Lemma wsum_tdel x l l' : ssorted key l -> In x l -> tdel key (key x) l = Some l' ->
    wsum l = (w x + wsum l')%N.
  Proof.
    revert l'. induction l as [|z t IH]; cbn; [tauto|].
    intros l' [L S] Hin. destruct (key x =? key z)%N eqn:E.
    - intros [= <-]. destruct Hin as [->|Hin]; [reflexivity|]. specialize (L _ Hin). lia.
    - destruct Hin as [->|Hin]; [lia|].
      destruct (tdel key (key x) t) as [t'|] eqn:Et; [|discriminate]. intros [= <-].
      cbn. rewrite (IH _ S Hin eq_refl). lia.
  Qed.
End Sums.

(** * Time series *)
Lemma alookup_aset_same V k (v : V) l : alookup k (aset k v l) = Some v.
Proof.
  induction l as [|[k' v'] t IH]; cbn; [now rewrite N.eqb_refl|].
  destruct (k =? k')%N eqn:E; cbn; [now rewrite N.eqb_refl| now rewrite E].
Qed.

Lemma aset_keys V k (v : V) l k' v' : In (k', v') (aset k v l) -> k' = k \/ In (k', v') l.
Proof.
  induction l as [|[k2 v2] t IH]; cbn.
  - intros [[= <- <-]|[]]; auto.
  - destruct (k =? k2)%N eqn:E; cbn.
    + intros [[= <- <-]|H]; auto.
    + intros [H|H]; auto. destruct (IH H); auto.
Qed.

Definition keys_le (rows : series) (K : N) : Prop := forall k v, In (k, v) rows -> (k <= K)%N.

Lemma smaxkey_from rows m : (m <= fold_left (fun m (kv : N * N) => N.max m (fst kv)) rows m)%N /\
  keys_le rows (fold_left (fun m (kv : N * N) => N.max m (fst kv)) rows m).
Proof.
  revert m. induction rows as [|[k v] t IH]; intros m; cbn.
  - split; [lia|]. intros k v [].
  - destruct (IH (N.max m k)) as [H1 H2]. split; [lia|].
    intros k' v' [[= <- <-]|Hin]; [lia|]. exact (H2 _ _ Hin).
Qed.

Lemma smaxkey_bound rows : keys_le rows (smaxkey rows).
Proof. apply (smaxkey_from rows 0). Qed.

(* the read depends on the bound only through the comparisons key <= bound *)
Lemma latest_from_indep rows t1 t2 best : keys_le rows t1 -> keys_le rows t2 ->
  latest_from rows t1 best = latest_from rows t2 best.
Proof.
  revert best. induction rows as [|[k v] r IH]; intros best H1 H2; cbn; [reflexivity|].
  assert (k <= t1)%N by (apply (H1 k v); left; reflexivity).
  assert (k <= t2)%N by (apply (H2 k v); left; reflexivity).
  destruct (k <=? t1)%N eqn:E1; [|lia]. destruct (k <=? t2)%N eqn:E2; [|lia].
  apply IH; intros k' v' Hin; [apply (H1 k' v')|apply (H2 k' v')]; right; exact Hin.
Qed.

Lemma latest_from_stay rows t b v : keys_le rows b ->
  latest_from rows t (Some (b, v)) = Some (b, v).
Proof.
  induction rows as [|[k v'] r IH]; intros H; cbn; [reflexivity|].
  assert (k <= b)%N by (apply (H k v'); left; reflexivity).
  destruct (k <=? t)%N; [destruct (b <? k)%N eqn:E; [lia|]|];
    apply IH; intros k2 v2 Hin; apply (H k2 v2); right; exact Hin.
Qed.

Lemma latest_from_max rows t best b v :
  keys_le rows b -> (b <= t)%N -> alookup b rows = Some v ->
  match best with None => True | Some (k0, v0) => (k0 < b)%N \/ (k0 = b /\ v0 = v) end ->
  latest_from rows t best = Some (b, v).
Proof.
  revert best. induction rows as [|[k v'] r IH]; intros best H Hbt Hl Hb; cbn in *; [discriminate|].
  assert (k <= b)%N as Hkb by (apply (H k v'); left; reflexivity).
  assert (keys_le r b) as Hr by (intros k2 v2 Hin; apply (H k2 v2); right; exact Hin).
  destruct (b =? k)%N eqn:E.
  - injection Hl as ->. apply N.eqb_eq in E. subst k.
    destruct (b <=? t)%N eqn:E2; [|lia].
    destruct best as [[k0 v0]|].
    + destruct Hb as [Hlt|[-> ->]].
      * destruct (k0 <? b)%N eqn:E3; [|lia]. apply latest_from_stay; exact Hr.
      * destruct (b <? b)%N eqn:E3; [lia|]. apply latest_from_stay; exact Hr.
    + apply latest_from_stay; exact Hr.
  - apply IH; auto.
    destruct (k <=? t)%N; [|exact Hb].
    destruct best as [[k0 v0]|].
    + destruct (k0 <? k)%N eqn:E3; [left; lia|exact Hb].
    + left. lia.
Qed.

(* the current value of a series: what a read at or after its newest data point returns *)
Definition scur (rows : series) : N := sread rows (smaxkey rows).

Lemma sread_cur rows t : (smaxkey rows <= t)%N -> sread rows t = scur rows.
Proof.
  intros H. unfold scur, sread. rewrite (@latest_from_indep rows t (smaxkey rows) None); [reflexivity| |].
  - intros k v Hin. pose proof (smaxkey_bound rows _ _ Hin). lia.
  - apply smaxkey_bound.
Qed.

Lemma smaxkey_aset rows b v : (smaxkey rows <= b)%N -> smaxkey (aset b v rows) = b.
Proof.
  intros H. apply N.le_antisymm.
  - (* every key of the new table is <= b *)
    assert (keys_le (aset b v rows) b) as Hk.
    { intros k' v' Hin. destruct (aset_keys _ _ _ _ _ Hin) as [->|Hin']; [lia|].
      pose proof (smaxkey_bound rows _ _ Hin'). lia. }
    clear H. unfold smaxkey. generalize (aset b v rows) Hk. intros l Hl.
    assert (forall m, (m <= b)%N -> (fold_left (fun m (kv : N * N) => N.max m (fst kv)) l m <= b)%N) as G.
    { induction l as [|[k v2] t IH]; intros m Hm; cbn; [exact Hm|].
      apply IH; [intros k' v' Hin; apply (Hl k' v'); right; exact Hin|].
      assert (k <= b)%N by (apply (Hl k v2); left; reflexivity). lia. }
    apply G. lia.
  - assert (In (b, v) (aset b v rows)) as Hin.
    { clear H. induction rows as [|[k v2] t IH]; cbn; [left; reflexivity|].
      destruct (b =? k)%N; cbn; [left; reflexivity|right; exact IH]. }
    exact (smaxkey_bound (aset b v rows) _ _ Hin).
Qed.

Lemma scur_aset rows b v : (smaxkey rows <= b)%N -> scur (aset b v rows) = v.
Proof.
  intros H. unfold scur. rewrite (smaxkey_aset rows v H). unfold sread.
  rewrite (@latest_from_max (aset b v rows) b None b v); auto.
  - intros k' v' Hin. destruct (aset_keys _ _ _ _ _ Hin) as [->|Hin']; [lia|].
    pose proof (smaxkey_bound rows _ _ Hin'). lia.
  - lia.
  - apply alookup_aset_same.
Qed.

Lemma scur_nil : scur [] = 0%N.
Proof. reflexivity. Qed.

(* one increment at a bucket that is not older than the newest data point *)
Lemma sincr_spec rows b delta neg rows' : (smaxkey rows <= b)%N ->
  sincr rows b delta neg = Ok rows' ->
  (smaxkey rows <= smaxkey rows')%N /\ (smaxkey rows' <= b)%N /\
  (if neg then (delta <= scur rows)%N /\ scur rows' = (scur rows - delta)%N
   else scur rows' = (scur rows + delta)%N).
Proof.
  intros Hb. unfold sincr. destruct (delta =? 0)%N eqn:E0.
  - intros [= <-]. split; [lia|]. split; [exact Hb|]. destruct neg; [split|]; lia.
  - rewrite (sread_cur rows Hb). destruct neg.
    + destruct (scur rows <? delta)%N eqn:E1; [discriminate|]. intros [= <-].
      rewrite smaxkey_aset, scur_aset by exact Hb. lia.
    + unfold cadd. destruct (scur rows + delta <? two128)%N; cbn; [|discriminate]. intros [= <-].
      rewrite smaxkey_aset, scur_aset by exact Hb. lia.
Qed.

(* predictable argument lists: only the row type is implicit *)
Arguments tmem_In [A] key k l.
Arguments tmem_false_In [A] key k l.
Arguments ssorted_unique [A] key l x y _ _ _ _.
Arguments ssorted_ext [A] key l1 l2 _ _ _.
Arguments tins_spec [A] key x l _.
Arguments tdel_spec [A] key k l l' _ _.
Arguments tdel_none [A] key k l _.
Arguments tdel_some [A] key k l _.
Arguments wsum_tins [A] w key x l _ _.
Arguments wsum_tdel [A] w key x l l' _ _ _.
Arguments sincr_spec : clear implicits.
Arguments sread_cur : clear implicits.
Arguments smaxkey_aset : clear implicits.
Arguments scur_aset : clear implicits.
