(* Storage/BatchProofs2.v — the expire / prune / migrate loops, batch by batch (C08):
   every batch keeps the weak invariant, a batch followed by the atomic operation of Model.v is
   the atomic operation, the loop of batches equals the atomic definition. *)
From Coq Require Import Lia ZifyBool ZifyN ZifyNat.
From HostdBase Require Import Base.
From HostdStorage Require Import Model Lemmas Proofs Proofs2 Proofs3 WProofs Batch BatchProofs.

Local Open Scope Z_scope.
Arguments stat_inc : simpl never.
Arguments vol_usage : simpl never.
Arguments set_slot : simpl never.
Arguments csum : simpl never.

(** * Record eta *)
Lemma set_roots_id c : set_roots c (croots c) = c.
Proof. destruct c; reflexivity. Qed.

Lemma state_eta s : with_mets (with_cons (with_temps (with_vols s (vols s)) (temps s)) (cons s)) (mets s) = s.
Proof. destruct s; reflexivity. Qed.

Lemma met_eta m : {| mTotal := mTotal m; mPhys := mPhys m; mLost := mLost m; mContract := mContract m; mTemp := mTemp m |} = m.
Proof. destruct m; reflexivity. Qed.

(** * Expire(V2)ContractSectors *)
Lemma del_at_nil i l : del_at [] i l = l.
Proof. revert i; induction l as [|x t IH]; intros i; cbn; [reflexivity|now rewrite IH]. Qed.

Lemma del_at_length ps i l : (length (del_at ps i l) <= length l)%nat.
Proof.
  revert i; induction l as [|x t IH]; intros i; cbn; [lia|].
  destruct (mem i ps); cbn; specialize (IH (N.succ i)); lia.
Qed.

Lemma csum_cons c l : csum (c :: l) = Z.of_nat (length (croots c)) + csum l.
Proof. reflexivity. Qed.

Lemma exp_sel_set_roots v2 h c x : exp_sel v2 h (set_roots c x) = exp_sel v2 h c.
Proof. reflexivity. Qed.

Lemma exp_batch_csum_le v2 h picks l : csum (exp_batch_cons v2 h picks l) <= csum l.
Proof.
  induction l as [|c t IH]; [reflexivity|]. unfold exp_batch_cons in *. cbn [map].
  rewrite !csum_cons. destruct (exp_sel v2 h c); cbn [croots set_roots]; [|lia].
  pose proof (del_at_length (pos_of (cid c) picks) 0 (croots c)). lia.
Qed.

Definition exp_all (v2 : bool) (h : N) (l : list contract) : list contract :=
  map (fun c => if exp_sel v2 h c then set_roots c [] else c) l.

Lemma exp_all_batch v2 h picks l : exp_all v2 h (exp_batch_cons v2 h picks l) = exp_all v2 h l.
Proof.
  unfold exp_all, exp_batch_cons. rewrite map_map. apply map_ext. intros c.
  destruct (exp_sel v2 h c) eqn:E; [|now rewrite E].
  rewrite exp_sel_set_roots, E. reflexivity.
Qed.

Lemma expire_batch_shape v2 h b picks s s' o :
  expire_batch v2 h b picks s = (s', o) ->
  s' = s \/ (o = ORes (Ok tt) /\
             s' = with_mets (with_cons s (exp_batch_cons v2 h picks (cons s)))
                    (set_mContract (mets s) (mContract (mets s) - (csum (cons s) - csum (exp_batch_cons v2 h picks (cons s)))))).
Proof.
  unfold expire_batch. set (l' := exp_batch_cons v2 h picks (cons s)).
  destruct (_ && _); [|intros [= <- <-]; now left].
  destruct (stat_inc _ _) as [m| |] eqn:S; cbn [bind fin]; try (intros [= <- <-]; now left).
  intros [= <- <-]. right. split; [reflexivity|]. apply stat_inc_ok in S. subst m. reflexivity.
Qed.

Lemma winv_expire_batch v2 h b picks s : winv s -> winv (fst (expire_batch v2 h b picks s)).
Proof.
  intros I. destruct (expire_batch v2 h b picks s) as [s' o] eqn:R. cbn [fst].
  destruct (expire_batch_shape _ _ _ _ _ _ _ R) as [->|[_ ->]]; [exact I|].
  apply (winv_refs s); cbn; auto.
  - rewrite (winv_contract s I). lia.
  - apply (winv_temp s I).
Qed.

Lemma expire_cons_wok v2 h s : winv s ->
  expire_cons v2 h s =
  Ok (with_mets (with_cons s (exp_all v2 h (cons s))) (set_mContract (mets s) (csum (exp_all v2 h (cons s))))).
Proof.
  intros I. unfold expire_cons. fold (exp_all v2 h (cons s)).
  set (l' := exp_all v2 h (cons s)). pose proof (csum_nonneg l').
  rewrite stat_inc_eq by (rewrite (winv_contract s I); lia). cbn [bind].
  do 3 f_equal. rewrite (winv_contract s I). lia.
Qed.

Lemma expire_batch_absorbed v2 h b picks s s1 :
  winv s -> expire_batch v2 h b picks s = (s1, ORes (Ok tt)) ->
  expire_cons v2 h s1 = expire_cons v2 h s.
Proof.
  intros I R. pose proof (winv_expire_batch v2 h b picks s I) as I1. rewrite R in I1. cbn [fst] in I1.
  destruct (expire_batch_shape _ _ _ _ _ _ _ R) as [->|[_ E]]; [reflexivity|].
  rewrite (expire_cons_wok v2 h s I), (expire_cons_wok v2 h s1 I1). subst s1.
  cbn [cons with_mets with_cons mets vols known temps set_mContract]. rewrite exp_all_batch. reflexivity.
Qed.

(* nothing eligible: the selected contracts have no roots, expiry changes nothing *)
Lemma exp_all_noop v2 h l : exp_eligible v2 h l = 0 -> exp_all v2 h l = l.
Proof.
  unfold exp_eligible, exp_all. induction l as [|c t IH]; cbn [filter map]; [reflexivity|].
  destruct (exp_sel v2 h c) eqn:E.
  - rewrite csum_cons. intros H. pose proof (csum_nonneg (filter (exp_sel v2 h) t)).
    rewrite IH by lia. f_equal. destruct c as [a b0 c0 d e rs]; cbn [croots] in H.
    destruct rs; [reflexivity|cbn [length] in H; lia].
  - intros H. now rewrite IH.
Qed.

Lemma expire_cons_noop v2 h s : winv s -> exp_eligible v2 h (cons s) = 0 -> expire_cons v2 h s = Ok s.
Proof.
  intros I H. rewrite (expire_cons_wok v2 h s I), (exp_all_noop v2 h _ H).
  rewrite <- (winv_contract s I). destruct s as [vs kn ts cs m]; destruct m; reflexivity.
Qed.

Lemma exp_eligible_nonneg v2 h l : 0 <= exp_eligible v2 h l.
Proof. apply csum_nonneg. Qed.

Lemma exp_batch_nil v2 h l : exp_batch_cons v2 h [] l = l.
Proof.
  unfold exp_batch_cons. induction l as [|c t IH]; cbn [map]; [reflexivity|]. rewrite IH. f_equal.
  destruct (exp_sel v2 h c); [|reflexivity]. cbn [pos_of filter map]. rewrite del_at_nil. apply set_roots_id.
Qed.

(* ExpireContractSectors / ExpireV2ContractSectors as the loop of their batches *)
Theorem expire_run_atomic v2 h b : (0 < b)%N -> forall cs s,
  winv s -> snd (expire_run v2 h b cs s) <> OBad ->
  expire_run v2 h b cs s = fin s (expire_cons v2 h s).
Proof.
  intros Hb. induction cs as [|c rest IH]; intros s I Hbad; cbn [expire_run] in *; [cbn in Hbad; congruence|].
  destruct (expire_batch v2 h b c s) as [s1 o] eqn:R.
  pose proof (winv_expire_batch v2 h b c s I) as I1. rewrite R in I1. cbn [fst] in I1.
  assert (Hok : exists s', expire_cons v2 h s = Ok s') by (rewrite (expire_cons_wok v2 h s I); eauto).
  destruct Hok as [sf Hsf].
  destruct (expire_batch_shape _ _ _ _ _ _ _ R) as [->|[-> E]].
  - (* the batch did not commit: OBad or a stat guard *)
    unfold expire_batch in R. set (l' := exp_batch_cons v2 h c (cons s)) in R.
    destruct (_ && _) eqn:V in R.
    + pose proof (exp_batch_csum_le v2 h c (cons s)) as Hle. fold l' in Hle.
      rewrite stat_inc_eq in R by (rewrite (winv_contract s I); pose proof (csum_nonneg l'); lia).
      cbn [bind fin] in R. pose proof (f_equal snd R) as R2. cbn [snd] in R2. subst o. cbn [snd] in *.
      apply Bool.andb_true_iff in V as [V1 V2].
      destruct c as [|p t].
      * destruct rest; [|cbn in Hbad; congruence].
        cbn [length] in V1. pose proof (exp_eligible_nonneg v2 h (cons s)).
        rewrite (expire_cons_noop v2 h s I) by lia. reflexivity.
      * rewrite (IH s I Hbad). reflexivity.
    + pose proof (f_equal snd R) as R2. cbn [snd] in R2. subst o. cbn in Hbad. congruence.
  - pose proof (expire_batch_absorbed v2 h b c s s1 I R) as A.
    destruct c as [|p t].
    + destruct rest; [|cbn in Hbad; congruence].
      (* an empty batch that "changed" the state: it is the same state *)
      unfold expire_batch in R. rewrite exp_batch_nil in R.
      replace (csum (cons s) - csum (cons s)) with 0 in R by lia.
      destruct (_ && _) eqn:V in R; [|discriminate].
      apply Bool.andb_true_iff in V as [_ V2]. pose proof (exp_eligible_nonneg v2 h (cons s)).
      rewrite (expire_cons_noop v2 h s I) by lia. cbn [fin].
      unfold stat_inc in R. cbn in R. injection R as R. rewrite <- R.
      destruct s as [vs kn ts cs0 m]; destruct m; reflexivity.
    + rewrite (IH s1 I1 Hbad), A, Hsf. reflexivity.
Qed.

(** * ExpireTempSectors *)
Lemma del_temps_nil h i l : del_temps h [] i l = l.
Proof. revert i; induction l as [|x t IH]; intros i; cbn; [reflexivity|now rewrite IH]. Qed.

Lemma del_temps_length h ps i l : (length (del_temps h ps i l) <= length l)%nat.
Proof.
  revert i; induction l as [|x t IH]; intros i; cbn; [lia|].
  destruct (mem i ps && negb (temp_live h x)); cbn; specialize (IH (N.succ i)); lia.
Qed.

Lemma filter_del_temps h ps i l : filter (temp_live h) (del_temps h ps i l) = filter (temp_live h) l.
Proof.
  revert i; induction l as [|x t IH]; intros i; cbn [del_temps filter]; [reflexivity|].
  destruct (temp_live h x) eqn:E.
  - rewrite Bool.andb_false_r. cbn [filter]. rewrite E. now rewrite IH.
  - destruct (mem i ps); cbn [andb negb filter]; [apply IH|]. rewrite E. apply IH.
Qed.

Lemma temp_batch_shape h b picks s s' o :
  temp_batch h b picks s = (s', o) ->
  s' = s \/ (o = ORes (Ok tt) /\
             s' = with_mets (with_temps s (del_temps h picks 0 (temps s)))
                    (set_mTemp (mets s) (mTemp (mets s) - (Z.of_nat (length (temps s)) - Z.of_nat (length (del_temps h picks 0 (temps s))))))).
Proof.
  unfold temp_batch. set (l' := del_temps h picks 0 (temps s)).
  destruct (_ && _); [|intros [= <- <-]; now left].
  destruct (stat_inc _ _) as [m| |] eqn:S; cbn [bind fin]; try (intros [= <- <-]; now left).
  intros [= <- <-]. right. split; [reflexivity|]. apply stat_inc_ok in S. subst m. reflexivity.
Qed.

Lemma winv_temp_batch h b picks s : winv s -> winv (fst (temp_batch h b picks s)).
Proof.
  intros I. destruct (temp_batch h b picks s) as [s' o] eqn:R. cbn [fst].
  destruct (temp_batch_shape _ _ _ _ _ _ R) as [->|[_ ->]]; [exact I|].
  apply (winv_refs s); cbn; auto.
  - apply (winv_contract s I).
  - rewrite (winv_temp s I). lia.
Qed.

Lemma expire_temp_wok h s : winv s ->
  expire_temp h s =
  Ok (with_mets (with_temps s (filter (temp_live h) (temps s)))
                (set_mTemp (mets s) (Z.of_nat (length (filter (temp_live h) (temps s)))))).
Proof.
  intros I. unfold expire_temp. set (k := filter _ _).
  rewrite stat_inc_eq by (rewrite (winv_temp s I); lia). cbn [bind].
  do 3 f_equal. rewrite (winv_temp s I). lia.
Qed.

Lemma temp_batch_absorbed h b picks s s1 :
  winv s -> temp_batch h b picks s = (s1, ORes (Ok tt)) -> expire_temp h s1 = expire_temp h s.
Proof.
  intros I R. pose proof (winv_temp_batch h b picks s I) as I1. rewrite R in I1. cbn [fst] in I1.
  destruct (temp_batch_shape _ _ _ _ _ _ R) as [->|[_ E]]; [reflexivity|].
  rewrite (expire_temp_wok h s I), (expire_temp_wok h s1 I1). subst s1.
  cbn [temps with_mets with_temps mets vols known cons set_mTemp]. rewrite filter_del_temps. reflexivity.
Qed.

Lemma filter_all_length {A} (p : A -> bool) l : length (filter p l) = length l -> filter p l = l.
Proof.
  induction l as [|a t IH]; cbn; [reflexivity|]. destruct (p a); cbn.
  - intros H. f_equal. apply IH. lia.
  - intros H. pose proof (filter_length_le p t). lia.
Qed.

Lemma temp_eligible_nonneg h l : 0 <= temp_eligible h l.
Proof. unfold temp_eligible. pose proof (filter_length_le (temp_live h) l). lia. Qed.

Lemma expire_temp_noop h s : winv s -> temp_eligible h (temps s) = 0 -> expire_temp h s = Ok s.
Proof.
  intros I H. rewrite (expire_temp_wok h s I). unfold temp_eligible in H.
  rewrite filter_all_length by lia. rewrite <- (winv_temp s I).
  destruct s as [vs kn ts cs m]; destruct m; reflexivity.
Qed.

Theorem temp_run_atomic h b : (0 < b)%N -> forall cs s,
  winv s -> snd (temp_run h b cs s) <> OBad ->
  temp_run h b cs s = fin s (expire_temp h s).
Proof.
  intros Hb. induction cs as [|c rest IH]; intros s I Hbad; cbn [temp_run] in *; [cbn in Hbad; congruence|].
  destruct (temp_batch h b c s) as [s1 o] eqn:R.
  pose proof (winv_temp_batch h b c s I) as I1. rewrite R in I1. cbn [fst] in I1.
  assert (Hok : exists s', expire_temp h s = Ok s') by (rewrite (expire_temp_wok h s I); eauto).
  destruct Hok as [sf Hsf].
  destruct (temp_batch_shape _ _ _ _ _ _ R) as [->|[-> E]].
  - unfold temp_batch in R. set (l' := del_temps h c 0 (temps s)) in R.
    destruct (_ && _) eqn:V in R.
    + pose proof (del_temps_length h c 0 (temps s)) as Hle. fold l' in Hle.
      rewrite stat_inc_eq in R by (rewrite (winv_temp s I); lia).
      cbn [bind fin] in R. pose proof (f_equal snd R) as R2. cbn [snd] in R2. subst o. cbn [snd] in *.
      apply Bool.andb_true_iff in V as [V1 V2].
      destruct c as [|p t].
      * destruct rest; [|cbn in Hbad; congruence].
        cbn [length] in V1. pose proof (temp_eligible_nonneg h (temps s)).
        rewrite (expire_temp_noop h s I) by lia. reflexivity.
      * rewrite (IH s I Hbad). reflexivity.
    + pose proof (f_equal snd R) as R2. cbn [snd] in R2. subst o. cbn in Hbad. congruence.
  - pose proof (temp_batch_absorbed h b c s s1 I R) as A.
    destruct c as [|p t].
    + destruct rest; [|cbn in Hbad; congruence].
      unfold temp_batch in R. rewrite del_temps_nil in R.
      replace (Z.of_nat (length (temps s)) - Z.of_nat (length (temps s))) with 0 in R by lia.
      destruct (_ && _) eqn:V in R; [|discriminate].
      apply Bool.andb_true_iff in V as [_ V2]. pose proof (temp_eligible_nonneg h (temps s)).
      rewrite (expire_temp_noop h s I) by lia. cbn [fin].
      unfold stat_inc in R. cbn in R. injection R as R. rewrite <- R.
      destruct s as [vs kn ts cs0 m]; destruct m; reflexivity.
    + rewrite (IH s1 I1 Hbad), A, Hsf. reflexivity.
Qed.

(** * PruneSectors *)
Lemma pb_slots_cons f v picks j x t :
  pb_slots f v picks ((j, x) :: t) =
  (j, match x with Some r => if negb (f r) && memp (v, j) picks then None else Some r | None => None end)
    :: pb_slots f v picks t.
Proof. unfold pb_slots; cbn. destruct x as [r|]; [destruct (negb (f r) && memp (v, j) picks)|]; reflexivity. Qed.

Lemma pb_slots_keys f v picks l : map fst (pb_slots f v picks l) = map fst l.
Proof. induction l as [|[j x] t IH]; [reflexivity|]. rewrite pb_slots_cons; cbn. now rewrite IH. Qed.

Lemma pb_slots_length f v picks l : length (pb_slots f v picks l) = length l.
Proof. unfold pb_slots. apply map_length. Qed.

Lemma pb_slots_le g f v picks l : (forall x, 0 <= g x) -> g None = 0 -> wsum g (pb_slots f v picks l) <= wsum g l.
Proof.
  intros Hg H0; induction l as [|[j x] t IH]; [cbn; lia|]. rewrite pb_slots_cons; cbn [wsum].
  destruct x as [r|]; [destruct (negb (f r) && memp (v, j) picks)|]; try lia. specialize (Hg (Some r)); lia.
Qed.

Lemma pslots_pb f v picks l : pslots f (pb_slots f v picks l) = pslots f l.
Proof.
  induction l as [|[j x] t IH]; [reflexivity|]. rewrite pb_slots_cons, !pslots_cons, IH. f_equal.
  destruct x as [r|]; [|reflexivity]. destruct (f r) eqn:E; cbn [negb andb]; [now rewrite E|].
  destruct (memp (v, j) picks); [reflexivity|now rewrite E].
Qed.

Lemma prunable_pb f v picks l :
  wsum (prunable f) (pb_slots f v picks l) =
  wsum (prunable f) l - (wsum occ1 l - wsum occ1 (pb_slots f v picks l)).
Proof.
  induction l as [|[j x] t IH]; [reflexivity|]. rewrite pb_slots_cons; cbn [wsum]. rewrite IH.
  destruct x as [r|]; cbn [prunable occ1]; [|lia].
  destruct (f r) eqn:E; cbn [negb andb prunable occ1]; [rewrite E; lia|].
  destruct (memp (v, j) picks); cbn [prunable occ1]; [lia|rewrite E; lia].
Qed.

Lemma pb_slots_nil f v l : pb_slots f v [] l = l.
Proof.
  induction l as [|[j x] t IH]; [reflexivity|]. rewrite pb_slots_cons, IH. f_equal.
  destruct x as [r|]; [|reflexivity]. cbn [memp existsb]. now rewrite Bool.andb_false_r.
Qed.

(* the volume after a batch, the number of slots the batch cleared *)
Definition pb_c (f : N -> bool) (picks : list (N * N)) (vl : vol) : Z :=
  wsum occ1 (vslots vl) - wsum occ1 (pb_slots f (vid vl) picks (vslots vl)).
Definition pbvol (f : N -> bool) (picks : list (N * N)) (vl : vol) : vol :=
  set_used (set_slots vl (pb_slots f (vid vl) picks (vslots vl))) (vused vl - pb_c f picks vl).
Definition pb_cnt f picks (l : list vol) : Z := gsum (pb_c f picks) l.
Definition pr_cnt (f : N -> bool) (l : list vol) : Z := gsum (fun vl => wsum (prunable f) (vslots vl)) l.

Lemma prunable_cnt_gsum f l : prunable_cnt f l = pr_cnt f l.
Proof. induction l as [|vl t IH]; [reflexivity|]. unfold prunable_cnt, pr_cnt in *. cbn. now rewrite IH. Qed.

Lemma pb_c_nonneg f picks vl : 0 <= pb_c f picks vl.
Proof. unfold pb_c. pose proof (pb_slots_le occ1 f (vid vl) picks (vslots vl) occ1_nonneg eq_refl). lia. Qed.

Lemma pb_cnt_nonneg f picks l : 0 <= pb_cnt f picks l.
Proof. apply gsum_nonneg. intros; apply pb_c_nonneg. Qed.

Lemma prune_batch_vols_total f picks l : Forall wvol_ok l ->
  prune_batch_vols f picks l = Ok (map (pbvol f picks) l, pb_cnt f picks l).
Proof.
  induction l as [|vl t IH]; intros HF; cbn [prune_batch_vols map]; [reflexivity|].
  inversion HF as [|? ? [O1 [O2 O3]] HF']; subst. rewrite (IH HF'). cbn [bind].
  fold (pb_c f picks vl).
  pose proof (wsum_nonneg occ1 (pb_slots f (vid vl) picks (vslots vl)) occ1_nonneg) as Hnn.
  replace (vused vl - pb_c f picks vl <? 0) with false by (unfold pb_c; lia).
  rewrite Bool.andb_false_r. reflexivity.
Qed.

Lemma pbvol_ok f picks vl : wvol_ok vl -> wvol_ok (pbvol f picks vl).
Proof.
  intros [O1 [O2 O3]]. unfold wvol_ok, pbvol, pb_c; cbn.
  rewrite pb_slots_keys, pb_slots_length. repeat split; auto. lia.
Qed.

Lemma pvol_pbvol f picks vl : pvol f (pbvol f picks vl) = pvol f vl.
Proof.
  unfold pvol, pbvol. cbn [vslots vused set_used set_slots]. rewrite pslots_pb, prunable_pb. unfold pb_c.
  destruct vl; unfold set_used, set_slots; cbn. f_equal. lia.
Qed.

Lemma map_pbvol_facts f picks l :
  map vid (map (pbvol f picks) l) = map vid l /\
  gsum vused (map (pbvol f picks) l) = gsum vused l - pb_cnt f picks l /\
  gsum vtotal (map (pbvol f picks) l) = gsum vtotal l /\
  (forall r, gcnt r (map (pbvol f picks) l) <= gcnt r l) /\
  pr_cnt f (map (pbvol f picks) l) = pr_cnt f l - pb_cnt f picks l /\
  map (pvol f) (map (pbvol f picks) l) = map (pvol f) l.
Proof.
  induction l as [|vl t [H1 [H2 [H3 [H4 [H5 H6]]]]]]; cbn [map].
  - repeat split; try reflexivity.
  - unfold pb_cnt, pr_cnt, gcnt in *. cbn [gsum map]. repeat split.
    + now rewrite H1.
    + rewrite H2. cbn. lia.
    + rewrite H3. reflexivity.
    + intros r. specialize (H4 r). cbn.
      pose proof (pb_slots_le (is_root r) f (vid vl) picks (vslots vl) (is_root_nonneg r) eq_refl). lia.
    + rewrite H5. cbn. rewrite prunable_pb. unfold pb_c. lia.
    + rewrite H6. f_equal. apply pvol_pbvol.
Qed.

Lemma Forall_map_pbvol_ok f picks l : Forall wvol_ok l -> Forall wvol_ok (map (pbvol f picks) l).
Proof.
  intros HF. apply Forall_forall. intros x Hx. apply in_map_iff in Hx as [y [<- Hy]].
  rewrite Forall_forall in HF. apply pbvol_ok. auto.
Qed.

Definition pb_state (picks : list (N * N)) (s : state) : state :=
  with_mets (with_vols s (map (pbvol (refd s) picks) (vols s)))
            (set_mPhys (mets s) (mPhys (mets s) - pb_cnt (refd s) picks (vols s))).

Lemma gsum_vused_nonneg_w l : Forall wvol_ok l -> 0 <= gsum vused l.
Proof.
  induction l as [|vl t IH]; intros HF; cbn; [lia|]. inversion HF as [|? ? O HF']; subst.
  specialize (IH HF'). destruct (wvol_nonneg vl O). lia.
Qed.

(* under the invariant a batch of the prune loop commits exactly when its picks are valid *)
Lemma prune_batch_cases b picks s : winv s ->
  prune_batch b picks s =
  if (pb_cnt (refd s) picks (vols s) =? Z.of_nat (length picks)) &&
     (pb_cnt (refd s) picks (vols s) =? Z.min (Z.of_N b) (pr_cnt (refd s) (vols s)))
  then (pb_state picks s, ORes (Ok tt)) else (s, OBad).
Proof.
  intros I. unfold prune_batch. rewrite (prune_batch_vols_total _ _ _ (winv_vol s I)).
  rewrite prunable_cnt_gsum. destruct (_ && _); [|reflexivity].
  destruct (map_pbvol_facts (refd s) picks (vols s)) as [_ [H2 _]].
  pose proof (gsum_vused_nonneg_w _ (Forall_map_pbvol_ok (refd s) picks (vols s) (winv_vol s I))) as Hnn.
  rewrite stat_inc_eq by (rewrite (winv_phys s I); lia). cbn [bind fin]. reflexivity.
Qed.

Lemma winv_pb_state picks s : winv s -> winv (pb_state picks s).
Proof.
  intros I. destruct (map_pbvol_facts (refd s) picks (vols s)) as [H1 [H2 [H3 [H4 _]]]].
  pose proof (Forall_map_pbvol_ok (refd s) picks (vols s) (winv_vol s I)) as HF.
  destruct I as [I1 I2 I3 I4 I5 I6 I7 I8]. unfold pb_state.
  constructor; cbn [vols mets with_mets with_vols set_mPhys mPhys mTotal mLost mContract mTemp temps cons known]; auto.
  - now rewrite H1.
  - intros r. specialize (H4 r). specialize (I3 r). lia.
  - lia.
  - lia.
Qed.

Lemma winv_prune_batch b picks s : winv s -> winv (fst (prune_batch b picks s)).
Proof.
  intros I. rewrite (prune_batch_cases b picks s I). destruct (_ && _); cbn [fst]; [|exact I].
  now apply winv_pb_state.
Qed.

Lemma wprune_vols_total f l : Forall wvol_ok l -> prune_vols f l = Ok (map (pvol f) l, pr_cnt f l).
Proof.
  induction l as [|vl t IH]; intros HF; cbn [prune_vols map]; [reflexivity|].
  inversion HF as [|? ? [O1 [O2 O3]] HF']; subst. rewrite (IH HF').
  pose proof (wsum_le (prunable f) occ1 (vslots vl) (prunable_le_occ f)).
  replace (vused vl - wsum (prunable f) (vslots vl) <? 0) with false by lia. reflexivity.
Qed.

Lemma pr_cnt_le_used f l : Forall wvol_ok l -> 0 <= pr_cnt f l <= gsum vused l.
Proof.
  induction l as [|vl t IH]; intros HF; unfold pr_cnt in *; cbn; [lia|].
  inversion HF as [|? ? [O1 [O2 O3]] HF']; subst. specialize (IH HF').
  pose proof (wsum_le (prunable f) occ1 (vslots vl) (prunable_le_occ f)).
  pose proof (wsum_nonneg (prunable f) (vslots vl) (prunable_nonneg f)). lia.
Qed.

Lemma prune_wok s : winv s ->
  prune true s = Ok (with_mets (with_vols s (map (pvol (refd s)) (vols s)))
                               (set_mPhys (mets s) (mPhys (mets s) - pr_cnt (refd s) (vols s)))).
Proof.
  intros I. unfold prune, prune_with. cbn [negb]. rewrite (wprune_vols_total _ _ (winv_vol s I)). cbn [bind].
  pose proof (pr_cnt_le_used (refd s) _ (winv_vol s I)).
  rewrite stat_inc_eq by (rewrite (winv_phys s I); lia). reflexivity.
Qed.

Lemma prune_batch_absorbed b picks s s1 :
  winv s -> prune_batch b picks s = (s1, ORes (Ok tt)) -> prune true s1 = prune true s.
Proof.
  intros I R. rewrite (prune_batch_cases b picks s I) in R.
  destruct (_ && _); [|discriminate]. injection R as <-.
  pose proof (winv_pb_state picks s I) as I1.
  rewrite (prune_wok s I), (prune_wok _ I1).
  destruct (map_pbvol_facts (refd s) picks (vols s)) as [_ [_ [_ [_ [H5 H6]]]]].
  unfold pb_state. change (refd (with_mets (with_vols s (map (pbvol (refd s) picks) (vols s))) _)) with (refd s).
  cbn [vols mets with_mets with_vols set_mPhys mPhys]. rewrite H5, H6.
  unfold with_mets, with_vols, set_mPhys; cbn. do 3 f_equal. lia.
Qed.

Lemma pslots_noop f l : wsum (prunable f) l = 0 -> pslots f l = l.
Proof.
  induction l as [|[j x] t IH]; [reflexivity|]. rewrite pslots_cons. cbn [wsum]. intros H.
  pose proof (wsum_nonneg (prunable f) t (prunable_nonneg f)). pose proof (prunable_nonneg f x).
  rewrite IH by lia. f_equal. destruct x as [r|]; [|reflexivity]. cbn [prunable] in *.
  destruct (f r); [reflexivity|lia].
Qed.

Lemma map_pvol_noop f l : pr_cnt f l = 0 -> map (pvol f) l = l.
Proof.
  induction l as [|vl t IH]; [reflexivity|]. unfold pr_cnt in *. cbn [gsum map]. intros H.
  pose proof (wsum_nonneg (prunable f) (vslots vl) (prunable_nonneg f)).
  assert (0 <= gsum (fun vl => wsum (prunable f) (vslots vl)) t)
    by (apply gsum_nonneg; intros; apply wsum_nonneg, prunable_nonneg).
  rewrite IH by lia. f_equal. unfold pvol. rewrite pslots_noop by lia.
  replace (wsum (prunable f) (vslots vl)) with 0 by lia. destruct vl; unfold set_used, set_slots; cbn. f_equal. lia.
Qed.

Lemma prune_noop s : winv s -> pr_cnt (refd s) (vols s) = 0 -> prune true s = Ok s.
Proof.
  intros I H. rewrite (prune_wok s I), H, (map_pvol_noop _ _ H).
  destruct s as [vs kn ts cs m]; destruct m; unfold with_mets, with_vols, set_mPhys; cbn. do 3 f_equal. lia.
Qed.

Lemma pbvol_nil f vl : pbvol f [] vl = vl.
Proof.
  unfold pbvol, pb_c. rewrite pb_slots_nil. destruct vl; unfold set_used, set_slots; cbn. f_equal. lia.
Qed.

Lemma map_pbvol_nil f l : map (pbvol f []) l = l.
Proof. induction l as [|vl t IH]; [reflexivity|]. cbn [map]. now rewrite pbvol_nil, IH. Qed.

Lemma pb_cnt_nil f l : pb_cnt f [] l = 0.
Proof.
  unfold pb_cnt. induction l as [|vl t IH]; [reflexivity|]. cbn [gsum]. rewrite IH.
  unfold pb_c. rewrite pb_slots_nil. lia.
Qed.

Lemma pb_state_nil s : pb_state [] s = s.
Proof.
  unfold pb_state. rewrite map_pbvol_nil, pb_cnt_nil.
  destruct s as [vs kn ts cs m]; destruct m; unfold with_mets, with_vols, set_mPhys; cbn. do 2 f_equal. lia.
Qed.

(* PruneSectors (cutoff later than every access) as the loop of its batches *)
Theorem prune_run_atomic b : (0 < b)%N -> forall cs s,
  winv s -> snd (prune_run b cs s) <> OBad ->
  prune_run b cs s = fin s (prune true s).
Proof.
  intros Hb. induction cs as [|c rest IH]; intros s I Hbad; cbn [prune_run] in *; [cbn in Hbad; congruence|].
  pose proof (prune_batch_cases b c s I) as Cs.
  destruct (_ && _) eqn:V in Cs.
  - pose proof (prune_batch_absorbed b c s _ I Cs) as A. rewrite Cs in *.
    pose proof (winv_pb_state c s I) as I1.
    apply Bool.andb_true_iff in V as [V1 V2].
    destruct c as [|p t].
    + destruct rest; [|cbn in Hbad; congruence].
      cbn [length] in V1. pose proof (pr_cnt_le_used (refd s) _ (winv_vol s I)).
      rewrite (prune_noop s I) by lia. rewrite pb_state_nil. reflexivity.
    + rewrite (IH _ I1 Hbad), A, (prune_wok s I). reflexivity.
  - rewrite Cs in Hbad. cbn in Hbad. congruence.
Qed.

(** * MigrateSectors *)
(* [migrate] of Model.v is the iteration of the loop's transactions *)
Theorem mig_iter_eq fuel : forall v start index calls mig fail s,
  mig_iter fuel v start index calls mig fail s = migrate fuel v start index calls mig fail s.
Proof.
  induction fuel as [|f IH]; intros; cbn [mig_iter migrate]; [reflexivity|].
  unfold mig_tx.
  destruct (next_occ index (slots_of v s) None) as [[idx r]|].
  2:{ destruct calls; reflexivity. }
  destruct (mig_has_target s v start); cbn [negb].
  2:{ destruct calls; reflexivity. }
  destruct calls as [|[[fidx to] ok] rest]; cbn [hd_error tl]; [reflexivity|].
  destruct (negb ((fidx =? idx)%N && mig_valid_target s v start to)); [reflexivity|].
  destruct ok.
  - destruct (mig_move v idx r to s); try reflexivity. rewrite IH. now rewrite N.add_0_r.
  - rewrite IH. now rewrite N.add_0_r.
Qed.

Lemma winv_mig_tx v start index call s : winv s -> winv (fst (fst (mig_tx v start index call s))).
Proof.
  intros I. unfold mig_tx.
  destruct (next_occ index (slots_of v s) None) as [[idx r]|] eqn:Nx.
  2:{ destruct call; exact I. }
  destruct (mig_has_target s v start); cbn [negb].
  2:{ destruct call; exact I. }
  destruct call as [[[fidx to] ok]|]; [|exact I].
  destruct ((fidx =? idx)%N && mig_valid_target s v start to) eqn:V; cbn [negb]; [|exact I].
  apply Bool.andb_true_iff in V as [_ V].
  destruct ok; [|exact I].
  destruct (mig_move v idx r to s) as [s1| |] eqn:M; try exact I. cbn [fst].
  apply next_occ_in in Nx as [Nx|Nx]; [discriminate|].
  destruct (wslots_of_get v s idx r I Nx) as [vl [G S]].
  destruct (mig_valid_slot s v start to V) as [tl [Gt St]].
  exact (winv_mig_move v idx r to s s1 vl tl I G S Gt St M).
Qed.
